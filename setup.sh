#!/bin/sh
# Build the framework from files on disk only (offline): extractors -> generated facts,
# the Lean project (models, theorems, drivers), the Go harnesses against /repo (tag verif).
set -e
cd "$(dirname "$0")"
export GOFLAGS=-mod=mod GOPROXY=off
mkdir -p bin work evidence replays lean/NoKVModel/Generated
for x in extract/cmd/*/; do
  n=$(basename "$x")
  (cd extract && go build -o ../bin/x_$n ./cmd/$n)
  N=$(python3 -c "print('$n'.capitalize())")
  ./bin/x_$n -repo "${VERIF_REPO:-/repo}" -json work/facts_$n.json -lean lean/NoKVModel/Generated/Facts_$N.lean
done
(cd lean && lake build && lake build $(python3 -c "import json,glob;print(' '.join(sorted({json.load(open(f))['driver'] for f in glob.glob('../props/*.json')})))"))
for h in harness/cmd/*/; do
  n=$(basename "$h")
  (cd harness && go build -tags verif -o ../bin/h_$n ./cmd/$n)
done
echo setup-ok

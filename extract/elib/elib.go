// Package elib: helpers for the fact extractors.  A fact is a small decision read off the
// current /repo source with go/ast (operator of a comparison, presence/order of a call, a
// literal).  Every extractor rule states the syntactic *shape* it expects; when the shape
// is not found the fact is reported in shape_errors (a broken proof obligation
// `extract:<fact>`) and keeps its expected value so that the rest of the pipeline can run the
// search for a failing input.
package elib

import (
	"bytes"
	"encoding/json"
	"fmt"
	"go/ast"
	"go/parser"
	"go/printer"
	"go/token"
	"os"
	"path/filepath"
	"sort"
	"strings"
)

type File struct {
	Path string
	Fset *token.FileSet
	AST  *ast.File
}

type Out struct {
	Engine      string            `json:"engine"`
	Facts       map[string]string `json:"facts"`
	Anchors     map[string]string `json:"anchors"`
	ShapeErrors []string          `json:"shape_errors"`
	repo        string
}

func New(engine, repo string) *Out {
	return &Out{Engine: engine, Facts: map[string]string{}, Anchors: map[string]string{}, ShapeErrors: []string{}, repo: repo}
}

func (o *Out) Load(rel string) *File {
	fset := token.NewFileSet()
	p := filepath.Join(o.repo, rel)
	f, err := parser.ParseFile(fset, p, nil, parser.ParseComments)
	if err != nil {
		o.ShapeErrors = append(o.ShapeErrors, fmt.Sprintf("parse %s: %v", rel, err))
		return &File{Path: rel, Fset: fset, AST: &ast.File{}}
	}
	return &File{Path: rel, Fset: fset, AST: f}
}

// Set records a fact.  ok=false records a shape error and stores the fallback value.
func (o *Out) Set(name, anchor, value string, ok bool, fallback string) {
	o.Anchors[name] = anchor
	if ok {
		o.Facts[name] = value
		return
	}
	o.Facts[name] = fallback
	o.ShapeErrors = append(o.ShapeErrors, fmt.Sprintf("extract:%s (%s): expected shape not found", name, anchor))
}

// Func finds a function or method by name ("Name" or "Recv.Name").
func (f *File) Func(name string) *ast.FuncDecl {
	recv := ""
	if i := strings.IndexByte(name, '.'); i >= 0 {
		recv, name = name[:i], name[i+1:]
	}
	for _, d := range f.AST.Decls {
		fd, ok := d.(*ast.FuncDecl)
		if !ok || fd.Name.Name != name {
			continue
		}
		if recv == "" && fd.Recv == nil {
			return fd
		}
		if recv != "" && fd.Recv != nil && len(fd.Recv.List) == 1 {
			t := fd.Recv.List[0].Type
			if s, ok := t.(*ast.StarExpr); ok {
				t = s.X
			}
			if id, ok := t.(*ast.Ident); ok && id.Name == recv {
				return fd
			}
		}
	}
	return nil
}

// Src prints a node as source text on one line with single spaces.
func (f *File) Src(n ast.Node) string {
	if n == nil {
		return ""
	}
	var b bytes.Buffer
	printer.Fprint(&b, f.Fset, n)
	return strings.Join(strings.Fields(b.String()), " ")
}

var opName = map[token.Token]string{token.LSS: "lt", token.LEQ: "le", token.GTR: "gt", token.GEQ: "ge", token.EQL: "eq", token.NEQ: "ne"}

// Cmp is one comparison found in a function body.
type Cmp struct {
	X, Y string // operand source; for bytes.Compare(a,b) OP 0 these are a and b
	Op   string
	Via  string // "bytes.Compare" or ""
	Pos  token.Pos
}

// Comparisons lists every relational BinaryExpr under n, normalising
// `bytes.Compare(a, b) OP 0` (and utils.CompareKeys etc.) to (a, b, OP).
func (f *File) Comparisons(n ast.Node) []Cmp {
	var out []Cmp
	if n == nil {
		return out
	}
	ast.Inspect(n, func(x ast.Node) bool {
		be, ok := x.(*ast.BinaryExpr)
		if !ok {
			return true
		}
		op, ok := opName[be.Op]
		if !ok {
			return true
		}
		if call, ok := be.X.(*ast.CallExpr); ok && len(call.Args) == 2 {
			if lit, ok := be.Y.(*ast.BasicLit); ok && lit.Value == "0" {
				fn := f.Src(call.Fun)
				if strings.HasSuffix(fn, "Compare") || strings.HasSuffix(fn, "CompareKeys") || strings.HasSuffix(fn, "CompareUserKeys") {
					out = append(out, Cmp{X: f.Src(call.Args[0]), Y: f.Src(call.Args[1]), Op: op, Via: fn, Pos: be.Pos()})
					return true
				}
			}
		}
		out = append(out, Cmp{X: f.Src(be.X), Y: f.Src(be.Y), Op: op, Pos: be.Pos()})
		return true
	})
	return out
}

// FindCmp returns the operator of the unique comparison with the given operands.
func (f *File) FindCmp(n ast.Node, x, y string) (string, bool) {
	var found []string
	for _, c := range f.Comparisons(n) {
		if c.X == x && c.Y == y {
			found = append(found, c.Op)
		}
	}
	if len(found) == 0 {
		return "", false
	}
	for _, o := range found[1:] {
		if o != found[0] {
			return "", false
		}
	}
	return found[0], true
}

// Calls lists the source text of the callee of every call under n, in source order.
func (f *File) Calls(n ast.Node) []string {
	var out []string
	if n == nil {
		return out
	}
	ast.Inspect(n, func(x ast.Node) bool {
		if c, ok := x.(*ast.CallExpr); ok {
			out = append(out, f.Src(c.Fun))
		}
		return true
	})
	return out
}

func (f *File) HasCall(n ast.Node, callee string) bool {
	for _, c := range f.Calls(n) {
		if c == callee {
			return true
		}
	}
	return false
}

// CallIndex returns the position (in source order) of the first call to callee, or -1.
func (f *File) CallIndex(n ast.Node, callee string) int {
	for i, c := range f.Calls(n) {
		if c == callee {
			return i
		}
	}
	return -1
}

// IfConds lists the source of every if-condition under n.
func (f *File) IfConds(n ast.Node) []string {
	var out []string
	if n == nil {
		return out
	}
	ast.Inspect(n, func(x ast.Node) bool {
		if s, ok := x.(*ast.IfStmt); ok {
			out = append(out, f.Src(s.Cond))
		}
		return true
	})
	return out
}

// IfWithBodyContaining returns the conditions of if-statements whose body source contains sub.
func (f *File) IfWithBodyContaining(n ast.Node, sub string) []string {
	var out []string
	if n == nil {
		return out
	}
	ast.Inspect(n, func(x ast.Node) bool {
		if s, ok := x.(*ast.IfStmt); ok && strings.Contains(f.Src(s.Body), sub) {
			out = append(out, f.Src(s.Cond))
		}
		return true
	})
	return out
}

// CaseClauses returns, for the first switch under n whose tag source equals tag ("" = any),
// a map from each case label source to the clause node; "default" for the default arm.
func (f *File) CaseClauses(n ast.Node, tag string) map[string]*ast.CaseClause {
	out := map[string]*ast.CaseClause{}
	if n == nil {
		return out
	}
	done := false
	ast.Inspect(n, func(x ast.Node) bool {
		if done {
			return false
		}
		sw, ok := x.(*ast.SwitchStmt)
		if !ok {
			return true
		}
		if tag != "" && f.Src(sw.Tag) != tag {
			return true
		}
		for _, st := range sw.Body.List {
			cc := st.(*ast.CaseClause)
			if cc.List == nil {
				out["default"] = cc
			}
			for _, l := range cc.List {
				out[f.Src(l)] = cc
			}
		}
		done = true
		return false
	})
	return out
}

// HasStmt reports whether some statement under n prints exactly as src.
func (f *File) HasStmt(n ast.Node, src string) bool {
	found := false
	if n == nil {
		return false
	}
	ast.Inspect(n, func(x ast.Node) bool {
		if st, ok := x.(ast.Stmt); ok && f.Src(st) == src {
			found = true
		}
		return !found
	})
	return found
}

// ConstValues evaluates an iota const block: name -> value for `X T = iota` style blocks.
func (f *File) IotaConsts(first string) map[string]int {
	out := map[string]int{}
	for _, d := range f.AST.Decls {
		gd, ok := d.(*ast.GenDecl)
		if !ok || gd.Tok != token.CONST {
			continue
		}
		hit := false
		for _, sp := range gd.Specs {
			vs := sp.(*ast.ValueSpec)
			for _, n := range vs.Names {
				if n.Name == first {
					hit = true
				}
			}
		}
		if !hit {
			continue
		}
		for i, sp := range gd.Specs {
			vs := sp.(*ast.ValueSpec)
			for _, n := range vs.Names {
				out[n.Name] = i
			}
		}
	}
	return out
}

// Write emits facts JSON and the generated Lean file (only rewritten when changed, so an
// unchanged tree does not trigger a Lean rebuild).
func (o *Out) Write(jsonPath, leanPath, lean string) {
	sort.Strings(o.ShapeErrors)
	buf, _ := json.MarshalIndent(o, "", " ")
	if err := os.MkdirAll(filepath.Dir(jsonPath), 0o755); err == nil {
		os.WriteFile(jsonPath, buf, 0o644)
	}
	os.MkdirAll(filepath.Dir(leanPath), 0o755)
	old, _ := os.ReadFile(leanPath)
	if string(old) != lean {
		if err := os.WriteFile(leanPath, []byte(lean), 0o644); err != nil {
			fmt.Fprintln(os.Stderr, err)
			os.Exit(2)
		}
	}
}

// LeanOp renders an operator fact as a Lean `CmpOp` literal.
func LeanOp(s string) string { return "." + s }

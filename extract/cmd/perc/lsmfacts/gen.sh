#!/bin/sh
# Regenerates lsmfacts.go from ../../lsm/main.go (run from /verif/extract/cmd/perc/lsmfacts).
set -e
python3 - <<'PY'
src=open('../../lsm/main.go').read()
a=src.index("func main() {")
b=src.index("\tlv, lf, tb, ig := o.Load(")
c=src.index("\tf := o.Facts\n\tlean := fmt.Sprintf(")
head=src[:a]
body=src[b:c]
old=open('lsmfacts.go').read()
hdr=old[:old.index("package lsmfacts")+len("package lsmfacts")]
head=head[head.index("package main")+len("package main"):].replace('\t"flag"\n','')
open('lsmfacts.go','w').write(hdr+head+"// Extract records the lsm.* / merge.* / db.* facts in o.\nfunc Extract(o *elib.Out) {\n"+body+"}\n")
PY
gofmt -l . || true

// Fact extractor for the Percolator engine (C17, C18, C19).
//
// Every rule names the syntactic shape it understands; anything else is a shape error
// (`extract:<fact>`), i.e. a broken proof obligation, never a silent default.
package main

import (
	"flag"
	"fmt"
	"go/ast"
	"strings"

	"verif/extract/cmd/perc/lsmfacts"
	"verif/extract/elib"
)

func nospace(s string) string { return strings.ReplaceAll(s, " ", "") }

func body(fd *ast.FuncDecl) ast.Node {
	if fd == nil || fd.Body == nil {
		return nil
	}
	return fd.Body
}

// cmpOp finds the single comparison x OP y (operands compared without spaces) under n.
func cmpOp(f *elib.File, n ast.Node, x, y string) (string, bool) {
	if n == nil {
		return "", false
	}
	var ops []string
	for _, c := range f.Comparisons(n) {
		if nospace(c.X) == x && nospace(c.Y) == y {
			ops = append(ops, c.Op)
		}
	}
	if len(ops) != 1 {
		return "", false
	}
	return ops[0], true
}

// stmtsSrc prints a statement list on one line.
func stmtsSrc(f *elib.File, l []ast.Stmt) string {
	var p []string
	for _, s := range l {
		p = append(p, f.Src(s))
	}
	return strings.Join(p, "; ")
}

func boolStr(b bool) string {
	if b {
		return "true"
	}
	return "false"
}

func main() {
	repo := flag.String("repo", "/repo", "repository root")
	jsonOut := flag.String("json", "", "facts json")
	leanOut := flag.String("lean", "", "generated Lean file")
	flag.Parse()
	o := elib.New("perc", *repo)

	// ---------------------------------------------------------------- percolator/reader.go
	rd := o.Load("percolator/reader.go")
	{
		const anchor = "percolator/reader.go:getWriteForRead"
		fn := body(rd.Func("Reader.getWriteForRead"))
		op, ok := cmpOp(rd, fn, "ts", "readTs")
		o.Set("get.tsOp", anchor, op, ok, "le")
		// kinds passed over: `if w.Kind == pb.Mutation_X [|| ...] { return true }` in the callback
		skips := map[string]bool{}
		recognized := 0
		shapeOK := fn != nil
		if fn != nil {
			ast.Inspect(fn, func(x ast.Node) bool {
				is, ok := x.(*ast.IfStmt)
				if !ok {
					return true
				}
				var kinds []string
				for _, c := range rd.Comparisons(is.Cond) {
					if nospace(c.X) == "w.Kind" {
						if c.Op != "eq" || !strings.HasPrefix(c.Y, "pb.Mutation_") {
							shapeOK = false
						}
						kinds = append(kinds, strings.TrimPrefix(c.Y, "pb.Mutation_"))
					}
				}
				if len(kinds) == 0 {
					return true
				}
				if strings.Contains(rd.Src(is.Cond), "&&") || is.Else != nil || stmtsSrc(rd, is.Body.List) != "return true" {
					shapeOK = false
					return true
				}
				for _, k := range kinds {
					skips[k] = true
					recognized++
				}
				return true
			})
			// any other use of the record kind in the function is not understood
			total := 0
			for _, c := range rd.Comparisons(fn) {
				if nospace(c.X) == "w.Kind" {
					total++
				}
			}
			if total != recognized || strings.Count(rd.Src(fn), "w.Kind") != total {
				shapeOK = false
			}
			for k := range skips {
				if k != "Rollback" && k != "Lock" {
					shapeOK = false
				}
			}
		}
		o.Set("get.skipsRollback", anchor, boolStr(skips["Rollback"]), shapeOK, "false")
		o.Set("get.skipsLock", anchor, boolStr(skips["Lock"]), shapeOK, "false")
	}

	// ---------------------------------------------------------------- raftstore/kv/apply.go
	ap := o.Load("raftstore/kv/apply.go")
	{
		op, ok := cmpOp(ap, body(ap.Func("handleGet")), "req.GetVersion()", "lock.Ts")
		o.Set("get.lockOp", "raftstore/kv/apply.go:handleGet", op, ok, "ge")
		hs := body(ap.Func("handleScan"))
		op, ok = cmpOp(ap, hs, "readTs", "lock.Ts")
		o.Set("scan.lockOp", "raftstore/kv/apply.go:handleScan", op, ok, "ge")
		// the loop passes over everything that is not a write-CF entry: keys that only carry a lock are never met
		onlyWrite := false
		mentionsLockCF := false
		if hs != nil {
			ast.Inspect(hs, func(x ast.Node) bool {
				if is, ok := x.(*ast.IfStmt); ok && nospace(ap.Src(is.Cond)) == "entry.CF!=kv.CFWrite" &&
					stmtsSrc(ap, is.Body.List) == "iter.Next(); continue" {
					onlyWrite = true
				}
				return true
			})
			mentionsLockCF = strings.Contains(ap.Src(hs), "kv.CFLock")
		}
		o.Set("scan.seesLockOnlyKeys", "raftstore/kv/apply.go:handleScan", "false", hs != nil && onlyWrite && !mentionsLockCF, "false")

		cv := body(ap.Func("collectVisibleValue"))
		op, ok = cmpOp(ap, cv, "entry.Version", "readTs")
		o.Set("scan.verOp", "raftstore/kv/apply.go:collectVisibleValue", op, ok, "gt")
		// switch write.Kind: a clause whose body is `iter.Next(); continue` passes over the record,
		// a clause ending in `return nil, false, nil` hides everything older.
		const anchor = "raftstore/kv/apply.go:collectVisibleValue"
		shapeOK := cv != nil
		skipsRb, skipsLock := false, false
		if cv != nil {
			clauses := ap.CaseClauses(cv, "write.Kind")
			if _, ok := clauses["default"]; !ok {
				shapeOK = false
			}
			classify := func(label string) (skip bool, present bool) {
				cc, ok := clauses[label]
				if !ok {
					return false, false
				}
				src := stmtsSrc(ap, cc.Body)
				switch {
				case src == "iter.Next(); continue":
					return true, true
				case strings.HasSuffix(src, "return nil, false, nil") && !strings.Contains(src, "iter.Next()"):
					return false, true
				}
				shapeOK = false
				return false, true
			}
			var present bool
			skipsRb, present = classify("pb.Mutation_Rollback")
			if !present {
				shapeOK = false // a rollback record must not fall into the value-returning default arm
			}
			skipsLock, _ = classify("pb.Mutation_Lock")
			if skip, present := classify("pb.Mutation_Delete"); !present || skip {
				shapeOK = false
			}
			for label := range clauses {
				switch label {
				case "default", "pb.Mutation_Rollback", "pb.Mutation_Lock", "pb.Mutation_Delete":
				default:
					shapeOK = false
				}
			}
		}
		o.Set("scan.skipsRollback", anchor, boolStr(skipsRb), shapeOK, "false")
		o.Set("scan.skipsLock", anchor, boolStr(skipsLock), shapeOK, "false")
	}

	// ---------------------------------------------------------------- percolator/txn.go
	tx := o.Load("percolator/txn.go")
	{
		op, ok := cmpOp(tx, body(tx.Func("prewriteMutation")), "commitTs", "req.StartVersion")
		o.Set("prewrite.conflictOp", "percolator/txn.go:prewriteMutation", op, ok, "ge")
		// prewriteMutation: `if lock != nil [&& lock.Ts == req.StartVersion] { return nil }` after the
		// foreign-lock test = a duplicate prewrite keeps the transaction's own lock; absent = it is rewritten
		{
			pm := tx.Func("prewriteMutation")
			keeps, shapeOK, foreign := false, pm != nil, false
			if pm != nil {
				for _, st := range pm.Body.List {
					is, ok := st.(*ast.IfStmt)
					if !ok || is.Init != nil {
						continue
					}
					c := nospace(tx.Src(is.Cond))
					if !strings.HasPrefix(c, "lock!=nil") {
						continue
					}
					switch {
					case c == "lock!=nil&&lock.Ts!=req.StartVersion":
						foreign = true
					case (c == "lock!=nil" || c == "lock!=nil&&lock.Ts==req.StartVersion") && foreign &&
						is.Else == nil && stmtsSrc(tx, is.Body.List) == "return nil":
						keeps = true
					default:
						shapeOK = false
					}
				}
			}
			o.Set("prewrite.keepsOwnLock", "percolator/txn.go:prewriteMutation", boolStr(keeps), shapeOK && foreign, "false")
		}
		op, ok = cmpOp(tx, body(tx.Func("commitKey")), "lock.MinCommitTs", "commitVersion")
		o.Set("commit.minCommitOp", "percolator/txn.go:commitKey", op, ok, "gt")

		// Commit, lock missing: `if write != nil { [if write.Kind == pb.Mutation_Rollback { return keyErrorAbort(..) }] continue }`
		cm := body(tx.Func("Commit"))
		found, checks, shapeOK := false, false, cm != nil
		if cm != nil {
			ast.Inspect(cm, func(x ast.Node) bool {
				is, ok := x.(*ast.IfStmt)
				if !ok || nospace(tx.Src(is.Cond)) != "write!=nil" {
					return true
				}
				found = true
				src := stmtsSrc(tx, is.Body.List)
				switch {
				case src == "continue":
				case len(is.Body.List) == 2 && tx.Src(is.Body.List[1]) == "continue":
					in, ok := is.Body.List[0].(*ast.IfStmt)
					if ok && nospace(tx.Src(in.Cond)) == "write.Kind==pb.Mutation_Rollback" && in.Else == nil &&
						len(in.Body.List) == 1 && strings.HasPrefix(tx.Src(in.Body.List[0]), "return keyErrorAbort(") {
						checks = true
					} else {
						shapeOK = false
					}
				default:
					shapeOK = false
				}
				return true
			})
		}
		o.Set("commit.checksRollback", "percolator/txn.go:Commit", boolStr(checks), shapeOK && found, "false")

		// rollbackKey: the lock-CF delete is unconditional, or guarded by `lock != nil && lock.Ts == startTs`
		rb := tx.Func("rollbackKey")
		found, guarded, shapeOK := false, false, rb != nil
		isLockDelete := func(s ast.Stmt) bool {
			is, ok := s.(*ast.IfStmt)
			return ok && is.Init != nil && strings.Contains(tx.Src(is.Init), "db.DeleteVersionedEntry(kv.CFLock, key, lockColumnTs)")
		}
		if rb != nil {
			for _, s := range rb.Body.List {
				if isLockDelete(s) {
					found = true
				}
				if is, ok := s.(*ast.IfStmt); ok && is.Init == nil && is.Else == nil {
					for _, in := range is.Body.List {
						if isLockDelete(in) {
							c := nospace(tx.Src(is.Cond))
							if c == "lock!=nil&&lock.Ts==startTs" {
								found, guarded = true, true
							} else {
								found, shapeOK = true, false
							}
						}
					}
				}
			}
			if n := strings.Count(tx.Src(rb.Body), "DeleteVersionedEntry(kv.CFLock"); n != 1 {
				shapeOK = false
			}
		}
		o.Set("rollback.checksOwner", "percolator/txn.go:rollbackKey", boolStr(guarded), shapeOK && found, "false")

		// isLockExpired: `return currentTs >= lock.Ts+lock.TTL`, or
		// `expiry := lock.Ts + lock.TTL; if expiry < lock.Ts { return false }; return currentTs >= expiry`
		ex := tx.Func("isLockExpired")
		exb := body(ex)
		opDirect, okDirect := cmpOp(tx, exb, "currentTs", "lock.Ts+lock.TTL")
		opGuard, okGuard := cmpOp(tx, exb, "currentTs", "expiry")
		ttlZero := false
		guard := false
		if ex != nil {
			for _, s := range ex.Body.List {
				if is, ok := s.(*ast.IfStmt); ok {
					c := nospace(tx.Src(is.Cond))
					b := stmtsSrc(tx, is.Body.List)
					if c == "lock.TTL==0" && b == "return false" {
						ttlZero = true
					}
					if c == "expiry<lock.Ts" && b == "return false" {
						guard = true
					}
				}
			}
			if okGuard && !tx.HasStmt(ex.Body, "expiry := lock.Ts + lock.TTL") {
				okGuard = false
			}
		}
		switch {
		case okDirect && !okGuard && ttlZero && !guard:
			o.Set("ttl.op", "percolator/txn.go:isLockExpired", opDirect, true, "ge")
			o.Set("ttl.overflowGuard", "percolator/txn.go:isLockExpired", "false", true, "false")
		case okGuard && !okDirect && ttlZero && guard:
			o.Set("ttl.op", "percolator/txn.go:isLockExpired", opGuard, true, "ge")
			o.Set("ttl.overflowGuard", "percolator/txn.go:isLockExpired", "true", true, "false")
		default:
			o.Set("ttl.op", "percolator/txn.go:isLockExpired", "", false, "ge")
			o.Set("ttl.overflowGuard", "percolator/txn.go:isLockExpired", "", false, "false")
		}
	}

	// ---------------------------------------------------------------- latch discipline: every handler
	// takes its latches before its first read of the lock / write column (that is what makes a
	// handler one atomic step of the model).  Fact = the handlers that read first ("none" expected).
	{
		reads := map[string]bool{"reader.GetLock": true, "reader.GetWriteByStartTs": true, "reader.MostRecentWrite": true,
			"reader.GetValue": true, "prewriteMutation": true, "commitKey": true, "rollbackKey": true,
			"db.SetVersionedEntry": true, "db.DeleteVersionedEntry": true, "db.GetVersionedEntry": true, "isLockExpired": true}
		var early []string
		shapeOK := true
		for _, name := range []string{"Prewrite", "Commit", "BatchRollback", "ResolveLock", "CheckTxnStatus"} {
			fd := tx.Func(name)
			if fd == nil {
				shapeOK = false
				continue
			}
			calls := tx.Calls(fd.Body)
			acq, first := -1, -1
			for i, c := range calls {
				if c == "latches.Acquire" && acq < 0 {
					acq = i
				}
				if reads[c] && first < 0 {
					first = i
				}
			}
			// the lock value must not be captured by a closure or helper either: any other use of
			// `reader.` before the Acquire call is not understood
			for i, c := range calls {
				if acq >= 0 && i < acq && strings.HasPrefix(c, "reader.") && !reads[c] {
					shapeOK = false
				}
			}
			switch {
			case acq < 0 || first < 0:
				shapeOK = false
			case first < acq:
				early = append(early, name)
			}
		}
		val := "none"
		if len(early) > 0 {
			val = strings.Join(early, ",")
		}
		o.Set("latch.readsBeforeAcquire", "percolator/txn.go:Prewrite/Commit/BatchRollback/ResolveLock/CheckTxnStatus", val, shapeOK, "none")
	}

	// ---------------------------------------------------------------- LSM decisions (C19: the lock
	// column rewrites one internal key per user key; same rules and names as extract/cmd/lsm)
	lsmfacts.Extract(o)

	f := o.Facts
	lean := fmt.Sprintf(`-- GENERATED by /verif/extract/cmd/perc from the current /repo working tree. Do not edit.
import NoKVModel.Perc.Phys

namespace NoKV.Generated.Perc
open NoKV NoKV.Perc

def percCfg : PercCfg :=
  { getSkipsRollback := %s, getSkipsLock := %s, scanSkipsRollback := %s, scanSkipsLock := %s,
    scanSeesLockOnlyKeys := %s, getLockOp := %s, scanLockOp := %s, getTsOp := %s, scanVerOp := %s,
    commitChecksRollback := %s, conflictOp := %s,
    rollbackChecksOwner := %s, ttlOp := %s, ttlOverflowGuard := %s, minCommitOp := %s,
    prewriteKeepsOwnLock := %s }

def lsmCfg : NoKV.Lsm.Cfg :=
  { l0SearchDir := .%s, tieRule := .%s, crossPick := .%s, levelOrder := .%s,
    ingestOrder := .%s, immOrder := .%s, mergeKeeps := .%s,
    compactTopOrder := .%s, overlapRightKey := .%s, plainKeyLimit := %s,
    zeroVersionFound := %s }

/-- what C19 depends on -/
def c19Cfg : NoKV.Perc.Phys.C19Cfg := ⟨percCfg, lsmCfg⟩

end NoKV.Generated.Perc
`, f["get.skipsRollback"], f["get.skipsLock"], f["scan.skipsRollback"], f["scan.skipsLock"],
		f["scan.seesLockOnlyKeys"], elib.LeanOp(f["get.lockOp"]), elib.LeanOp(f["scan.lockOp"]), elib.LeanOp(f["get.tsOp"]), elib.LeanOp(f["scan.verOp"]),
		f["commit.checksRollback"], elib.LeanOp(f["prewrite.conflictOp"]),
		f["rollback.checksOwner"], elib.LeanOp(f["ttl.op"]), f["ttl.overflowGuard"], elib.LeanOp(f["commit.minCommitOp"]),
		f["prewrite.keepsOwnLock"],
		f["lsm.l0SearchDir"], f["lsm.tieRule"], f["lsm.crossPick"], f["lsm.levelOrder"],
		f["lsm.ingestOrder"], f["lsm.immOrder"], f["merge.eqKeeps"],
		f["lsm.compactTopOrder"], f["lsm.overlapRightKey"], f["db.plainKeyLimit"],
		map[string]string{"found": "true", "lost": "false"}[f["lsm.zeroVersion"]])
	o.Write(*jsonOut, *leanOut, lean)
}

// Fact extractor for the Cluster engine (C22, C23): the decisions of the proposal pipeline
// (raftstore/store/command_pipeline.go), of validateCommand / ProposeCommand / ReadCommand
// (raftstore/store/command_service.go) and the pieces of raftstore/peer/peer.go they rely on.
package main

import (
	"flag"
	"fmt"
	"go/ast"
	"go/token"
	"strings"

	"verif/extract/elib"
)

func body(fd *ast.FuncDecl) ast.Node {
	if fd == nil || fd.Body == nil {
		return nil
	}
	return fd.Body
}

// callPos returns the source position of the first call whose callee prints as name (-1 = none).
func callPos(f *elib.File, n ast.Node, name string) token.Pos {
	pos := token.Pos(-1)
	if n == nil {
		return pos
	}
	ast.Inspect(n, func(x ast.Node) bool {
		if c, ok := x.(*ast.CallExpr); ok && pos < 0 && f.Src(c.Fun) == name {
			pos = c.Pos()
		}
		return true
	})
	return pos
}

// guardedBy reports, for every call to callee under n, whether one of the enclosing
// if-conditions contains sub.  (all, any): all calls guarded / at least one call found.
func guardedBy(f *elib.File, n ast.Node, callee, sub string) (all bool, found bool) {
	all = true
	var stack []ast.Node
	if n == nil {
		return false, false
	}
	ast.Inspect(n, func(x ast.Node) bool {
		if x == nil {
			stack = stack[:len(stack)-1]
			return true
		}
		stack = append(stack, x)
		c, ok := x.(*ast.CallExpr)
		if !ok || f.Src(c.Fun) != callee {
			return true
		}
		found = true
		g := false
		for i, anc := range stack {
			is, ok := anc.(*ast.IfStmt)
			if !ok || i+1 >= len(stack) {
				continue
			}
			// only the `then` branch counts as guarded by the condition
			if stack[i+1] == is.Body && strings.Contains(f.Src(is.Cond), sub) {
				g = true
			}
		}
		if !g {
			all = false
		}
		return true
	})
	return all && found, found
}

func main() {
	repo := flag.String("repo", "/repo", "repository root")
	jsonOut := flag.String("json", "", "facts json")
	leanOut := flag.String("lean", "", "generated Lean file")
	flag.Parse()
	o := elib.New("cluster", *repo)

	// ------------------------------------------------------------ command_pipeline.go
	const pipe = "raftstore/store/command_pipeline.go"
	cp := o.Load(pipe)
	{
		fd := cp.Func("commandPipeline.nextProposalID")
		b := body(fd)
		ok := fd != nil && cp.HasStmt(b, "cp.seq++") && cp.HasStmt(b, "return cp.seq")
		src := strings.ToLower(cp.Src(b))
		val := "perStoreCounter"
		if strings.Contains(src, "store") || strings.Contains(src, "peer") {
			val = "storeScoped"
			ok = fd != nil
		}
		o.Set("pipe.idSource", pipe+":nextProposalID", val, ok, "perStoreCounter")
	}
	{
		fd := cp.Func("commandPipeline.completeProposal")
		b := body(fd)
		keyed := fd != nil && cp.HasStmt(b, "prop := cp.proposals[id]")
		o.Set("pipe.completeKey", pipe+":completeProposal", "requestId", keyed, "requestId")
		// delete(cp.proposals, id) before the result is sent
		del := callPos(cp, b, "delete")
		send := token.Pos(-1)
		if b != nil {
			ast.Inspect(b, func(x ast.Node) bool {
				if s, ok := x.(*ast.SendStmt); ok && send < 0 {
					send = s.Pos()
				}
				return true
			})
		}
		switch {
		case fd == nil || send < 0:
			o.Set("pipe.completeDeletes", pipe+":completeProposal", "", false, "true")
		case del >= 0 && del < send && cp.HasStmt(b, "delete(cp.proposals, id)"):
			o.Set("pipe.completeDeletes", pipe+":completeProposal", "true", true, "")
		case del < 0:
			o.Set("pipe.completeDeletes", pipe+":completeProposal", "false", true, "")
		default:
			o.Set("pipe.completeDeletes", pipe+":completeProposal", "", false, "true")
		}
	}
	{
		fd := cp.Func("commandPipeline.registerProposal")
		b := body(fd)
		rejects := false
		for _, c := range cp.IfWithBodyContaining(b, "duplicate proposal id") {
			if c == "exists" {
				rejects = true
			}
		}
		stores := fd != nil && cp.HasStmt(b, "cp.proposals[id] = prop")
		switch {
		case !stores:
			o.Set("pipe.registerRejectsDup", pipe+":registerProposal", "", false, "true")
		case rejects && cp.HasStmt(b, `return nil, fmt.Errorf("commandPipeline: duplicate proposal id %d", id)`):
			o.Set("pipe.registerRejectsDup", pipe+":registerProposal", "true", true, "")
		case !strings.Contains(cp.Src(b), "exists"):
			o.Set("pipe.registerRejectsDup", pipe+":registerProposal", "false", true, "")
		default:
			o.Set("pipe.registerRejectsDup", pipe+":registerProposal", "", false, "true")
		}
	}
	{
		fd := cp.Func("commandPipeline.applyEntries")
		b := body(fd)
		all, found := guardedBy(cp, b, "cp.completeProposal", "GetPeerId()")
		switch {
		case !found:
			o.Set("pipe.applyChecksProposer", pipe+":applyEntries", "", false, "false")
		case all:
			o.Set("pipe.applyChecksProposer", pipe+":applyEntries", "true", true, "")
		default:
			// no call may be guarded half-way: either all completions ask for the proposer or none
			_, some := guardedBy(cp, b, "cp.completeProposal", "PeerId")
			anyGuard := false
			if some {
				ast.Inspect(b, func(x ast.Node) bool {
					if is, ok := x.(*ast.IfStmt); ok && strings.Contains(cp.Src(is.Cond), "PeerId") {
						anyGuard = true
					}
					return true
				})
			}
			o.Set("pipe.applyChecksProposer", pipe+":applyEntries", "false", !anyGuard, "false")
		}
		// entries skipped by the loop: exactly the non-normal and the empty ones
		var skips []string
		if b != nil {
			ast.Inspect(b, func(x ast.Node) bool {
				if is, ok := x.(*ast.IfStmt); ok && cp.Src(is.Body) == "{ continue }" {
					skips = append(skips, cp.Src(is.Cond))
				}
				return true
			})
		}
		val := strings.Join(skips, ";")
		if val == "entry.Type != myraft.EntryNormal;len(entry.Data) == 0" {
			val = "nonNormal,empty"
		}
		rangeOK := fd != nil && strings.Contains(cp.Src(b), "for _, entry := range entries")
		o.Set("pipe.applySkips", pipe+":applyEntries", strings.ReplaceAll(val, " ", ""), rangeOK, "nonNormal,empty")
		ap, co := callPos(cp, b, "cp.applier"), callPos(cp, b, "cp.completeProposal")
		o.Set("pipe.completeAfterApply", pipe+":applyEntries", fmt.Sprint(ap >= 0 && co > ap), ap >= 0 && co >= 0, "true")
	}

	// ------------------------------------------------------------ command_service.go
	const svc = "raftstore/store/command_service.go"
	cs := o.Load(svc)
	vc := cs.Func("Store.validateCommand")
	vb := body(vc)
	{
		// Header.PeerId is overwritten unconditionally: the assignment is a statement of the function
		// body itself (not under an if that keeps a client-supplied value) and the only write to it
		top, writes := false, 0
		if vc != nil && vc.Body != nil {
			for _, st := range vc.Body.List {
				if cs.Src(st) == "req.Header.PeerId = peer.ID()" {
					top = true
				}
			}
			ast.Inspect(vc.Body, func(x ast.Node) bool {
				if as, ok := x.(*ast.AssignStmt); ok {
					for _, l := range as.Lhs {
						if strings.HasSuffix(cs.Src(l), "Header.PeerId") {
							writes++
						}
					}
				}
				return true
			})
		}
		o.Set("propose.stampsProposer", svc+":validateCommand", fmt.Sprint(top && writes == 1), vc != nil, "true")
	}
	{
		op, ok := cs.FindCmp(vb, "status.RaftState", "myraft.StateLeader")
		konst := "leader"
		if !ok {
			for _, c := range cs.Comparisons(vb) {
				if c.X == "status.RaftState" {
					op, ok = c.Op, true
					konst = map[string]string{"myraft.StateLeader": "leader", "myraft.StateFollower": "follower",
						"myraft.StateCandidate": "candidate", "myraft.StatePreCandidate": "precandidate"}[c.Y]
					if konst == "" {
						ok = false
					}
				}
			}
		}
		// the branch taken when the test holds must answer NotLeader
		sends := false
		sym := map[string]string{"ne": "!=", "eq": "==", "lt": "<", "le": "<=", "gt": ">", "ge": ">="}[op]
		back := map[string]string{"leader": "myraft.StateLeader", "follower": "myraft.StateFollower",
			"candidate": "myraft.StateCandidate", "precandidate": "myraft.StatePreCandidate"}[konst]
		for _, c := range cs.IfWithBodyContaining(vb, "notLeaderError(meta, status.Lead)") {
			// the whole condition is the state test: no further conjunct may let a non-leader through
			if c == "status.RaftState "+sym+" "+back {
				sends = true
			}
		}
		o.Set("val.leaderOp", svc+":validateCommand", op, ok && sends, "ne")
		o.Set("val.leaderConst", svc+":validateCommand", konst, ok && sends, "leader")
		// order of the clauses
		type item struct {
			name string
			pos  token.Pos
		}
		var items []item
		if vb != nil {
			ast.Inspect(vb, func(x ast.Node) bool {
				if is, ok := x.(*ast.IfStmt); ok && cs.Src(is.Cond) == "regionID == 0" {
					items = append(items, item{"regionId", is.Pos()})
				}
				return true
			})
		}
		for _, p := range [][2]string{{"meta", "s.RegionMetaByID"}, {"epoch", "validateRegionEpoch"}, {"keys", "validateRequestKeys"},
			{"peer", "s.regions.peer"}, {"leader", "peer.Status"}} {
			if pos := callPos(cs, vb, p[1]); pos >= 0 {
				items = append(items, item{p[0], pos})
			}
		}
		for i := 0; i < len(items); i++ {
			for j := i + 1; j < len(items); j++ {
				if items[j].pos < items[i].pos {
					items[i], items[j] = items[j], items[i]
				}
			}
		}
		var names []string
		for _, it := range items {
			names = append(names, it.name)
		}
		o.Set("val.order", svc+":validateCommand", strings.Join(names, ","), len(names) == 6, "regionId,meta,epoch,keys,peer,leader")
	}
	pc := cs.Func("Store.ProposeCommand")
	pb := body(pc)
	rc := cs.Func("Store.ReadCommand")
	rb := body(rc)
	{
		// a response produced by validation goes straight back to the client, before any raft interaction
		pOK := cs.HasStmt(pb, "if resp != nil { return resp, nil }") && callPos(cs, pb, "s.validateCommand") >= 0
		rOK := cs.HasStmt(rb, "if regionResp != nil { return regionResp, nil }") && callPos(cs, rb, "s.validateCommand") >= 0
		pFirst := callPos(cs, pb, "s.validateCommand") < callPos(cs, pb, "s.command.registerProposal") && callPos(cs, pb, "s.validateCommand") < callPos(cs, pb, "s.router.SendCommand")
		before := func(a, b token.Pos) bool { return a >= 0 && (b < 0 || a < b) } // b absent: nothing to precede
		rFirst := before(callPos(cs, rb, "s.validateCommand"), callPos(cs, rb, "peer.LinearizableRead")) && before(callPos(cs, rb, "s.validateCommand"), callPos(cs, rb, "s.commandApplier"))
		o.Set("val.rejectReturns", svc+":ProposeCommand/ReadCommand", fmt.Sprint(pOK && rOK && pFirst && rFirst), pc != nil && rc != nil, "true")
		counter := false
		for _, c := range cs.IfWithBodyContaining(pb, "req.Header.RequestId = s.command.nextProposalID()") {
			if c == "req.Header.RequestId == 0" {
				counter = true
			}
		}
		o.Set("propose.idWhenZero", svc+":ProposeCommand", "counter", counter, "counter")
		rp, sp := callPos(cs, pb, "s.command.registerProposal"), callPos(cs, pb, "s.router.SendCommand")
		o.Set("propose.registersBeforeSend", svc+":ProposeCommand", fmt.Sprint(rp >= 0 && rp < sp), rp >= 0 && sp >= 0, "true")
	}
	{
		ri, wa, ap := callPos(cs, rb, "peer.LinearizableRead"), callPos(cs, rb, "peer.WaitApplied"), callPos(cs, rb, "s.commandApplier")
		o.Set("read.readIndexFirst", svc+":ReadCommand", fmt.Sprint(ri >= 0 && ri < ap), rc != nil && ap >= 0, "true")
		// WaitApplied(ctx, <the index LinearizableRead returned>) with its error checked, between the two
		waits := ri >= 0 && wa > ri && wa < ap &&
			cs.HasStmt(rb, "index, err := peer.LinearizableRead(ctx)") &&
			cs.HasStmt(rb, "if err := peer.WaitApplied(ctx, index); err != nil { return nil, err }")
		shape := rc != nil && ap >= 0 && (waits || wa < 0 || wa > ap)
		o.Set("read.waitsApplied", svc+":ReadCommand", fmt.Sprint(waits), shape, "true")
		ro := false
		for _, c := range cs.IfWithBodyContaining(rb, "read command must be read-only") {
			if c == "!isReadOnlyRequest(req)" {
				ro = true
			}
		}
		o.Set("read.readOnlyChecked", svc+":ReadCommand", fmt.Sprint(ro), rc != nil, "true")
	}

	// ------------------------------------------------------------ peer.go
	const pg = "raftstore/peer/peer.go"
	pf := o.Load(pg)
	{
		sr := pf.Func("Peer.startReadIndex")
		lr := pf.Func("Peer.LinearizableRead")
		ok := sr != nil && lr != nil
		uses := ok && pf.HasCall(body(sr), "p.node.ReadIndex") && pf.HasCall(body(lr), "p.startReadIndex")
		o.Set("peer.readIndexViaRaft", pg+":LinearizableRead", fmt.Sprint(uses), ok, "true")
		wa := pf.Func("Peer.WaitApplied")
		o.Set("peer.waitAppliedUsesMark", pg+":WaitApplied", fmt.Sprint(wa != nil && pf.HasStmt(body(wa), "return p.applyMark.WaitForMark(ctx, index)")), wa != nil, "true")
		hr := pf.Func("Peer.handleReady")
		hb := body(hr)
		inOrder := hr != nil && strings.Contains(pf.Src(hb), "for _, entry := range rd.CommittedEntries") &&
			pf.HasStmt(hb, "toApply = append(toApply, entry)")
		// the watermark is only advanced after the apply function returned
		apPos, finPos := callPos(pf, hb, "p.apply"), callPos(pf, hb, "p.finishApply")
		_ = finPos
		o.Set("peer.applyInOrder", pg+":handleReady", fmt.Sprint(inOrder && apPos >= 0), hr != nil, "true")
	}

	// ------------------------------------------------------------ what justifies the ReadIndex contract
	{
		// every place that can configure a peer's raft node
		files := []string{pg, "raftstore/peer/config.go", "raftstore/server/server.go", "cmd/nokv/serve.go"}
		settings := func(field string) []string {
			var out []string
			for _, rel := range files {
				var ff *elib.File
				if rel == pg {
					ff = pf
				} else {
					ff = o.Load(rel)
				}
				ast.Inspect(ff.AST, func(x ast.Node) bool {
					switch n := x.(type) {
					case *ast.KeyValueExpr:
						if id, ok := n.Key.(*ast.Ident); ok && id.Name == field {
							out = append(out, ff.Src(n.Value))
						}
					case *ast.AssignStmt:
						for i, l := range n.Lhs {
							if sel, ok := l.(*ast.SelectorExpr); ok && sel.Sel.Name == field && i < len(n.Rhs) {
								out = append(out, ff.Src(n.Rhs[i]))
							}
						}
					}
					return true
				})
			}
			return out
		}
		ro, ok := "safe", true // etcd/raft's zero value is ReadOnlySafe
		for _, v := range settings("ReadOnlyOption") {
			switch {
			case strings.HasSuffix(v, "ReadOnlyLeaseBased"):
				ro = "leaseBased"
			case strings.HasSuffix(v, "ReadOnlySafe"):
			default:
				ok = false
			}
		}
		o.Set("peer.readOnlyOption", pg+":NewPeer (+ config.go, server.go, cmd/nokv/serve.go)", ro, ok, "safe")
		cq, ok := "unset", true
		for _, v := range settings("CheckQuorum") {
			switch v {
			case "true":
				cq = "forced"
			case "false":
			default:
				ok = false
			}
		}
		o.Set("peer.checkQuorum", pg+":NewPeer (+ config.go, server.go, cmd/nokv/serve.go)", cq, ok, "unset")

		// one RawNode.ReadIndex, with a context of its own, per LinearizableRead
		lr := pf.Func("Peer.LinearizableRead")
		sr := pf.Func("Peer.startReadIndex")
		nStart := 0
		for _, c := range pf.Calls(body(lr)) {
			if c == "p.startReadIndex" {
				nStart++
			}
		}
		shape := lr != nil && sr != nil && nStart == 1 && pf.HasStmt(body(lr), "key, ch := p.startReadIndex()")
		perRead := false
		if sr != nil && sr.Body != nil {
			// the call is a statement of the function body itself, nothing returns before it,
			// and the request context embeds a fresh sequence number
			early, found := false, false
			for _, st := range sr.Body.List {
				if es, ok := st.(*ast.ExprStmt); ok && pf.Src(es.X) == "p.node.ReadIndex(reqCtx)" {
					found = true
					break
				}
				ast.Inspect(st, func(x ast.Node) bool {
					if _, ok := x.(*ast.ReturnStmt); ok {
						early = true
					}
					return true
				})
			}
			fresh := pf.HasStmt(sr.Body, "seq := p.readSeq.Add(1)") && pf.HasStmt(sr.Body, "binary.BigEndian.PutUint64(reqCtx[8:], seq)")
			perRead = found && !early && fresh
			if !found && !pf.HasCall(sr.Body, "p.node.ReadIndex") {
				shape = false
			}
		}
		o.Set("peer.readIndexPerRead", pg+":LinearizableRead/startReadIndex", fmt.Sprint(perRead), shape, "true")
	}

	// ------------------------------------------------------------ WaitApplied waits for exactly the index it is given
	{
		wa := pf.Func("Peer.WaitApplied")
		exact, clamped, shape := false, false, wa != nil && wa.Body != nil
		if shape {
			// body = nil/zero guard + `return p.applyMark.WaitForMark(ctx, index)`, and nothing
			// ever assigns to `index` (no clamp / min with what the apply loop has begun)
			ast.Inspect(wa.Body, func(x ast.Node) bool {
				switch n := x.(type) {
				case *ast.AssignStmt:
					for _, l := range n.Lhs {
						if id, ok := l.(*ast.Ident); ok && id.Name == "index" {
							clamped = true
						}
					}
				case *ast.IncDecStmt:
					if id, ok := n.X.(*ast.Ident); ok && id.Name == "index" {
						clamped = true
					}
				}
				return true
			})
			two := len(wa.Body.List) == 2
			guard := false
			if two {
				if is, ok := wa.Body.List[0].(*ast.IfStmt); ok {
					guard = pf.Src(is.Cond) == "p == nil || p.applyMark == nil || index == 0" && pf.Src(is.Body) == "{ return nil }"
				}
			}
			exact = two && guard && !clamped && pf.Src(wa.Body.List[1]) == "return p.applyMark.WaitForMark(ctx, index)"
			shape = exact || clamped
		}
		o.Set("peer.waitAppliedExact", pg+":WaitApplied", fmt.Sprint(exact), shape, "true")

		// handleReady: readers are released (ReadStates) before the committed entries of the same
		// Ready are begun, applied and marked done - which is why WaitApplied must really wait
		hr := pf.Func("Peer.handleReady")
		hb := body(hr)
		type item struct {
			name string
			pos  token.Pos
		}
		var items []item
		for _, pr := range [][2]string{{"readStates", "p.handleReadStates"}, {"beginApply", "p.beginApply"}, {"apply", "p.apply"}, {"finishApply", "p.finishApply"}} {
			if pos := callPos(pf, hb, pr[1]); pos >= 0 {
				items = append(items, item{pr[0], pos})
			}
		}
		for i := 0; i < len(items); i++ {
			for j := i + 1; j < len(items); j++ {
				if items[j].pos < items[i].pos {
					items[i], items[j] = items[j], items[i]
				}
			}
		}
		var names []string
		for _, it := range items {
			names = append(names, it.name)
		}
		o.Set("peer.readyOrder", pg+":handleReady", strings.Join(names, ","), len(names) == 4, "readStates,beginApply,apply,finishApply")
	}

	// ------------------------------------------------------------ handleReady hands every committed entry to apply exactly once
	{
		hr := pf.Func("Peer.handleReady")
		hb := body(hr)
		nApply, argOK, lits, appends, sliced := 0, true, 0, 0, false
		var rangeEnd, applyPos token.Pos = -1, -1
		if hb != nil {
			ast.Inspect(hb, func(x ast.Node) bool {
				switch n := x.(type) {
				case *ast.CallExpr:
					if pf.Src(n.Fun) == "p.apply" {
						nApply++
						applyPos = n.Pos()
						if len(n.Args) != 1 || pf.Src(n.Args[0]) != "toApply" {
							argOK = false
						}
					}
				case *ast.FuncLit:
					lits++
				case *ast.RangeStmt:
					if pf.Src(n.X) == "rd.CommittedEntries" {
						rangeEnd = n.End()
					}
				case *ast.AssignStmt:
					if pf.Src(n) == "toApply = append(toApply, entry)" {
						appends++
					}
				case *ast.SliceExpr:
					if pf.Src(n.X) == "toApply" {
						sliced = true
					}
				}
				return true
			})
		}
		// shape: entries are collected by one append inside the range over rd.CommittedEntries and
		// the slice is applied by exactly one call after the loop; no closure, no re-slicing
		val := "collectThenApplyOnce"
		ok := hr != nil && nApply >= 1 && appends >= 1 && rangeEnd >= 0
		if !(nApply == 1 && argOK && lits == 0 && appends == 1 && !sliced && applyPos > rangeEnd) {
			val = "other"
		}
		o.Set("peer.applyPartition", pg+":handleReady", val, ok, "collectThenApplyOnce")

		// LinearizableRead: a closed read channel (Peer.Close) is an error, never index 0
		lr := pf.Func("Peer.LinearizableRead")
		checks, found := false, false
		if lr != nil && lr.Body != nil {
			ast.Inspect(lr.Body, func(x ast.Node) bool {
				cc, ok := x.(*ast.CommClause)
				if !ok || cc.Comm == nil {
					return true
				}
				src := pf.Src(cc.Comm)
				if strings.HasSuffix(src, "<-ch") {
					found = true
					if src == "idx, ok := <-ch" && len(cc.Body) > 0 && pf.Src(cc.Body[0]) == "if !ok { return 0, errPeerStopped }" {
						checks = true
					}
				}
				return true
			})
		}
		o.Set("peer.readChecksClosed", pg+":LinearizableRead", fmt.Sprint(checks), found, "true")
	}

	f := o.Facts
	lean := fmt.Sprintf(`-- GENERATED by /verif/extract/cmd/cluster from the current /repo working tree. Do not edit.
import NoKVModel.Cluster.Pipeline
import NoKVModel.Cluster.Service

namespace NoKV.Generated.Cluster
open NoKV NoKV.Cluster

def pipeCfg : PipeCfg :=
  { matchProposer := %s, completeDeletes := %s, regRejectsDup := %s, applyEachOnce := %s }

def svcCfg : SvcCfg :=
  { val := { leaderOp := .%s, leaderConst := %s, rejectReturns := %s },
    read := { readIndexFirst := %s, waitsApplied := %s, quorumPerRead := %s } }

end NoKV.Generated.Cluster
`, fmt.Sprint(f["pipe.applyChecksProposer"] == "true" && f["propose.stampsProposer"] == "true"), f["pipe.completeDeletes"], f["pipe.registerRejectsDup"],
		fmt.Sprint(f["peer.applyPartition"] == "collectThenApplyOnce" && f["peer.applyInOrder"] == "true" && f["pipe.applySkips"] == "nonNormal,empty"),
		f["val.leaderOp"], leanState(f["val.leaderConst"]), f["val.rejectReturns"],
		f["read.readIndexFirst"],
		fmt.Sprint(f["read.waitsApplied"] == "true" && f["peer.waitAppliedExact"] == "true" && f["peer.waitAppliedUsesMark"] == "true"),
		fmt.Sprint(f["peer.readOnlyOption"] == "safe" && f["peer.readIndexPerRead"] == "true" && f["peer.readIndexViaRaft"] == "true" && f["peer.readChecksClosed"] == "true"))
	o.Write(*jsonOut, *leanOut, lean)
}

func leanState(s string) string {
	switch s {
	case "follower":
		return ".follower"
	case "candidate":
		return ".candidate"
	case "precandidate":
		return ".preCandidate"
	}
	return ".leader"
}

package main

import (
	"fmt"
	"go/ast"
	"strings"

	"verif/extract/elib"
)

// C36 facts: the decision predicates of the three WAL segment removers.
func extractC36(o *elib.Out) {
	lv := o.Load("lsm/levels.go")
	cr := lv.Func("levelManager.canRemoveWalSegment")
	{
		anchor := "lsm/levels.go:canRemoveWalSegment"
		// expected shape: `id >= uint32(ptr.SegmentIndex)` and `id >= ptr.Segment` guard the
		// pointers; an extra `return false` under a condition on raft records / an unset
		// SegmentIndex is the repaired shape.
		op1, ok1 := lv.FindCmp(body(cr), "id", "uint32(ptr.SegmentIndex)")
		op2, ok2 := lv.FindCmp(body(cr), "id", "ptr.Segment")
		o.Set("seg.canRemoveOps", anchor, op1+","+op2, cr != nil && ok1 && ok2, "ge,ge")
		guard := false
		for _, c := range lv.IfWithBodyContaining(body(cr), "return false") {
			if strings.Contains(c, "RaftRecords()") || strings.Contains(c, "ptr.SegmentIndex == 0") {
				guard = true
			}
		}
		// the watchdog half: observe() bails out while some pointer has Segment > 0 && SegmentIndex == 0
		wdg := false
		wdf := o.Load("wal/watchdog.go")
		ob := wdf.Func("Watchdog.observe")
		for _, c := range wdf.IfWithBodyContaining(body(ob), "return") {
			if strings.Contains(c, "ptr.SegmentIndex == 0") {
				wdg = true
			}
		}
		v := "false"
		switch {
		case guard && wdg:
			v = "true"
		case guard:
			v = "canRemoveOnly"
		case wdg:
			v = "watchdogOnly"
		}
		o.Set("seg.guardUntruncated", anchor+" + wal/watchdog.go:observe", v, cr != nil && ob != nil, "false")
	}
	mw := o.Load("metrics/wal.go")
	ab := mw.Func("AnalyzeWALBacklog")
	{
		anchor := "metrics/wal.go:AnalyzeWALBacklog"
		op, ok := mw.FindCmp(body(ab), "id", "retainSegment")
		o.Set("seg.wdCandidateOp", anchor, op, ab != nil && ok, "lt")
	}
	// seg.wdChecksFlushed: the watchdog is told the manifest log pointer (WatchdogConfig.LogSegment,
	// wired in db.go) and observe() keeps only candidates `id <= flushed`.
	{
		anchor := "wal/watchdog.go:observe + db.go:NewWatchdog"
		wdf := o.Load("wal/watchdog.go")
		ob := wdf.Func("Watchdog.observe")
		op, ok := wdf.FindCmp(body(ob), "id", "flushed")
		uses := ob != nil && strings.Contains(wdf.Src(ob), "w.logSegment(")
		dbf := o.Load("db.go")
		wired := false
		if od := dbf.Func("Open"); od != nil {
			wired = strings.Contains(dbf.Src(od), "LogSegment: func() uint32")
		}
		v := "false"
		switch {
		case uses && ok && op == "le" && wired:
			v = "true"
		case uses || wired:
			v = "partial"
		}
		o.Set("seg.wdChecksFlushed", anchor, v, ob != nil, "false")
	}
	ws := o.Load("raftstore/engine/wal_storage.go")
	op := ws.Func("OpenWALStorage")
	{
		anchor := "raftstore/engine/wal_storage.go:OpenWALStorage"
		rp := ws.CallIndex(body(op), "cfg.WAL.Replay")
		seed := -1
		for i, c := range ws.Calls(body(op)) {
			if (c == "ws.mem.ApplySnapshot" || c == "ws.seedTruncation" || c == "ws.mem.Compact") && seed < 0 {
				seed = i
			}
		}
		o.Set("seg.replaySeedsTrunc", anchor, fmt.Sprint(seed >= 0 && seed < rp), op != nil && rp >= 0, "false")
	}
	// seg.wdRetainShape: ONE loop over ptrs that lowers retainSegment by every pointer's
	// Segment and SegmentIndex (a per-pointer minimum); anything else (cascades, several loops)
	// is a different retention rule.
	{
		anchor := "metrics/wal.go:AnalyzeWALBacklog"
		loops, good := 0, false
		if ab != nil {
			ast.Inspect(ab.Body, func(n ast.Node) bool {
				rs, ok := n.(*ast.RangeStmt)
				if !ok || mw.Src(rs.X) != "ptrs" {
					return true
				}
				loops++
				_, a := mw.FindCmp(rs.Body, "ptr.Segment", "retainSegment")
				_, b := mw.FindCmp(rs.Body, "idx", "retainSegment")
				opA, _ := mw.FindCmp(rs.Body, "ptr.Segment", "retainSegment")
				opB, _ := mw.FindCmp(rs.Body, "idx", "retainSegment")
				if a && b && opA == "lt" && opB == "lt" {
					good = true
				}
				return true
			})
		}
		v := "other"
		if loops == 1 && good {
			v = "perPointerMin"
		}
		o.Set("seg.wdRetainShape", anchor, v, ab != nil, "perPointerMin")
	}
	// seg.flushRemovePos / seg.flushEditOrder: levelManager.flush installs the table
	// (LogEdits(AddFile, LogPointer) in that order, error => return) and only then, on the
	// straight-line path (no defer), removes the WAL segment under canRemoveWalSegment.
	fl := lv.Func("levelManager.flush")
	{
		anchor := "lsm/levels.go:levelManager.flush"
		deferred := false
		if fl != nil {
			ast.Inspect(fl.Body, func(n ast.Node) bool {
				if d, ok := n.(*ast.DeferStmt); ok && strings.Contains(lv.Src(d), "RemoveSegment") {
					deferred = true
				}
				return true
			})
		}
		le := lv.CallIndex(body(fl), "lm.manifestMgr.LogEdits")
		cr2 := lv.CallIndex(body(fl), "lm.canRemoveWalSegment")
		v := "other"
		switch {
		case deferred:
			v = "deferred"
		case le >= 0 && cr2 > le:
			v = "afterInstall"
		case le >= 0 && cr2 >= 0 && cr2 < le:
			v = "beforeInstall"
		}
		o.Set("seg.flushRemovePos", anchor, v, fl != nil && le >= 0 && cr2 >= 0, "afterInstall")

		// order of the edit kinds handed to LogEdits
		kinds := map[string]string{} // identifier -> edit type
		var sliceKinds []string
		var order []string
		okOrder := false
		if fl != nil {
			typeOf := func(cl *ast.CompositeLit) string {
				for _, e := range cl.Elts {
					if kv, ok := e.(*ast.KeyValueExpr); ok && lv.Src(kv.Key) == "Type" {
						return strings.TrimPrefix(lv.Src(kv.Value), "manifest.")
					}
				}
				return ""
			}
			ast.Inspect(fl.Body, func(n ast.Node) bool {
				as, ok := n.(*ast.AssignStmt)
				if !ok || len(as.Lhs) != 1 || len(as.Rhs) != 1 {
					return true
				}
				cl, ok := as.Rhs[0].(*ast.CompositeLit)
				if !ok {
					return true
				}
				if t := typeOf(cl); t != "" {
					kinds[lv.Src(as.Lhs[0])] = t
					return true
				}
				// a slice literal of edits
				var ks []string
				for _, e := range cl.Elts {
					if inner, ok := e.(*ast.CompositeLit); ok {
						if t := typeOf(inner); t != "" {
							ks = append(ks, t)
						}
					}
				}
				if len(ks) > 0 {
					kinds[lv.Src(as.Lhs[0])+"..."] = strings.Join(ks, ",")
					sliceKinds = ks
				}
				return true
			})
			ast.Inspect(fl.Body, func(n ast.Node) bool {
				c, ok := n.(*ast.CallExpr)
				if !ok || lv.Src(c.Fun) != "lm.manifestMgr.LogEdits" {
					return true
				}
				okOrder = true
				for _, a := range c.Args {
					src := lv.Src(a)
					if c.Ellipsis.IsValid() {
						src += "..."
					}
					if cl, ok := a.(*ast.CompositeLit); ok {
						order = append(order, typeOf(cl))
					} else if k, ok := kinds[src]; ok {
						order = append(order, k)
					} else {
						okOrder = false
					}
				}
				return true
			})
		}
		_ = sliceKinds
		o.Set("seg.flushEditOrder", anchor, strings.Join(order, ","), okOrder && len(order) > 0, "EditAddFile,EditLogPointer")
	}
	// seg.spanTrim: recordEntrySpan walks the spans, keeps those wholly below the new batch, keeps
	// the non-overwritten prefix of the first span reaching into it (`span.lastIndex = first - 1`)
	// and drops the rest.
	{
		anchor := "raftstore/engine/wal_storage.go:recordEntrySpan"
		re := ws.Func("WALStorage.recordEntrySpan")
		v := "other"
		if re != nil {
			ast.Inspect(re.Body, func(n ast.Node) bool {
				rs, ok := n.(*ast.RangeStmt)
				if !ok || ws.Src(rs.X) != "ws.entrySpans" {
					return true
				}
				_, a := ws.FindCmp(rs.Body, "span.lastIndex", "first")
				_, b := ws.FindCmp(rs.Body, "span.firstIndex", "first")
				if a && b && ws.HasStmt(rs.Body, "span.lastIndex = first - 1") {
					v = "prefixKept"
				}
				return true
			})
		}
		o.Set("seg.spanTrim", anchor, v, re != nil, "prefixKept")
	}
	mt := o.Load("lsm/memtable.go")
	rc := mt.Func("LSM.recovery")
	{
		anchor := "lsm/memtable.go:recovery"
		opr, ok := mt.FindCmp(body(rc), "fid", "uint64(seg)")
		uses := mt.HasCall(body(rc), "lsm.levels.canRemoveWalSegment")
		o.Set("seg.recoveryRule", anchor, opr+":"+fmt.Sprint(uses), rc != nil && ok, "le:true")
	}
	// seg.flushRetries: the flush worker retries a failed levels.flush in place
	// (`for err != nil … { … err = lsm.levels.flush(mt) }`) instead of releasing the task.
	{
		anchor := "lsm/lsm.go:startFlushWorkers"
		lf := o.Load("lsm/lsm.go")
		fw := lf.Func("LSM.startFlushWorkers")
		retry, calls := false, 0
		if fw != nil {
			for _, c := range lf.Calls(fw.Body) {
				if c == "lsm.levels.flush" {
					calls++
				}
			}
			ast.Inspect(fw.Body, func(n ast.Node) bool {
				fs, ok := n.(*ast.ForStmt)
				if !ok || fs.Cond == nil {
					return true
				}
				if strings.Contains(lf.Src(fs.Cond), "err != nil") && lf.HasCall(fs.Body, "lsm.levels.flush") {
					retry = true
				}
				return true
			})
		}
		o.Set("seg.flushRetries", anchor, fmt.Sprint(retry), fw != nil && calls >= 1, "false")
	}
}

func leanC36(f map[string]string) string {
	return fmt.Sprintf(`def segCfg : Seg.SCfg :=
  { guardUntruncated := %s, wdChecksFlushed := %s, flushRetries := %s, replaySeedsTrunc := %s }
`, f["seg.guardUntruncated"], f["seg.wdChecksFlushed"], f["seg.flushRetries"], f["seg.replaySeedsTrunc"])
}

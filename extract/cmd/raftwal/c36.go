package main

import (
	"fmt"
	"strings"

	"verif/extract/elib"
)

// C36 facts: the decision predicates of the three WAL segment removers.
func extractC36(o *elib.Out) {
	lv := o.Load("lsm/levels.go")
	cr := lv.Func("levelManager.canRemoveWalSegment")
	{
		anchor := "lsm/levels.go:canRemoveWalSegment"
		// expected shape: `id >= uint32(ptr.SegmentIndex)` and `id >= ptr.Segment` guard the
		// pointers; an extra `return false` under a condition on raft records / an unset
		// SegmentIndex is the repaired shape.
		op1, ok1 := lv.FindCmp(body(cr), "id", "uint32(ptr.SegmentIndex)")
		op2, ok2 := lv.FindCmp(body(cr), "id", "ptr.Segment")
		o.Set("seg.canRemoveOps", anchor, op1+","+op2, cr != nil && ok1 && ok2, "ge,ge")
		guard := false
		for _, c := range lv.IfWithBodyContaining(body(cr), "return false") {
			if strings.Contains(c, "RaftRecords()") || strings.Contains(c, "ptr.SegmentIndex == 0") {
				guard = true
			}
		}
		o.Set("seg.guardUntruncated", anchor, fmt.Sprint(guard), cr != nil, "false")
	}
	mw := o.Load("metrics/wal.go")
	ab := mw.Func("AnalyzeWALBacklog")
	{
		anchor := "metrics/wal.go:AnalyzeWALBacklog"
		op, ok := mw.FindCmp(body(ab), "id", "retainSegment")
		o.Set("seg.wdCandidateOp", anchor, op, ab != nil && ok, "lt")
		src := mw.Src(ab)
		flushed := strings.Contains(src, "LogSegment") || strings.Contains(src, "logSegment") || strings.Contains(src, "flushedSegment")
		o.Set("seg.wdChecksFlushed", anchor, fmt.Sprint(flushed), ab != nil, "false")
	}
	ws := o.Load("raftstore/engine/wal_storage.go")
	op := ws.Func("OpenWALStorage")
	{
		anchor := "raftstore/engine/wal_storage.go:OpenWALStorage"
		rp := ws.CallIndex(body(op), "cfg.WAL.Replay")
		seed := -1
		for i, c := range ws.Calls(body(op)) {
			if (c == "ws.mem.ApplySnapshot" || c == "ws.seedTruncation" || c == "ws.mem.Compact") && seed < 0 {
				seed = i
			}
		}
		o.Set("seg.replaySeedsTrunc", anchor, fmt.Sprint(seed >= 0 && seed < rp), op != nil && rp >= 0, "false")
	}
	mt := o.Load("lsm/memtable.go")
	rc := mt.Func("LSM.recovery")
	{
		anchor := "lsm/memtable.go:recovery"
		opr, ok := mt.FindCmp(body(rc), "fid", "uint64(seg)")
		uses := mt.HasCall(body(rc), "lsm.levels.canRemoveWalSegment")
		o.Set("seg.recoveryRule", anchor, opr+":"+fmt.Sprint(uses), rc != nil && ok, "le:true")
	}
}

func leanC36(f map[string]string) string {
	return fmt.Sprintf(`def segCfg : Seg.SCfg :=
  { guardUntruncated := %s, wdChecksFlushed := %s, replaySeedsTrunc := %s }
`, f["seg.guardUntruncated"], f["seg.wdChecksFlushed"], f["seg.replaySeedsTrunc"])
}

// Fact extractor for the raft-WAL engine (C21, C36).
package main

import (
	"flag"
	"fmt"
	"go/ast"
	"strings"

	"verif/extract/elib"
)

func body(fd *ast.FuncDecl) ast.Node {
	if fd == nil {
		return nil
	}
	return fd.Body
}

func main() {
	repo := flag.String("repo", "/repo", "repository root")
	jsonOut := flag.String("json", "", "facts json")
	leanOut := flag.String("lean", "", "generated Lean file")
	flag.Parse()
	o := elib.New("raftwal", *repo)

	// ------------------------------------------------------------ C21: wal_storage.go
	// raftwal.flushOnAppend: in each of Append / SetHardState / ApplySnapshot the expected
	// shape is  ws.wal.AppendRecords(..) … [ws.wal.Sync()] … ws.updatePointer(..)  in source
	// order.  "true" = a Sync between the two in all three, "false" = no ws.wal.Sync in any.
	ws := o.Load("raftstore/engine/wal_storage.go")
	{
		anchor := "raftstore/engine/wal_storage.go:Append/SetHardState/ApplySnapshot"
		vals := map[string]int{}
		ok := true
		for _, fn := range []string{"WALStorage.Append", "WALStorage.SetHardState", "WALStorage.ApplySnapshot"} {
			fd := ws.Func(fn)
			if fd == nil {
				ok = false
				continue
			}
			a := ws.CallIndex(fd.Body, "ws.wal.AppendRecords")
			p := ws.CallIndex(fd.Body, "ws.updatePointer")
			s := ws.CallIndex(fd.Body, "ws.wal.Sync")
			switch {
			case a < 0 || p < 0 || a > p:
				ok = false
			case s < 0:
				vals["false"]++
			case a < s && s < p:
				vals["true"]++
			default:
				ok = false // a Sync exists but not between the append and the pointer edit
			}
		}
		switch {
		case ok && vals["true"] == 3:
			o.Set("raftwal.flushOnAppend", anchor, "true", true, "")
		case ok && vals["false"] == 3:
			o.Set("raftwal.flushOnAppend", anchor, "false", true, "")
		default:
			o.Set("raftwal.flushOnAppend", anchor, "", false, "false")
		}
	}
	// raftwal.syncFlushes: Manager.Sync = m.writer.Flush() then m.active.Sync()
	wm := o.Load("wal/manager.go")
	{
		anchor := "wal/manager.go:Manager.Sync"
		fd := wm.Func("Manager.Sync")
		f := wm.CallIndex(body(fd), "m.writer.Flush")
		s := wm.CallIndex(body(fd), "m.active.Sync")
		switch {
		case fd == nil || s < 0:
			o.Set("raftwal.syncFlushes", anchor, "", false, "true")
		case f >= 0 && f < s:
			o.Set("raftwal.syncFlushes", anchor, "true", true, "")
		case f < 0:
			o.Set("raftwal.syncFlushes", anchor, "false", true, "")
		default:
			o.Set("raftwal.syncFlushes", anchor, "", false, "true")
		}
	}

	// raftwal.sendAfterPersist: peer.processReady — `if err := p.handleReady(rd); err != nil {…}`
	// must not send in its error branch, and p.sendMessages comes after p.handleReady.
	pr := o.Load("raftstore/peer/peer.go")
	{
		anchor := "raftstore/peer/peer.go:processReady"
		fd := pr.Func("Peer.processReady")
		hr := pr.CallIndex(body(fd), "p.handleReady")
		sm := pr.CallIndex(body(fd), "p.sendMessages")
		errBranchSends, found := false, false
		if fd != nil {
			ast.Inspect(fd.Body, func(n ast.Node) bool {
				is, ok := n.(*ast.IfStmt)
				if !ok || is.Init == nil || !strings.Contains(pr.Src(is.Init), "p.handleReady(") {
					return true
				}
				found = true
				if pr.HasCall(is.Body, "p.sendMessages") || pr.HasCall(is.Body, "p.transport.Send") {
					errBranchSends = true
				}
				return true
			})
		}
		switch {
		case fd == nil || !found || hr < 0 || sm < 0:
			o.Set("raftwal.sendAfterPersist", anchor, "", false, "true")
		case errBranchSends || sm < hr:
			o.Set("raftwal.sendAfterPersist", anchor, "false", true, "")
		default:
			o.Set("raftwal.sendAfterPersist", anchor, "true", true, "")
		}
	}

	// raftwal.hsAfterEntries: peer.handleReady persists p.storage.Append(rd.Entries) before
	// p.storage.SetHardState(rd.HardState) (etcd/raft: "Entries first, then HardState").
	{
		anchor := "raftstore/peer/peer.go:handleReady"
		fd := pr.Func("Peer.handleReady")
		a := pr.CallIndex(body(fd), "p.storage.Append")
		h := pr.CallIndex(body(fd), "p.storage.SetHardState")
		o.Set("raftwal.hsAfterEntries", anchor, fmt.Sprint(a >= 0 && h >= 0 && a < h), fd != nil && a >= 0 && h >= 0, "false")
	}
	// raftwal.bootstrapChecksHardState: Peer.Bootstrap returns early (no RawNode.Bootstrap) when the
	// recovered hard state is not empty — `!myraft.IsEmptyHardState(hs)` in a condition whose body returns.
	{
		anchor := "raftstore/peer/peer.go:Bootstrap"
		fd := pr.Func("Peer.Bootstrap")
		checks := false
		for _, c := range pr.IfWithBodyContaining(body(fd), "return nil") {
			if strings.Contains(c, "!myraft.IsEmptyHardState(hs)") {
				checks = true
			}
		}
		o.Set("raftwal.bootstrapChecksHardState", anchor, fmt.Sprint(checks), fd != nil && pr.HasCall(body(fd), "p.node.Bootstrap"), "true")
	}
	// raftwal.replayLengthBound: WAL replay accepts any record length the file holds: replayFile
	// only calls Next/Length/Type/Record/Err/Close on its iterator and DecodeRecord compares the
	// length prefix with nothing but 0.
	{
		anchor := "wal/manager.go:replayFile + wal/record.go:DecodeRecord"
		rf := wm.Func("Manager.replayFile")
		bounded := false
		okShape := rf != nil
		if rf != nil {
			for _, c := range wm.Calls(rf.Body) {
				if strings.HasPrefix(c, "reIter.") {
					switch c {
					case "reIter.Next", "reIter.Length", "reIter.Type", "reIter.Record", "reIter.Err", "reIter.Close":
					default:
						bounded = true
					}
				}
			}
		}
		rec := o.Load("wal/record.go")
		found := false
		for _, d := range rec.AST.Decls {
			fd, ok := d.(*ast.FuncDecl)
			if !ok || fd.Body == nil {
				continue
			}
			if fd.Name.Name != "DecodeRecord" && fd.Name.Name != "decodeRecord" {
				continue
			}
			found = true
			for _, c := range rec.Comparisons(fd.Body) {
				if (c.X == "length" && !(c.Op == "eq" && c.Y == "0")) || c.Y == "length" {
					bounded = true
				}
			}
		}
		v := "none"
		if bounded {
			v = "bounded"
		}
		o.Set("raftwal.replayLengthBound", anchor, v, okShape && found, "none")
	}

	extractC36(o)

	f := o.Facts
	lean := fmt.Sprintf(`-- GENERATED by /verif/extract/cmd/raftwal from the current /repo working tree. Do not edit.
import NoKVModel.Raftwal.Store
import NoKVModel.Raftwal.Segments

namespace NoKV.Generated.Raftwal
open NoKV NoKV.Raftwal

def cfg : Cfg :=
  { flushOnAppend := %s, syncFlushes := %s, sendAfterPersist := %s, hsAfterEntries := %s }

%s
end NoKV.Generated.Raftwal
`, f["raftwal.flushOnAppend"], f["raftwal.syncFlushes"], f["raftwal.sendAfterPersist"], f["raftwal.hsAfterEntries"], leanC36(f))
	o.Write(*jsonOut, *leanOut, lean)
}

// Fact extractor for the client engine (C28 client two-phase commit, C30 Redis read-modify-write).
package main

import (
	"flag"
	"fmt"
	"go/ast"
	"go/token"
	"strings"

	"verif/extract/elib"
)

func main() {
	repo := flag.String("repo", "/repo", "repository root")
	jsonOut := flag.String("json", "", "facts json")
	leanOut := flag.String("lean", "", "generated Lean file")
	flag.Parse()
	o := elib.New("client", *repo)

	// ---------------------------------------------------------------- raftstore/client/client.go (C28)
	cf := o.Load("raftstore/client/client.go")
	tpc := cf.Func("Client.TwoPhaseCommit")
	const tpcAnchor = "raftstore/client/client.go:TwoPhaseCommit"
	{
		// Expected shape: calls `c.prewriteRegion(ctx, <region>, primary, …)` and
		// `c.commitRegion(ctx, <region>, <keys>, …)`; the first prewrite is for `primaryID`;
		// every prewrite call precedes every commit call; the first commit call is for
		// `primaryID` and its key argument is either `collectKeys(primaryMutations)`
		// (regionGrouped) or a `[][]byte{primary}` literal (primaryAlone).
		type call struct {
			pos    token.Pos
			region string
			keys   string
			inIf   bool // `if err := <call>; err != nil { return err }`
		}
		var pre, com []call
		if tpc != nil {
			guarded := map[*ast.CallExpr]bool{}
			ast.Inspect(tpc.Body, func(n ast.Node) bool {
				if is, ok := n.(*ast.IfStmt); ok && is.Init != nil {
					if as, ok := is.Init.(*ast.AssignStmt); ok && len(as.Rhs) == 1 && len(as.Lhs) == 1 {
						if ce, ok := as.Rhs[0].(*ast.CallExpr); ok && cf.Src(is.Cond) == cf.Src(as.Lhs[0])+" != nil" {
							ret := false
							for _, st := range is.Body.List {
								if r, ok := st.(*ast.ReturnStmt); ok && len(r.Results) == 1 && cf.Src(r.Results[0]) == cf.Src(as.Lhs[0]) {
									ret = true
								}
							}
							if ret {
								guarded[ce] = true
							}
						}
					}
				}
				return true
			})
			ast.Inspect(tpc.Body, func(n ast.Node) bool {
				ce, ok := n.(*ast.CallExpr)
				if !ok {
					return true
				}
				switch cf.Src(ce.Fun) {
				case "c.prewriteRegion":
					if len(ce.Args) >= 2 {
						pre = append(pre, call{pos: ce.Pos(), region: cf.Src(ce.Args[1]), inIf: guarded[ce]})
					}
				case "c.commitRegion":
					if len(ce.Args) >= 3 {
						com = append(com, call{pos: ce.Pos(), region: cf.Src(ce.Args[1]), keys: cf.Src(ce.Args[2]), inIf: guarded[ce]})
					}
				}
				return true
			})
		}
		shape := tpc != nil && len(pre) >= 2 && len(com) >= 2 && pre[0].region == "primaryID" && com[0].region == "primaryID"
		if shape {
			for _, p := range pre {
				if p.pos > com[0].pos || !p.inIf {
					shape = false // a prewrite after the first commit, or an ignored prewrite error
				}
			}
		}
		order := ""
		if shape {
			switch {
			case com[0].keys == "collectKeys(primaryMutations)":
				order = "regionGrouped"
			case com[0].keys == "[][]byte{primary}":
				// the remaining keys of the primary's region must follow in a later call
				if len(com) >= 3 && com[1].region == "primaryID" {
					order = "primaryAlone"
				}
			}
		}
		o.Set("client.commitOrder", tpcAnchor, order, shape && order != "", "regionGrouped")
		if shape {
			o.Set("client.primaryCommitErrStops", tpcAnchor, fmt.Sprint(com[0].inIf), true, "")
		} else {
			o.Set("client.primaryCommitErrStops", tpcAnchor, "", false, "true")
		}
	}

	{
		// prewriteRegion / commitRegion: one RPC per attempt carrying exactly the keys it was given,
		// and success (`return nil`) only after that RPC came back without region or key error.
		// Expected shape: inside the attempt loop, the request is built from the parameter
		// (`Mutations: muts` / `Keys: cloneKeys(keys)`) and every `return nil` of the function sits
		// inside the loop, after the `st.client.Kv…` call.
		for _, fn := range []struct{ name, rpc, field, want, fact string }{
			{"Client.prewriteRegion", "st.client.KvPrewrite", "Mutations", "muts", "client.prewriteSendsAll"},
			{"Client.commitRegion", "st.client.KvCommit", "Keys", "cloneKeys(keys)", "client.commitSendsAll"},
		} {
			fd := cf.Func(fn.name)
			anchor := "raftstore/client/client.go:" + strings.TrimPrefix(fn.name, "Client.")
			ok, val := false, "true"
			if fd != nil {
				var loop *ast.ForStmt
				for _, st := range fd.Body.List {
					if f, isFor := st.(*ast.ForStmt); isFor {
						loop = f
					}
				}
				var rpcPos token.Pos
				fieldOK := false
				if loop != nil {
					ast.Inspect(loop.Body, func(n ast.Node) bool {
						if ce, isCall := n.(*ast.CallExpr); isCall && cf.Src(ce.Fun) == fn.rpc {
							rpcPos = ce.Pos()
						}
						if kv, isKV := n.(*ast.KeyValueExpr); isKV && cf.Src(kv.Key) == fn.field {
							fieldOK = cf.Src(kv.Value) == fn.want
						}
						return true
					})
				}
				if loop != nil && rpcPos != token.NoPos {
					ok = true
					if !fieldOK {
						val = "false" // the request does not carry exactly what the caller passed
					}
					ast.Inspect(fd.Body, func(n ast.Node) bool {
						if r, isRet := n.(*ast.ReturnStmt); isRet && len(r.Results) == 1 && cf.Src(r.Results[0]) == "nil" {
							if r.Pos() < rpcPos || r.Pos() > loop.End() {
								val = "false" // success reported without a successful RPC
							}
						}
						return true
					})
				}
			}
			o.Set(fn.fact, anchor, val, ok, "true")
		}
	}

	// ---------------------------------------------------------------- percolator/txn.go (C28 needs C18's decision)
	pf := o.Load("percolator/txn.go")
	{
		const anchor = "percolator/txn.go:Commit"
		cm := pf.Func("Commit")
		// Expected shape: inside the loop over req.Keys, `if lock == nil { … if write != nil { … } … }`.
		// rejectsRollback = the `write != nil` body compares write.Kind with pb.Mutation_Rollback.
		found, rejects := false, false
		if cm != nil {
			ast.Inspect(cm.Body, func(n ast.Node) bool {
				is, ok := n.(*ast.IfStmt)
				if !ok || pf.Src(is.Cond) != "lock == nil" {
					return true
				}
				ast.Inspect(is.Body, func(m ast.Node) bool {
					in, ok := m.(*ast.IfStmt)
					if !ok || pf.Src(in.Cond) != "write != nil" {
						return true
					}
					found = true
					for _, c := range pf.Comparisons(in.Body) {
						if c.X == "write.Kind" && c.Y == "pb.Mutation_Rollback" && (c.Op == "eq" || c.Op == "ne") {
							rejects = true
						}
					}
					return false
				})
				return false
			})
		}
		o.Set("perc.commitNoLockRejectsRollback", anchor, fmt.Sprint(rejects), found, "false")
	}

	{
		// prewriteMutation: a key locked by ANOTHER transaction is answered Locked, nothing else.
		// Expected shape: `if lock != nil && lock.Ts != req.StartVersion { return keyErrorLocked(key, lock) }`.
		const anchor = "percolator/txn.go:prewriteMutation"
		pm := pf.Func("prewriteMutation")
		found, val := false, ""
		if pm != nil {
			ast.Inspect(pm.Body, func(n ast.Node) bool {
				is, ok := n.(*ast.IfStmt)
				if !ok || pf.Src(is.Cond) != "lock != nil && lock.Ts != req.StartVersion" {
					return true
				}
				found = true
				switch {
				case len(is.Body.List) == 1 && pf.Src(is.Body.List[0]) == "return keyErrorLocked(key, lock)" && is.Else == nil:
					val = "locked"
				case pf.HasCall(is.Body, "rollbackKey"):
					val = "rollsBackExpired"
				default:
					found = false
				}
				return false
			})
		}
		o.Set("perc.prewriteForeignLock", anchor, val, found, "locked")
	}
	{
		// prewriteMutation: `if lock != nil [&& lock.Ts == req.StartVersion] { return nil }` after the
		// foreign-lock test = a duplicate prewrite keeps the transaction's own lock (and a pushed
		// min-commit ts); absent = the lock is rewritten.  (same rule and name as the perc engine)
		pm := pf.Func("prewriteMutation")
		keeps, shapeOK, foreign := false, pm != nil, false
		nospace := func(x string) string { return strings.ReplaceAll(x, " ", "") }
		if pm != nil {
			for _, st := range pm.Body.List {
				is, ok := st.(*ast.IfStmt)
				if !ok || is.Init != nil {
					continue
				}
				c := nospace(pf.Src(is.Cond))
				if !strings.HasPrefix(c, "lock!=nil") {
					continue
				}
				switch {
				case c == "lock!=nil&&lock.Ts!=req.StartVersion":
					foreign = true
				case (c == "lock!=nil" || c == "lock!=nil&&lock.Ts==req.StartVersion") && foreign &&
					is.Else == nil && len(is.Body.List) == 1 && pf.Src(is.Body.List[0]) == "return nil":
					keeps = true
				default:
					shapeOK = false
				}
			}
		}
		o.Set("prewrite.keepsOwnLock", "percolator/txn.go:prewriteMutation", fmt.Sprint(keeps), shapeOK && foreign, "true")
	}
	{
		// rollbackKey removes the lock only if it belongs to the transaction being rolled back.
		// Expected shape: the `db.DeleteVersionedEntry(kv.CFLock, …)` call sits inside an `if` whose
		// condition contains `lock.Ts == startTs` (true) or directly in the function body (false).
		const anchor = "percolator/txn.go:rollbackKey"
		rk := pf.Func("rollbackKey")
		found, guarded := false, false
		if rk != nil {
			var walk func(n ast.Node, g bool)
			walk = func(n ast.Node, g bool) {
				ast.Inspect(n, func(x ast.Node) bool {
					if is, ok := x.(*ast.IfStmt); ok && x != n {
						gg := g
						for _, c := range pf.Comparisons(is.Cond) {
							if c.X == "lock.Ts" && c.Y == "startTs" && c.Op == "eq" {
								gg = true
							}
						}
						if is.Init != nil {
							walk(is.Init, g)
						}
						walk(is.Body, gg)
						if is.Else != nil {
							walk(is.Else, g)
						}
						return false
					}
					if ce, ok := x.(*ast.CallExpr); ok && pf.Src(ce.Fun) == "db.DeleteVersionedEntry" && len(ce.Args) > 0 && pf.Src(ce.Args[0]) == "kv.CFLock" {
						found = true
						if g {
							guarded = true
						}
					}
					return true
				})
			}
			walk(rk.Body, false)
		}
		o.Set("perc.rollbackChecksOwner", anchor, fmt.Sprint(guarded), found, "true")
	}

	// ---------------------------------------------------------------- percolator/reader.go (read rule used by the C28 model)
	{
		const anchor = "percolator/reader.go:getWriteForRead"
		rf := o.Load("percolator/reader.go")
		fn := rf.Func("Reader.getWriteForRead")
		// Expected shape: `r.scanWrites(key, func(w Write, ts uint64) bool { … })`.  The callback looks
		// past a kind K iff it contains `if <cond mentioning w.Kind == pb.Mutation_K> { return true }`
		// before the `ts <= readTs` selection.
		found, skipRb, skipLock := false, false, false
		if fn != nil {
			ast.Inspect(fn.Body, func(n ast.Node) bool {
				ce, ok := n.(*ast.CallExpr)
				if !ok || rf.Src(ce.Fun) != "r.scanWrites" || len(ce.Args) != 2 {
					return true
				}
				fl, ok := ce.Args[1].(*ast.FuncLit)
				if !ok {
					return true
				}
				found = true
				for _, st := range fl.Body.List {
					is, ok := st.(*ast.IfStmt)
					if !ok || len(is.Body.List) != 1 || rf.Src(is.Body.List[0]) != "return true" {
						continue
					}
					for _, c := range rf.Comparisons(is.Cond) {
						if c.X == "w.Kind" && c.Op == "eq" && c.Y == "pb.Mutation_Rollback" {
							skipRb = true
						}
						if c.X == "w.Kind" && c.Op == "eq" && c.Y == "pb.Mutation_Lock" {
							skipLock = true
						}
					}
				}
				return false
			})
		}
		o.Set("perc.getSkipsRollback", anchor, fmt.Sprint(skipRb), found, "true")
		o.Set("perc.getSkipsLock", anchor, fmt.Sprint(skipLock), found, "true")
	}

	// ---------------------------------------------------------------- cmd/nokv-redis (C30)
	{
		const anchor = "cmd/nokv-redis/main.go:main + options.go:NewDefaultOptions"
		of := o.Load("options.go")
		mf := o.Load("cmd/nokv-redis/main.go")
		nd := of.Func("NewDefaultOptions")
		mn := mf.Func("main")
		// default: the DetectConflicts field of the composite literal in NewDefaultOptions (absent = false)
		def, defOK := "false", false
		if nd != nil {
			ast.Inspect(nd.Body, func(n ast.Node) bool {
				cl, ok := n.(*ast.CompositeLit)
				if !ok || !strings.HasSuffix(of.Src(cl.Type), "Options") {
					return true
				}
				defOK = true
				for _, el := range cl.Elts {
					if kv, ok := el.(*ast.KeyValueExpr); ok && of.Src(kv.Key) == "DetectConflicts" {
						def = of.Src(kv.Value)
					}
				}
				return false
			})
			// or an assignment `opt.DetectConflicts = …` in the function
			ast.Inspect(nd.Body, func(n ast.Node) bool {
				if as, ok := n.(*ast.AssignStmt); ok && len(as.Lhs) == 1 && strings.HasSuffix(of.Src(as.Lhs[0]), ".DetectConflicts") {
					def = of.Src(as.Rhs[0])
				}
				return true
			})
		}
		// main: `opt := newDefaultOptions()` … optional `opt.DetectConflicts = <bool>` … `NoKV.Open(opt)`
		val, mainOK := def, false
		if mn != nil && mf.HasCall(mn.Body, "newDefaultOptions") && mf.HasCall(mn.Body, "NoKV.Open") {
			mainOK = true
			openPos := token.Pos(0)
			ast.Inspect(mn.Body, func(n ast.Node) bool {
				if ce, ok := n.(*ast.CallExpr); ok && mf.Src(ce.Fun) == "NoKV.Open" {
					openPos = ce.Pos()
				}
				return true
			})
			ast.Inspect(mn.Body, func(n ast.Node) bool {
				if as, ok := n.(*ast.AssignStmt); ok && len(as.Lhs) == 1 && mf.Src(as.Lhs[0]) == "opt.DetectConflicts" && as.Pos() < openPos {
					val = mf.Src(as.Rhs[0])
				}
				return true
			})
		}
		ok := defOK && mainOK && (val == "true" || val == "false")
		o.Set("redis.detectConflicts", anchor, val, ok, "false")
	}
	{
		// Txn.Get: addReadKey before the LSM lookup, so every return path after the lookup (value,
		// miss, delete marker, expired version) has recorded the key; addReadKey appends the
		// fingerprint.  (same rule and name as the mvcc engine's `txn.trackGet`)
		tx := o.Load("txn.go")
		fd := tx.Func("Txn.Get")
		ark := tx.Func("Txn.addReadKey")
		switch {
		case fd == nil || ark == nil || tx.CallIndex(fd.Body, "txn.db.loadBorrowedEntry") < 0:
			o.Set("txn.trackGet", "txn.go:Txn.Get", "", false, "true")
		case !tx.HasStmt(ark.Body, "txn.reads = append(txn.reads, fp)") || !tx.HasStmt(ark.Body, "fp := kv.MemHash(key)"):
			o.Set("txn.trackGet", "txn.go:Txn.addReadKey", "", false, "true")
		default:
			i, j := tx.CallIndex(fd.Body, "txn.addReadKey"), tx.CallIndex(fd.Body, "txn.db.loadBorrowedEntry")
			switch {
			case i < 0:
				o.Set("txn.trackGet", "txn.go:Txn.Get", "false", true, "")
			case i < j:
				o.Set("txn.trackGet", "txn.go:Txn.Get", "true", true, "")
			default:
				o.Set("txn.trackGet", "txn.go:Txn.Get", "", false, "true") // recorded after the lookup: per-path analysis not attempted
			}
		}
	}
	{
		// oracle.readTs: a new transaction waits, without a deadline, until every commit at or below
		// its read timestamp has been applied.  Expected statement:
		//   utils.Check(o.txnMark.WaitForMark(context.Background(), readTs))
		tx := o.Load("txn.go")
		fd := tx.Func("oracle.readTs")
		ok := fd != nil && tx.HasStmt(fd.Body, "utils.Check(o.txnMark.WaitForMark(context.Background(), readTs))")
		o.Set("oracle.readTsWaitsUnbounded", "txn.go:oracle.readTs", "true", ok, "true")
	}
	{
		// The read mark of a transaction is released exactly once: the only `o.readMark.Done(` call of
		// txn.go sits in oracle.doneRead under `if !txn.doneRead { txn.doneRead = true; … }`.
		// The conflict history is pruned by the read mark only: o.committedTxns is assigned in
		// newCommitTs (`append(o.committedTxns, …)`) and in cleanupCommittedTransactions
		// (`o.committedTxns = tmp`) and nowhere else (no size cap).
		tx := o.Load("txn.go")
		dr := tx.Func("oracle.doneRead")
		doneCalls, inDoneRead := 0, false
		type asg struct{ fn, rhs string }
		var assigns []asg
		for _, d := range tx.AST.Decls {
			fd, ok := d.(*ast.FuncDecl)
			if !ok || fd.Body == nil {
				continue
			}
			ast.Inspect(fd.Body, func(n ast.Node) bool {
				if ce, ok := n.(*ast.CallExpr); ok && tx.Src(ce.Fun) == "o.readMark.Done" {
					doneCalls++
					if fd == dr {
						inDoneRead = true
					}
				}
				if as, ok := n.(*ast.AssignStmt); ok && len(as.Lhs) == 1 && tx.Src(as.Lhs[0]) == "o.committedTxns" {
					assigns = append(assigns, asg{fd.Name.Name, tx.Src(as.Rhs[0])})
				}
				return true
			})
		}
		guarded := dr != nil && len(dr.Body.List) == 1 && func() bool {
			is, ok := dr.Body.List[0].(*ast.IfStmt)
			return ok && tx.Src(is.Cond) == "!txn.doneRead" && tx.HasStmt(is.Body, "txn.doneRead = true") && tx.HasStmt(is.Body, "o.readMark.Done(txn.readTs)")
		}()
		o.Set("oracle.readMarkDoneOnce", "txn.go:oracle.doneRead/newCommitTs", fmt.Sprint(doneCalls == 1 && inDoneRead && guarded), dr != nil && doneCalls >= 1, "true")
		okShape, only := false, true
		for _, a := range assigns {
			switch {
			case a.fn == "newCommitTs" && strings.HasPrefix(a.rhs, "append(o.committedTxns,"):
				okShape = true
			case a.fn == "cleanupCommittedTransactions" && a.rhs == "tmp":
			case a.fn == "initCommitState" || a.fn == "newOracle":
			default:
				only = false
			}
		}
		o.Set("oracle.historyPrunedByReadMarkOnly", "txn.go:oracle.newCommitTs/cleanupCommittedTransactions", fmt.Sprint(only), okShape, "true")
	}
	{
		const anchor = "cmd/nokv-redis/backend_raft.go:IncrBy/Set/mutate"
		rf := o.Load("cmd/nokv-redis/backend_raft.go")
		inc, set, mut := rf.Func("raftBackend.IncrBy"), rf.Func("raftBackend.Set"), rf.Func("raftBackend.mutate")
		// as-is shape: IncrBy reserves a timestamp, reads with getAtVersion(key, version) and writes
		// through b.Set → b.mutate, which reserves a *fresh* start timestamp (`b.reserveTimestamp(2)`,
		// commit := start + 1).  Good shape: mutate takes its start version from the caller
		// (no reserveTimestamp call inside mutate) so the prewrite conflict test covers the read.
		shape := inc != nil && set != nil && mut != nil &&
			rf.CallIndex(inc.Body, "b.reserveTimestamp") >= 0 && rf.CallIndex(inc.Body, "b.getAtVersion") > rf.CallIndex(inc.Body, "b.reserveTimestamp") &&
			rf.HasCall(inc.Body, "b.Set") && rf.HasCall(set.Body, "b.mutate") && rf.HasCall(mut.Body, "b.client.Mutate")
		val := ""
		if shape {
			if rf.HasCall(mut.Body, "b.reserveTimestamp") {
				val = "false"
			} else {
				val = "true"
			}
		}
		o.Set("redis.raftConflictFromReadTs", anchor, val, shape, "false")
	}

	f := o.Facts
	lean := fmt.Sprintf(`-- GENERATED by /verif/extract/cmd/client from the current /repo working tree. Do not edit.
import NoKVModel.Client.TwoPC
import NoKVModel.Client.Redis

namespace NoKV.Generated.Client
open NoKV NoKV.Client

def clientCfg : ClientCfg :=
  { commitOrder := .%s, primaryCommitErrStops := %s,
    perc := { commitNoLockRejectsRollback := %s, readSkipsRollback := %s, prewriteKeepsOwnLock := %s } }

def redisCfg : RedisCfg :=
  { detectConflicts := %s, raftConflictFromReadTs := %s, trackGet := %s }

end NoKV.Generated.Client
`, f["client.commitOrder"], f["client.primaryCommitErrStops"], f["perc.commitNoLockRejectsRollback"], f["perc.getSkipsRollback"], f["prewrite.keepsOwnLock"],
		f["redis.detectConflicts"], f["redis.raftConflictFromReadTs"], f["txn.trackGet"])
	o.Write(*jsonOut, *leanOut, lean)
}

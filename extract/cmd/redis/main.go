// Fact extractor for the Redis engine (C31 RESP parser, C29 gateway commands).
//
// Every rule names the syntactic shape it expects in cmd/nokv-redis; an unknown shape is a
// shape error (broken obligation extract:<fact>), never a silent default.
package main

import (
	"flag"
	"fmt"
	"go/ast"
	"go/token"
	"strconv"
	"strings"

	"verif/extract/elib"
)

func body(fd *ast.FuncDecl) ast.Node {
	if fd == nil || fd.Body == nil {
		return nil
	}
	return fd.Body
}

// makeCalls lists the source of every make(...) call under n.
func makeCalls(f *elib.File, n ast.Node) []string {
	var out []string
	if n == nil {
		return out
	}
	ast.Inspect(n, func(x ast.Node) bool {
		if c, ok := x.(*ast.CallExpr); ok {
			if id, ok := c.Fun.(*ast.Ident); ok && id.Name == "make" {
				out = append(out, f.Src(c))
			}
		}
		return true
	})
	return out
}

// intConst evaluates `name = <int literal>` or `name = a << b` in the file's const blocks.
func intConst(f *elib.File, name string) (int, bool) {
	for _, d := range f.AST.Decls {
		gd, ok := d.(*ast.GenDecl)
		if !ok || gd.Tok != token.CONST {
			continue
		}
		for _, sp := range gd.Specs {
			vs := sp.(*ast.ValueSpec)
			for i, n := range vs.Names {
				if n.Name != name || i >= len(vs.Values) {
					continue
				}
				return evalInt(vs.Values[i])
			}
		}
	}
	return 0, false
}

func evalInt(e ast.Expr) (int, bool) {
	switch v := e.(type) {
	case *ast.BasicLit:
		n, err := strconv.ParseInt(v.Value, 0, 64)
		return int(n), err == nil
	case *ast.ParenExpr:
		return evalInt(v.X)
	case *ast.BinaryExpr:
		a, ok1 := evalInt(v.X)
		b, ok2 := evalInt(v.Y)
		if !ok1 || !ok2 {
			return 0, false
		}
		switch v.Op {
		case token.SHL:
			return a << uint(b), true
		case token.MUL:
			return a * b, true
		case token.ADD:
			return a + b, true
		}
	}
	return 0, false
}

func main() {
	repo := flag.String("repo", "/repo", "repository root")
	jsonOut := flag.String("json", "", "facts json")
	leanOut := flag.String("lean", "", "generated Lean file")
	flag.Parse()
	o := elib.New("redis", *repo)

	sv := o.Load("cmd/nokv-redis/server.go")
	be := o.Load("cmd/nokv-redis/backend_embedded.go")

	// ---------------------------------------------------------------- parseRESP (C31)
	const aParse = "cmd/nokv-redis/server.go:parseRESP"
	pr := sv.Func("parseRESP")
	rb := sv.Func("readBulk")
	prSrc := sv.Src(body(pr))
	{
		// resp.arrayPrealloc: the one `make([][]byte, 0, X)` of parseRESP.
		//   X = n                          -> declared
		//   X = min(n, maxArrayPrealloc)   -> min:<const>
		var caps []string
		for _, m := range makeCalls(sv, body(pr)) {
			if strings.HasPrefix(m, "make([][]byte, 0, ") {
				caps = append(caps, strings.TrimSuffix(strings.TrimPrefix(m, "make([][]byte, 0, "), ")"))
			}
		}
		switch {
		case len(caps) == 1 && caps[0] == "n":
			o.Set("resp.arrayPrealloc", aParse, "declared", true, "")
		case len(caps) == 1 && (caps[0] == "min(n, maxArrayPrealloc)" || caps[0] == "min(maxArrayPrealloc, n)"):
			v, ok := intConst(sv, "maxArrayPrealloc")
			o.Set("resp.arrayPrealloc", aParse, fmt.Sprintf("min:%d", v), ok && v > 0, "declared")
		default:
			o.Set("resp.arrayPrealloc", aParse, "", false, "declared")
		}
	}
	{
		// resp.bulkRead: `buf := make([]byte, l)` + io.ReadFull in parseRESP -> declared;
		// `readBulk(r, l)` whose buffers are make([]byte, min(l, bulkReadChunk)) and
		// make([]byte, min(l, 2*filled)), grown only after io.ReadFull filled the previous one -> chunked:<const>
		declared := false
		for _, m := range makeCalls(sv, body(pr)) {
			if m == "make([]byte, l)" {
				declared = true
			}
		}
		callsReadBulk := sv.HasCall(body(pr), "readBulk")
		switch {
		case declared && !callsReadBulk && strings.Contains(prSrc, "io.ReadFull(r, buf)"):
			o.Set("resp.bulkRead", aParse, "declared", true, "")
		case !declared && callsReadBulk && rb != nil:
			ms := makeCalls(sv, body(rb))
			src := sv.Src(body(rb))
			okShape := len(ms) == 2 && ms[0] == "make([]byte, min(l, bulkReadChunk))" && ms[1] == "make([]byte, min(l, 2*filled))" &&
				strings.Contains(src, "io.ReadFull(r, buf[filled:])") && strings.Contains(src, "filled = len(buf)") &&
				strings.Contains(src, "if filled == l { return buf, nil }") &&
				strings.Index(src, "io.ReadFull(r, buf[filled:])") < strings.Index(src, "make([]byte, min(l, 2*filled))")
			v, ok := intConst(sv, "bulkReadChunk")
			o.Set("resp.bulkRead", aParse, fmt.Sprintf("chunked:%d", v), okShape && ok && v > 0, "declared")
		default:
			o.Set("resp.bulkRead", aParse, "", false, "declared")
		}
	}
	{
		// resp.bulkCopy: every argument parseRESP hands out is a slice of its own: the payload is read with
		// io.ReadFull into a buffer made for it; no window into the bufio buffer (Peek / ReadSlice / Discard /
		// Buffered) anywhere in parseRESP or readBulk, and readBulk only ever returns `buf`.
		alias := false
		for _, src := range []string{prSrc, sv.Src(body(rb))} {
			for _, bad := range []string{".Peek(", ".ReadSlice(", ".Discard(", ".Buffered(", ".ReadLine("} {
				if strings.Contains(src, bad) {
					alias = true
				}
			}
		}
		retOK := true
		if rb != nil {
			ast.Inspect(rb.Body, func(x ast.Node) bool {
				if rs, ok := x.(*ast.ReturnStmt); ok && len(rs.Results) == 2 {
					if r0 := sv.Src(rs.Results[0]); r0 != "nil" && r0 != "buf" {
						retOK = false
					}
				}
				return true
			})
			if !strings.Contains(sv.Src(rb.Body), "io.ReadFull(r, buf[filled:])") {
				retOK = false
			}
		} else if !strings.Contains(prSrc, "io.ReadFull(r, buf)") {
			retOK = false
		}
		o.Set("resp.bulkCopy", aParse, "copy", pr != nil && !alias && retOK && strings.Contains(prSrc, "out = append(out, buf)"), "copy")
	}
	{
		// no other allocation sized by input in the framing code
		known := map[string]bool{"make([][]byte, 0, n)": true, "make([][]byte, 0, min(n, maxArrayPrealloc))": true,
			"make([][]byte, 0, min(maxArrayPrealloc, n))": true, "make([]byte, l)": true, "make([][]byte, len(fields))": true}
		ok := pr != nil
		for _, m := range makeCalls(sv, body(pr)) {
			if !known[m] {
				ok = false
			}
		}
		for _, fn := range []string{"readLine", "expectCRLF"} {
			if fd := sv.Func(fn); fd == nil || len(makeCalls(sv, body(fd))) != 0 {
				ok = false
			}
		}
		o.Set("resp.otherMakes", aParse, "none", ok, "none")
	}
	{
		lenParser := strings.Count(prSrc, "strconv.Atoi(line)") == 2
		o.Set("resp.lenParser", aParse, "atoi", lenParser, "atoi")
		negArr := false
		negBulk := false
		if pr != nil {
			for _, c := range sv.IfWithBodyContaining(pr.Body, "return nil, nil") {
				if c == "n < 0" {
					negArr = true
				}
			}
			for _, c := range sv.IfWithBodyContaining(pr.Body, "out = append(out, nil)") {
				if c == "l < 0" {
					negBulk = true
				}
			}
		}
		o.Set("resp.negArrayNil", aParse, fmt.Sprint(negArr), pr != nil, "true")
		o.Set("resp.negBulkNil", aParse, fmt.Sprint(negBulk), pr != nil, "true")
		rl := sv.Func("readLine")
		term := false
		if rl != nil {
			for _, c := range sv.IfConds(rl.Body) {
				if c == "len(line) < 2 || line[len(line)-2] != '\\r'" {
					term = true
				}
			}
		}
		// resp.lineRead: readLine takes the whole line whatever its length: r.ReadString('\n') (or ReadBytes);
		// ReadSlice / ReadLine are bounded by the reader's buffer: unknown shape
		rlSrc := sv.Src(body(rl))
		unb := (strings.Contains(rlSrc, "r.ReadString('\\n')") || strings.Contains(rlSrc, "r.ReadBytes('\\n')")) &&
			!strings.Contains(rlSrc, "ReadSlice") && !strings.Contains(rlSrc, "ReadLine")
		o.Set("resp.lineRead", "cmd/nokv-redis/server.go:readLine", "unbounded", unb, "unbounded")
		o.Set("resp.lineTerm", "cmd/nokv-redis/server.go:readLine", map[bool]string{true: "crlf", false: "other"}[term], rl != nil, "crlf")
		o.Set("resp.crlfAfterBulk", aParse, fmt.Sprint(strings.Contains(prSrc, "expectCRLF(r)")), pr != nil, "true")
	}

	{
		// conn.skipEmpty: handleConn skips a frame without arguments before execute indexes args[0]:
		// the `if` whose body flushes pending replies and `continue`s tests `len(args) == 0`.
		hc := sv.Func("redisServer.handleConn")
		val, ok := "", false
		if hc != nil {
			ast.Inspect(hc.Body, func(x ast.Node) bool {
				is, isIf := x.(*ast.IfStmt)
				if !isIf || len(is.Body.List) == 0 {
					return true
				}
				if br, isBr := is.Body.List[len(is.Body.List)-1].(*ast.BranchStmt); isBr && br.Tok == token.CONTINUE {
					switch c := sv.Src(is.Cond); {
					case c == "len(args) == 0" || c == "len(args) < 1":
						val, ok = "len0", true
					case strings.Contains(c, "args"):
						val, ok = strings.ReplaceAll(c, " ", ""), true
					}
				}
				return true
			})
			// execute must come after the skip and be the only consumer of args
			if ok && !(strings.Index(sv.Src(hc.Body), "continue }") < strings.Index(sv.Src(hc.Body), "s.execute(writer, args)")) {
				ok = false
			}
		}
		o.Set("conn.skipEmpty", "cmd/nokv-redis/server.go:handleConn", val, ok, "len0")
	}

	// ---------------------------------------------------------------- command layer (C29)
	const aExec = "cmd/nokv-redis/server.go:execute"
	const aSet = "cmd/nokv-redis/server.go:execSet"
	const aIncr = "cmd/nokv-redis/backend_embedded.go:IncrBy"
	ex := sv.Func("redisServer.execute")
	es := sv.Func("redisServer.execSet")
	exSrc, esSrc := sv.Src(body(ex)), sv.Src(body(es))
	ib := be.Func("embeddedBackend.IncrBy")
	ibSrc := be.Src(body(ib))
	safe := be.Func("strconvParseIntSafe")
	safeSrc := be.Src(body(safe))
	{
		// blank stored value counts as 0: `len(entry.Value) > 0` guard, or TrimSpace(...) == 0 => 0
		guard := strings.Contains(ibSrc, "len(entry.Value) > 0")
		trim := strings.Contains(ibSrc, "strconvParseIntSafe(") && strings.Contains(safeSrc, "len(bytes.TrimSpace(data)) == 0")
		o.Set("gw.incrEmptyAsZero", aIncr, fmt.Sprint(guard || trim), ib != nil, "true")
	}
	{
		// gw.overflowCheck: IncrBy compares against the int64 limits *before* adding:
		//   if delta > 0 && current > math.MaxInt64-delta { return errOverflow }
		//   if delta < 0 && current < math.MinInt64-delta { return errOverflow }
		//   result = current + delta
		// Any other way of detecting overflow is an unknown shape.
		pos, neg := false, false
		if ib != nil {
			for _, c := range be.IfWithBodyContaining(ib.Body, "return errOverflow") {
				switch c {
				case "delta > 0 && current > math.MaxInt64-delta":
					pos = true
				case "delta < 0 && current < math.MinInt64-delta":
					neg = true
				}
			}
		}
		iPos := strings.Index(ibSrc, "current > math.MaxInt64-delta")
		iNeg := strings.Index(ibSrc, "current < math.MinInt64-delta")
		iAdd := strings.Index(ibSrc, "result = current + delta")
		nOv := strings.Count(ibSrc, "errOverflow")
		okShape := pos && neg && iAdd > iPos && iAdd > iNeg && nOv == 2 && strings.Count(ibSrc, "current + delta") == 1
		o.Set("gw.overflowCheck", aIncr, "range-before-add", okShape, "range-before-add")
	}
	{
		// integers parsed with strconv.ParseInt(…, 10, 64) everywhere
		n := strings.Count(exSrc, "strconv.ParseInt(string(args[2]), 10, 64)")
		lax := n == 2 && strings.Contains(esSrc, "strconv.ParseInt(string(args[i+1]), 10, 64)") &&
			strings.Contains(safeSrc, "strconv.ParseInt(string(data), 10, 64)")
		none := !strings.Contains(exSrc, "strconv.ParseInt") && !strings.Contains(esSrc, "strconv.ParseInt") && !strings.Contains(safeSrc, "strconv.ParseInt")
		switch {
		case lax:
			o.Set("gw.intParseLax", aExec, "true", true, "")
		case none && ex != nil && es != nil:
			o.Set("gw.intParseLax", aExec, "false", true, "")
		default:
			o.Set("gw.intParseLax", aExec, "", false, "true")
		}
	}
	{
		// DECRBY: `return s.execIncrBy(w, args[1], -delta)`; a guard mentions math.MinInt64
		cl := sv.CaseClauses(body(ex), "cmd")
		cc := cl["\"DECRBY\""]
		src := ""
		if cc != nil {
			src = sv.Src(cc)
		}
		neg := strings.Contains(src, "s.execIncrBy(w, args[1], -delta)")
		o.Set("gw.decrbyMinChecked", aExec, fmt.Sprint(strings.Contains(src, "math.MinInt64")), cc != nil && neg, "false")
	}
	{
		// PXAT: seconds = num / 1000, and `if expireAt == 0 { … invalid expire time … }` rejects sub-second values
		rej := false
		if es != nil {
			for _, c := range sv.IfWithBodyContaining(es.Body, "invalid expire time in set") {
				if c == "expireAt == 0" {
					rej = true
				}
			}
		}
		o.Set("gw.pxatSubSecondOk", aSet, fmt.Sprint(!rej), es != nil && strings.Contains(esSrc, "sec := num / 1000"), "false")
		// range check of expiry arguments: any mention of math.MaxInt64 in execSet
		o.Set("gw.expireRangeChecked", aSet, fmt.Sprint(strings.Contains(esSrc, "math.MaxInt64")), es != nil && strings.Contains(esSrc, "time.Duration(num) * time.Second"), "false")
	}
	{
		st := be.Func("embeddedBackend.Set")
		rej := strings.Contains(be.Src(body(st)), "if len(args.Key) == 0 { return false, utils.ErrEmptyKey }")
		tx := o.Load("txn.go")
		mod := tx.Func("Txn.modify")
		rej2 := strings.Contains(tx.Src(body(mod)), "case len(e.Key) == 0: return utils.ErrEmptyKey")
		o.Set("gw.emptyKeyOk", "cmd/nokv-redis/backend_embedded.go:Set", fmt.Sprint(!(rej || rej2)), st != nil && mod != nil, "false")
	}
	{
		// empty value read back as nil: Get copies with append([]byte(nil), entry.Value...) (nil for an
		// empty value) and writeBulk maps nil to the nil reply
		g := be.Func("embeddedBackend.Get")
		wb := sv.Func("writeBulk")
		nilCopy := strings.Contains(be.Src(body(g)), "val := append([]byte(nil), entry.Value...)")
		nilReply := false
		if wb != nil {
			for _, c := range sv.IfWithBodyContaining(wb.Body, "return writeNil(w)") {
				if c == "data == nil" {
					nilReply = true
				}
			}
		}
		o.Set("gw.emptyValueKept", "cmd/nokv-redis/backend_embedded.go:Get", fmt.Sprint(!(nilCopy && nilReply)), g != nil && wb != nil, "false")
	}
	{
		cl := sv.CaseClauses(body(ex), "cmd")
		cc := cl["\"PING\""]
		lax := false
		if cc != nil {
			for _, c := range sv.IfConds(cc) {
				if c == "len(args) > 1 && len(args[1]) > 0" {
					lax = true
				}
			}
		}
		strict := cc != nil && strings.Contains(sv.Src(cc), "wrong number of arguments for 'PING'")
		o.Set("gw.pingStrict", aExec, fmt.Sprint(strict && !lax), cc != nil && (lax || strict), "false")
	}
	{
		// the command table itself: the set of case labels of execute's switch
		cl := sv.CaseClauses(body(ex), "cmd")
		want := []string{"PING", "ECHO", "GET", "SET", "DEL", "MGET", "MSET", "INCR", "DECR", "INCRBY", "DECRBY", "EXISTS", "QUIT"}
		ok := len(cl) == len(want)+1
		for _, w := range want {
			if cl["\""+w+"\""] == nil {
				ok = false
			}
		}
		o.Set("gw.commands", aExec, strings.Join(want, ","), ok, strings.Join(want, ","))
		o.Set("gw.nameFold", aExec, "upper", strings.Contains(exSrc, "cmd := strings.ToUpper(string(args[0]))"), "upper")
	}

	f := o.Facts
	capN, chunkN := "1024", "65536"
	capped, chunked := "false", "false"
	if strings.HasPrefix(f["resp.arrayPrealloc"], "min:") {
		capped, capN = "true", strings.TrimPrefix(f["resp.arrayPrealloc"], "min:")
	}
	if strings.HasPrefix(f["resp.bulkRead"], "chunked:") {
		chunked, chunkN = "true", strings.TrimPrefix(f["resp.bulkRead"], "chunked:")
	}
	lean := fmt.Sprintf(`-- GENERATED by /verif/extract/cmd/redis from the current /repo working tree. Do not edit.
import NoKVModel.Redis.Resp
import NoKVModel.Redis.Gateway

namespace NoKV.Generated.Redis
open NoKV NoKV.Redis

def parseCfg : PCfg :=
  { arrPreallocCapped := %s, bulkChunked := %s, arrCap := %s, bulkChunk := %s }

def gwCfg : GCfg :=
  { incrEmptyAsZero := %s, intParseLax := %s, decrbyMinChecked := %s, pxatSubSecondOk := %s,
    expireRangeChecked := %s, emptyKeyOk := %s, emptyValueKept := %s, pingStrict := %s }

end NoKV.Generated.Redis
`, capped, chunked, capN, chunkN,
		f["gw.incrEmptyAsZero"], f["gw.intParseLax"], f["gw.decrbyMinChecked"], f["gw.pxatSubSecondOk"],
		f["gw.expireRangeChecked"], f["gw.emptyKeyOk"], f["gw.emptyValueKept"], f["gw.pingStrict"])
	o.Write(*jsonOut, *leanOut, lean)
}

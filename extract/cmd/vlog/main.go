// Fact extractor for the value-log engine (C08, C11).
//
// Every rule names the syntactic shape it expects in the anchored function; when the shape is
// not found the fact is reported as a shape error (`extract:<fact>`) and keeps its fallback.
package main

import (
	"flag"
	"fmt"
	"go/ast"
	"go/token"
	"regexp"
	"strings"

	"verif/extract/elib"
)

var goOp = map[string]string{"<": "lt", "<=": "le", ">": "gt", ">=": "ge", "==": "eq", "!=": "ne"}

func body(fd *ast.FuncDecl) ast.Node {
	if fd == nil || fd.Body == nil {
		return nil
	}
	return fd.Body
}

// posOfCall returns the position of the first (last=false) or last call to callee under n.
func posOfCall(f *elib.File, n ast.Node, callee string, last bool) token.Pos {
	var pos token.Pos
	if n == nil {
		return pos
	}
	ast.Inspect(n, func(x ast.Node) bool {
		if c, ok := x.(*ast.CallExpr); ok && f.Src(c.Fun) == callee {
			if pos == token.NoPos || last {
				pos = c.Pos()
			}
		}
		return true
	})
	return pos
}

// posOfStmt returns the position of the first statement printing exactly as src.
func posOfStmt(f *elib.File, n ast.Node, src string) token.Pos {
	var pos token.Pos
	if n == nil {
		return pos
	}
	ast.Inspect(n, func(x ast.Node) bool {
		if st, ok := x.(ast.Stmt); ok && pos == token.NoPos && f.Src(st) == src {
			pos = st.Pos()
		}
		return true
	})
	return pos
}

// ifReturning lists the conditions of the if-statements under n whose body is exactly `{ <ret> }`.
func ifReturning(f *elib.File, n ast.Node, ret string) []string {
	var out []string
	if n == nil {
		return out
	}
	ast.Inspect(n, func(x ast.Node) bool {
		if s, ok := x.(*ast.IfStmt); ok && len(s.Body.List) == 1 && f.Src(s.Body.List[0]) == ret {
			out = append(out, f.Src(s.Cond))
		}
		return true
	})
	return out
}

func main() {
	repo := flag.String("repo", "/repo", "repository root")
	jsonOut := flag.String("json", "", "facts json")
	leanOut := flag.String("lean", "", "generated Lean file")
	flag.Parse()
	o := elib.New("vlog", *repo)

	// ---------------------------------------------------------------- db.go
	dbf := o.Load("db.go")
	{
		// shape: func (db *DB) shouldWriteValueToLSM(e) bool { return int64(len(e.Value)) <op> db.opt.ValueThreshold }
		fd := dbf.Func("DB.shouldWriteValueToLSM")
		op, ok := dbf.FindCmp(body(fd), "int64(len(e.Value))", "db.opt.ValueThreshold")
		single := fd != nil && fd.Body != nil && len(fd.Body.List) == 1
		o.Set("vlog.thresholdOp", "db.go:shouldWriteValueToLSM", op, ok && single, "lt")
	}
	{
		// loadBorrowedEntry resolves a pointer entry through vlog.read and returns the read error
		fd := dbf.Func("DB.loadBorrowedEntry")
		ok := fd != nil && dbf.HasCall(fd.Body, "db.lsm.Get") && dbf.HasCall(fd.Body, "db.vlog.read") &&
			dbf.HasCall(fd.Body, "kv.IsValuePtr") && dbf.HasStmt(fd.Body, "return nil, readErr")
		o.Set("vlog.readResolves", "db.go:loadBorrowedEntry", "true", ok, "true")
	}

	// ---------------------------------------------------------------- db_write.go
	dw := o.Load("db_write.go")
	{
		// commitWorker: vlog.write before applyRequests; applyRequests: writeToLSM before updateHead;
		// writeToLSM: pointer bit and encoded pointer exactly when !shouldWriteValueToLSM
		cw := dw.Func("DB.commitWorker")
		ar := dw.Func("DB.applyRequests")
		wl := dw.Func("DB.writeToLSM")
		a, b := dw.CallIndex(body(cw), "db.vlog.write"), dw.CallIndex(body(cw), "db.applyRequests")
		c, d := dw.CallIndex(body(ar), "db.writeToLSM"), dw.CallIndex(body(ar), "db.updateHead")
		// (the relative order of writeToLSM and updateHead inside applyRequests is C10's fact
		// `db.applyOrder`; the value-log model only needs both to follow the value-log write)
		ok := a >= 0 && b > a && c >= 0 && d >= 0
		ok = ok && wl != nil && dw.HasStmt(wl.Body, "entry.Value = b.Ptrs[i].Encode()") &&
			dw.HasStmt(wl.Body, "entry.Meta = entry.Meta | kv.BitValuePointer") &&
			len(dw.IfWithBodyContaining(wl.Body, "entry.Meta = entry.Meta &^ kv.BitValuePointer")) == 1 &&
			dw.IfWithBodyContaining(wl.Body, "entry.Meta = entry.Meta &^ kv.BitValuePointer")[0] == "db.shouldWriteValueToLSM(entry)"
		o.Set("vlog.commitOrder", "db_write.go:commitWorker/applyRequests/writeToLSM", "vlog,lsm,head", ok, "vlog,lsm,head")
	}

	// ---------------------------------------------------------------- vlog.go
	vf := o.Load("vlog.go")
	{
		// valueLog.write sends to the value log exactly the entries with !shouldWriteValueToLSM
		fd := vf.Func("valueLog.write")
		conds := vf.IfWithBodyContaining(body(fd), "bucketEntries[bucket] = append(bucketEntries[bucket], i)")
		ok := len(conds) == 1 && conds[0] == "!vlog.db.shouldWriteValueToLSM(e)" && vf.HasCall(body(fd), "mgr.AppendEntries")
		o.Set("vlog.writeSelects", "vlog.go:valueLog.write", "notInline", ok, "notInline")
	}
	{
		// removeValueLogFile: LogValueLogDelete before mgr.Remove
		fd := vf.Func("valueLog.removeValueLogFile")
		a, b := vf.CallIndex(body(fd), "vlog.db.lsm.LogValueLogDelete"), vf.CallIndex(body(fd), "mgr.Remove")
		val := "manifest-first"
		if a >= 0 && b >= 0 && b < a {
			val = "unlink-first"
		}
		o.Set("vlog.removeOrder", "vlog.go:removeValueLogFile", val, a >= 0 && b >= 0, "manifest-first")
	}
	{
		// updateHead records mgr.Head() of every touched bucket; shouldPersistHead persists on a new fid
		fd := vf.Func("DB.updateHead")
		sp := vf.Func("DB.shouldPersistHead")
		ok := fd != nil && vf.HasCall(fd.Body, "mgr.Head") && vf.HasCall(fd.Body, "db.lsm.LogValueLogHead") &&
			vf.HasCall(fd.Body, "db.shouldPersistHead")
		ok = ok && sp != nil && len(ifReturning(vf, sp.Body, "return true")) >= 3
		has := false
		for _, c := range ifReturning(vf, body(sp), "return true") {
			if c == "next.Fid != last.Fid" {
				has = true
			}
		}
		o.Set("vlog.headOnNewFid", "vlog.go:updateHead/shouldPersistHead", "true", ok && has, "true")
	}
	{
		// reconcileManifest: invalid ⇒ Remove; untracked ⇒ removed unless fid <= maxValid
		fd := vf.Func("valueLog.reconcileManifest")
		op, ok := vf.FindCmp(body(fd), "fid", "threshold")
		inv := vf.IfWithBodyContaining(body(fd), "mgr.Remove(fid)")
		okInv := false
		for _, c := range inv {
			if c == "!meta.Valid" {
				okInv = true
			}
		}
		ok = ok && okInv && len(ifReturning(vf, body(fd), "continue")) >= 1
		keep := false
		for _, c := range ifReturning(vf, body(fd), "continue") {
			if c == "fid <= threshold" || c == "!hasValid" {
				keep = true
			}
		}
		o.Set("vlog.reconcileKeepOp", "vlog.go:reconcileManifest", op, ok && keep, "le")
	}
	{
		// bucketForEntry without hot routing: kv.ValueLogBucket(e.Key, buckets)
		fd := vf.Func("valueLog.bucketForEntry")
		ok := fd != nil && vf.HasStmt(fd.Body, "return kv.ValueLogBucket(e.Key, buckets)")
		kk := o.Load("kv/key.go")
		bf := kk.Func("ValueLogBucketFromHash")
		vh := kk.Func("ValueLogHash")
		ok = ok && bf != nil && kk.HasStmt(bf.Body, "return hash % buckets") &&
			vh != nil && kk.HasStmt(vh.Body, "return crc32.Checksum(base, CastagnoliCrcTable)") && kk.HasStmt(vh.Body, "base := ParseKey(key)")
		o.Set("vlog.bucketRule", "vlog.go:bucketForEntry, kv/key.go:ValueLogHash", "crc32c-mod", ok, "crc32c-mod")
	}

	// ---------------------------------------------------------------- vlog/io.go, vlog/manager.go
	iof := o.Load("vlog/io.go")
	{
		fd := iof.Func("Manager.reserve")
		op, n := "", 0
		for _, c := range iof.Comparisons(body(fd)) {
			if strings.ReplaceAll(c.X, " ", "") == "int(m.offset)+sz" && c.Y == "int(m.cfg.MaxSize)" {
				op = c.Op
				n++
			}
		}
		ok := n == 1 && iof.HasCall(body(fd), "m.rotateLocked")
		o.Set("vlog.rotateOp", "vlog/io.go:reserve", op, ok, "gt")
	}
	{
		// AppendEntries: one reservation for the batch unless total > MaxSize (then appendPayload per record)
		fd := iof.Func("Manager.AppendEntries")
		op, ok := iof.FindCmp(body(fd), "int64(total)", "m.cfg.MaxSize")
		ok = ok && iof.HasCall(body(fd), "m.reserve") && iof.HasCall(body(fd), "m.appendPayload")
		o.Set("vlog.batchSplitOp", "vlog/io.go:AppendEntries", op, ok, "gt")
	}
	mf := o.Load("vlog/manager.go")
	{
		// rotateLocked: nextID := m.maxFid + 1
		fd := mf.Func("Manager.rotateLocked")
		ok := fd != nil && mf.HasStmt(fd.Body, "nextID := m.maxFid + 1")
		o.Set("vlog.nextFid", "vlog/manager.go:rotateLocked", "max+1", ok, "max+1")
	}
	kvv := o.Load("kv/value.go")
	{
		hdr := ""
		for _, d := range kvv.AST.Decls {
			gd, ok := d.(*ast.GenDecl)
			if !ok || gd.Tok != token.CONST {
				continue
			}
			for _, sp := range gd.Specs {
				vs := sp.(*ast.ValueSpec)
				for i, n := range vs.Names {
					if n.Name == "ValueLogHeaderSize" && i < len(vs.Values) {
						hdr = kvv.Src(vs.Values[i])
					}
				}
			}
		}
		o.Set("vlog.headerSize", "kv/value.go:ValueLogHeaderSize", hdr, hdr != "", "20")
		// DiscardEntry: deleted/expired, or not a value pointer
		fd := kvv.Func("DiscardEntry")
		conds := ifReturning(kvv, body(fd), "return true")
		ok := len(conds) == 2 && conds[0] == "IsDeletedOrExpired(vs.Meta, vs.ExpiresAt)" && conds[1] == "(vs.Meta & BitValuePointer) == 0" &&
			fd != nil && kvv.HasStmt(fd.Body, "return false")
		o.Set("vlog.discardRule", "kv/value.go:DiscardEntry", "deleted|notptr", ok, "deleted|notptr")
	}

	// ---------------------------------------------------------------- vlog_gc.go
	gf := o.Load("vlog_gc.go")
	rw := gf.Func("valueLog.rewrite")
	rwb := body(rw)
	{
		// liveness comparison.  Accepted shapes of the skip condition (body `return nil`):
		//   diskVP.Fid <op1> fid || (diskVP.Fid == fid && diskVP.Offset <op2> ptr.Offset)
		//   diskVP.Fid != fid || diskVP.Offset <op2> ptr.Offset            (op1 = ne)
		re1 := regexp.MustCompile(`^diskVP\.Fid (<|<=|>|>=|==|!=) fid \|\| \(?diskVP\.Fid == fid && diskVP\.Offset (<|<=|>|>=|==|!=) ptr\.Offset\)?$`)
		re2 := regexp.MustCompile(`^diskVP\.Fid != fid \|\| diskVP\.Offset (<|<=|>|>=|==|!=) ptr\.Offset$`)
		fidOp, offOp, n := "", "", 0
		for _, c := range ifReturning(gf, rwb, "return nil") {
			if m := re1.FindStringSubmatch(c); m != nil {
				fidOp, offOp = goOp[m[1]], goOp[m[2]]
				n++
			} else if m := re2.FindStringSubmatch(c); m != nil {
				fidOp, offOp = "ne", goOp[m[1]]
				n++
			}
		}
		// the pointer compared must be the one decoded from the LSM entry found for e.Key
		src := rw != nil && gf.HasStmt(rwb, "diskVP.Decode(entry.Value)") && gf.HasCall(rwb, "vlog.db.lsm.Get") &&
			gf.HasStmt(rwb, "entry, err := vlog.db.lsm.Get(e.Key)")
		o.Set("vlog.gcFidOp", "vlog_gc.go:rewrite.process", fidOp, n == 1 && src, "gt")
		o.Set("vlog.gcOffOp", "vlog_gc.go:rewrite.process", offOp, n == 1 && src, "gt")
		bk := false
		for _, c := range ifReturning(gf, rwb, "return nil") {
			if c == "diskVP.Bucket != bucket" {
				bk = true
			}
		}
		o.Set("vlog.gcChecksBucket", "vlog_gc.go:rewrite.process", fmt.Sprint(bk), rw != nil, "true")
		// DiscardEntry(e, entry) ⇒ return nil, and the not-found fallback entry = e
		disc := false
		for _, c := range ifReturning(gf, rwb, "return nil") {
			if c == "kv.DiscardEntry(e, entry)" {
				disc = true
			}
		}
		fb := gf.HasStmt(rwb, "entry = e")
		o.Set("vlog.gcDiscards", "vlog_gc.go:rewrite.process", "DiscardEntry;notfound=record", disc && fb, "DiscardEntry;notfound=record")
	}
	{
		// miss branch: on ErrKeyNotFound / nil entry the code sets `entry = e` and then runs the SAME
		// unconditional `if kv.DiscardEntry(e, entry) { return nil }` as for a hit; the value-log copy
		// has no pointer bit, so a record the LSM does not hold is never re-inserted.
		// Shape: that if-statement is a top-level statement of the `process` closure (not nested in a
		// branch that excludes the miss case) and precedes the creation of the re-inserted entry.
		top, nested := false, false
		var proc *ast.FuncLit
		if rw != nil {
			ast.Inspect(rwb, func(x ast.Node) bool {
				if as, ok := x.(*ast.AssignStmt); ok && proc == nil && len(as.Lhs) == 1 && gf.Src(as.Lhs[0]) == "process" && len(as.Rhs) == 1 {
					if fl, ok := as.Rhs[0].(*ast.FuncLit); ok {
						proc = fl
					}
				}
				return true
			})
		}
		if proc != nil {
			for _, st := range proc.Body.List {
				if is, ok := st.(*ast.IfStmt); ok && is.Init == nil && is.Else == nil && gf.Src(is.Cond) == "kv.DiscardEntry(e, entry)" &&
					len(is.Body.List) == 1 && gf.Src(is.Body.List[0]) == "return nil" {
					top = true
				}
			}
			for _, c := range ifReturning(gf, proc.Body, "return nil") {
				if c == "kv.DiscardEntry(e, entry)" {
					nested = true
				}
			}
		}
		switch {
		case proc != nil && top:
			o.Set("vlog.gcMissIsLive", "vlog_gc.go:rewrite.process", "false", true, "")
		case proc != nil && nested:
			// DiscardEntry still there but only on some branch: the miss path may get through
			o.Set("vlog.gcMissIsLive", "vlog_gc.go:rewrite.process", "true", true, "")
		default:
			o.Set("vlog.gcMissIsLive", "vlog_gc.go:rewrite.process", "", false, "false")
		}
	}
	{
		// re-inserted entry: same internal key, Meta = 0, value copied from the record
		ok := rw != nil && gf.HasStmt(rwb, "ne.Key = append(ne.Key[:0], e.Key...)") && gf.HasStmt(rwb, "ne.Value = append(ne.Value[:0], e.Value...)")
		o.Set("vlog.gcKeepsKey", "vlog_gc.go:rewrite.process", "true", ok, "true")
		meta := ""
		if rw != nil {
			ast.Inspect(rwb, func(x ast.Node) bool {
				if as, ok := x.(*ast.AssignStmt); ok && len(as.Lhs) == 1 && gf.Src(as.Lhs[0]) == "ne.Meta" && len(as.Rhs) == 1 {
					meta = gf.Src(as.Rhs[0])
				}
				return true
			})
		}
		o.Set("vlog.gcMeta", "vlog_gc.go:rewrite.process", meta, meta != "", "0")
	}
	{
		// order: all batchSet calls, then (post-check), then removeValueLogFile
		lastSet := posOfCall(gf, rwb, "vlog.db.batchSet", true)
		rm := posOfCall(gf, rwb, "vlog.removeValueLogFile", false)
		iter := posOfCall(gf, rwb, "mgr.Iterate", false)
		ok := lastSet != token.NoPos && rm != token.NoPos && iter != token.NoPos && iter < lastSet
		val := "true"
		if ok && rm < lastSet {
			val = "false"
		}
		o.Set("vlog.rewriteThenRemove", "vlog_gc.go:rewrite", val, ok, "true")
		// post-check: `testKey := wb[len(wb)-1].Key` read after the entries went through batchSet
		// (request.Wait releases and resets them) ⇒ lsm.Get(testKey) fails with ErrEmptyKey.
		tk := posOfStmt(gf, rwb, "testKey := wb[len(wb)-1].Key")
		usesTest := gf.HasCall(rwb, "vlog.db.lsm.Get") && strings.Contains(gf.Src(rwb), "vlog.db.lsm.Get(testKey)")
		switch {
		case rw == nil:
			o.Set("vlog.postCheck", "vlog_gc.go:rewrite", "", false, "released")
		case tk != token.NoPos && usesTest && lastSet != token.NoPos && tk > lastSet:
			o.Set("vlog.postCheck", "vlog_gc.go:rewrite", "released", true, "")
		case !usesTest && tk == token.NoPos:
			o.Set("vlog.postCheck", "vlog_gc.go:rewrite", "live", true, "")
		case usesTest && tk == token.NoPos && strings.Contains(gf.Src(rwb), "testKey := kv.SafeCopy(nil, ") && posOfCall(gf, rwb, "kv.SafeCopy", false) < lastSet:
			o.Set("vlog.postCheck", "vlog_gc.go:rewrite", "live", true, "")
		default:
			o.Set("vlog.postCheck", "vlog_gc.go:rewrite", "", false, "released")
		}
		// the active file is refused
		ag := rw != nil && strings.Contains(gf.Src(rwb), "utils.CondPanic(fid >= activeFID")
		o.Set("vlog.gcRefusesActive", "vlog_gc.go:rewrite", "ge", ag, "ge")
	}
	{
		// mid-scan flush of the write-back set: `int64(len(wb)+1) >= MaxBatchCount || size+es >= MaxBatchSize`
		// (count AND bytes bound; a request with >= MaxBatchCount entries is refused by sendToWriteCh)
		conds := gf.IfWithBodyContaining(rwb, "vlog.db.batchSet(wb)")
		val, ok := "", false
		for _, c := range conds {
			n := strings.ReplaceAll(c, " ", "")
			hasCount := strings.Contains(n, "int64(len(wb)+1)>=vlog.opt.MaxBatchCount")
			hasBytes := strings.Contains(n, "size+es>=vlog.opt.MaxBatchSize")
			switch {
			case hasCount && hasBytes && strings.Contains(n, "||"):
				val, ok = "count|bytes", true
			case hasBytes && !hasCount:
				val, ok = "bytes", true
			case hasCount && !hasBytes:
				val, ok = "count", true
			}
		}
		o.Set("vlog.gcFlushCond", "vlog_gc.go:rewrite.process", val, ok, "count|bytes")
		// final re-insert loop: `for i := 0; i < len(wb); {` without a post statement; on ErrTxnTooBig the
		// batch is halved and the SAME chunk retried (`continue` before `i += batchSize`)
		loop := ""
		if rw != nil {
			ast.Inspect(rwb, func(x ast.Node) bool {
				fs, ok := x.(*ast.ForStmt)
				if !ok || fs.Cond == nil || gf.Src(fs.Cond) != "i < len(wb)" {
					return true
				}
				hasInc := gf.HasStmt(fs.Body, "i += batchSize")
				hasCont := strings.Contains(gf.Src(fs.Body), "continue")
				halves := gf.HasStmt(fs.Body, "batchSize = batchSize / 2") || gf.HasStmt(fs.Body, "batchSize /= 2")
				switch {
				case fs.Post == nil && hasInc && hasCont && halves:
					loop = "retry"
				case fs.Post != nil && hasCont:
					loop = "skips" // `continue` runs the post statement: the refused chunk is never re-sent
				case fs.Post != nil:
					loop = "post-no-retry"
				}
				return true
			})
		}
		o.Set("vlog.gcRetryLoop", "vlog_gc.go:rewrite", loop, loop != "", "retry")
	}
	{
		// doRunGC: the discard-ratio guard returns ErrNoRewrite before rewrite is reached
		fd := gf.Func("valueLog.doRunGC")
		guard := false
		var guardPos token.Pos
		if fd != nil {
			ast.Inspect(fd.Body, func(x ast.Node) bool {
				if s, ok := x.(*ast.IfStmt); ok && strings.Contains(gf.Src(s.Cond), "stats.DiscardMiB < discardRatio*stats.TotalMiB") &&
					len(s.Body.List) == 1 && gf.Src(s.Body.List[0]) == "return utils.ErrNoRewrite" {
					guard = true
					guardPos = s.Pos()
				}
				return true
			})
		}
		rp := posOfCall(gf, body(fd), "vlog.rewrite", false)
		o.Set("vlog.gcGuard", "vlog_gc.go:doRunGC", "ratio-before-rewrite", guard && rp != token.NoPos && guardPos < rp, "ratio-before-rewrite")
	}

	// ---------------------------------------------------------------- generated Lean
	f := o.Facts
	b := func(k string) string { return f[k] }
	pc := "false"
	if f["vlog.postCheck"] == "live" {
		pc = "true"
	}
	lean := "-- GENERATED by /verif/extract/cmd/vlog from the current /repo working tree. Do not edit.\n" +
		"import NoKVModel.Vlog.Model\n\nnamespace NoKV.Generated.Vlog\nopen NoKV NoKV.Vlog\n\n" +
		"def vcfg : VCfg :=\n" +
		fmt.Sprintf("  { thresholdOp := %s, rotateOp := %s, gcFidOp := %s, gcOffOp := %s,\n    gcChecksBucket := %s, postCheckLive := %s,\n    gcMissIsLive := %s }\n\n",
			elib.LeanOp(b("vlog.thresholdOp")), elib.LeanOp(b("vlog.rotateOp")), elib.LeanOp(b("vlog.gcFidOp")), elib.LeanOp(b("vlog.gcOffOp")),
			b("vlog.gcChecksBucket"), pc, b("vlog.gcMissIsLive")) +
		"end NoKV.Generated.Vlog\n"
	o.Write(*jsonOut, *leanOut, lean)
}

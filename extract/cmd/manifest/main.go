// Fact extractor for the manifest engine (C15): manifest/manager.go, manifest/codec.go.
package main

import (
	"flag"
	"fmt"
	"go/ast"
	"go/token"
	"sort"
	"strings"

	"verif/extract/elib"
)

// callPos returns the positions of every call whose full source text equals (or, with prefix,
// starts with) src.
func callPos(f *elib.File, n ast.Node, src string, prefix bool) []token.Pos {
	var out []token.Pos
	if n == nil {
		return out
	}
	ast.Inspect(n, func(x ast.Node) bool {
		if c, ok := x.(*ast.CallExpr); ok {
			s := f.Src(c)
			if s == src || (prefix && strings.HasPrefix(s, src)) {
				out = append(out, c.Pos())
			}
		}
		return true
	})
	return out
}

func body(fd *ast.FuncDecl) ast.Node {
	if fd == nil {
		return nil
	}
	return fd.Body
}

func b(v bool) string { return fmt.Sprint(v) }

func main() {
	repo := flag.String("repo", "/repo", "repository root")
	jsonOut := flag.String("json", "", "facts json")
	leanOut := flag.String("lean", "", "generated Lean file")
	flag.Parse()
	o := elib.New("manifest", *repo)

	mg := o.Load("manifest/manager.go")
	cd := o.Load("manifest/codec.go")

	// ---------------------------------------------------------------- apply rules
	ap := mg.Func("Manager.apply")
	clauses := mg.CaseClauses(body(ap), "edit.Type")
	{
		cc, ok := clauses["EditDeleteValueLog"]
		shape := ok && mg.HasStmt(cc, "meta.Bucket = edit.ValueLog.Bucket") && mg.HasStmt(cc, "meta.FileID = edit.ValueLog.FileID") &&
			mg.HasStmt(cc, "meta.Valid = false") && mg.HasStmt(cc, "m.version.ValueLogs[id] = meta") &&
			mg.HasStmt(cc, "delete(m.version.ValueLogHead, meta.Bucket)")
		zero := ok && mg.HasStmt(cc, "meta.Offset = 0")
		o.Set("mf.vlogDelZeroesOffset", "manifest/manager.go:apply(EditDeleteValueLog)", b(zero), shape, "true")
	}
	{
		cc, ok := clauses["EditValueLogHead"]
		shape := ok && mg.HasStmt(cc, "m.version.ValueLogs[id] = meta") && mg.HasStmt(cc, "m.version.ValueLogHead[meta.Bucket] = meta")
		o.Set("mf.headForcesValid", "manifest/manager.go:apply(EditValueLogHead)", b(ok && mg.HasStmt(cc, "meta.Valid = true")), shape, "true")
	}
	{
		cc, ok := clauses["EditDeleteFile"]
		shape := ok && len(mg.IfConds(cc)) == 1 && mg.IfConds(cc)[0] == "fm.FileID == meta.FileID" &&
			mg.HasStmt(cc, "m.version.Levels[meta.Level] = append(files[:i], files[i+1:]...)")
		o.Set("mf.delFileFirstOnly", "manifest/manager.go:apply(EditDeleteFile)", b(ok && mg.HasStmt(cc, "break")), shape, "true")
	}
	{
		// the remaining rules are fixed in the model: their statements must be there verbatim
		want := map[string][]string{
			"EditAddFile":        {"m.version.Levels[meta.Level] = append(m.version.Levels[meta.Level], meta)"},
			"EditLogPointer":     {"m.version.LogSegment = edit.LogSeg", "m.version.LogOffset = edit.LogOffset"},
			"EditUpdateValueLog": {"m.version.ValueLogs[id] = meta", "m.version.ValueLogHead[meta.Bucket] = meta", "delete(m.version.ValueLogHead, meta.Bucket)"},
			"EditRaftPointer":    {"m.version.RaftPointers[ptr.GroupID] = ptr"},
			"EditRegion":         {"delete(m.version.Regions, edit.Region.Meta.ID)", "m.version.Regions[meta.ID] = meta"},
		}
		var missing []string
		for label, stmts := range want {
			cc, ok := clauses[label]
			for _, s := range stmts {
				if !ok || !mg.HasStmt(cc, s) {
					missing = append(missing, label+": "+s)
				}
			}
		}
		if cc, ok := clauses["EditUpdateValueLog"]; ok {
			conds := mg.IfConds(cc)
			sort.Strings(conds)
			if strings.Join(conds, " ; ") != "edit.ValueLog != nil ; meta.Valid ; ok && head.FileID == meta.FileID" {
				missing = append(missing, "EditUpdateValueLog conditions: "+strings.Join(conds, " ; "))
			}
		}
		sort.Strings(missing)
		for _, m := range missing {
			o.ShapeErrors = append(o.ShapeErrors, "extract:mf.applyRules (manifest/manager.go:apply): "+m)
		}
	}

	// ---------------------------------------------------------------- snapshot
	ws := mg.Func("Manager.writeSnapshot")
	{
		src := mg.Src(body(ws))
		hasUpd := strings.Contains(src, "Edit{Type: EditUpdateValueLog, ValueLog: &metaCopy}")
		hasDel := strings.Contains(src, "Edit{Type: EditDeleteValueLog, ValueLog: &metaCopy}")
		condValid := false
		for _, c := range mg.IfConds(body(ws)) {
			if c == "meta.Valid" {
				condValid = true
			}
		}
		switch {
		case ws != nil && hasUpd && hasDel && condValid:
			o.Set("mf.snapInvalidAsUpdate", "manifest/manager.go:writeSnapshot", "false", true, "")
		case ws != nil && hasUpd && !hasDel && !condValid:
			o.Set("mf.snapInvalidAsUpdate", "manifest/manager.go:writeSnapshot", "true", true, "")
		default:
			o.Set("mf.snapInvalidAsUpdate", "manifest/manager.go:writeSnapshot", "", false, "false")
		}
		// order of the sections: files, log pointer, value logs, heads, raft pointers, regions
		order := []string{"EditAddFile", "EditLogPointer", "EditUpdateValueLog", "EditValueLogHead", "EditRaftPointer", "EditRegion"}
		last := -1
		okOrder := ws != nil
		for _, t := range order {
			i := strings.Index(src, "Edit{Type: "+t)
			if i < 0 || i < last {
				okOrder = false
			}
			last = i
		}
		if !okOrder {
			o.ShapeErrors = append(o.ShapeErrors, "extract:mf.snapshotOrder (manifest/manager.go:writeSnapshot): section order changed")
		}
	}

	// ---------------------------------------------------------------- codec: nil payload round trip
	de := cd.Func("decodeEdit")
	dclauses := cd.CaseClauses(body(de), "edit.Type")
	for _, x := range []struct{ fact, label string }{{"mf.nilRaftRoundtrip", "EditRaftPointer"}, {"mf.nilRegionRoundtrip", "EditRegion"}} {
		cc, ok := dclauses[x.label]
		val, shape := "", false
		if ok {
			conds := cd.IfConds(cc)
			if len(conds) > 0 {
				switch conds[0] {
				case "pos < len(data)":
					val, shape = "true", true
				case "pos <= len(data)":
					val, shape = "false", true
				}
			}
		}
		o.Set(x.fact, "manifest/codec.go:decodeEdit("+x.label+")", val, shape, "false")
	}

	// ---------------------------------------------------------------- rewrite procedure
	rw := mg.Func("Manager.rewriteLocked")
	{
		snap := callPos(mg, body(rw), "m.writeSnapshot(buf)", false)
		flush := callPos(mg, body(rw), "buf.Flush()", false)
		syncs := callPos(mg, body(rw), "f.Sync()", false)
		cur := callPos(mg, body(rw), "m.writeCurrent()", false)
		rmOld := callPos(mg, body(rw), "m.fs.Remove(filepath.Join(m.dir, oldName))", false)
		create := callPos(mg, body(rw), "m.fs.OpenFileHandle(path, os.O_CREATE|os.O_RDWR|os.O_TRUNC, manifestFilePermissions)", false)
		bufio := callPos(mg, body(rw), "bufio.NewWriter(f)", false)
		shape := rw != nil && len(snap) == 1 && len(flush) == 1 && len(syncs) == 1 && len(cur) == 1 && len(rmOld) == 1 && len(create) == 1 && len(bufio) == 1
		// f.Close() not in an error branch: the last one before writeCurrent
		closes := callPos(mg, body(rw), "f.Close()", false)
		if shape {
			shape = len(closes) >= 1 && create[0] < snap[0] && snap[0] < flush[0] && flush[0] < syncs[0]
		}
		after, rmAfter := false, false
		if shape {
			lastClose := closes[len(closes)-1]
			after = syncs[0] < cur[0] && lastClose < cur[0]
			before := cur[0] < snap[0]
			if !after && !before {
				shape = false
			}
			rmAfter = cur[0] < rmOld[0]
		}
		o.Set("mf.currentAfterSnapshot", "manifest/manager.go:rewriteLocked", b(after), shape, "true")
		o.Set("mf.removeOldAfterCurrent", "manifest/manager.go:rewriteLocked", b(rmAfter), shape, "true")
		// sync of the snapshot is conditional on m.syncWrites only
		okSync := false
		for _, c := range mg.IfWithBodyContaining(body(rw), "f.Sync()") {
			if c == "m.syncWrites" {
				okSync = true
			}
		}
		if rw != nil && !okSync {
			o.ShapeErrors = append(o.ShapeErrors, "extract:mf.snapshotSync (manifest/manager.go:rewriteLocked): `if m.syncWrites { f.Sync() }` not found")
		}
	}
	wc := mg.Func("Manager.writeCurrent")
	{
		wf := callPos(mg, body(wc), "m.fs.WriteFile(tmp, []byte(m.current), manifestFilePermissions)", false)
		rn := callPos(mg, body(wc), "m.fs.Rename(tmp, dst)", false)
		direct := callPos(mg, body(wc), "m.fs.WriteFile(dst,", true)
		tmpIsTmp := mg.HasStmt(body(wc), "tmp := filepath.Join(m.dir, manifestTempCurrentName)") && mg.HasStmt(body(wc), "dst := filepath.Join(m.dir, currentFileName)")
		// repaired shape: open a handle on CURRENT.tmp, Write, `if m.syncWrites { Sync }`, Close, Rename
		oh := callPos(mg, body(wc), "m.fs.OpenFileHandle(tmp, os.O_CREATE|os.O_WRONLY|os.O_TRUNC, manifestFilePermissions)", false)
		hw := callPos(mg, body(wc), "f.Write([]byte(m.current))", false)
		hs := callPos(mg, body(wc), "f.Sync()", false)
		hc := callPos(mg, body(wc), "f.Close()", false)
		syncCond := false
		for _, c := range mg.IfWithBodyContaining(body(wc), "f.Sync()") {
			if c == "m.syncWrites" {
				syncCond = true
			}
		}
		switch {
		case len(wf) == 1 && len(rn) == 1 && wf[0] < rn[0] && len(direct) == 0 && tmpIsTmp && len(oh) == 0 && len(hs) == 0:
			o.Set("mf.currentViaRename", "manifest/manager.go:writeCurrent", "true", true, "")
			o.Set("mf.currentTmpSynced", "manifest/manager.go:writeCurrent", "false", true, "")
		case len(wf) == 0 && len(rn) == 1 && len(direct) == 0 && tmpIsTmp && len(oh) == 1 && len(hw) == 1 && len(hs) == 1 && len(hc) >= 1 &&
			oh[0] < hw[0] && hw[0] < hs[0] && hs[0] < hc[len(hc)-1] && hc[len(hc)-1] < rn[0] && syncCond:
			o.Set("mf.currentViaRename", "manifest/manager.go:writeCurrent", "true", true, "")
			o.Set("mf.currentTmpSynced", "manifest/manager.go:writeCurrent", "true", true, "")
		case len(rn) == 0 && len(direct) == 1:
			o.Set("mf.currentViaRename", "manifest/manager.go:writeCurrent", "false", true, "")
			o.Set("mf.currentTmpSynced", "manifest/manager.go:writeCurrent", "false", true, "")
		default:
			o.Set("mf.currentViaRename", "manifest/manager.go:writeCurrent", "", false, "true")
			o.Set("mf.currentTmpSynced", "manifest/manager.go:writeCurrent", "", false, "false")
		}
	}

	// ---------------------------------------------------------------- append
	le := mg.Func("Manager.logEditsLocked")
	{
		wr := callPos(mg, body(le), "m.manifest.Write(buf.Bytes())", false)
		sy := callPos(mg, body(le), "m.manifest.Sync()", false)
		apc := callPos(mg, body(le), "m.apply(edit)", false)
		mr := callPos(mg, body(le), "m.maybeRewriteLocked()", false)
		shape := le != nil && len(wr) == 1 && len(apc) == 1 && len(mr) == 1 && wr[0] < apc[0] && apc[0] < mr[0] && len(sy) <= 1
		syncOn := false
		if shape && len(sy) == 1 {
			conds := mg.IfWithBodyContaining(body(le), "m.manifest.Sync()")
			for _, c := range conds {
				if c == "syncNeeded && m.syncWrites" {
					syncOn = true
				}
			}
			if !syncOn || !(wr[0] < sy[0] && sy[0] < apc[0]) {
				shape = false
			}
		}
		o.Set("mf.syncOnAppend", "manifest/manager.go:logEditsLocked", b(syncOn), shape, "true")
		rs := mg.Func("requiresSync")
		rcl := mg.CaseClauses(body(rs), "edit.Type")
		var types []string
		for l, cc := range rcl {
			if l != "default" && mg.HasStmt(cc, "return true") {
				types = append(types, l)
			}
		}
		sort.Strings(types)
		if strings.Join(types, ",") != "EditAddFile,EditDeleteFile,EditDeleteValueLog,EditLogPointer,EditUpdateValueLog,EditValueLogHead" {
			o.ShapeErrors = append(o.ShapeErrors, "extract:mf.syncTypes (manifest/manager.go:requiresSync): "+strings.Join(types, ","))
		}
	}
	mr := mg.Func("Manager.maybeRewriteLocked")
	{
		op, ok := mg.FindCmp(body(mr), "info.Size()", "m.rewriteThreshold")
		thrOp, ok2 := mg.FindCmp(body(mr), "m.rewriteThreshold", "0")
		shape := ok && ok2 && thrOp == "le" && (op == "lt" || op == "le")
		o.Set("mf.rewriteAtGE", "manifest/manager.go:maybeRewriteLocked", b(op == "lt"), shape, "true")
	}

	// ---------------------------------------------------------------- Verify / Open
	vf := mg.Func("Verify")
	{
		conds := mg.IfWithBodyContaining(body(vf), "return f.Truncate(pos)")
		partLen, lenOnly, partPayload := false, false, false
		shape := vf != nil
		for _, c := range conds {
			switch c {
			case "err == io.ErrUnexpectedEOF":
				// the one after binary.Read: partial length prefix (the same condition after ReadFull would be a partial payload)
				if !partLen {
					partLen = true
				} else {
					partPayload = true
				}
			case "err == io.EOF || err == io.ErrUnexpectedEOF", "err == io.ErrUnexpectedEOF || err == io.EOF":
				lenOnly, partPayload = true, true
			case "err != nil":
				// enclosing ifs
			default:
				shape = false
			}
		}
		if shape {
			shape = len(callPos(mg, body(vf), "binary.Read(reader, binary.LittleEndian, &length)", false)) == 1 &&
				len(callPos(mg, body(vf), "io.ReadFull(reader, payload)", false)) == 1 &&
				mg.HasStmt(body(vf), "offset = pos + int64(length) + 4")
		}
		o.Set("mf.verifyTruncPartLen", "manifest/manager.go:Verify", b(partLen), shape, "true")
		o.Set("mf.verifyTruncLenOnly", "manifest/manager.go:Verify", b(lenOnly), shape, "true")
		o.Set("mf.verifyTruncPartPayload", "manifest/manager.go:Verify", b(partPayload), shape, "true")
	}
	op := mg.Func("Open")
	{
		lc := callPos(mg, body(op), "mgr.loadCurrent()", false)
		rp := callPos(mg, body(op), "mgr.replay()", false)
		vc := callPos(mg, body(op), "Verify(dir, fs)", false)
		shape := op != nil && len(lc) == 1 && len(rp) == 1 && lc[0] < rp[0] && len(vc) <= 1
		openItself := shape && len(vc) == 1 && vc[0] < lc[0]
		if len(vc) == 1 && !openItself {
			shape = false
		}
		// the bare-Open entry point: pd/storage/local.go:OpenLocalStore
		ls := o.Load("pd/storage/local.go")
		ol := ls.Func("OpenLocalStore")
		po := callPos(ls, body(ol), "manifest.Open(workdir, fs)", false)
		pv := callPos(ls, body(ol), "manifest.Verify(workdir, fs)", false)
		shape = shape && ol != nil && len(po) == 1 && len(pv) <= 1
		pdVerifies := shape && len(pv) == 1 && pv[0] < po[0]
		if len(pv) == 1 && !pdVerifies {
			shape = false
		}
		o.Set("mf.openVerifies", "pd/storage/local.go:OpenLocalStore + manifest/manager.go:Open", b(openItself || pdVerifies), shape, "false")
		// replay: only io.EOF ends the loop quietly
		rpf := mg.Func("Manager.replay")
		conds := mg.IfConds(body(rpf))
		sort.Strings(conds)
		if strings.Join(conds, " ; ") != "err != nil ; err == io.EOF" {
			o.ShapeErrors = append(o.ShapeErrors, "extract:mf.replayLoop (manifest/manager.go:replay): "+strings.Join(conds, " ; "))
		}
	}

	f := o.Facts
	lean := fmt.Sprintf(`-- GENERATED by /verif/extract/cmd/manifest from the current /repo working tree. Do not edit.
import NoKVModel.Manifest.Model

namespace NoKV.Generated.Manifest
open NoKV NoKV.Manifest

def mCfg : MCfg :=
  { snapInvalidAsUpdate := %s, vlogDelZeroesOffset := %s, headForcesValid := %s, delFileFirstOnly := %s,
    nilRaftRoundtrip := %s, nilRegionRoundtrip := %s,
    currentAfterSnapshot := %s, removeOldAfterCurrent := %s, currentViaRename := %s, currentTmpSynced := %s,
    syncOnAppend := %s, rewriteAtGE := %s,
    verifyTruncPartLen := %s, verifyTruncLenOnly := %s, verifyTruncPartPayload := %s, openVerifies := %s }

end NoKV.Generated.Manifest
`, f["mf.snapInvalidAsUpdate"], f["mf.vlogDelZeroesOffset"], f["mf.headForcesValid"], f["mf.delFileFirstOnly"],
		f["mf.nilRaftRoundtrip"], f["mf.nilRegionRoundtrip"],
		f["mf.currentAfterSnapshot"], f["mf.removeOldAfterCurrent"], f["mf.currentViaRename"], f["mf.currentTmpSynced"],
		f["mf.syncOnAppend"], f["mf.rewriteAtGE"],
		f["mf.verifyTruncPartLen"], f["mf.verifyTruncLenOnly"], f["mf.verifyTruncPartPayload"], f["mf.openVerifies"])
	o.Write(*jsonOut, *leanOut, lean)
}

// Fact extractor for the memtable index engine (C07): utils/util.go, kv/key.go,
// utils/skiplist.go, utils/art.go.
package main

import (
	"flag"
	"fmt"
	"go/ast"
	"strings"

	"verif/extract/elib"
)

func body(fd *ast.FuncDecl) ast.Node {
	if fd == nil || fd.Body == nil {
		return nil
	}
	return fd.Body
}

// callSrcs lists the full source of every call expression under n.
func callSrcs(f *elib.File, n ast.Node) []string {
	var out []string
	if n == nil {
		return out
	}
	ast.Inspect(n, func(x ast.Node) bool {
		if c, ok := x.(*ast.CallExpr); ok {
			out = append(out, f.Src(c))
		}
		return true
	})
	return out
}

func has(xs []string, s string) bool {
	for _, x := range xs {
		if x == s {
			return true
		}
	}
	return false
}

func hasSub(xs []string, s string) bool {
	for _, x := range xs {
		if strings.Contains(x, s) {
			return true
		}
	}
	return false
}

func main() {
	repo := flag.String("repo", "/repo", "repository root")
	jsonOut := flag.String("json", "", "facts json")
	leanOut := flag.String("lean", "", "generated Lean file")
	flag.Parse()
	o := elib.New("index", *repo)

	// ---------------------------------------------------------------- utils/util.go:CompareKeys
	ut := o.Load("utils/util.go")
	{
		ck := ut.Func("CompareKeys")
		calls := callSrcs(ut, body(ck))
		split := has(calls, "bytes.Compare(key1[:len(key1)-8], key2[:len(key2)-8])") &&
			has(calls, "bytes.Compare(key1[len(key1)-8:], key2[len(key2)-8:])") &&
			ck != nil && ut.HasStmt(ck.Body, "return bytes.Compare(key1[len(key1)-8:], key2[len(key2)-8:])")
		// the base comparison must decide first: `if cmp := bytes.Compare(base…); cmp != 0 { return cmp }`
		first := false
		if ck != nil {
			ast.Inspect(ck.Body, func(x ast.Node) bool {
				if s, ok := x.(*ast.IfStmt); ok && s.Init != nil &&
					ut.Src(s.Init) == "cmp := bytes.Compare(key1[:len(key1)-8], key2[:len(key2)-8])" &&
					ut.Src(s.Cond) == "cmp != 0" && ut.Src(s.Body) == "{ return cmp }" {
					first = true
				}
				return true
			})
		}
		whole := ck != nil && ut.HasStmt(ck.Body, "return bytes.Compare(key1, key2)") && !split
		switch {
		case split && first:
			o.Set("ck.baseThenTs", "utils/util.go:CompareKeys", "true", true, "")
		case whole:
			o.Set("ck.baseThenTs", "utils/util.go:CompareKeys", "false", true, "")
		default:
			o.Set("ck.baseThenTs", "utils/util.go:CompareKeys", "", false, "true")
		}
	}

	// ---------------------------------------------------------------- kv/key.go:KeyWithTs / ParseTs / ParseKey / SameKey
	kf := o.Load("kv/key.go")
	{
		kw := kf.Func("KeyWithTs")
		pt := kf.Func("ParseTs")
		inv := kw != nil && kf.HasStmt(kw.Body, "binary.BigEndian.PutUint64(out[len(key):], math.MaxUint64-ts)") &&
			kf.HasStmt(kw.Body, "out := make([]byte, len(key)+8)") && kf.HasStmt(kw.Body, "copy(out, key)") &&
			pt != nil && kf.HasStmt(pt.Body, "return math.MaxUint64 - binary.BigEndian.Uint64(key[len(key)-8:])")
		plain := kw != nil && kf.HasStmt(kw.Body, "binary.BigEndian.PutUint64(out[len(key):], ts)")
		switch {
		case inv:
			o.Set("key.tsInverted", "kv/key.go:KeyWithTs", "true", true, "")
		case plain:
			o.Set("key.tsInverted", "kv/key.go:KeyWithTs", "false", true, "")
		default:
			o.Set("key.tsInverted", "kv/key.go:KeyWithTs", "", false, "true")
		}
		// shapes the models rely on without a flag
		pk := kf.Func("ParseKey")
		sk := kf.Func("SameKey")
		if pk == nil || !kf.HasStmt(pk.Body, "return key[:len(key)-8]") {
			o.ShapeErrors = append(o.ShapeErrors, "extract:key.tsInverted (kv/key.go:ParseKey): base key is no longer key[:len(key)-8]")
		}
		if sk == nil || !kf.HasStmt(sk.Body, "return bytes.Equal(ParseKey(src), ParseKey(dst))") ||
			!hasSub(kf.IfConds(sk.Body), "len(src) != len(dst)") {
			o.ShapeErrors = append(o.ShapeErrors, "extract:key.tsInverted (kv/key.go:SameKey): expected length check + base equality")
		}
	}

	// ---------------------------------------------------------------- utils/skiplist.go
	sl := o.Load("utils/skiplist.go")
	{
		fn := sl.Func("Skiplist.findNear")
		fs := sl.Func("Skiplist.findSpliceForLevel")
		ck := fn != nil && fs != nil && sl.HasStmt(fn.Body, "cmp := CompareKeys(key, nextKey)") && sl.HasStmt(fs.Body, "cmp := CompareKeys(key, nextKey)")
		bc := fn != nil && fs != nil && sl.HasStmt(fn.Body, "cmp := bytes.Compare(key, nextKey)") && sl.HasStmt(fs.Body, "cmp := bytes.Compare(key, nextKey)")
		// the branch structure of the walk: cmp > 0 moves right, cmp == 0 is the equality case
		conds := append(sl.IfConds(body(fn)), sl.IfConds(body(fs))...)
		shape := has(conds, "cmp > 0") && has(conds, "cmp == 0") && has(conds, "cmp < 0")
		switch {
		case ck && shape:
			o.Set("skl.compareKeys", "utils/skiplist.go:findNear/findSpliceForLevel", "true", true, "")
		case bc && shape:
			o.Set("skl.compareKeys", "utils/skiplist.go:findNear/findSpliceForLevel", "false", true, "")
		default:
			o.Set("skl.compareKeys", "utils/skiplist.go:findNear/findSpliceForLevel", "", false, "true")
		}
	}

	// ---------------------------------------------------------------- utils/art.go
	ar := o.Load("utils/art.go")
	lb := ar.Func("lowerBoundNode")
	ub := ar.Func("upperBoundNode")
	op, ok := ar.FindCmp(body(lb), "node.leafKey(arena)", "key")
	o.Set("art.leafLbOp", "utils/art.go:lowerBoundNode", op, ok, "ge")
	op, ok = ar.FindCmp(body(ub), "node.leafKey(arena)", "key")
	o.Set("art.leafUbOp", "utils/art.go:upperBoundNode", op, ok, "le")
	{
		// structure the ART model relies on without a flag: the bound searches try the equal child and
		// FALL BACK to the neighbouring sibling when that subtree has nothing; point lookups and
		// iterator seeks all go through lowerBound / upperBound.
		need := func(fact, anchor string, f *ast.FuncDecl, stmts ...string) {
			for _, st := range stmts {
				if f == nil || !ar.HasStmt(f.Body, st) {
					o.ShapeErrors = append(o.ShapeErrors, fmt.Sprintf("extract:%s (%s): expected statement `%s` not found", fact, anchor, st))
				}
			}
		}
		need("art.leafLbOp", "utils/art.go:lowerBoundNode", lb,
			"res := lowerBoundNode(arena, eq, key, depth+1)", "if res != nil { return res }", "return minLeafNode(arena, gt)")
		need("art.leafUbOp", "utils/art.go:upperBoundNode", ub,
			"res := upperBoundNode(arena, eq, key, depth+1)", "if res != nil { return res }", "return maxLeafNode(arena, lt)")
		need("art.leafLbOp", "utils/art.go:artTree.Get", ar.Func("artTree.Get"), "leaf := t.lowerBound(key)")
		need("art.leafLbOp", "utils/art.go:artTree.lowerBound", ar.Func("artTree.lowerBound"), "return lowerBoundNode(t.arena, root, key, 0)")
		need("art.leafUbOp", "utils/art.go:artTree.upperBound", ar.Func("artTree.upperBound"), "return upperBoundNode(t.arena, root, key, 0)")
		need("art.leafLbOp", "utils/art.go:artIterator.Seek", ar.Func("artIterator.Seek"), "leaf = it.tree.lowerBound(key)", "leaf = it.tree.upperBound(key)")
	}
	{
		kb := ar.Func("keyByte")
		val, shape := "", false
		if kb != nil && len(kb.Body.List) == 2 {
			ifs, ok1 := kb.Body.List[0].(*ast.IfStmt)
			ret, ok2 := kb.Body.List[1].(*ast.ReturnStmt)
			if ok1 && ok2 && ar.Src(ifs.Cond) == "depth < len(key)" && ar.Src(ifs.Body) == "{ return key[depth] }" && len(ret.Results) == 1 {
				if lit, ok := ret.Results[0].(*ast.BasicLit); ok {
					val, shape = lit.Value, true
				}
			}
		}
		o.Set("art.padByte", "utils/art.go:keyByte", val, shape, "0")
	}
	{
		// the byte string the radix tree navigates by: the key parameter itself ("raw"), or the
		// result of artNavKey(...) in every navigating function ("ordered", the repaired shape)
		navFns := []string{"artTree.tryInsert", "artTree.lowerBound", "artTree.upperBound", "splitLeaf", "splitPrefix", "artIterator.buildStackToLeaf"}
		enc, rawUse := 0, 0
		for _, n := range navFns {
			fd := ar.Func(n)
			calls := ar.Calls(body(fd))
			if has(calls, "artNavKey") {
				enc++
			}
		}
		ti := ar.Func("artTree.tryInsert")
		tc := callSrcs(ar, body(ti))
		if has(tc, "keyByte(key, depth)") && has(tc, "matchPrefix(t.arena, node, key, depth)") {
			rawUse++
		}
		lbc := callSrcs(ar, body(lb))
		if has(lbc, "keyByte(key, depth)") && has(lbc, "matchPrefix(arena, node, key, depth)") {
			rawUse++
		}
		switch {
		case enc == 0 && rawUse == 2 && ar.Func("artNavKey") == nil:
			o.Set("art.radixKey", "utils/art.go:tryInsert/lowerBoundNode/upperBoundNode", "raw", true, "")
		case enc == len(navFns) && ar.Func("artNavKey") != nil:
			o.Set("art.radixKey", "utils/art.go:tryInsert/lowerBoundNode/upperBoundNode", "ordered", true, "")
		default:
			o.Set("art.radixKey", "utils/art.go:tryInsert/lowerBoundNode/upperBoundNode", "", false, "raw")
		}
	}
	{
		// stored key length: uint16(len(key)) in both engines, and no guard on the insert paths
		nn := sl.Func("newNode")
		lk := ar.Func("artNode.setLeafKey")
		u16 := nn != nil && sl.HasStmt(nn.Body, "node.keySize = uint16(len(key))") && lk != nil && ar.HasStmt(lk.Body, "n.leafKeySize = uint16(len(key))")
		guards := 0
		for _, p := range []struct {
			f  *elib.File
			fn string
		}{{sl, "Skiplist.Add"}, {ar, "ART.Add"}, {ar, "artTree.Set"}} {
			fd := p.f.Func(p.fn)
			if hasSub(p.f.IfConds(body(fd)), "math.MaxUint16") {
				guards++
			}
		}
		switch {
		case u16 && guards == 0:
			o.Set("idx.keyLen", "utils/skiplist.go:newNode + utils/art.go:setLeafKey", "u16-unchecked", true, "")
		case u16 && guards >= 2:
			o.Set("idx.keyLen", "utils/skiplist.go:newNode + utils/art.go:setLeafKey", "guarded", true, "")
		default:
			o.Set("idx.keyLen", "utils/skiplist.go:newNode + utils/art.go:setLeafKey", "", false, "u16-unchecked")
		}
	}
	{
		// replaceChild: load parent's payload offset, clone with the child replaced, CAS the offset —
		// nothing re-validates that `parent` is still reachable (as-is).  Any other shape is unknown.
		rc := ar.Func("artTree.replaceChild")
		calls := ar.Calls(body(rc))
		asis := []string{"t.root.CompareAndSwap", "parent.payloadOffset.Load", "arenaPayloadFromOffset", "clonePayloadReplaceChild",
			"parent.payloadOffset.CompareAndSwap", "arenaPayloadOffset"}
		same := len(calls) == len(asis)
		for i := range asis {
			if !same || calls[i] != asis[i] {
				same = false
				break
			}
		}
		// and inner nodes are replaced by copies on growth / prefix split (what makes a parent stale)
		ic := ar.Func("insertChild")
		cow := ic != nil && has(ar.Calls(ic.Body), "cloneInnerNode")
		o.Set("art.parentRevalidated", "utils/art.go:replaceChild", "false", same && cow, "false")
	}

	f := o.Facts
	bits := "16"
	if f["idx.keyLen"] == "guarded" {
		bits = "0"
	}
	lean := fmt.Sprintf(`-- GENERATED by /verif/extract/cmd/index from the current /repo working tree. Do not edit.
import NoKVModel.Index.Key

namespace NoKV.Generated.Index
open NoKV NoKV.Index

def idxCfg : IdxCfg :=
  { ckBaseThenTs := %s, tsInverted := %s, sklCompareKeys := %s, artLeafLbOp := .%s, artLeafUbOp := .%s,
    artRadixKey := .%s, artPadByte := %s, keyLenBits := %s, artParentRevalidated := %s }

end NoKV.Generated.Index
`, f["ck.baseThenTs"], f["key.tsInverted"], f["skl.compareKeys"], f["art.leafLbOp"], f["art.leafUbOp"],
		f["art.radixKey"], f["art.padByte"], bits, f["art.parentRevalidated"])
	o.Write(*jsonOut, *leanOut, lean)
}

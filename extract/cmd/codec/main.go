// Fact extractor for the codec engine (C16): guard shapes of the binary decoders
// (percolator lock/write, manifest edits, WAL entries, value structs, raft WAL frames) and the
// internal-key layout (timestamp suffix, column-family marker, CompareKeys).
//
// Every rule names the syntactic shape it expects.  Source text is compared with all white
// space removed (so gofmt's `a[i : j+1]` vs `a[i:j+1]` spacing does not matter).  Anything
// that is neither the as-is nor the repaired shape is a shape error (`extract:<fact>`), and
// the fact keeps its as-is value so the search tier still runs.
package main

import (
	"flag"
	"fmt"
	"go/ast"
	"go/constant"
	"go/token"
	"sort"
	"strings"

	"verif/extract/elib"
)

// ---------------------------------------------------------------------------- helpers

// ns removes all white space.
func ns(s string) string { return strings.Join(strings.Fields(s), "") }

// eq compares a node's source with the expected text, ignoring white space.
func eq(f *elib.File, n ast.Node, want string) bool { return n != nil && ns(f.Src(n)) == ns(want) }

func body(fd *ast.FuncDecl) ast.Node {
	if fd == nil || fd.Body == nil {
		return nil
	}
	return fd.Body
}

// mentions reports whether identifier name occurs under n.
func mentions(n ast.Node, names ...string) bool {
	hit := false
	if n == nil {
		return false
	}
	ast.Inspect(n, func(x ast.Node) bool {
		if id, ok := x.(*ast.Ident); ok {
			for _, nm := range names {
				if id.Name == nm {
					hit = true
				}
			}
		}
		return !hit
	})
	return hit
}

// ifs lists every if-statement under n in source order (function literals included).
func ifs(n ast.Node) []*ast.IfStmt {
	var out []*ast.IfStmt
	if n == nil {
		return out
	}
	ast.Inspect(n, func(x ast.Node) bool {
		if s, ok := x.(*ast.IfStmt); ok {
			out = append(out, s)
		}
		return true
	})
	return out
}

// ifsMentioning: if-statements whose condition (or init) mentions one of the identifiers.
func ifsMentioning(n ast.Node, names ...string) []*ast.IfStmt {
	var out []*ast.IfStmt
	for _, s := range ifs(n) {
		if mentions(s.Cond, names...) || (s.Init != nil && mentions(s.Init, names...)) {
			out = append(out, s)
		}
	}
	return out
}

// ifsCondMentioning: if-statements whose condition proper mentions one of the identifiers
// (`if err := f(&length); err != nil` does not count as a check of length).
func ifsCondMentioning(n ast.Node, names ...string) []*ast.IfStmt {
	var out []*ast.IfStmt
	for _, s := range ifs(n) {
		if mentions(s.Cond, names...) {
			out = append(out, s)
		}
	}
	return out
}

// bodyReturns: the if body's statements end with a return (directly, not nested).
func bodyReturns(s *ast.IfStmt) *ast.ReturnStmt {
	if s == nil || s.Body == nil || len(s.Body.List) == 0 {
		return nil
	}
	r, _ := s.Body.List[len(s.Body.List)-1].(*ast.ReturnStmt)
	return r
}

// bodyReturnsErr: body ends in a return whose last result is not the literal nil.
func bodyReturnsErr(s *ast.IfStmt) bool {
	r := bodyReturns(s)
	if r == nil || len(r.Results) == 0 {
		return false
	}
	if id, ok := r.Results[len(r.Results)-1].(*ast.Ident); ok && id.Name == "nil" {
		return false
	}
	return true
}

// countExpr counts expressions under n whose source equals want (white space ignored).
func countExpr(f *elib.File, n ast.Node, want string) int {
	c := 0
	if n == nil {
		return 0
	}
	w := ns(want)
	ast.Inspect(n, func(x ast.Node) bool {
		if e, ok := x.(ast.Expr); ok && ns(f.Src(e)) == w {
			c++
		}
		return true
	})
	return c
}

// callsTo lists the call expressions under n whose callee prints as fun.
func callsTo(f *elib.File, n ast.Node, fun string) []*ast.CallExpr {
	var out []*ast.CallExpr
	if n == nil {
		return out
	}
	ast.Inspect(n, func(x ast.Node) bool {
		if c, ok := x.(*ast.CallExpr); ok && ns(f.Src(c.Fun)) == fun {
			out = append(out, c)
		}
		return true
	})
	return out
}

// stmtPos returns the position of the first statement under n printing as want, or NoPos.
func stmtPos(f *elib.File, n ast.Node, want string) token.Pos {
	p := token.NoPos
	if n == nil {
		return p
	}
	w := ns(want)
	ast.Inspect(n, func(x ast.Node) bool {
		if p != token.NoPos {
			return false
		}
		if st, ok := x.(ast.Stmt); ok && ns(f.Src(st)) == w {
			p = st.Pos()
			return false
		}
		return true
	})
	return p
}

func hasStmt(f *elib.File, n ast.Node, want string) bool { return stmtPos(f, n, want) != token.NoPos }

// orAtoms splits a condition on top-level `||`.
func orAtoms(e ast.Expr) []ast.Expr {
	if p, ok := e.(*ast.ParenExpr); ok {
		return orAtoms(p.X)
	}
	if b, ok := e.(*ast.BinaryExpr); ok && b.Op == token.LOR {
		return append(orAtoms(b.X), orAtoms(b.Y)...)
	}
	return []ast.Expr{e}
}

// constExpr returns the value expression of the named package-level constant.
func constExpr(f *elib.File, name string) ast.Expr {
	for _, d := range f.AST.Decls {
		gd, ok := d.(*ast.GenDecl)
		if !ok || gd.Tok != token.CONST {
			continue
		}
		for _, sp := range gd.Specs {
			vs := sp.(*ast.ValueSpec)
			for i, n := range vs.Names {
				if n.Name == name && i < len(vs.Values) {
					return vs.Values[i]
				}
			}
		}
	}
	return nil
}

// constLit evaluates a constant declared with a basic literal (int, char or string).
func constLit(f *elib.File, name string) (constant.Value, bool) {
	e := constExpr(f, name)
	lit, ok := e.(*ast.BasicLit)
	if !ok {
		return nil, false
	}
	v := constant.MakeFromLiteral(lit.Value, lit.Kind, 0)
	if v.Kind() == constant.Unknown {
		return nil, false
	}
	return v, true
}

func constInt(f *elib.File, name string) (int64, bool) {
	v, ok := constLit(f, name)
	if !ok || v.Kind() != constant.Int {
		return 0, false
	}
	return constant.Int64Val(v)
}

// iotaBlock evaluates a plain iota block: the block whose first spec is `first T = iota`;
// the following specs without values continue the sequence, the first spec with an explicit
// value ends it.  Returns name -> value.
func iotaBlock(f *elib.File, first string) map[string]int {
	for _, d := range f.AST.Decls {
		gd, ok := d.(*ast.GenDecl)
		if !ok || gd.Tok != token.CONST || len(gd.Specs) == 0 {
			continue
		}
		vs0 := gd.Specs[0].(*ast.ValueSpec)
		if len(vs0.Names) != 1 || vs0.Names[0].Name != first || len(vs0.Values) != 1 {
			continue
		}
		if id, ok := vs0.Values[0].(*ast.Ident); !ok || id.Name != "iota" {
			continue
		}
		out := map[string]int{first: 0}
		for i, sp := range gd.Specs[1:] {
			vs := sp.(*ast.ValueSpec)
			if len(vs.Values) != 0 || len(vs.Names) != 1 {
				break
			}
			out[vs.Names[0].Name] = i + 1
		}
		return out
	}
	return nil
}

// lenGuard classifies the unique if-statement of fn whose condition mentions `v`:
// `<p>+int(<v>) > len(data)` => intwrap, `<v> > uint64(len(data)-<p>)` => u64.  The guard must
// return an error and the slice data[<p>:<p>+int(<v>)] must still be taken.
func lenGuard(f *elib.File, fn *ast.FuncDecl, v, p string) (string, bool) {
	if fn == nil {
		return "", false
	}
	cand := ifsCondMentioning(fn.Body, v)
	if len(cand) != 1 || cand[0].Init != nil || !bodyReturnsErr(cand[0]) {
		return "", false
	}
	if countExpr(f, fn.Body, fmt.Sprintf("data[%s:%s+int(%s)]", p, p, v)) != 1 {
		return "", false
	}
	switch {
	case eq(f, cand[0].Cond, fmt.Sprintf("%s+int(%s) > len(data)", p, v)):
		return "intwrap", true
	case eq(f, cand[0].Cond, fmt.Sprintf("%s > uint64(len(data)-%s)", v, p)):
		return "u64", true
	}
	return "", false
}

// ---------------------------------------------------------------------------- main

func main() {
	repo := flag.String("repo", "/repo", "repository root")
	jsonOut := flag.String("json", "", "facts json")
	leanOut := flag.String("lean", "", "generated Lean file")
	flag.Parse()
	o := elib.New("codec", *repo)

	// ------------------------------------------------------------ percolator/codec.go
	pc := o.Load("percolator/codec.go")
	{
		v, ok := lenGuard(pc, pc.Func("DecodeLock"), "primaryLen", "pos")
		o.Set("perc.lockLenGuard", "percolator/codec.go:DecodeLock", v, ok, "intwrap")
		v, ok = lenGuard(pc, pc.Func("DecodeWrite"), "sz", "pos")
		o.Set("perc.writeLenGuard", "percolator/codec.go:DecodeWrite", v, ok, "intwrap")
	}

	// ------------------------------------------------------------ raftstore/engine/wal_storage.go
	ws := o.Load("raftstore/engine/wal_storage.go")
	{
		vals := map[string]bool{}
		ok := true
		for _, name := range []string{"decodeRaftEntries", "decodeRaftHardState", "decodeRaftSnapshot"} {
			v, k := lenGuard(ws, ws.Func(name), "size", "idx")
			if !k {
				ok = false
			}
			vals[v] = true
		}
		v := ""
		if ok && len(vals) == 1 {
			for k := range vals {
				v = k
			}
		} else {
			ok = false // mixed or missing
		}
		o.Set("raft.lenGuard", "raftstore/engine/wal_storage.go:decodeRaftEntries+decodeRaftHardState+decodeRaftSnapshot", v, ok, "intwrap")
	}

	// ------------------------------------------------------------ manifest/codec.go
	mc := o.Load("manifest/codec.go")
	de := mc.Func("decodeEdit")
	deBody := body(de)
	{
		// man.uvarint
		// raw:    every varint read is `binary.Uvarint(data[pos:])`, no condition looks at the
		//         returned width (n / consumed);
		// sticky: every varint read is `uvarintAt(data, pos)` and uvarintAt has the repaired body.
		rAll := len(callsTo(mc, deBody, "binary.Uvarint"))
		sAll := len(callsTo(mc, deBody, "uvarintAt"))
		r := countExpr(mc, deBody, "binary.Uvarint(data[pos:])")
		s := countExpr(mc, deBody, "uvarintAt(data, pos)")
		v, ok := "", false
		switch {
		case de == nil || r != rAll || s != sAll:
		case r > 0 && s == 0:
			if len(ifsMentioning(deBody, "n", "consumed")) == 0 {
				v, ok = "raw", true
			}
		case r == 0 && s > 0:
			if uvarintAtShape(mc) {
				v, ok = "sticky", true
			}
		}
		o.Set("man.uvarint", "manifest/codec.go:decodeEdit", v, ok, "raw")
	}
	{
		// man.readBytes
		aAll := len(callsTo(mc, deBody, "readBytes"))
		bAll := len(callsTo(mc, deBody, "readBytesAt"))
		a := countExpr(mc, deBody, "readBytes(data[pos:])")
		b := countExpr(mc, deBody, "readBytesAt(data, pos)")
		v, ok := "", false
		anchor := "manifest/codec.go:readBytes"
		switch {
		case de == nil || a != aAll || b != bAll:
		case a > 0 && b == 0:
			rb := mc.Func("readBytes")
			if rb != nil &&
				hasStmt(mc, rb.Body, "length, n := binary.Uvarint(data)") &&
				hasStmt(mc, rb.Body, "pos := n") &&
				hasStmt(mc, rb.Body, "end := pos + int(length)") &&
				hasStmt(mc, rb.Body, "return data[pos:end], n + int(length)") {
				g := ifs(rb.Body)
				if len(g) == 1 && eq(mc, g[0].Cond, "n <= 0 || end > len(data)") && eq(mc, bodyReturns(g[0]), "return nil, len(data)") {
					v, ok = "intwrap", true
				}
			}
		case a == 0 && b > 0:
			anchor = "manifest/codec.go:readBytesAt"
			if readBytesAtShape(mc) {
				v, ok = "sticky", true
			}
		}
		o.Set("man.readBytes", anchor, v, ok, "intwrap")
	}
	{
		// man.peersCap
		v, ok := "", false
		if de != nil && countExpr(mc, deBody, "make([]PeerMeta, 0, peersCount)") == 1 {
			guards := ifsMentioning(deBody, "peersCount")
			switch len(guards) {
			case 0:
				v, ok = "declared", true
			case 1:
				g := guards[0]
				if g.Init == nil && eq(mc, g.Cond, "peersCount > uint64(len(data)-pos)/2") && bodyReturnsErr(g) &&
					precedesInSameBlock(mc, deBody, g, "peers := make([]PeerMeta, 0, peersCount)") {
					v, ok = "bounded", true
				}
			}
		}
		o.Set("man.peersCap", "manifest/codec.go:decodeEdit", v, ok, "declared")
	}
	{
		// man.nilPayloadOp: the raft-pointer and region arms of decodeEdit start with
		// `if pos < len(data) {` (lt: a payload-less edit decodes to a nil payload) or
		// `if pos <= len(data) {` (le: it decodes to an all-zero payload); both arms must agree.
		v, ok := "", false
		if de != nil {
			clauses := mc.CaseClauses(deBody, "edit.Type")
			ops := []string{}
			for _, label := range []string{"EditRaftPointer", "EditRegion"} {
				cc := clauses[label]
				if cc == nil {
					continue
				}
				for _, st := range cc.Body {
					ifs, isIf := st.(*ast.IfStmt)
					if !isIf {
						continue
					}
					switch {
					case ifs.Init == nil && eq(mc, ifs.Cond, "pos < len(data)"):
						ops = append(ops, "lt")
					case ifs.Init == nil && eq(mc, ifs.Cond, "pos <= len(data)"):
						ops = append(ops, "le")
					default:
						ops = append(ops, "?")
					}
					break
				}
			}
			if len(ops) == 2 && ops[0] == ops[1] && ops[0] != "?" {
				v, ok = ops[0], true
			}
		}
		o.Set("man.nilPayloadOp", "manifest/codec.go:decodeEdit", v, ok, "lt")
	}
	{
		// man.frameAlloc (two sites: readEdit and manager.go:Verify)
		mm := o.Load("manifest/manager.go")
		re := mc.Func("readEdit")
		vf := mm.Func("Verify")
		site := func(f *elib.File, fn *ast.FuncDecl, buf string) string {
			if fn == nil {
				return ""
			}
			mk := stmtPos(f, fn.Body, buf+" := make([]byte, length)")
			anyMake := countExpr(f, fn.Body, "make([]byte, length)") > 0
			if mk != token.NoPos {
				// declared: allocation of the declared size, then ReadFull into it, length unchecked
				rf := token.NoPos
				for _, c := range callsTo(f, fn.Body, "io.ReadFull") {
					if len(c.Args) == 2 && eq(f, c.Args[1], buf) && c.Pos() > mk && rf == token.NoPos {
						rf = c.Pos()
					}
				}
				if rf == token.NoPos || countExpr(f, fn.Body, "make([]byte, length)") != 1 {
					return ""
				}
				for _, g := range ifsCondMentioning(fn.Body, "length") {
					if g.Pos() < rf {
						return ""
					}
				}
				return "declared"
			}
			if !anyMake && (len(callsTo(f, fn.Body, "io.LimitReader")) > 0 || len(callsTo(f, fn.Body, "io.CopyN")) > 0) {
				return "bounded"
			}
			if !anyMake && f == mm && len(callsTo(f, fn.Body, "readEdit")) > 0 && countExpr(f, fn.Body, "make") == 0 {
				return "via-readEdit"
			}
			return ""
		}
		a := site(mc, re, "data")
		b := site(mm, vf, "payload")
		if b == "via-readEdit" {
			b = a
		}
		o.Set("man.frameAlloc", "manifest/codec.go:readEdit+manifest/manager.go:Verify", a, a != "" && a == b, "declared")
	}

	// ------------------------------------------------------------ kv/entry_codec.go
	ec := o.Load("kv/entry_codec.go")
	{
		fn := ec.Func("DecodeEntryFrom")
		v, ok := "", false
		if fn != nil {
			mk := hasStmt(ec, fn.Body, "entry.Key = make([]byte, keyLen)")
			mv := hasStmt(ec, fn.Body, "entry.Value = make([]byte, valueLen)")
			allowed := map[string]bool{}
			for _, s := range []string{"keyLen < 0", "uint32(keyLen) != header.KeyLen", "cap(entry.Key) < keyLen",
				"valueLen < 0", "uint32(valueLen) != header.ValueLen", "cap(entry.Value) < valueLen"} {
				allowed[ns(s)] = true
			}
			onlyAllowed := true
			for _, g := range ifsMentioning(fn.Body, "keyLen", "valueLen") {
				if g.Init != nil {
					onlyAllowed = false
				}
				for _, at := range orAtoms(g.Cond) {
					if mentions(at, "keyLen", "valueLen") && !allowed[ns(ec.Src(at))] {
						onlyAllowed = false
					}
				}
			}
			streaming := len(callsTo(ec, fn.Body, "io.CopyN")) > 0 || len(callsTo(ec, fn.Body, "io.LimitReader")) > 0
			anyMake := countExpr(ec, fn.Body, "make([]byte, keyLen)")+countExpr(ec, fn.Body, "make([]byte, valueLen)") > 0
			switch {
			case mk && mv && onlyAllowed && !streaming &&
				hasStmt(ec, fn.Body, "keyLen := int(header.KeyLen)") && hasStmt(ec, fn.Body, "valueLen := int(header.ValueLen)"):
				v, ok = "declared", true
			case streaming && !anyMake:
				v, ok = "bounded", true
			}
		}
		o.Set("entry.alloc", "kv/entry_codec.go:DecodeEntryFrom", v, ok, "declared")
	}

	// ------------------------------------------------------------ kv/value.go
	kvv := o.Load("kv/value.go")
	{
		// vs.sizeVarint: the width function behind ValueStruct.EncodedSize / Entry.EncodedSize must
		// be the loop `for { n++; x >>= 7; if x == 0 { break } }; return n` that the model
		// (`sizeVarint`) and the theorem `EncodedSize = len(encode)` are about; EncodedSize itself
		// must be `len(vs.Value) + 1` plus `sizeVarint(vs.ExpiresAt)`.
		v, ok := "", false
		sv := kvv.Func("sizeVarint")
		es := kvv.Func("ValueStruct.EncodedSize")
		if sv != nil && es != nil {
			loops := 0
			ast.Inspect(sv.Body, func(x ast.Node) bool {
				if fs, isFor := x.(*ast.ForStmt); isFor {
					loops++
					if fs.Init != nil || fs.Cond != nil || fs.Post != nil {
						loops += 10
					}
				}
				return true
			})
			if loops == 1 && len(sv.Body.List) == 2 && hasStmt(kvv, sv.Body, "n++") && hasStmt(kvv, sv.Body, "x >>= 7") &&
				hasStmt(kvv, sv.Body, "return n") && len(ifs(sv.Body)) == 1 && eq(kvv, ifs(sv.Body)[0].Cond, "x == 0") &&
				hasStmt(kvv, es.Body, "sz := len(vs.Value) + 1") && hasStmt(kvv, es.Body, "enc := sizeVarint(vs.ExpiresAt)") &&
				hasStmt(kvv, es.Body, "return uint32(sz + enc)") {
				v, ok = "loop7", true
			}
		}
		o.Set("vs.sizeVarint", "kv/value.go:sizeVarint+EncodedSize", v, ok, "loop7")
	}
	{
		fn := kvv.Func("ValueStruct.DecodeValue")
		v, ok := "", false
		if fn != nil && fn.Body != nil {
			// the three decoding statements, in order, at the top level of the body
			want := []string{"vs.Meta = buf[0]", "vs.ExpiresAt, sz = binary.Uvarint(buf[1:])", "vs.Value = buf[1+sz:]"}
			idx := []int{-1, -1, -1}
			extraOK := true
			var topIfs []int
			for i, st := range fn.Body.List {
				matched := false
				for k, w := range want {
					if eq(kvv, st, w) && idx[k] < 0 {
						idx[k], matched = i, true
					}
				}
				if matched {
					continue
				}
				switch st.(type) {
				case *ast.IfStmt:
					topIfs = append(topIfs, i)
				case *ast.DeclStmt:
					if !eq(kvv, st, "var sz int") {
						extraOK = false
					}
				case *ast.ReturnStmt:
				default:
					extraOK = false
				}
			}
			ordered := idx[0] >= 0 && idx[0] < idx[1] && idx[1] < idx[2]
			allIfs := ifs(fn.Body)
			switch {
			case !ordered || !extraOK:
			case len(allIfs) == 0:
				v, ok = "none", true
			case len(allIfs) == len(topIfs):
				// checked: a len(buf) guard before buf[0] is read and an `sz <= 0` guard between
				// the Uvarint and the slice, both leaving the function
				lenG, szG := false, false
				for _, i := range topIfs {
					g := fn.Body.List[i].(*ast.IfStmt)
					if bodyReturns(g) == nil || g.Init != nil {
						lenG, szG = false, false
						break
					}
					for _, at := range orAtoms(g.Cond) {
						if strings.Contains(ns(kvv.Src(at)), "len(buf)") && i < idx[0] {
							lenG = true
						}
						if eq(kvv, at, "sz <= 0") && i > idx[1] && i < idx[2] {
							szG = true
						}
					}
				}
				if lenG && szG {
					v, ok = "checked", true
				}
			}
		}
		o.Set("vs.decodeGuard", "kv/value.go:DecodeValue", v, ok, "none")
	}

	// ------------------------------------------------------------ kv/key.go
	kk := o.Load("kv/key.go")
	pts := kk.Func("ParseTs")
	pk := kk.Func("ParseKey")
	kwt := kk.Func("KeyWithTs")
	ik := kk.Func("InternalKey")
	{
		// key.parseTsMin: `if len(key) <op> 8 { return 0 }`
		v, ok := "", false
		if pts != nil {
			g := ifs(pts.Body)
			if len(g) == 1 && g[0].Init == nil && eq(kk, bodyReturns(g[0]), "return 0") {
				if be, isBin := g[0].Cond.(*ast.BinaryExpr); isBin && eq(kk, be.X, "len(key)") && eq(kk, be.Y, "8") {
					switch be.Op {
					case token.LEQ:
						v, ok = "le", true
					case token.LSS:
						v, ok = "lt", true
					}
				}
			}
		}
		o.Set("key.parseTsMin", "kv/key.go:ParseTs", v, ok, "le")
	}
	{
		// key.tsEnc
		exist := pts != nil && pk != nil && kwt != nil && ik != nil
		good := false
		if exist {
			pkIfs := ifs(pk.Body)
			good = hasStmt(kk, kwt.Body, "out := make([]byte, len(key)+8)") &&
				hasStmt(kk, kwt.Body, "copy(out, key)") &&
				hasStmt(kk, kwt.Body, "binary.BigEndian.PutUint64(out[len(key):], math.MaxUint64-ts)") &&
				hasStmt(kk, kwt.Body, "return out") &&
				hasStmt(kk, ik.Body, "out := make([]byte, cfHeaderSize+len(key)+8)") &&
				hasStmt(kk, ik.Body, "copy(out[cfHeaderSize:], key)") &&
				hasStmt(kk, ik.Body, "binary.BigEndian.PutUint64(out[len(out)-8:], math.MaxUint64-ts)") &&
				hasStmt(kk, ik.Body, "return out") &&
				hasStmt(kk, pts.Body, "return math.MaxUint64 - binary.BigEndian.Uint64(key[len(key)-8:])") &&
				len(pk.Body.List) == 2 && len(pkIfs) == 1 && pkIfs[0].Init == nil &&
				eq(kk, pkIfs[0].Cond, "len(key) < 8") && eq(kk, bodyReturns(pkIfs[0]), "return key") &&
				eq(kk, pk.Body.List[1], "return key[:len(key)-8]")
		}
		v := "other"
		if good {
			v = "maxminus"
		}
		o.Set("key.tsEnc", "kv/key.go:KeyWithTs+InternalKey+ParseTs+ParseKey", v, exist, "maxminus")
	}

	// ------------------------------------------------------------ utils/util.go
	uu := o.Load("utils/util.go")
	{
		fn := uu.Func("CompareKeys")
		v := "other"
		if fn != nil && fn.Body != nil && len(fn.Body.List) == 3 {
			g0, ok0 := fn.Body.List[0].(*ast.IfStmt)
			g1, ok1 := fn.Body.List[1].(*ast.IfStmt)
			if ok0 && ok1 &&
				g0.Init == nil && g0.Else == nil && eq(uu, g0.Cond, "len(key1) <= 8 || len(key2) <= 8") &&
				(len(callsTo(uu, g0.Body, "CondPanic")) > 0 || len(callsTo(uu, g0.Body, "panic")) > 0) &&
				g1.Else == nil && eq(uu, g1.Init, "cmp := bytes.Compare(key1[:len(key1)-8], key2[:len(key2)-8])") &&
				eq(uu, g1.Cond, "cmp != 0") && len(g1.Body.List) == 1 && eq(uu, g1.Body.List[0], "return cmp") &&
				eq(uu, fn.Body.List[2], "return bytes.Compare(key1[len(key1)-8:], key2[len(key2)-8:])") {
				v = "prefix-then-suffix8"
			}
		}
		o.Set("key.cmpShape", "utils/util.go:CompareKeys", v, fn != nil, "prefix-then-suffix8")
	}

	// ------------------------------------------------------------ kv/cf.go
	cf := o.Load("kv/cf.go")
	{
		m0, ok0 := constInt(cf, "cfMarker0")
		m1, ok1 := constInt(cf, "cfMarker1")
		m2, ok2 := constInt(cf, "cfMarker2")
		hs, ok3 := constInt(cf, "cfHeaderSize")
		fams := iotaBlock(cf, "CFDefault")
		maxV, okMax := -1, false
		if id, isID := constExpr(cf, "maxColumnFamily").(*ast.Ident); isID {
			maxV, okMax = fams[id.Name], false
			if _, has := fams[id.Name]; has {
				okMax = true
			}
		} else if n, isLit := constInt(cf, "maxColumnFamily"); isLit {
			maxV, okMax = int(n), true
		}
		famOK := fams != nil && fams["CFDefault"] == 0 && fams["CFLock"] == 1 && fams["CFWrite"] == 2 && len(fams) == 3
		inByte := func(x int64) bool { return x >= 0 && x <= 255 }
		constsOK := ok0 && ok1 && ok2 && ok3 && okMax && famOK && inByte(m0) && inByte(m1) && inByte(m2)

		// usage: Valid, EncodeKeyWithCF, InternalKey, DecodeKeyCF are written in terms of the constants
		valid := cf.Func("ColumnFamily.Valid")
		enc := cf.Func("EncodeKeyWithCF")
		dec := cf.Func("DecodeKeyCF")
		usage := valid != nil && enc != nil && dec != nil && ik != nil &&
			len(valid.Body.List) == 1 && eq(cf, valid.Body.List[0], "return cf <= maxColumnFamily")
		if usage {
			for _, fb := range []struct {
				f  *elib.File
				fn *ast.FuncDecl
			}{{cf, enc}, {kk, ik}} {
				for _, st := range []string{"out[0] = cfMarker0", "out[1] = cfMarker1", "out[2] = cfMarker2", "out[3] = byte(cf)",
					"if !cf.Valid() { cf = CFDefault }"} {
					if !hasStmt(fb.f, fb.fn.Body, st) {
						usage = false
					}
				}
			}
			if !hasStmt(cf, enc.Body, "out := make([]byte, len(userKey)+cfHeaderSize)") || !hasStmt(cf, enc.Body, "copy(out[cfHeaderSize:], userKey)") {
				usage = false
			}
			dIfs := ifs(dec.Body)
			if !(len(dIfs) == 2 &&
				eq(cf, dIfs[0].Cond, "len(key) >= cfHeaderSize && key[0] == cfMarker0 && key[1] == cfMarker1 && key[2] == cfMarker2") &&
				eq(cf, dIfs[1].Cond, "cf.Valid()") &&
				hasStmt(cf, dIfs[0].Body, "cf := ColumnFamily(key[3])") &&
				eq(cf, bodyReturns(dIfs[1]), "return cf, key[cfHeaderSize:], true") &&
				len(dec.Body.List) == 2 && eq(cf, dec.Body.List[1], "return CFDefault, key, false")) {
				usage = false
			}
		}
		v := ""
		if constsOK {
			v = fmt.Sprintf("%02x%02x%02x:%d", m0, m1, m2, maxV)
			if hs != 4 {
				v += fmt.Sprintf(":hdr%d", hs)
			}
		}
		o.Set("key.cfMarker", "kv/cf.go:cfMarker0..2+maxColumnFamily+DecodeKeyCF+EncodeKeyWithCF, kv/key.go:InternalKey", v, constsOK && usage, "ff4346:2")
	}

	// ------------------------------------------------------------ literal constants (JSON only)
	{
		setInt := func(name string, f *elib.File, cname, fallback string) {
			n, ok := constInt(f, cname)
			o.Set(name, f.Path+":"+cname, fmt.Sprint(n), ok, fallback)
		}
		setInt("const.lockVersion", pc, "lockCodecVersion", "1")
		setInt("const.writeVersion", pc, "writeCodecVersion", "1")
		setInt("const.cmdPrefix", o.Load("raftstore/command/codec.go"), "PayloadPrefix", "206")
		setInt("const.valuePtrSize", kvv, "valuePtrEncodedSize", "16")
		mg, ok := constLit(mc, "editMagic")
		s := ""
		if ok && mg.Kind() == constant.String {
			s = constant.StringVal(mg)
		} else {
			ok = false
		}
		o.Set("const.editMagic", "manifest/codec.go:editMagic", s, ok, "NoKV")

		mt := o.Load("manifest/types.go")
		blk := iotaBlock(mt, "EditAddFile")
		names := []string{"EditAddFile", "EditDeleteFile", "EditLogPointer", "EditValueLogHead", "EditDeleteValueLog",
			"EditUpdateValueLog", "EditRaftPointer", "EditRegion"}
		var vals []string
		ok = blk != nil && len(blk) == len(names)
		for _, n := range names {
			if x, has := blk[n]; has {
				vals = append(vals, fmt.Sprint(x))
			} else {
				ok = false
			}
		}
		o.Set("const.editTypes", "manifest/types.go:EditAddFile..EditRegion", strings.Join(vals, ","), ok, "0,1,2,3,4,5,6,7")
	}

	{
		// enc.fresh: every pinned encoder returns bytes it owns - no sync.Pool and no package-level
		// variable is touched in its body (EncodeEntryTo may use headerPool: the header bytes are
		// copied into the caller's writer before the pooled array is returned).  A pooled or shared
		// result buffer would alias the payloads of successive calls; the round-trip theorems are
		// per call and do not see that (the harness' hold/check cases do).
		type encFn struct {
			file, fn string
			allowed  map[string]bool
		}
		fns := []encFn{
			{"percolator/codec.go", "EncodeLock", nil}, {"percolator/codec.go", "EncodeWrite", nil},
			{"manifest/codec.go", "writeEdit", nil}, {"manifest/codec.go", "appendBytes", nil},
			{"kv/key.go", "InternalKey", nil}, {"kv/key.go", "KeyWithTs", nil}, {"kv/cf.go", "EncodeKeyWithCF", nil},
			{"kv/value.go", "ValuePtr.Encode", nil}, {"kv/value.go", "ValueStruct.EncodeValue", nil},
			{"kv/entry_codec.go", "EntryHeader.Encode", nil}, {"kv/entry_codec.go", "EncodeEntry", nil},
			{"kv/entry_codec.go", "EncodeEntryTo", map[string]bool{"headerPool": true}},
			{"raftstore/command/codec.go", "Encode", nil},
			{"raftstore/engine/wal_storage.go", "encodeRaftEntries", nil}, {"raftstore/engine/wal_storage.go", "encodeRaftHardState", nil},
			{"raftstore/engine/wal_storage.go", "encodeRaftSnapshot", nil}, {"raftstore/engine/wal_storage.go", "writeUvarint", nil},
		}
		var offenders []string
		missing := false
		files := map[string]*elib.File{}
		for _, e := range fns {
			ef := files[e.file]
			if ef == nil {
				ef = o.Load(e.file)
				files[e.file] = ef
			}
			fd := ef.Func(e.fn)
			if fd == nil || fd.Body == nil {
				missing = true
				offenders = append(offenders, e.fn+":missing")
				continue
			}
			fileVars := map[string]bool{}
			for _, d := range ef.AST.Decls {
				if gd, isGen := d.(*ast.GenDecl); isGen && gd.Tok == token.VAR {
					for _, sp := range gd.Specs {
						for _, n := range sp.(*ast.ValueSpec).Names {
							fileVars[n.Name] = true
						}
					}
				}
			}
			locals := map[string]bool{}
			ast.Inspect(fd, func(x ast.Node) bool {
				switch n := x.(type) {
				case *ast.AssignStmt:
					if n.Tok == token.DEFINE {
						for _, l := range n.Lhs {
							if id, isID := l.(*ast.Ident); isID {
								locals[id.Name] = true
							}
						}
					}
				case *ast.ValueSpec:
					for _, id := range n.Names {
						locals[id.Name] = true
					}
				case *ast.Field:
					for _, id := range n.Names {
						locals[id.Name] = true
					}
				}
				return true
			})
			seen := map[string]bool{}
			ast.Inspect(fd.Body, func(x ast.Node) bool {
				id, isID := x.(*ast.Ident)
				if !isID || locals[id.Name] || seen[id.Name] {
					return true
				}
				lower := strings.ToLower(id.Name)
				if (fileVars[id.Name] || strings.Contains(lower, "pool")) && !e.allowed[id.Name] {
					seen[id.Name] = true
					offenders = append(offenders, e.fn+":"+id.Name)
				}
				return true
			})
		}
		sort.Strings(offenders)
		if len(offenders) == 0 {
			o.Set("enc.fresh", "encoders of percolator, manifest, kv, raftstore/command, raftstore/engine", "true", true, "true")
		} else {
			o.Anchors["enc.offenders"] = strings.Join(offenders, ",")
			o.Set("enc.fresh", "encoders: "+strings.Join(offenders, ","), "", false, "true")
		}
		_ = missing
	}

	// ------------------------------------------------------------ Lean
	f := o.Facts
	b := func(cond bool) string { return fmt.Sprint(cond) }
	lean := fmt.Sprintf(`-- GENERATED by /verif/extract/cmd/codec from the current /repo working tree. Do not edit.
import NoKVModel.Codec.Cfg

namespace NoKV.Generated.Codec
open NoKV NoKV.Codec

def codecCfg : CodecCfg :=
  { lockLenGuard := .%s, writeLenGuard := .%s, manUvarint := .%s, manReadBytes := .%s,
    manPeersBounded := %s, manFrameBounded := %s, manNilPayloadLt := %s, entryAllocBounded := %s,
    vsDecodeChecked := %s, raftLenGuard := .%s, parseTsMin := .%s, tsInverted := %s,
    cmpPrefixSuffix := %s, cfMarkerOk := %s }

end NoKV.Generated.Codec
`,
		f["perc.lockLenGuard"], f["perc.writeLenGuard"], f["man.uvarint"], f["man.readBytes"],
		b(f["man.peersCap"] == "bounded"), b(f["man.frameAlloc"] == "bounded"), b(f["man.nilPayloadOp"] == "lt"), b(f["entry.alloc"] == "bounded"),
		b(f["vs.decodeGuard"] == "checked"), f["raft.lenGuard"], f["key.parseTsMin"], b(f["key.tsEnc"] == "maxminus"),
		b(f["key.cmpShape"] == "prefix-then-suffix8"), b(f["key.cfMarker"] == "ff4346:2"))
	o.Write(*jsonOut, *leanOut, lean)
}

// uvarintAtShape: the repaired helper
//
//	func uvarintAt(data []byte, pos int) (uint64, int) {
//		if pos > len(data) { return 0, 1 }               // stays past the end
//		[if pos < 0 { return 0, len(data) - pos + 1 }]
//		v, n := binary.Uvarint(data[pos:])
//		if n <= 0 { return 0, len(data) - pos + 1 }      // failure moves pos past len(data)
//		return v, n
//	}
func uvarintAtShape(f *elib.File) bool {
	fn := f.Func("uvarintAt")
	if fn == nil || fn.Body == nil {
		return false
	}
	call := stmtPos(f, fn.Body, "v, n := binary.Uvarint(data[pos:])")
	if call == token.NoPos || countExpr(f, fn.Body, "binary.Uvarint(data[pos:])") != 1 {
		return false
	}
	pre, post := false, false
	for _, g := range ifs(fn.Body) {
		switch {
		case g.Init == nil && eq(f, g.Cond, "pos > len(data)") && g.Pos() < call && eq(f, bodyReturns(g), "return 0, 1"):
			pre = true
		case g.Init == nil && eq(f, g.Cond, "pos < 0") && g.Pos() < call && eq(f, bodyReturns(g), "return 0, len(data) - pos + 1"):
		case g.Init == nil && eq(f, g.Cond, "n <= 0") && g.Pos() > call && eq(f, bodyReturns(g), "return 0, len(data) - pos + 1"):
			post = true
		default:
			return false
		}
	}
	last := fn.Body.List[len(fn.Body.List)-1]
	return pre && post && eq(f, last, "return v, n")
}

// readBytesAtShape: the repaired helper
//
//	func readBytesAt(data []byte, pos int) ([]byte, int) {
//		length, n := uvarintAt(data, pos)
//		if pos+n > len(data) { return nil, n }
//		if length > uint64(len(data)-pos-n) { return nil, len(data) - pos + 1 }
//		return data[pos+n : pos+n+int(length)], n + int(length)
//	}
func readBytesAtShape(f *elib.File) bool {
	fn := f.Func("readBytesAt")
	if fn == nil || fn.Body == nil || !uvarintAtShape(f) {
		return false
	}
	g := ifs(fn.Body)
	return len(fn.Body.List) == 4 && len(g) == 2 &&
		eq(f, fn.Body.List[0], "length, n := uvarintAt(data, pos)") &&
		fn.Body.List[1] == ast.Stmt(g[0]) && g[0].Init == nil && eq(f, g[0].Cond, "pos+n > len(data)") && eq(f, bodyReturns(g[0]), "return nil, n") &&
		fn.Body.List[2] == ast.Stmt(g[1]) && g[1].Init == nil && eq(f, g[1].Cond, "length > uint64(len(data)-pos-n)") &&
		eq(f, bodyReturns(g[1]), "return nil, len(data) - pos + 1") &&
		eq(f, fn.Body.List[3], "return data[pos+n : pos+n+int(length)], n + int(length)")
}

// precedesInSameBlock: guard g and the statement printing as stmt are direct children of the
// same block, g first.
func precedesInSameBlock(f *elib.File, n ast.Node, g *ast.IfStmt, stmt string) bool {
	found := false
	ast.Inspect(n, func(x ast.Node) bool {
		blk, ok := x.(*ast.BlockStmt)
		if !ok {
			return true
		}
		gi, si := -1, -1
		for i, st := range blk.List {
			if st == ast.Stmt(g) {
				gi = i
			}
			if eq(f, st, stmt) && si < 0 {
				si = i
			}
		}
		if gi >= 0 && si >= 0 && gi < si {
			found = true
		}
		return true
	})
	return found
}

// Fact extractor for the commit-queue engine (C34, C37): db.go, db_write.go, lsm/lsm.go,
// utils/ringbuffer.go.  Every rule names the syntactic shape it expects; a missing shape is a
// broken obligation `extract:<fact>`.
package main

import (
	"flag"
	"fmt"
	"go/ast"
	"go/token"
	"os"
	"sort"
	"strings"

	"verif/extract/elib"
)

func b(x bool) string {
	if x {
		return "true"
	}
	return "false"
}

// posOfCall returns the position of the first call whose callee prints as name (or NoPos).
func posOfCall(f *elib.File, n ast.Node, name string) token.Pos {
	var p token.Pos
	if n == nil {
		return p
	}
	ast.Inspect(n, func(x ast.Node) bool {
		if c, ok := x.(*ast.CallExpr); ok && p == token.NoPos && f.Src(c.Fun) == name {
			p = c.Pos()
		}
		return true
	})
	return p
}

// methodNamed finds a method by name whatever its receiver (generic receivers included).
func methodNamed(f *elib.File, name string) *ast.FuncDecl {
	for _, d := range f.AST.Decls {
		if fd, ok := d.(*ast.FuncDecl); ok && fd.Recv != nil && fd.Name.Name == name {
			return fd
		}
	}
	return nil
}

// rootGoFiles lists the non-test Go files of the root package (verif hook files excluded).
func rootGoFiles(repo string) []string {
	ents, _ := os.ReadDir(repo)
	var out []string
	for _, e := range ents {
		n := e.Name()
		if e.IsDir() || !strings.HasSuffix(n, ".go") || strings.HasSuffix(n, "_test.go") || strings.HasPrefix(n, "verif_") {
			continue
		}
		out = append(out, n)
	}
	sort.Strings(out)
	return out
}

func body(fd *ast.FuncDecl) ast.Node {
	if fd == nil || fd.Body == nil {
		return nil
	}
	return fd.Body
}

func main() {
	repo := flag.String("repo", "/repo", "repository root")
	jsonOut := flag.String("json", "", "facts json")
	leanOut := flag.String("lean", "", "generated Lean file")
	flag.Parse()
	o := elib.New("queue", *repo)

	dw := o.Load("db_write.go")
	dbf := o.Load("db.go")
	lsmf := o.Load("lsm/lsm.go")
	ring := o.Load("utils/ringbuffer.go")

	// ------------------------------------------------------------ sendToWriteCh
	send := dw.Func("DB.sendToWriteCh")
	a := "db_write.go:sendToWriteCh"
	op, ok := dw.FindCmp(body(send), "count", "db.opt.MaxBatchCount")
	o.Set("q.tooBigCountOp", a, op, ok, "ge")
	op, ok = dw.FindCmp(body(send), "size", "db.opt.MaxBatchSize")
	o.Set("q.tooBigSizeOp", a, op, ok, "ge")

	// throttle wait loop: `for atomic.LoadInt32(&db.blockWrites) == 1 { … }` whose body has an
	// `if` on isClosed / commitQueue.closed that returns
	var thrLoop *ast.ForStmt
	var sizeIf, enqIf *ast.IfStmt
	if send != nil {
		for _, st := range send.Body.List {
			switch s := st.(type) {
			case *ast.ForStmt:
				if thrLoop == nil && strings.Contains(dw.Src(s.Cond), "db.blockWrites") {
					thrLoop = s
				}
			case *ast.IfStmt:
				c := dw.Src(s.Cond)
				if strings.Contains(c, "MaxBatchCount") || strings.Contains(c, "MaxBatchSize") {
					sizeIf = s
				}
				if s.Init != nil && strings.Contains(dw.Src(s.Init), "db.enqueueCommitRequest(") {
					enqIf = s
				}
			}
		}
	}
	if thrLoop == nil {
		o.Set("q.thrLoopChecksClosed", a, "", false, "true")
	} else {
		found := false
		ast.Inspect(thrLoop.Body, func(x ast.Node) bool {
			if s, ok := x.(*ast.IfStmt); ok {
				c := dw.Src(s.Cond)
				if (strings.Contains(c, "db.isClosed") || strings.Contains(c, "commitQueue.closed") || strings.Contains(c, "IsClosed()")) &&
					strings.Contains(dw.Src(s.Body), "return") {
					found = true
				}
			}
			return true
		})
		o.Set("q.thrLoopChecksClosed", a, b(found), true, "")
	}
	// enqueue failure path: does it release the caller's entries?
	if enqIf == nil {
		o.Set("q.enqFailKeepsRef", a, "", false, "false")
	} else {
		detachAt, decrAt := -1, -1
		for i, st := range enqIf.Body.List {
			src := dw.Src(st)
			if src == "req.Entries = nil" || src == "req.Entries = req.Entries[:0]" {
				if detachAt < 0 {
					detachAt = i
				}
			}
			if src == "req.DecrRef()" && decrAt < 0 {
				decrAt = i
			}
		}
		keeps := decrAt < 0 || (detachAt >= 0 && detachAt < decrAt)
		o.Set("q.enqFailKeepsRef", a, b(keeps), true, "")
	}
	// write path order
	{
		set := dbf.Func("DB.setEntry")
		bs := dw.Func("DB.batchSet")
		okShape := set != nil && bs != nil && send != nil && thrLoop != nil && sizeIf != nil && enqIf != nil
		std := false
		if okShape {
			p1 := posOfCall(dbf, set.Body, "db.maybeThrottleWrite")
			p2 := posOfCall(dbf, set.Body, "db.batchSet")
			q1 := posOfCall(dw, bs.Body, "db.sendToWriteCh")
			q2 := posOfCall(dw, bs.Body, "req.Wait")
			if p2 == token.NoPos {
				// setEntry may call sendToWriteCh + req.Wait itself instead of going through batchSet
				p2 = posOfCall(dbf, set.Body, "db.sendToWriteCh")
				q1, q2 = p2, posOfCall(dbf, set.Body, "req.Wait")
			}
			std = p1 != token.NoPos && p2 != token.NoPos && p1 < p2 &&
				q1 != token.NoPos && q2 != token.NoPos && q1 < q2 &&
				thrLoop.Pos() < sizeIf.Pos() && sizeIf.Pos() < enqIf.Pos()
		}
		o.Set("q.pathOrderStd", "db.go:setEntry, db_write.go:batchSet/sendToWriteCh", b(std), okShape, "true")
	}

	// ------------------------------------------------------------ enqueueCommitRequest
	enq := dw.Func("DB.enqueueCommitRequest")
	{
		a := "db_write.go:enqueueCommitRequest"
		push := posOfCall(dw, body(enq), "cq.ring.Push")
		checked := false
		if enq != nil {
			ast.Inspect(enq.Body, func(x ast.Node) bool {
				if s, ok := x.(*ast.IfStmt); ok && s.Pos() < push {
					if strings.Contains(dw.Src(s.Cond), "atomic.LoadUint32(&cq.closed) == 1") &&
						strings.Contains(dw.Src(s.Body), "return utils.ErrBlockedWrites") {
						checked = true
					}
				}
				return true
			})
		}
		o.Set("q.enqChecksClosed", a, b(checked), enq != nil && push != token.NoPos, "true")
	}

	// ------------------------------------------------------------ nextCommitBatch / ring
	ncb := dw.Func("DB.nextCommitBatch")
	a = "db_write.go:nextCommitBatch"
	op, ok = dw.FindCmp(body(ncb), "len(batch)", "limitCount")
	o.Set("q.batchCountOp", a, op, ok, "lt")
	op, ok = dw.FindCmp(body(ncb), "pendingBytes", "limitSize")
	o.Set("q.batchSizeOp", a, op, ok, "lt")
	{
		pushF, popF := methodNamed(ring, "Push"), methodNamed(ring, "Pop")
		shape := ncb != nil && pushF != nil && popF != nil
		fifo := false
		if shape {
			fifo = dw.HasStmt(ncb.Body, "batch = append(batch, cr)") &&
				strings.Contains(ring.Src(pushF.Body), "atomic.LoadUint64(&r.tail)") &&
				strings.Contains(ring.Src(pushF.Body), "atomic.CompareAndSwapUint64(&r.tail, pos, pos+1)") &&
				strings.Contains(ring.Src(popF.Body), "atomic.LoadUint64(&r.head)") &&
				strings.Contains(ring.Src(popF.Body), "atomic.CompareAndSwapUint64(&r.head, pos, pos+1)")
		}
		o.Set("q.fifoPop", "db_write.go:nextCommitBatch, utils/ringbuffer.go:Push/Pop", b(fifo), shape, "true")
	}

	// ------------------------------------------------------------ commitWorker: ack after apply
	cw := dw.Func("DB.commitWorker")
	{
		a := "db_write.go:commitWorker"
		shape, good := false, false
		if cw != nil {
			ast.Inspect(cw.Body, func(x ast.Node) bool {
				loop, ok := x.(*ast.ForStmt)
				if !ok || shape {
					return true
				}
				applyIdx := -1
				for i, st := range loop.Body.List {
					if dw.HasCall(st, "db.applyRequests") {
						applyIdx = i
						break
					}
				}
				if applyIdx < 0 {
					return true
				}
				shape = true
				good = true
				after := false
				for i, st := range loop.Body.List {
					if !dw.HasCall(st, "db.finishCommitRequests") {
						continue
					}
					if i < applyIdx {
						// only early exits (`if … { finish…; release…; continue }`) may ack before
						ifs, ok := st.(*ast.IfStmt)
						if !ok || len(ifs.Body.List) == 0 {
							good = false
							continue
						}
						last, ok := ifs.Body.List[len(ifs.Body.List)-1].(*ast.BranchStmt)
						if !ok || last.Tok != token.CONTINUE {
							good = false
						}
					} else if i > applyIdx {
						after = true
					}
				}
				good = good && after
				return false
			})
		}
		// completion sites: a request may be completed (`wg.Done()`) only by
		// finishCommitRequests and on sendToWriteCh's enqueue-failure path, and
		// finishCommitRequests may be called only from commitWorker (whose order w.r.t.
		// applyRequests is checked above).  Any other site in the package acknowledges a
		// write outside the apply → ack discipline the model has.
		extra := []string{}
		for _, rel := range rootGoFiles(*repo) {
			f := o.Load(rel)
			for _, d := range f.AST.Decls {
				fd, ok := d.(*ast.FuncDecl)
				if !ok || fd.Body == nil {
					continue
				}
				ast.Inspect(fd.Body, func(x ast.Node) bool {
					c, ok := x.(*ast.CallExpr)
					if !ok {
						return true
					}
					fn := f.Src(c.Fun)
					switch {
					case strings.HasSuffix(fn, "finishCommitRequests"):
						if fd.Name.Name != "commitWorker" {
							extra = append(extra, rel+":"+fd.Name.Name+":finishCommitRequests")
						}
					case strings.HasSuffix(fn, ".wg.Done"):
						if fd.Name.Name != "finishCommitRequests" && fd.Name.Name != "sendToWriteCh" {
							extra = append(extra, rel+":"+fd.Name.Name+":"+fn)
						}
					case strings.HasSuffix(fn, ".wg.Add"):
						if fd.Name.Name != "sendToWriteCh" {
							extra = append(extra, rel+":"+fd.Name.Name+":"+fn)
						}
					}
					return true
				})
			}
		}
		if len(extra) > 0 {
			good = false
			a = a + "; other completion sites: " + strings.Join(extra, ", ")
		}
		o.Set("q.ackAfterApply", a, b(good), shape, "true")
	}

	// ------------------------------------------------------------ applyRequests stops at the first failure
	{
		ar := dw.Func("DB.applyRequests")
		shape, stops := false, false
		if ar != nil {
			ast.Inspect(ar.Body, func(x ast.Node) bool {
				if s, ok := x.(*ast.IfStmt); ok && s.Init != nil && strings.Contains(dw.Src(s.Init), "db.writeToLSM(") {
					shape = true
					if len(s.Body.List) > 0 {
						if _, isRet := s.Body.List[0].(*ast.ReturnStmt); isRet {
							stops = true
						}
					}
				}
				return true
			})
		}
		o.Set("q.applyStopsAtFailure", "db_write.go:applyRequests", b(stops), shape, "true")
	}
	// ------------------------------------------------------------ setEntry: release after a Wait() error
	{
		bad, shape := false, true
		for _, name := range []string{"DB.setEntry", "DB.SetVersionedEntry"} {
			fd := dbf.Func(name)
			if fd == nil {
				shape = false
				continue
			}
			ast.Inspect(fd.Body, func(x ast.Node) bool {
				if s, ok := x.(*ast.IfStmt); ok && s.Init != nil && strings.Contains(dbf.Src(s.Init), "db.batchSet(") &&
					strings.Contains(dbf.Src(s.Body), ".DecrRef()") {
					bad = true // batchSet's error may come from req.Wait(), after the request released the entries
				}
				return true
			})
		}
		o.Set("q.waitErrKeepsRef", "db.go:setEntry/SetVersionedEntry", b(!bad), shape, "false")
	}
	// ------------------------------------------------------------ GetCF: what counts as deleted
	{
		gcf := dbf.Func("DB.GetCF")
		std, shape := false, false
		if gcf != nil {
			ast.Inspect(gcf.Body, func(x ast.Node) bool {
				if s, ok := x.(*ast.IfStmt); ok && strings.Contains(dbf.Src(s.Body), "utils.ErrKeyNotFound") {
					shape = true
					if dbf.Src(s.Cond) == "isDeletedOrExpired(entry.Meta, entry.ExpiresAt)" {
						std = true
					}
				}
				return true
			})
		}
		o.Set("q.getDeletedStd", "db.go:GetCF", b(std), shape, "true")
	}
	// ------------------------------------------------------------ doCompact releases its reservation on every path
	{
		ex := o.Load("lsm/executor.go")
		dc := ex.Func("levelManager.doCompact")
		shape, good := false, false
		if dc != nil {
			src := ex.Src(dc.Body)
			deferOK := strings.Contains(src, "defer func() { if cleanup { lm.compactState.Delete(cd.stateEntry()) } }()")
			fills, armed := 0, 0
			var walk func(list []ast.Stmt)
			walk = func(list []ast.Stmt) {
				for i, st := range list {
					if is, ok := st.(*ast.IfStmt); ok {
						c := ex.Src(is.Cond)
						if c == "!lm.fillTablesL0(&cd)" || c == "!lm.fillTables(&cd)" {
							fills++
							if i+1 < len(list) && ex.Src(list[i+1]) == "cleanup = true" {
								armed++
							}
						}
						walk(is.Body.List)
						if eb, ok := is.Else.(*ast.BlockStmt); ok {
							walk(eb.List)
						}
					}
				}
			}
			walk(dc.Body.List)
			shardOK := strings.Contains(src, "lm.compactState.Delete(sub.stateEntry()) return err")
			shape = fills == 2
			good = deferOK && fills == 2 && armed == 2 && shardOK
		}
		o.Set("lsm.compactReleasesReservation", "lsm/executor.go:doCompact", b(good), shape, "true")
	}

	// ------------------------------------------------------------ valueLog.write: rewind points are per call
	{
		vl := o.Load("vlog.go")
		w := vl.Func("valueLog.write")
		shape, local := false, false
		if w != nil {
			shape = true
			local = vl.HasStmt(w.Body, "heads := make(map[uint32]kv.ValuePtr)") &&
				vl.HasStmt(w.Body, "touched := make(map[uint32]struct{})")
		}
		o.Set("q.vlogScratchLocal", "vlog.go:valueLog.write (heads/touched)", b(local), shape, "true")
	}

	// ------------------------------------------------------------ Open: one worker
	{
		open := dbf.Func("Open")
		n, inLoop := 0, false
		if open != nil {
			var walk func(n ast.Node, loop bool)
			walk = func(x ast.Node, loop bool) {
				ast.Inspect(x, func(y ast.Node) bool {
					switch s := y.(type) {
					case *ast.ForStmt:
						if y != x {
							walk(s.Body, true)
							return false
						}
					case *ast.RangeStmt:
						if y != x {
							walk(s.Body, true)
							return false
						}
					case *ast.GoStmt:
						if dbf.Src(s.Call.Fun) == "db.commitWorker" {
							n++
							if loop {
								inLoop = true
							}
						}
					}
					return true
				})
			}
			walk(open.Body, false)
		}
		o.Set("q.singleWorker", "db.go:Open", b(n == 1 && !inLoop), open != nil && n >= 1, "true")
	}

	// ------------------------------------------------------------ Close order
	{
		ci := dbf.Func("DB.closeInternal")
		scw := dw.Func("DB.stopCommitWorkers")
		shape := ci != nil && scw != nil
		std := false
		if shape {
			p1 := posOfCall(dbf, ci.Body, "db.stopCommitWorkers")
			p2 := posOfCall(dbf, ci.Body, "db.lsm.Close")
			var p3 token.Pos
			ast.Inspect(ci.Body, func(x ast.Node) bool {
				if st, ok := x.(*ast.ExprStmt); ok && dbf.Src(st) == "atomic.StoreUint32(&db.isClosed, 1)" {
					p3 = st.Pos()
				}
				return true
			})
			q1 := posOfCall(dw, scw.Body, "db.commitQueue.close")
			q2 := posOfCall(dw, scw.Body, "db.commitWG.Wait")
			std = p1 != token.NoPos && p2 != token.NoPos && p3 != token.NoPos && p1 < p2 && p2 < p3 &&
				q1 != token.NoPos && q2 != token.NoPos && q1 < q2
		}
		o.Set("q.closeOrderStd", "db.go:closeInternal, db_write.go:stopCommitWorkers", b(std), shape, "true")
	}
	{
		cl := lsmf.Func("LSM.Close")
		o.Set("q.closeReleasesThrottle", "lsm/lsm.go:Close", b(cl != nil && lsmf.HasStmt(cl.Body, "lsm.throttleWrites(false)")), cl != nil, "true")
	}

	// ------------------------------------------------------------ Get after Close
	{
		get := lsmf.Func("LSM.Get")
		gcf := dbf.Func("DB.GetCF")
		lbe := dbf.Func("DB.loadBorrowedEntry")
		closedErr := false
		chk := func(f *elib.File, fd *ast.FuncDecl) {
			if fd == nil {
				return
			}
			ast.Inspect(fd.Body, func(x ast.Node) bool {
				if s, ok := x.(*ast.IfStmt); ok {
					c := f.Src(s.Cond)
					if (strings.Contains(c, "closed.Load()") || strings.Contains(c, "IsClosed()") || strings.Contains(c, "isClosed")) &&
						strings.Contains(f.Src(s.Body), "return nil, ") && !strings.Contains(f.Src(s.Body), "return nil, nil") {
						closedErr = true
					}
				}
				return true
			})
		}
		chk(lsmf, get)
		chk(dbf, gcf)
		chk(dbf, lbe)
		v := "notfound"
		if closedErr {
			v = "closedErr"
		}
		o.Set("q.getClosed", "lsm/lsm.go:Get, db.go:GetCF", v, get != nil && gcf != nil, "notfound")
	}

	// ------------------------------------------------------------ Get joins the Closer wait group
	{
		get := lsmf.Func("LSM.Get")
		shape, guarded := false, false
		if get != nil {
			src := lsmf.Src(get.Body)
			if i := strings.Index(src, "lsm.closer.Add(1)"); i >= 0 {
				shape = true
				pre := src[:i]
				guarded = (strings.Contains(pre, "RLock()") || strings.Contains(pre, "Lock()")) && strings.Contains(pre, "closed")
			} else if !strings.Contains(src, "closer.") {
				shape, guarded = true, true // no wait group on the read path any more
			}
		}
		o.Set("q.getGuard", "lsm/lsm.go:Get (closer.Add) vs lsm/lsm.go:Close (closer.Close)", b(guarded), shape, "false")
	}

	// ------------------------------------------------------------ lsm.SetBatch packing loop
	{
		sb := lsmf.Func("LSM.SetBatch")
		a := "lsm/lsm.go:SetBatch"
		fit, fitOK := "", false
		guards := map[string]bool{}
		alone := false
		if sb != nil {
			for _, c := range lsmf.Comparisons(sb.Body) {
				c.X, c.Y = strings.ReplaceAll(c.X, " ", ""), strings.ReplaceAll(c.Y, " ", "")
				switch {
				case c.X == "used+est" && c.Y == "avail":
					fit, fitOK = c.Op, true
				case c.X == "est" && c.Y == "avail-used": // the same test with `used` moved over
					fit, fitOK = c.Op, true
				case strings.HasPrefix(c.X, "atomic.LoadInt64(&mt.walSize)+est") && c.Y == "lsm.option.MemTableSize":
					guards[c.Op] = true
				}
			}
			ast.Inspect(sb.Body, func(x ast.Node) bool {
				if s, ok := x.(*ast.IfStmt); ok {
					c := strings.ReplaceAll(lsmf.Src(s.Cond), " ", "")
					if (strings.Contains(c, "used+est") || strings.Contains(c, "avail-used")) &&
						strings.Contains(c, "i==start") && strings.Contains(c, "walSize)==0") {
						alone = true
					}
				}
				return true
			})
		}
		o.Set("lsm.batchFitOp", a, fit, fitOK, "gt")
		g := ""
		for k := range guards {
			g = k
		}
		o.Set("lsm.rotateGuardOp", a, g, len(guards) == 1, "gt")
		o.Set("lsm.oversizeAlone", a, b(alone), sb != nil, "false")
		// NewLSM gives a non-positive MemTableSize a default
		nl := lsmf.Func("NewLSM")
		defaulted := false
		if nl != nil {
			ast.Inspect(nl.Body, func(x ast.Node) bool {
				if s, ok := x.(*ast.IfStmt); ok {
					c := strings.ReplaceAll(lsmf.Src(s.Cond), " ", "")
					if (c == "opt.MemTableSize<=0" || c == "opt.MemTableSize<1") && strings.Contains(lsmf.Src(s.Body), "opt.MemTableSize =") {
						defaulted = true
					}
				}
				return true
			})
		}
		o.Set("lsm.sizeDefaulted", "lsm/lsm.go:NewLSM", b(defaulted), nl != nil, "false")
	}

	// ------------------------------------------------------------ acquireItem: order of the exit loads
	{
		ai := dw.Func("commitQueue.acquireItem")
		val, shape := "", false
		if ai != nil {
			ast.Inspect(ai.Body, func(x ast.Node) bool {
				be, ok := x.(*ast.BinaryExpr)
				if !ok || be.Op != token.LAND {
					return true
				}
				l, r := dw.Src(be.X), dw.Src(be.Y)
				switch {
				case l == "atomic.LoadInt64(&cq.queueLen) == 0" && r == "atomic.LoadInt64(&cq.inflight) == 0":
					val, shape = "queueLenFirst", true
				case l == "atomic.LoadInt64(&cq.inflight) == 0" && r == "atomic.LoadInt64(&cq.queueLen) == 0":
					val, shape = "inflightFirst", true
				}
				return true
			})
		}
		o.Set("q.exitCheckOrder", "db_write.go:commitQueue.acquireItem", val, shape, "queueLenFirst")
	}

	f := o.Facts
	lean := fmt.Sprintf(`-- GENERATED by /verif/extract/cmd/queue from the current /repo working tree. Do not edit.
import NoKVModel.Queue.AllCfg

namespace NoKV.Generated.Queue
open NoKV NoKV.Queue

def cfg : AllCfg :=
  { q := { tooBigCountOp := .%s, tooBigSizeOp := .%s, batchCountOp := .%s, batchSizeOp := .%s,
           thrLoopChecksClosed := %s, closeReleasesThrottle := %s, singleWorker := %s, fifoPop := %s,
           ackAfterApply := %s, pathOrderStd := %s, closeOrderStd := %s, enqChecksClosed := %s,
           enqFailKeepsRef := %s, getClosed := .%s,
           applyStopsAtFailure := %s, waitErrKeepsRef := %s, getDeletedStd := %s },
    h := { exitOrder := .%s },
    w := { getGuard := %s },
    p := { fitOp := .%s, guardOp := .%s, oversizeAlone := %s, sizeDefaulted := %s },
    k := { releaseOnFail := %s } }

end NoKV.Generated.Queue
`, f["q.tooBigCountOp"], f["q.tooBigSizeOp"], f["q.batchCountOp"], f["q.batchSizeOp"],
		f["q.thrLoopChecksClosed"], f["q.closeReleasesThrottle"], f["q.singleWorker"], f["q.fifoPop"],
		f["q.ackAfterApply"], f["q.pathOrderStd"], f["q.closeOrderStd"], f["q.enqChecksClosed"],
		f["q.enqFailKeepsRef"], f["q.getClosed"],
		f["q.applyStopsAtFailure"], f["q.waitErrKeepsRef"], f["q.getDeletedStd"], f["q.exitCheckOrder"], f["q.getGuard"],
		f["lsm.batchFitOp"], f["lsm.rotateGuardOp"], f["lsm.oversizeAlone"], f["lsm.sizeDefaulted"], f["lsm.compactReleasesReservation"])
	o.Write(*jsonOut, *leanOut, lean)
}

// Fact extractor for the LSM engine (read path ordering, merge iterator, compaction inputs).
package main

import (
	"flag"
	"fmt"
	"go/ast"
	"go/token"
	"os"
	"regexp"
	"strings"

	"verif/extract/elib"
)

// why prints the reason of a shape mismatch on stderr (the JSON keeps the uniform message).
func why(fact, format string, a ...any) {
	fmt.Fprintf(os.Stderr, "x_lsm: %s: %s\n", fact, fmt.Sprintf(format, a...))
}

func body(fd *ast.FuncDecl) ast.Node {
	if fd == nil || fd.Body == nil {
		return nil
	}
	return fd.Body
}

// recv returns the receiver variable name of a method (def when absent).
func recv(fd *ast.FuncDecl, def string) string {
	if fd != nil && fd.Recv != nil && len(fd.Recv.List) == 1 && len(fd.Recv.List[0].Names) == 1 {
		return fd.Recv.List[0].Names[0].Name
	}
	return def
}

func fieldNames(fl *ast.FieldList) (out []string) {
	for _, f := range fl.List {
		for _, n := range f.Names {
			out = append(out, n.Name)
		}
	}
	return out
}

// param returns the name of the i-th parameter, def when absent.
func param(fd *ast.FuncDecl, i int, def string) string {
	if fd != nil {
		if names := fieldNames(fd.Type.Params); i < len(names) {
			return names[i]
		}
	}
	return def
}

func inspect(n ast.Node, fn func(ast.Node) bool) {
	if n != nil {
		ast.Inspect(n, fn)
	}
}

func hasReturn(n ast.Node) bool {
	found := false
	inspect(n, func(x ast.Node) bool {
		_, ok := x.(*ast.ReturnStmt)
		found = found || ok
		return !found
	})
	return found
}

// loopDirs classifies every loop under n, in source order.  For a scan of `slice`:
// "asc" = `range slice` or `for v := 0; v < len(slice); v++`; "desc" = `for v := B; v >= 0; v--`
// with B matching descInit.  Index loops must use needle (with %s = v) in their body.
// "while" = condition-only loop, "other" = range over something else, "?" = anything else.
func loopDirs(f *elib.File, n ast.Node, slice, descInit, needle string) (out []string) {
	inspect(n, func(x ast.Node) bool {
		switch s := x.(type) {
		case *ast.RangeStmt:
			if f.Src(s.X) == slice {
				out = append(out, "asc")
			} else {
				out = append(out, "other")
			}
		case *ast.ForStmt:
			if s.Init == nil && s.Post == nil {
				out = append(out, "while")
				return true
			}
			d := "?"
			if as, ok := s.Init.(*ast.AssignStmt); ok && as.Tok == token.DEFINE && len(as.Lhs) == 1 && len(as.Rhs) == 1 {
				v, init, cond, post := f.Src(as.Lhs[0]), f.Src(as.Rhs[0]), f.Src(s.Cond), f.Src(s.Post)
				uses := strings.Contains(f.Src(s.Body), fmt.Sprintf(needle, v))
				switch {
				case uses && cond == v+" >= 0" && post == v+"--" && regexp.MustCompile("^"+descInit+"$").MatchString(init):
					d = "desc"
				case uses && init == "0" && cond == v+" < len("+slice+")" && post == v+"++":
					d = "asc"
				}
			}
			out = append(out, d)
		}
		return true
	})
	return out
}

// litRet returns the parameter names and the returned expression of `func(ps) bool { return ret }`.
func litRet(f *elib.File, e ast.Expr) ([]string, string) {
	if fl, ok := e.(*ast.FuncLit); ok && len(fl.Body.List) == 1 {
		if r, ok := fl.Body.List[0].(*ast.ReturnStmt); ok && len(r.Results) == 1 {
			return fieldNames(fl.Type.Params), f.Src(r.Results[0])
		}
	}
	return nil, ""
}

// sortCall is one `sort.Slice(first, func(p1, p2 int) bool { return ret })`; p1 == "" when the
// comparator is not a single return.
type sortCall struct{ first, p1, p2, ret string }

func sortSlices(f *elib.File, n ast.Node) (out []sortCall) {
	inspect(n, func(x ast.Node) bool {
		if c, ok := x.(*ast.CallExpr); ok && f.Src(c.Fun) == "sort.Slice" && len(c.Args) == 2 {
			sc := sortCall{first: f.Src(c.Args[0])}
			if ps, ret := litRet(f, c.Args[1]); len(ps) == 2 {
				sc.p1, sc.p2, sc.ret = ps[0], ps[1], ret
			}
			out = append(out, sc)
		}
		return true
	})
	return out
}

// oneSort checks that n holds exactly one sort.Slice over a slice accepted by first, whose
// comparator is format (verbs: slice, p1, slice, p2).
func oneSort(f *elib.File, n ast.Node, first func(string) bool, format string) bool {
	s := sortSlices(f, n)
	return len(s) == 1 && s[0].p1 != "" && first(s[0].first) && s[0].ret == fmt.Sprintf(format, s[0].first, s[0].p1, s[0].first, s[0].p2)
}

// searchLit returns (p, ret) of the unique `name := sort.Search(_, func(p int) bool { return ret })`.
func searchLit(f *elib.File, n ast.Node, name string) (p, ret string, ok bool) {
	cnt := 0
	inspect(n, func(x ast.Node) bool {
		if as, isAs := x.(*ast.AssignStmt); isAs && len(as.Lhs) == 1 && len(as.Rhs) == 1 && f.Src(as.Lhs[0]) == name {
			if c, isCall := as.Rhs[0].(*ast.CallExpr); isCall && f.Src(c.Fun) == "sort.Search" && len(c.Args) == 2 {
				cnt++
				if ps, r := litRet(f, c.Args[1]); len(ps) == 1 {
					p, ret, ok = ps[0], r, true
				}
			}
		}
		return true
	})
	return p, ret, ok && cnt == 1
}

func ifsUnder(n ast.Node) (out []*ast.IfStmt) {
	inspect(n, func(x ast.Node) bool {
		if s, ok := x.(*ast.IfStmt); ok {
			out = append(out, s)
		}
		return true
	})
	return out
}

// site classifies an early-return site: "present" when an if of the exact as-is shape (want)
// returns from its body, "absent" when scope holds no return at all, otherwise "bad".
func site(ifs []*ast.IfStmt, want func(*ast.IfStmt) bool, scope ast.Node) string {
	for _, s := range ifs {
		if want(s) && hasReturn(s.Body) {
			return "present"
		}
	}
	if scope != nil && !hasReturn(scope) {
		return "absent"
	}
	return "bad"
}

func main() {
	repo := flag.String("repo", "/repo", "repository root")
	jsonOut := flag.String("json", "", "facts json")
	leanOut := flag.String("lean", "", "generated Lean file")
	flag.Parse()
	o := elib.New("lsm", *repo)
	lv, lf, tb, ig := o.Load("lsm/levels.go"), o.Load("lsm/lsm.go"), o.Load("lsm/table.go"), o.Load("lsm/ingest.go")
	it, ex, pb := o.Load("lsm/iterator.go"), o.Load("lsm/executor.go"), o.Load("lsm/compact/plan_builder.go")
	db, tx := o.Load("db.go"), o.Load("txn.go")

	// ---------------------------------------------------------------- 1. lsm.l0SearchDir
	{
		const name, anchor = "lsm.l0SearchDir", "lsm/levels.go:searchL0SST"
		fd, sd := lv.Func("levelHandler.searchL0SST"), lv.Func("levelHandler.sortTablesLocked")
		r, sr := recv(fd, "lh"), recv(sd, "lh")
		tables := r + ".tables"
		loops := loopDirs(lv, body(fd), tables, regexp.QuoteMeta("len("+tables+") - 1"), tables+"[%s]")
		searches := len(loops) == 1 && strings.Contains(lv.Src(body(fd)), ".Search(key, &version)")
		sortDir := ""
		for _, s := range ifsUnder(body(sd)) {
			if lv.Src(s.Cond) != sr+".levelNum == 0" {
				continue
			}
			sortDir = "?"
			if scs := sortSlices(lv, s.Body); len(scs) == 1 && scs[0].first == sr+".tables" && scs[0].p1 != "" {
				a, b := scs[0].first+"["+scs[0].p1+"].fid", scs[0].first+"["+scs[0].p2+"].fid"
				switch scs[0].ret {
				case a + " < " + b, b + " > " + a:
					sortDir = "asc"
				case a + " > " + b, b + " < " + a:
					sortDir = "desc"
				}
			}
		}
		val, ok := "newestFirst", searches && (loops[0] == "asc" || loops[0] == "desc") && (sortDir == "asc" || sortDir == "desc")
		if ok && loops[0] == sortDir {
			val = "oldestFirst"
		}
		if !ok {
			why(name, "loops=%v sort=%q", loops, sortDir)
		}
		o.Set(name, anchor, val, ok, "oldestFirst")
	}

	// ---------------------------------------------------------------- 2. lsm.tieRule
	{
		const name, anchor = "lsm.tieRule", "lsm/table.go:Search"
		fd := tb.Func("table.Search")
		left := "*" + param(fd, 1, "maxVs")
		var ops []string
		mentions := 0
		for _, c := range tb.Comparisons(body(fd)) {
			if c.X == left || c.Y == left {
				mentions++
			}
			if c.X == left && c.Y == "version" {
				ops = append(ops, c.Op)
			}
		}
		ok := len(ops) == 1 && mentions == 1 && (ops[0] == "lt" || ops[0] == "le")
		if !ok {
			why(name, "comparisons of %s with version: %v (of %d mentioning it)", left, ops, mentions)
		}
		o.Set(name, anchor, strings.Join(ops, ","), ok, "lt")
	}

	// ---------------------------------------------------------------- 2b. lsm.zeroVersion
	// `lost`: the only acceptance test of a table hit is `*maxVs < version` (an if statement whose
	// whole condition is that comparison) and the callers start from a zero uint64, so a stored
	// version 0 can never be returned from an SST.  No shape yielding `found` exists today.
	{
		const name, anchor = "lsm.zeroVersion", "lsm/table.go:Search"
		fd := tb.Func("table.Search")
		want := "*" + param(fd, 1, "maxVs") + " < version"
		hit := false
		for _, st := range ifsUnder(body(fd)) {
			if tb.Src(st.Cond) == want {
				hit = true
			}
		}
		l0 := lv.Src(body(lv.Func("levelHandler.searchL0SST")))
		lg := lv.Src(body(lv.Func("levelHandler.Get")))
		ok := hit && strings.Contains(l0, "version uint64") && strings.Contains(l0, "table.Search(key, &version)") &&
			strings.Contains(lg, "maxVer uint64")
		if !ok {
			why(name, "acceptance `%s` as a whole if-condition: %v; zero-initialised version variables in searchL0SST / levelHandler.Get", want, hit)
		}
		o.Set(name, anchor, "lost", ok, "lost")
	}

	// ---------------------------------------------------------------- 3. lsm.crossPick
	{
		const name, anchor = "lsm.crossPick", "lsm/lsm.go:Get"
		sites := []string{"bad", "bad", "bad"} // memtables, level 0, levels 1..n
		inspect(body(lf.Func("LSM.Get")), func(x ast.Node) bool {
			if rs, ok := x.(*ast.RangeStmt); ok && lf.Src(rs.X) == "tables" {
				sites[0] = site(ifsUnder(rs.Body), func(s *ast.IfStmt) bool {
					return s.Init == nil && lf.Src(s.Cond) == "isMemHit(entry)"
				}, rs.Body)
			}
			return true
		})
		if fd := lv.Func("levelManager.Get"); fd != nil {
			l0get := recv(fd, "lm") + ".levels[0].Get(" + param(fd, 0, "key") + ")"
			var top []*ast.IfStmt // top-level ifs that look up level 0
			plain := false        // level 0 looked up by a plain (non-if, non-return) statement
			for _, st := range fd.Body.List {
				switch s := st.(type) {
				case *ast.IfStmt:
					if strings.Contains(lv.Src(s), l0get) {
						top = append(top, s)
					}
				case *ast.ForStmt:
					if lv.Src(s.Init) == "level := 1" {
						sites[2] = site(ifsUnder(s.Body), func(s *ast.IfStmt) bool {
							init := lv.Src(s.Init)
							return strings.HasPrefix(init, "entry, err = ") && strings.HasSuffix(init, ".Get("+param(fd, 0, "key")+")") &&
								!strings.Contains(init, "levels[0]") && lv.Src(s.Cond) == "entry != nil"
						}, s.Body)
					}
				case *ast.ReturnStmt:
				default:
					plain = plain || strings.Contains(lv.Src(st), l0get)
				}
			}
			sites[1] = site(top, func(s *ast.IfStmt) bool {
				return lv.Src(s.Init) == "entry, err = "+l0get && lv.Src(s.Cond) == "entry != nil"
			}, nil)
			if len(top) == 0 && plain {
				sites[1] = "absent"
			}
		}
		switch j := strings.Join(sites, ","); j {
		case "present,present,present":
			o.Set(name, anchor, "firstHit", true, "")
		case "absent,absent,absent":
			o.Set(name, anchor, "maxVersion", true, "")
		default:
			why(name, "early returns (memtables, level0, levelN) = %s", j)
			o.Set(name, anchor, "", false, "firstHit")
		}
	}

	// ---------------------------------------------------------------- 4. lsm.levelOrder
	{
		const name, anchor = "lsm.levelOrder", "lsm/levels.go:levelHandler.Get"
		fd := lv.Func("levelHandler.Get")
		ingest, mainFn := recv(fd, "lh")+".searchIngestSST", recv(fd, "lh")+".searchLNSST"
		pos, arg := map[string][]token.Pos{}, map[string]string{}
		inspect(body(fd), func(x ast.Node) bool {
			if c, ok := x.(*ast.CallExpr); ok && (lv.Src(c.Fun) == ingest || lv.Src(c.Fun) == mainFn) {
				fn := lv.Src(c.Fun)
				pos[fn] = append(pos[fn], c.Pos())
				if len(c.Args) == 2 {
					if u, ok := c.Args[1].(*ast.UnaryExpr); ok && u.Op == token.AND {
						if id, ok := u.X.(*ast.Ident); ok {
							arg[fn] = id.Name
						}
					}
				}
			}
			return true
		})
		ok := len(pos[ingest]) == 1 && len(pos[mainFn]) == 1 && arg[ingest] != "" && arg[ingest] == arg[mainFn]
		val := "mainFirst"
		if ok && pos[ingest][0] < pos[mainFn][0] {
			val = "ingestFirst"
		}
		if !ok {
			why(name, "ingest calls %d, main calls %d, version args %v", len(pos[ingest]), len(pos[mainFn]), arg)
		}
		o.Set(name, anchor, val, ok, "ingestFirst")
	}

	// ---------------------------------------------------------------- 5. lsm.ingestOrder
	{
		const name, anchor = "lsm.ingestOrder", "lsm/ingest.go:rebuildRanges"
		var bad []string
		rr := ig.Func("ingestShard.rebuildRanges")
		if !oneSort(ig, body(rr), func(s string) bool { return s == recv(rr, "sh")+".ranges" }, "utils.CompareKeys(%s[%s].min, %s[%s].min) < 0") {
			bad = append(bad, "rebuildRanges comparator")
		}
		if !oneSort(ig, body(ig.Func("ingestBuffer.sortShards")), func(s string) bool { return strings.HasSuffix(s, ".tables") },
			"utils.CompareKeys(%s[%s].MinKey(), %s[%s].MinKey()) < 0") {
			bad = append(bad, "sortShards comparator")
		}
		// search: range over the shards, the binary search `for lo < hi`, then the descending scan
		se := body(ig.Func("ingestBuffer.search"))
		scans := strings.Join(loopDirs(ig, se, "ranges", `\w+ - 1`, "ranges[%s]"), ",")
		if scans != "other,while,desc" || !strings.Contains(ig.Src(se), ".tbl.Search(key, maxVersion)") {
			bad = append(bad, "search loops "+scans)
		}
		if len(bad) > 0 {
			why(name, "%s", strings.Join(bad, "; "))
		}
		o.Set(name, anchor, "minKeyDesc", len(bad) == 0, "minKeyDesc")
	}

	// ---------------------------------------------------------------- 6. lsm.immOrder
	{
		const name, anchor = "lsm.immOrder", "lsm/lsm.go:GetMemTables"
		fd := lf.Func("LSM.GetMemTables")
		r := recv(fd, "lsm")
		val, activeFirst, loops := "", false, 0
		var stmts []ast.Stmt
		if fd != nil {
			stmts = fd.Body.List
		}
		for _, st := range stmts {
			if loops == 0 && lf.Src(st) == fmt.Sprintf("tables = append(tables, %s.memTable)", r) {
				activeFirst = true
			}
			if _, isFor := st.(*ast.ForStmt); isFor {
				loops += 100 // only the range form is understood
			}
			rs, isRange := st.(*ast.RangeStmt)
			if !isRange {
				continue
			}
			loops++
			if lf.Src(rs.X) != r+".immutables" || rs.Key == nil || rs.Value != nil {
				continue
			}
			i := lf.Src(rs.Key)
			var idx []ast.Expr // index expressions of `append(tables, lsm.immutables[IDX])`
			inspect(rs.Body, func(x ast.Node) bool {
				if c, isCall := x.(*ast.CallExpr); isCall && lf.Src(c.Fun) == "append" && len(c.Args) == 2 && lf.Src(c.Args[0]) == "tables" {
					if ie, isIdx := c.Args[1].(*ast.IndexExpr); isIdx && lf.Src(ie.X) == r+".immutables" {
						idx = append(idx, ie.Index)
					} else {
						idx = append(idx, nil)
					}
				}
				return true
			})
			if len(idx) != 1 || idx[0] == nil {
				continue
			}
			if be, isBin := idx[0].(*ast.BinaryExpr); isBin && be.Op == token.SUB && lf.Src(be.Y) == i {
				if id, isId := be.X.(*ast.Ident); isId && lf.HasStmt(fd.Body, fmt.Sprintf("%s := len(%s.immutables) - 1", id.Name, r)) {
					val = "newestFirst"
				}
			} else if lf.Src(idx[0]) == i {
				val = "oldestFirst"
			}
		}
		ok := val != "" && activeFirst && loops == 1
		if !ok {
			why(name, "value=%q activeFirst=%v loops=%d", val, activeFirst, loops)
		}
		o.Set(name, anchor, val, ok, "newestFirst")
	}

	// ---------------------------------------------------------------- 7. merge.eqKeeps
	{
		const name, anchor = "merge.eqKeeps", "lsm/iterator.go:MergeIterator.fix"
		fd := it.Func("MergeIterator.fix")
		r := recv(fd, "mi")
		val := ""
		if cc := it.CaseClauses(body(fd), "")["cmp == 0"]; cc != nil {
			for _, st := range cc.Body {
				es, isExpr := st.(*ast.ExprStmt)
				if !isExpr {
					continue
				}
				switch it.Src(es.X) {
				case r + ".right.next()":
					val = "left"
				case r + ".left.next()":
					val = "right"
				}
				break // only the first call statement decides
			}
		}
		nm := it.Func("NewMergeIterator")
		two := it.CaseClauses(body(nm), "len("+param(nm, 0, "iters")+")")["2"]
		wired := two != nil && it.HasStmt(two, "mi.left.setIterator(iters[0])") && it.HasStmt(two, "mi.right.setIterator(iters[1])")
		if val == "" || !wired {
			why(name, "fix case value=%q, NewMergeIterator left/right wiring=%v", val, wired)
		}
		o.Set(name, anchor, val, val != "" && wired, "left")
	}

	// ---------------------------------------------------------------- 8. lsm.compactTopOrder
	{
		const name, anchor = "lsm.compactTopOrder", "lsm/executor.go:compactBuildTables"
		fd := ex.Func("levelManager.compactBuildTables")
		var lit *ast.FuncLit
		inspect(body(fd), func(x ast.Node) bool {
			if as, ok := x.(*ast.AssignStmt); ok && len(as.Lhs) == 1 && len(as.Rhs) == 1 && ex.Src(as.Lhs[0]) == "newIterator" {
				lit, _ = as.Rhs[0].(*ast.FuncLit)
			}
			return true
		})
		shape := lit != nil && ex.HasStmt(fd.Body, "topTables := cd.top") && ex.HasStmt(fd.Body, "botTables := cd.bot")
		fns := map[string]bool{} // builders X in `append(iters, X(topTables, iterOpt)...)`
		if lit != nil {
			inspect(lit.Body, func(x ast.Node) bool {
				c, ok := x.(*ast.CallExpr)
				if !ok || ex.Src(c.Fun) != "append" || !strings.Contains(ex.Src(c), "topTables") {
					return true
				}
				fn := "?"
				if len(c.Args) == 2 && c.Ellipsis.IsValid() && ex.Src(c.Args[0]) == "iters" {
					if in, isCall := c.Args[1].(*ast.CallExpr); isCall && len(in.Args) == 2 && ex.Src(in.Args[0]) == "topTables" && ex.Src(in.Args[1]) == "iterOpt" {
						fn = ex.Src(in.Fun)
					}
				}
				fns[fn] = true
				return true
			})
			n := len(lit.Body.List)
			shape = shape && n > 0 && ex.Src(lit.Body.List[n-1]) == "return append(iters, NewConcatIterator(botTables, iterOpt))"
		}
		shape = shape && len(fns) == 1 && fns["iteratorsReversed"]
		ir := ex.Func("iteratorsReversed")
		th := param(ir, 0, "th")
		dirs := loopDirs(ex, body(ir), th, regexp.QuoteMeta("len("+th+") - 1"), th+"[%s].NewIterator(")
		val := map[string]string{"asc": "forward", "desc": "reversed"}[strings.Join(dirs, ",")]
		shape = shape && val != ""
		if !shape {
			why(name, "top iterator builders=%v iteratorsReversed loops=%v", fns, dirs)
		}
		o.Set(name, anchor, val, shape, "reversed")
	}

	// ---------------------------------------------------------------- 9. lsm.overlapRightKey
	{
		const name, anchor = "lsm.overlapRightKey", "lsm/compact/plan_builder.go:OverlappingTables"
		fd := pb.Func("OverlappingTables")
		tbls, kr := param(fd, 0, "tables"), param(fd, 1, "kr")
		lp, lret, lok := searchLit(pb, body(fd), "left")
		rp, rret, rok := searchLit(pb, body(fd), "right")
		ok := lok && rok && pb.HasStmt(body(fd), "return left, right") &&
			lret == fmt.Sprintf("utils.CompareKeys(%s.Left, %s[%s].MaxKey) <= 0", kr, tbls, lp)
		val := ""
		switch rret {
		case fmt.Sprintf("utils.CompareKeys(%s.Right, %s[%s].MaxKey) < 0", kr, tbls, rp):
			val = "maxKey"
		case fmt.Sprintf("utils.CompareKeys(%s.Right, %s[%s].MinKey) < 0", kr, tbls, rp):
			val = "minKey"
		default:
			ok = false
		}
		if !ok {
			why(name, "left=%q right=%q", lret, rret)
		}
		o.Set(name, anchor, val, ok, "maxKey")
	}

	// ---------------------------------------------------------------- 10. db.plainKeyLimit
	{
		const name, anchor = "db.plainKeyLimit", "db.go:setEntry"
		isLimit := func(x ast.Node) bool { // len(key) > maxKeySize | len(<x>.Key) > maxKeySize
			be, ok := x.(*ast.BinaryExpr)
			if !ok || be.Op != token.GTR || db.Src(be.Y) != "maxKeySize" {
				return false
			}
			c, ok := be.X.(*ast.CallExpr)
			return ok && db.Src(c.Fun) == "len" && len(c.Args) == 1 && (db.Src(c.Args[0]) == "key" || strings.HasSuffix(db.Src(c.Args[0]), ".Key"))
		}
		status := func(fd *ast.FuncDecl) string { // "yes" | "no" | "bad"
			if fd == nil {
				return "bad"
			}
			cmps, guarded := 0, 0 // comparisons against maxKeySize; those of the expected guarded shape
			inspect(fd.Body, func(x ast.Node) bool {
				if be, ok := x.(*ast.BinaryExpr); ok && (db.Src(be.X) == "maxKeySize" || db.Src(be.Y) == "maxKeySize") {
					cmps++
				}
				if s, ok := x.(*ast.IfStmt); ok {
					returns := false
					for _, st := range s.Body.List {
						_, isRet := st.(*ast.ReturnStmt)
						returns = returns || isRet
					}
					inspect(s.Cond, func(y ast.Node) bool {
						if isLimit(y) && returns {
							guarded++
						}
						return true
					})
				}
				return true
			})
			switch {
			case guarded > 0 && guarded == cmps:
				return "yes"
			case cmps == 0:
				return "no"
			}
			return "bad"
		}
		a, b := status(db.Func("DB.setEntry")), status(db.Func("DB.SetVersionedEntry"))
		switch {
		case a == "yes" && b == "yes":
			o.Set(name, anchor, "true", true, "")
		case a == "no" && b == "no":
			o.Set(name, anchor, "false", true, "")
		default:
			why(name, "setEntry=%s SetVersionedEntry=%s", a, b)
			o.Set(name, anchor, "", false, "false")
		}
		lit := ""
		inspect(tx.AST, func(x ast.Node) bool {
			if vs, ok := x.(*ast.ValueSpec); ok && len(vs.Names) == 1 && vs.Names[0].Name == "maxKeySize" && len(vs.Values) == 1 {
				if bl, ok := vs.Values[0].(*ast.BasicLit); ok && bl.Kind == token.INT {
					lit = bl.Value
				}
			}
			return true
		})
		o.Set("db.maxKeySize", "txn.go:maxKeySize", lit, lit != "", "65000")
	}

	// ---------------------------------------------------------------- 11. lsm.ingestScanStop
	// The model's ingest lookup visits EVERY table whose range contains the key.  That is what the
	// code does only while (a) rebuildRanges keeps prefixMax[i] = running maximum of the max keys
	// of ranges[0..i] and (b) search stops the descending scan on prefixMax and merely skips a
	// single range whose max is below the key.  Only this shape is understood.
	{
		const name, anchor = "lsm.ingestScanStop", "lsm/ingest.go:search"
		var bad []string
		rr := ig.Func("ingestShard.rebuildRanges")
		sh := recv(rr, "sh")
		rsrc := ig.Src(body(rr))
		want := "var max []byte for _, rng := range " + sh + ".ranges { if max == nil || utils.CompareUserKeys(rng.max, max) > 0 { max = rng.max } " +
			sh + ".prefixMax = append(" + sh + ".prefixMax, max) }"
		if !strings.Contains(rsrc, want) || strings.Count(rsrc, ".prefixMax = append(") != 1 {
			bad = append(bad, "rebuildRanges running maximum")
		}
		ssrc := ig.Src(body(ig.Func("ingestBuffer.search")))
		if !strings.Contains(ssrc, "if i < len(sh.prefixMax) && utils.CompareUserKeys(key, sh.prefixMax[i]) > 0 { break }") {
			bad = append(bad, "search: break on prefixMax")
		}
		if !strings.Contains(ssrc, "if utils.CompareUserKeys(key, rng.max) > 0 { continue }") {
			bad = append(bad, "search: continue on a range whose max is below the key")
		}
		if strings.Count(ssrc, "break") != 1 {
			bad = append(bad, "search: number of break statements")
		}
		if len(bad) > 0 {
			why(name, "%s", strings.Join(bad, "; "))
		}
		o.Set(name, anchor, "prefixMax", len(bad) == 0, "prefixMax")
	}

	// ---------------------------------------------------------------- 12. lsm.compactSplitRule
	// All versions of a user key must end up in ONE output table (getTableForKey searches a single
	// main table): subcompact may close a table only where the user key changes.
	{
		const name, anchor = "lsm.compactSplitRule", "lsm/executor.go:subcompact"
		ex := o.Load("lsm/executor.go")
		sc := body(ex.Func("levelManager.subcompact"))
		inside := false
		for _, st := range ifsUnder(sc) {
			if ex.Src(st.Cond) == "!kv.SameKey(key, lastKey)" && strings.Contains(ex.Src(st.Body), "if builder.ReachedCapacity() {") {
				inside = true
			}
		}
		n := strings.Count(ex.Src(sc), "ReachedCapacity()")
		ok := inside && n == 1
		if !ok {
			why(name, "ReachedCapacity() inside the !SameKey block: %v, occurrences: %d", inside, n)
		}
		o.Set(name, anchor, "userKeyBoundary", ok, "userKeyBoundary")
	}

	f := o.Facts
	lean := fmt.Sprintf(`-- GENERATED by /verif/extract/cmd/lsm from the current /repo working tree. Do not edit.
import NoKVModel.Lsm.Model

namespace NoKV.Generated.Lsm

def cfg : NoKV.Lsm.Cfg :=
  { l0SearchDir := .%s, tieRule := .%s, crossPick := .%s, levelOrder := .%s,
    ingestOrder := .%s, immOrder := .%s, mergeKeeps := .%s,
    compactTopOrder := .%s, overlapRightKey := .%s, plainKeyLimit := %s,
    zeroVersionFound := %s }

end NoKV.Generated.Lsm
`,
		f["lsm.l0SearchDir"], f["lsm.tieRule"], f["lsm.crossPick"], f["lsm.levelOrder"],
		f["lsm.ingestOrder"], f["lsm.immOrder"], f["merge.eqKeeps"],
		f["lsm.compactTopOrder"], f["lsm.overlapRightKey"], f["db.plainKeyLimit"],
		map[string]string{"found": "true", "lost": "false"}[f["lsm.zeroVersion"]])
	o.Write(*jsonOut, *leanOut, lean)
}

// Fact extractor for the WAL engine (C13, C14): wal/record.go, wal/manager.go,
// kv/entry_codec.go, kv/const.go, vlog/io.go.
package main

import (
	"flag"
	"fmt"
	"go/ast"
	"go/token"
	"strconv"
	"strings"

	"verif/extract/elib"
)

func body(fd *ast.FuncDecl) ast.Node {
	if fd == nil || fd.Body == nil {
		return nil
	}
	return fd.Body
}

// lastResult returns the source of the last result of the first return statement under n.
func lastResult(f *elib.File, n ast.Node) string {
	out := ""
	if n == nil {
		return out
	}
	ast.Inspect(n, func(x ast.Node) bool {
		if out != "" {
			return false
		}
		if r, ok := x.(*ast.ReturnStmt); ok && len(r.Results) > 0 {
			out = f.Src(r.Results[len(r.Results)-1])
			return false
		}
		return true
	})
	return out
}

// ifs lists every if statement under n (pre-order).
func ifs(n ast.Node) []*ast.IfStmt {
	var out []*ast.IfStmt
	if n == nil {
		return out
	}
	ast.Inspect(n, func(x ast.Node) bool {
		if s, ok := x.(*ast.IfStmt); ok {
			out = append(out, s)
		}
		return true
	})
	return out
}

// caseReturn: in the (only) `switch err := <tag>; err` of fn, the source of the return statement
// of the clause whose label list contains `label`.
func caseReturn(f *elib.File, fn ast.Node, label string) (string, bool) {
	res, found := "", false
	if fn == nil {
		return res, false
	}
	ast.Inspect(fn, func(x ast.Node) bool {
		sw, ok := x.(*ast.SwitchStmt)
		if !ok {
			return true
		}
		for _, st := range sw.Body.List {
			cc := st.(*ast.CaseClause)
			for _, l := range cc.List {
				if f.Src(l) == label && len(cc.Body) == 1 {
					if r, ok := cc.Body[0].(*ast.ReturnStmt); ok {
						res, found = f.Src(r), true
					}
				}
			}
		}
		return true
	})
	return res, found
}

func constInt(f *elib.File, name string) (int64, bool) {
	for _, d := range f.AST.Decls {
		gd, ok := d.(*ast.GenDecl)
		if !ok || gd.Tok != token.CONST {
			continue
		}
		for _, sp := range gd.Specs {
			vs := sp.(*ast.ValueSpec)
			for i, n := range vs.Names {
				if n.Name != name || i >= len(vs.Values) {
					continue
				}
				return evalInt(vs.Values[i])
			}
		}
	}
	return 0, false
}

func evalInt(e ast.Expr) (int64, bool) {
	switch v := e.(type) {
	case *ast.BasicLit:
		n, err := strconv.ParseInt(v.Value, 0, 64)
		return n, err == nil
	case *ast.ParenExpr:
		return evalInt(v.X)
	case *ast.BinaryExpr:
		a, ok1 := evalInt(v.X)
		b, ok2 := evalInt(v.Y)
		if !ok1 || !ok2 {
			return 0, false
		}
		switch v.Op {
		case token.SHL:
			return a << uint(b), true
		case token.MUL:
			return a * b, true
		case token.ADD:
			return a + b, true
		}
	}
	return 0, false
}

func main() {
	repo := flag.String("repo", "/repo", "repository root")
	jsonOut := flag.String("json", "", "facts json")
	leanOut := flag.String("lean", "", "generated Lean file")
	flag.Parse()
	o := elib.New("wal", *repo)

	// ---------------------------------------------------------------- wal/record.go
	rec := o.Load("wal/record.go")
	dec := rec.Func("DecodeRecord")
	enc := rec.Func("EncodeRecord")
	{
		// wal.shortHeader: inside `if _, err := io.ReadFull(r, header[:]); err != nil { … }` the
		// branch whose condition mentions io.ErrUnexpectedEOF returns io.EOF ("eof", pinned tree) or
		// utils.ErrPartialRecord ("partial", repaired); a clean io.EOF must still return io.EOF.
		val, ok := "", false
		for _, s := range ifs(body(dec)) {
			if s.Init == nil || !strings.Contains(rec.Src(s.Init), "io.ReadFull(r, header[:])") {
				continue
			}
			var unexp, clean string
			for _, in := range ifs(s.Body) {
				c := rec.Src(in.Cond)
				r := lastResult(rec, in.Body)
				if strings.Contains(c, "io.ErrUnexpectedEOF") {
					unexp = r
				}
				if strings.Contains(c, "errors.Is(err, io.EOF)") && !strings.HasPrefix(c, "errors.Is(err, io.ErrUnexpectedEOF)") {
					clean = r
				}
			}
			if clean == "io.EOF" && unexp == "io.EOF" {
				val, ok = "eof", true
			} else if clean == "io.EOF" && unexp == "utils.ErrPartialRecord" {
				val, ok = "partial", true
			}
			break
		}
		o.Set("wal.shortHeader", "wal/record.go:DecodeRecord", val, ok, "partial")
	}
	{
		ok := false
		for _, s := range ifs(body(dec)) {
			if rec.Src(s.Cond) == "length == 0" && lastResult(rec, s.Body) == "utils.ErrEmptyRecord" {
				ok = true
			}
		}
		o.Set("wal.emptyRecord", "wal/record.go:DecodeRecord", "rejected", ok, "rejected")
	}
	{
		// the two body/CRC reads report a short read as ErrPartialRecord
		n := 0
		for _, s := range ifs(body(dec)) {
			if s.Init == nil {
				continue
			}
			in := rec.Src(s.Init)
			if strings.Contains(in, "io.ReadFull(r, buf)") || strings.Contains(in, "io.ReadFull(r, crcBuf[:])") {
				for _, x := range ifs(s.Body) {
					c := rec.Src(x.Cond)
					if strings.Contains(c, "io.EOF") && strings.Contains(c, "io.ErrUnexpectedEOF") && lastResult(rec, x.Body) == "utils.ErrPartialRecord" {
						n++
					}
				}
			}
		}
		o.Set("wal.shortBody", "wal/record.go:DecodeRecord", "partial", n == 2, "partial")
	}
	{
		present, shape := false, dec != nil
		for _, s := range ifs(body(dec)) {
			c := rec.Src(s.Cond)
			if c == "expected != sum" || c == "sum != expected" {
				if lastResult(rec, s.Body) == "kv.ErrBadChecksum" {
					present = true
				} else {
					shape = false
				}
			} else if strings.Contains(c, "expected") && strings.Contains(c, "sum") {
				shape = false // some other comparison of the two checksums
			}
		}
		o.Set("wal.crcChecked", "wal/record.go:DecodeRecord", fmt.Sprint(present), shape, "true")
	}
	{
		// decode hashes the whole length-sized buffer (type+payload); encode hashes typeBuf then payload;
		// both sides read/write big-endian; the length field is len(payload)+1; record type = buf[0]
		d := body(dec)
		e := body(enc)
		okDec := rec.HasStmt(d, "buf := make([]byte, length)") && rec.HasCall(d, "hasher.Write") &&
			strings.Contains(rec.Src(d), "hasher.Write(buf)") && rec.HasStmt(d, "recType := RecordType(buf[0])") &&
			rec.HasStmt(d, "payload := buf[1:]") && rec.HasStmt(d, "sum := hasher.Sum32()") &&
			rec.HasStmt(d, "expected := binary.BigEndian.Uint32(crcBuf[:])") && rec.HasStmt(d, "length := binary.BigEndian.Uint32(header[:])")
		se := rec.Src(e)
		i1 := strings.Index(se, "hasher.Write(typeBuf[:])")
		i2 := strings.Index(se, "hasher.Write(payload)")
		okEnc := i1 >= 0 && i2 > i1 && rec.HasStmt(e, "typeBuf := [1]byte{typeByte}") && rec.HasStmt(e, "typeByte := byte(recType)") &&
			rec.HasStmt(e, "binary.BigEndian.PutUint32(crcBuf[:], hasher.Sum32())") &&
			rec.HasStmt(e, "binary.BigEndian.PutUint32(hdr[:], length)") &&
			rec.HasStmt(e, "total := len(payload) + 1") && rec.HasStmt(e, "length := uint32(total)") &&
			rec.HasStmt(e, "return int(length) + 8, nil")
		// write order: header, type, payload, crc
		w := []int{strings.Index(se, "w.Write(hdr[:])"), strings.Index(se, "w.Write([]byte{typeByte})"),
			strings.Index(se, "w.Write(payload)"), strings.Index(se, "w.Write(crcBuf[:])")}
		okOrder := w[0] >= 0 && w[0] < w[1] && w[1] < w[2] && w[2] < w[3]
		o.Set("wal.framing", "wal/record.go:EncodeRecord/DecodeRecord", "len4be|type|payload|crc4be(type+payload)", okDec && okEnc && okOrder, "len4be|type|payload|crc4be(type+payload)")
	}

	// ---------------------------------------------------------------- wal/manager.go
	mg := o.Load("wal/manager.go")
	vs := mg.Func("verifySegment")
	rf := mg.Func("Manager.replayFile")
	{
		r, ok := caseReturn(mg, body(vs), "utils.ErrPartialRecord")
		switch {
		case ok && r == "return f.Truncate(offset)":
			o.Set("wal.verifyOnPartial", "wal/manager.go:verifySegment", "truncate", true, "")
		case ok && r == "return nil":
			o.Set("wal.verifyOnPartial", "wal/manager.go:verifySegment", "ignore", true, "")
		default:
			o.Set("wal.verifyOnPartial", "wal/manager.go:verifySegment", "", false, "truncate")
		}
		r1, ok1 := caseReturn(mg, body(vs), "io.EOF")
		r2, ok2 := caseReturn(mg, body(vs), "kv.ErrBadChecksum")
		o.Set("wal.verifyCases", "wal/manager.go:verifySegment", "eof:nil,badcrc:error",
			ok1 && r1 == "return nil" && ok2 && strings.HasPrefix(r2, "return fmt.Errorf("), "eof:nil,badcrc:error")
		step, okStep := "", false
		if mg.HasStmt(body(vs), "offset += int64(reIter.Length()) + 8") {
			step, okStep = "8", true
		} else {
			ast.Inspect(body(vs), func(x ast.Node) bool {
				if a, ok := x.(*ast.AssignStmt); ok && a.Tok == token.ADD_ASSIGN && mg.Src(a.Lhs[0]) == "offset" {
					if be, ok := a.Rhs[0].(*ast.BinaryExpr); ok && be.Op == token.ADD && mg.Src(be.X) == "int64(reIter.Length())" {
						if n, ok := evalInt(be.Y); ok {
							step, okStep = fmt.Sprint(n), true
						}
					}
				}
				return true
			})
		}
		o.Set("wal.verifyStep", "wal/manager.go:verifySegment", step, okStep, "8")
	}
	{
		r, ok := caseReturn(mg, body(rf), "utils.ErrPartialRecord")
		switch {
		case ok && r == "return nil":
			o.Set("wal.replayOnPartial", "wal/manager.go:replayFile", "stop", true, "")
		case ok:
			o.Set("wal.replayOnPartial", "wal/manager.go:replayFile", "error", true, "")
		default:
			o.Set("wal.replayOnPartial", "wal/manager.go:replayFile", "", false, "stop")
		}
		r1, ok1 := caseReturn(mg, body(rf), "io.EOF")
		r2, ok2 := caseReturn(mg, body(rf), "kv.ErrBadChecksum")
		o.Set("wal.replayCases", "wal/manager.go:replayFile", "eof:nil,badcrc:error",
			ok1 && r1 == "return nil" && ok2 && strings.HasPrefix(r2, "return fmt.Errorf(") &&
				mg.HasStmt(body(rf), "offset += int64(length) + 8"), "eof:nil,badcrc:error")
	}
	{
		ec := mg.Func("Manager.ensureCapacity")
		op, ok := mg.FindCmp(body(ec), "m.activeSize + need", "m.segmentSize")
		ok = ok && mg.HasStmt(body(ec), "return m.rotateLocked()")
		ar := mg.Func("Manager.AppendRecords")
		ok = ok && mg.HasStmt(body(ar), "totalRecordSize := len(payload) + 1 + 4 + 4") &&
			mg.HasStmt(body(ar), "m.activeSize += int64(n)") && mg.HasStmt(body(ar), "offset := m.activeSize")
		o.Set("wal.capacityOp", "wal/manager.go:ensureCapacity", op, ok, "le")
	}
	{
		mn, ok1 := constInt(mg, "minSegmentSize")
		df, ok2 := constInt(mg, "defaultSegmentSize")
		op := mg.Func("Open")
		okc := mg.HasStmt(body(op), "segSize = minSegmentSize") && mg.HasStmt(body(op), "segSize = defaultSegmentSize")
		o.Set("wal.segSizes", "wal/manager.go:Open", fmt.Sprintf("%d/%d", mn, df), ok1 && ok2 && okc, "65536/67108864")
	}
	{
		ol := mg.Func("Manager.openLatestSegment")
		rl := mg.Func("Manager.rotateLocked")
		sw := mg.Func("Manager.switchSegmentLocked")
		ok := mg.HasStmt(body(ol), "return m.switchSegmentLocked(1, true)") &&
			mg.HasStmt(body(ol), "return m.switchSegmentLocked(uint32(last), false)") &&
			mg.HasStmt(body(ol), "last := ids[len(ids)-1]") && mg.HasStmt(body(ol), "sort.Ints(ids)") &&
			mg.HasStmt(body(rl), "nextID := m.activeID + 1") && mg.HasStmt(body(rl), "return m.switchSegmentLocked(nextID, true)") &&
			mg.HasStmt(body(sw), "size = info.Size()") && strings.Contains(mg.Src(body(sw)), "f.Seek(0, io.SeekEnd)") &&
			mg.HasStmt(body(sw), "m.activeSize = size")
		o.Set("wal.openRotate", "wal/manager.go:openLatestSegment/rotateLocked", "resume-last/next-id", ok, "resume-last/next-id")
	}

	// ---------------------------------------------------------------- buffering / flush points (C13)
	{
		// switchSegmentLocked: flush the writer (guarded only by `m.writer != nil`), fsync and close
		// the current segment BEFORE the target is opened / stat'ed / seeked; fresh writer at the end.
		sw := mg.Func("Manager.switchSegmentLocked")
		ok := sw != nil && sw.Body != nil && len(sw.Body.List) >= 3
		order := ""
		if ok {
			src := mg.Src(sw.Body)
			marks := []struct{ name, pat string }{
				{"flush", "m.writer.Flush()"}, {"sync", "m.active.Sync()"}, {"close", "m.active.Close()"},
				{"open", "m.cfg.FS.OpenFileHandle(path, flag, m.cfg.FileMode)"}, {"stat", "f.Stat()"},
				{"seek", "f.Seek(0, io.SeekEnd)"}, {"writer", "m.writer = bufio.NewWriterSize(f, m.bufferSize)"}}
			last := -1
			var names []string
			for _, mk := range marks {
				i := strings.Index(src, mk.pat)
				if i < 0 || i < last || strings.Count(src, mk.pat) != 1 {
					ok = false
					break
				}
				last = i
				names = append(names, mk.name)
			}
			order = strings.Join(names, ",")
			// the flush is the first statement, unconditional but for the nil guard
			if ifs0, isIf := sw.Body.List[0].(*ast.IfStmt); !isIf || mg.Src(ifs0.Cond) != "m.writer != nil" ||
				!strings.Contains(mg.Src(ifs0.Body), "m.writer.Flush()") {
				ok = false
			}
			if ifs1, isIf := sw.Body.List[1].(*ast.IfStmt); !isIf || mg.Src(ifs1.Cond) != "m.active != nil" {
				ok = false
			}
			ok = ok && mg.HasStmt(sw.Body, "m.activeSize = 0") && mg.HasStmt(sw.Body, "m.activeSize = size") &&
				mg.HasStmt(sw.Body, "m.active = f") && mg.HasStmt(sw.Body, "m.activeID = id")
		}
		o.Set("wal.switchOrder", "wal/manager.go:switchSegmentLocked", order, ok, "flush,sync,close,open,stat,seek,writer")
	}
	{
		// AppendRecords: per record ensureCapacity then EncodeRecord into m.writer; afterwards, iff
		// SyncOnWrite, an unconditional Flush + fsync.  Sync(): unconditional Flush + fsync.
		// Close(): Flush + fsync + close.  SwitchSegment/Rotate go through switchSegmentLocked.
		ar := mg.Func("Manager.AppendRecords")
		ok := ar != nil
		if ok {
			src := mg.Src(ar.Body)
			i1 := strings.Index(src, "m.ensureCapacity(int64(totalRecordSize))")
			i2 := strings.Index(src, "EncodeRecord(m.writer, rec.Type, payload)")
			ok = i1 >= 0 && i2 > i1
			found := false
			for _, st := range ar.Body.List {
				if is, isIf := st.(*ast.IfStmt); isIf && mg.Src(is.Cond) == "m.cfg.SyncOnWrite" {
					b := mg.Src(is.Body)
					j1 := strings.Index(b, "m.writer.Flush()")
					j2 := strings.Index(b, "m.active.Sync()")
					found = j1 >= 0 && j2 > j1 && len(is.Body.List) == 2
				}
			}
			ok = ok && found
			// statements of AppendRecords: lock, unlock, closed check, results, loop, sync-on-write, return
			ok = ok && len(ar.Body.List) == 7
		}
		sy := mg.Func("Manager.Sync")
		if sy != nil && sy.Body != nil {
			src := mg.Src(sy.Body)
			j1 := strings.Index(src, "m.writer.Flush()")
			ok = ok && j1 >= 0 && mg.HasStmt(sy.Body, "return m.active.Sync()") && len(sy.Body.List) == 5
		} else {
			ok = false
		}
		cl := mg.Func("Manager.Close")
		if cl != nil && cl.Body != nil {
			src := mg.Src(cl.Body)
			j1 := strings.Index(src, "m.writer.Flush()")
			j2 := strings.Index(src, "m.active.Sync()")
			ok = ok && j1 >= 0 && j2 > j1
		} else {
			ok = false
		}
		ro := mg.Func("Manager.Rotate")
		ssw := mg.Func("Manager.switchSegment")
		ok = ok && mg.HasStmt(body(ro), "return m.rotateLocked()") && mg.HasStmt(body(ssw), "return m.switchSegmentLocked(id, truncate)")
		o.Set("wal.flushPoints", "wal/manager.go:AppendRecords/Sync/Close", "append:sow-flush+sync,sync:flush+sync,close:flush+sync", ok,
			"append:sow-flush+sync,sync:flush+sync,close:flush+sync")
	}
	{
		// no bound on the record length at replay/verify: the iterators are used through
		// Next/Length/Type/Record/Err/Close only, Next decodes with DecodeRecord(rs.reader), and
		// DecodeRecord has exactly three ErrPartialRecord exits at most (header, body, crc)
		ri := o.Load("wal/record_iterator.go")
		nx := ri.Func("RecordIterator.Next")
		ok := nx != nil && strings.Contains(ri.Src(nx.Body), "DecodeRecord(rs.reader)")
		allowed := map[string]bool{"reIter.Next": true, "reIter.Length": true, "reIter.Type": true, "reIter.Record": true, "reIter.Err": true, "reIter.Close": true}
		for _, fn := range []*ast.FuncDecl{rf, vs} {
			if fn == nil {
				ok = false
				continue
			}
			for _, c := range mg.Calls(fn.Body) {
				if strings.HasPrefix(c, "reIter.") && !allowed[c] {
					ok = false
				}
			}
		}
		if dec != nil && dec.Body != nil {
			n := strings.Count(rec.Src(dec.Body), "utils.ErrPartialRecord")
			ok = ok && n >= 2 && n <= 3
			// every `length` comparison in DecodeRecord is the `length == 0` test
			for _, c := range rec.Comparisons(dec.Body) {
				if (c.X == "length" || c.Y == "length") && !(c.X == "length" && c.Y == "0" && c.Op == "eq") {
					ok = false
				}
			}
		} else {
			ok = false
		}
		o.Set("wal.recordBound", "wal/record.go:DecodeRecord, wal/manager.go:replayFile/verifySegment", "none", ok, "none")
	}

	// ---------------------------------------------------------------- kv/entry_codec.go, kv/const.go
	ec := o.Load("kv/entry_codec.go")
	{
		dvs := ec.Func("DecodeValueSlice")
		present, shape := false, dvs != nil
		for _, s := range ifs(body(dvs)) {
			c := ec.Src(s.Cond)
			if c == "expected != actual" || c == "actual != expected" {
				if lastResult(ec, s.Body) == "ErrBadChecksum" {
					present = true
				} else {
					shape = false
				}
			}
		}
		shape = shape && ec.HasStmt(body(dvs), "actual := crc32.Checksum(data[:payloadEnd], CastagnoliCrcTable)") &&
			ec.HasStmt(body(dvs), "expected := binary.BigEndian.Uint32(data[payloadEnd:checksumEnd])") &&
			ec.HasStmt(body(dvs), "return data[valueStart:payloadEnd], header, nil")
		o.Set("ent.sliceCrcChecked", "kv/entry_codec.go:DecodeValueSlice", fmt.Sprint(present), shape, "true")
	}
	{
		def := ec.Func("DecodeEntryFrom")
		present, shape := false, def != nil
		for _, s := range ifs(body(def)) {
			c := ec.Src(s.Cond)
			if c == "BytesToU32(crcBuf[:]) != hashReader.Sum32()" {
				if lastResult(ec, s.Body) == "ErrBadChecksum" {
					present = true
				} else {
					shape = false
				}
			}
		}
		src := ec.Src(body(def))
		shape = shape && strings.Contains(src, "io.ReadFull(hashReader, entry.Key)") && strings.Contains(src, "io.ReadFull(hashReader, entry.Value)") &&
			strings.Contains(src, "io.ReadFull(r, crcBuf[:])") && strings.Contains(src, "header.DecodeFrom(hashReader)")
		o.Set("ent.streamCrcChecked", "kv/entry_codec.go:DecodeEntryFrom", fmt.Sprint(present), shape, "true")
	}
	{
		kc := o.Load("kv/const.go")
		ok := strings.Contains(kc.Src(kc.AST), "CastagnoliCrcTable = crc32.MakeTable(crc32.Castagnoli)")
		hr := o.Load("kv/hash_reader.go")
		ok = ok && strings.Contains(hr.Src(hr.AST), "crc32.New(CastagnoliCrcTable)")
		ok = ok && strings.Contains(ec.Src(ec.AST), "return crc32.New(CastagnoliCrcTable)")
		o.Set("crc.poly", "kv/const.go:CastagnoliCrcTable", "castagnoli", ok, "castagnoli")
	}

	// ---------------------------------------------------------------- vlog/io.go
	vl := o.Load("vlog/io.go")
	{
		it := vl.Func("iterateLogFile")
		found := false
		ast.Inspect(body(it), func(x ast.Node) bool {
			if cc, ok := x.(*ast.CaseClause); ok && len(cc.List) == 2 && len(cc.Body) == 1 {
				if vl.Src(cc.List[0]) == "kv.ErrPartialEntry" && vl.Src(cc.List[1]) == "kv.ErrBadChecksum" &&
					vl.Src(cc.Body[0]) == "return validEndOffset, nil" {
					found = true
				}
			}
			return true
		})
		rv := vl.Func("Manager.ReadValue")
		found = found && strings.Contains(vl.Src(body(rv)), "kv.DecodeValueSlice(raw)")
		o.Set("vlog.iterOnBadCrc", "vlog/io.go:iterateLogFile", "stop", found, "stop")
	}

	b := func(k string) string { return o.Facts[k] }
	lean := fmt.Sprintf(`-- GENERATED by /verif/extract/cmd/wal from the current /repo working tree. Do not edit.
import NoKVModel.Wal.Record
import NoKVModel.Wal.Entry

namespace NoKV.Generated.Wal
open NoKV NoKV.Wal

def walCfg : WalCfg :=
  { shortHeaderPartial := %v, verifyTruncPartial := %v, verifyStep := %s,
    replayPartialOk := %v, crcChecked := %s }

def entCfg : EntCfg :=
  { sliceCrcChecked := %s, streamCrcChecked := %s }

end NoKV.Generated.Wal
`, b("wal.shortHeader") == "partial", b("wal.verifyOnPartial") == "truncate", b("wal.verifyStep"),
		b("wal.replayOnPartial") == "stop", b("wal.crcChecked"), b("ent.sliceCrcChecked"), b("ent.streamCrcChecked"))
	o.Write(*jsonOut, *leanOut, lean)
}

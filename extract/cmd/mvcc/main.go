// Fact extractor for the MVCC engine (C03, C04): txn.go (oracle, Txn), db_write.go
// (sendToWriteCh), utils/watermarker.go (as used by oracle.readMark).
package main

import (
	"flag"
	"fmt"
	"go/ast"
	"go/token"
	"strings"

	"verif/extract/elib"
)

func body(fd *ast.FuncDecl) ast.Node {
	if fd == nil {
		return nil
	}
	return fd.Body
}

func main() {
	repo := flag.String("repo", "/repo", "repository root")
	jsonOut := flag.String("json", "", "facts json")
	leanOut := flag.String("lean", "", "generated Lean file")
	flag.Parse()
	o := elib.New("mvcc", *repo)

	tx := o.Load("txn.go")

	// ---- oracle.readTs: `readTs := o.nextTxnTs.Load() - <lit>`
	{
		fd := tx.Func("oracle.readTs")
		val, ok := "", false
		if fd != nil {
			ast.Inspect(fd.Body, func(n ast.Node) bool {
				as, isAs := n.(*ast.AssignStmt)
				if !isAs || len(as.Lhs) != 1 || len(as.Rhs) != 1 || tx.Src(as.Lhs[0]) != "readTs" || as.Tok != token.DEFINE {
					return true
				}
				if be, isBe := as.Rhs[0].(*ast.BinaryExpr); isBe && be.Op == token.SUB && tx.Src(be.X) == "o.nextTxnTs.Load()" {
					if lit, isLit := be.Y.(*ast.BasicLit); isLit && lit.Kind == token.INT {
						val, ok = lit.Value, true
					}
				}
				return true
			})
			// the read timestamp must be registered in readMark and returned
			if !tx.HasCall(fd.Body, "o.readMark.Begin") || !tx.HasStmt(fd.Body, "return readTs") {
				ok = false
			}
		}
		o.Set("oracle.readTsOff", "txn.go:oracle.readTs", val, ok, "1")
	}

	// ---- Txn.Get: addReadKey before the LSM lookup; addReadKey appends the fingerprint
	{
		fd := tx.Func("Txn.Get")
		ark := tx.Func("Txn.addReadKey")
		switch {
		case fd == nil || ark == nil || tx.CallIndex(fd.Body, "txn.db.loadBorrowedEntry") < 0:
			o.Set("txn.trackGet", "txn.go:Txn.Get", "", false, "true")
		case !tx.HasStmt(ark.Body, "txn.reads = append(txn.reads, fp)") || !tx.HasStmt(ark.Body, "fp := kv.MemHash(key)"):
			o.Set("txn.trackGet", "txn.go:Txn.addReadKey", "", false, "true")
		default:
			i := tx.CallIndex(fd.Body, "txn.addReadKey")
			j := tx.CallIndex(fd.Body, "txn.db.loadBorrowedEntry")
			if i < 0 {
				o.Set("txn.trackGet", "txn.go:Txn.Get", "false", true, "")
			} else if i < j {
				o.Set("txn.trackGet", "txn.go:Txn.Get", "true", true, "")
			} else {
				o.Set("txn.trackGet", "txn.go:Txn.Get", "", false, "true")
			}
		}
	}

	// ---- newCommitTs: conflict test before the timestamp, history recorded
	{
		fd := tx.Func("oracle.newCommitTs")
		if fd == nil {
			o.Set("oracle.checksConflict", "txn.go:oracle.newCommitTs", "", false, "true")
			o.Set("oracle.recordsCommit", "txn.go:oracle.newCommitTs", "", false, "true")
		} else {
			conds := tx.IfWithBodyContaining(fd.Body, "return 0, true")
			has := false
			for _, c := range conds {
				if c == "o.hasConflict(txn)" {
					has = true
				}
			}
			iConf := tx.CallIndex(fd.Body, "o.hasConflict")
			iTs := tx.CallIndex(fd.Body, "o.nextTxnTs.Add")
			iDone := tx.CallIndex(fd.Body, "o.doneRead")
			iClean := tx.CallIndex(fd.Body, "o.cleanupCommittedTransactions")
			orderOK := iTs >= 0 && iDone >= 0 && iClean >= 0 && iDone < iClean && iClean < iTs &&
				tx.HasStmt(fd.Body, "ts := o.nextTxnTs.Add(1) - 1") && tx.HasStmt(fd.Body, "o.Lock()")
			switch {
			case !orderOK:
				o.Set("oracle.checksConflict", "txn.go:oracle.newCommitTs", "", false, "true")
			case has && iConf >= 0 && iConf < iDone:
				o.Set("oracle.checksConflict", "txn.go:oracle.newCommitTs", "true", true, "")
			case iConf < 0:
				o.Set("oracle.checksConflict", "txn.go:oracle.newCommitTs", "false", true, "")
			default:
				o.Set("oracle.checksConflict", "txn.go:oracle.newCommitTs", "", false, "true")
			}
			rec := false
			ast.Inspect(fd.Body, func(n ast.Node) bool {
				if as, ok := n.(*ast.AssignStmt); ok && strings.HasPrefix(tx.Src(as), "o.committedTxns = append(o.committedTxns, committedTxn{") &&
					strings.Contains(tx.Src(as), "ts: ts,") && strings.Contains(tx.Src(as), "conflictKeys: copied") {
					rec = true
				}
				return true
			})
			guard := tx.IfWithBodyContaining(fd.Body, "o.committedTxns = append(o.committedTxns")
			guardOK := len(guard) == 1 && guard[0] == "o.detectConflicts"
			nw := tx.Func("newOracle")
			wired := nw != nil && strings.Contains(tx.Src(nw.Body), "detectConflicts: opt.DetectConflicts")
			if rec && guardOK && wired && tx.HasStmt(fd.Body, "copied := cloneConflictKeys(txn.conflictKeys)") {
				o.Set("oracle.recordsCommit", "txn.go:oracle.newCommitTs", "true", true, "")
			} else if !rec && !strings.Contains(tx.Src(fd.Body), "o.committedTxns = append") {
				o.Set("oracle.recordsCommit", "txn.go:oracle.newCommitTs", "false", true, "")
			} else {
				o.Set("oracle.recordsCommit", "txn.go:oracle.newCommitTs", "", false, "true")
			}
		}
	}

	// ---- hasConflict comparisons
	{
		fd := tx.Func("oracle.hasConflict")
		op, ok := tx.FindCmp(body(fd), "committedTxn.ts", "txn.readTs")
		if ok {
			// the comparison must guard a `continue`
			g := tx.IfWithBodyContaining(fd.Body, "continue")
			ok = false
			for _, c := range g {
				if strings.HasPrefix(c, "committedTxn.ts ") && strings.HasSuffix(c, " txn.readTs") {
					ok = true
				}
			}
		}
		o.Set("oracle.skipOp", "txn.go:oracle.hasConflict", op, ok, "le")
		iop, iok := "", false
		if fd != nil {
			for _, c := range tx.IfWithBodyContaining(fd.Body, "return true") {
				if strings.HasPrefix(c, "ok && ts ") && strings.HasSuffix(c, " txn.readTs") && strings.Contains(tx.Src(fd.Body), "if ts, ok := o.intentTable[ro]; ok && ts ") {
					for _, cm := range tx.Comparisons(fd.Body) {
						if cm.X == "ts" && cm.Y == "txn.readTs" {
							iop, iok = cm.Op, true
						}
					}
				}
			}
		}
		o.Set("oracle.intentOp", "txn.go:oracle.hasConflict", iop, iok, "gt")
	}

	// ---- hasConflict: is the intent-table pass final (a `return false` closing the
	// `if o.intentTable != nil` block) or does the committedTxns scan follow?
	{
		fd := tx.Func("oracle.hasConflict")
		val, ok := "", false
		if fd != nil {
			ast.Inspect(fd.Body, func(n ast.Node) bool {
				is, isIf := n.(*ast.IfStmt)
				if !isIf || tx.Src(is.Cond) != "o.intentTable != nil" || len(is.Body.List) == 0 {
					return true
				}
				ok = true
				if tx.Src(is.Body.List[len(is.Body.List)-1]) == "return false" {
					val = "true"
				} else {
					val = "false"
				}
				return true
			})
			// the scan over committedTxns must be reachable after it and end in `return false`
			hasScan := false
			ast.Inspect(fd.Body, func(n ast.Node) bool {
				if rs, isR := n.(*ast.RangeStmt); isR && tx.Src(rs.X) == "o.committedTxns" {
					hasScan = true
				}
				return true
			})
			if !hasScan || len(fd.Body.List) == 0 || tx.Src(fd.Body.List[len(fd.Body.List)-1]) != "return false" {
				ok = false
			}
		}
		o.Set("oracle.intentFinal", "txn.go:oracle.hasConflict", val, ok, "false")
	}

	// ---- cleanup: an intent entry is deleted only while it still points at the pruned txn
	{
		fd := tx.Func("oracle.cleanupCommittedTransactions")
		val, ok := "", false
		if fd != nil {
			conds := tx.IfWithBodyContaining(fd.Body, "delete(o.intentTable, k)")
			guarded := false
			for _, c := range conds {
				if c == "ok && ts == txn.ts" && strings.Contains(tx.Src(fd.Body), "if ts, ok := o.intentTable[k]; ok && ts == txn.ts {") {
					guarded = true
				}
			}
			if strings.Contains(tx.Src(fd.Body), "delete(o.intentTable, k)") {
				ok = true
				if guarded {
					val = "true"
				} else {
					val = "false"
				}
			}
		}
		o.Set("oracle.intentDelGuard", "txn.go:oracle.cleanupCommittedTransactions", val, ok, "true")
	}

	// ---- TxnIterator.advance: every returned item goes into the read set
	{
		ti := o.Load("txn_iterator.go")
		fd := ti.Func("TxnIterator.advance")
		val, ok := "", false
		if fd != nil {
			conds := ti.IfWithBodyContaining(fd.Body, "it.txn.addReadKey(encoded)")
			switch {
			case len(conds) == 1 && conds[0] == "it.txn != nil":
				val, ok = "true", true
			case len(conds) == 2 && conds[0] == "it.txn != nil" && conds[1] == "version < it.readTs":
				val, ok = "false", true
			}
			if !ti.HasStmt(fd.Body, "encoded := kv.EncodeKeyWithCF(it.entry.CF, it.entry.Key)") {
				ok = false
			}
		}
		o.Set("txnit.trackAll", "txn_iterator.go:TxnIterator.advance", val, ok, "true")
	}

	// ---- does the iterator record the range it scanned (absent keys included)?  As-is shape: the
	// only addReadKey calls of txn_iterator.go are the one in advance() for the returned item (after
	// `it.valid = true`) and the one in Seek() for the sought key; nothing else touches the read set.
	// There is no repaired shape to recognise yet: anything else is a shape error.
	{
		ti := o.Load("txn_iterator.go")
		adv := ti.Func("TxnIterator.advance")
		seek := ti.Func("TxnIterator.Seek")
		total := 0
		ast.Inspect(ti.AST, func(n ast.Node) bool {
			if c, isC := n.(*ast.CallExpr); isC && strings.HasSuffix(ti.Src(c.Fun), "addReadKey") {
				total++
			}
			return true
		})
		asis := adv != nil && seek != nil && total == 2 &&
			ti.CallIndex(adv.Body, "it.txn.addReadKey") >= 0 && ti.CallIndex(seek.Body, "it.txn.addReadKey") >= 0
		if asis {
			// the call in advance() must come after the item was accepted
			src := ti.Src(adv.Body)
			i, j := strings.Index(src, "it.valid = true"), strings.Index(src, "it.txn.addReadKey(encoded)")
			asis = i >= 0 && j > i
		}
		txs := tx.Src(tx.AST)
		if asis && !strings.Contains(txs, "reads []uint64") {
			asis = false
		}
		o.Set("txnit.tracksRange", "txn_iterator.go:TxnIterator.advance", "false", asis, "false")
	}

	// ---- every transaction waits for the commits it may see: newTransaction takes its read
	// timestamp from oracle.readTs() unconditionally, and readTs() waits on txnMark
	{
		rt := tx.Func("oracle.readTs")
		nt := tx.Func("DB.newTransaction")
		ok := rt != nil && nt != nil
		val := ""
		if ok {
			waits := tx.HasCall(rt.Body, "o.txnMark.WaitForMark") && tx.HasStmt(rt.Body, "utils.Check(o.txnMark.WaitForMark(context.Background(), readTs))")
			direct := tx.HasStmt(nt.Body, "txn.readTs = db.orc.readTs()")
			// the assignment must not sit under a condition
			guarded := len(tx.IfWithBodyContaining(nt.Body, "txn.readTs = db.orc.readTs()")) > 0
			n := 0
			ast.Inspect(nt.Body, func(x ast.Node) bool {
				if as, isAs := x.(*ast.AssignStmt); isAs && len(as.Lhs) == 1 && tx.Src(as.Lhs[0]) == "txn.readTs" && tx.Src(as.Rhs[0]) != "0" {
					n++
				}
				return true
			})
			switch {
			case waits && direct && !guarded && n == 1:
				val = "true"
			case direct || n > 0:
				val = "false"
			default:
				ok = false
			}
		}
		o.Set("oracle.beginWaits", "txn.go:DB.newTransaction/oracle.readTs", val, ok, "true")
	}

	// ---- commitWorker: when applyRequests stops at request `failedAt`, that request and every
	// request behind it in the batch get the error
	{
		dw := o.Load("db_write.go")
		cw := dw.Func("DB.commitWorker")
		val, ok := "", false
		if cw != nil {
			src := dw.Src(cw.Body)
			hasBranch := strings.Contains(src, "if err != nil && failedAt >= 0 {") && strings.Contains(src, "db.finishCommitRequests(batch.reqs, nil, perReqErr)") &&
				strings.Contains(src, "failedAt, err := db.applyRequests(batch.requests)")
			loop := strings.Contains(src, "for i := failedAt; i < len(batch.requests); i++ {") && strings.Contains(src, "perReqErr[batch.requests[i]] = err")
			switch {
			case hasBranch && loop:
				val, ok = "fromFailed", true
			case hasBranch && strings.Contains(src, "batch.requests[failedAt]: err"):
				val, ok = "onlyFailed", true
			}
		}
		o.Set("db.failFanout", "db_write.go:DB.commitWorker", val, ok, "fromFailed")
	}

	// ---- initCommitState: seeding of the timestamp allocator after Open
	{
		fd := tx.Func("oracle.initCommitState")
		op, ok := tx.FindCmp(body(fd), "committed", "o.nextTxnTs.Load()")
		if !ok && fd != nil && strings.Contains(tx.Src(fd.Body), "if next := o.nextTxnTs.Load(); committed ") {
			op, ok = tx.FindCmp(fd.Body, "committed", "next")
		}
		if ok {
			ok = tx.HasStmt(fd.Body, "o.nextTxnTs.Store(committed + 1)") && tx.HasStmt(fd.Body, "o.readMark.SetDoneUntil(committed)") &&
				tx.HasStmt(fd.Body, "o.lastCleanupTs = committed") && tx.HasStmt(fd.Body, "o.txnMark.SetLastIndex(committed)")
			early := false
			for _, c := range tx.IfWithBodyContaining(fd.Body, "return") {
				if c == "o == nil || committed == 0" {
					early = true
				}
			}
			nw := tx.Func("newOracle")
			ok = ok && early && nw != nil && tx.HasStmt(nw.Body, "orc.nextTxnTs.Store(1)")
		}
		o.Set("oracle.seedOp", "txn.go:oracle.initCommitState", op, ok, "ge")
	}

	// ---- cleanupCommittedTransactions
	{
		fd := tx.Func("oracle.cleanupCommittedTransactions")
		op, ok := tx.FindCmp(body(fd), "txn.ts", "maxReadTs")
		if ok {
			ok = tx.HasStmt(fd.Body, "maxReadTs := o.readMark.DoneUntil()") && tx.HasStmt(fd.Body, "o.lastCleanupTs = maxReadTs") &&
				tx.HasStmt(fd.Body, "tmp = append(tmp, txn)")
			g := tx.IfWithBodyContaining(fd.Body, "continue")
			hit := false
			for _, c := range g {
				if strings.HasPrefix(c, "txn.ts ") && strings.HasSuffix(c, " maxReadTs") {
					hit = true
				}
			}
			ok = ok && hit
		}
		o.Set("oracle.pruneOp", "txn.go:oracle.cleanupCommittedTransactions", op, ok, "le")
	}

	// ---- size limits
	{
		fd := tx.Func("Txn.checkSize")
		op, ok := tx.FindCmp(body(fd), "count", "txn.db.opt.MaxBatchCount")
		shape := fd != nil && tx.HasStmt(fd.Body, "count := txn.count + 1") &&
			tx.HasStmt(fd.Body, "size := txn.size + int64(e.EstimateSize(int(txn.db.valueThreshold())+10))") &&
			tx.HasStmt(fd.Body, "txn.count, txn.size = count, size")
		o.Set("txn.countOp", "txn.go:Txn.checkSize", op, ok && shape, "ge")
		op, ok = tx.FindCmp(body(fd), "size", "txn.db.opt.MaxBatchSize")
		o.Set("txn.sizeOp", "txn.go:Txn.checkSize", op, ok && shape, "ge")
		dw := o.Load("db_write.go")
		sd := dw.Func("DB.sendToWriteCh")
		op, ok = dw.FindCmp(body(sd), "count", "db.opt.MaxBatchCount")
		shape = sd != nil && dw.HasStmt(sd.Body, "count := int64(len(entries))") &&
			dw.HasStmt(sd.Body, "size += int64(e.EstimateSize(int(db.opt.ValueThreshold)))")
		o.Set("db.sendCountOp", "db_write.go:DB.sendToWriteCh", op, ok && shape, "ge")
		op, ok = dw.FindCmp(body(sd), "size", "db.opt.MaxBatchSize")
		o.Set("db.sendSizeOp", "db_write.go:DB.sendToWriteCh", op, ok && shape, "ge")
	}

	// ---- utils/watermarker.go as oracle.readMark uses it
	{
		wm := o.Load("utils/watermarker.go")
		ai := wm.Func("WaterMark.addIndex")
		in := wm.Func("WaterMark.Init")
		zeroRet := false
		if ai != nil {
			for _, c := range wm.IfWithBodyContaining(ai.Body, "return") {
				if c == "index == 0" {
					zeroRet = true
				}
			}
		}
		base := ""
		if in != nil {
			s := wm.Src(in.Body)
			switch {
			case strings.Contains(s, "base: 1,"):
				base = "1"
			case strings.Contains(s, "base: 0,"):
				base = "0"
			}
		}
		shape := ai != nil && wm.HasCall(ai.Body, "w.tryAdvance") && wm.HasStmt(ai.Body, "win.slots[offset].Add(delta)")
		switch {
		case !shape || base == "":
			o.Set("wm.tracksZero", "utils/watermarker.go:WaterMark.addIndex", "", false, "false")
		case zeroRet:
			o.Set("wm.tracksZero", "utils/watermarker.go:WaterMark.addIndex", "false", true, "")
		case base == "0":
			o.Set("wm.tracksZero", "utils/watermarker.go:WaterMark.addIndex", "true", true, "")
		default:
			// no early return but slot 0 does not exist (base 1): index 0 is still dropped
			o.Set("wm.tracksZero", "utils/watermarker.go:WaterMark.addIndex", "false", true, "")
		}
		ta := wm.Func("WaterMark.tryAdvance")
		next, at := false, false
		if ta != nil {
			for _, c := range wm.IfWithBodyContaining(ta.Body, "return") {
				if c == "win.slots[offset].Load() > 0" {
					next = true
				}
				if strings.Contains(c, "win.slots[doneUntil-win.base].Load() > 0") {
					at = true
				}
			}
			if !wm.HasStmt(ta.Body, "next := doneUntil + 1") || !wm.HasStmt(ta.Body, "offset := next - win.base") {
				next = false
			}
		}
		switch {
		case !next:
			o.Set("wm.holdsAtDone", "utils/watermarker.go:WaterMark.tryAdvance", "", false, "false")
		case at:
			o.Set("wm.holdsAtDone", "utils/watermarker.go:WaterMark.tryAdvance", "true", true, "")
		default:
			o.Set("wm.holdsAtDone", "utils/watermarker.go:WaterMark.tryAdvance", "false", true, "")
		}
	}

	f := o.Facts
	lean := fmt.Sprintf(`-- GENERATED by /verif/extract/cmd/mvcc from the current /repo working tree. Do not edit.
import NoKVModel.Mvcc.Model

namespace NoKV.Generated.Mvcc
open NoKV NoKV.Mvcc

def mvccCfg : MvccCfg :=
  { readTsOff := %s, trackGet := %s, checksConflict := %s, skipOp := %s, intentOp := %s,
    intentFinal := %s, intentDelGuard := %s, scanTrackAll := %s, scanTracksRange := %s, seedOp := %s,
    recordsCommit := %s, pruneOp := %s, countOp := %s, sizeOp := %s, sendCountOp := %s,
    sendSizeOp := %s, wmTracksZero := %s, wmHoldsAtDone := %s }

end NoKV.Generated.Mvcc
`, f["oracle.readTsOff"], f["txn.trackGet"], f["oracle.checksConflict"], elib.LeanOp(f["oracle.skipOp"]), elib.LeanOp(f["oracle.intentOp"]),
		f["oracle.intentFinal"], f["oracle.intentDelGuard"], f["txnit.trackAll"], f["txnit.tracksRange"], elib.LeanOp(f["oracle.seedOp"]),
		f["oracle.recordsCommit"], elib.LeanOp(f["oracle.pruneOp"]), elib.LeanOp(f["txn.countOp"]), elib.LeanOp(f["txn.sizeOp"]),
		elib.LeanOp(f["db.sendCountOp"]), elib.LeanOp(f["db.sendSizeOp"]), f["wm.tracksZero"], f["wm.holdsAtDone"])
	o.Write(*jsonOut, *leanOut, lean)
}

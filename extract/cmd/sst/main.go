// Fact extractor for the SST engine (C35): lsm/builder.go, lsm/table.go.
package main

import (
	"flag"
	"fmt"
	"go/ast"
	"strings"

	"verif/extract/elib"
)

func body(fd *ast.FuncDecl) ast.Node {
	if fd == nil || fd.Body == nil {
		return nil
	}
	return fd.Body
}

func callSrcs(f *elib.File, n ast.Node) []string {
	var out []string
	if n == nil {
		return out
	}
	ast.Inspect(n, func(x ast.Node) bool {
		if c, ok := x.(*ast.CallExpr); ok {
			out = append(out, f.Src(c))
		}
		return true
	})
	return out
}

func has(xs []string, s string) bool {
	for _, x := range xs {
		if x == s {
			return true
		}
	}
	return false
}

func main() {
	repo := flag.String("repo", "/repo", "repository root")
	jsonOut := flag.String("json", "", "facts json")
	leanOut := flag.String("lean", "", "generated Lean file")
	flag.Parse()
	o := elib.New("sst", *repo)

	bf := o.Load("lsm/builder.go")
	tf := o.Load("lsm/table.go")

	// ---------------------------------------------------------------- builder.go:tryFinishBlock
	{
		fd := bf.Func("tableBuilder.tryFinishBlock")
		op, ok := bf.FindCmp(body(fd), "tb.curBlock.estimateSz", "int64(tb.opt.BlockSize)")
		shape := false
		if fd != nil {
			ast.Inspect(fd.Body, func(x ast.Node) bool {
				if as, ok := x.(*ast.AssignStmt); ok && len(as.Lhs) == 1 && bf.Src(as.Lhs[0]) == "tb.curBlock.estimateSz" {
					rhs := bf.Src(as.Rhs[0])
					if strings.HasPrefix(rhs, "int64(tb.curBlock.end) + int64(6") && strings.Contains(rhs, "int64(len(e.Key))") &&
						strings.Contains(rhs, "int64(e.EncodedSize())") && strings.HasSuffix(rhs, "entriesOffsetsSize") {
						shape = true
					}
				}
				return true
			})
			conds := bf.IfConds(fd.Body)
			if !has(conds, "tb.curBlock == nil") || !has(conds, "len(tb.curBlock.entryOffsets) <= 0") {
				shape = false
			}
		}
		o.Set("sst.splitOp", "lsm/builder.go:tryFinishBlock", op, ok && shape, "gt")
	}

	// ---------------------------------------------------------------- table.go:tableIterator.Seek
	{
		fd := tf.Func("tableIterator.Seek")
		op, ok := tf.FindCmp(body(fd), "ko.GetKey()", "key")
		o.Set("sst.tblSeekOp", "lsm/table.go:tableIterator.Seek", op, ok, "gt")
		// ascending branch: `if it.opt.IsAsc { … }`
		var asc *ast.BlockStmt
		if fd != nil {
			ast.Inspect(fd.Body, func(x ast.Node) bool {
				if s, ok := x.(*ast.IfStmt); ok && tf.Src(s.Cond) == "it.opt.IsAsc" && asc == nil {
					asc = s.Body
				}
				return true
			})
		}
		val, shape := "", false
		if asc != nil {
			calls := callSrcs(tf, asc)
			prev := has(calls, "it.seekHelper(idx-1, key)") && has(calls, "it.seekHelper(0, key)")
			next := false
			// repaired shape: `if it.err == io.EOF && idx < len(offsets) { it.seekHelper(idx, key) }` after seekHelper(idx-1)
			ast.Inspect(asc, func(x ast.Node) bool {
				if s, ok := x.(*ast.IfStmt); ok && strings.Contains(tf.Src(s.Cond), "it.err == io.EOF") &&
					strings.Contains(tf.Src(s.Cond), "idx < len(offsets)") && has(callSrcs(tf, s.Body), "it.seekHelper(idx, key)") {
					next = true
				}
				return true
			})
			switch {
			case prev && next:
				val, shape = "true", true
			case prev && !has(calls, "it.seekHelper(idx, key)"):
				val, shape = "false", true
			}
		}
		o.Set("sst.seekFallsThrough", "lsm/table.go:tableIterator.Seek", val, shape, "false")
	}

	// ---------------------------------------------------------------- builder.go:blockIterator.seek
	{
		fd := bf.Func("blockIterator.seek")
		var ops []string
		for _, c := range bf.Comparisons(body(fd)) {
			if c.X == "itr.key" && c.Y == "key" && strings.HasSuffix(c.Via, "CompareKeys") {
				ops = append(ops, c.Op)
			}
		}
		conds := bf.IfConds(body(fd))
		shape := len(ops) == 2 && has(conds, "itr.isAsc") && has(conds, "foundEntryIdx == 0")
		calls := callSrcs(bf, body(fd))
		shape = shape && has(calls, "itr.setIdx(foundEntryIdx)") && has(calls, "itr.setIdx(foundEntryIdx - 1)") && has(calls, "itr.setIdx(-1)")
		fwd, rev := "", ""
		if len(ops) == 2 {
			fwd, rev = ops[0], ops[1]
		}
		o.Set("sst.blkFwdOp", "lsm/builder.go:blockIterator.seek", fwd, shape, "ge")
		o.Set("sst.blkRevOp", "lsm/builder.go:blockIterator.seek", rev, shape, "gt")
	}

	// ---------------------------------------------------------------- table.go:Search
	{
		fd := tf.Func("table.Search")
		op, ok := tf.FindCmp(body(fd), "*maxVs", "version")
		same := fd != nil && has(callSrcs(tf, fd.Body), "kv.SameKey(key, e.Key)") && has(callSrcs(tf, fd.Body), "iter.Seek(key)")
		o.Set("sst.searchVsOp", "lsm/table.go:Search", op, ok && same, "lt")
		add := bf.Func("tableBuilder.add")
		bHash := add != nil && has(callSrcs(bf, add.Body), "utils.Hash(kv.ParseKey(key))")
		sProbe := fd != nil && tf.HasStmt(fd.Body, "probe = kv.ParseKey(key)") && has(callSrcs(tf, fd.Body), "bloomFilter.MayContainKey(probe)")
		bRaw := add != nil && has(callSrcs(bf, add.Body), "utils.Hash(key)")
		switch {
		case bHash && sProbe:
			o.Set("sst.bloomSameProjection", "lsm/builder.go:add + lsm/table.go:Search", "true", true, "")
		case bRaw && sProbe, bHash && !sProbe && fd != nil && has(callSrcs(tf, fd.Body), "bloomFilter.MayContainKey(key)"):
			o.Set("sst.bloomSameProjection", "lsm/builder.go:add + lsm/table.go:Search", "false", true, "")
		default:
			o.Set("sst.bloomSameProjection", "lsm/builder.go:add + lsm/table.go:Search", "", false, "true")
		}
	}

	// ---------------------------------------------------------------- table.go:loadBlock
	{
		fd := tf.Func("table.loadBlock")
		calls := tf.Calls(body(fd))
		vi, ai, gi := -1, -1, -1
		nv, na := 0, 0
		for i, c := range calls {
			switch c {
			case "b.verifyCheckSum":
				if vi < 0 {
					vi = i
				}
				nv++
			case "t.lm.cache.addBlock":
				if ai < 0 {
					ai = i
				}
				na++
			case "t.lm.cache.getBlock":
				gi = i
			}
		}
		shape := vi >= 0 && ai >= 0 && gi >= 0 && nv == 1 && na == 1 && gi < vi && gi < ai
		// the verification must guard the return: `if err = b.verifyCheckSum(); err != nil { return nil, err }`
		guard := false
		if fd != nil {
			ast.Inspect(fd.Body, func(x ast.Node) bool {
				if s, ok := x.(*ast.IfStmt); ok && s.Init != nil && tf.Src(s.Init) == "err = b.verifyCheckSum()" &&
					tf.Src(s.Cond) == "err != nil" && tf.Src(s.Body) == "{ return nil, err }" {
					guard = true
				}
				return true
			})
		}
		val := "false"
		if vi < ai {
			val = "true"
		}
		o.Set("sst.verifyBeforeCache", "lsm/table.go:loadBlock", val, shape && guard, "true")
	}

	// ---------------------------------------------------------------- table.go:loadBlock trailer guard
	{
		fd := tf.Func("table.loadBlock")
		_, okLen := tf.FindCmp(body(fd), "b.chkLen", "len(b.data)")
		opRP, okRP := tf.FindCmp(body(fd), "b.chkLen", "readPos")
		opLen, _ := tf.FindCmp(body(fd), "b.chkLen", "len(b.data)")
		// the guard sits between reading the length field and `readPos -= b.chkLen`
		shape := fd != nil && tf.HasStmt(fd.Body, "readPos := len(b.data) - 4") && tf.HasStmt(fd.Body, "readPos -= b.chkLen") &&
			tf.HasStmt(fd.Body, "b.chkLen = int(kv.BytesToU32(b.data[readPos : readPos+4]))")
		switch {
		case okRP && opRP == "gt" && !okLen:
			o.Set("sst.chkLenGuard", "lsm/table.go:loadBlock", "readPos", shape, "len")
		case okLen && opLen == "gt" && !okRP:
			o.Set("sst.chkLenGuard", "lsm/table.go:loadBlock", "len", shape, "len")
		default:
			o.Set("sst.chkLenGuard", "lsm/table.go:loadBlock", "", false, "len")
		}
	}

	// ---------------------------------------------------------------- every cache miss verifies
	{
		// (a) loadBlock: the one `if err = b.verifyCheckSum(); err != nil { return nil, err }` is a
		//     top-level statement of the function body (not nested in any condition or loop) and no
		//     return of a non-nil block precedes it except the cache hit;
		// (b) block.verifyCheckSum is exactly `return utils.VerifyChecksum(b.data, b.checksum)`.
		fd := tf.Func("table.loadBlock")
		top := 0
		okRetBefore := true
		if fd != nil {
			seenVerify := false
			for _, st := range fd.Body.List {
				if s, ok := st.(*ast.IfStmt); ok && s.Init != nil && tf.Src(s.Init) == "err = b.verifyCheckSum()" &&
					tf.Src(s.Cond) == "err != nil" && tf.Src(s.Body) == "{ return nil, err }" && s.Else == nil {
					top++
					seenVerify = true
					continue
				}
				if !seenVerify {
					// before the verification only the cache hit may return a block
					ast.Inspect(st, func(x ast.Node) bool {
						if r, ok := x.(*ast.ReturnStmt); ok && len(r.Results) == 2 && tf.Src(r.Results[0]) != "nil" && tf.Src(r.Results[0]) != "cached" {
							okRetBefore = false
						}
						return true
					})
				}
			}
		}
		vf := bf.Func("block.verifyCheckSum")
		exact := vf != nil && len(vf.Body.List) == 1 && bf.Src(vf.Body.List[0]) == "return utils.VerifyChecksum(b.data, b.checksum)"
		vc := 0
		for _, c := range tf.Calls(body(fd)) {
			if c == "b.verifyCheckSum" {
				vc++
			}
		}
		o.Set("sst.verifyEveryLoad", "lsm/table.go:loadBlock + lsm/builder.go:block.verifyCheckSum", "true", top == 1 && vc == 1 && okRetBefore && exact, "true")
	}

	// ---------------------------------------------------------------- tableIterator: block (re)loading
	{
		// seekHelper: fetch + setBlock are unconditional top-level statements (no reuse shortcut);
		// seekToFirst / seekToLast set the block as well
		sh := tf.Func("tableIterator.seekHelper")
		top := map[string]bool{}
		nested := false
		if sh != nil {
			for _, st := range sh.Body.List {
				top[tf.Src(st)] = true
				if ifs, ok := st.(*ast.IfStmt); ok {
					for _, c := range callSrcs(tf, ifs.Body) {
						if c == "it.bi.setBlock(block)" || strings.HasPrefix(c, "it.fetchBlock(") {
							nested = true
						}
					}
				}
			}
		}
		always := top["block, err := it.fetchBlock(blockIdx)"] && top["it.bi.setBlock(block)"] && top["it.blockPos = blockIdx"] &&
			top["it.bi.seek(key)"] && !nested
		rewinds := true
		for _, n := range []string{"tableIterator.seekToFirst", "tableIterator.seekToLast"} {
			fd := tf.Func(n)
			if fd == nil || !tf.HasStmt(fd.Body, "it.bi.setBlock(block)") || !tf.HasStmt(fd.Body, "block, err := it.fetchBlock(it.blockPos)") {
				rewinds = false
			}
		}
		switch {
		case always && rewinds:
			o.Set("sst.seekReloads", "lsm/table.go:tableIterator.seekHelper", "true", true, "")
		case nested && rewinds:
			o.Set("sst.seekReloads", "lsm/table.go:tableIterator.seekHelper", "false", true, "")
		default:
			o.Set("sst.seekReloads", "lsm/table.go:tableIterator.seekHelper", "", false, "true")
		}
		// Next: what is dropped when the block iterator runs off a block
		nx := tf.Func("tableIterator.Next")
		switch {
		case nx != nil && tf.HasStmt(nx.Body, "it.bi.data = nil") && !strings.Contains(tf.Src(nx.Body), "entryOffsets"):
			o.Set("sst.nextUnload", "lsm/table.go:tableIterator.Next", "data", true, "")
		case nx != nil && tf.HasStmt(nx.Body, "it.bi.data, it.bi.entryOffsets = nil, nil"):
			o.Set("sst.nextUnload", "lsm/table.go:tableIterator.Next", "both", true, "")
		default:
			o.Set("sst.nextUnload", "lsm/table.go:tableIterator.Next", "", false, "data")
		}
	}

	f := o.Facts
	cg := "false"
	if f["sst.chkLenGuard"] == "readPos" {
		cg = "true"
	}
	lean := fmt.Sprintf(`-- GENERATED by /verif/extract/cmd/sst from the current /repo working tree. Do not edit.
import NoKVModel.Sst.Model

namespace NoKV.Generated.Sst
open NoKV NoKV.Sst

def sstCfg : SstCfg :=
  { splitOp := .%s, seekFallsThrough := %s, tblSeekOp := .%s, blkFwdOp := .%s, blkRevOp := .%s,
    searchVsOp := .%s, bloomSameProjection := %s, verifyBeforeCache := %s, chkLenGuardReadPos := %s,
    verifyEveryLoad := %s, seekReloads := %s, nextUnloadsBoth := %s }

end NoKV.Generated.Sst
`, f["sst.splitOp"], f["sst.seekFallsThrough"], f["sst.tblSeekOp"], f["sst.blkFwdOp"], f["sst.blkRevOp"],
		f["sst.searchVsOp"], f["sst.bloomSameProjection"], f["sst.verifyBeforeCache"], cg, f["sst.verifyEveryLoad"], f["sst.seekReloads"], map[string]string{"data": "false", "both": "true"}[f["sst.nextUnload"]])
	o.Write(*jsonOut, *leanOut, lean)
}

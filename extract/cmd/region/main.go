// Fact extractor for the Region engine (C24, C25, C26, C38).
package main

import (
	"flag"
	"fmt"
	"go/ast"
	"sort"
	"strings"

	"verif/extract/elib"
)

func main() {
	repo := flag.String("repo", "/repo", "repository root")
	jsonOut := flag.String("json", "", "facts json")
	leanOut := flag.String("lean", "", "generated Lean file")
	flag.Parse()
	o := elib.New("region", *repo)

	// ---------------------------------------------------------------- pd/core/cluster.go (C26)
	cl := o.Load("pd/core/cluster.go")
	up := cl.Func("Cluster.UpsertRegionHeartbeat")
	{
		// rejectsInverted: an `if` comparing meta.StartKey with meta.EndKey that returns an error
		found, good := false, false
		if up != nil {
			for _, c := range cl.Comparisons(up.Body) {
				if (c.X == "meta.StartKey" && c.Y == "meta.EndKey") || (c.X == "meta.EndKey" && c.Y == "meta.StartKey") {
					found = true
					if (c.X == "meta.StartKey" && c.Op == "ge") || (c.X == "meta.EndKey" && c.Op == "le") {
						good = true
					}
				}
			}
		}
		switch {
		case up == nil:
			o.Set("pd.rejectsInverted", "pd/core/cluster.go:UpsertRegionHeartbeat", "", false, "false")
		case !found:
			o.Set("pd.rejectsInverted", "pd/core/cluster.go:UpsertRegionHeartbeat", "false", true, "")
		case good:
			o.Set("pd.rejectsInverted", "pd/core/cluster.go:UpsertRegionHeartbeat", "true", true, "")
		default:
			o.Set("pd.rejectsInverted", "pd/core/cluster.go:UpsertRegionHeartbeat", "", false, "false")
		}
	}
	st := cl.Func("isEpochStale")
	var stBody ast.Node
	if st != nil {
		stBody = st.Body
	}
	op, ok := cl.FindCmp(stBody, "incoming.Version", "current.Version")
	// the function contains `<` and `==` on Version; FindCmp demands one operator, so split:
	verOps := []string{}
	for _, c := range cl.Comparisons(stBody) {
		if c.X == "incoming.Version" && c.Y == "current.Version" && c.Op != "eq" {
			verOps = append(verOps, c.Op)
		}
	}
	_ = op
	_ = ok
	o.Set("pd.staleVerOp", "pd/core/cluster.go:isEpochStale", first(verOps), len(verOps) == 1, "lt")
	op, ok = cl.FindCmp(stBody, "incoming.ConfVersion", "current.ConfVersion")
	o.Set("pd.staleConfOp", "pd/core/cluster.go:isEpochStale", op, ok, "lt")
	ro := cl.Func("rangesOverlap")
	var roBody ast.Node
	if ro != nil {
		roBody = ro.Body
	}
	op1, ok1 := cl.FindCmp(roBody, "a.EndKey", "b.StartKey")
	op2, ok2 := cl.FindCmp(roBody, "b.EndKey", "a.StartKey")
	o.Set("pd.overlapOp", "pd/core/cluster.go:rangesOverlap", op1, ok1 && ok2 && op1 == op2, "le")
	gr := cl.Func("Cluster.GetRegionByKey")
	var grBody ast.Node
	if gr != nil {
		grBody = gr.Body
	}
	op, ok = cl.FindCmp(grBody, "key", "entry.end")
	o.Set("pd.lookupEndOp", "pd/core/cluster.go:GetRegionByKey", op, ok, "ge")

	// ---------------------------------------------------------------- command_service.go (C25)
	cs := o.Load("raftstore/store/command_service.go")
	kir := cs.Func("keyInRange")
	var kirBody ast.Node
	if kir != nil {
		kirBody = kir.Body
	}
	op, ok = cs.FindCmp(kirBody, "key", "meta.StartKey")
	o.Set("cmd.keyStartOp", "raftstore/store/command_service.go:keyInRange", op, ok, "lt")
	op, ok = cs.FindCmp(kirBody, "key", "meta.EndKey")
	o.Set("cmd.keyEndOp", "raftstore/store/command_service.go:keyInRange", op, ok, "ge")
	vk := cs.Func("validateRequestKeys")
	kindOf := map[string]string{
		"pb.CmdType_CMD_GET": "get", "pb.CmdType_CMD_SCAN": "scan", "pb.CmdType_CMD_PREWRITE": "prewrite",
		"pb.CmdType_CMD_COMMIT": "commit", "pb.CmdType_CMD_BATCH_ROLLBACK": "rollback",
		"pb.CmdType_CMD_RESOLVE_LOCK": "resolve", "pb.CmdType_CMD_CHECK_TXN_STATUS": "checkstatus",
	}
	{
		var unchecked []string
		shapeOK := vk != nil
		unknownRejected := false
		if vk != nil {
			clauses := cs.CaseClauses(vk.Body, "r.GetCmdType()")
			for label, kind := range kindOf {
				cc, ok := clauses[label]
				if !ok {
					shapeOK = false
					continue
				}
				// every key of the kind must pass through `!keyInRange(meta, …)` ⇒ return error
				conds := cs.IfWithBodyContaining(cc, "return epochNotMatchError(&meta)")
				hit := false
				for _, c := range conds {
					if strings.Contains(c, "!keyInRange(meta, ") {
						hit = true
					}
				}
				if !hit {
					unchecked = append(unchecked, kind)
				}
			}
			if def, ok := clauses["default"]; ok {
				unknownRejected = cs.HasStmt(def, "return epochNotMatchError(&meta)")
			}
		}
		sort.Strings(unchecked)
		o.Set("cmd.uncheckedKinds", "raftstore/store/command_service.go:validateRequestKeys", strings.Join(unchecked, ","), shapeOK, "")
		o.Set("cmd.unknownRejected", "raftstore/store/command_service.go:validateRequestKeys", fmt.Sprint(unknownRejected), shapeOK, "true")
	}
	ve := cs.Func("validateRegionEpoch")
	{
		okShape, both := false, false
		if ve != nil {
			for _, c := range cs.IfConds(ve.Body) {
				if strings.Contains(c, "GetVersion()") || strings.Contains(c, "GetConfVer()") {
					okShape = true
					both = c == "reqEpoch.GetConfVer() != meta.Epoch.ConfVersion || reqEpoch.GetVersion() != meta.Epoch.Version" ||
						c == "reqEpoch.GetVersion() != meta.Epoch.Version || reqEpoch.GetConfVer() != meta.Epoch.ConfVersion"
					if !both && !(c == "reqEpoch.GetVersion() != meta.Epoch.Version") {
						okShape = false
					}
				}
			}
		}
		o.Set("cmd.epochBothFields", "raftstore/store/command_service.go:validateRegionEpoch", fmt.Sprint(both), okShape, "true")
	}
	pc := cs.Func("Store.ProposeCommand")
	{
		// trimmed = the result branch calls trimScanResponse(meta, req, result.resp) unconditionally,
		// as a direct statement right before `return result.resp, nil` (a call nested in a condition
		// trims only some commands), or the propose path refuses reads altogether
		trimmed := false
		if pc != nil {
			ast.Inspect(pc.Body, func(x ast.Node) bool {
				cc, ok := x.(*ast.CommClause)
				if !ok {
					return true
				}
				for i, st := range cc.Body {
					if cs.Src(st) == "trimScanResponse(meta, req, result.resp)" && i+1 < len(cc.Body) && cs.Src(cc.Body[i+1]) == "return result.resp, nil" {
						trimmed = true
					}
				}
				return true
			})
			if !trimmed && !cs.HasCall(pc.Body, "trimScanResponse") && cs.HasStmt(pc.Body, "if !isReadOnlyRequest(req) { return nil, fmt.Errorf(\"raftstore: read command must be read-only\") }") {
				trimmed = true
			}
		}
		o.Set("cmd.proposeScanTrimmed", "raftstore/store/command_service.go:ProposeCommand", fmt.Sprint(trimmed), pc != nil, "true")
	}

	{
		// trimScanResponse: inside the loop over the sub-requests every guard that skips a
		// sub-response must `continue`; only the index bound may end the loop
		ts := cs.Func("trimScanResponse")
		each, okShape := true, ts != nil
		if ts != nil {
			var loop *ast.RangeStmt
			for _, st := range ts.Body.List {
				if rs, ok := st.(*ast.RangeStmt); ok {
					loop = rs
				}
			}
			if loop == nil {
				okShape = false
			} else {
				guards := 0
				for _, st := range loop.Body.List {
					is, ok := st.(*ast.IfStmt)
					if !ok || len(is.Body.List) != 1 || is.Else != nil {
						continue
					}
					cond := cs.Src(is.Cond)
					switch b := is.Body.List[0].(type) {
					case *ast.BranchStmt:
						if b.Tok.String() != "continue" {
							each = false
						}
						guards++
					case *ast.ReturnStmt:
						if cond != "i >= len(resp.Responses)" {
							each = false
						}
						guards++
					}
				}
				if guards < 2 || !cs.HasStmt(loop.Body, "if keyInRange(meta, kv.Key) { kept = append(kept, kv) }") || !cs.HasStmt(loop.Body, "scan.Kvs = kept") {
					okShape = false
				}
			}
		}
		o.Set("cmd.trimEach", "raftstore/store/command_service.go:trimScanResponse", fmt.Sprint(each), okShape, "true")
	}

	// ---------------------------------------------------------------- admin_service.go / region_manager.go (C24)
	as := o.Load("raftstore/store/admin_service.go")
	sr := as.Func("Store.SplitRegion")
	var srBody ast.Node
	if sr != nil {
		srBody = sr.Body
	}
	op, ok = as.FindCmp(srBody, "childMeta.StartKey", "parentMeta.StartKey")
	o.Set("cat.splitStartOp", "raftstore/store/admin_service.go:SplitRegion", op, ok, "le")
	op, ok = as.FindCmp(srBody, "childMeta.StartKey", "parentMeta.EndKey")
	o.Set("cat.splitEndOp", "raftstore/store/admin_service.go:SplitRegion", op, ok, "ge")
	o.Set("cat.splitBumpsVersion", "raftstore/store/admin_service.go:SplitRegion",
		fmt.Sprint(as.HasStmt(srBody, "newParent.Epoch.Version++")), sr != nil, "true")
	hm := as.Func("Store.handleMergeCommand")
	{
		rule, okShape := "", false
		bumps := false
		if hm != nil {
			src := as.Src(hm.Body)
			bumps = as.HasStmt(hm.Body, "updated.Epoch.Version++")
			setsStart := strings.Contains(src, "updated.StartKey =")
			setsEnd := strings.Contains(src, "updated.EndKey =")
			asisCond := false
			for _, c := range as.IfConds(hm.Body) {
				if c == "len(sourceMeta.EndKey) == 0 || bytes.Compare(sourceMeta.EndKey, updated.EndKey) > 0" {
					asisCond = true
				}
			}
			adjR := strings.Contains(src, "bytes.Equal(sourceMeta.StartKey, parentMeta.EndKey)")
			adjL := strings.Contains(src, "bytes.Equal(sourceMeta.EndKey, parentMeta.StartKey)")
			switch {
			case setsEnd && !setsStart && asisCond && !adjR && !adjL:
				rule, okShape = "extendEndOnly", true
			case setsEnd && setsStart && adjR && adjL && !asisCond && strings.Contains(src, "not adjacent"):
				rule, okShape = "adjacent", true
			}
		}
		o.Set("cat.mergeRule", "raftstore/store/admin_service.go:handleMergeCommand", rule, okShape, "adjacent")
		o.Set("cat.mergeBumpsVersion", "raftstore/store/admin_service.go:handleMergeCommand", fmt.Sprint(bumps), hm != nil, "true")
	}
	rm := o.Load("raftstore/store/region_manager.go")
	mt := o.Load("manifest/types.go")
	{
		consts := mt.IotaConsts("RegionStateNew")
		vt := rm.Func("validRegionStateTransition")
		var pairs []string
		okShape := vt != nil && len(consts) == 4
		if vt != nil {
			clauses := rm.CaseClauses(vt.Body, "current")
			for label, cc := range clauses {
				if label == "default" {
					if !rm.HasStmt(cc, "return false") {
						okShape = false
					}
					continue
				}
				cur, ok := consts[strings.TrimPrefix(label, "manifest.")]
				if !ok {
					okShape = false
					continue
				}
				for _, c := range rm.Comparisons(cc) {
					if c.X != "next" || c.Op != "eq" {
						okShape = false
						continue
					}
					nx, ok := consts[strings.TrimPrefix(c.Y, "manifest.")]
					if !ok {
						okShape = false
						continue
					}
					if nx != cur {
						pairs = append(pairs, fmt.Sprintf("%d-%d", cur, nx))
					}
				}
			}
			if !rm.HasStmt(vt.Body, "if current == next { return true }") {
				okShape = false
			}
		}
		sort.Strings(pairs)
		o.Set("cat.transitions", "raftstore/store/region_manager.go:validRegionStateTransition", strings.Join(pairs, ","), okShape, "0-1,1-2,1-3,2-3")
	}

	{
		// pd/server/service.go RegionHeartbeat: when SaveRegion fails the handler only reports the
		// error; the in-memory catalog keeps what UpsertRegionHeartbeat accepted
		sv := o.Load("pd/server/service.go")
		rh := sv.Func("Service.RegionHeartbeat")
		keeps, okShape := true, rh != nil
		if rh != nil {
			const asIs = `if err := s.storage.SaveRegion(meta); err != nil { return nil, status.Error(codes.Internal, "persist region metadata: "+err.Error()) }`
			if !sv.HasStmt(rh.Body, asIs) {
				keeps = false
				if !sv.HasCall(rh.Body, "RemoveRegion") {
					okShape = false
				}
			}
			if !sv.HasStmt(rh.Body, "err := s.cluster.UpsertRegionHeartbeat(meta)") {
				okShape = false
			}
		}
		o.Set("pd.failedPersistKeepsMemory", "pd/server/service.go:RegionHeartbeat", fmt.Sprint(keeps), okShape, "true")
	}

	// ------------------------------------------------ catalog persistence (C24: reload after a restart)
	{
		// index of the first top-level statement of fn whose source contains sub
		topIdx := func(f *elib.File, fn *ast.FuncDecl, sub string) int {
			if fn == nil {
				return -1
			}
			for i, st := range fn.Body.List {
				if strings.Contains(f.Src(st), sub) {
					return i
				}
			}
			return -1
		}
		up, rmv := rm.Func("regionManager.updateRegion"), rm.Func("regionManager.removeRegion")
		const logUpd = "if rm.manifest != nil { if err := rm.manifest.LogRegionUpdate(metaCopy); err != nil { return err } }"
		const logDel = "if rm.manifest != nil { if err := rm.manifest.LogRegionDelete(regionID); err != nil { return err } }"
		okShape := up != nil && rmv != nil && rm.HasStmt(up.Body, logUpd) && rm.HasStmt(rmv.Body, logDel)
		lu, mu := topIdx(rm, up, "rm.manifest.LogRegionUpdate("), topIdx(rm, up, "rm.metaByID[metaCopy.ID] =")
		ld, md := topIdx(rm, rmv, "rm.manifest.LogRegionDelete("), topIdx(rm, rmv, "delete(rm.metaByID, regionID)")
		if lu < 0 || mu < 0 || ld < 0 || md < 0 {
			okShape = false
		}
		o.Set("cat.persistFirst", "raftstore/store/region_manager.go:updateRegion/removeRegion", fmt.Sprint(lu < mu && ld < md), okShape, "true")
		// every writer of the in-memory map
		var writers []string
		for _, d := range rm.AST.Decls {
			if fd, ok := d.(*ast.FuncDecl); ok && fd.Body != nil {
				w := false
				ast.Inspect(fd.Body, func(x ast.Node) bool {
					switch v := x.(type) {
					case *ast.AssignStmt:
						for _, l := range v.Lhs {
							if strings.Contains(rm.Src(l), "metaByID") {
								w = true
							}
						}
					case *ast.CallExpr:
						if id, ok := v.Fun.(*ast.Ident); ok && id.Name == "delete" && len(v.Args) > 0 && strings.Contains(rm.Src(v.Args[0]), "metaByID") {
							w = true
						}
					}
					return true
				})
				if w {
					writers = append(writers, fd.Name.Name)
				}
			}
		}
		sort.Strings(writers)
		o.Set("cat.memWriters", "raftstore/store/region_manager.go", strings.Join(writers, ","), true, "loadSnapshot,removeRegion,updateRegion")

		mm := o.Load("manifest/manager.go")
		ws, ap := mm.Func("Manager.writeSnapshot"), mm.Func("Manager.apply")
		all := ws != nil &&
			mm.HasStmt(ws.Body, "for id := range version.Regions { regionIDs = append(regionIDs, id) }") &&
			mm.HasStmt(ws.Body, "for _, id := range regionIDs { meta := CloneRegionMeta(version.Regions[id]) edit := RegionEdit{Meta: meta} if err := writeEdit(w, Edit{Type: EditRegion, Region: &edit}); err != nil { return err } }")
		okWS := ws != nil && strings.Contains(mm.Src(ws.Body), "version.Regions")
		o.Set("man.snapshotAllRegions", "manifest/manager.go:writeSnapshot", fmt.Sprint(all), okWS, "true")
		okAp := ap != nil && mm.HasStmt(ap.Body, "if edit.Region.Delete { delete(m.version.Regions, edit.Region.Meta.ID) } else { meta := edit.Region.Meta meta.StartKey = append([]byte(nil), meta.StartKey...) meta.EndKey = append([]byte(nil), meta.EndKey...) meta.Peers = append([]PeerMeta(nil), meta.Peers...) m.version.Regions[meta.ID] = meta }")
		o.Set("man.regionReplay", "manifest/manager.go:apply", "put-or-delete", okAp, "put-or-delete")
		ls := rm.Func("regionManager.loadSnapshot")
		okLs := ls != nil && rm.HasStmt(ls.Body, "for id, meta := range snapshot { rm.metaByID[id] = manifest.CloneRegionMeta(meta) }")
		o.Set("cat.loadSnapshot", "raftstore/store/region_manager.go:loadSnapshot", "copy-all", okLs, "copy-all")
	}

	// ---------------------------------------------------------------- config/config.go (C38)
	cf := o.Load("config/config.go")
	va := cf.Func("File.Validate")
	clauses := []struct{ fact, msg, cond string }{
		{"topo.chkTempl", "store_work_dir_template must contain", `v := strings.TrimSpace(f.StoreWorkDirTemplate); v != "" && !strings.Contains(v, "{id}")`},
		{"topo.chkDockerTempl", "store_docker_work_dir_template must contain", `v := strings.TrimSpace(f.StoreDockerWorkDirTemplate); v != "" && !strings.Contains(v, "{id}")`},
		{"topo.chkStoreZero", "store_id must be > 0", `st.StoreID == 0`},
		{"topo.chkStoreDup", "duplicate store_id", `_, dup := storeIDs[st.StoreID]; dup`},
		{"topo.chkRegionZero", "region id must be > 0", `region.ID == 0`},
		{"topo.chkLeaderKnown", "leader store %d missing", `region.LeaderStoreID != 0 >> _, ok := storeIDs[region.LeaderStoreID]; !ok`},
		{"topo.chkPeerZero", "requires store_id and peer_id", `peer.StoreID == 0 || peer.PeerID == 0`},
		{"topo.chkPeerKnown", "references unknown store", `_, ok := storeIDs[peer.StoreID]; !ok`},
	}
	for _, c := range clauses {
		present, shape := false, true
		if va == nil {
			shape = false
		} else {
			got := ifChainFor(cf, va.Body, c.msg)
			if got != "" {
				present = true
				if got != c.cond {
					shape = false
				}
			}
		}
		o.Set(c.fact, "config/config.go:Validate", fmt.Sprint(present), shape, "true")
	}
	// the store-id set must be filled for every store, or the "known" checks mean something else
	if va != nil && !cf.HasStmt(va.Body, "storeIDs[st.StoreID] = struct{}{}") {
		o.ShapeErrors = append(o.ShapeErrors, "extract:topo.storeSet (config/config.go:Validate): storeIDs not filled per store")
	}

	f := o.Facts
	lean := fmt.Sprintf(`-- GENERATED by /verif/extract/cmd/region from the current /repo working tree. Do not edit.
import NoKVModel.Region.PD
import NoKVModel.Region.Cmd
import NoKVModel.Region.Catalog
import NoKVModel.Region.Persist
import NoKVModel.Region.Topology

namespace NoKV.Generated.Region
open NoKV NoKV.Region

def pdCfg : PDCfg :=
  { rejectsInverted := %s, staleVerOp := .%s, staleConfOp := .%s, overlapOp := .%s, lookupEndOp := .%s }

def cmdCfg : CmdCfg :=
  { keyStartOp := .%s, keyEndOp := .%s, uncheckedKinds := [%s], unknownRejected := %s,
    epochBothFields := %s, proposeScanTrimmed := %s, trimEach := %s }

def catCfg : CatCfg :=
  { mergeRule := .%s, transitions := [%s], splitStartOp := .%s, splitEndOp := .%s,
    splitBumpsVersion := %s, mergeBumpsVersion := %s }

def persistCfg : PCfg :=
  { persistFirst := %s, snapshotAll := %s }

def topoCfg : TopoCfg :=
  { chkTempl := %s, chkDockerTempl := %s, chkStoreZero := %s, chkStoreDup := %s, chkRegionZero := %s,
    chkLeaderKnown := %s, chkPeerZero := %s, chkPeerKnown := %s }

end NoKV.Generated.Region
`,
		f["pd.rejectsInverted"], f["pd.staleVerOp"], f["pd.staleConfOp"], f["pd.overlapOp"], f["pd.lookupEndOp"],
		f["cmd.keyStartOp"], f["cmd.keyEndOp"], leanKinds(f["cmd.uncheckedKinds"]), f["cmd.unknownRejected"],
		f["cmd.epochBothFields"], f["cmd.proposeScanTrimmed"], f["cmd.trimEach"],
		f["cat.mergeRule"], leanPairs(f["cat.transitions"]), f["cat.splitStartOp"], f["cat.splitEndOp"],
		f["cat.splitBumpsVersion"], f["cat.mergeBumpsVersion"],
		f["cat.persistFirst"], f["man.snapshotAllRegions"],
		f["topo.chkTempl"], f["topo.chkDockerTempl"], f["topo.chkStoreZero"], f["topo.chkStoreDup"], f["topo.chkRegionZero"],
		f["topo.chkLeaderKnown"], f["topo.chkPeerZero"], f["topo.chkPeerKnown"])
	o.Write(*jsonOut, *leanOut, lean)
}

func first(xs []string) string {
	if len(xs) == 0 {
		return ""
	}
	return xs[0]
}

func leanKinds(s string) string {
	if s == "" {
		return ""
	}
	m := map[string]string{"get": ".get", "scan": ".scan", "prewrite": ".prewrite", "commit": ".commit",
		"rollback": ".rollback", "resolve": ".resolve", "checkstatus": ".checkStatus"}
	var out []string
	for _, k := range strings.Split(s, ",") {
		out = append(out, m[k])
	}
	return strings.Join(out, ", ")
}

func leanPairs(s string) string {
	if s == "" {
		return ""
	}
	var out []string
	for _, p := range strings.Split(s, ",") {
		ab := strings.Split(p, "-")
		out = append(out, fmt.Sprintf("(%s, %s)", ab[0], ab[1]))
	}
	return strings.Join(out, ", ")
}

// ifChainFor finds the `return fmt.Errorf(<msg…>)` and renders the chain of enclosing
// if-conditions inside Validate's loops (outer >> inner), including init statements.
func ifChainFor(f *elib.File, body ast.Node, msg string) string {
	var chain []string
	var res string
	var walk func(n ast.Node, conds []string)
	walk = func(n ast.Node, conds []string) {
		if n == nil || res != "" {
			return
		}
		switch s := n.(type) {
		case *ast.IfStmt:
			c := f.Src(s.Cond)
			if s.Init != nil {
				c = f.Src(s.Init) + "; " + c
			}
			inner := append(append([]string{}, conds...), c)
			walk(s.Body, inner)
			if s.Else != nil {
				walk(s.Else, conds)
			}
		case *ast.BlockStmt:
			for _, st := range s.List {
				walk(st, conds)
			}
		case *ast.RangeStmt:
			walk(s.Body, conds)
		case *ast.ForStmt:
			walk(s.Body, conds)
		case *ast.ReturnStmt:
			if strings.Contains(f.Src(s), msg) {
				res = strings.Join(conds, " >> ")
			}
		}
	}
	_ = chain
	walk(body, nil)
	return res
}

// Fact extractor for the Disk engine (C09, C10, C12): order of the effectful calls of the
// commit path, the flush, Close, and the decisions of recovery, read off the current source.
package main

import (
	"flag"
	"fmt"
	"go/ast"
	"go/token"
	"sort"
	"strings"

	"verif/extract/elib"
)

type callPos struct {
	name string
	pos  token.Pos
}

// callsIn returns (callee source, position) of every call under n, in source order.
func callsIn(f *elib.File, n ast.Node) []callPos {
	var out []callPos
	if n == nil {
		return out
	}
	ast.Inspect(n, func(x ast.Node) bool {
		if c, ok := x.(*ast.CallExpr); ok {
			out = append(out, callPos{f.Src(c.Fun), c.Pos()})
		}
		return true
	})
	sort.Slice(out, func(i, j int) bool { return out[i].pos < out[j].pos })
	return out
}

// orderOf maps the calls named in `names` (callee -> label) to the sequence of labels in
// source order, keeping the first (or last, per label in `last`) occurrence of each label.
func orderOf(calls []callPos, names map[string]string, last map[string]bool) []string {
	firstPos := map[string]token.Pos{}
	for _, c := range calls {
		lab, ok := names[c.name]
		if !ok {
			continue
		}
		if _, seen := firstPos[lab]; !seen || last[lab] {
			firstPos[lab] = c.pos
		}
	}
	var labs []string
	for l := range firstPos {
		labs = append(labs, l)
	}
	sort.Slice(labs, func(i, j int) bool { return firstPos[labs[i]] < firstPos[labs[j]] })
	return labs
}

func body(fd *ast.FuncDecl) ast.Node {
	if fd == nil {
		return nil
	}
	return fd.Body
}

func main() {
	repo := flag.String("repo", "/repo", "repository root")
	jsonOut := flag.String("json", "", "facts json")
	leanOut := flag.String("lean", "", "generated Lean file")
	flag.Parse()
	o := elib.New("disk", *repo)

	// ------------------------------------------------------------ db_write.go
	dw := o.Load("db_write.go")
	{
		// db.commitOrder: inside commitWorker, vlog.write → applyRequests → wal.Sync (guarded by
		// SyncWrites) → finishCommitRequests (the calls that follow applyRequests)
		fd := dw.Func("DB.commitWorker")
		calls := callsIn(dw, body(fd))
		var applyPos token.Pos
		for _, c := range calls {
			if c.name == "db.applyRequests" {
				applyPos = c.pos
			}
		}
		var seq []string
		seen := map[string]bool{}
		for _, c := range calls {
			lab := ""
			switch c.name {
			case "db.vlog.write":
				lab = "vlog"
			case "db.applyRequests":
				lab = "apply"
			case "db.wal.Sync":
				lab = "sync"
			case "db.finishCommitRequests":
				if applyPos != 0 && c.pos > applyPos {
					lab = "ack"
				}
			}
			if lab != "" && !seen[lab] {
				seen[lab] = true
				seq = append(seq, lab)
			}
		}
		guarded := false
		for _, cond := range dw.IfWithBodyContaining(body(fd), "db.wal.Sync()") {
			if strings.Contains(cond, "db.opt.SyncWrites") {
				guarded = true
			}
		}
		ok := fd != nil && seen["vlog"] && seen["apply"] && seen["ack"] && (!seen["sync"] || guarded)
		o.Set("db.commitOrder", "db_write.go:commitWorker", strings.Join(seq, ","), ok, "vlog,apply,sync,ack")
	}
	{
		fd := dw.Func("DB.applyRequests")
		seq := orderOf(callsIn(dw, body(fd)), map[string]string{"db.writeToLSM": "lsm", "db.updateHead": "head"}, nil)
		o.Set("db.applyOrder", "db_write.go:applyRequests", strings.Join(seq, ","), fd != nil && len(seq) == 2, "lsm,head")
	}

	{
		// db.headPerRequest: applyRequests logs the value-log head for EVERY request of a commit batch
		// (updateHead only looks at the buckets of the pointers it is given): the call is a statement
		// of the loop body over `reqs`, with that request's pointers
		fd := dw.Func("DB.applyRequests")
		per := false
		if fd != nil {
			ast.Inspect(fd.Body, func(x ast.Node) bool {
				rs, isRange := x.(*ast.RangeStmt)
				if !isRange || dw.Src(rs.X) != "reqs" {
					return true
				}
				for _, st := range rs.Body.List {
					if es, isExpr := st.(*ast.ExprStmt); isExpr && dw.Src(es.X) == "db.updateHead(r.Ptrs)" {
						per = true
					}
				}
				return false
			})
		}
		o.Set("db.headPerRequest", "db_write.go:applyRequests", "perRequest", per, "perRequest")
	}
	{
		// manifest.rewriteOrder: rewriteLocked switches CURRENT to the new snapshot before the old
		// manifest file is removed
		mf := o.Load("manifest/manager.go")
		fd := mf.Func("Manager.rewriteLocked")
		var cur, rem token.Pos
		if fd != nil {
			ast.Inspect(fd.Body, func(x ast.Node) bool {
				c, isCall := x.(*ast.CallExpr)
				if !isCall {
					return true
				}
				switch mf.Src(c.Fun) {
				case "m.writeCurrent":
					if cur == 0 {
						cur = c.Pos()
					}
				case "m.fs.Remove":
					if len(c.Args) == 1 && strings.Contains(mf.Src(c.Args[0]), "oldName") {
						rem = c.Pos()
					}
				}
				return true
			})
		}
		o.Set("manifest.rewriteOrder", "manifest/manager.go:rewriteLocked", "current,remove", fd != nil && cur != 0 && rem != 0 && cur < rem, "current,remove")
	}
	{
		// wal.recordBound (same rule and name as the WAL extractor): DecodeRecord trusts the length
		// field; the only comparison on it is `length == 0`
		rec := o.Load("wal/record.go")
		dec := rec.Func("DecodeRecord")
		ok := dec != nil
		if ok {
			n := strings.Count(rec.Src(dec.Body), "utils.ErrPartialRecord")
			ok = n >= 2 && n <= 3
			for _, c := range rec.Comparisons(dec.Body) {
				if (c.X == "length" || c.Y == "length") && !(c.X == "length" && c.Y == "0" && c.Op == "eq") {
					ok = false
				}
			}
		}
		o.Set("wal.recordBound", "wal/record.go:DecodeRecord", "none", ok, "none")
	}

	// ------------------------------------------------------------ lsm/lsm.go SetBatch
	ll := o.Load("lsm/lsm.go")
	{
		fd := ll.Func("LSM.SetBatch")
		val, ok := "", false
		whole, slice := false, false
		if fd != nil {
			ast.Inspect(fd.Body, func(x ast.Node) bool {
				c, isCall := x.(*ast.CallExpr)
				if !isCall || ll.Src(c.Fun) != "mt.setBatch" || len(c.Args) != 1 {
					return true
				}
				switch c.Args[0].(type) {
				case *ast.SliceExpr:
					slice = true
				case *ast.Ident:
					whole = true
				}
				return true
			})
		}
		switch {
		case slice && !whole:
			val, ok = "split", true
		case whole && !slice:
			// the repaired shape: one setBatch(entries) call, rotation decided on the batch total
			val, ok = "whole", true
		}
		o.Set("lsm.batchSplit", "lsm/lsm.go:SetBatch", val, ok, "split")
	}
	{
		// lsm.flushWorkers: recovery drops every WAL segment at or below the manifest log pointer
		// without replaying it, which is only sound when flushes are installed in segment order:
		// exactly one flush worker (the literal argument of the only startFlushWorkers call in NewLSM)
		fd := ll.Func("NewLSM")
		val, n := "", 0
		if fd != nil {
			ast.Inspect(fd.Body, func(x ast.Node) bool {
				c, isCall := x.(*ast.CallExpr)
				if isCall && ll.Src(c.Fun) == "lsm.startFlushWorkers" && len(c.Args) == 1 {
					n++
					if lit, isLit := c.Args[0].(*ast.BasicLit); isLit {
						val = lit.Value
					}
				}
				return true
			})
		}
		o.Set("lsm.flushWorkers", "lsm/lsm.go:NewLSM", val, fd != nil && n == 1 && val != "", "1")
	}
	{
		// oracle.seed, part 1: LSM.MaxVersion covers memtable, immutables, levels
		fd := ll.Func("LSM.MaxVersion")
		src := ll.Src(body(fd))
		var srcs []string
		if strings.Contains(src, "lsm.memTable.maxVersion") {
			srcs = append(srcs, "mem")
		}
		if strings.Contains(src, "range lsm.immutables") && strings.Contains(src, "mt.maxVersion") {
			srcs = append(srcs, "imm")
		}
		// the table indexes are consulted unconditionally: `if v := lm.maxVersion(); v > max { max = v }`
		// and nothing returns before it (one `return 0` for a nil receiver, one final `return max`)
		tablesMax, returns := false, 0
		if fd != nil {
			ast.Inspect(fd.Body, func(x ast.Node) bool {
				switch n := x.(type) {
				case *ast.ReturnStmt:
					returns++
				case *ast.IfStmt:
					if n.Init != nil && ll.Src(n.Init) == "v := lm.maxVersion()" && ll.Src(n.Cond) == "v > max" {
						tablesMax = true
					}
				}
				return true
			})
		}
		if strings.Contains(src, "lm.maxVersion()") && tablesMax && returns == 2 {
			srcs = append(srcs, "tables")
		}
		// part 2: memtable maxVersion is maintained by WAL replay
		mtf := o.Load("lsm/memtable.go")
		om := mtf.Func("LSM.openMemTable")
		replayTracks := strings.Contains(mtf.Src(body(om)), "mt.maxVersion = ts")
		// part 3: Open seeds the oracle with it, initCommitState stores committed+1
		dbf := o.Load("db.go")
		op := dbf.Func("Open")
		opSrc := dbf.Src(body(op))
		seeded := strings.Contains(opSrc, "recoveredVersion := db.lsm.MaxVersion()") && strings.Contains(opSrc, "db.orc.initCommitState(recoveredVersion)")
		tx := o.Load("txn.go")
		ic := tx.Func("oracle.initCommitState")
		plus := "plus0"
		if tx.HasStmt(body(ic), "o.nextTxnTs.Store(committed + 1)") {
			plus = "plus1"
		}
		ok := fd != nil && om != nil && op != nil && ic != nil && replayTracks && seeded
		o.Set("oracle.seed", "db.go:Open, txn.go:initCommitState, lsm/lsm.go:MaxVersion, lsm/memtable.go:openMemTable",
			strings.Join(srcs, ",")+";"+plus, ok, "mem,imm,tables;plus1")
	}

	{
		// oracle.seedOp (same rule and name as the MVCC extractor): the comparison that decides whether
		// initCommitState moves nextTxnTs, with the early return for 0 and the oracle starting at 1
		tx := o.Load("txn.go")
		ic := tx.Func("oracle.initCommitState")
		op, ok := tx.FindCmp(body(ic), "committed", "o.nextTxnTs.Load()")
		early := false
		for _, c := range tx.IfWithBodyContaining(body(ic), "return") {
			if c == "o == nil || committed == 0" {
				early = true
			}
		}
		nw := tx.Func("newOracle")
		ok = ok && early && nw != nil && tx.HasStmt(nw.Body, "orc.nextTxnTs.Store(1)")
		o.Set("oracle.seedOp", "txn.go:oracle.initCommitState", op, ok, "ge")
	}

	// ------------------------------------------------------------ wal/manager.go
	wm := o.Load("wal/manager.go")
	{
		fd := wm.Func("Manager.AppendRecords")
		direct, scratch, guard, oneWrite := false, false, false, 0
		if fd != nil {
			ast.Inspect(fd.Body, func(x ast.Node) bool {
				c, isCall := x.(*ast.CallExpr)
				if !isCall {
					return true
				}
				switch wm.Src(c.Fun) {
				case "EncodeRecord":
					if len(c.Args) > 0 {
						if wm.Src(c.Args[0]) == "m.writer" {
							direct = true
						} else {
							scratch = true
						}
					}
				case "m.writer.Write":
					oneWrite++
				case "m.writer.Buffered":
					guard = true
				}
				return true
			})
		}
		val, ok := "", false
		switch {
		case direct && !scratch:
			val, ok = "perRecord", true
		case scratch && !direct && guard && oneWrite == 1:
			val, ok = "atomic", true
		}
		o.Set("wal.batchAppend", "wal/manager.go:AppendRecords", val, ok, "perRecord")
	}
	{
		fd := wm.Func("Manager.Close")
		seq := orderOf(callsIn(wm, body(fd)), map[string]string{"m.writer.Flush": "flush", "m.active.Sync": "sync", "m.active.Close": "close"},
			map[string]bool{"close": true}) // the happy path closes last; earlier Close calls are error branches
		o.Set("close.order", "wal/manager.go:Close", strings.Join(seq, ","), fd != nil && len(seq) >= 2, "flush,sync,close")
	}
	{
		// the segment switch of a memtable rotation flushes and syncs the old segment first
		fd := wm.Func("Manager.switchSegmentLocked")
		seq := orderOf(callsIn(wm, body(fd)), map[string]string{"m.writer.Flush": "flush", "m.active.Sync": "sync", "m.active.Close": "close", "m.cfg.FS.OpenFileHandle": "open"}, nil)
		o.Set("wal.switchOrder", "wal/manager.go:switchSegmentLocked", strings.Join(seq, ","), fd != nil, "flush,sync,close,open")
	}
	{
		fd := wm.Func("Manager.Sync")
		seq := orderOf(callsIn(wm, body(fd)), map[string]string{"m.writer.Flush": "flush", "m.active.Sync": "sync"}, nil)
		o.Set("wal.syncOrder", "wal/manager.go:Sync", strings.Join(seq, ","), fd != nil, "flush,sync")
	}

	// ------------------------------------------------------------ db.go closeInternal
	dbf := o.Load("db.go")
	{
		fd := dbf.Func("DB.closeInternal")
		seq := orderOf(callsIn(dbf, body(fd)), map[string]string{"db.stopCommitWorkers": "commit", "db.lsm.Close": "lsm", "db.vlog.close": "vlog", "db.wal.Close": "wal"}, nil)
		o.Set("db.closeOrder", "db.go:closeInternal", strings.Join(seq, ","), fd != nil, "commit,lsm,vlog,wal")
	}
	{
		// recovery order of Open: manifest/WAL/vlog verification, WAL open, LSM (manifest + WAL replay),
		// value log (reconcile), oracle seeding, commit worker
		fd := dbf.Func("Open")
		seq := orderOf(callsIn(dbf, body(fd)), map[string]string{"db.runRecoveryChecks": "verify", "wal.Open": "wal", "lsm.NewLSM": "lsm",
			"db.lsm.MaxVersion": "maxver", "db.initVLog": "vlog", "db.orc.initCommitState": "seed", "db.commitWorker": "commit"}, nil)
		o.Set("db.openOrder", "db.go:Open", strings.Join(seq, ","), fd != nil, "verify,wal,lsm,maxver,vlog,seed,commit")
	}

	// ------------------------------------------------------------ lsm/levels.go flush
	lv := o.Load("lsm/levels.go")
	{
		fd := lv.Func("levelManager.flush")
		seq := orderOf(callsIn(lv, body(fd)), map[string]string{"openTable": "sst", "lm.manifestMgr.LogEdits": "manifest", "lm.lsm.wal.RemoveSegment": "remove"},
			map[string]bool{"remove": true})
		o.Set("flush.order", "lsm/levels.go:flush", strings.Join(seq, ","), fd != nil && len(seq) == 3, "sst,manifest,remove")
	}
	{
		// recovery drops WAL segments at or below the manifest log pointer
		mtf := o.Load("lsm/memtable.go")
		fd := mtf.Func("LSM.recovery")
		op, ok := mtf.FindCmp(body(fd), "fid", "uint64(seg)")
		o.Set("recovery.logPointerOp", "lsm/memtable.go:recovery", op, ok, "le")
	}

	{
		// WAL segment ids and SST ids share one allocator (levels.maxFID): recovery may only RAISE it
		// (start from the value build() derived from the manifest's tables, max with every segment id)
		mtf := o.Load("lsm/memtable.go")
		fd := mtf.Func("LSM.recovery")
		b := body(fd)
		starts := mtf.HasStmt(b, "maxFid := lsm.levels.maxFID")
		op, cmp := mtf.FindCmp(b, "fid", "maxFid")
		raises := cmp && op == "gt" && mtf.HasStmt(b, "maxFid = fid")
		stores := mtf.HasStmt(b, "lsm.levels.maxFID = maxFid")
		o.Set("recovery.fidAllocator", "lsm/memtable.go:recovery", "raise", fd != nil && starts && raises && stores, "raise")
	}

	// ------------------------------------------------------------ vlog.go
	vl := o.Load("vlog.go")
	{
		fd := vl.Func("DB.shouldPersistHead")
		conds := vl.IfConds(body(fd))
		var rule []string
		has := func(s string) bool {
			for _, c := range conds {
				if c == s {
					return true
				}
			}
			return false
		}
		if has("last.IsZero()") {
			rule = append(rule, "zero")
		}
		if has("next.Fid != last.Fid") {
			rule = append(rule, "fidchange")
		}
		if has("next.Offset-last.Offset >= db.headLogDelta") {
			rule = append(rule, "delta")
		}
		o.Set("vlog.headPersistRule", "vlog.go:shouldPersistHead", strings.Join(rule, ","), fd != nil && len(rule) > 0, "zero,fidchange,delta")
	}
	{
		fd := vl.Func("valueLog.reconcileManifest")
		val, ok := "", false
		if fd != nil {
			// the orphan loop: `for fid := range existing { if fid <= threshold { continue } ... mgr.Remove(fid) ... }`
			ast.Inspect(fd.Body, func(x ast.Node) bool {
				rs, isRange := x.(*ast.RangeStmt)
				if !isRange || vl.Src(rs.X) != "existing" {
					return true
				}
				op, found := vl.FindCmp(rs.Body, "fid", "threshold")
				if found && op == "le" && vl.HasCall(rs.Body, "mgr.Remove") {
					val, ok = "dropAboveMaxValid", true
				} else if !vl.HasCall(rs.Body, "mgr.Remove") {
					val, ok = "keep", true
				}
				return false
			})
			if !ok && !strings.Contains(vl.Src(fd.Body), "range existing") {
				val, ok = "keep", true
			}
		}
		o.Set("reconcile.rule", "vlog.go:reconcileManifest", val, ok, "dropAboveMaxValid")
	}
	{
		// valueLog.write: append precedes the (SyncWrites) sync of the touched segments
		fd := vl.Func("valueLog.write")
		seq := orderOf(callsIn(vl, body(fd)), map[string]string{"mgr.AppendEntries": "append", "mgr.SyncFIDs": "sync"}, nil)
		o.Set("vlog.writeOrder", "vlog.go:valueLog.write", strings.Join(seq, ","), fd != nil, "append,sync")
	}

	f := o.Facts
	b := func(c bool) string {
		if c {
			return "true"
		}
		return "false"
	}
	flushOrder := map[string]string{"sst,manifest,remove": ".sstManifestRemove", "sst,remove,manifest": ".sstRemoveManifest", "manifest,sst,remove": ".manifestSstRemove"}[f["flush.order"]]
	if flushOrder == "" {
		flushOrder = ".sstManifestRemove"
	}
	seed := strings.SplitN(f["oracle.seed"], ";", 2)
	srcs := map[string]bool{}
	for _, s := range strings.Split(seed[0], ",") {
		srcs[s] = true
	}
	plus1 := len(seed) == 2 && seed[1] == "plus1"
	lean := fmt.Sprintf(`-- GENERATED by /verif/extract/cmd/disk from the current /repo working tree. Do not edit.
import NoKVModel.Disk.Model

namespace NoKV.Generated.Disk
open NoKV NoKV.Disk

def cfg : Cfg :=
  { ackAfterSync := %s, headFirst := %s, batchWhole := %s, atomicAppend := %s,
    flushOrder := %s, closeFlushesWal := %s, headOnFidChange := %s, reconcileDrops := %s,
    seedMem := %s, seedTables := %s, seedPlusOne := %s, seedGe := %s }

end NoKV.Generated.Disk
`,
		b(f["db.commitOrder"] == "vlog,apply,sync,ack"), b(f["db.applyOrder"] == "head,lsm"), b(f["lsm.batchSplit"] == "whole"),
		b(f["wal.batchAppend"] == "atomic"), flushOrder, b(strings.HasPrefix(f["close.order"], "flush,")),
		b(strings.Contains(f["vlog.headPersistRule"], "fidchange")), b(f["reconcile.rule"] == "dropAboveMaxValid"),
		b(srcs["mem"] && srcs["imm"]), b(srcs["tables"]), b(plus1), b(f["oracle.seedOp"] == "ge"))
	o.Write(*jsonOut, *leanOut, lean)
}

// Fact extractor for the iterator engine (C06): re-reads lsm/iterator.go, txn.go,
// txn_iterator.go, iterator.go, kv/entry.go with go/ast on every run.
package main

import (
	"flag"
	"fmt"
	"go/ast"
	"go/token"
	"strings"

	"verif/extract/elib"
)

func body(fd *ast.FuncDecl) ast.Node {
	if fd == nil || fd.Body == nil {
		return nil
	}
	return fd.Body
}

// cmpFact records the single operator of the comparison (x, y) inside n.
func cmpFact(o *elib.Out, f *elib.File, n ast.Node, name, anchor, x, y, fallback string) {
	if n == nil {
		o.Set(name, anchor, "", false, fallback)
		return
	}
	op, ok := f.FindCmp(n, x, y)
	o.Set(name, anchor, op, ok, fallback)
}

func main() {
	repo := flag.String("repo", "/repo", "repository root")
	jsonOut := flag.String("json", "", "facts json")
	leanOut := flag.String("lean", "", "generated Lean file")
	flag.Parse()
	o := elib.New("iter", *repo)

	// ------------------------------------------------------------ lsm/iterator.go
	li := o.Load("lsm/iterator.go")
	{
		// merge.eqKeyAdvances: MergeIterator.fix, `case cmp == 0:` — first `<side>.next()` call
		anchor := "lsm/iterator.go:MergeIterator.fix"
		fix := li.Func("MergeIterator.fix")
		val, ok := "", false
		if fix != nil {
			cc := li.CaseClauses(fix.Body, "")
			if c, has := cc["cmp == 0"]; has {
				var calls []string
				for _, st := range c.Body {
					calls = append(calls, li.Calls(st)...)
				}
				var nexts []string
				for _, c := range calls {
					if c == "mi.right.next" {
						nexts = append(nexts, "right")
					}
					if c == "mi.left.next" {
						nexts = append(nexts, "left")
					}
				}
				if len(nexts) == 1 {
					val, ok = nexts[0], true
				}
			}
		}
		o.Set("merge.eqKeyAdvances", anchor, val, ok, "right")
	}
	{
		// lsm.immIterOrder: NewIterators walks the copy of lsm.immutables; lsm.go:rotateLocked appends
		anchor := "lsm/iterator.go:LSM.NewIterators"
		ni := li.Func("LSM.NewIterators")
		val, ok := "", false
		if ni != nil {
			ast.Inspect(ni.Body, func(x ast.Node) bool {
				switch s := x.(type) {
				case *ast.RangeStmt:
					if li.Src(s.X) == "immutables" && strings.Contains(li.Src(s.Body), "imm.NewIterator(opt)") {
						val, ok = "oldestFirst", true
					}
				case *ast.ForStmt:
					src := li.Src(s)
					if strings.Contains(src, "immutables[i]") && s.Post != nil && li.Src(s.Post) == "i--" &&
						s.Init != nil && li.Src(s.Init) == "i := len(immutables) - 1" {
						val, ok = "newestFirst", true
					}
				}
				return true
			})
		}
		lg := o.Load("lsm/lsm.go")
		rl := lg.Func("LSM.rotateLocked")
		if rl == nil || !lg.HasStmt(rl.Body, "lsm.immutables = append(lsm.immutables, old)") {
			ok = false
		}
		o.Set("lsm.immIterOrder", anchor, val, ok, "oldestFirst")
	}

	// ------------------------------------------------------------ txn.go
	tx := o.Load("txn.go")
	{
		anchor := "txn.go:newPendingWritesIterator"
		np := tx.Func("Txn.newPendingWritesIterator")
		sk := tx.Func("pendingWritesIterator.Seek")
		classify := func(n ast.Node, a, b string) string {
			if n == nil {
				return ""
			}
			res := ""
			ast.Inspect(n, func(x ast.Node) bool {
				c, isCall := x.(*ast.CallExpr)
				if !isCall || len(c.Args) != 2 {
					return true
				}
				if tx.Src(c.Args[0]) != a || tx.Src(c.Args[1]) != b {
					return true
				}
				switch tx.Src(c.Fun) {
				case "bytes.Compare":
					res += "rawBytes;"
				case "utils.CompareKeys":
					res += "compareKeys;"
				default:
					res += "?;"
				}
				return true
			})
			return res
		}
		a := classify(body(np), "entries[i].Key", "entries[j].Key")
		b := classify(body(sk), "pi.entries[idx].Key", "key")
		val, ok := "", false
		if a == b && (a == "rawBytes;" || a == "compareKeys;") {
			val, ok = strings.TrimSuffix(a, ";"), true
		}
		o.Set("txn.pendingCmp", anchor, val, ok, "rawBytes")
	}

	{
		// txn.pendingFresh: newPendingWritesIterator builds its sorted copy from the CURRENT
		// txn.pendingWrites on every call: exactly two returns (`return nil` guard, the new iterator),
		// the copy loop ranges over txn.pendingWrites, no field of txn is assigned (no cached copy)
		anchor := "txn.go:newPendingWritesIterator"
		np := tx.Func("Txn.newPendingWritesIterator")
		ok := false
		if np != nil {
			rets, ranges, assignsTxn := 0, 0, 0
			ast.Inspect(np.Body, func(x ast.Node) bool {
				switch n := x.(type) {
				case *ast.FuncLit:
					return false
				case *ast.ReturnStmt:
					rets++
				case *ast.RangeStmt:
					if tx.Src(n.X) == "txn.pendingWrites" {
						ranges++
					}
				case *ast.AssignStmt:
					for _, l := range n.Lhs {
						if strings.HasPrefix(tx.Src(l), "txn.") {
							assignsTxn++
						}
					}
				}
				return true
			})
			src := tx.Src(np.Body)
			ok = rets == 2 && ranges == 1 && assignsTxn == 0 &&
				strings.Contains(src, "if !txn.update || len(txn.pendingWrites) == 0 { return nil }") &&
				strings.Contains(src, "entries: entries")
		}
		o.Set("txn.pendingFresh", anchor, "true", ok, "true")
	}

	// ------------------------------------------------------------ txn_iterator.go
	ti := o.Load("txn_iterator.go")
	adv := ti.Func("TxnIterator.advance")
	{
		anchor := "txn_iterator.go:TxnIterator.advance"
		val, ok := "", false
		if adv != nil {
			n := 0
			ast.Inspect(adv.Body, func(x ast.Node) bool {
				s, isIf := x.(*ast.IfStmt)
				if !isIf || !strings.HasPrefix(ti.Src(s.Cond), "!it.materializeEntry(") {
					return true
				}
				n++
				src := ti.Src(s.Body)
				if !strings.Contains(src, "it.iitr.Next()") {
					return true
				}
				// repaired shape: `if !it.opt.Reverse { it.lastKey = append(it.lastKey[:0], userKey...) }`
				guarded := false
				for _, c := range ti.IfWithBodyContaining(s.Body, "it.lastKey = append(it.lastKey[:0], userKey...)") {
					if c == "!it.opt.Reverse" {
						guarded = true
					}
				}
				if guarded {
					val = "true"
				} else if !strings.Contains(src, "lastKey") {
					val = "false"
				}
				return true
			})
			ok = n == 1 && val != ""
			// the success path must still record lastKey after materializeEntry
			if !ti.HasStmt(adv.Body, "it.lastKey = append(it.lastKey[:0], userKey...)") {
				ok = false
			}
		}
		o.Set("txnit.lastKeyOnSkip", anchor, val, ok, "false")
	}
	{
		// txnit.revGroup: as written advance treats both directions alike apart from the two
		// bound checks (`it.opt.Reverse` occurs exactly twice, never together with a loop).
		anchor := "txn_iterator.go:TxnIterator.advance"
		val, ok := "", false
		if adv != nil {
			src := ti.Src(adv.Body)
			n := strings.Count(src, "it.opt.Reverse")
			loops := 0
			ast.Inspect(adv.Body, func(x ast.Node) bool {
				if _, isFor := x.(*ast.ForStmt); isFor {
					loops++
				}
				return true
			})
			switch {
			case (n == 2 || n == 3) && loops == 1:
				// the two bound checks (+ the forward-only lastKey guard of the repaired skip path)
				val, ok = "firstSeen", true
			case n >= 3 && loops >= 2 && strings.Contains(src, "it.opt.AllVersions"):
				// a reverse-specific look-ahead loop over the versions of one key
				val, ok = "newest", true
			}
		}
		o.Set("txnit.revGroup", anchor, val, ok, "firstSeen")
	}
	cmpFact(o, ti, body(adv), "txnit.lowerOp", "txn_iterator.go:TxnIterator.advance", "userKey", "it.opt.LowerBound", "lt")
	cmpFact(o, ti, body(adv), "txnit.upperOp", "txn_iterator.go:TxnIterator.advance", "userKey", "it.opt.UpperBound", "ge")
	cmpFact(o, ti, body(adv), "txnit.readTsOp", "txn_iterator.go:TxnIterator.advance", "version", "it.readTs", "gt")
	cmpFact(o, ti, body(adv), "txnit.sinceOp", "txn_iterator.go:TxnIterator.advance", "version", "it.opt.SinceTs", "le")
	tsk := ti.Func("TxnIterator.Seek")
	cmpFact(o, ti, body(tsk), "txnit.seekLowerOp", "txn_iterator.go:TxnIterator.Seek", "key", "it.opt.LowerBound", "lt")
	cmpFact(o, ti, body(tsk), "txnit.seekUpperOp", "txn_iterator.go:TxnIterator.Seek", "key", "it.opt.UpperBound", "ge")
	ev := ti.Func("readTsIterator.ensureVisible")
	cmpFact(o, ti, body(ev), "readts.op", "txn_iterator.go:readTsIterator.ensureVisible", "kv.ParseTs(item.Entry().Key)", "ri.readTs", "gt")

	// ------------------------------------------------------------ iterator.go
	di := o.Load("iterator.go")
	pop := di.Func("DBIterator.populate")
	cmpFact(o, di, body(pop), "dbit.lowerOp", "iterator.go:DBIterator.populate", "userKey", "iter.lowerBound", "lt")
	cmpFact(o, di, body(pop), "dbit.upperOp", "iterator.go:DBIterator.populate", "userKey", "iter.upperBound", "ge")
	dsk := di.Func("DBIterator.Seek")
	cmpFact(o, di, body(dsk), "dbit.seekLowerOp", "iterator.go:DBIterator.Seek", "key", "iter.lowerBound", "lt")
	cmpFact(o, di, body(dsk), "dbit.seekUpperOp", "iterator.go:DBIterator.Seek", "key", "iter.upperBound", "ge")
	{
		// dbit.revSeekTs: version argument of the single kv.InternalKey call of Seek
		anchor := "iterator.go:DBIterator.Seek"
		val, ok := "", false
		if dsk != nil {
			var args []string
			ast.Inspect(dsk.Body, func(x ast.Node) bool {
				if c, isCall := x.(*ast.CallExpr); isCall && di.Src(c.Fun) == "kv.InternalKey" && len(c.Args) == 3 {
					args = append(args, di.Src(c.Args[2]))
				}
				return true
			})
			if len(args) == 1 {
				if args[0] == "nonTxnMaxVersion" {
					val, ok = "max", true
				} else if id := args[0]; token.IsIdentifier(id) {
					// `<id> := uint64(nonTxnMaxVersion)` … `if !iter.isAsc { <id> = 0 }`
					for _, c := range di.IfWithBodyContaining(dsk.Body, id+" = 0") {
						if c == "!iter.isAsc" {
							val, ok = "zero", true
						}
					}
				}
			}
		}
		o.Set("dbit.revSeekTs", anchor, val, ok, "max")
	}
	{
		// dbit.skipsDeleted: materialize (or kv.Entry.IsDeletedOrExpired, which it calls) tests kv.BitDelete
		anchor := "iterator.go:DBIterator.materialize"
		mat := di.Func("DBIterator.materialize")
		ke := o.Load("kv/entry.go")
		ide := ke.Func("Entry.IsDeletedOrExpired")
		val, ok := "", false
		if mat != nil && ide != nil && di.HasCall(mat.Body, "src.IsDeletedOrExpired") {
			inMat := false
			for _, c := range di.IfConds(mat.Body) {
				if strings.Contains(c, "kv.BitDelete") && strings.Contains(c, "src.Meta") {
					inMat = true
				}
			}
			inEntry := strings.Contains(ke.Src(ide.Body), "BitDelete")
			if inMat || inEntry {
				val, ok = "true", true
			} else {
				val, ok = "false", true
			}
		}
		o.Set("dbit.skipsDeleted", anchor, val, ok, "false")
	}

	{
		// sst.seekFallsThrough: tableIterator.Seek, forward branch: after seekHelper(idx-1, key) an
		// `if it.err == io.EOF …` whose body calls it.seekHelper(idx, key)
		anchor := "lsm/table.go:tableIterator.Seek"
		tb := o.Load("lsm/table.go")
		sk := tb.Func("tableIterator.Seek")
		val, ok := "", false
		if sk != nil {
			var asc *ast.IfStmt
			ast.Inspect(sk.Body, func(x ast.Node) bool {
				if s, isIf := x.(*ast.IfStmt); isIf && asc == nil && tb.Src(s.Cond) == "it.opt.IsAsc" {
					asc = s
				}
				return true
			})
			if asc != nil && tb.HasStmt(asc.Body, "it.seekHelper(idx-1, key)") {
				val, ok = "false", true
				for _, c := range tb.IfWithBodyContaining(asc.Body, "it.seekHelper(idx, key)") {
					if strings.Contains(c, "it.err == io.EOF") {
						val = "true"
					}
				}
			}
		}
		o.Set("sst.seekFallsThrough", anchor, val, ok, "false")
	}

	{
		// concat.fwdOp / concat.revOp: ConcatIterator.Seek picks the first table with
		// CompareKeys(MaxKey, key) >= 0 (forward), the last with CompareKeys(MinKey, key) <= 0 (reverse)
		cs := li.Func("ConcatIterator.Seek")
		cmpFact(o, li, body(cs), "concat.fwdOp", "lsm/iterator.go:ConcatIterator.Seek", "s.tables[i].MaxKey()", "key", "ge")
		cmpFact(o, li, body(cs), "concat.revOp", "lsm/iterator.go:ConcatIterator.Seek", "s.tables[n-1-i].MinKey()", "key", "le")
		// and nothing else decides the table: exactly two sort.Search calls, index arithmetic as written
		if cs != nil {
			src := li.Src(cs.Body)
			if strings.Count(src, "sort.Search(") != 2 || !strings.Contains(src, "idx = n - 1 - sort.Search(n, func(i int) bool {") ||
				!strings.Contains(src, "idx = sort.Search(len(s.tables), func(i int) bool { return utils.CompareKeys(s.tables[i].MaxKey(), key) >= 0 })") {
				o.ShapeErrors = append(o.ShapeErrors, "extract:concat.fwdOp (lsm/iterator.go:ConcatIterator.Seek): table selection is not the two sort.Search calls the model assumes")
			}
		}
	}

	f := o.Facts
	lean := fmt.Sprintf(`-- GENERATED by /verif/extract/cmd/iter from the current /repo working tree. Do not edit.
import NoKVModel.Iter.Model

namespace NoKV.Generated.Iter
open NoKV NoKV.Iter

def iterCfg : IterCfg :=
  { eqKeyAdvances := .%s, immOrder := .%s, pendingCmp := .%s, lastKeyOnSkip := %s, revGroup := .%s,
    dbRevSeekTs := .%s, dbSkipsDeleted := %s, sstSeekFallsThrough := %s,
    txnLowerOp := .%s, txnUpperOp := .%s, txnSeekLowerOp := .%s, txnSeekUpperOp := .%s,
    txnReadTsOp := .%s, wrapReadTsOp := .%s, txnSinceOp := .%s,
    dbLowerOp := .%s, dbUpperOp := .%s, dbSeekLowerOp := .%s, dbSeekUpperOp := .%s,
    concatFwdOp := .%s, concatRevOp := .%s }

end NoKV.Generated.Iter
`,
		f["merge.eqKeyAdvances"], f["lsm.immIterOrder"], f["txn.pendingCmp"], f["txnit.lastKeyOnSkip"], f["txnit.revGroup"],
		f["dbit.revSeekTs"], f["dbit.skipsDeleted"], f["sst.seekFallsThrough"],
		f["txnit.lowerOp"], f["txnit.upperOp"], f["txnit.seekLowerOp"], f["txnit.seekUpperOp"],
		f["txnit.readTsOp"], f["readts.op"], f["txnit.sinceOp"],
		f["dbit.lowerOp"], f["dbit.upperOp"], f["dbit.seekLowerOp"], f["dbit.seekUpperOp"],
		f["concat.fwdOp"], f["concat.revOp"])
	o.Write(*jsonOut, *leanOut, lean)
}

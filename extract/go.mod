module verif/extract

go 1.26.0

// Package hlib is the shared machinery of the correspondence harnesses: one PRNG, the pipe
// to the Lean driver, case execution + comparison, delta-debugging, and the result file.
package hlib

import (
	"bufio"
	"encoding/hex"
	"encoding/json"
	"flag"
	"fmt"
	"io"
	"os"
	"os/exec"
	"path/filepath"
	"sort"
	"strings"
	"time"
)

// ---------- PRNG (splitmix64): every random choice of a run derives from VERIF_SEED ----------

type Rand struct{ s uint64 }

// NewRand scrambles the seed first: consecutive seeds must not give shifted copies of one stream.
func NewRand(seed uint64) *Rand {
	z := seed + 0x9E3779B97F4A7C15
	z = (z ^ (z >> 30)) * 0xBF58476D1CE4E5B9
	z = (z ^ (z >> 27)) * 0x94D049BB133111EB
	z ^= z >> 31
	return &Rand{s: z ^ 0x5851F42D4C957F2D}
}

func (r *Rand) U64() uint64 {
	r.s += 0x9E3779B97F4A7C15
	z := r.s
	z = (z ^ (z >> 30)) * 0xBF58476D1CE4E5B9
	z = (z ^ (z >> 27)) * 0x94D049BB133111EB
	return z ^ (z >> 31)
}
func (r *Rand) Intn(n int) int {
	if n <= 0 {
		return 0
	}
	return int(r.U64() % uint64(n))
}
func (r *Rand) Bool() bool          { return r.U64()&1 == 1 }
func (r *Rand) Chance(p int) bool   { return r.Intn(100) < p }
func (r *Rand) Fork() *Rand         { return NewRand(r.U64()) }
func Pick[T any](r *Rand, xs []T) T { return xs[r.Intn(len(xs))] }

// Hex encodes bytes for the line protocol ("-" = empty).
func Hex(b []byte) string {
	if len(b) == 0 {
		return "-"
	}
	return hex.EncodeToString(b)
}

func UnHex(s string) []byte {
	if s == "-" {
		return nil
	}
	b, err := hex.DecodeString(s)
	if err != nil {
		panic("bad hex in op line: " + s)
	}
	return b
}

// ---------- Lean driver process ----------

type Driver struct {
	cmd *exec.Cmd
	in  io.WriteCloser
	out *bufio.Reader
	cfg string
}

func StartDriver(path string, cfgLine string) (*Driver, error) {
	cmd := exec.Command(path)
	in, err := cmd.StdinPipe()
	if err != nil {
		return nil, err
	}
	outp, err := cmd.StdoutPipe()
	if err != nil {
		return nil, err
	}
	cmd.Stderr = os.Stderr
	if err := cmd.Start(); err != nil {
		return nil, err
	}
	d := &Driver{cmd: cmd, in: in, out: bufio.NewReaderSize(outp, 1<<20), cfg: cfgLine}
	return d, nil
}

func (d *Driver) Ask(line string) string {
	if strings.ContainsAny(line, "\n\r") {
		panic("op line contains newline")
	}
	if _, err := io.WriteString(d.in, line+"\n"); err != nil {
		panic(fmt.Sprintf("driver write: %v", err))
	}
	s, err := d.out.ReadString('\n')
	if err != nil {
		panic(fmt.Sprintf("driver read after %q: %v", line, err))
	}
	return strings.TrimRight(s, "\n")
}

// Reset starts a fresh model state and re-sends the configuration line.
func (d *Driver) Reset() {
	d.Ask("reset")
	if d.cfg != "" {
		if r := d.Ask(d.cfg); !strings.HasPrefix(r, "ok") {
			panic("driver rejected cfg line: " + d.cfg + " -> " + r)
		}
	}
}

func (d *Driver) Close() {
	d.in.Close()
	d.cmd.Wait()
}

// ---------- engine interface ----------

// An Engine runs one case (a list of op lines) on the real implementation from a fresh state.
type Engine interface {
	// Gen produces one case.  size hints at the length; tier is "quick" or "thorough".
	Gen(r *Rand, tier string) []string
	// Exec runs ops on the implementation, returning one canonical output per op.
	Exec(ops []string) []string
	// Nontrivial says whether a case (with its outputs) exercised the property's
	// interesting branch; Rule documents that.
	Nontrivial(ops, impl, model, spec []string) bool
	Rule() string
}

// Mismatch is one line where the columns differ.
type Mismatch struct {
	Kind  string   `json:"kind"` // "impl-vs-model" | "impl-vs-spec"
	Case  int      `json:"case"`
	Index int      `json:"index"`
	Ops   []string `json:"ops"` // minimised
	Op    string   `json:"op"`
	Impl  string   `json:"impl"`
	Model string   `json:"model"`
	Spec  string   `json:"spec"`
	From  string   `json:"from"` // "corpus:<file>" | "gen"
}

type Result struct {
	Engine             string         `json:"engine"`
	Seed               uint64         `json:"seed"`
	Tier               string         `json:"tier"`
	Cfg                string         `json:"cfg"`
	Evaluations        int            `json:"evaluations"`
	Ops                int            `json:"ops"`
	DistinctNontrivial int            `json:"distinct_nontrivial"`
	Rule               string         `json:"rule"`
	Samples            []any          `json:"samples"`
	OpHist             map[string]int `json:"op_histogram"`
	OutHist            map[string]int `json:"impl_output_histogram"`
	ImplVsModel        []Mismatch     `json:"impl_vs_model"`
	ImplVsSpec         []Mismatch     `json:"impl_vs_spec"`
	CorpusCases        int            `json:"corpus_cases"`
	WallS              float64        `json:"wall_s"`
	Extra              map[string]any `json:"extra,omitempty"`
}

// SpecAllows implements the spec column's small pattern language:
//
//	"*"            anything
//	"a|b|c"        any of the alternatives
//	"pre*"         (an alternative ending in *) prefix match
func SpecAllows(spec, impl string) bool {
	if spec == "*" {
		return true
	}
	for _, alt := range strings.Split(spec, "|") {
		if strings.HasSuffix(alt, "*") {
			if strings.HasPrefix(impl, strings.TrimSuffix(alt, "*")) {
				return true
			}
		} else if alt == impl {
			return true
		}
	}
	return false
}

func splitCols(s string) (string, string) {
	i := strings.IndexByte(s, '\t')
	if i < 0 {
		return s, "*"
	}
	return s[:i], s[i+1:]
}

// RunCase executes ops on both sides.
func RunCase(e Engine, d *Driver, ops []string) (impl, model, spec []string) {
	impl = safeExec(e, ops)
	d.Reset()
	model = make([]string, len(ops))
	spec = make([]string, len(ops))
	for i, op := range ops {
		model[i], spec[i] = splitCols(d.Ask(op))
	}
	return
}

func safeExec(e Engine, ops []string) (out []string) {
	defer func() {
		if r := recover(); r != nil {
			out = make([]string, len(ops))
			for i := range out {
				out[i] = fmt.Sprintf("harness-panic:%v", r)
			}
		}
	}()
	out = e.Exec(ops)
	if len(out) != len(ops) {
		panic(fmt.Sprintf("engine returned %d outputs for %d ops", len(out), len(ops)))
	}
	return out
}

// firstDiff returns the first index where pred says the columns disagree, or -1.
func firstDiff(impl, other []string, spec bool) int {
	for i := range impl {
		if spec {
			if !SpecAllows(other[i], impl[i]) {
				return i
			}
		} else if impl[i] != other[i] {
			return i
		}
	}
	return -1
}

// Shrink is ddmin over the op list: keeps removing chunks while `bad` still holds.
func Shrink(ops []string, bad func([]string) bool) []string {
	cur := append([]string(nil), ops...)
	n := 2
	budget := 400
	for len(cur) >= 2 && budget > 0 {
		chunk := (len(cur) + n - 1) / n
		reduced := false
		for start := 0; start < len(cur) && budget > 0; start += chunk {
			end := start + chunk
			if end > len(cur) {
				end = len(cur)
			}
			cand := append(append([]string(nil), cur[:start]...), cur[end:]...)
			budget--
			if len(cand) > 0 && bad(cand) {
				cur = cand
				if n > 2 {
					n--
				}
				reduced = true
				break
			}
		}
		if !reduced {
			if n >= len(cur) {
				break
			}
			n *= 2
			if n > len(cur) {
				n = len(cur)
			}
		}
	}
	return cur
}

func opKind(op string) string {
	if i := strings.IndexByte(op, ' '); i >= 0 {
		return op[:i]
	}
	return op
}

func outClass(s string) string {
	if i := strings.IndexAny(s, ":= "); i >= 0 {
		s = s[:i]
	}
	if len(s) > 24 {
		s = s[:24]
	}
	return s
}

// Main is the common entry point of every engine harness.
//
//	-driver path   compiled Lean driver
//	-cfg line      configuration line sent to the driver after every reset
//	-seed N -tier quick|thorough -n cases
//	-corpus dir    *.ops files, run first
//	-replay file   run just this ops file and print the three columns
//	-out file      result JSON
func Main(name string, e Engine) {
	driver := flag.String("driver", "", "lean driver executable")
	cfg := flag.String("cfg", "", "cfg line for the driver")
	seed := flag.Uint64("seed", 1, "seed")
	tier := flag.String("tier", "quick", "tier")
	n := flag.Int("n", 200, "generated cases")
	corpus := flag.String("corpus", "", "corpus directory")
	replay := flag.String("replay", "", "replay one ops file")
	out := flag.String("out", "", "result json")
	maxMism := flag.Int("max-mismatches", 5, "stop collecting after this many of each kind")
	flag.Parse()

	d, err := StartDriver(*driver, *cfg)
	if err != nil {
		fmt.Fprintln(os.Stderr, "start driver:", err)
		os.Exit(2)
	}
	defer d.Close()

	if *replay != "" {
		ops := ReadOps(*replay)
		impl, model, spec := RunCase(e, d, ops)
		bad := 0
		for i, op := range ops {
			mark := ""
			if impl[i] != model[i] {
				mark += " IMPL!=MODEL"
				bad = 1
			}
			if !SpecAllows(spec[i], impl[i]) {
				mark += " IMPL!=SPEC"
				bad = 1
			}
			fmt.Printf("%-60s impl=%s model=%s spec=%s%s\n", op, impl[i], model[i], spec[i], mark)
		}
		os.Exit(bad)
	}

	t0 := time.Now()
	res := &Result{Engine: name, Seed: *seed, Tier: *tier, Cfg: *cfg, Rule: e.Rule(),
		OpHist: map[string]int{}, OutHist: map[string]int{}, Extra: map[string]any{},
		Samples: []any{}, ImplVsModel: []Mismatch{}, ImplVsSpec: []Mismatch{}}
	seen := map[string]bool{}
	rng := NewRand(*seed)
	nonRepro := 0

	runOne := func(ops []string, from string, idx int) {
		impl, model, spec := RunCase(e, d, ops)
		res.Evaluations++
		res.Ops += len(ops)
		for i, op := range ops {
			res.OpHist[opKind(op)]++
			res.OutHist[opKind(op)+"→"+outClass(impl[i])]++
		}
		key := strings.Join(ops, "\n")
		if !seen[key] && e.Nontrivial(ops, impl, model, spec) {
			seen[key] = true
			res.DistinctNontrivial++
			if len(res.Samples) < 3 {
				rows := []string{}
				for i, op := range ops {
					rows = append(rows, fmt.Sprintf("%s => impl=%s model=%s spec=%s", op, impl[i], model[i], spec[i]))
				}
				res.Samples = append(res.Samples, map[string]any{"from": from, "trace": rows})
			}
		}
		if i := firstDiff(impl, model, false); i >= 0 && len(res.ImplVsModel) < *maxMism {
			// DESIGN 13: a disagreement is re-executed before it is reported; one that does not
			// reproduce is a harness/infrastructure defect, counted but not reported as a violation
			a0, b0, _ := RunCase(e, d, ops)
			if firstDiff(a0, b0, false) < 0 {
				nonRepro++
			} else {
				min := Shrink(ops[:i+1], func(c []string) bool {
					a, b, _ := RunCase(e, d, c)
					return firstDiff(a, b, false) >= 0
				})
				a, b, s := RunCase(e, d, min)
				j := firstDiff(a, b, false)
				if j < 0 { // the minimised case stopped reproducing: report the unminimised one
					min, a, b, s = ops, a0, b0, spec
					j = firstDiff(a, b, false)
				}
				res.ImplVsModel = append(res.ImplVsModel, Mismatch{Kind: "impl-vs-model", Case: idx, Index: j, Ops: min,
					Op: min[j], Impl: a[j], Model: b[j], Spec: s[j], From: from})
			}
		}
		if i := firstDiff(impl, spec, true); i >= 0 && len(res.ImplVsSpec) < *maxMism {
			if impl[i] == model[i] {
				// the as-is model predicts this failure (a known finding's manifestation):
				// record it unshrunk — minimising it would only re-run the real code for nothing
				res.ImplVsSpec = append(res.ImplVsSpec, Mismatch{Kind: "impl-vs-spec", Case: idx, Index: i, Ops: ops[:i+1],
					Op: ops[i], Impl: impl[i], Model: model[i], Spec: spec[i], From: from})
			} else {
				min := Shrink(ops[:i+1], func(c []string) bool {
					a, _, s := RunCase(e, d, c)
					return firstDiff(a, s, true) >= 0
				})
				a, b, s := RunCase(e, d, min)
				j := firstDiff(a, s, true)
				if j < 0 {
					min, a, b, s = ops, impl, model, spec
					j = i
				}
				res.ImplVsSpec = append(res.ImplVsSpec, Mismatch{Kind: "impl-vs-spec", Case: idx, Index: j, Ops: min,
					Op: min[j], Impl: a[j], Model: b[j], Spec: s[j], From: from})
			}
		}
	}

	if *corpus != "" {
		files, _ := filepath.Glob(filepath.Join(*corpus, "*.ops"))
		sort.Strings(files)
		for i, f := range files {
			runOne(ReadOps(f), "corpus:"+filepath.Base(f), -1-i)
			res.CorpusCases++
		}
	}
	for i := 0; i < *n; i++ {
		ops := e.Gen(rng.Fork(), *tier)
		runOne(ops, "gen", i)
	}
	res.WallS = time.Since(t0).Seconds()
	res.Extra["nonreproducing_disagreements"] = nonRepro
	if x, ok := e.(interface{ Extra() map[string]any }); ok {
		for k, v := range x.Extra() {
			res.Extra[k] = v
		}
	}
	buf, _ := json.MarshalIndent(res, "", " ")
	if *out != "" {
		if err := os.WriteFile(*out, buf, 0o644); err != nil {
			fmt.Fprintln(os.Stderr, err)
			os.Exit(2)
		}
	} else {
		os.Stdout.Write(buf)
	}
}

// QuietRaftLogger is an etcd/raft logger that drops everything below Error.
type QuietRaftLogger struct{}

func (QuietRaftLogger) Debug(v ...any)                   {}
func (QuietRaftLogger) Debugf(format string, v ...any)   {}
func (QuietRaftLogger) Info(v ...any)                    {}
func (QuietRaftLogger) Infof(format string, v ...any)    {}
func (QuietRaftLogger) Warning(v ...any)                 {}
func (QuietRaftLogger) Warningf(format string, v ...any) {}
func (QuietRaftLogger) Error(v ...any)                   { fmt.Fprintln(os.Stderr, v...) }
func (QuietRaftLogger) Errorf(format string, v ...any)   { fmt.Fprintf(os.Stderr, format+"\n", v...) }
func (QuietRaftLogger) Fatal(v ...any)                   { panic(fmt.Sprint(v...)) }
func (QuietRaftLogger) Fatalf(format string, v ...any)   { panic(fmt.Sprintf(format, v...)) }
func (QuietRaftLogger) Panic(v ...any)                   { panic(fmt.Sprint(v...)) }
func (QuietRaftLogger) Panicf(format string, v ...any)   { panic(fmt.Sprintf(format, v...)) }

// ReadOps reads an ops file: one op per line, '#' comments and blank lines skipped.
func ReadOps(path string) []string {
	data, err := os.ReadFile(path)
	if err != nil {
		fmt.Fprintln(os.Stderr, err)
		os.Exit(2)
	}
	var ops []string
	for _, l := range strings.Split(string(data), "\n") {
		l = strings.TrimSpace(l)
		if l == "" || strings.HasPrefix(l, "#") {
			continue
		}
		ops = append(ops, l)
	}
	return ops
}

// Correspondence harness for the WAL engine: C13 (replay / torn tails / reopen-append on the
// real wal.Manager) and C14 (CRC-32C tie, single-bit flips of real WAL segment files, of
// kv entry records through both decoders, and of real value-log files through vlog.Manager).
package main

import (
	"bytes"
	"errors"
	"flag"
	"fmt"
	"hash/crc32"
	"io"
	"os"
	osexec "os/exec"
	"path/filepath"
	"runtime/debug"
	"sort"
	"strconv"
	"strings"

	"github.com/feichai0017/NoKV/kv"
	"github.com/feichai0017/NoKV/utils"
	"github.com/feichai0017/NoKV/vlog"
	"github.com/feichai0017/NoKV/wal"

	"verif/harness/hlib"
)

var prop = flag.String("prop", "C13", "property: C13|C14")

// bufio buffer of the manager under test: larger than anything a case leaves unflushed, so that
// bytes reach the files only at the flush points the model knows (Sync, Close, SyncOnWrite,
// segment switch) and `w.disk` (file sizes WITHOUT a flush) is predicted exactly.
const walBuf = 1 << 20

// scratch directories: memory-backed when available (the cases fsync a lot; durability of the
// scratch files is irrelevant: cuts are explicit truncations), $TMPDIR otherwise
var tmpBase = func() string {
	if os.Getenv("VERIF_WAL_TMP") != "" {
		return os.Getenv("VERIF_WAL_TMP")
	}
	if st, err := os.Stat("/dev/shm"); err == nil && st.IsDir() {
		if f, err := os.CreateTemp("/dev/shm", "verif-probe-"); err == nil {
			f.Close()
			os.Remove(f.Name())
			return "/dev/shm"
		}
	}
	return ""
}()

// ---------------------------------------------------------------- canonical forms (mirror Driver/Wal.lean)

func hash32(b []byte) uint32 {
	h := uint32(7)
	for _, x := range b {
		h = h*31 + uint32(x)
	}
	return h
}

func bytesStr(b []byte) string {
	if len(b) <= 16 {
		return hlib.Hex(b)
	}
	return fmt.Sprintf("#%d.%d", len(b), hash32(b))
}

func genPayload(n, seed int) []byte {
	out := make([]byte, n)
	for i := range out {
		out[i] = byte((seed + i*31 + i/251) % 256)
	}
	return out
}

func walStatus(err error) string {
	switch {
	case err == nil:
		return "ok"
	case strings.Contains(err.Error(), "checksum mismatch"):
		return "badcrc"
	case errors.Is(err, utils.ErrEmptyRecord):
		return "other"
	case errors.Is(err, utils.ErrPartialRecord):
		return "partial"
	}
	return "err:" + err.Error()
}

func entErr(err error) string {
	switch {
	case err == nil:
		return "ok"
	case err == io.EOF:
		return "eof"
	case errors.Is(err, kv.ErrPartialEntry):
		return "partial"
	case errors.Is(err, io.ErrUnexpectedEOF):
		return "ueof"
	case errors.Is(err, kv.ErrBadChecksum):
		return "badcrc"
	case errors.Is(err, io.EOF):
		return "eof"
	}
	return "other"
}

// ---------------------------------------------------------------- executor

type gent struct {
	off, n int
	ptr    kv.ValuePtr
}

type exec struct {
	dir     string
	mgr     *wal.Manager
	buf     []byte
	ents    []gent
	entries []*kv.Entry
	vdir    string
	vmgr    *vlog.Manager
	vclean  []byte // pristine 00000.vlog built by vlog.Manager for the current entries
	vptrs   []kv.ValuePtr
	bflips  map[int]bool
	// containment of allocation bombs: a flip in the most significant length byte of a WAL
	// record makes DecodeRecord allocate up to 2-4 GiB; Open/Replay/VerifyDir then run in a
	// child process (fresh address space: untouched pages, no 2 GiB memclr on reuse).
	hdr0     map[int]bool // byte offsets (newest segment) of the first header byte of each record
	risky    map[int]bool // currently flipped bits lying in such a byte
	childSeg int          // segment size for the child while the manager is "open" in child mode
	childOn  bool
}

func (x *exec) segFiles() []string {
	files, _ := filepath.Glob(filepath.Join(x.dir, "*.wal"))
	sort.Strings(files)
	return files
}

func (x *exec) closeAll() {
	if x.mgr != nil {
		x.mgr.Close()
		x.mgr = nil
	}
	if x.vmgr != nil {
		x.vmgr.Close()
		x.vmgr = nil
	}
	if x.dir != "" {
		os.RemoveAll(x.dir)
	}
	if x.vdir != "" {
		os.RemoveAll(x.vdir)
	}
}

func atoi(s string) int {
	n, err := strconv.Atoi(s)
	if err != nil {
		panic("bad number in op: " + s)
	}
	return n
}

func infoStr(i wal.EntryInfo) string {
	return fmt.Sprintf("%d:%d:%d:%d", i.SegmentID, i.Offset, i.Length, i.Type)
}

func (x *exec) replay(info bool) string {
	if err := x.mgr.Sync(); err != nil {
		return "err:sync:" + err.Error()
	}
	var recs []string
	err := x.mgr.Replay(func(i wal.EntryInfo, payload []byte) error {
		if info {
			recs = append(recs, fmt.Sprintf("%d.%d.%d.%d", i.SegmentID, i.Offset, i.Length, i.Type))
		} else {
			recs = append(recs, fmt.Sprintf("%d:%s", i.Type, bytesStr(payload)))
		}
		return nil
	})
	return strings.Join(recs, ",") + ";" + walStatus(err)
}

func (x *exec) entStr(e *kv.Entry) string {
	return fmt.Sprintf("%s:%s:%d:%d", hlib.Hex(e.Key), bytesStr(e.Value), e.Meta, e.ExpiresAt)
}

func (x *exec) resetEntries() {
	x.buf = nil
	x.ents = nil
	x.entries = nil
	x.vclean = nil
	x.vptrs = nil
	x.bflips = map[int]bool{}
	if x.vmgr != nil {
		x.vmgr.Close()
		x.vmgr = nil
	}
}

// buildVlog writes the current entries through a real vlog.Manager and returns the sealed
// segment file 00000.vlog (header + records) and the value pointers.
func (x *exec) buildVlog() error {
	dir, err := os.MkdirTemp(tmpBase, "verif-vlogb-")
	if err != nil {
		return err
	}
	defer os.RemoveAll(dir)
	m, err := vlog.Open(vlog.Config{Dir: dir, MaxSize: 1 << 20})
	if err != nil {
		return err
	}
	x.vptrs = nil
	for _, e := range x.entries {
		p, err := m.AppendEntry(e)
		if err != nil {
			m.Close()
			return err
		}
		x.vptrs = append(x.vptrs, *p)
	}
	if err := m.Rotate(); err != nil { // DoneWriting: truncates 00000.vlog to its written size
		m.Close()
		return err
	}
	if err := m.Close(); err != nil {
		return err
	}
	x.vclean, err = os.ReadFile(filepath.Join(dir, "00000.vlog"))
	return err
}

func (x *exec) child(what string) string {
	cmd := osexec.Command(os.Args[0], "-child", what, x.dir, strconv.Itoa(x.childSeg))
	cmd.Env = append(os.Environ(), "GOMEMLIMIT=off")
	out, err := cmd.Output()
	if err != nil {
		return "child-failed:" + err.Error()
	}
	return strings.TrimSpace(string(out))
}

func childMain(args []string) {
	// no GC: a freed 2 GiB buffer is never reused, so no allocation ever has to be zeroed
	// (touching GiBs of fresh pages is what makes these cases slow)
	debug.SetGCPercent(-1)
	what, dir := args[0], args[1]
	seg, _ := strconv.Atoi(args[2])
	x := &exec{dir: dir}
	switch what {
	case "verify":
		fmt.Println(walStatus(wal.VerifyDir(dir, nil)))
	case "replay", "replayinfo":
		m, err := wal.Open(wal.Config{Dir: dir, SegmentSize: int64(seg), BufferSize: walBuf})
		if err != nil {
			fmt.Println("err:" + err.Error())
			return
		}
		x.mgr = m
		fmt.Println(x.replay(what == "replayinfo"))
		m.Close()
	}
}

func (x *exec) noteAppend(i wal.EntryInfo) {
	if i.Offset == 0 {
		x.hdr0 = map[int]bool{}
	}
	x.hdr0[int(i.Offset)] = true
}

func (x *exec) one(op string) string {
	t := strings.Fields(op)
	if len(x.risky) > 0 || x.childOn {
		switch t[0] {
		case "w.open":
			if x.childOn || x.mgr != nil {
				return "bad-op"
			}
			x.childOn, x.childSeg = true, atoi(t[1])
			return "ok"
		case "w.close":
			if !x.childOn {
				return "bad-op"
			}
			x.childOn = false
			return "ok"
		case "w.replay":
			if !x.childOn {
				return "bad-op"
			}
			return x.child("replay")
		case "w.replayinfo":
			if !x.childOn {
				return "bad-op"
			}
			return x.child("replayinfo")
		case "w.verify":
			if x.childOn {
				return "bad-op"
			}
			return x.child("verify")
		case "w.app", "w.appg", "w.batch", "w.rotate":
			return "harness:append-in-child-mode"
		}
	}
	switch t[0] {
	case "crc":
		return fmt.Sprintf("%d", crc32.Checksum(hlib.UnHex(t[1]), crc32.MakeTable(crc32.Castagnoli)))
	case "w.open":
		if x.mgr != nil {
			return "bad-op"
		}
		sow := len(t) > 2 && t[2] == "1"
		m, err := wal.Open(wal.Config{Dir: x.dir, SegmentSize: int64(atoi(t[1])), BufferSize: walBuf, SyncOnWrite: sow})
		if err != nil {
			return "err:" + err.Error()
		}
		x.mgr = m
		return "ok"
	case "w.sync":
		if x.mgr == nil {
			return "bad-op"
		}
		if err := x.mgr.Sync(); err != nil {
			return "err:" + err.Error()
		}
		return "ok"
	case "w.switch":
		if x.mgr == nil {
			return "bad-op"
		}
		if err := x.mgr.SwitchSegment(uint32(atoi(t[1])), t[2] == "1"); err != nil {
			return "err:" + err.Error()
		}
		x.hdr0 = map[int]bool{}
		return "ok"
	case "w.disk":
		var out []string
		for _, f := range x.segFiles() {
			var id int
			if _, err := fmt.Sscanf(filepath.Base(f), "%05d.wal", &id); err != nil {
				continue
			}
			st, _ := os.Stat(f)
			out = append(out, fmt.Sprintf("%d:%d", id, st.Size()))
		}
		return strings.Join(out, ",")
	case "w.close":
		if x.mgr == nil {
			return "bad-op"
		}
		err := x.mgr.Close()
		x.mgr = nil
		if err != nil {
			return "err:" + err.Error()
		}
		return "ok"
	case "w.app", "w.appg":
		if x.mgr == nil {
			return "bad-op"
		}
		var p []byte
		if t[0] == "w.app" {
			p = hlib.UnHex(t[2])
		} else {
			p = genPayload(atoi(t[2]), atoi(t[3]))
		}
		infos, err := x.mgr.AppendRecords(wal.Record{Type: wal.RecordType(atoi(t[1])), Payload: p})
		if err != nil {
			return "err:" + err.Error()
		}
		x.noteAppend(infos[0])
		return infoStr(infos[0])
	case "w.batch":
		if x.mgr == nil {
			return "bad-op"
		}
		var recs []wal.Record
		for _, it := range strings.Split(t[1], ",") {
			f := strings.Split(it, ":")
			recs = append(recs, wal.Record{Type: wal.RecordType(atoi(f[0])), Payload: genPayload(atoi(f[1]), atoi(f[2]))})
		}
		infos, err := x.mgr.AppendRecords(recs...)
		if err != nil {
			return "err:" + err.Error()
		}
		var out []string
		for _, i := range infos {
			x.noteAppend(i)
			out = append(out, infoStr(i))
		}
		return strings.Join(out, ",")
	case "w.rotate":
		if x.mgr == nil {
			return "bad-op"
		}
		if err := x.mgr.Rotate(); err != nil {
			return "err:" + err.Error()
		}
		x.hdr0 = map[int]bool{}
		return "ok"
	case "w.cut":
		if x.mgr != nil {
			return "bad-op"
		}
		files := x.segFiles()
		if len(files) == 0 {
			return "sz=0"
		}
		last := files[len(files)-1]
		st, err := os.Stat(last)
		if err != nil {
			return "err:" + err.Error()
		}
		n := int64(atoi(t[1]))
		if n > st.Size() {
			n = st.Size()
		}
		if err := os.Truncate(last, n); err != nil {
			return "err:" + err.Error()
		}
		return fmt.Sprintf("sz=%d", n)
	case "w.flip":
		if x.mgr != nil {
			return "bad-op"
		}
		files := x.segFiles()
		if len(files) == 0 {
			return "oob"
		}
		last := files[len(files)-1]
		data, err := os.ReadFile(last)
		if err != nil {
			return "err:" + err.Error()
		}
		b := atoi(t[1])
		if b/8 >= len(data) {
			return "oob"
		}
		data[b/8] ^= 1 << (b % 8)
		if err := os.WriteFile(last, data, 0o644); err != nil {
			return "err:" + err.Error()
		}
		if x.hdr0[b/8] {
			if x.risky[b] {
				delete(x.risky, b)
			} else {
				x.risky[b] = true
			}
		}
		return "ok"
	case "w.verify":
		if x.mgr != nil {
			return "bad-op"
		}
		return walStatus(wal.VerifyDir(x.dir, nil))
	case "w.segs":
		if x.mgr != nil {
			if err := x.mgr.Sync(); err != nil {
				return "err:" + err.Error()
			}
		}
		var out []string
		for _, f := range x.segFiles() {
			var id int
			if _, err := fmt.Sscanf(filepath.Base(f), "%05d.wal", &id); err != nil {
				continue
			}
			st, _ := os.Stat(f)
			out = append(out, fmt.Sprintf("%d:%d", id, st.Size()))
		}
		return strings.Join(out, ",")
	case "w.replay":
		if x.mgr == nil {
			return "bad-op"
		}
		return x.replay(false)
	case "w.replayinfo":
		if x.mgr == nil {
			return "bad-op"
		}
		return x.replay(true)

	case "e.new":
		x.resetEntries()
		return "ok"
	case "e.add":
		if len(x.bflips) != 0 {
			return "bad-op"
		}
		e := &kv.Entry{Key: hlib.UnHex(t[1]), Value: hlib.UnHex(t[2]), Meta: byte(atoi(t[3]))}
		exp, err := strconv.ParseUint(t[4], 10, 64)
		if err != nil {
			panic(err)
		}
		e.ExpiresAt = exp
		enc, err := kv.EncodeEntry(nil, e)
		if err != nil {
			return "err:" + err.Error()
		}
		enc = append([]byte(nil), enc...)
		off := len(x.buf)
		x.buf = append(x.buf, enc...)
		x.ents = append(x.ents, gent{off: off, n: len(enc)})
		x.entries = append(x.entries, e)
		x.vclean = nil
		return fmt.Sprintf("%d:%d:%s", off, len(enc), bytesStr(enc))
	case "e.flip":
		b := atoi(t[1])
		if b/8 >= len(x.buf) {
			return "oob"
		}
		x.buf[b/8] ^= 1 << (b % 8)
		if x.bflips[b] {
			delete(x.bflips, b)
		} else {
			x.bflips[b] = true
		}
		return "ok"
	case "e.slice":
		i := atoi(t[1])
		if i >= len(x.ents) {
			return "bad-op"
		}
		g := x.ents[i]
		data := append([]byte(nil), x.buf[g.off:g.off+g.n]...)
		v, h, err := kv.DecodeValueSlice(data)
		if err != nil {
			return "err:" + entErr(err)
		}
		return fmt.Sprintf("ok:%s:%d:%d:%d:%d", bytesStr(v), h.KeyLen, h.ValueLen, h.Meta, h.ExpiresAt)
	case "e.iter":
		it := kv.NewEntryIterator(bytes.NewReader(append([]byte(nil), x.buf...)))
		var out []string
		for it.Next() {
			out = append(out, fmt.Sprintf("%s:%d", x.entStr(it.Entry()), it.RecordLen()))
		}
		err := it.Err()
		it.Close()
		return strings.Join(out, ",") + ";" + entErr(err)

	case "v.load":
		if x.vmgr != nil {
			x.vmgr.Close()
			x.vmgr = nil
		}
		if len(x.entries) == 0 {
			return "bad-op"
		}
		if x.vclean == nil {
			if err := x.buildVlog(); err != nil {
				return "err:build:" + err.Error()
			}
		}
		if x.vdir != "" {
			os.RemoveAll(x.vdir)
		}
		vd, err := os.MkdirTemp(tmpBase, "verif-vlog-")
		if err != nil {
			return "err:" + err.Error()
		}
		x.vdir = vd
		data := append([]byte(nil), x.vclean...)
		for b := range x.bflips {
			pos := kv.ValueLogHeaderSize + b/8
			if pos < len(data) {
				data[pos] ^= 1 << (b % 8)
			}
		}
		// two files so that 00000.vlog is a sealed (read-only) segment, as after Rotate
		if err := os.WriteFile(filepath.Join(vd, "00000.vlog"), data, 0o644); err != nil {
			return "err:" + err.Error()
		}
		if err := os.WriteFile(filepath.Join(vd, "00001.vlog"), make([]byte, kv.ValueLogHeaderSize), 0o644); err != nil {
			return "err:" + err.Error()
		}
		m, err := vlog.Open(vlog.Config{Dir: vd, MaxSize: 1 << 20})
		if err != nil {
			return "err:open:" + err.Error()
		}
		x.vmgr = m
		return fmt.Sprintf("ok:%d", len(data))
	case "v.read":
		i := atoi(t[1])
		if x.vmgr == nil || i >= len(x.vptrs) {
			return "bad-op"
		}
		p := x.vptrs[i]
		v, unlock, err := x.vmgr.ReadValue(&p, vlog.ReadOptions{Mode: vlog.ReadModeCopy})
		if unlock != nil {
			unlock()
		}
		if err != nil {
			return "err:" + entErr(err)
		}
		return "ok:" + bytesStr(v)
	case "v.iter":
		if x.vmgr == nil {
			return "bad-op"
		}
		var out []string
		_, err := x.vmgr.Iterate(0, 0, func(e *kv.Entry, vp *kv.ValuePtr) error {
			out = append(out, fmt.Sprintf("%s:%d", x.entStr(e), vp.Len))
			return nil
		})
		st := "ok"
		if err != nil {
			st = "err"
		}
		return strings.Join(out, ",") + ";" + st
	}
	return "bad-op"
}

type engine struct {
	prop          string
	counter       int
	extra         map[string]any
	queue         [][]string
	rounds        int
	disagreements int
}

func (e *engine) Exec(ops []string) []string {
	dir, err := os.MkdirTemp(tmpBase, "verif-wal-")
	if err != nil {
		panic(err)
	}
	x := &exec{dir: dir, bflips: map[int]bool{}, hdr0: map[int]bool{}, risky: map[int]bool{}}
	defer x.closeAll()
	out := make([]string, len(ops))
	for i, op := range ops {
		func() {
			defer func() {
				if r := recover(); r != nil {
					out[i] = fmt.Sprintf("panic:%v", r)
				}
			}()
			out[i] = x.one(op)
		}()
	}
	return out
}

func (e *engine) Extra() map[string]any { return e.extra }

func (e *engine) Rule() string {
	if e.prop == "C13" {
		return "C13: real wal.Manager on a temp dir: typed records of sizes {0,1,2,3,100,near 64KiB segment size}, rotations (explicit and by capacity), close, cut of the newest segment (every offset of a small tail in the exhaustive cases, sampled otherwise), VerifyDir, reopen, more appends, replay; non-trivial = a cut that lands strictly inside a record (torn tail) followed by reopen+append+replay, or a replay across >= 2 segments, or an AppendRecords batch whose capacity rotation falls between two of its records (issued on a clean log: after Open/Sync or in SyncOnWrite mode), or a SwitchSegment call (active id, next id, older ids, new ids, with/without truncation) between buffered appends, or a record larger than the segment size"
	}
	return "C14: (a) Lean crc32c vs hash/crc32 Castagnoli on random inputs; (b) every single-bit flip of a small real WAL segment, replayed by wal.Manager; (c) every single-bit flip of encoded kv entries through DecodeValueSlice and EntryIterator/DecodeEntryFrom; (d) every single-bit flip of a real value-log segment built and read back by vlog.Manager (ReadValue, Iterate); non-trivial = a case with at least one flipped bit whose outcome is an error or a shortened prefix"
}

var sizes = []int{0, 1, 2, 3, 100}

func (e *engine) genRec(r *hlib.Rand, big bool) string {
	t := r.Intn(4)
	if r.Chance(5) {
		t = 4 + r.Intn(252)
	}
	if big && r.Chance(25) {
		// near the 64 KiB minimum segment size: 65536-9 fits exactly in an empty segment
		n := hlib.Pick(r, []int{65536 - 9, 65536 - 8, 65536 - 10, 65000, 32768 - 9, 32768 - 5, 70000})
		return fmt.Sprintf("w.appg %d %d %d", t, n, r.Intn(256))
	}
	n := hlib.Pick(r, sizes)
	if r.Chance(20) {
		n = r.Intn(300)
	}
	if n <= 16 && r.Bool() {
		p := make([]byte, n)
		for i := range p {
			p[i] = byte(r.Intn(256))
			if r.Chance(30) {
				p[i] = hlib.Pick(r, []byte{0, 0xff, 1})
			}
		}
		return fmt.Sprintf("w.app %d %s", t, hlib.Hex(p))
	}
	return fmt.Sprintf("w.appg %d %d %d", t, n, r.Intn(256))
}

func recLen(op string) int {
	t := strings.Fields(op)
	if t[0] == "w.app" {
		return len(hlib.UnHex(t[2])) + 9
	}
	return atoi(t[2]) + 9
}

func (e *engine) genC13(r *hlib.Rand, tier string) []string {
	segsz := hlib.Pick(r, []int{0, 1, 65536, 65536, 131072})
	eff := segsz
	if eff == 0 {
		eff = 64 << 20
	} else if eff < 65536 {
		eff = 65536
	}
	ops := []string{fmt.Sprintf("w.open %d", segsz)}
	big := r.Chance(40)
	// phase 1: appends and rotations; track the size of the newest segment
	cur := 0
	var lastRecs []int // record lengths in the newest segment
	n := 1 + r.Intn(8)
	for i := 0; i < n; i++ {
		if r.Chance(12) {
			ops = append(ops, "w.rotate")
			cur, lastRecs = 0, nil
			continue
		}
		if r.Chance(10) {
			k := 2 + r.Intn(3)
			var items []string
			for j := 0; j < k; j++ {
				ln := hlib.Pick(r, sizes)
				items = append(items, fmt.Sprintf("%d:%d:%d", r.Intn(4), ln, r.Intn(256)))
				if cur+ln+9 > eff {
					cur, lastRecs = 0, nil
				}
				cur += ln + 9
				lastRecs = append(lastRecs, ln+9)
			}
			ops = append(ops, "w.batch "+strings.Join(items, ","))
			continue
		}
		op := e.genRec(r, big)
		l := recLen(op)
		if cur+l > eff {
			cur, lastRecs = 0, nil
		}
		cur += l
		lastRecs = append(lastRecs, l)
		ops = append(ops, op)
	}
	if r.Chance(30) {
		ops = append(ops, "w.replay")
	}
	rounds := 1 + r.Intn(2)
	for k := 0; k < rounds; k++ {
		ops = append(ops, "w.close")
		// cut offset: biased to record boundaries ±{0..4} and header-internal offsets
		cut := cur
		if cur > 0 && !r.Chance(10) {
			var bounds []int
			s := 0
			bounds = append(bounds, 0)
			for _, l := range lastRecs {
				s += l
				bounds = append(bounds, s)
			}
			b := hlib.Pick(r, bounds)
			switch r.Intn(6) {
			case 0:
				cut = b
			case 1:
				cut = b + 1 + r.Intn(3) // 1..3 bytes of the next header
			case 2:
				cut = b + 4 + r.Intn(2) // header complete, body torn
			case 3:
				cut = b - 1 - r.Intn(4) // inside the CRC
			case 4:
				cut = r.Intn(cur + 1)
			default:
				cut = b + 1 + r.Intn(3)
			}
			if cut < 0 {
				cut = 0
			}
			if cut > cur {
				cut = cur
			}
		}
		ops = append(ops, fmt.Sprintf("w.cut %d", cut))
		if r.Chance(92) {
			ops = append(ops, "w.verify")
		}
		if r.Chance(30) {
			ops = append(ops, "w.segs")
		}
		ops = append(ops, fmt.Sprintf("w.open %d", segsz))
		if r.Chance(30) {
			ops = append(ops, "w.replay")
		}
		m := r.Intn(4)
		for i := 0; i < m; i++ {
			if r.Chance(10) {
				ops = append(ops, "w.rotate")
				continue
			}
			ops = append(ops, e.genRec(r, big && r.Chance(30)))
		}
		ops = append(ops, "w.replay")
		if r.Chance(40) {
			ops = append(ops, "w.replayinfo", "w.segs")
		}
		// the tracked layout is no longer exact after a cut; later rounds cut at random offsets
		cur, lastRecs = r.Intn(200), nil
	}
	return ops
}

// exhaustive cut sweep: one small tail, every offset, each followed by verify/reopen/append/replay
func (e *engine) genC13Sweep(r *hlib.Rand) []string {
	var pre []string
	pre = append(pre, "w.open 65536")
	if r.Chance(50) {
		pre = append(pre, e.genRec(r, false), "w.rotate")
	}
	total := 0
	k := 1 + r.Intn(3)
	for i := 0; i < k; i++ {
		op := e.genRec(r, false)
		if recLen(op) > 120 {
			op = "w.app 1 0102"
		}
		total += recLen(op)
		pre = append(pre, op)
	}
	// each offset needs a fresh directory: encode as separate cases is costly, so rebuild the
	// tail after every probe: cut to 0 of the newest segment, re-append, cut at n.
	var ops []string
	ops = append(ops, pre...)
	tail := pre[len(pre)-k:]
	for n := 0; n <= total; n++ {
		ops = append(ops, "w.close", fmt.Sprintf("w.cut %d", n), "w.verify", "w.open 65536", "w.app 3 aa", "w.replay")
		// restore the newest segment: cut to 0 (drops everything incl. junk), re-append the tail
		ops = append(ops, "w.close", "w.cut 0", "w.open 65536")
		ops = append(ops, tail...)
	}
	return ops
}

func (e *engine) genEntries(r *hlib.Rand, k int) []string {
	ops := []string{"e.new"}
	for i := 0; i < k; i++ {
		kl := 1 + r.Intn(4)
		vl := hlib.Pick(r, []int{0, 1, 3, 8, 20})
		if r.Chance(10) {
			vl = 130 + r.Intn(40) // two-byte vlen varint
		}
		key := make([]byte, kl)
		for j := range key {
			key[j] = byte(r.Intn(256))
		}
		val := make([]byte, vl)
		for j := range val {
			val[j] = byte(r.Intn(256))
		}
		meta := hlib.Pick(r, []int{0, 1, 2, 64, 200})
		exp := hlib.Pick(r, []uint64{0, 0, 1, 300, 1 << 40, ^uint64(0)})
		ops = append(ops, fmt.Sprintf("e.add %s %s %d %d", hlib.Hex(key), hlib.Hex(val), meta, exp))
	}
	return ops
}

func entLen(op string) int {
	// upper bound is enough for the generator: header ≤ 1+2+2+10
	t := strings.Fields(op)
	return len(hlib.UnHex(t[1])) + len(hlib.UnHex(t[2])) + 4 + 15
}

// C14 cases are short: a base file plus a chunk of consecutive bit positions, so that a
// disagreement is cheap to minimise.  One "round" = CRC tie + every bit of one small WAL
// segment + every bit of one entry buffer (both decoders) + every bit of one real value-log
// segment; rounds repeat with fresh random files until the case budget is used.
func chunks(total, size int) [][2]int {
	var out [][2]int
	for lo := 0; lo < total; lo += size {
		hi := lo + size
		if hi > total {
			hi = total
		}
		out = append(out, [2]int{lo, hi})
	}
	return out
}

func (e *engine) fillQueue(r *hlib.Rand, tier string) {
	// (0) CRC tie
	{
		var ops []string
		for i := 0; i < 40; i++ {
			n := r.Intn(40)
			if r.Chance(10) {
				n = 200 + r.Intn(2000)
			}
			b := make([]byte, n)
			for j := range b {
				b[j] = byte(r.Intn(256))
				if r.Chance(20) {
					b[j] = hlib.Pick(r, []byte{0, 0xff})
				}
			}
			ops = append(ops, "crc "+hlib.Hex(b))
		}
		e.queue = append(e.queue, ops)
	}
	// (1) WAL segment, every bit
	{
		base := []string{"w.open 65536"}
		if r.Chance(30) {
			base = append(base, e.genRec(r, false), "w.rotate")
		}
		k := 2 + r.Intn(3)
		total := 0
		for i := 0; i < k; i++ {
			n := hlib.Pick(r, []int{0, 1, 2, 3, 5, 12})
			p := make([]byte, n)
			for j := range p {
				p[j] = byte(r.Intn(256))
			}
			base = append(base, fmt.Sprintf("w.app %d %s", r.Intn(4), hlib.Hex(p)))
			total += n + 9
		}
		base = append(base, "w.replay", "w.close")
		cs := chunks(total*8, 24)
		for ci, c := range cs {
			ops := append([]string(nil), base...)
			for b := c[0]; b < c[1]; b++ {
				ops = append(ops, fmt.Sprintf("w.flip %d", b), "w.open 65536", "w.replay", "w.close", fmt.Sprintf("w.flip %d", b))
			}
			ops = append(ops, "w.open 65536", "w.replay", "w.close")
			if ci == len(cs)-1 || r.Chance(15) {
				// VerifyDir on a flipped file (it may truncate: state is not restored afterwards)
				b := r.Intn(total * 8)
				ops = append(ops, fmt.Sprintf("w.flip %d", b), "w.verify", "w.segs", "w.open 65536", "w.replay")
			}
			e.queue = append(e.queue, ops)
		}
	}
	// (2) entry records through both decoders, every bit
	{
		k := 2 + r.Intn(3)
		base := e.genEntries(r, k)
		total := 0
		for _, op := range base[1 : 1+k] {
			total += entLen(op)
		}
		base = append(base, "e.iter")
		for _, c := range chunks(total*8, 32) {
			ops := append([]string(nil), base...)
			for b := c[0]; b < c[1]; b++ {
				ops = append(ops, fmt.Sprintf("e.flip %d", b), "e.iter")
				for i := 0; i < k; i++ {
					ops = append(ops, fmt.Sprintf("e.slice %d", i))
				}
				ops = append(ops, fmt.Sprintf("e.flip %d", b))
			}
			e.queue = append(e.queue, ops)
		}
	}
	// (3) real value-log segment, every bit
	{
		k := 2 + r.Intn(2)
		base := e.genEntries(r, k)
		total := 0
		for _, op := range base[1 : 1+k] {
			total += entLen(op)
		}
		base = append(base, "v.load", "v.iter")
		for i := 0; i < k; i++ {
			base = append(base, fmt.Sprintf("v.read %d", i))
		}
		for _, c := range chunks(total*8, 24) {
			ops := append([]string(nil), base...)
			for b := c[0]; b < c[1]; b++ {
				ops = append(ops, fmt.Sprintf("e.flip %d", b), "v.load", "v.iter")
				for i := 0; i < k; i++ {
					ops = append(ops, fmt.Sprintf("v.read %d", i))
				}
				ops = append(ops, fmt.Sprintf("e.flip %d", b))
			}
			e.queue = append(e.queue, ops)
		}
	}
}

func (e *engine) genC14(r *hlib.Rand, tier string) []string {
	if e.disagreements >= 3 {
		// the run is already a violation; do not spend the remaining budget (and its
		// minimisation cost) on more of the same
		return []string{"crc -"}
	}
	if len(e.queue) == 0 {
		e.fillQueue(r, tier)
		e.rounds++
		e.extra["c14_rounds_started"] = e.rounds
	}
	ops := e.queue[0]
	e.queue = e.queue[1:]
	return ops
}

// ---- buffered-manager cases (third-round strengthening) ----

// cleanOps makes the log "clean" (nothing appended since the last flush+fsync) in one of the
// ways the code distinguishes: explicit Sync, Close+Open, or nothing when SyncOnWrite is on.
func cleanOps(r *hlib.Rand, segsz int, sow bool) []string {
	if sow {
		return nil
	}
	if r.Bool() {
		return []string{"w.sync"}
	}
	return []string{"w.close", fmt.Sprintf("w.open %d", segsz)}
}

// genC13Batch: one AppendRecords call whose size-triggered rotation falls between records k and
// k+1, for every k of the batch, issued on a clean log.
func (e *engine) genC13Batch(r *hlib.Rand) []string {
	const eff = 65536
	segsz := hlib.Pick(r, []int{65536, 1, 40000})
	sow := r.Chance(35)
	open := fmt.Sprintf("w.open %d", segsz)
	if sow {
		open += " 1"
	}
	ops := []string{open}
	cur := 0
	m := 2 + r.Intn(4)
	for k := 1; k < m; k++ {
		// bring the active segment to a known fill level leaving room for k small records
		small := make([]int, m)
		for i := range small {
			small[i] = hlib.Pick(r, []int{0, 1, 3, 100, 2000, 8000})
		}
		need := 0
		for i := 0; i < k; i++ {
			need += small[i] + 9
		}
		slack := r.Intn(3000)
		fill := eff - cur - need - slack - 9
		if fill < 0 {
			ops = append(ops, "w.rotate")
			cur = 0
			fill = eff - need - slack - 9
		}
		ops = append(ops, fmt.Sprintf("w.appg %d %d %d", r.Intn(4), fill, r.Intn(256)))
		cur += fill + 9
		ops = append(ops, cleanOps(r, segsz, sow)...)
		if r.Chance(30) {
			ops = append(ops, "w.disk")
		}
		// records 1..k fit (need bytes), record k+1 must not: it needs more than `slack` bytes
		var items []string
		after := 0
		for i := 0; i < m; i++ {
			n := small[i]
			if i == k {
				n = slack + 1 + r.Intn(500) // does not fit behind the first k
				if n < 9 {
					n = 9
				}
				n -= 9
				if n+9 <= slack {
					n = slack - 8
				}
			}
			items = append(items, fmt.Sprintf("%d:%d:%d", r.Intn(4), n, r.Intn(256)))
			if i >= k {
				after += n + 9
			}
		}
		ops = append(ops, "w.batch "+strings.Join(items, ","))
		cur = after
		ops = append(ops, "w.disk")
		if r.Chance(50) {
			ops = append(ops, "w.replay")
		}
	}
	ops = append(ops, "w.replay", "w.replayinfo", "w.close", "w.verify", "w.segs", open, "w.replay")
	return ops
}

// genC13Switch: SwitchSegment to the active id (the LSM's resume call), to the next id, to older
// and to new ids, with and without truncation, between appends that are still buffered.
func (e *engine) genC13Switch(r *hlib.Rand) []string {
	segsz := hlib.Pick(r, []int{0, 65536})
	sow := r.Chance(20)
	open := fmt.Sprintf("w.open %d", segsz)
	if sow {
		open += " 1"
	}
	ops := []string{open}
	active, maxID := 1, 1
	smallRec := func() string {
		n := hlib.Pick(r, []int{0, 1, 2, 3, 100, 300})
		return fmt.Sprintf("w.appg %d %d %d", r.Intn(4), n, r.Intn(256))
	}
	steps := 3 + r.Intn(8)
	for i := 0; i < steps; i++ {
		for j := r.Intn(3); j >= 0; j-- {
			ops = append(ops, smallRec())
		}
		if r.Chance(20) {
			ops = append(ops, "w.batch "+fmt.Sprintf("%d:%d:%d,%d:%d:%d", r.Intn(4), r.Intn(50), r.Intn(256), r.Intn(4), r.Intn(50), r.Intn(256)))
		}
		if r.Chance(25) {
			ops = append(ops, "w.sync")
		}
		if r.Chance(30) {
			ops = append(ops, "w.disk")
		}
		switch x := r.Intn(100); {
		case x < 45: // resume the active segment
			ops = append(ops, fmt.Sprintf("w.switch %d 0", active))
		case x < 60: // next id, created (what lsm/memtable.go does on a new memtable)
			maxID++
			active = maxID
			ops = append(ops, fmt.Sprintf("w.switch %d 1", active))
		case x < 70:
			ops = append(ops, "w.rotate")
			active++
			if active > maxID {
				maxID = active
			}
		case x < 80: // an older segment, appended to
			active = 1 + r.Intn(maxID)
			ops = append(ops, fmt.Sprintf("w.switch %d 0", active))
		case x < 88: // a new id with a gap, not truncating
			maxID += 1 + r.Intn(3)
			active = maxID
			ops = append(ops, fmt.Sprintf("w.switch %d 0", active))
		case x < 94: // recreate the active segment
			ops = append(ops, fmt.Sprintf("w.switch %d 1", active))
		default: // recreate some existing segment
			active = 1 + r.Intn(maxID)
			ops = append(ops, fmt.Sprintf("w.switch %d 1", active))
		}
		if r.Chance(40) {
			ops = append(ops, "w.disk")
		}
		if r.Chance(30) {
			ops = append(ops, "w.replay")
		}
	}
	ops = append(ops, smallRec(), "w.disk", "w.replay", "w.replayinfo", "w.close", "w.verify", "w.segs", open, "w.replay")
	return ops
}

// genC13Big: records larger than the (minimum) segment size: AppendRecords writes them whole
// into a fresh segment; replay must deliver them and everything behind them.
func (e *engine) genC13Big(r *hlib.Rand) []string {
	segsz := hlib.Pick(r, []int{1, 65536, 65536})
	open := fmt.Sprintf("w.open %d", segsz)
	if r.Chance(25) {
		open += " 1"
	}
	ops := []string{open}
	bigs := []int{65536 - 8, 65536, 65537, 66000, 70000, 131072, 200000}
	n := 2 + r.Intn(5)
	last := ""
	for i := 0; i < n; i++ {
		switch x := r.Intn(100); {
		case x < 45:
			last = fmt.Sprintf("w.appg %d %d %d", r.Intn(4), hlib.Pick(r, bigs), r.Intn(256))
			ops = append(ops, last)
		case x < 60:
			last = fmt.Sprintf("w.batch %d:%d:%d,%d:%d:%d,%d:%d:%d", r.Intn(4), hlib.Pick(r, sizes), r.Intn(256),
				r.Intn(4), hlib.Pick(r, bigs), r.Intn(256), r.Intn(4), hlib.Pick(r, sizes), r.Intn(256))
			ops = append(ops, last)
		case x < 70:
			ops = append(ops, "w.sync")
		default:
			last = e.genRec(r, false)
			ops = append(ops, last)
		}
	}
	if r.Chance(50) { // a big record as the very last one
		ops = append(ops, fmt.Sprintf("w.appg %d %d %d", r.Intn(4), hlib.Pick(r, bigs), r.Intn(256)))
	}
	ops = append(ops, "w.replay", "w.close")
	if r.Chance(50) {
		ops = append(ops, fmt.Sprintf("w.cut %d", 60000+r.Intn(20000)))
	}
	ops = append(ops, "w.verify", "w.segs", open, "w.replay", e.genRec(r, false), "w.replay", "w.replayinfo")
	return ops
}

func (e *engine) Gen(r *hlib.Rand, tier string) []string {
	if e.prop == "C14" {
		return e.genC14(r, tier)
	}
	e.counter++
	if e.counter%25 == 1 {
		return e.genC13Sweep(r)
	}
	switch e.counter % 6 {
	case 2:
		return e.genC13Batch(r)
	case 3:
		return e.genC13Switch(r)
	case 4:
		return e.genC13Big(r)
	}
	return e.genC13(r, tier)
}

func (e *engine) Nontrivial(ops, impl, model, spec []string) bool {
	for i := range ops {
		if impl[i] != model[i] || !hlib.SpecAllows(spec[i], impl[i]) {
			e.disagreements++
			break
		}
	}
	if e.prop == "C14" {
		flipped := false
		for i, op := range ops {
			if strings.HasPrefix(op, "w.flip") || strings.HasPrefix(op, "e.flip") {
				flipped = true
			}
			if flipped && (strings.Contains(impl[i], "badcrc") || strings.HasPrefix(impl[i], "err:")) {
				return true
			}
		}
		return strings.HasPrefix(ops[0], "crc")
	}
	torn, reopened, appended := false, false, false
	rot := 0
	for i, op := range ops {
		if strings.HasPrefix(op, "w.batch") {
			// a capacity rotation between two records of one AppendRecords call
			infos := strings.Split(impl[i], ",")
			if len(infos) >= 2 && strings.Split(infos[0], ":")[0] != strings.Split(infos[len(infos)-1], ":")[0] {
				return true
			}
		}
		if strings.HasPrefix(op, "w.switch") {
			return true
		}
		if strings.HasPrefix(op, "w.appg") {
			if f := strings.Fields(op); atoi(f[2]) > 65536 {
				return true
			}
		}
		switch {
		case strings.HasPrefix(op, "w.cut"):
			torn = true
		case strings.HasPrefix(op, "w.open") && torn:
			reopened = true
		case strings.HasPrefix(op, "w.app") && reopened:
			appended = true
		case op == "w.rotate":
			rot++
		case op == "w.replay":
			if appended {
				return true
			}
			if rot > 0 && strings.Count(impl[i], ",") >= 1 {
				return true
			}
		}
	}
	return false
}

func main() {
	if len(os.Args) >= 5 && os.Args[1] == "-child" {
		childMain(os.Args[2:])
		return
	}
	// flag.Parse happens inside hlib.Main; peek at -prop first
	for i, a := range os.Args {
		if a == "-prop" && i+1 < len(os.Args) {
			*prop = os.Args[i+1]
		}
		if strings.HasPrefix(a, "-prop=") {
			*prop = strings.TrimPrefix(a, "-prop=")
		}
	}
	e := &engine{prop: *prop, extra: map[string]any{}}
	hlib.Main("wal/"+*prop, e)
}

// Correspondence harness for the Conc engine: C27 (PD allocator persistence), C20 (latches),
// C33 (directory lock), C32 (watermark).  Each engine drives the real code with goroutines that
// are released one at a time, in the order an op file dictates, so a schedule means the same
// on the implementation and on the Lean model.
package main

import (
	"bytes"
	"flag"
	"fmt"
	"os"
	"runtime"
	"strconv"
	"strings"
	"time"

	"verif/harness/hlib"
)

var prop = flag.String("prop", "C27", "property: C27|C20|C33|C32")

// goid returns the id of the calling goroutine (harness-only trick: parsed from the stack header).
func goid() uint64 {
	var buf [64]byte
	n := runtime.Stack(buf[:], false)
	f := bytes.Fields(buf[:n])
	if len(f) < 2 {
		return 0
	}
	id, _ := strconv.ParseUint(string(f[1]), 10, 64)
	return id
}

// goroutineStates parses `runtime.Stack(all)` into goroutine id -> wait state
// ("running", "sync.Mutex.Lock", "chan receive", ...).
func goroutineStates() map[uint64]string {
	buf := make([]byte, 1<<20)
	for {
		n := runtime.Stack(buf, true)
		if n < len(buf) {
			buf = buf[:n]
			break
		}
		buf = make([]byte, 2*len(buf))
	}
	out := map[uint64]string{}
	for _, block := range strings.Split(string(buf), "\n\n") {
		if !strings.HasPrefix(block, "goroutine ") {
			continue
		}
		head := block
		if i := strings.IndexByte(head, '\n'); i >= 0 {
			head = head[:i]
		}
		// goroutine 12 [sync.Mutex.Lock, 2 minutes]:
		rest := strings.TrimPrefix(head, "goroutine ")
		sp := strings.IndexByte(rest, ' ')
		if sp < 0 {
			continue
		}
		id, err := strconv.ParseUint(rest[:sp], 10, 64)
		if err != nil {
			continue
		}
		st := rest[sp+1:]
		st = strings.TrimPrefix(st, "[")
		if i := strings.IndexAny(st, ",]"); i >= 0 {
			st = st[:i]
		}
		out[id] = st
	}
	return out
}

// blockedOnMutex reports whether goroutine g is parked inside sync.Mutex.Lock.  It is decided
// from the runtime's own wait reason, never from a timeout, so a slow machine cannot turn a
// runnable goroutine into a "blocked" observation.
func blockedOnMutex(g uint64) bool {
	// Only the wait reason of sync.Mutex.Lock counts.  (The generic reason "semacquire" must not:
	// a goroutine that is about to start a GC cycle waits on the runtime's world semaphore with
	// that reason while this harness holds it for runtime.Stack(all) — it is not blocked at all.)
	for i := 0; i < 2; i++ {
		if !strings.Contains(goroutineStates()[g], "Mutex.Lock") {
			return false
		}
		if i == 0 {
			time.Sleep(50 * time.Microsecond) // seen asleep twice in a row, not a passing state
		}
	}
	return true
}

const stuckAfter = 120 * time.Second // generous: a loaded machine must not turn a slow step into an alarm

func main() {
	for i, a := range os.Args {
		if a == "-prop" && i+1 < len(os.Args) {
			*prop = os.Args[i+1]
		}
		if strings.HasPrefix(a, "-prop=") {
			*prop = strings.TrimPrefix(a, "-prop=")
		}
	}
	for i, a := range os.Args {
		if a == "-child" && i+1 < len(os.Args) && os.Args[i+1] == "rel2" {
			latchChildRel2()
			return
		}
	}
	switch *prop {
	case "C20":
		hlib.Main("conc/C20", &latchEngine{})
	case "C27":
		hlib.Main("conc/C27", &pdEngine{})
	default:
		fmt.Fprintln(os.Stderr, "unknown -prop")
		os.Exit(2)
	}
}

package main

// C20: the real percolator/latch.Manager with one goroutine per request.  A request runs until
// Acquire returns or the goroutine sleeps in sync.Mutex.Lock (decided from the runtime's wait
// reason, not from a timeout); Release is called by the harness.  Keys are symbols `<stripe><letter>`
// resolved to concrete keys with that kv.MemHash residue (the hash seed changes per process).

import (
	"fmt"
	"os"
	"os/exec"
	"sort"
	"strconv"
	"strings"
	"time"

	"github.com/feichai0017/NoKV/kv"
	"github.com/feichai0017/NoKV/percolator/latch"

	"verif/harness/hlib"
)

type latchEngine struct{}

func (e *latchEngine) Rule() string {
	return "C20: 2-6 concurrent requests on a Manager with 2-4 stripes (55%) or 65..1024 stripes (45%, keys drawn from 3 stripe ids among 0, 1, 31..33, 63..65, 127, 128, 255, 256, 511, n-2, n-1 and random ones); key sets of 0-4 keys with duplicates, the empty key and distinct keys colliding on a stripe; releases in random order (only such that at most one freed stripe has sleepers, which keeps the real wake-up order deterministic), a final drain that must finish every request, and a double-Release probe in a child process; non-trivial = some request blocked and later acquired after a release"
}

// ---- key symbols -> concrete keys

var keyCache = map[string][]byte{}

func concreteKey(sym string, n int) []byte {
	if sym == "e" {
		return []byte{}
	}
	ck := fmt.Sprintf("%d/%s", n, sym)
	if k, ok := keyCache[ck]; ok {
		return k
	}
	i := 0
	for i < len(sym) && sym[i] >= '0' && sym[i] <= '9' {
		i++
	}
	stripe, _ := strconv.Atoi(sym[:i])
	variant := int(sym[i] - 'a')
	seen := 0
	for c := 0; c < 1_000_000; c++ {
		k := []byte(fmt.Sprintf("key-%d", c))
		if int(kv.MemHash(k)%uint64(n)) == stripe%n {
			if seen == variant {
				keyCache[ck] = k
				return k
			}
			seen++
		}
	}
	panic("no key found for symbol " + sym)
}

// ---- generator with a small simulation that keeps wake-ups race free

type simThread struct {
	todo, got []int
	state     byte // 'H' holding, 'B' blocked, 'R' released
}

func symStripes(keys []string, n int) []int {
	seen := map[int]bool{}
	var out []int
	for _, k := range keys {
		if k == "e" {
			continue
		}
		i := 0
		for i < len(k) && k[i] >= '0' && k[i] <= '9' {
			i++
		}
		s, _ := strconv.Atoi(k[:i])
		s %= n
		if !seen[s] {
			seen[s] = true
			out = append(out, s)
		}
	}
	sort.Ints(out)
	return out
}

type sim struct {
	n     int
	owner map[int]int
	queue map[int][]int
	thr   map[int]*simThread
	order []int
}

func (s *sim) advance(t int) {
	th := s.thr[t]
	for len(th.todo) > 0 {
		i := th.todo[0]
		if _, busy := s.owner[i]; busy {
			th.state = 'B'
			s.queue[i] = append(s.queue[i], t)
			return
		}
		s.owner[i] = t
		th.got = append(th.got, i)
		th.todo = th.todo[1:]
	}
	th.state = 'H'
}

func (s *sim) release(t int) {
	th := s.thr[t]
	th.state = 'R'
	for j := len(th.got) - 1; j >= 0; j-- {
		i := th.got[j]
		delete(s.owner, i)
		if q := s.queue[i]; len(q) > 0 {
			w := q[0]
			s.queue[i] = q[1:]
			s.advance(w)
		}
	}
	th.got = nil
}

// raceFree: at most one stripe held by t has sleepers
func (s *sim) raceFree(t int) bool {
	c := 0
	for _, i := range s.thr[t].got {
		if len(s.queue[i]) > 0 {
			c++
		}
	}
	return c <= 1
}

func (e *latchEngine) Gen(r *hlib.Rand, tier string) []string {
	// small managers force blocking between requests; large ones (production uses 512 stripes) reach
	// stripe ids on both sides of every boundary a dedupe / bitmap / table implementation may have
	n := 2 + r.Intn(3)
	var pool []int // stripe ids the keys of this case are drawn from
	if r.Chance(45) {
		n = hlib.Pick(r, []int{65, 66, 100, 128, 129, 512, 513, 1024})
		cands := []int{0, 1, 31, 32, 33, 63, 64, 65, 127, 128, 255, 256, 511, n - 2, n - 1, r.Intn(n), r.Intn(n)}
		for len(pool) < 3 {
			if c := hlib.Pick(r, cands); c < n {
				pool = append(pool, c)
			}
		}
		if r.Chance(50) {
			pool[0] = hlib.Pick(r, []int{63, 64, 65}) // the 64-bit word boundary, always in range here
		}
	} else {
		for i := 0; i < n; i++ {
			pool = append(pool, i)
		}
	}
	ops := []string{fmt.Sprintf("latch.new %d", n)}
	s := &sim{n: n, owner: map[int]int{}, queue: map[int][]int{}, thr: map[int]*simThread{}}
	next := 0
	steps := 6 + r.Intn(14)
	for i := 0; i < steps; i++ {
		var holders []int
		for _, t := range s.order {
			if s.thr[t].state == 'H' && s.raceFree(t) {
				holders = append(holders, t)
			}
		}
		x := r.Intn(100)
		switch {
		case x < 50 && next < 7:
			cnt := r.Intn(5)
			if r.Chance(60) {
				cnt = 1 + r.Intn(2)
			}
			var keys []string
			for j := 0; j < cnt; j++ {
				switch {
				case r.Chance(10):
					keys = append(keys, "e")
				case len(keys) > 0 && r.Chance(15):
					keys = append(keys, keys[r.Intn(len(keys))]) // duplicate key
				default:
					keys = append(keys, fmt.Sprintf("%d%c", hlib.Pick(r, pool), 'a'+rune(r.Intn(2))))
				}
			}
			ks := "-"
			if len(keys) > 0 {
				ks = strings.Join(keys, ",")
			}
			ops = append(ops, fmt.Sprintf("latch.acq %d %s", next, ks))
			s.thr[next] = &simThread{todo: symStripes(keys, n)}
			s.order = append(s.order, next)
			s.advance(next)
			next++
		case x < 88 && len(holders) > 0:
			t := hlib.Pick(r, holders)
			ops = append(ops, fmt.Sprintf("latch.rel %d", t))
			s.release(t)
		case x < 94:
			ops = append(ops, "latch.state")
		case x < 97 && next > 0:
			ops = append(ops, fmt.Sprintf("latch.rel %d", r.Intn(next))) // possibly blocked / already released
			// only harmless if that thread is not a holder; keep the simulation in step
			t, _ := strconv.Atoi(strings.Fields(ops[len(ops)-1])[1])
			if s.thr[t].state == 'H' {
				if s.raceFree(t) {
					s.release(t)
				} else {
					ops = ops[:len(ops)-1]
				}
			}
		default:
			ops = append(ops, "latch.state")
		}
	}
	if r.Chance(15) {
		ops = append(ops, "latch.rel2probe")
	}
	ops = append(ops, "latch.drain", "latch.state")
	return ops
}

func (e *latchEngine) Nontrivial(ops, impl, model, spec []string) bool {
	blocked, woke := false, false
	for i := range ops {
		if strings.HasSuffix(impl[i], ":blocked") {
			blocked = true
		}
		if strings.Contains(impl[i], "now-held=") && !strings.HasSuffix(impl[i], "now-held=-") {
			woke = true
		}
	}
	return blocked && woke
}

// ---- execution on the real Manager

type latchThread struct {
	gid   uint64
	keys  []string
	state byte // 'B' pending/blocked, 'H' held, 'R' released
	guard *latch.Guard
	done  chan *latch.Guard
}

type latchWorld struct {
	n     int
	m     *latch.Manager
	thr   map[int]*latchThread
	order []int
}

// settle waits until every pending request either holds or sleeps in Mutex.Lock; returns the
// requests that started to hold.
func (w *latchWorld) settle() []int {
	var newly []int
	deadline := time.Now().Add(stuckAfter)
	for {
		quiet := true
		for _, t := range w.order {
			th := w.thr[t]
			if th.state != 'B' {
				continue
			}
			select {
			case g := <-th.done:
				th.guard = g
				th.state = 'H'
				newly = append(newly, t)
			default:
				if !blockedOnMutex(th.gid) {
					quiet = false
				}
			}
		}
		if quiet {
			// a goroutine seen asleep may have been readied since: look once more at the channels
			again := false
			for _, t := range w.order {
				th := w.thr[t]
				if th.state == 'B' && len(th.done) > 0 {
					again = true
				}
			}
			if !again {
				sort.Ints(newly)
				return newly
			}
			continue
		}
		if time.Now().After(deadline) {
			panic("verif: latch goroutines neither hold nor sleep (stuck)")
		}
		time.Sleep(100 * time.Microsecond)
	}
}

func (w *latchWorld) overlaps(t int) bool {
	mine := map[string]bool{}
	for _, k := range w.thr[t].keys {
		mine[k] = true
	}
	for _, u := range w.order {
		if u == t || w.thr[u].state != 'H' {
			continue
		}
		for _, k := range w.thr[u].keys {
			if mine[k] {
				return true
			}
		}
	}
	return false
}

func listStr(l []int) string {
	if len(l) == 0 {
		return "-"
	}
	s := make([]string, len(l))
	for i, x := range l {
		s[i] = strconv.Itoa(x)
	}
	return strings.Join(s, ",")
}

func (w *latchWorld) release(t int) string {
	th := w.thr[t]
	th.guard.Release()
	th.state = 'R'
	newly := w.settle()
	flag := "ok"
	for _, u := range newly {
		if w.overlaps(u) {
			flag = "overlap"
		}
	}
	return fmt.Sprintf("%s:released now-held=%s", flag, listStr(newly))
}

func (e *latchEngine) Exec(ops []string) (out []string) {
	if lf := os.Getenv("VERIF_LATCH_LOG"); lf != "" {
		defer func() {
			f, err := os.OpenFile(lf, os.O_APPEND|os.O_CREATE|os.O_WRONLY, 0o644)
			if err == nil {
				fmt.Fprintln(f, "CASE")
				for i, op := range ops {
					fmt.Fprintf(f, "%s => %s\n", op, out[i])
				}
				f.Close()
			}
		}()
	}
	w := &latchWorld{n: 4, m: latch.NewManager(4), thr: map[int]*latchThread{}}
	out = make([]string, len(ops))
	for i, op := range ops {
		f := strings.Fields(op)
		switch {
		case f[0] == "latch.new" && len(f) == 2:
			n, _ := strconv.Atoi(f[1])
			if n <= 0 {
				out[i] = "bad-op"
				continue
			}
			// requests still blocked on the old manager stay asleep there; nothing references it again
			w = &latchWorld{n: n, m: latch.NewManager(n), thr: map[int]*latchThread{}}
			out[i] = "ok"
		case f[0] == "latch.acq" && len(f) == 3:
			tid, err := strconv.Atoi(f[1])
			if _, dup := w.thr[tid]; dup || err != nil {
				out[i] = "bad-op"
				continue
			}
			var syms []string
			if f[2] != "-" {
				syms = strings.Split(f[2], ",")
			}
			keys := make([][]byte, len(syms))
			for j, sname := range syms {
				keys[j] = concreteKey(sname, w.n)
			}
			th := &latchThread{keys: syms, state: 'B', done: make(chan *latch.Guard, 1)}
			w.thr[tid] = th
			w.order = append(w.order, tid)
			ready := make(chan uint64)
			m := w.m
			go func() {
				ready <- goid()
				th.done <- m.Acquire(keys)
			}()
			th.gid = <-ready
			w.settle()
			if th.state == 'H' {
				flag := "ok"
				if w.overlaps(tid) {
					flag = "overlap"
				}
				out[i] = flag + ":held"
			} else {
				out[i] = "ok:blocked"
			}
		case f[0] == "latch.rel" && len(f) == 2:
			tid, _ := strconv.Atoi(f[1])
			th := w.thr[tid]
			if th == nil || th.state != 'H' {
				out[i] = "ok:nothold"
				continue
			}
			out[i] = w.release(tid)
		case f[0] == "latch.state" && len(f) == 1:
			var parts []string
			for _, t := range w.order {
				parts = append(parts, fmt.Sprintf("%d=%c", t, w.thr[t].state))
			}
			if len(parts) == 0 {
				out[i] = "-"
			} else {
				out[i] = strings.Join(parts, ",")
			}
		case f[0] == "latch.drain" && len(f) == 1:
			for {
				h := -1
				for _, t := range w.order {
					if w.thr[t].state == 'H' {
						h = t
						break
					}
				}
				if h < 0 {
					break
				}
				w.release(h)
			}
			stuck := 0
			for _, t := range w.order {
				if w.thr[t].state == 'B' {
					stuck++
				}
			}
			if stuck == 0 {
				out[i] = "alldone"
			} else {
				out[i] = fmt.Sprintf("stuck:%d", stuck)
			}
		case f[0] == "latch.rel2probe" && len(f) == 1:
			// a second Unlock of a free sync.Mutex is a fatal error (not recoverable): child process
			cmd := exec.Command(os.Args[0], "-prop", "C20", "-child", "rel2")
			b, err := cmd.CombinedOutput()
			if err == nil && strings.TrimSpace(string(b)) == "ok" {
				out[i] = "ok"
			} else {
				out[i] = "crash"
			}
		default:
			out[i] = "bad-op"
		}
	}
	return out
}

func latchChildRel2() {
	m := latch.NewManager(2)
	g := m.Acquire([][]byte{[]byte("k")})
	g.Release()
	g.Release()
	fmt.Println("ok")
}

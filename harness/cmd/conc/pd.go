package main

// C27: the real pd/server.Service with a real pd/storage.LocalStore behind a gate that parks
// every SaveAllocatorState call until the op file releases it.  No hook in /repo is needed:
// Service.SetStorage accepts any pdstorage.Store.

import (
	"context"
	"encoding/json"
	"errors"
	"fmt"
	"os"
	"path/filepath"
	"strconv"
	"strings"
	"sync"
	"sync/atomic"
	"time"

	"github.com/feichai0017/NoKV/pb"
	"github.com/feichai0017/NoKV/pd/core"
	pdserver "github.com/feichai0017/NoKV/pd/server"
	pdstorage "github.com/feichai0017/NoKV/pd/storage"
	"github.com/feichai0017/NoKV/pd/tso"
	"github.com/feichai0017/NoKV/vfs"

	"verif/harness/hlib"
)

type arrival struct {
	tid     int
	id, ts  uint64
	release chan int // relKill | relOK | relFail
}

// gateStore wraps the real store; SaveAllocatorState parks until released.
type gateStore struct {
	pdstorage.Store
	mu     sync.Mutex
	dead   bool
	tids   map[uint64]int // goroutine id -> thread id
	arrive chan arrival
}

func (g *gateStore) SaveAllocatorState(id, ts uint64) error {
	g.mu.Lock()
	dead := g.dead
	tid, ok := g.tids[goid()]
	g.mu.Unlock()
	if dead {
		return errors.New("verif: process killed")
	}
	if !ok {
		return g.Store.SaveAllocatorState(id, ts)
	}
	rel := make(chan int, 1)
	g.arrive <- arrival{tid: tid, id: id, ts: ts, release: rel}
	switch <-rel {
	case relKill:
		return errors.New("verif: process killed")
	case relFail:
		// the checkpoint write fails (storage error); nothing reaches PD_STATE.json
		return errors.New("verif: injected checkpoint write failure")
	}
	return g.Store.SaveAllocatorState(id, ts)
}

const (
	relKill = iota
	relOK
	relFail
)

type pdReply struct {
	first, count uint64
	err          error
}

type pdThread struct {
	gid    uint64
	kind   string
	parked *arrival
	done   chan pdReply
}

type rng struct {
	kind        string
	first, last uint64
}

type pdEngine struct{}

func (e *pdEngine) Rule() string {
	return "C27: schedules of concurrent AllocID/Tso requests (counts 0..10, in 35% of the cases also batch sizes at and around 2^10, 2^16, 2^20, 2^21, 2^31, 2^32, 2^40; up to 5 in flight) whose checkpoint saves are released in a random order or made to fail (injected storage error, 18% of the releases) while other requests have already reserved, with process kills + restarts from PD_STATE.json at random points and calls of ResolveAllocatorStarts on boundary values (0, MaxUint64-1, MaxUint64); non-trivial = at some point two requests were in flight at the gate (or one parked and one blocked on the mutex), and a request replied after a restart"
}

var pdCounts = []uint64{0, 1, 1, 2, 3, 10}

// batch sizes at and around powers of two (a clamp or a narrower integer type would show there)
var pdBigCounts = []uint64{1<<10 - 1, 1 << 10, 1<<16 + 1, 1<<20 - 1, 1 << 20, 1<<20 + 1, 1 << 21, 1<<21 + 1,
	1<<31 - 1, 1 << 31, 1<<32 - 1, 1 << 32, 1<<32 + 1, 1 << 40}
var pdStarts = []uint64{0, 1, 1, 1, 5, 100}
var pdBoundary = []uint64{0, 1, 2, 7, 100, 18446744073709551613, 18446744073709551614, 18446744073709551615}

func (e *pdEngine) Gen(r *hlib.Rand, tier string) []string {
	ops := []string{fmt.Sprintf("pd.open %d %d", hlib.Pick(r, pdStarts), hlib.Pick(r, pdStarts))}
	n := 8 + r.Intn(22)
	next := 0
	var parked []int    // threads believed to be in flight (parked or blocked)
	big := r.Chance(35) // this case uses large batches
	for i := 0; i < n; i++ {
		x := r.Intn(100)
		switch {
		case x < 38 && len(parked) < 5:
			kind := "id"
			if r.Chance(35) {
				kind = "ts"
			}
			cnt := hlib.Pick(r, pdCounts)
			if big && r.Chance(60) {
				cnt = hlib.Pick(r, pdBigCounts)
			}
			ops = append(ops, fmt.Sprintf("pd.req %d %s %d", next, kind, cnt))
			parked = append(parked, next)
			next++
		case x < 78 && len(parked) > 0:
			j := r.Intn(len(parked))
			if r.Chance(40) {
				j = 0 // oldest first: with a serialized persist this is the one holding the gate
			}
			if r.Chance(18) {
				// the checkpoint write fails while later requests may already have reserved
				ops = append(ops, fmt.Sprintf("pd.savefail %d", parked[j]))
			} else {
				ops = append(ops, fmt.Sprintf("pd.save %d", parked[j]))
			}
			parked = append(parked[:j], parked[j+1:]...)
		case x < 81 && r.Chance(60):
			// storage fault: the rename onto PD_STATE.json fails once, twice in a row, or for good
			ops = append(ops, fmt.Sprintf("pd.renamefail %d", hlib.Pick(r, []int{1, 1, 2, 2, 3, 99})))
		case x < 86:
			ops = append(ops, "pd.restart")
			parked = nil
		case x < 92:
			ops = append(ops, "pd.ckpt")
		case x < 97:
			ops = append(ops, fmt.Sprintf("pd.resolve %d %d %d %d", hlib.Pick(r, pdBoundary), hlib.Pick(r, pdBoundary), hlib.Pick(r, pdBoundary), hlib.Pick(r, pdBoundary)))
		default:
			ops = append(ops, fmt.Sprintf("pd.save %d", r.Intn(next+1))) // possibly not parked / unknown
		}
	}
	// drain: release what is still parked (twice: a blocked request becomes parked after a save)
	for pass := 0; pass < 2; pass++ {
		for _, t := range parked {
			ops = append(ops, fmt.Sprintf("pd.save %d", t))
		}
	}
	ops = append(ops, "pd.restart", fmt.Sprintf("pd.req %d id 1", next), fmt.Sprintf("pd.save %d", next))
	return ops
}

func (e *pdEngine) Nontrivial(ops, impl, model, spec []string) bool {
	inflight, two, restarted, replyAfter := 0, false, false, false
	for i, op := range ops {
		switch {
		case strings.HasPrefix(op, "pd.req"):
			if strings.HasPrefix(impl[i], "parked") || impl[i] == "blocked" {
				inflight++
			}
			if inflight >= 2 {
				two = true
			}
		case strings.HasPrefix(op, "pd.save"):
			if strings.Contains(impl[i], "reply=") {
				inflight--
				if restarted {
					replyAfter = true
				}
			}
		case op == "pd.restart":
			inflight = 0
			restarted = true
		}
	}
	return two && replyAfter
}

type pdWorld struct {
	dir              string
	idStart, tsStart uint64
	store            *pdstorage.LocalStore
	gate             *gateStore
	svc              *pdserver.Service
	ids              *core.IDAllocator
	tsa              *tso.Allocator
	threads          map[int]*pdThread
	blocked          []int
	replied          []rng
	renameFail       atomic.Int64
}

func (w *pdWorld) open() {
	// the real LocalStore on a fault-injecting file system: the next w.renameFail renames of the
	// temporary checkpoint file onto PD_STATE.json fail
	w.renameFail.Store(0)
	ffs := vfs.NewFaultFS(vfs.OSFS{}, func(op vfs.Op, path string) error {
		if op == vfs.OpRename && strings.HasSuffix(path, "->"+filepath.Join(w.dir, pdstorage.StateFileName)) { // hook path of a rename is "src->dst"
			for {
				n := w.renameFail.Load()
				if n <= 0 {
					return nil
				}
				if w.renameFail.CompareAndSwap(n, n-1) {
					return errors.New("verif: injected rename failure")
				}
			}
		}
		return nil
	})
	st, err := pdstorage.OpenLocalStore(w.dir, ffs)
	if err != nil {
		panic(err)
	}
	snap, err := st.Load()
	if err != nil {
		panic(err)
	}
	// cmd/nokv/pd.go (package main, not importable): resolve the starts, build the allocators
	ids, tss := pdstorage.ResolveAllocatorStarts(w.idStart, w.tsStart, snap.Allocator)
	w.store = st
	w.ids = core.NewIDAllocator(ids)
	w.tsa = tso.NewAllocator(tss)
	w.svc = pdserver.NewService(core.NewCluster(), w.ids, w.tsa)
	w.gate = &gateStore{Store: st, tids: map[uint64]int{}, arrive: make(chan arrival, 16)}
	w.svc.SetStorage(w.gate)
	w.threads = map[int]*pdThread{}
	w.blocked = nil
}

// kill simulates a process crash: parked and blocked requests never write anything.
func (w *pdWorld) kill() {
	if w.gate == nil {
		return
	}
	w.gate.mu.Lock()
	w.gate.dead = true
	w.gate.mu.Unlock()
	for _, t := range w.threads {
		if t.parked != nil {
			t.parked.release <- relKill
			t.parked = nil
		}
	}
	deadline := time.After(stuckAfter)
	for _, t := range w.threads {
		if t.done == nil {
			continue
		}
		select {
		case <-t.done:
		case a := <-w.gate.arrive: // cannot happen (dead gate never parks) but do not hang
			a.release <- relKill
		case <-deadline:
			panic("verif: request goroutine did not finish after kill")
		}
		t.done = nil
	}
	w.store.Close()
	w.gate = nil
}

func (w *pdWorld) ckpt() (uint64, uint64) {
	data, err := os.ReadFile(filepath.Join(w.dir, pdstorage.StateFileName))
	if err != nil || len(data) == 0 {
		return 0, 0
	}
	var st pdstorage.AllocatorState
	if err := json.Unmarshal(data, &st); err != nil {
		panic(err)
	}
	return st.IDCurrent, st.TSCurrent
}

// waitGate waits until thread tid has parked at the gate (true) or is blocked on a mutex (false).
func (w *pdWorld) waitGate(tid int) (*arrival, bool) {
	t := w.threads[tid]
	deadline := time.Now().Add(stuckAfter)
	for {
		select {
		case a := <-w.gate.arrive:
			if a.tid != tid {
				panic(fmt.Sprintf("verif: thread %d arrived at the gate while waiting for %d", a.tid, tid))
			}
			return &a, true
		case <-time.After(200 * time.Microsecond):
		}
		if blockedOnMutex(t.gid) {
			// re-check the channel once: it may have arrived between the two observations
			select {
			case a := <-w.gate.arrive:
				if a.tid != tid {
					panic("verif: unexpected arrival")
				}
				return &a, true
			default:
			}
			return nil, false
		}
		if time.Now().After(deadline) {
			panic(fmt.Sprintf("verif: thread %d neither parked nor blocked (stuck)", tid))
		}
	}
}

func overlapsR(a, b rng) bool {
	return a.kind == b.kind && !(a.last < b.first || b.last < a.first)
}

func (e *pdEngine) Exec(ops []string) []string {
	dir, err := os.MkdirTemp("", "verif-pdalloc-")
	if err != nil {
		panic(err)
	}
	defer os.RemoveAll(dir)
	w := &pdWorld{dir: dir, idStart: 1, tsStart: 1}
	defer func() {
		if w.gate != nil {
			w.kill()
		}
	}()
	out := make([]string, len(ops))
	ctx := context.Background()
	for i, op := range ops {
		f := strings.Fields(op)
		switch {
		case f[0] == "pd.open" && len(f) == 3:
			if w.gate != nil {
				w.kill()
			}
			os.RemoveAll(dir)
			os.MkdirAll(dir, 0o755)
			w.idStart, _ = strconv.ParseUint(f[1], 10, 64)
			w.tsStart, _ = strconv.ParseUint(f[2], 10, 64)
			w.replied = nil
			w.open()
			out[i] = fmt.Sprintf("starts=%d,%d", w.ids.Current()+1, w.tsa.Current()+1)
		case f[0] == "pd.req" && len(f) == 4:
			if w.gate == nil {
				w.open()
			}
			tid, _ := strconv.Atoi(f[1])
			cnt, _ := strconv.ParseUint(f[3], 10, 64)
			if _, dup := w.threads[tid]; dup || (f[2] != "id" && f[2] != "ts") {
				out[i] = "bad-op"
				continue
			}
			t := &pdThread{kind: f[2], done: make(chan pdReply, 1)}
			w.threads[tid] = t
			ready := make(chan uint64)
			gate, svc := w.gate, w.svc
			go func() {
				g := goid()
				gate.mu.Lock()
				gate.tids[g] = tid
				gate.mu.Unlock()
				ready <- g
				if t.kind == "id" {
					resp, err := svc.AllocID(ctx, &pb.AllocIDRequest{Count: cnt})
					t.done <- pdReply{resp.GetFirstId(), resp.GetCount(), err}
				} else {
					resp, err := svc.Tso(ctx, &pb.TsoRequest{Count: cnt})
					t.done <- pdReply{resp.GetTimestamp(), resp.GetCount(), err}
				}
			}()
			t.gid = <-ready
			if a, ok := w.waitGate(tid); ok {
				t.parked = a
				out[i] = fmt.Sprintf("parked=%d,%d", a.id, a.ts)
			} else {
				w.blocked = append(w.blocked, tid)
				out[i] = "blocked"
			}
		case (f[0] == "pd.save" || f[0] == "pd.savefail") && len(f) == 2:
			tid, _ := strconv.Atoi(f[1])
			t := w.threads[tid]
			if w.gate == nil || t == nil || t.parked == nil {
				out[i] = "notparked"
				continue
			}
			fail := f[0] == "pd.savefail"
			if fail {
				t.parked.release <- relFail
			} else {
				t.parked.release <- relOK
			}
			t.parked = nil
			var rep pdReply
			select {
			case rep = <-t.done:
			case <-time.After(stuckAfter):
				panic("verif: released request did not reply (stuck)")
			}
			t.done = nil
			if rep.err != nil && !strings.Contains(rep.err.Error(), "persist allocator state") {
				out[i] = "err:" + rep.err.Error()
				continue
			}
			if rep.err != nil {
				fail = true // the checkpoint write failed inside the real store (injected rename failure)
			}
			flag := "fresh"
			if !fail {
				r := rng{t.kind, rep.first, rep.first + rep.count - 1}
				for _, o := range w.replied {
					if overlapsR(r, o) {
						flag = "dup"
					}
				}
				w.replied = append(w.replied, r)
			}
			nxt := ""
			if len(w.blocked) > 0 {
				// the persist mutex is free again: exactly one waiter takes it and reaches the gate
				select {
				case a := <-w.gate.arrive:
					for j, b := range w.blocked {
						if b == a.tid {
							w.blocked = append(w.blocked[:j], w.blocked[j+1:]...)
							break
						}
					}
					w.threads[a.tid].parked = &a
					nxt = fmt.Sprintf(" next=%d:%d,%d", a.tid, a.id, a.ts)
				case <-time.After(stuckAfter):
					panic("verif: no blocked request reached the gate after the holder finished (stuck)")
				}
			}
			cid, cts := w.ckpt()
			if fail {
				if rep.err == nil {
					out[i] = "fresh:no-error"
				} else {
					out[i] = fmt.Sprintf("fresh:error ckpt=%d,%d cur=%d,%d%s", cid, cts, w.ids.Current(), w.tsa.Current(), nxt)
				}
				continue
			}
			out[i] = fmt.Sprintf("%s:reply=%d,%d ckpt=%d,%d%s", flag, rep.first, rep.count, cid, cts, nxt)
		case f[0] == "pd.renamefail" && len(f) == 2:
			n, err := strconv.ParseInt(f[1], 10, 64)
			if err != nil || n < 0 {
				out[i] = "bad-op"
				continue
			}
			if w.gate == nil {
				w.open()
			}
			w.renameFail.Store(n)
			out[i] = "ok"
		case f[0] == "pd.restart" && len(f) == 1:
			if w.gate != nil {
				w.kill()
			}
			w.open()
			flag := "safe"
			for _, r := range w.replied {
				cur := w.ids.Current()
				if r.kind == "ts" {
					cur = w.tsa.Current()
				}
				if cur < r.last {
					flag = "unsafe"
				}
			}
			out[i] = fmt.Sprintf("%s:starts=%d,%d", flag, w.ids.Current()+1, w.tsa.Current()+1)
		case f[0] == "pd.ckpt" && len(f) == 1:
			cid, cts := w.ckpt()
			out[i] = fmt.Sprintf("ckpt=%d,%d", cid, cts)
		case f[0] == "pd.resolve" && len(f) == 5:
			a, _ := strconv.ParseUint(f[1], 10, 64)
			b, _ := strconv.ParseUint(f[2], 10, 64)
			x, _ := strconv.ParseUint(f[3], 10, 64)
			y, _ := strconv.ParseUint(f[4], 10, 64)
			p, q := pdstorage.ResolveAllocatorStarts(a, b, pdstorage.AllocatorState{IDCurrent: x, TSCurrent: y})
			out[i] = fmt.Sprintf("res=%d,%d", p, q)
		default:
			out[i] = "bad-op"
		}
	}
	return out
}

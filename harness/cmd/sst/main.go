// Correspondence harness for the SST engine (C35): a table file is built from given entries
// with the production builder and opened stand-alone (hook lsm/verif_sst_hooks.go, tag verif);
// lookups, seeks and scans run before and after re-opening the file.
package main

import (
	"bytes"
	"fmt"
	"math"
	"os"
	"runtime/debug"
	"sort"
	"strconv"
	"strings"

	"github.com/feichai0017/NoKV/kv"
	"github.com/feichai0017/NoKV/lsm"
	"github.com/feichai0017/NoKV/utils"

	"verif/harness/hlib"
)

type engine struct {
	single, bigEntry, multiBlock, gapSeeks, gapGets, reopened, bloomCases int
	corruptCases, readsAfterCorrupt, liveCorruptCases                     int
	corruptOnly                                                           bool
	cursorCases, cursorOps, seekAfterExhaustion                           int
	fid                                                                   uint64
}

func (e *engine) Rule() string {
	return "C35: one table per case built from a sorted duplicate-free entry set (1..60 entries; user keys with 00/ff, byte-prefix pairs, " +
		"1-4 versions per key, values 0..3 bytes or 40..400 bytes so that single entries exceed the block), block sizes 32..4096, bloom on/off; " +
		"then get of every stored key and of neighbours (version+1/-1, absent keys), ascending and descending seeks to stored keys, gaps between blocks, " +
		"before-first and after-last, full scans both ways; everything repeated after reopen; in ~70% of the cases one long-lived iterator per direction then receives 7-40 calls " +
		"(rewind / seek to stored keys, neighbours, first and last entry, absent keys / next / drain-to-exhaustion followed by seeks into the block visited last), each compared with the specification cursor; in ~30% of the small tables one bit inside a data block of the file is then flipped " +
		"(in part of the cases the table is uncached on level 2, fully read first and the bit is flipped while it stays open; classes: checksum-length field, checksum, entry count, entry offsets, entry bytes; plus tables shaped so that a flipped length field lands in the window the as-is guard lets through), the table reopened, and every stored key read twice plus seeks and scans both ways (block cache enabled, cache settled between reads); non-trivial = table with at least 2 blocks and at least one answered get and one non-empty seek"
}

func (e *engine) Extra() map[string]any {
	return map[string]any{"single_entry_tables": e.single, "tables_with_entry_larger_than_block": e.bigEntry, "multi_block_tables": e.multiBlock,
		"seeks_between_blocks": e.gapSeeks, "gets_above_first_entry_of_a_later_block": e.gapGets, "cases_reopened": e.reopened, "cases_with_long_lived_iterator": e.cursorCases, "cursor_calls": e.cursorOps, "seeks_after_exhaustion_on_same_iterator": e.seekAfterExhaustion, "tables_with_a_corrupted_block": e.corruptCases, "of_which_corrupted_while_open_after_first_read_uncached": e.liveCorruptCases, "reads_after_corruption": e.readsAfterCorrupt, "tables_with_bloom": e.bloomCases,
		"note": "counters include the re-executions of the shrinker"}
}

var userKeys = [][]byte{
	{0x61}, {0x61, 0x00}, {0x61, 0x00, 0x00}, {0x61, 0xff}, {0x61, 0x61}, {0x61, 0x62}, {0x61, 0x62, 0x63}, {0x62}, {0x00}, {0x00, 0x00},
	{0xff}, {0xff, 0xff}, {0xff, 0x00}, {0x7a}, {0x61, 0x01}, {0x61, 0xfe}, {0x63, 0x64, 0x65, 0x66, 0x67, 0x68, 0x69, 0x6a, 0x6b, 0x6c},
	{0x63, 0x64, 0x65, 0x66, 0x67, 0x68, 0x69, 0x6a, 0x6b, 0x6d}, {0x63, 0x64, 0x65}, {0x6d}, {0x6d, 0x6d}, {0x6e},
}

var versions = []uint64{1, 2, 3, 5, 9, 255, 256, 1 << 32, math.MaxUint64, math.MaxUint64 - 1}

type ent struct {
	u   []byte
	v   uint64
	val string // hex or r<N>
}

func (e *engine) Gen(r *hlib.Rand, tier string) []string {
	// entry set
	n := 1 + r.Intn(20)
	if e.corruptOnly {
		n = 2 + r.Intn(12)
	}
	switch r.Intn(10) {
	case 0:
		n = 1
	case 1:
		if !e.corruptOnly {
			n = 30 + r.Intn(31)
		}
	}
	seen := map[string]bool{}
	var es []ent
	for len(es) < n {
		u := hlib.Pick(r, userKeys)
		if r.Chance(15) {
			u = append(append([]byte{}, u...), byte(r.Intn(4)))
		}
		nv := 1 + r.Intn(3)
		for j := 0; j < nv && len(es) < n; j++ {
			v := hlib.Pick(r, versions)
			if r.Chance(20) {
				v = 1 + r.U64()%1000
			}
			id := string(u) + "/" + strconv.FormatUint(v, 10)
			if seen[id] {
				continue
			}
			seen[id] = true
			val := fmt.Sprintf("%02x", 1+len(es)%250)
			switch x := r.Intn(100); {
			case x < 10:
				val = fmt.Sprintf("r%d", 40+r.Intn(360))
			case x < 30:
				val = fmt.Sprintf("%06x", 0x010000+len(es))
			}
			es = append(es, ent{u, v, val})
		}
	}
	// chkLen-window tables: 1-byte user keys, one entry per block (tiny block size), value sizes such
	// that the block is 40..43, 72..75 or 136..139 bytes long (8^32, 8^64, 8^128 = 40, 72, 136)
	window := 0
	if (e.corruptOnly && r.Chance(35)) || (!e.corruptOnly && r.Chance(8)) {
		w := hlib.Pick(r, [][2]int{{5, 5}, {6, 37}, {7, 101}})
		window = w[0]
		es = es[:0]
		seen = map[string]bool{}
		m := 2 + r.Intn(5)
		for len(es) < m {
			u := []byte{byte(0x61 + len(es))}
			es = append(es, ent{u, 1 + uint64(r.Intn(3)), fmt.Sprintf("r%d", w[1]+r.Intn(4))})
		}
	}
	sort.Slice(es, func(i, j int) bool {
		if c := bytes.Compare(es[i].u, es[j].u); c != 0 {
			return c < 0
		}
		return es[i].v > es[j].v
	})
	var parts []string
	for _, x := range es {
		parts = append(parts, fmt.Sprintf("%s:%d:%s", hlib.Hex(x.u), x.v, x.val))
	}
	bs := hlib.Pick(r, []int{32, 48, 64, 64, 96, 128, 256, 1024, 4096})
	if window > 0 {
		bs = 32
	}
	bloom := 0
	bpk := 0
	if r.Chance(70) {
		bloom = 1
		fp := hlib.Pick(r, []float64{0.01, 0.1, 0.5, 0.001})
		bpk = utils.BloomBitsPerKey(len(es), fp)
		parts2 := strconv.FormatFloat(fp, 'g', -1, 64)
		_ = parts2
	}
	// live mode: table with the block cache disabled on level 2, every block read once while intact,
	// then one bit flipped in the file while the table stays open, then everything read again
	live := len(es) <= 14 && ((e.corruptOnly && r.Chance(40)) || (!e.corruptOnly && r.Chance(12)))
	buildOp := "build"
	if live {
		buildOp = "buildnc"
	}
	ops := []string{fmt.Sprintf("%s %d %d %d %s", buildOp, bs, bloom, bpk, strings.Join(parts, ",")), "blocks"}
	probe := func() {
		k := 6 + r.Intn(14)
		for i := 0; i < k; i++ {
			var u []byte
			var v uint64
			if r.Chance(75) {
				x := hlib.Pick(r, es)
				u, v = x.u, x.v
				switch r.Intn(6) {
				case 0:
					v++
				case 1:
					v--
				case 2:
					v = math.MaxUint64
				}
				if v == 0 {
					v = 1
				}
			} else {
				u, v = hlib.Pick(r, userKeys), hlib.Pick(r, versions)
			}
			switch r.Intn(10) {
			case 0, 1, 2, 3:
				ops = append(ops, fmt.Sprintf("get %s %d", hlib.Hex(u), v))
			case 4, 5, 6:
				ops = append(ops, fmt.Sprintf("seek asc %s %d %d", hlib.Hex(u), v, 1+r.Intn(5)))
			default:
				ops = append(ops, fmt.Sprintf("seek desc %s %d %d", hlib.Hex(u), v, 1+r.Intn(5)))
			}
		}
		// every stored key is looked up in small tables
		if len(es) <= 12 {
			for _, x := range es {
				ops = append(ops, fmt.Sprintf("get %s %d", hlib.Hex(x.u), x.v))
			}
		}
		ops = append(ops, "scan asc", "scan desc")
	}
	if !e.corruptOnly {
		probe()
		ops = append(ops, "reopen")
		probe()
	}
	// one long-lived iterator per direction: arbitrary call sequences, each step compared with the
	// specification cursor; seeks after the iterator ran off the table aim at the block visited last
	if !e.corruptOnly && r.Chance(70) {
		target := func() (string, uint64) {
			switch r.Intn(10) {
			case 0:
				x := es[len(es)-1] // last entry (last block)
				return hlib.Hex(x.u), x.v + uint64(r.Intn(2))
			case 1:
				x := es[0] // first entry (first block)
				return hlib.Hex(x.u), x.v + uint64(r.Intn(2))
			case 2:
				return hlib.Hex(hlib.Pick(r, userKeys)), hlib.Pick(r, versions)
			default:
				x := hlib.Pick(r, es)
				v := x.v
				switch r.Intn(5) {
				case 0:
					v++
				case 1:
					if v > 1 {
						v--
					}
				case 2:
					v = math.MaxUint64
				}
				return hlib.Hex(x.u), v
			}
		}
		dirs := []string{"asc", "desc"}
		if r.Bool() {
			dirs = []string{"desc", "asc"}
		}
		for _, d := range dirs {
			ops = append(ops, "it new "+d)
			if r.Bool() {
				ops = append(ops, "it rewind")
			} else {
				u, v := target()
				ops = append(ops, fmt.Sprintf("it seek %s %d", u, v))
			}
			for k := 0; k < 6+r.Intn(14); k++ {
				switch x := r.Intn(100); {
				case x < 35:
					u, v := target()
					ops = append(ops, fmt.Sprintf("it seek %s %d", u, v))
				case x < 65:
					for j := 0; j < 1+r.Intn(4); j++ {
						ops = append(ops, "it next")
					}
				case x < 75:
					ops = append(ops, "it rewind")
				default:
					// run off the table, then seek back into it: the block visited last, the other end,
					// and an arbitrary stored key
					ops = append(ops, "it drain")
					x := es[len(es)-1]
					if d == "desc" {
						x = es[0]
					}
					ops = append(ops, fmt.Sprintf("it seek %s %d", hlib.Hex(x.u), x.v))
					if r.Bool() {
						ops = append(ops, "it next")
					}
					if r.Chance(40) {
						u, v := target()
						ops = append(ops, "it drain", fmt.Sprintf("it seek %s %d", u, v))
					}
				}
			}
		}
	}
	if live {
		// first reads while intact: every stored key, and both scans
		for _, x := range es {
			ops = append(ops, fmt.Sprintf("get %s %d", hlib.Hex(x.u), x.v))
		}
		ops = append(ops, "scan asc", "scan desc")
	}
	if len(es) <= 14 && (e.corruptOnly || live || window > 0 || r.Chance(30)) {
		// flip one bit inside one data block, reopen, then read everything at least twice
		// where the bit goes: the block trailer is hit deliberately —
		//   chkLen (last 4 bytes), checksum (8 bytes before), entry count (4 before), entry offsets, entries
		pos := ""
		bit := r.Intn(8)
		switch x := r.Intn(100); {
		case x < 25:
			pos = fmt.Sprintf("e%d", r.Intn(4))
		case x < 45:
			pos = fmt.Sprintf("e%d", 4+r.Intn(8))
		case x < 60:
			pos = fmt.Sprintf("e%d", 12+r.Intn(4))
		case x < 75:
			pos = fmt.Sprintf("e%d", 16+r.Intn(8))
		default:
			pos = strconv.Itoa(r.Intn(4096))
		}
		blk := r.Intn(8)
		if window > 0 {
			// the table was shaped so that a block length falls into a window (L-4, L] of a value the
			// length field 8 can take after one flip: aim at exactly that bit of the last block byte
			pos, bit = "e0", window
			if r.Chance(30) {
				bit = r.Intn(8)
			}
		}
		if live {
			ops = append(ops, fmt.Sprintf("corruptlive %d %s %d", blk, pos, bit))
		} else {
			ops = append(ops, fmt.Sprintf("corrupt %d %s %d", blk, pos, bit))
		}
		for rep := 0; rep < 2; rep++ {
			for _, x := range es {
				ops = append(ops, fmt.Sprintf("get %s %d", hlib.Hex(x.u), x.v))
				if r.Chance(30) {
					ops = append(ops, fmt.Sprintf("get %s %d", hlib.Hex(x.u), x.v))
				}
			}
			for i := 0; i < 3; i++ {
				x := hlib.Pick(r, es)
				ops = append(ops, fmt.Sprintf("seek %s %s %d %d", hlib.Pick(r, []string{"asc", "desc"}), hlib.Hex(x.u), x.v+uint64(r.Intn(2)), 1+r.Intn(5)))
			}
			ops = append(ops, "scan asc", "scan desc")
		}
		if r.Bool() {
			ops = append(ops, "reopen", "scan asc", "scan desc", "scan asc")
		}
	}
	return ops
}

func parseEnts(s string) []*kv.Entry {
	var out []*kv.Entry
	for _, p := range strings.Split(s, ",") {
		f := strings.Split(p, ":")
		v, _ := strconv.ParseUint(f[1], 10, 64)
		var val []byte
		if strings.HasPrefix(f[2], "r") {
			n, _ := strconv.Atoi(f[2][1:])
			val = bytes.Repeat([]byte{120}, n)
		} else {
			val = hlib.UnHex(f[2])
		}
		out = append(out, &kv.Entry{Key: kv.KeyWithTs(hlib.UnHex(f[0]), v), Value: val})
	}
	return out
}

func keyStr(k []byte) string {
	if len(k) > 64 {
		return fmt.Sprintf("#%d:%s", len(k), hlib.Hex(k[len(k)-16:]))
	}
	return hlib.Hex(k)
}

func valStr(v []byte) string {
	if len(v) > 32 {
		return fmt.Sprintf("#%d:%s", len(v), hlib.Hex(v[:4]))
	}
	return hlib.Hex(v)
}

func entsStr(es []*kv.Entry) string {
	if len(es) == 0 {
		return "-"
	}
	var parts []string
	for _, e := range es {
		parts = append(parts, keyStr(e.Key)+"="+valStr(e.Value))
	}
	return strings.Join(parts, ",")
}

func guard(f func() string) (out string) {
	defer func() {
		if r := recover(); r != nil {
			if os.Getenv("VERIF_TRACE") != "" {
				fmt.Fprintf(os.Stderr, "panic: %v\n%s\n", r, debug.Stack())
			}
			out = "panic"
		}
	}()
	return f()
}

func (e *engine) Exec(ops []string) []string {
	out := make([]string, len(ops))
	dir, err := os.MkdirTemp("", "verif-sst-")
	if err != nil {
		panic(err)
	}
	defer os.RemoveAll(dir)
	var t *lsm.VerifTable
	defer func() {
		if t != nil {
			t.Close()
		}
	}()
	var bases [][]byte
	corrupted := false
	uncached := false
	var cur *lsm.VerifCursor
	exhausted := false
	positioned := false // a fresh iterator is only used after a Rewind or Seek
	closeCur := func() {
		if cur != nil {
			cur.Close()
			cur = nil
		}
	}
	defer closeCur()
	curStr := func() string {
		if en := cur.Entry(); en != nil {
			return keyStr(en.Key) + "=" + valStr(en.Value)
		}
		return "-"
	}
	for i, op := range ops {
		if corrupted && t != nil {
			// let the asynchronous block cache apply what earlier reads inserted
			t.SettleCaches()
		}
		f := strings.Fields(op)
		if f[0] != "build" && f[0] != "buildnc" && t == nil {
			out[i] = "no-table"
			continue
		}
		if f[0] == "build" || f[0] == "buildnc" || f[0] == "reopen" || f[0] == "corrupt" || f[0] == "corruptlive" {
			closeCur()
		}
		switch f[0] {
		case "it":
			if corrupted {
				out[i] = "bad-op"
				continue
			}
			if f[1] == "new" {
				closeCur()
				cur = t.NewCursor(f[2] == "asc")
				exhausted = false
				positioned = false
				e.cursorCases++
				out[i] = "ok"
				continue
			}
			if cur == nil {
				out[i] = "no-cursor"
				continue
			}
			if (f[1] == "next" || f[1] == "drain") && !positioned {
				out[i] = "unpositioned"
				continue
			}
			positioned = true
			e.cursorOps++
			out[i] = guard(func() string {
				switch f[1] {
				case "rewind":
					cur.Rewind()
					exhausted = false
					return curStr()
				case "next":
					if !cur.Valid() {
						return "-"
					}
					cur.Next()
					exhausted = !cur.Valid()
					return curStr()
				case "seek":
					v, _ := strconv.ParseUint(f[3], 10, 64)
					if exhausted {
						e.seekAfterExhaustion++
					}
					cur.Seek(kv.KeyWithTs(hlib.UnHex(f[2]), v))
					exhausted = false
					return curStr()
				case "drain":
					var parts []string
					for cur.Valid() {
						cur.Next()
						if en := cur.Entry(); en != nil {
							parts = append(parts, keyStr(en.Key)+"="+valStr(en.Value))
						}
						exhausted = true
						if len(parts) > 100000 {
							return "runaway"
						}
					}
					if len(parts) == 0 {
						return "-"
					}
					return strings.Join(parts, ",")
				}
				return "bad-op"
			})
		case "corrupt", "corruptlive":
			live := f[0] == "corruptlive"
			if live && !uncached {
				out[i] = "bad-op"
				continue
			}
			bi, _ := strconv.Atoi(f[1])
			bit, _ := strconv.Atoi(f[3])
			rs := t.BlockRanges()
			rg := rs[bi%len(rs)]
			var off int64
			if strings.HasPrefix(f[2], "e") {
				// e<k>: k bytes before the last byte of the block (the trailer is addressed from the end)
				k, _ := strconv.Atoi(f[2][1:])
				off = int64(rg[0] + rg[1] - 1 - k%rg[1])
			} else {
				by, _ := strconv.Atoi(f[2])
				off = int64(rg[0] + by%rg[1])
			}
			name := t.FileName()
			out[i] = guard(func() string {
				if !live {
					t.Close()
				}
				// live: the table stays open; the write goes through a separate descriptor and is
				// visible to the reader's MAP_SHARED mapping
				fh, err := os.OpenFile(name, os.O_RDWR, 0)
				if err != nil {
					return "err"
				}
				var one [1]byte
				if _, err := fh.ReadAt(one[:], off); err != nil {
					fh.Close()
					return "err"
				}
				one[0] ^= 1 << uint(bit%8)
				if _, err := fh.WriteAt(one[:], off); err != nil {
					fh.Close()
					return "err"
				}
				_ = fh.Sync()
				fh.Close()
				if live {
					return "ok"
				}
				if err := t.Reopen(); err != nil {
					return "err"
				}
				return "ok"
			})
			if live {
				e.liveCorruptCases++
			}
			corrupted = true
			e.corruptCases++
			if out[i] == "panic" {
				// openTable itself died on the corrupted last block: there is no table any more
				t = nil
			}
		case "build", "buildnc":
			uncached = f[0] == "buildnc"
			corrupted = false
			if t != nil {
				t.Close()
				t = nil
			}
			bs, _ := strconv.Atoi(f[1])
			bloom := f[2] == "1"
			bpk, _ := strconv.Atoi(f[3])
			fp := 0.0
			if bloom {
				// the false-positive rate that yields bpk bits per key (BloomBitsPerKey is monotone)
				fp = fpFor(bpk, len(strings.Split(f[4], ",")))
				e.bloomCases++
			}
			es := parseEnts(f[4])
			e.fid++
			out[i] = guard(func() string {
				var err error
				if uncached {
					t, err = lsm.VerifBuildTableUncached(dir, e.fid, bs, fp, es)
				} else {
					t, err = lsm.VerifBuildTable(dir, e.fid, bs, fp, es)
				}
				if err != nil {
					t = nil
					return "err"
				}
				return fmt.Sprintf("ok:%d", t.KeyCount())
			})
			if t != nil {
				bases = t.BlockBaseKeys()
				if len(es) == 1 {
					e.single++
				}
				if len(bases) > 1 {
					e.multiBlock++
				}
				for _, x := range es {
					if len(x.Value)+len(x.Key) > bs {
						e.bigEntry++
						break
					}
				}
			}
		case "blocks":
			var parts []string
			rs := t.BlockRanges()
			for j, b := range t.BlockBaseKeys() {
				parts = append(parts, fmt.Sprintf("%s:%d", keyStr(b), rs[j][1]))
			}
			out[i] = strings.Join(parts, ",")
		case "reopen":
			out[i] = guard(func() string {
				if err := t.Reopen(); err != nil {
					return "err"
				}
				return "ok"
			})
			e.reopened++
			if out[i] == "panic" {
				t = nil
			}
		case "get":
			if corrupted {
				e.readsAfterCorrupt++
			}
			v, _ := strconv.ParseUint(f[2], 10, 64)
			k := kv.KeyWithTs(hlib.UnHex(f[1]), v)
			// a lookup of (user key, larger version) of the first entry of a block other than the first
			for j := 1; j < len(bases); j++ {
				if kv.SameKey(k, bases[j]) && utils.CompareKeys(k, bases[j]) < 0 && utils.CompareKeys(k, bases[j-1]) > 0 {
					e.gapGets++
				}
			}
			out[i] = guard(func() string {
				en, err := t.Search(k)
				if err != nil || en == nil {
					return "none"
				}
				return valStr(en.Value)
			})
		case "seek":
			v, _ := strconv.ParseUint(f[3], 10, 64)
			n, _ := strconv.Atoi(f[4])
			k := kv.KeyWithTs(hlib.UnHex(f[2]), v)
			// a seek target strictly between the last key of a block and the base key of the next
			if f[1] == "asc" {
				for j := 1; j < len(bases); j++ {
					if utils.CompareKeys(k, bases[j]) < 0 && utils.CompareKeys(k, bases[j-1]) > 0 {
						e.gapSeeks++
					}
				}
			}
			out[i] = guard(func() string { return entsStr(t.Iterate(f[1] == "asc", k, n)) })
		case "scan":
			out[i] = guard(func() string { return entsStr(t.Iterate(f[1] == "asc", nil, -1)) })
		default:
			out[i] = "bad-op"
		}
	}
	return out
}

// fpFor returns a false-positive rate for which utils.BloomBitsPerKey(n, fp) == bpk.
func fpFor(bpk, n int) float64 {
	for _, fp := range []float64{0.01, 0.1, 0.5, 0.001} {
		if utils.BloomBitsPerKey(n, fp) == bpk {
			return fp
		}
	}
	return 0.01
}

func (e *engine) Nontrivial(ops, impl, model, spec []string) bool {
	multi, got, sought := false, false, false
	for i, op := range ops {
		switch {
		case op == "blocks":
			multi = strings.Contains(impl[i], ",")
		case strings.HasPrefix(op, "get "):
			if impl[i] != "none" {
				got = true
			}
		case strings.HasPrefix(op, "seek "):
			if impl[i] != "-" {
				sought = true
			}
		}
	}
	return multi && got && sought
}

func main() {
	e := &engine{}
	// -corrupt-only: every case is a small table whose file gets one bit flipped (sub-check "SST data
	// blocks" of C14, run by props/C14_sst.json)
	for i, a := range os.Args {
		if a == "-corrupt-only" {
			e.corruptOnly = true
			os.Args = append(os.Args[:i], os.Args[i+1:]...)
			break
		}
	}
	hlib.Main("sst", e)
}

// A real 3-store NoKV raft cluster in one process under single-threaded harness control.
//
// Every store is a real store.Store (real command pipeline, real validateCommand /
// ProposeCommand / ReadCommand) hosting one real peer.Peer (etcd/raft RawNode) per region, the
// command applier is the real raftstore/kv applier on a real NoKV DB per store.  The only
// harness-side parts are the transport (an in-memory queue whose delivery order, loss,
// duplication and partitions are decided by the op list) and the clock (Tick is an op).
// Client calls block inside the real code, so they run on their own goroutine; the harness
// waits until that goroutine is parked inside ProposeCommand / ReadCommand (or has returned)
// before it executes the next op, hence exactly one goroutine makes progress at a time and a
// case is a deterministic function of its op list.
package main

import (
	"bytes"
	"context"
	"fmt"
	"os"
	"runtime"
	"sort"
	"strconv"
	"strings"
	"sync"
	"sync/atomic"
	"time"

	NoKV "github.com/feichai0017/NoKV"
	"github.com/feichai0017/NoKV/manifest"
	"github.com/feichai0017/NoKV/pb"
	myraft "github.com/feichai0017/NoKV/raft"
	"github.com/feichai0017/NoKV/raftstore/kv"
	"github.com/feichai0017/NoKV/raftstore/peer"
	"github.com/feichai0017/NoKV/raftstore/store"
	proto "google.golang.org/protobuf/proto"

	"verif/harness/hlib"
)

const (
	nStores  = 3
	nRegions = 2
	// Elections are normally explicit ops (c.campaign); c.elect and repeated c.tick on a store
	// that hears no leader let raft's own election timeout fire.  Which follower wins then
	// depends on raft's randomized timeout - the observed states are part of the trace, so the
	// replay through the model does not depend on it.
	electionTick = 10
)

var regionStart = map[uint64]string{1: "a", 2: "m"}
var regionEnd = map[uint64]string{1: "m", 2: "z"}

func peerID(region uint64, st int) uint64 { return region*10 + uint64(st) }
func storeOfPeer(id uint64) int           { return int(id % 10) }
func regionOfPeer(id uint64) uint64       { return id / 10 }

// ---------------------------------------------------------------- network

type netw struct {
	mu  sync.Mutex
	q   []myraft.Message
	iso [nStores + 1]bool
	// delayed links: messages from store a to store b are parked (neither delivered nor lost)
	// until c.release puts them back on the wire, in their original order
	hold [nStores + 1][nStores + 1]bool
	// same, for log replication only (MsgApp): the receiver keeps hearing heartbeats and
	// ReadIndex answers but lags behind the log
	holdApp [nStores + 1][nStores + 1]bool
	held    []myraft.Message
	// counters for the evidence
	sent, delivered, dropped, duplicated int
	// a trap parks the sender of every ReadIndex heartbeat of one peer inside Send (i.e. inside
	// the reader's p.Flush()) until it is released
	trap atomic.Pointer[sendTrap]
}

type sendTrap struct {
	peer    uint64
	release chan struct{}
}

func (n *netw) Send(m myraft.Message) {
	if t := n.trap.Load(); t != nil && m.From == t.peer && m.Type == myraft.MsgHeartbeat && len(m.Context) > 0 {
		<-t.release
	}
	n.mu.Lock()
	defer n.mu.Unlock()
	n.sent++
	if n.iso[storeOfPeer(m.From)] || n.iso[storeOfPeer(m.To)] {
		n.dropped++
		return
	}
	if n.hold[storeOfPeer(m.From)][storeOfPeer(m.To)] ||
		(n.holdApp[storeOfPeer(m.From)][storeOfPeer(m.To)] && m.Type == myraft.MsgAppend) {
		n.held = append(n.held, m)
		return
	}
	n.q = append(n.q, m)
}

// release ends every delay: the parked messages arrive now (even at a store that has been cut
// off in the meantime: they were on the wire before the partition).
func (n *netw) release() {
	n.mu.Lock()
	defer n.mu.Unlock()
	n.hold = [nStores + 1][nStores + 1]bool{}
	n.holdApp = [nStores + 1][nStores + 1]bool{}
	n.q = append(n.q, n.held...)
	n.held = nil
}

func (n *netw) take(i int) (myraft.Message, bool) {
	n.mu.Lock()
	defer n.mu.Unlock()
	if len(n.q) == 0 {
		return myraft.Message{}, false
	}
	i %= len(n.q)
	m := n.q[i]
	n.q = append(n.q[:i:i], n.q[i+1:]...)
	return m, true
}

func (n *netw) peek(i int) (myraft.Message, bool) {
	n.mu.Lock()
	defer n.mu.Unlock()
	if len(n.q) == 0 {
		return myraft.Message{}, false
	}
	return n.q[i%len(n.q)], true
}

func (n *netw) size() int {
	n.mu.Lock()
	defer n.mu.Unlock()
	return len(n.q)
}

func (n *netw) purgeIsolated() {
	n.mu.Lock()
	defer n.mu.Unlock()
	kept := n.q[:0]
	for _, m := range n.q {
		if n.iso[storeOfPeer(m.From)] || n.iso[storeOfPeer(m.To)] {
			n.dropped++
			continue
		}
		kept = append(kept, m)
	}
	n.q = kept
}

// ---------------------------------------------------------------- client calls

type origin struct { // the applied entry (or local read) that produced a response object
	store  int // store on which the applier ran
	from   int // proposer store taken from the applied request's header (PeerId)
	id     uint64
	tag    int
	read   bool
	value  string // for reads: tag of the value returned ("-" = not found)
	status string // "ok" | "conflict" | "locked" | ...
}

type call struct {
	w         int    // waiter / call number within the case
	kind      string // "propose" | "read"
	store     int
	region    uint64
	tag       int
	req       *pb.RaftCmdRequest
	state     string // raft state of the local peer observed right before the call
	gid       uint64
	done      chan struct{}
	resp      *pb.RaftCmdResponse
	err       error
	regID     uint64 // request id under which the proposal waits (0 = never registered)
	settled   bool
	closed    bool // result already reported in the trace
	began     bool // read passed validateCommand
	abandoned bool // its store was restarted underneath it
}

type kit struct {
	maxMsg       uint64 // raft MaxSizePerMsg (= MaxCommittedSizePerReady): small values page a commit backlog over several Readys
	pad          int    // bytes of padding in every written value
	gates        [nStores + 1]*gate
	asyncs       []*async
	caseNo       int
	disk         bool // raft logs on disk (engine.DiskStorage) so that a store can be restarted
	restartMarks []restartMark
	dbs          [nStores + 1]*NoKV.DB
	stores       [nStores + 1]*store.Store
	peers        map[uint64]*peer.Peer
	net          *netw

	mu       sync.Mutex
	trace    []string // pipeline-level event lines (the language of the Lean pipeline model)
	obs      []string // what the real code did at each event
	origins  map[*pb.RaftCmdResponse]origin
	applied  map[[2]uint64][]string // (store, region) -> applied write entries "from/id/tag/status"
	calls    []*call
	reads    []*readRec
	acked    map[uint64][]string // region -> own-entry keys of successful writes acknowledged so far
	problems []string
	nextTs   uint64
	cur      int  // number of the client call whose goroutine is currently allowed to run (0 = none)
	quiet    bool // direct pipeline op in progress: the op itself is the event
}

func newKit(disk bool, maxMsg uint64, pad int) *kit {
	caseNo++
	if maxMsg == 0 {
		maxMsg = 1 << 20
	}
	k := &kit{caseNo: caseNo, disk: disk, maxMsg: maxMsg, pad: pad, peers: map[uint64]*peer.Peer{}, net: &netw{}, origins: map[*pb.RaftCmdResponse]origin{},
		applied: map[[2]uint64][]string{}, nextTs: 10, acked: map[uint64][]string{}}
	for s := 1; s <= nStores; s++ {
		k.dbs[s] = sharedDB(s)
		k.startStore(s)
	}
	return k
}

// startStore creates the store object of store s and starts its peers (bootstrapping them on
// first start; a restarted peer finds its raft log in its storage directory).
func (k *kit) startStore(s int) {
	k.stores[s] = store.NewStoreWithConfig(store.Config{StoreID: uint64(s), CommandApplier: k.applier(s), CommandTimeout: 60 * time.Second})
	for r := uint64(1); r <= nRegions; r++ {
		var metaPeers []manifest.PeerMeta
		var boot []myraft.Peer
		for t := 1; t <= nStores; t++ {
			metaPeers = append(metaPeers, manifest.PeerMeta{StoreID: uint64(t), PeerID: peerID(r, t)})
			boot = append(boot, myraft.Peer{ID: peerID(r, t)})
		}
		region := &manifest.RegionMeta{ID: r, StartKey: []byte(regionStart[r]), EndKey: []byte(regionEnd[r]),
			Epoch: manifest.RegionEpoch{Version: 1, ConfVersion: 1}, Peers: metaPeers}
		cfg := &peer.Config{
			RaftConfig: myraft.Config{ID: peerID(r, s), ElectionTick: electionTick, HeartbeatTick: 1,
				MaxSizePerMsg: k.maxMsg, MaxInflightMsgs: 256, Logger: hlib.QuietRaftLogger{}},
			Transport: k.net, GroupID: r, Region: region,
		}
		if k.disk {
			cfg.StorageDir = fmt.Sprintf("%s/raft-case%d/peer%d", sharedDir, k.caseNo, peerID(r, s))
		}
		p, err := k.stores[s].StartPeer(cfg, boot)
		if err != nil {
			panic(fmt.Sprintf("StartPeer r%d s%d: %v", r, s, err))
		}
		k.peers[peerID(r, s)] = p
	}
}

// restart stops the peers and the store object of store s and starts them again from the raft
// logs on disk: a new process image of the raftstore layer (fresh proposal pipeline), the state
// machine (DB) survives.  Clients of the old image never get an answer.
func (k *kit) restart(s int) {
	if !k.disk {
		return
	}
	for _, c := range k.calls {
		if c.store == s && !c.settled {
			c.abandoned = true
		}
	}
	for r := uint64(1); r <= nRegions; r++ {
		k.stores[s].StopPeer(peerID(r, s))
		delete(k.peers, peerID(r, s))
	}
	k.stores[s].Close()
	k.mu.Lock()
	for r := uint64(1); r <= nRegions; r++ {
		k.restartMarks = append(k.restartMarks, restartMark{store: s, region: r, pos: len(k.applied[[2]uint64{uint64(s), r}])})
	}
	k.event(fmt.Sprintf("p.restart %d", s), "ok")
	k.mu.Unlock()
	k.startStore(s)
	for r := uint64(1); r <= nRegions; r++ {
		_ = k.peers[peerID(r, s)].Flush()
	}
	k.collect()
}

type restartMark struct {
	store  int
	region uint64
	pos    int
}

func (k *kit) close() {
	for s := 1; s <= nStores; s++ {
		k.openGate(s)
	}
	// fail every call that is still waiting so that its goroutine ends
	for _, c := range k.calls {
		if c.kind == "propose" && c.regID != 0 {
			k.stores[c.store].VerifRemoveProposal(c.regID)
		}
	}
	for id, p := range k.peers {
		k.stores[storeOfPeer(id)].StopPeer(p.ID())
	}
	for s := 1; s <= nStores; s++ {
		k.stores[s].Close()
	}
	if k.disk {
		os.RemoveAll(fmt.Sprintf("%s/raft-case%d", sharedDir, k.caseNo))
	}
}

// The three NoKV DBs behind the appliers are opened once per harness process (opening one
// costs a 64 MB arena); every case works on its own register keys (a<case>, m<case>), its own
// stores, pipelines, peers and network, so no state of an earlier case is visible to it.
var (
	caseNo    int
	sharedDBs [nStores + 1]*NoKV.DB
	sharedDir string
)

func sharedDB(s int) *NoKV.DB {
	if sharedDBs[s] != nil {
		return sharedDBs[s]
	}
	if sharedDir == "" {
		reapStaleDirs()
		dir, err := os.MkdirTemp("", fmt.Sprintf("verif-cluster-%d-", os.Getpid()))
		if err != nil {
			panic(err)
		}
		sharedDir = dir
	}
	opt := NoKV.NewDefaultOptions()
	opt.WorkDir = fmt.Sprintf("%s/db%d", sharedDir, s)
	if err := os.MkdirAll(opt.WorkDir, 0o755); err != nil {
		panic(err)
	}
	opt.HotRingEnabled = false
	opt.ValueLogHotRingOverride = false
	opt.EnableWALWatchdog = false
	opt.NumCompactors = 1
	sharedDBs[s] = NoKV.Open(opt)
	return sharedDBs[s]
}

func closeSharedDBs() {
	for s := range sharedDBs {
		if sharedDBs[s] != nil {
			_ = sharedDBs[s].Close()
			sharedDBs[s] = nil
		}
	}
	if sharedDir != "" {
		os.RemoveAll(sharedDir)
	}
}

// reapStaleDirs removes DB directories left behind by harness processes that ended through
// os.Exit (replay mode).
func reapStaleDirs() {
	ents, _ := os.ReadDir(os.TempDir())
	for _, e := range ents {
		if strings.HasPrefix(e.Name(), "verif_cluster_trace_") { // trace side files of dead harness processes
			pid, err := strconv.Atoi(strings.TrimPrefix(e.Name(), "verif_cluster_trace_"))
			if err == nil && pid != os.Getpid() {
				if _, err := os.Stat(fmt.Sprintf("/proc/%d", pid)); err != nil {
					os.Remove(os.TempDir() + "/" + e.Name())
				}
			}
			continue
		}
		f := strings.Split(e.Name(), "-")
		if len(f) < 4 || f[0] != "verif" || f[1] != "cluster" {
			continue
		}
		pid, err := strconv.Atoi(f[2])
		if err != nil || pid == os.Getpid() {
			continue
		}
		if _, err := os.Stat(fmt.Sprintf("/proc/%d", pid)); err != nil {
			os.RemoveAll(os.TempDir() + "/" + e.Name())
		}
	}
}

// ---------------------------------------------------------------- commands

func (k *kit) regKey(region uint64) []byte {
	return []byte(fmt.Sprintf("%s%d", regionStart[region], k.caseNo))
}

func (k *kit) writeReq(region uint64, tag int) *pb.RaftCmdRequest {
	k.nextTs += 10
	ts := k.nextTs
	return writeReqAt(k.regKey(region), region, tag, ts, k.pad)
}

func tagValue(tag, pad int) []byte {
	v := fmt.Sprintf("t%d", tag)
	if pad > 0 {
		v += "-" + strings.Repeat("x", pad)
	}
	return []byte(v)
}

func valueTag(v []byte) string {
	if len(v) == 0 {
		return "-"
	}
	t := strings.TrimPrefix(string(v), "t")
	if i := strings.IndexByte(t, '-'); i >= 0 {
		t = t[:i]
	}
	return t
}

func writeReqAt(key []byte, region uint64, tag int, ts uint64, pad int) *pb.RaftCmdRequest {
	return &pb.RaftCmdRequest{
		Header: &pb.CmdHeader{RegionId: region, RegionEpoch: &pb.RegionEpoch{Version: 1, ConfVer: 1}},
		Requests: []*pb.Request{
			{CmdType: pb.CmdType_CMD_PREWRITE, Cmd: &pb.Request_Prewrite{Prewrite: &pb.PrewriteRequest{
				Mutations:   []*pb.Mutation{{Op: pb.Mutation_Put, Key: key, Value: tagValue(tag, pad)}},
				PrimaryLock: key, StartVersion: ts, LockTtl: 3000}}},
			{CmdType: pb.CmdType_CMD_COMMIT, Cmd: &pb.Request_Commit{Commit: &pb.CommitRequest{
				Keys: [][]byte{key}, StartVersion: ts, CommitVersion: ts + 1}}},
			{CmdType: pb.CmdType_CMD_GET, Cmd: &pb.Request_Get{Get: &pb.GetRequest{Key: key, Version: ts + 1}}},
		},
	}
}

func readReq(key []byte, region uint64) *pb.RaftCmdRequest {
	return &pb.RaftCmdRequest{
		Header: &pb.CmdHeader{RegionId: region, RegionEpoch: &pb.RegionEpoch{Version: 1, ConfVer: 1}},
		Requests: []*pb.Request{
			{CmdType: pb.CmdType_CMD_GET, Cmd: &pb.Request_Get{Get: &pb.GetRequest{Key: key, Version: ^uint64(0)}}},
		},
	}
}

func reqTag(req *pb.RaftCmdRequest) (tag int, isWrite bool) {
	for _, r := range req.GetRequests() {
		if pw := r.GetPrewrite(); pw != nil && len(pw.Mutations) > 0 {
			t, _ := strconv.Atoi(valueTag(pw.Mutations[0].Value))
			return t, true
		}
	}
	return 0, false
}

func writeStatus(resp *pb.RaftCmdResponse) string {
	for _, r := range resp.GetResponses() {
		if pw := r.GetPrewrite(); pw != nil && len(pw.Errors) > 0 {
			return "conflict"
		}
		if c := r.GetCommit(); c != nil && c.Error != nil {
			return "commit-err"
		}
	}
	return "ok"
}

// applier wraps the real kv applier of store s with the apply observer.
func (k *kit) applier(s int) func(*pb.RaftCmdRequest) (*pb.RaftCmdResponse, error) {
	inner := kv.NewApplier(k.dbs[s])
	return func(req *pb.RaftCmdRequest) (*pb.RaftCmdResponse, error) {
		// applier calls are serialised so that the recorded event order is the order in which
		// the state machine was read and written (a woken reader runs next to the delivering
		// goroutine for a moment)
		if _, w := reqTag(req); w {
			k.gateWait(s) // a gated store applies one write per c.step
		}
		k.mu.Lock()
		defer k.mu.Unlock()
		resp, err := inner(req)
		region := req.GetHeader().GetRegionId()
		tag, isWrite := reqTag(req)
		from := storeOfPeer(req.GetHeader().GetPeerId())
		id := req.GetHeader().GetRequestId()
		if isWrite {
			st := "err"
			if err == nil {
				st = writeStatus(resp)
			}
			if resp != nil {
				k.origins[resp] = origin{store: s, from: from, id: id, tag: tag, status: st}
			}
			k.applied[[2]uint64{uint64(s), region}] = append(k.applied[[2]uint64{uint64(s), region}],
				fmt.Sprintf("%d/%d/%d/%s", from, id, tag, st))
			k.event(fmt.Sprintf("p.apply %d %d %d %d %d %s", s, region, id, from, tag, st), "ok")
		} else {
			val := "-"
			if err == nil && len(resp.GetResponses()) > 0 {
				g := resp.GetResponses()[0].GetGet()
				if g != nil && !g.GetNotFound() {
					val = valueTag(g.GetValue())
				}
			}
			if resp != nil {
				k.origins[resp] = origin{store: s, from: s, id: id, read: true, value: val, status: "ok"}
			}
			k.event(fmt.Sprintf("r.exec %d %d %d", s, region, k.callOfGoroutine(curGoid())), "val="+val)
		}
		return resp, err
	}
}

// callOfGoroutine finds the client call running on goroutine gid (k.mu held).
func (k *kit) callOfGoroutine(gid uint64) int {
	for _, c := range k.calls {
		if c.gid == gid {
			return c.w
		}
	}
	return 0
}

// event appends one pipeline-level event with the observed outcome (k.mu held or single-threaded).
func (k *kit) event(line, observed string) {
	if k.quiet {
		return
	}
	k.trace = append(k.trace, line)
	k.obs = append(k.obs, observed)
}

// ---------------------------------------------------------------- gated apply

// A gate makes the state machine of a store slow: every write waits in front of the applier
// until c.step lets exactly one through (c.open removes the gate).  While an apply is held the
// peer's ready loop is occupied, so everything that enters that store (message deliveries,
// ticks, campaigns) runs on its own goroutine and the harness waits until each of them has
// finished, stands at the gate, or queues behind the peer's ready lock.
type gate struct {
	proceed chan struct{}
	open    chan struct{}
}

var gatingActive atomic.Int32

func (k *kit) gateWait(s int) {
	g := k.gates[s]
	if g == nil {
		return
	}
	select {
	case <-g.open:
		return
	default:
	}
	select {
	case <-g.proceed:
	case <-g.open:
	}
}

type async struct {
	gid  uint64
	done chan struct{}
}

// runOn executes fn, which enters store s, directly or - when some store is gated - on its own
// goroutine, and returns when everything is quiet again.
func (k *kit) runOn(s int, fn func()) {
	if gatingActive.Load() == 0 {
		fn()
		return
	}
	a := &async{done: make(chan struct{})}
	ready := make(chan struct{})
	go func() {
		a.gid = curGoid()
		close(ready)
		defer close(a.done)
		defer func() { recover() }()
		fn()
	}()
	<-ready
	k.asyncs = append(k.asyncs, a)
	k.quiesce()
}

// quiesce waits until every goroutine the harness started is finished or parked.
func (k *kit) quiesce() {
	deadline := time.Now().Add(stallLimit())
	for spin := 0; ; spin++ {
		busy := false
		live := k.asyncs[:0]
		for _, a := range k.asyncs {
			select {
			case <-a.done:
				continue
			default:
			}
			live = append(live, a)
			if !parked(a.gid) {
				busy = true
			}
		}
		k.asyncs = live
		if !busy {
			return
		}
		if time.Now().After(deadline) {
			stalls++
			k.problems = append(k.problems, "stuck: a delivery into a gated store neither finished nor parked")
			return
		}
		if spin < 50 {
			runtime.Gosched()
		} else {
			time.Sleep(50 * time.Microsecond)
		}
	}
}

func (k *kit) setGate(s int) {
	if k.gates[s] == nil {
		k.gates[s] = &gate{proceed: make(chan struct{}), open: make(chan struct{})}
		gatingActive.Add(1)
	}
}

// stepGate lets one held write through and waits for the consequences.
func (k *kit) stepGate(s int) {
	g := k.gates[s]
	if g == nil {
		return
	}
	select {
	case g.proceed <- struct{}{}:
	case <-time.After(200 * time.Millisecond): // nobody stands at the gate
	}
	k.quiesce()
	k.collect()
}

func (k *kit) openGate(s int) {
	g := k.gates[s]
	if g == nil {
		return
	}
	close(g.open)
	// everything that was queued behind the held apply runs to completion now
	deadline := time.Now().Add(stallLimit())
	for _, a := range k.asyncs {
		select {
		case <-a.done:
		case <-time.After(time.Until(deadline)):
			stalls++
			k.problems = append(k.problems, "stuck: delivery did not finish after the gate was opened")
		}
	}
	k.asyncs = nil
	k.gates[s] = nil
	gatingActive.Add(-1)
	k.collect()
}

// ---------------------------------------------------------------- goroutine settling

func curGoid() uint64 {
	var buf [64]byte
	n := runtime.Stack(buf[:], false)
	f := strings.Fields(string(buf[:n]))
	id, _ := strconv.ParseUint(f[1], 10, 64)
	return id
}

var stackBuf = make([]byte, 4<<20)

// parked reports whether goroutine gid is blocked in a select that belongs to the waiting
// points of ProposeCommand / ReadCommand (result channel, ReadIndex reply, apply watermark).
func parked(gid uint64) bool {
	n := runtime.Stack(stackBuf, true)
	dump := stackBuf[:n]
	head := []byte(fmt.Sprintf("goroutine %d [", gid))
	i := bytes.Index(dump, head)
	if i < 0 {
		return false
	}
	rest := dump[i+len(head):]
	j := bytes.IndexByte(rest, ']')
	if j < 0 {
		return false
	}
	state := string(rest[:j])
	end := bytes.Index(rest, []byte("\n\n"))
	if end < 0 {
		end = len(rest)
	}
	body := string(rest[:end])
	if gatingActive.Load() > 0 && strings.HasPrefix(state, "sync.Mutex.Lock") {
		// queued behind a ready loop that is held at a gate (only while a gate exists)
		return strings.Contains(body, "peer.(*Peer).processReady")
	}
	if strings.HasPrefix(state, "chan receive") {
		l := strings.Split(body, "\n")
		return len(l) > 1 && strings.Contains(l[1], "main.(*netw).Send") // held by a send trap
	}
	if !strings.HasPrefix(state, "select") {
		return false
	}
	lines := strings.Split(body, "\n")
	if len(lines) < 2 {
		return false
	}
	top := lines[1]
	return strings.Contains(top, "store.(*Store).ProposeCommand") ||
		strings.Contains(top, "peer.(*Peer).LinearizableRead") ||
		strings.Contains(top, "utils.(*WaterMark).WaitForMark") ||
		strings.Contains(top, "main.(*kit).gateWait")
}

// A healthy tree never stalls; the first stalls of a process get a generous bound (loaded
// machine), later ones a short one so that a broken tree cannot make the run last for hours.
var stalls int

func stallLimit() time.Duration {
	if stalls < 3 {
		return 20 * time.Second
	}
	return time.Second
}

// settle waits until the call's goroutine has returned or is parked at a waiting point.
func (k *kit) settle(c *call) {
	k.mu.Lock()
	k.cur = c.w
	k.mu.Unlock()
	defer func() {
		k.mu.Lock()
		k.cur = 0
		k.mu.Unlock()
	}()
	deadline := time.Now().Add(stallLimit())
	for spin := 0; ; spin++ {
		select {
		case <-c.done:
			c.settled = true
			return
		default:
		}
		if parked(c.gid) {
			return
		}
		if time.Now().After(deadline) {
			stalls++
			k.problems = append(k.problems, fmt.Sprintf("stuck: call %d (%s on store %d) neither returned nor parked", c.w, c.kind, c.store))
			return
		}
		if spin < 50 {
			runtime.Gosched()
		} else {
			time.Sleep(50 * time.Microsecond)
		}
	}
}

// ---------------------------------------------------------------- driving

func (k *kit) raftState(region uint64, s int) string {
	p := k.peers[peerID(region, s)]
	if p == nil {
		return "follower" // no peer: the state is never looked at (peerPresent = 0)
	}
	switch p.Status().RaftState {
	case myraft.StateLeader:
		return "leader"
	case myraft.StateFollower:
		return "follower"
	case myraft.StateCandidate:
		return "candidate"
	case myraft.StatePreCandidate:
		return "precandidate"
	}
	return "unknown"
}

func classify(resp *pb.RaftCmdResponse, err error) string {
	if err != nil {
		msg := err.Error()
		switch {
		case strings.Contains(msg, "region id missing"):
			return "err=regionid"
		case strings.Contains(msg, "timed out"):
			return "err=timeout"
		case strings.Contains(msg, "deadline exceeded"):
			return "err=deadline"
		case strings.Contains(msg, "duplicate proposal"):
			return "err=dup"
		case strings.Contains(msg, "peer stopped"):
			return "err=stopped"
		}
		return "err=other:" + strings.ReplaceAll(msg, " ", "_")
	}
	if re := resp.GetRegionError(); re != nil {
		switch {
		case re.GetNotLeader() != nil:
			return "notleader"
		case re.GetEpochNotMatch() != nil:
			return "epoch"
		}
		return "regionerr"
	}
	return ""
}

// start launches a client call and waits until it settles.
func (k *kit) start(kind string, s int, region uint64, tag int) *call {
	var req *pb.RaftCmdRequest
	if kind == "propose" {
		req = k.writeReq(region, tag)
	} else {
		req = readReq(k.regKey(region), region)
	}
	return k.launch(kind, s, region, tag, req, "1 1 1 1", true)
}

// probe sends a read whose header names region rid with epoch (ev, ec) and whose key lies
// inside or outside that region; what validateCommand is entitled to know is recomputed here.
func (k *kit) probe(s int, rid, ev, ec uint64, inRange bool) *call {
	keyRegion := rid
	if !validRegion(rid) {
		keyRegion = 1
	}
	key := k.regKey(keyRegion)
	if !inRange {
		key = []byte(map[uint64]string{1: "q0", 2: "b0"}[keyRegion])
	}
	req := readReq(key, rid)
	req.Header.RegionEpoch = &pb.RegionEpoch{Version: ev, ConfVer: ec}
	b := func(x bool) int {
		if x {
			return 1
		}
		return 0
	}
	found := validRegion(rid)
	inputs := fmt.Sprintf("%d %d %d %d", b(found), b(ev == 1 && ec == 1), b(inRange), b(found))
	return k.launch("read", s, rid, 0, req, inputs, found && ev == 1 && ec == 1 && inRange)
}

// launch runs one client call; inputs = "metaFound epochOk keysOk peerPresent" as 0/1;
// register says whether a served read is a read of the region's register (linearizability oracle).
func (k *kit) launch(kind string, s int, region uint64, tag int, req *pb.RaftCmdRequest, inputs string, register bool) *call {
	c := &call{w: len(k.calls) + 1, kind: kind, store: s, region: region, tag: tag, done: make(chan struct{})}
	c.req = req
	c.state = k.raftState(region, s)
	if validRegion(region) && k.peers[peerID(region, s)] == nil && strings.HasSuffix(inputs, " 1") {
		inputs = strings.TrimSuffix(inputs, "1") + "0" // the store no longer hosts a peer of the region
		register = false
	}
	k.mu.Lock()
	k.calls = append(k.calls, c)
	k.mu.Unlock()
	seqBefore, pendBefore := k.stores[s].VerifPipelineState()
	ready := make(chan struct{})
	k.mu.Lock()
	k.cur = c.w
	k.mu.Unlock()
	go func() {
		c.gid = curGoid()
		close(ready)
		defer close(c.done)
		defer func() {
			if r := recover(); r != nil {
				c.err = fmt.Errorf("panic: %v", r)
			}
		}()
		if kind == "propose" {
			c.resp, c.err = k.stores[s].ProposeCommand(c.req)
		} else {
			c.resp, c.err = k.stores[s].ReadCommand(c.req)
		}
	}()
	<-ready
	k.settle(c)
	seqAfter, pendAfter := k.stores[s].VerifPipelineState()
	k.mu.Lock()
	// the leader-check decision of validateCommand
	served := "served"
	if c.settled {
		if cl := classify(c.resp, c.err); cl == "notleader" || cl == "epoch" || cl == "regionerr" || cl == "err=regionid" || strings.HasPrefix(cl, "err=other") {
			served = cl
		}
	}
	k.event(fmt.Sprintf("v.val %d %s %d %s %s", s, kind, region, inputs, c.state), served)
	for i := seqBefore; i < seqAfter; i++ {
		k.event(fmt.Sprintf("p.next %d", s), fmt.Sprintf("id=%d", i+1))
	}
	if kind == "propose" && served == "served" {
		// ProposeCommand registered a waiter: under the id that is newly waiting, or (when the
		// call already returned) under the id it wrote into the request header
		was := map[uint64]bool{}
		for _, id := range pendBefore {
			was[id] = true
		}
		for _, id := range pendAfter {
			if !was[id] {
				c.regID = id
			}
		}
		if c.regID == 0 {
			c.regID = req.GetHeader().GetRequestId()
		}
		k.event(fmt.Sprintf("p.reg %d %d %d %d", s, c.regID, c.w, tag), "ok")
	}
	if kind == "read" && served == "served" {
		c.began = true
		if register {
			k.reads = append(k.reads, &readRec{w: c.w, region: region, ackedBefore: append([]string(nil), k.acked[region]...)})
		}
		k.event(fmt.Sprintf("r.begin %d %d %d", s, region, c.w), "ok")
	}
	k.mu.Unlock()
	k.collect()
	return c
}

// replicaRead is a read through the peer API on any replica, as ReadCommand does it on the
// leader: LinearizableRead (a follower forwards the ReadIndex request to the leader and gets
// the leader's confirmed commit index back), WaitApplied(index), then the local state machine.
// It is the direct test of "WaitApplied returns only when the replica has applied the index".
func (k *kit) replicaRead(s int, region uint64) *call {
	if k.peers[peerID(region, s)] == nil {
		return nil
	}
	c := &call{w: len(k.calls) + 1, kind: "read", store: s, region: region, done: make(chan struct{})}
	c.req = readReq(k.regKey(region), region)
	c.state = k.raftState(region, s)
	c.began = true
	k.mu.Lock()
	k.calls = append(k.calls, c)
	k.reads = append(k.reads, &readRec{w: c.w, region: region, ackedBefore: append([]string(nil), k.acked[region]...)})
	k.event(fmt.Sprintf("r.begin %d %d %d", s, region, c.w), "ok")
	k.mu.Unlock()
	p := k.peers[peerID(region, s)]
	if p == nil {
		return nil
	}
	apply := k.applier(s)
	ready := make(chan struct{})
	go func() {
		c.gid = curGoid()
		close(ready)
		defer close(c.done)
		defer func() {
			if r := recover(); r != nil {
				c.err = fmt.Errorf("panic: %v", r)
			}
		}()
		ctx, cancel := context.WithTimeout(context.Background(), 10*time.Second)
		defer cancel()
		idx, err := p.LinearizableRead(ctx)
		if err == nil {
			err = p.WaitApplied(ctx, idx)
		}
		if err != nil {
			c.err = err
			return
		}
		c.resp, c.err = apply(c.req)
	}()
	<-ready
	k.settle(c)
	k.collect()
	return c
}

// stopRead issues n reads on store s and stops the region's peer while every one of them is
// inside p.Flush() of LinearizableRead (parked in the transport, which the harness owns): when
// they come out, their read channel is closed and the stop context is cancelled at the same
// time.  Each of them must end in an error; n of them make a 1-in-2 select outcome show.
func (k *kit) stopRead(s int, region uint64, n int) {
	pid := peerID(region, s)
	if k.peers[pid] == nil {
		return
	}
	t := &sendTrap{peer: pid, release: make(chan struct{})}
	k.net.trap.Store(t)
	var cs []*call
	for i := 0; i < n; i++ {
		cs = append(cs, k.start("read", s, region, 0))
	}
	k.net.trap.Store(nil)
	k.stores[s].StopPeer(pid)
	delete(k.peers, pid)
	close(t.release)
	for _, c := range cs {
		if !c.settled {
			k.waitDone(c)
		}
	}
	k.collect()
}

// admin proposes an admin entry (a command type no store acts on, so the region metadata stays
// as it is) through the raft log of the region: handleReady must route it past the applier
// without disturbing the command entries around it.
func (k *kit) admin(s int, region uint64) {
	p := k.peers[peerID(region, s)]
	if p == nil {
		return
	}
	data, err := proto.Marshal(&pb.AdminCommand{Type: pb.AdminCommand_Type(77)})
	if err != nil || len(data) == 0 {
		panic("admin entry does not encode")
	}
	k.runOn(s, func() { _ = p.ProposeAdmin(data) })
	k.collect()
}

// collect reports every call that has returned since the last look.
func (k *kit) collect() {
	for _, c := range k.calls {
		if c.closed || c.abandoned {
			continue
		}
		if !c.settled {
			// a waiting proposal whose id left the pipeline is about to return
			if c.kind == "propose" && c.regID != 0 {
				_, pend := k.stores[c.store].VerifPipelineState()
				still := false
				for _, p := range pend {
					if p == c.regID {
						still = true
					}
				}
				if still {
					continue
				}
				k.waitDone(c)
			} else {
				select {
				case <-c.done:
					c.settled = true
				default:
					// a read is parked or runnable: let it reach its next waiting point
					k.settle(c)
				}
			}
		}
		if !c.settled {
			continue
		}
		c.closed = true
		k.mu.Lock()
		cl := classify(c.resp, c.err)
		switch {
		case c.kind == "propose" && c.regID != 0:
			out := cl
			if cl == "" {
				if o, ok := k.origins[c.resp]; ok {
					out = fmt.Sprintf("res=%d/%d/%d", o.from, o.id, o.tag)
					if o.from == c.store && o.id == c.regID && o.tag == c.tag && o.status == "ok" {
						k.acked[c.region] = append(k.acked[c.region], fmt.Sprintf("%d/%d/%d/", o.from, o.id, o.tag))
					}
				} else {
					out = "res=unknown"
				}
			}
			k.event(fmt.Sprintf("p.poll %d %d", c.store, c.w), out)
		case c.kind == "read" && c.began:
			out := "err"
			if cl == "" {
				if o, ok := k.origins[c.resp]; ok && o.read {
					out = "val=" + o.value
					for _, rd := range k.reads {
						if rd.w == c.w {
							rd.value = o.value
						}
					}
				} else {
					out = "val=unknown"
				}
			}
			k.event(fmt.Sprintf("r.end %d %d %d", c.store, c.region, c.w), out)
		}
		k.mu.Unlock()
	}
}

func (k *kit) waitDone(c *call) {
	k.mu.Lock()
	k.cur = c.w
	k.mu.Unlock()
	defer func() {
		k.mu.Lock()
		k.cur = 0
		k.mu.Unlock()
	}()
	select {
	case <-c.done:
		c.settled = true
	case <-time.After(stallLimit()):
		stalls++
		k.problems = append(k.problems, fmt.Sprintf("stuck: call %d did not return", c.w))
	}
}

// deliverAt hands the i-th queued message to its target peer.
func (k *kit) deliverAt(i int) bool {
	m, ok := k.net.take(i)
	if !ok {
		return false
	}
	k.net.mu.Lock()
	k.net.delivered++
	k.net.mu.Unlock()
	st := k.stores[storeOfPeer(m.To)]
	k.runOn(storeOfPeer(m.To), func() { _ = st.Step(m) })
	k.collect()
	return true
}

// pump delivers queued messages in FIFO order until the network is empty.
func (k *kit) pump() int {
	n := 0
	for n < 5000 && k.deliverAt(0) {
		n++
	}
	if k.net.size() > 0 {
		k.problems = append(k.problems, "pump: network did not drain within 5000 deliveries")
	}
	return n
}

// connectedLeader returns a store that is not cut off and whose peer of region r is leader.
func (k *kit) connectedLeader(r uint64) int {
	for s := 1; s <= nStores; s++ {
		k.net.mu.Lock()
		cut := k.net.iso[s]
		k.net.mu.Unlock()
		if !cut && k.raftState(r, s) == "leader" {
			return s
		}
	}
	return 0
}

// elect lets the clocks of the connected stores run (one tick each, then all messages) until
// one of them leads region r.
func (k *kit) elect(r uint64) {
	for round := 0; round < 400; round++ {
		if k.connectedLeader(r) != 0 {
			return
		}
		for s := 1; s <= nStores; s++ {
			k.net.mu.Lock()
			cut := k.net.iso[s]
			k.net.mu.Unlock()
			if !cut {
				p := k.peers[peerID(r, s)]
				if p == nil {
					continue
				}
				k.runOn(s, func() { _ = p.Tick() })
				k.collect()
			}
		}
		k.pump()
	}
}

// sequences returns the applied write sequence of every (store, region), sorted by key.
func (k *kit) sequences() map[string][]string {
	out := map[string][]string{}
	k.mu.Lock()
	defer k.mu.Unlock()
	for key, v := range k.applied {
		out[fmt.Sprintf("s%d/r%d", key[0], key[1])] = append([]string(nil), v...)
	}
	return out
}

func sortedKeys(m map[string][]string) []string {
	ks := make([]string, 0, len(m))
	for k := range m {
		ks = append(ks, k)
	}
	sort.Strings(ks)
	return ks
}

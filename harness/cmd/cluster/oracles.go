package main

import (
	"fmt"
	"strings"
)

// Cluster oracles (sound for every correct implementation):
//
//	agree  the applied write sequences (proposer/id/tag/result) of a region on any two stores
//	       are prefixes of one another
//	once   no entry occurs twice in an applied sequence, and a proposal answered with the
//	       response of its own entry finds that entry exactly once in its store's sequence
//	lin    every served read returns the value of the region's register at some point of the
//	       agreed sequence that is not before the last successful write acknowledged before
//	       the read was issued
//	run    the harness itself had no problem (stuck goroutine, undrained network)
func (k *kit) oracles() string {
	k.mu.Lock()
	defer k.mu.Unlock()
	agree, once, lin, run, stamp := "ok", "ok", "ok", "ok", "ok"
	// stamp: an entry applied anywhere names, as its proposer, the store whose ProposeCommand
	// created it (whatever peer id the client put into the header)
	for key, seq := range k.applied {
		for _, e := range seq {
			f := strings.Split(e, "/")
			tag := atoi(f[2])
			if tag >= 1 && tag <= len(k.calls) && k.calls[tag-1].kind == "propose" && k.calls[tag-1].tag == tag {
				if from := atoi(f[0]); from != k.calls[tag-1].store {
					stamp = fmt.Sprintf("fail:s%d/r%d:entry-of-w%d-proposed-on-store-%d-names-store-%d", key[0], key[1], tag, k.calls[tag-1].store, from)
				}
			}
		}
	}
	if len(k.problems) > 0 {
		run = "fail:" + strings.ReplaceAll(k.problems[0], " ", "_")
	}
	longest := map[uint64][]string{}
	for r := uint64(1); r <= nRegions; r++ {
		for a := 1; a <= nStores; a++ {
			sa := k.applied[[2]uint64{uint64(a), r}]
			if len(sa) > len(longest[r]) {
				longest[r] = sa
			}
			seen := map[string]int{}
			for i, e := range sa {
				key := e[:strings.LastIndexByte(e, '/')]
				if j, dup := seen[key]; dup {
					// an entry applied before a restart of the store and again after it is the
					// re-delivery of the log to a restarted peer
					replay := false
					for _, m := range k.restartMarks {
						if m.store == a && m.region == r && j < m.pos && i >= m.pos {
							replay = true
						}
					}
					if replay && !strings.HasPrefix(once, "fail:") {
						once = "replayed-after-restart"
					} else if !replay {
						once = fmt.Sprintf("fail:s%d/r%d:%s-twice", a, r, key)
					}
				}
				seen[key] = i
			}
			for b := a + 1; b <= nStores; b++ {
				sb := k.applied[[2]uint64{uint64(b), r}]
				n := min(len(sa), len(sb))
				for i := 0; i < n; i++ {
					if sa[i] != sb[i] {
						agree = fmt.Sprintf("fail:r%d:s%d[%d]=%s:s%d[%d]=%s", r, a, i, sa[i], b, i, sb[i])
						break
					}
				}
			}
		}
	}
	for _, c := range k.calls {
		if c.kind != "propose" || !c.settled || c.err != nil || c.resp == nil || c.resp.GetRegionError() != nil {
			continue
		}
		o, ok := k.origins[c.resp]
		if !ok || o.from != c.store || o.id != c.regID || o.tag != c.tag {
			continue // answered by another entry: reported by the p.poll event, not here
		}
		own := fmt.Sprintf("%d/%d/%d/", c.store, c.regID, c.tag)
		cnt := 0
		for _, e := range k.applied[[2]uint64{uint64(c.store), c.region}] {
			if strings.HasPrefix(e, own) {
				cnt++
			}
		}
		if cnt != 1 {
			once = fmt.Sprintf("fail:w%d-own-entry-applied-%d-times", c.w, cnt)
		}
	}
	// register linearizability, per region, against the agreed sequence
	stateAt := func(r uint64, p int) string { // value after the first p entries
		v := "-"
		for _, e := range longest[r][:p] {
			f := strings.Split(e, "/")
			if f[3] == "ok" {
				v = f[2]
			}
		}
		return v
	}
	for _, rd := range k.reads {
		if rd.value == "" {
			continue // not served
		}
		lo := 0
		for _, key := range rd.ackedBefore {
			for i, e := range longest[rd.region] {
				if strings.HasPrefix(e, key) && i+1 > lo {
					lo = i + 1
				}
			}
		}
		good := false
		for p := lo; p <= len(longest[rd.region]); p++ {
			if stateAt(rd.region, p) == rd.value {
				good = true
			}
		}
		if !good {
			lin = fmt.Sprintf("fail:w%d-read-%s-but-acked-prefix-%d-of-%d", rd.w, rd.value, lo, len(longest[rd.region]))
		}
	}
	return fmt.Sprintf("agree=%s,once=%s,lin=%s,stamp=%s,run=%s", agree, once, lin, stamp, run)
}

// readRec is what the linearizability oracle needs about one read.
type readRec struct {
	w           int
	region      uint64
	ackedBefore []string // "from/id/tag/" of every successful write acknowledged before the read was issued
	value       string   // "" while not served
}

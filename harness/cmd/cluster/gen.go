package main

import (
	"fmt"
	"strings"

	"verif/harness/hlib"
)

func (e *engine) Rule() string {
	if *prop == "C23" {
		return "C23: real 3-store / 2-region cluster driven by a random deterministic schedule (campaigns = leader changes, one-store partitions, message drop/dup/out-of-order delivery, heartbeat ticks) with writes, reads and malformed probes sent to leaders, followers and deposed leaders; about 30% of the cases are the directed family 'partition the leader, let the others time out and elect, acknowledge a write on the new leader, read on the deposed leader before/after its own ticks, optionally with an earlier read pending and its heartbeat acknowledgements delayed across the leader change'; 12% elect a follower with a gated (one write per step) state machine over a paged commit backlog and read on it right after the election / mid-backlog; 12% read through the peer API on a replica whose log replication is delayed; every admission decision, id draw, apply, completion and read is replayed through the Lean model; non-trivial = one read served and one write acknowledged, plus either a request refused by the leader check or one of the directed schedules (deposed leader / gated backlog / lagging replica)"
	}
	return "C22: (a) random op sequences on the real command pipelines of three stores (ids drawn from the per-store counters so that they collide across stores, entries applied in a common log order on every store, timeouts, rejected duplicate registrations, id 0, entries nobody waits for; inside ValidRun's domain: accepted registrations always use the counter's id, applied entries with a live id are the proposed ones); (b) the real 3-store / 2-region cluster under a random deterministic schedule (leader changes, partitions, drop/dup/reorder, admin entries between the commands, request headers that already name a peer) with concurrent proposals on several stores, and catch-up schedules in which a cut-off replica receives commands and admin entries in one committed batch, replayed event by event through the Lean model, plus prefix-agreement / exactly-once oracles; non-trivial = at least one waiter handed a result, and either proposals registered on at least two stores with an entry applied on at least two stores, or an admin entry among the commands"
}

func (e *engine) Gen(r *hlib.Rand, tier string) []string {
	if *prop == "C23" {
		switch x := r.Intn(100); {
		case x < 30:
			return genDeposed(r)
		case x < 42:
			return genBacklog(r)
		case x < 54:
			return genLagging(r)
		}
		return genCluster(r, true)
	}
	switch x := r.Intn(100); {
	case x < 50:
		return genPipeline(r)
	case x < 62:
		return genCatchup(r)
	}
	return genCluster(r, false)
}

// ---------------------------------------------------------------- (a) direct pipeline cases

type simEntry struct {
	region, id, from, tag int
}

func genPipeline(r *hlib.Rand) []string {
	var ops []string
	seq := [nStores + 1]int{}
	var log []simEntry
	pos := [nStores + 1]int{}
	type reg struct{ s, id, w int }
	var regs []reg
	w, tag := 0, 0
	n := 10 + r.Intn(30)
	for i := 0; i < n; i++ {
		s := 1 + r.Intn(nStores)
		switch x := r.Intn(100); {
		case x < 30: // a proposal: draw an id, register, (mostly) get into the log
			// Domain of the property (ValidRun): every accepted registration uses the id the
			// store's counter just handed out - the only way ids are chosen behind the kv
			// service, whose buildHeader never sets Header.RequestId.  Ids picked by an
			// in-process caller are exercised only where they cannot be accepted twice:
			// a second registration under an id that is certainly still waiting (rejected as
			// duplicate) and the id 0 (never registered).
			seq[s]++
			ops = append(ops, fmt.Sprintf("p.next %d", s))
			w++
			tag++
			id, ownTag := seq[s], tag
			ops = append(ops, fmt.Sprintf("p.reg %d %d %d %d", s, id, w, tag))
			regs = append(regs, reg{s, id, w})
			if r.Chance(8) {
				w++
				tag++
				dupID := id
				if r.Chance(30) {
					dupID = 0
				}
				ops = append(ops, fmt.Sprintf("p.reg %d %d %d %d", s, dupID, w, tag))
				regs = append(regs, reg{s, dupID, w}) // polled too: it has no waiter
			}
			if r.Chance(85) {
				log = append(log, simEntry{1 + r.Intn(nRegions), id, s, ownTag})
			}
		case x < 36: // ReadCommand draws an id too
			seq[s]++
			ops = append(ops, fmt.Sprintf("p.next %d", s))
		case x < 70: // the next committed entry reaches store s
			if pos[s] < len(log) {
				en := log[pos[s]]
				pos[s]++
				ops = append(ops, fmt.Sprintf("p.apply %d %d %d %d %d ok", s, en.region, en.id, en.from, en.tag))
			} else if r.Chance(20) {
				// an entry nobody is waiting for: id 0 (pipeline ignores it) or an id no store's
				// counter reaches in a case (raft only delivers entries that were proposed, so an
				// entry carrying a live (proposer, id) with a foreign payload is outside the domain)
				tag++
				ops = append(ops, fmt.Sprintf("p.apply %d %d %d %d %d ok", s, 1+r.Intn(nRegions), hlib.Pick(r, []int{0, 900, 901}), 1+r.Intn(nStores), tag))
			}
		case x < 88:
			if len(regs) > 0 {
				g := hlib.Pick(r, regs)
				ops = append(ops, fmt.Sprintf("p.poll %d %d", g.s, g.w))
			}
		case x < 93:
			if len(regs) > 0 {
				g := hlib.Pick(r, regs)
				ops = append(ops, fmt.Sprintf("p.rm %d %d", g.s, g.id))
			}
		default:
			ops = append(ops, fmt.Sprintf("p.state %d", s))
		}
	}
	// drain: every store applies the rest of the log, every waiter is polled twice
	for s := 1; s <= nStores; s++ {
		if r.Chance(80) {
			for ; pos[s] < len(log); pos[s]++ {
				en := log[pos[s]]
				ops = append(ops, fmt.Sprintf("p.apply %d %d %d %d %d ok", s, en.region, en.id, en.from, en.tag))
			}
		}
	}
	for _, g := range regs {
		ops = append(ops, fmt.Sprintf("p.poll %d %d", g.s, g.w))
		if r.Chance(30) {
			ops = append(ops, fmt.Sprintf("p.poll %d %d", g.s, g.w))
		}
	}
	for s := 1; s <= nStores; s++ {
		ops = append(ops, fmt.Sprintf("p.state %d", s))
	}
	return ops
}

// ---------------------------------------------------------------- (b) cluster schedules

func genCluster(r *hlib.Rand, reads bool) []string {
	var ops []string
	leader := [nRegions + 1]int{}
	iso := 0
	if reads {
		// C23 workloads keep the request ids of the stores apart, so that C22's open finding
		// (ids colliding across stores) cannot decide any outcome here
		ops = append(ops, "p.skip 2 1000", "p.skip 3 2000")
	}
	for reg := 1; reg <= nRegions; reg++ {
		leader[reg] = 1 + r.Intn(nStores)
		ops = append(ops, fmt.Sprintf("c.campaign %d %d", reg, leader[reg]))
	}
	ops = append(ops, "c.pump")
	n := 8 + r.Intn(22)
	stuck := 0
	for i := 0; i < n; i++ {
		reg := 1 + r.Intn(nRegions)
		s := leader[reg]
		if r.Chance(25) {
			s = 1 + r.Intn(nStores)
		}
		x := r.Intn(100)
		switch {
		case x < 30:
			if r.Chance(25) {
				// the request header already names a peer: none, the own one, another store's,
				// another region's, an unknown one - validateCommand must overwrite it
				pid := hlib.Pick(r, []int{0, int(peerID(uint64(reg), s)), int(peerID(uint64(reg), 1+s%nStores)), int(peerID(uint64(1+reg%nRegions), s)), 99})
				ops = append(ops, fmt.Sprintf("c.proposeP %d %d %d", s, reg, pid))
			} else {
				ops = append(ops, fmt.Sprintf("c.propose %d %d", s, reg))
			}
		case x < 42 && reads:
			if s == iso && s == leader[reg] {
				// a read on a cut-off leader blocks for ReadCommand's fixed 3 s: keep them rare
				if stuck >= 1 || !r.Chance(15) {
					continue
				}
				stuck++
			}
			ops = append(ops, fmt.Sprintf("c.read %d %d", s, reg))
		case x < 47 && reads:
			rid := reg
			if r.Chance(30) {
				rid = hlib.Pick(r, []int{0, 3, 9})
			}
			ev, ec, in := 1, 1, 1
			if r.Chance(30) {
				ev = 2
			}
			if r.Chance(20) {
				ec = 0
			}
			if r.Chance(35) {
				in = 0
			}
			if rid == reg && ev == 1 && ec == 1 && in == 1 {
				in = 0
			}
			ops = append(ops, fmt.Sprintf("c.probe %d %d %d %d %d", s, rid, ev, ec, in))
		case x < 60:
			ops = append(ops, "c.pump")
		case x < 72:
			ops = append(ops, fmt.Sprintf("c.deliver %d", r.Intn(6)))
		case x < 76:
			ops = append(ops, fmt.Sprintf("c.drop %d", r.Intn(6)))
		case x < 80:
			ops = append(ops, fmt.Sprintf("c.dup %d", r.Intn(6)))
		case x < 83:
			ops = append(ops, fmt.Sprintf("c.tick %d %d", reg, leader[reg]))
		case x < 86: // an admin entry between the commands
			ops = append(ops, fmt.Sprintf("c.admin %d %d", leader[reg], reg))
		case x < 91:
			if iso == 0 {
				iso = 1 + r.Intn(nStores)
				ops = append(ops, fmt.Sprintf("c.iso %d", iso))
			} else {
				iso = 0
				ops = append(ops, "c.heal")
			}
		default: // leader change: some connected store campaigns
			c := 1 + r.Intn(nStores)
			if c == iso {
				continue
			}
			ops = append(ops, "c.pump", fmt.Sprintf("c.campaign %d %d", reg, c), "c.pump")
			leader[reg] = c
		}
	}
	ops = append(ops, "c.heal")
	for reg := 1; reg <= nRegions; reg++ {
		for s := 1; s <= nStores; s++ {
			ops = append(ops, fmt.Sprintf("c.tick %d %d", reg, s))
		}
	}
	ops = append(ops, "c.pump")
	if reads {
		for reg := 1; reg <= nRegions; reg++ {
			ops = append(ops, fmt.Sprintf("c.read %d %d", leader[reg], reg), "c.pump")
		}
	}
	ops = append(ops, "c.verdict")
	return ops
}

// genDeposed: the family that attacks the assumed ReadIndex contract.  The leader of a region
// acknowledges writes, is cut off, the others time out and elect (real election ticks), the
// new leader acknowledges newer writes, and reads go to the deposed leader - before and/or after
// its own clock runs, optionally while an earlier read of the same peer is still pending with
// its heartbeat acknowledgements delayed across the leader change.  On a correct tree those
// reads stay unanswered (they end in ReadCommand's 3 s timeout after the case is over), answer
// not-leader, or - for the read issued before the partition - legally return the old value.
func genDeposed(r *hlib.Rand) []string {
	ops := []string{"p.skip 2 1000", "p.skip 3 2000"}
	reg := 1 + r.Intn(nRegions)
	l := 1 + r.Intn(nStores)
	other := 1 + (reg % nRegions)
	ops = append(ops, fmt.Sprintf("c.campaign %d %d", reg, l), fmt.Sprintf("c.campaign %d %d", other, 1+r.Intn(nStores)), "c.pump")
	for i := 0; i <= r.Intn(2); i++ {
		ops = append(ops, fmt.Sprintf("c.propose %d %d", l, reg), "c.pump")
	}
	if r.Chance(40) {
		ops = append(ops, fmt.Sprintf("c.read %d %d", l, reg), "c.pump")
	}
	pending := r.Chance(50)
	if pending {
		for s := 1; s <= nStores; s++ {
			if s != l {
				ops = append(ops, fmt.Sprintf("c.hold %d %d", s, l))
			}
		}
		ops = append(ops, fmt.Sprintf("c.read %d %d", l, reg), "c.pump")
	}
	ops = append(ops, fmt.Sprintf("c.iso %d", l), fmt.Sprintf("c.elect %d", reg))
	for i := 0; i <= r.Intn(2); i++ {
		ops = append(ops, fmt.Sprintf("c.proposeL %d", reg), "c.pump")
	}
	if r.Chance(35) { // the deposed leader's own clock runs before the read
		for i := 0; i <= r.Intn(25); i++ {
			ops = append(ops, fmt.Sprintf("c.tick %d %d", reg, l))
		}
	}
	ops = append(ops, fmt.Sprintf("c.read %d %d", l, reg))
	if r.Chance(30) {
		ops = append(ops, fmt.Sprintf("c.propose %d %d", l, reg))
	}
	if pending {
		ops = append(ops, "c.release", "c.pump")
	}
	if r.Chance(50) { // ... and after it
		for i := 0; i <= r.Intn(25); i++ {
			ops = append(ops, fmt.Sprintf("c.tick %d %d", reg, l))
		}
		ops = append(ops, fmt.Sprintf("c.read %d %d", l, reg))
	}
	if r.Chance(30) {
		// reads racing the stop of the deposed leader's peer: each of them is inside
		// LinearizableRead's flush when Peer.Close runs; none may be served
		ops = append(ops, fmt.Sprintf("c.stopread %d %d 20", l, reg), fmt.Sprintf("c.read %d %d", l, reg), "c.verdict")
		return ops
	}
	if r.Chance(60) { // the partition heals: the old leader learns of its successor
		ops = append(ops, "c.heal")
		for s := 1; s <= nStores; s++ {
			ops = append(ops, fmt.Sprintf("c.tick %d %d", reg, s))
		}
		ops = append(ops, "c.pump", fmt.Sprintf("c.read %d %d", l, reg), "c.pump", fmt.Sprintf("c.proposeL %d", reg), "c.pump")
		for s := 1; s <= nStores; s++ {
			if s != l && r.Chance(50) {
				ops = append(ops, fmt.Sprintf("c.read %d %d", s, reg), "c.pump")
			}
		}
	}
	ops = append(ops, "c.verdict")
	return ops
}

// genBacklog: the family that attacks "WaitApplied returns only when the store has applied the
// confirmed index".  A leader acknowledges n writes whose commit index never reaches the
// followers, then disappears; a follower with a slow (gated) state machine is elected and
// commits the whole backlog, which raft hands over one entry per Ready (512-byte pages, 400-byte
// values).  Reads are issued on the new leader right after the election and/or in the middle of
// the backlog; their ReadIndex confirmations arrive while later pages are not even begun.
func genBacklog(r *hlib.Rand) []string {
	ops := []string{"c.cfg maxmsg=512 pad=400", "p.skip 2 1000", "p.skip 3 2000"}
	reg := 1 + r.Intn(nRegions)
	l := 1 + r.Intn(nStores)
	n := 1 + l%nStores // the store that will be elected
	t := 1 + n%nStores // the third one
	ops = append(ops, fmt.Sprintf("c.campaign %d %d", reg, l), "c.pump", fmt.Sprintf("c.propose %d %d", l, reg), "c.pump")
	writes := 3 + r.Intn(5)
	for i := 0; i < writes; i++ {
		ops = append(ops, fmt.Sprintf("c.propose %d %d", l, reg))
	}
	ops = append(ops, fmt.Sprintf("c.hold %d %d", l, n), fmt.Sprintf("c.hold %d %d", l, t), "c.pump",
		fmt.Sprintf("c.iso %d", l), fmt.Sprintf("c.gate %d", n), fmt.Sprintf("c.campaign %d %d", reg, n), "c.deliver 0", "c.deliver 0")
	read := fmt.Sprintf("c.read %d %d", n, reg)
	early := r.Chance(60)
	if early {
		ops = append(ops, read)
	}
	ops = append(ops, "c.pump")
	steps := r.Intn(writes + 1)
	mid := r.Intn(steps + 1)
	for i := 0; i < steps; i++ {
		if i == mid && (!early || r.Chance(40)) {
			ops = append(ops, read, "c.pump")
		}
		ops = append(ops, fmt.Sprintf("c.step %d", n), "c.pump")
	}
	if !early && steps == 0 {
		ops = append(ops, read, "c.pump")
	}
	ops = append(ops, fmt.Sprintf("c.open %d", n), "c.pump", read, "c.pump", "c.verdict")
	return ops
}

// genLagging: reads through the peer API (ReadIndex forwarded to the leader, WaitApplied, local
// state) on a replica that keeps hearing heartbeats and ReadIndex answers but whose log
// replication is delayed.  The read is issued after writes the replica has not received were
// acknowledged; it may only complete (with the newest value) once the delayed appends arrive.
func genLagging(r *hlib.Rand) []string {
	ops := []string{"p.skip 2 1000", "p.skip 3 2000"}
	reg := 1 + r.Intn(nRegions)
	l := 1 + r.Intn(nStores)
	lag := 1 + l%nStores
	ops = append(ops, fmt.Sprintf("c.campaign %d %d", reg, l), "c.pump")
	for i := 0; i < r.Intn(3); i++ {
		ops = append(ops, fmt.Sprintf("c.propose %d %d", l, reg), "c.pump")
	}
	ops = append(ops, fmt.Sprintf("c.hold %d %d app", l, lag))
	for i := 0; i <= r.Intn(3); i++ {
		ops = append(ops, fmt.Sprintf("c.propose %d %d", l, reg), "c.pump")
	}
	ops = append(ops, fmt.Sprintf("c.replicaread %d %d", lag, reg), "c.pump")
	if r.Chance(50) {
		ops = append(ops, fmt.Sprintf("c.propose %d %d", l, reg), "c.pump", fmt.Sprintf("c.replicaread %d %d", lag, reg), "c.pump")
	}
	if r.Chance(40) {
		ops = append(ops, fmt.Sprintf("c.replicaread %d %d", l, reg), "c.pump")
	}
	ops = append(ops, "c.release", "c.pump", fmt.Sprintf("c.replicaread %d %d", lag, reg), "c.pump", "c.verdict")
	return ops
}

// genCatchup: committed batches that mix command entries with admin entries.  A follower is cut
// off while the leader commits commands and admin entries (some of them proposed back to back,
// so that the connected replicas see mixed batches too); after the partition heals it receives
// them in one committed batch.  Every replica must apply exactly the command sequence, each
// command once (oracles agree / once compare the per-replica sequences element by element).
func genCatchup(r *hlib.Rand) []string {
	var ops []string
	reg := 1 + r.Intn(nRegions)
	l := 1 + r.Intn(nStores)
	lag := 1 + l%nStores
	ops = append(ops, fmt.Sprintf("c.campaign %d %d", reg, l), "c.pump")
	if r.Chance(50) {
		ops = append(ops, fmt.Sprintf("c.propose %d %d", l, reg), "c.pump")
	}
	ops = append(ops, fmt.Sprintf("c.iso %d", lag))
	n := 2 + r.Intn(6)
	admins := 0
	for i := 0; i < n; i++ {
		if r.Chance(35) || (i == n-2 && admins == 0) {
			ops = append(ops, fmt.Sprintf("c.admin %d %d", l, reg))
			admins++
		} else {
			ops = append(ops, fmt.Sprintf("c.propose %d %d", l, reg))
		}
		if r.Chance(50) {
			ops = append(ops, "c.pump")
		}
	}
	ops = append(ops, "c.pump", "c.heal")
	for i := 0; i < 3; i++ {
		ops = append(ops, fmt.Sprintf("c.tick %d %d", reg, l), "c.pump")
	}
	ops = append(ops, fmt.Sprintf("c.propose %d %d", l, reg), "c.pump", "c.verdict")
	return ops
}

func (e *engine) Nontrivial(ops, impl, model, spec []string) bool {
	all := strings.Join(impl, ",")
	if *prop == "C23" {
		attack := false // a schedule aimed at the ReadIndex / WaitApplied assumptions
		for _, op := range ops {
			if strings.HasPrefix(op, "c.gate") || strings.HasPrefix(op, "c.replicaread") || strings.HasPrefix(op, "c.hold") || strings.HasPrefix(op, "c.elect") {
				attack = true
			}
		}
		return (strings.Contains(all, "notleader") || attack) && strings.Contains(all, "val=") && strings.Contains(all, "res=")
	}
	stores := map[string]bool{}
	applied := map[string]bool{}
	for _, op := range ops {
		f := strings.Fields(op)
		switch f[0] {
		case "p.reg", "c.propose", "c.proposeP", "c.proposeL":
			stores[f[1]] = true
		case "p.apply":
			applied[f[1]] = true
		}
	}
	for _, op := range ops {
		if strings.HasPrefix(op, "c.admin") && strings.Contains(all, "res=") {
			return true // a committed batch mixing commands and admin entries, with an answered proposal
		}
	}
	if len(applied) == 0 && len(stores) >= 2 && strings.Contains(all, "res=") {
		return true // cluster case: applies are in the verdict
	}
	return len(stores) >= 2 && len(applied) >= 2 && strings.Contains(all, "res=")
}

func (e *engine) Extra() map[string]any {
	m := map[string]any{}
	e.mu.Lock()
	defer e.mu.Unlock()
	for k, v := range e.stats {
		m[k] = v
	}
	return m
}

// Correspondence harness for the Cluster engine: C22 (replicas apply identical command
// sequences, each proposal answered once, by its own command) and C23 (leader-only service,
// linearizable reads).
//
// Two op families, one model:
//
//	p.*  pipeline ops executed directly on the real command pipelines of three real stores
//	     (verif accessors of raftstore/store): p.next p.reg p.apply p.poll p.rm p.state
//	c.*  cluster ops on the real 3-store raft cluster of kit.go: c.campaign c.pump c.deliver
//	     c.drop c.dup c.tick c.iso c.heal c.propose c.read c.probe c.wait c.restart c.hold c.release c.elect c.proposeL, all answering "ok", and
//	     c.verdict, which answers with what the real code did at every pipeline-level event
//	     since the previous verdict (proposal ids drawn, waiters registered, entries applied on
//	     each store, results handed to waiters, leader checks, reads) followed by the verdicts
//	     of the cluster oracles.  The event lines themselves (the raft-decided schedule: which
//	     entry reached which store in which order) are written to $VERIF_CLUSTER_TRACE, from
//	     where the Lean driver replays them through the same pipeline model that answers the
//	     p.* ops and prints its own outputs in the same format.
package main

import (
	"flag"
	"fmt"
	"os"
	"strconv"
	"strings"
	"sync"
	"time"

	myraft "github.com/feichai0017/NoKV/raft"
	"github.com/feichai0017/NoKV/raftstore/command"
	"github.com/feichai0017/NoKV/raftstore/store"

	"verif/harness/hlib"
)

var prop = flag.String("prop", "C22", "property: C22|C23")

var tracePath string

func init() {
	tracePath = os.Getenv("VERIF_CLUSTER_TRACE")
	if tracePath == "" {
		tracePath = fmt.Sprintf("%s/verif_cluster_trace_%d", os.TempDir(), os.Getpid())
		os.Setenv("VERIF_CLUSTER_TRACE", tracePath)
	}
}

type engine struct {
	mu    sync.Mutex
	stats map[string]int
}

func (e *engine) stat(key string, n int) {
	e.mu.Lock()
	e.stats[key] += n
	e.mu.Unlock()
}

func (e *engine) hangs() int {
	e.mu.Lock()
	defer e.mu.Unlock()
	return e.stats["hangs"]
}

func atoi(s string) int { n, _ := strconv.Atoi(s); return n }

func arg(f []string, i int) int {
	if i < len(f) {
		return atoi(f[i])
	}
	return 0
}

func validStore(s int) bool     { return s >= 1 && s <= nStores }
func validRegion(r uint64) bool { return r >= 1 && r <= nRegions }

// direct pipeline state of a case: the waiters handed out by p.reg
type directState struct {
	waiters map[[2]int]*store.VerifProposalWaiter // (store, w)
}

func (e *engine) Exec(ops []string) []string {
	disk := false
	var maxMsg uint64
	pad := 0
	for _, op := range ops {
		if strings.HasPrefix(op, "c.restart") {
			disk = true
		}
		if f := strings.Fields(op); len(f) > 0 && f[0] == "c.cfg" { // c.cfg maxmsg=<bytes> pad=<bytes>
			for _, kv := range f[1:] {
				if v, ok := strings.CutPrefix(kv, "maxmsg="); ok {
					maxMsg = uint64(atoi(v))
				}
				if v, ok := strings.CutPrefix(kv, "pad="); ok {
					pad = atoi(v)
				}
			}
		}
	}
	if maxMsg != 0 && maxMsg < 64 {
		maxMsg = 64
	}
	if pad < 0 || pad > 4096 {
		pad = 0
	}
	k := newKit(disk, maxMsg, pad)
	os.WriteFile(tracePath, nil, 0o644)
	ds := &directState{waiters: map[[2]int]*store.VerifProposalWaiter{}}
	out := make([]string, len(ops))
	// Containment: a panic of the real code inside a cluster op may leave a peer's locks held
	// (processReady), so the cluster is not touched again after one ("poisoned"); an op that
	// does not come back is reported as "hang" and the cluster abandoned.
	poisoned := ""
	for i, op := range ops {
		if poisoned != "" {
			out[i] = poisoned
			continue
		}
		ch := make(chan string, 1)
		go func() { ch <- e.exec1(k, ds, strings.Fields(op)) }()
		limit := 60 * time.Second
		if e.hangs() > 0 {
			limit = 5 * time.Second
		}
		if e.hangs() > 8 {
			limit = 0
		}
		select {
		case r := <-ch:
			out[i] = r
			if strings.HasPrefix(r, "panic:") && strings.HasPrefix(op, "c.") {
				poisoned = "poisoned"
			}
		case <-time.After(limit):
			out[i] = "hang"
			poisoned = "hang"
			e.stat("hangs", 1)
		}
	}
	k.net.mu.Lock()
	e.stat("net.sent", k.net.sent)
	e.stat("net.delivered", k.net.delivered)
	e.stat("net.dropped", k.net.dropped)
	e.stat("net.duplicated", k.net.duplicated)
	k.net.mu.Unlock()
	if poisoned == "" {
		k.close()
	} else {
		done := make(chan struct{})
		go func() { defer close(done); defer func() { recover() }(); k.close() }()
		select {
		case <-done:
		case <-time.After(5 * time.Second):
		}
	}
	return out
}

func (e *engine) exec1(k *kit, ds *directState, f []string) (res string) {
	defer func() {
		if r := recover(); r != nil {
			res = fmt.Sprintf("panic:%v", r)
		}
	}()
	if len(f) == 0 {
		return "bad-op"
	}
	s := arg(f, 1)
	switch f[0] {
	// ------------------------------------------------------------ direct pipeline ops
	case "p.next":
		if !validStore(s) {
			return "bad-op"
		}
		return fmt.Sprintf("id=%d", k.stores[s].VerifNextProposalID())
	case "p.skip": // p.skip s n : draw n ids (keeps the id ranges of the stores apart in C23 workloads)
		n := arg(f, 2)
		if !validStore(s) || n < 1 || n > 100000 {
			return "bad-op"
		}
		var id uint64
		for i := 0; i < n; i++ {
			id = k.stores[s].VerifNextProposalID()
		}
		return fmt.Sprintf("id=%d", id)
	case "p.reg": // p.reg s id w tag
		if !validStore(s) || len(f) < 5 {
			return "bad-op"
		}
		id, w := uint64(arg(f, 2)), arg(f, 3)
		if _, dup := ds.waiters[[2]int{s, w}]; dup {
			return "bad-op"
		}
		h, err := k.stores[s].VerifRegisterProposal(id)
		if err != nil {
			return "dup"
		}
		if h == nil {
			return "none"
		}
		ds.waiters[[2]int{s, w}] = h
		return "ok"
	case "p.apply": // p.apply s region id from tag status
		if !validStore(s) || len(f) < 7 || !validRegion(uint64(arg(f, 2))) || !validStore(arg(f, 4)) {
			return "bad-op"
		}
		region, id, from, tag := uint64(arg(f, 2)), uint64(arg(f, 3)), arg(f, 4), arg(f, 5)
		req := k.writeReq(region, tag)
		req.Header.RequestId = id
		req.Header.PeerId = peerID(region, from)
		data, err := command.Encode(req)
		if err != nil {
			return "err"
		}
		k.mu.Lock()
		k.quiet = true
		k.mu.Unlock()
		err = k.stores[s].VerifApplyEntries([]myraft.Entry{{Type: myraft.EntryNormal, Index: 1, Term: 1, Data: data}})
		k.mu.Lock()
		k.quiet = false
		k.mu.Unlock()
		if err != nil {
			return "err"
		}
		return "ok"
	case "p.poll": // p.poll s w
		if !validStore(s) || len(f) < 3 {
			return "bad-op"
		}
		h := ds.waiters[[2]int{s, arg(f, 2)}]
		if h == nil {
			return "none"
		}
		resp, err, done, closed := h.Poll()
		switch {
		case closed:
			return "closed"
		case !done:
			return "pending"
		case err != nil:
			return "err"
		}
		k.mu.Lock()
		defer k.mu.Unlock()
		if o, ok := k.origins[resp]; ok {
			return fmt.Sprintf("res=%d/%d/%d", o.from, o.id, o.tag)
		}
		return "res=unknown"
	case "p.rm":
		if !validStore(s) || len(f) < 3 {
			return "bad-op"
		}
		k.stores[s].VerifRemoveProposal(uint64(arg(f, 2)))
		return "ok"
	case "p.state":
		if !validStore(s) {
			return "bad-op"
		}
		return k.pipeState(s)

	// ------------------------------------------------------------ cluster ops
	case "c.campaign": // c.campaign region store
		r, st := uint64(arg(f, 1)), arg(f, 2)
		if !validRegion(r) || !validStore(st) {
			return "bad-op"
		}
		p := k.peers[peerID(r, st)]
		if p == nil {
			return "ok"
		}
		k.runOn(st, func() { _ = p.Campaign() })
		k.collect()
		return "ok"
	case "c.tick":
		r, st := uint64(arg(f, 1)), arg(f, 2)
		if !validRegion(r) || !validStore(st) {
			return "bad-op"
		}
		p := k.peers[peerID(r, st)]
		if p == nil {
			return "ok"
		}
		k.runOn(st, func() { _ = p.Tick() })
		k.collect()
		return "ok"
	case "c.pump":
		k.pump()
		return "ok"
	case "c.deliver":
		k.deliverAt(arg(f, 1))
		return "ok"
	case "c.drop":
		if _, ok := k.net.take(arg(f, 1)); ok {
			k.net.dropped++
		}
		return "ok"
	case "c.dup":
		if m, ok := k.net.peek(arg(f, 1)); ok {
			k.net.mu.Lock()
			k.net.q = append(k.net.q, m)
			k.net.duplicated++
			k.net.mu.Unlock()
		}
		return "ok"
	case "c.iso":
		if !validStore(s) {
			return "bad-op"
		}
		k.net.mu.Lock()
		k.net.iso[s] = true
		k.net.mu.Unlock()
		k.net.purgeIsolated()
		return "ok"
	case "c.heal":
		k.net.mu.Lock()
		for i := range k.net.iso {
			k.net.iso[i] = false
		}
		k.net.mu.Unlock()
		return "ok"
	case "c.propose": // c.propose store region
		r := uint64(arg(f, 2))
		if !validStore(s) || !validRegion(r) {
			return "bad-op"
		}
		k.start("propose", s, r, len(k.calls)+1)
		return "ok"
	case "c.read":
		r := uint64(arg(f, 2))
		if !validStore(s) || !validRegion(r) {
			return "bad-op"
		}
		k.start("read", s, r, 0)
		return "ok"
	case "c.probe": // c.probe store regionId epochVer epochConf inRange : a read with a chosen header
		if !validStore(s) || len(f) < 6 {
			return "bad-op"
		}
		k.probe(s, uint64(arg(f, 2)), uint64(arg(f, 3)), uint64(arg(f, 4)), arg(f, 5) == 1)
		return "ok"
	case "c.restart": // c.restart store : stop and restart the raftstore layer of a store (raft logs on disk)
		if !validStore(s) {
			return "bad-op"
		}
		k.restart(s)
		return "ok"
	case "c.hold": // c.hold from to : delay every message from store `from` to store `to`
		a, b := arg(f, 1), arg(f, 2)
		if !validStore(a) || !validStore(b) {
			return "bad-op"
		}
		k.net.mu.Lock()
		if len(f) > 3 && f[3] == "app" { // only log replication is delayed
			k.net.holdApp[a][b] = true
		} else {
			k.net.hold[a][b] = true
		}
		k.net.mu.Unlock()
		return "ok"
	case "c.release":
		k.net.release()
		return "ok"
	case "c.elect": // c.elect region : run the clocks of the connected stores until one of them leads
		if !validRegion(uint64(arg(f, 1))) {
			return "bad-op"
		}
		k.elect(uint64(arg(f, 1)))
		return "ok"
	case "c.proposeL": // c.proposeL region : a write on whichever connected store leads the region
		r := uint64(arg(f, 1))
		if !validRegion(r) {
			return "bad-op"
		}
		if l := k.connectedLeader(r); l != 0 {
			k.start("propose", l, r, len(k.calls)+1)
		}
		return "ok"
	case "c.replicaread": // c.replicaread store region : ReadIndex + WaitApplied + local read on any replica
		r := uint64(arg(f, 2))
		if !validStore(s) || !validRegion(r) {
			return "bad-op"
		}
		k.replicaRead(s, r)
		return "ok"
	case "c.cfg": // read before the cluster is built (see Exec)
		return "ok"
	case "c.gate": // c.gate store : the store's state machine applies one write per c.step from now on
		if !validStore(s) {
			return "bad-op"
		}
		k.setGate(s)
		return "ok"
	case "c.step":
		if !validStore(s) {
			return "bad-op"
		}
		k.stepGate(s)
		return "ok"
	case "c.open":
		if !validStore(s) {
			return "bad-op"
		}
		k.openGate(s)
		return "ok"
	case "c.proposeP": // c.proposeP store region peerid : a write whose header already names a peer
		r := uint64(arg(f, 2))
		if !validStore(s) || !validRegion(r) {
			return "bad-op"
		}
		tag := len(k.calls) + 1
		req := k.writeReq(r, tag)
		req.Header.PeerId = uint64(arg(f, 3))
		k.launch("propose", s, r, tag, req, "1 1 1 1", true)
		return "ok"
	case "c.admin": // c.admin store region : an admin entry through the region's raft log
		r := uint64(arg(f, 2))
		if !validStore(s) || !validRegion(r) {
			return "bad-op"
		}
		k.admin(s, r)
		return "ok"
	case "c.stopread": // c.stopread store region [n] : n reads inside LinearizableRead's flush, then StopPeer
		r := uint64(arg(f, 2))
		if !validStore(s) || !validRegion(r) {
			return "bad-op"
		}
		n := arg(f, 3)
		if n < 1 || n > 64 {
			n = 20
		}
		k.stopRead(s, r, n)
		return "ok"
	case "c.wait": // let every outstanding read run into its answer (ReadCommand gives up after 3 s)
		for _, c := range k.calls {
			if c.kind == "read" && !c.settled {
				k.waitDone(c)
			}
		}
		k.collect()
		return "ok"
	case "c.verdict":
		return e.verdict(k)
	}
	return "bad-op"
}

func (k *kit) pipeState(s int) string {
	seq, pend := k.stores[s].VerifPipelineState()
	ps := make([]string, len(pend))
	for i, p := range pend {
		ps[i] = strconv.FormatUint(p, 10)
	}
	if len(ps) == 0 {
		ps = []string{"-"}
	}
	return fmt.Sprintf("seq=%d;pend=%s", seq, strings.Join(ps, "+"))
}

// verdict closes the current trace block: final pipeline states are appended as events, the
// event lines go to the side file for the Lean driver, the observations are the answer.
func (e *engine) verdict(k *kit) string {
	k.collect()
	k.mu.Lock()
	for s := 1; s <= nStores; s++ {
		k.event(fmt.Sprintf("p.state %d", s), k.pipeState(s))
	}
	lines := append([]string(nil), k.trace...)
	obs := append([]string(nil), k.obs...)
	k.trace, k.obs = nil, nil
	k.mu.Unlock()
	fh, err := os.OpenFile(tracePath, os.O_APPEND|os.O_WRONLY|os.O_CREATE, 0o644)
	if err != nil {
		panic(err)
	}
	for _, l := range lines {
		fmt.Fprintln(fh, l)
	}
	fmt.Fprintln(fh, "--")
	fh.Close()
	for _, l := range lines {
		e.stat("ev."+strings.Fields(l)[0], 1)
	}
	return fmt.Sprintf("%d:%s#%s", len(obs), strings.Join(obs, ","), k.oracles())
}

func main() {
	e := &engine{stats: map[string]int{}}
	if f := os.Getenv("CLUSTER_PROBE"); f != "" { // development aid: run an ops file without the driver
		defer closeSharedDBs()
		ops := hlib.ReadOps(f)
		for i, o := range e.Exec(ops) {
			fmt.Printf("%-28s %s\n", ops[i], o)
		}
		data, _ := os.ReadFile(tracePath)
		fmt.Printf("--- trace\n%s", data)
		return
	}
	defer os.Remove(tracePath)
	defer closeSharedDBs()
	if os.Getenv("CLUSTER_DEBUG") != "" { // development aid: find non-reproducible disagreements
		debugRun(e)
		return
	}
	hlib.Main("cluster", e)
}

func debugRun(e *engine) {
	drv := flag.String("driver", "", "")
	cfg := flag.String("cfg", "", "")
	sd := flag.Uint64("seed", 1, "")
	nn := flag.Int("n", 100, "")
	flag.Parse()
	d, err := hlib.StartDriver(*drv, *cfg)
	if err != nil {
		panic(err)
	}
	defer d.Close()
	n := *nn
	rng := hlib.NewRand(*sd)
	for i := 0; i < n; i++ {
		ops := e.Gen(rng.Fork(), "quick")
		impl, model, _ := hlib.RunCase(e, d, ops)
		for j := range ops {
			if impl[j] != model[j] {
				fmt.Printf("case %d op %d %s\n impl =%s\n model=%s\n", i, j, ops[j], impl[j], model[j])
				impl2, model2, _ := hlib.RunCase(e, d, ops)
				fmt.Printf(" rerun: impl same=%v model same=%v\n impl2=%s\n", impl2[j] == impl[j], model2[j] == model[j], impl2[j])
				fmt.Println(strings.Join(ops, "\n"))
				data, _ := os.ReadFile(tracePath)
				fmt.Printf("--- trace\n%s", data)
				return
			}
		}
	}
	fmt.Println("no disagreement")
}

// Correspondence harness for the value-log engine: C08 (value-log separation and GC never
// change or lose a live value) and C11 (after reopen, contents change only through writes).
//
// Every case runs the real NoKV.DB on a fresh temp dir with a small ValueThreshold and a small
// value-log file size, so that a few dozen writes rotate the value log several times.
package main

import (
	"bufio"
	"bytes"
	"errors"
	"flag"
	"fmt"
	"hash/crc32"
	"io"
	"os"
	"os/exec"
	"path/filepath"
	"runtime"
	"runtime/debug"
	"sort"
	"strconv"
	"strings"
	"syscall"
	"time"

	NoKV "github.com/feichai0017/NoKV"
	"github.com/feichai0017/NoKV/kv"
	"github.com/feichai0017/NoKV/utils"

	"verif/harness/hlib"
)

var prop = flag.String("prop", "C08", "property: C08|C11")

const maxVer = ^uint64(0)

var castagnoli = crc32.MakeTable(crc32.Castagnoli)

// keyHash recomputes kv.ValueLogHash independently: crc32c over cf header (FF 'C' 'F' cf) ++ user key.
func keyHash(userKey []byte) uint32 {
	base := append([]byte{0xFF, 'C', 'F', 0x00}, userKey...)
	return crc32.Checksum(base, castagnoli)
}

// non-transactional keys and versioned keys live in disjoint key spaces (db.go: "must not be mixed")
var plainKeys = [][]byte{[]byte("na"), []byte("nb"), []byte("nc"), []byte("nd"), {'n', 0x00}, {'n', 0xff}, []byte("nab")}
var verKeys = [][]byte{[]byte("va"), []byte("vb"), {'v', 0x00}}

// ghost keys are never written through the client API: only interrupted writes (crash ops) carry them,
// so the LSM holds nothing for them and rewrite's lsm.Get misses
var ghostPlain = [][]byte{[]byte("ng"), {'n', 'g', 0x00}}
var ghostVer = [][]byte{[]byte("vg")}

type engine struct {
	dir     string
	db      *NoKV.DB
	T, M, B int
	childCases int
	// generated cases in which the engine crashed or got stuck; every such case is shrunk by hlib with
	// up to a few hundred re-runs, so after the first of them (corpus or generated) the remaining generated cases are skipped
	// (the run is a VIOLATION with replayable inputs by then)
	brokenGen  int
	curBroken  bool
	skippedGen int
	lsmMode bool // compactors stopped, LSM maintenance driven explicitly (lsm/verif_lsm_hooks.go)
	// concurrent window
	yieldAt  chan int
	release  chan struct{}
	gcResult chan error
	gcStats  map[string]int // whole run
	caseGC   map[string]int // current case
	opTime   map[string]float64
}

func (e *engine) Rule() string {
	if *prop == "C11" {
		return "C11: (a) LSM maintenance schedules: unique writes, then rotate / flush / L0->base move / ingest drain / keep (compactors stopped, lsm/verif_lsm_hooks.go) interleaved with value-log GC, before and after reopens, every key read back (Get, GetVersionedEntry, iterator dump) after each step; non-trivial = a drain, then a reopen, then >=2 flushes; (b) C08 op mix with more crash ops (a value-log record appended by valueLog.write only, then close+open) and crash-image checks (copy of the directory, reopened, GC of every sealed file twice, full dumps compared); non-trivial = at least one crash op left an unreferenced record that a later GC scanned, or an image check ran after >=1 rotation"
	}
	return "C08: (a) 30% LSM maintenance schedules as in C11; (b) random set/del/setv/delv/get/getv/scan/gc/reopen sequences, plus interrupted writes (valueLog.write only, then close+open; on written keys and on ghost keys the LSM never holds), on the real DB (ValueThreshold T in {16,32,64}, value sizes {0,1,T-1,T,T+1,4T}, file size 200..700 => 2-8 rotations, 1/2/4 buckets), pointers, file lists, records and manifest status compared with the model after every step; non-trivial = some GC run re-inserted >=1 live record and scanned >=1 dead record"
}

func (e *engine) opts() *NoKV.Options {
	o := NoKV.NewDefaultOptions()
	o.WorkDir = e.dir
	o.ValueThreshold = int64(e.T)
	o.ValueLogFileSize = e.M
	o.ValueLogBucketCount = e.B
	o.ValueLogHotBucketCount = 0
	o.ValueLogHotKeyThreshold = 0
	o.HotRingEnabled = false
	o.ValueLogGCInterval = 0
	o.EnableWALWatchdog = false
	o.MemTableSize = 1 << 20
	o.SSTableMaxSz = 1 << 20
	o.NumCompactors = 1
	o.SyncWrites = true
	o.WriteBatchWait = 0
	if e.lsmMode {
		o.NumLevelZeroTables = 1000 // no write stall, no L0 pressure: the case decides when tables move
		o.IngestCompactBatchSize = 2
	}
	return o
}

// scratch directories: $TMPDIR when set, else tmpfs when available (the cases fsync every write)
func scratchBase() string {
	if os.Getenv("TMPDIR") != "" {
		return ""
	}
	if st, err := os.Stat("/dev/shm"); err == nil && st.IsDir() {
		return "/dev/shm"
	}
	return ""
}

func sizes(T int) []int { return []int{0, 1, T - 1, T, T + 1, 4 * T} }

func genVal(r *hlib.Rand, T int) []byte {
	n := hlib.Pick(r, sizes(T))
	if r.Chance(10) {
		n = r.Intn(4*T + 2)
	}
	b := make([]byte, n)
	c := byte('A' + r.Intn(26))
	for i := range b {
		b[i] = c
	}
	if n > 0 {
		b[0] = byte(r.Intn(256))
		b[n-1] = byte(r.Intn(256))
	}
	return b
}

func bigVal(r *hlib.Rand, T int) []byte {
	n := hlib.Pick(r, []int{T, T + 1, 2 * T, 4 * T})
	b := bytes.Repeat([]byte{byte('a' + r.Intn(26))}, n)
	b[0] = byte(r.Intn(256))
	return b
}

// hlib derives the per-case generators of seed s+1 from the same additive splitmix stream as
// those of seed s, shifted by one case; salting with the run's seed decorrelates the sweeps.
var seedSalt uint64

func (e *engine) Gen(r *hlib.Rand, tier string) []string {
	if e.curBroken {
		e.brokenGen++
		e.curBroken = false
	}
	if e.brokenGen >= 1 {
		e.skippedGen++
		return []string{"open 32 400 1", "files"}
	}
	r = hlib.NewRand(r.U64() ^ (seedSalt * 0xD6E8FEB86659FD93))
	lsmPct := 30
	if *prop == "C11" {
		lsmPct = 45
	}
	if r.Chance(lsmPct) {
		return e.genLSM(r, tier)
	}
	if r.Chance(8) {
		return e.genManyLive(r, tier)
	}
	T := hlib.Pick(r, []int{16, 32, 64})
	M := 200 + r.Intn(500)
	if T == 64 {
		M += 300
	}
	B := hlib.Pick(r, []int{1, 1, 2, 4})
	ops := []string{fmt.Sprintf("open %d %d %d", T, M, B)}
	n := 25 + r.Intn(40)
	if tier == "thorough" && r.Chance(30) {
		n += 60
	}
	// rough per-bucket byte count, only to aim GC at files that probably exist
	est := make([]int, B)
	wrote := func(k, v []byte) {
		if len(v) >= T {
			b := 0
			if B > 1 {
				b = int(keyHash(k) % uint32(B))
			}
			est[b] += 30 + len(k) + len(v)
		}
	}
	gcOp := func() string {
		b := r.Intn(B)
		top := est[b]/M + 1
		f := r.Intn(top + 1)
		if r.Chance(40) {
			f = r.Intn(1 + top/2)
		}
		return fmt.Sprintf("gc %d %d", b, f)
	}
	crashes := true // interrupted writes belong to C08's "never brings back" as much as to C11
	crashPct := 75
	if *prop != "C11" {
		crashPct = 45
	}
	// every reopen replays the WAL into fresh 64 MiB memtables: keep their number per case small
	reopens := 1 + r.Intn(2)
	if tier == "thorough" {
		reopens += r.Intn(3)
	}
	images := 1
	for i := 0; i < n; i++ {
		x := r.Intn(100)
		switch {
		case x < 34:
			k := hlib.Pick(r, plainKeys)
			v := genVal(r, T)
			if r.Chance(55) {
				v = bigVal(r, T)
			}
			wrote(k, v)
			ops = append(ops, fmt.Sprintf("set %s %s %d", hlib.Hex(k), hlib.Hex(v), keyHash(k)))
			if r.Chance(40) {
				ops = append(ops, fmt.Sprintf("ptr %s %d", hlib.Hex(k), maxVer))
			}
		case x < 40:
			k := hlib.Pick(r, plainKeys)
			ops = append(ops, fmt.Sprintf("del %s %d", hlib.Hex(k), keyHash(k)))
		case x < 48:
			k := hlib.Pick(r, verKeys)
			v := genVal(r, T)
			if r.Chance(50) {
				v = bigVal(r, T)
			}
			wrote(k, v)
			ops = append(ops, fmt.Sprintf("setv %s %d %s %d", hlib.Hex(k), 1+r.Intn(6), hlib.Hex(v), keyHash(k)))
		case x < 50:
			k := hlib.Pick(r, verKeys)
			ops = append(ops, fmt.Sprintf("delv %s %d %d", hlib.Hex(k), 1+r.Intn(6), keyHash(k)))
		case x < 60:
			ops = append(ops, "get "+hlib.Hex(hlib.Pick(r, plainKeys)))
		case x < 65:
			ops = append(ops, fmt.Sprintf("getv %s %d", hlib.Hex(hlib.Pick(r, verKeys)), 1+r.Intn(7)))
		case x < 80:
			ops = append(ops, gcOp())
			if r.Chance(50) {
				ops = append(ops, "files")
			}
			if r.Chance(30) {
				ops = append(ops, gcOp()) // GC again right away (the second pass removes the file)
			}
		case x < 84:
			if reopens > 0 {
				reopens--
				if crashes && r.Chance(crashPct) {
					var k []byte
					ver := maxVer
					switch y := r.Intn(100); {
					case y < 40:
						k = hlib.Pick(r, plainKeys)
					case y < 65:
						k = hlib.Pick(r, ghostPlain)
					case y < 85:
						k = hlib.Pick(r, verKeys)
						ver = uint64(1 + r.Intn(6))
					default:
						k = hlib.Pick(r, ghostVer)
						ver = uint64(1 + r.Intn(6))
					}
					v := bigVal(r, T)
					wrote(k, v)
					ops = append(ops, fmt.Sprintf("crash %s %d %s %d", hlib.Hex(k), ver, hlib.Hex(v), keyHash(k)))
				} else {
					ops = append(ops, "reopen")
				}
				if r.Chance(50) {
					ops = append(ops, "files", "scan")
				}
			}
		case x < 88:
			ops = append(ops, "scan")
		case x < 91:
			ops = append(ops, "files")
		case x < 94:
			b := r.Intn(B)
			ops = append(ops, fmt.Sprintf("recs %d %d", b, r.Intn(est[b]/M+2)))
		case x < 96:
			ops = append(ops, fmt.Sprintf("man %d", r.Intn(B)))
		default:
			if *prop == "C11" && images > 0 && r.Chance(40) {
				images--
				ops = append(ops, "image")
			} else {
				ops = append(ops, "get "+hlib.Hex(hlib.Pick(r, plainKeys)))
			}
		}
	}
	// closing sweep: GC the files that probably exist, read everything, reopen, read again
	tail := func() {
		ops = append(ops, "files", "scan")
		for _, k := range plainKeys {
			ops = append(ops, "get "+hlib.Hex(k))
		}
		for _, k := range verKeys {
			ops = append(ops, fmt.Sprintf("getv %s 7", hlib.Hex(k)))
		}
		for _, k := range ghostPlain {
			ops = append(ops, "get "+hlib.Hex(k))
		}
		for _, k := range ghostVer {
			ops = append(ops, fmt.Sprintf("getv %s 7", hlib.Hex(k)))
		}
	}
	tail()
	if r.Chance(70) {
		for b := 0; b < B; b++ {
			for f := 0; f <= est[b]/M+1; f++ {
				if r.Chance(70) {
					ops = append(ops, fmt.Sprintf("gc %d %d", b, f))
				}
			}
		}
		tail()
	}
	if *prop == "C11" && images > 0 && r.Chance(50) {
		ops = append(ops, "image")
	}
	ops = append(ops, "reopen")
	tail()
	return ops
}

// genLSM: maintenance schedules that include LSM-level steps (memtable rotation, flush, L0 -> base
// level move, ingest drain; compactors stopped) next to value-log GC, before AND after reopens, with a
// full read-back (every key through Get / GetVersionedEntry plus an iterator dump) after each step:
// contents may change only through client writes.
//
// The LSM is the abstract versioned map here; the open C01/C02 findings (two copies of one internal
// key in two L0 tables or two ingest tables: the older can win; first source holding any version <= v
// answers) are kept out of these schedules: every user key is written once (one version per key, so
// no source ever holds a smaller version of a key than an older source), and GC (which re-inserts
// under the same internal key) runs only while the older copies sit in the active memtable or below L0.
// NOTE (found while building this): on the real code the first-hit lookup also makes GC unsafe for
// multi-version keys — after GC re-inserts k@2 into the memtable, the liveness lookup of the record
// k@4 (whose entry is in an SST) answers with k@2's pointer, k@4 is judged dead and its file removed.
func (e *engine) genLSM(r *hlib.Rand, tier string) []string {
	T := hlib.Pick(r, []int{16, 32})
	M := 250 + r.Intn(400)
	B := hlib.Pick(r, []int{1, 1, 2})
	ops := []string{fmt.Sprintf("open %d %d %d lsm", T, M, B)}
	var plainW [][]byte           // plain keys written so far (each once)
	var verW []string             // "hexkey ver" written so far
	nextPlain, nextVer := 0, 0
	// key ids in random order: the key ranges of the tables of successive flushes overlap
	ids := make([]int, 90)
	for i := range ids {
		ids[i] = i
	}
	for i := len(ids) - 1; i > 0; i-- {
		j := r.Intn(i + 1)
		ids[i], ids[j] = ids[j], ids[i]
	}
	est := make([]int, B)
	wrote := func(k, v []byte) {
		if len(v) >= T {
			b := 0
			if B > 1 {
				b = int(keyHash(k) % uint32(B))
			}
			est[b] += 30 + len(k) + len(v)
		}
	}
	val := func() []byte {
		if r.Chance(65) {
			return bigVal(r, T)
		}
		return genVal(r, T)
	}
	writes := func(n int) {
		for i := 0; i < n; i++ {
			switch x := r.Intn(100); {
			case x < 60:
				k := []byte(fmt.Sprintf("p%02d", ids[nextPlain%len(ids)]))
				if nextPlain >= len(ids) {
					k = []byte(fmt.Sprintf("q%03d", nextPlain))
				}
				nextPlain++
				plainW = append(plainW, k)
				if r.Chance(12) {
					ops = append(ops, fmt.Sprintf("del %s %d", hlib.Hex(k), keyHash(k)))
				} else {
					v := val()
					wrote(k, v)
					ops = append(ops, fmt.Sprintf("set %s %s %d", hlib.Hex(k), hlib.Hex(v), keyHash(k)))
				}
			default:
				k := []byte(fmt.Sprintf("p%02dv", ids[(nextVer*7+3)%len(ids)]))
				if nextVer >= 12 {
					k = []byte(fmt.Sprintf("w%03d", nextVer))
				}
				nextVer++
				ver := 1 + r.Intn(6)
				verW = append(verW, fmt.Sprintf("%s %d", hlib.Hex(k), ver))
				if r.Chance(12) {
					ops = append(ops, fmt.Sprintf("delv %s %d %d", hlib.Hex(k), ver, keyHash(k)))
				} else {
					v := val()
					wrote(k, v)
					ops = append(ops, fmt.Sprintf("setv %s %d %s %d", hlib.Hex(k), ver, hlib.Hex(v), keyHash(k)))
				}
			}
		}
	}
	readback := func() {
		for _, k := range plainW {
			ops = append(ops, "get "+hlib.Hex(k))
		}
		for _, kv := range verW {
			ops = append(ops, "getv "+kv)
		}
		for _, k := range ghostPlain {
			ops = append(ops, "get "+hlib.Hex(k))
		}
		ops = append(ops, "scan")
	}
	step := func(s string) {
		ops = append(ops, s)
		readback()
	}
	flush := func() { step("lsm rotate"); step("lsm flush") }
	down := func() { step("lsm l0move"); step("lsm drain"); step("lsm l0move"); step("lsm drain") }
	gcs := func() {
		for b := 0; b < B; b++ {
			for f := 0; f <= est[b]/M+1; f++ {
				if r.Chance(60) {
					ops = append(ops, fmt.Sprintf("gc %d %d", b, f))
				}
			}
		}
		ops = append(ops, "files")
		readback()
	}
	reopen := func() {
		if r.Chance(35) {
			k := hlib.Pick(r, ghostPlain)
			ops = append(ops, fmt.Sprintf("crash %s %d %s %d", hlib.Hex(k), maxVer, hlib.Hex(bigVal(r, T)), keyHash(k)))
		} else {
			ops = append(ops, "reopen")
		}
		readback()
	}
	lives := 2
	if tier == "thorough" && r.Chance(40) {
		lives = 3
	}
	for life := 0; life < lives; life++ {
		writes(3 + r.Intn(6))
		readback()
		if life == 0 && r.Chance(30) {
			gcs() // first life: everything is still in the active memtable
		}
		flush()
		if life > 0 || r.Chance(50) {
			// a second flush in the same life: a rotation plus one more flush is what it takes for
			// file ids handed out after a reopen to be used
			writes(2 + r.Intn(4))
			flush()
		}
		if life > 0 && r.Chance(45) {
			// tables moved into the ingest buffer of the base level, whose main tables (drained in an
			// earlier life) overlap them; reopen BEFORE the drain: the manifest must bring them back
			// as ingest tables
			step("lsm l0move")
			reopen()
			if r.Chance(50) {
				writes(2 + r.Intn(3))
				flush()
			}
			down()
		} else if r.Chance(85) {
			down()
			if r.Chance(40) {
				step("lsm keep")
			}
			if r.Chance(60) {
				gcs() // older copies are below L0 now; re-inserts go to the memtable
			}
		}
		reopen()
	}
	// last life: only new writes and flushes, then read everything that was ever written
	writes(2 + r.Intn(3))
	flush()
	writes(2 + r.Intn(3))
	flush()
	ops = append(ops, "reopen")
	readback()
	return ops
}

// genManyLive: one sealed value-log segment holding 70-150 small live records (more than
// MaxBatchCount = 64, far less than MaxBatchSize), then GC of that segment: rewrite has to re-insert the
// write-back set in several requests.  Reads and iterator dumps are compared after GC and after reopen;
// pointers and file lists are not (the model re-inserts in one batch, see props assumptions).
func (e *engine) genManyLive(r *hlib.Rand, tier string) []string {
	T := 4
	n := 70 + r.Intn(81)
	M := 40*n + 2000 // all n records fit into segment 0
	ops := []string{fmt.Sprintf("open %d %d 1", T, M)}
	var keys [][]byte
	for i := 0; i < n; i++ {
		k := []byte(fmt.Sprintf("m%03d", i))
		keys = append(keys, k)
		v := bytes.Repeat([]byte{byte('a' + i%26)}, T+r.Intn(3))
		v[0] = byte(i)
		ops = append(ops, fmt.Sprintf("set %s %s %d", hlib.Hex(k), hlib.Hex(v), keyHash(k)))
	}
	// a few dead records, and one write that does not fit any more: segment 0 is sealed
	for i := 0; i < 3+r.Intn(5); i++ {
		k := keys[r.Intn(len(keys))]
		if r.Chance(50) {
			ops = append(ops, fmt.Sprintf("del %s %d", hlib.Hex(k), keyHash(k)))
		} else {
			ops = append(ops, fmt.Sprintf("set %s %s %d", hlib.Hex(k), hlib.Hex([]byte{1, 2}), keyHash(k)))
		}
	}
	big := bytes.Repeat([]byte{'Z'}, M)
	ops = append(ops, fmt.Sprintf("set %s %s %d", hlib.Hex([]byte("mbig")), hlib.Hex(big), keyHash([]byte("mbig"))))
	readback := func() {
		for _, k := range keys {
			ops = append(ops, "get "+hlib.Hex(k))
		}
		ops = append(ops, "get "+hlib.Hex([]byte("mbig")), "scan")
	}
	readback()
	ops = append(ops, "gc 0 0")
	readback()
	if r.Chance(60) {
		ops = append(ops, "gc 0 0") // second pass: the segment is removed
		readback()
	}
	ops = append(ops, "reopen")
	readback()
	return ops
}

func (e *engine) Nontrivial(ops, impl, model, spec []string) bool {
	if len(ops) > 1 && strings.HasPrefix(ops[1], "set 6d303030 ") {
		return true // many-live-records case: always rewrites > MaxBatchCount live records
	}
	if len(ops) > 0 && strings.HasSuffix(ops[0], " lsm") {
		// an LSM schedule is non-trivial when a table was moved below L0 before a reopen and two
		// flushes happened after it
		down, reopened, flushes := false, false, 0
		for i, op := range ops {
			switch {
			case op == "lsm drain" && impl[i] == "ok":
				down = true
			case down && (op == "reopen" || strings.HasPrefix(op, "crash ")):
				reopened = true
			case reopened && op == "lsm flush" && impl[i] == "ok":
				flushes++
			}
		}
		return flushes >= 2
	}
	if *prop == "C11" {
		crash, gcAfter := false, false
		for i, op := range ops {
			if strings.HasPrefix(op, "crash ") {
				crash = true
			}
			if crash && strings.HasPrefix(op, "gc ") && (impl[i] == "ok" || impl[i] == "emptykey") {
				gcAfter = true
			}
			if op == "image" && impl[i] == "same" {
				gcAfter = true
			}
		}
		return gcAfter
	}
	return e.caseGC["moved+dead"] > 0
}

func (e *engine) Extra() map[string]any {
	return map[string]any{"gc_runs_by_kind": e.gcStats, "impl_seconds_by_op": e.opTime, "cases_run_in_child_process": e.childCases,
		"generated_cases_skipped_after_engine_crashes": e.skippedGen}
}

// ---------------------------------------------------------------- execution

// openDB opens the database; in lsm mode the background compactors are stopped right away and the
// flush of the memtables recovered from the WAL is awaited, so that every later table movement is one
// the case asked for.
func (e *engine) openDB() {
	e.db = NoKV.Open(e.opts())
	if e.lsmMode {
		l := e.db.VerifLSM()
		l.VerifStopCompactors()
		if err := l.VerifWaitFlushIdle(); err != nil {
			panic(err)
		}
	}
}

func (e *engine) close() {
	if e.db != nil {
		_ = e.db.Close()
		e.db = nil
		runtime.GC() // drop the closed DB's 64 MiB memtable arenas now (GC is otherwise off, see main)
	}
}

func resStr(ent *kv.Entry, err error, plain bool) string {
	if err != nil {
		if errors.Is(err, utils.ErrKeyNotFound) {
			return "notfound"
		}
		return "err"
	}
	if ent.Meta&kv.BitDelete != 0 {
		if plain {
			return "notfound"
		}
		return "tomb"
	}
	return "v:" + hlib.Hex(ent.Value)
}

func (e *engine) scan(db *NoKV.DB) string {
	it := db.NewIterator(&utils.Options{IsAsc: true})
	var rows []string
	for it.Rewind(); it.Valid(); it.Next() {
		item := it.Item()
		ent := item.Entry()
		if ent == nil || len(ent.Value) == 0 {
			continue
		}
		rows = append(rows, fmt.Sprintf("%s@%020d=%s", hlib.Hex(ent.Key), ent.Version, hlib.Hex(ent.Value)))
	}
	_ = it.Close()
	sort.Strings(rows)
	// the iterator yields every stored version once; identical rows cannot occur
	if len(rows) == 0 {
		return "-"
	}
	return strings.Join(rows, ",")
}

func filesStr(db *NoKV.DB) string {
	var parts []string
	for b, fids := range db.VerifVlogFiles() {
		var s []string
		for _, f := range fids {
			s = append(s, strconv.Itoa(int(f)))
		}
		x := "-"
		if len(s) > 0 {
			x = strings.Join(s, ",")
		}
		parts = append(parts, fmt.Sprintf("%d:%s", b, x))
	}
	return strings.Join(parts, ";")
}

func gcErr(err error) string {
	switch {
	case err == nil:
		return "ok"
	case errors.Is(err, utils.ErrEmptyKey):
		return "emptykey"
	case strings.HasPrefix(err.Error(), "verif: fid"):
		return "badfid"
	case strings.HasPrefix(err.Error(), "value log: invalid bucket"):
		return "badfid"
	default:
		return "err:" + strings.ReplaceAll(err.Error(), " ", "_")
	}
}

func copyDir(src, dst string) error {
	return filepath.Walk(src, func(p string, info os.FileInfo, err error) error {
		if err != nil {
			return err
		}
		rel, _ := filepath.Rel(src, p)
		t := filepath.Join(dst, rel)
		if info.IsDir() {
			return os.MkdirAll(t, 0o755)
		}
		in, err := os.Open(p)
		if err != nil {
			return err
		}
		defer in.Close()
		out, err := os.Create(t)
		if err != nil {
			return err
		}
		defer out.Close()
		_, err = io.Copy(out, in)
		return err
	})
}

// classify one GC run for the non-triviality rule: how many scanned records were live / dead
func (e *engine) classify(b, f uint32) (live, dead int) {
	recs, err := e.db.VerifVlogRecords(b, f)
	if err != nil {
		return 0, 0
	}
	for _, r := range recs {
		found, isPtr, vp, meta, _, _, err := e.db.VerifVlogLookup(r.CF, r.UserKey, r.Version)
		if err == nil && found && isPtr && meta&kv.BitDelete == 0 && vp.Bucket == b && vp.Fid == f && vp.Offset == r.Offset {
			live++
		} else {
			dead++
		}
	}
	return
}

func (e *engine) image() string {
	tmp, err := os.MkdirTemp(scratchBase(), "vlogimg")
	if err != nil {
		return "err:mktemp"
	}
	defer os.RemoveAll(tmp)
	if err := copyDir(e.dir, tmp); err != nil {
		return "err:copy"
	}
	_ = os.Remove(filepath.Join(tmp, "LOCK"))
	o := e.opts()
	o.WorkDir = tmp
	db := NoKV.Open(o)
	defer db.Close()
	before := e.scan(db)
	for round := 0; round < 2; round++ {
		for b, fids := range db.VerifVlogFiles() {
			for _, f := range fids {
				_ = db.VerifVlogRewrite(uint32(b), f)
			}
		}
	}
	after := e.scan(db)
	if before == after {
		return "same"
	}
	return "diff"
}

// Exec runs one case in a child process: a broken flush or compaction panics on a background goroutine
// of the engine (flush worker), which no recover() in the harness can contain, or leaves Close waiting
// for a flush that never succeeds.  The parent turns a dead child into the observable output `crashed`
// for the remaining ops; the child gives up (`stuck`) on an op that takes longer than opDeadline.
func (e *engine) Exec(ops []string) []string {
	if os.Getenv("VLOG_NO_CHILD") == "" {
		return e.execChild(ops)
	}
	return e.execLocal(ops, nil)
}

const opDeadline = 45 * time.Second // generous: a close+open took >8 s once on a machine at load 60

// a flush of a few-KB memtable takes milliseconds; one that is still running after 6 s is being
// retried forever (table build fails)
func deadlineFor(op string) time.Duration {
	if op == "lsm flush" {
		return 6 * time.Second
	}
	return opDeadline
}

func (e *engine) execChild(ops []string) []string {
	out := make([]string, len(ops))
	for i := range out {
		out[i] = "crashed"
	}
	if e.gcStats == nil {
		e.gcStats = map[string]int{}
	}
	e.caseGC = map[string]int{}
	pr, pw, err := os.Pipe()
	if err != nil {
		panic(err)
	}
	cmd := exec.Command(os.Args[0], "-vlog-child")
	cmd.Stdin = strings.NewReader(strings.Join(ops, "\n") + "\n")
	cmd.ExtraFiles = []*os.File{pw}
	dir, err := os.MkdirTemp(scratchBase(), "hvlogc")
	if err != nil {
		panic(err)
	}
	defer os.RemoveAll(dir) // also when the child died
	cmd.Env = append(os.Environ(), "VLOG_DIR="+dir)
	if err := cmd.Start(); err != nil {
		panic(err)
	}
	pw.Close()
	done := make(chan struct{})
	go func() {
		defer close(done)
		sc := bufio.NewScanner(pr)
		sc.Buffer(make([]byte, 1<<20), 64<<20)
		i := 0
		for sc.Scan() {
			line := sc.Text()
			if strings.HasPrefix(line, "#stats ") {
				for _, kv := range strings.Fields(line[7:]) {
					if j := strings.LastIndexByte(kv, '='); j > 0 {
						n, _ := strconv.Atoi(kv[j+1:])
						e.gcStats[kv[:j]] += n
						e.caseGC[kv[:j]] += n // the child ran exactly this case
					}
				}
				continue
			}
			if i < len(out) {
				out[i] = line
				i++
			}
		}
	}()
	select {
	case <-done:
	case <-time.After(600 * time.Second):
		_ = cmd.Process.Kill()
		<-done
	}
	_ = cmd.Wait()
	pr.Close()
	for _, o := range out {
		if o == "crashed" || o == "stuck" {
			e.curBroken = true
			break
		}
	}
	e.childCases++
	return out
}

// childMain: ops on stdin, one output line per op on fd 3, then a stats line.
func childMain() {
	w := os.NewFile(3, "results")
	data, _ := io.ReadAll(os.Stdin)
	var ops []string
	for _, l := range strings.Split(string(data), "\n") {
		if strings.TrimSpace(l) != "" {
			ops = append(ops, l)
		}
	}
	e := &engine{}
	e.execLocal(ops, func(i int, o string) { fmt.Fprintln(w, o) })
	var parts []string
	for k, v := range e.gcStats {
		parts = append(parts, fmt.Sprintf("%s=%d", k, v))
	}
	fmt.Fprintln(w, "#stats "+strings.Join(parts, " "))
	w.Close()
}

func (e *engine) execLocal(ops []string, sink func(int, string)) (out []string) {
	out = make([]string, len(ops))
	dir := os.Getenv("VLOG_DIR") // set by the parent of a child run
	if dir == "" {
		d, err := os.MkdirTemp(scratchBase(), "hvlog")
		if err != nil {
			panic(err)
		}
		dir = d
	}
	e.dir = dir
	if e.gcStats == nil {
		e.gcStats = map[string]int{}
	}
	e.caseGC = map[string]int{}
	defer func() {
		NoKV.VerifSetVlogYield(nil)
		if e.release != nil {
			close(e.release)
			e.release = nil
			select {
			case <-e.gcResult:
			case <-time.After(5 * time.Second):
			}
		}
		e.close()
		os.RemoveAll(dir)
	}()
	if e.opTime == nil {
		e.opTime = map[string]float64{}
	}
	if len(ops) > 0 && !strings.HasPrefix(ops[0], "open ") {
		e.one("open 32 400 1") // the driver's default parameters (shrunk cases may lose their open line)
	}
	for i, op := range ops {
		t0 := time.Now()
		if sink != nil {
			// child: an op that does not return within opDeadline ends the case
			ch := make(chan string, 1)
			go func() { ch <- e.one(op) }()
			select {
			case out[i] = <-ch:
				sink(i, out[i])
			case <-time.After(deadlineFor(op)):
				sink(i, "stuck")
				os.Exit(3) // the parent removes the directory
			}
		} else {
			out[i] = e.one(op)
		}
		e.opTime[strings.Fields(op)[0]] += time.Since(t0).Seconds()
		if os.Getenv("VLOG_TRACE") != "" && time.Since(t0) > 20*time.Millisecond {
			fmt.Fprintln(os.Stderr, "slow", op, time.Since(t0))
		}
	}
	return out
}

func (e *engine) one(op string) (res string) {
	defer func() {
		if r := recover(); r != nil {
			res = fmt.Sprintf("panic:%v", r)
			if len(res) > 80 {
				res = res[:80]
			}
			res = strings.ReplaceAll(res, " ", "_")
		}
	}()
	t := strings.Fields(op)
	u := func(i int) uint64 { v, _ := strconv.ParseUint(t[i], 10, 64); return v }
	if t[0] == "open" {
		e.close()
		e.T, e.M, e.B = int(u(1)), int(u(2)), int(u(3))
		e.lsmMode = len(t) > 4 && t[4] == "lsm"
		e.openDB()
		return "ok"
	}
	if e.db == nil {
		return "noopen"
	}
	db := e.db
	okErr := func(err error) string {
		if err != nil {
			return "err:" + strings.ReplaceAll(err.Error(), " ", "_")
		}
		return "ok"
	}
	switch t[0] {
	case "set":
		v := hlib.UnHex(t[2])
		if v == nil {
			v = []byte{}
		}
		return okErr(db.Set(hlib.UnHex(t[1]), v))
	case "del":
		return okErr(db.Del(hlib.UnHex(t[1])))
	case "setv":
		v := hlib.UnHex(t[3])
		if v == nil {
			v = []byte{}
		}
		return okErr(db.SetVersionedEntry(kv.CFDefault, hlib.UnHex(t[1]), u(2), v, 0))
	case "delv":
		return okErr(db.DeleteVersionedEntry(kv.CFDefault, hlib.UnHex(t[1]), u(2)))
	case "get":
		ent, err := db.Get(hlib.UnHex(t[1]))
		return resStr(ent, err, true)
	case "getv":
		ent, err := db.GetVersionedEntry(kv.CFDefault, hlib.UnHex(t[1]), u(2))
		return resStr(ent, err, false)
	case "scan":
		return e.scan(db)
	case "gc":
		b, f := uint32(u(1)), uint32(u(2))
		live, dead := 0, 0
		if int(b) < e.B {
			live, dead = e.classify(b, f)
		}
		r := gcErr(db.VerifVlogRewrite(b, f))
		if r == "ok" || r == "emptykey" {
			switch {
			case live > 0 && dead > 0:
				e.gcStats["moved+dead"]++
				e.caseGC["moved+dead"]++
			case live > 0:
				e.gcStats["moved-only"]++
				e.caseGC["moved-only"]++
			case dead > 0:
				e.gcStats["dead-only"]++
				e.caseGC["dead-only"]++
			default:
				e.gcStats["empty-file"]++
				e.caseGC["empty-file"]++
			}
		} else {
			e.gcStats[r]++
		}
		return r
	case "gc.test":
		b, f := uint32(u(1)), uint32(u(2))
		e.yieldAt = make(chan int, 1)
		e.release = make(chan struct{})
		e.gcResult = make(chan error, 1)
		rel, at := e.release, e.yieldAt
		NoKV.VerifSetVlogYield(func(point string, n int) {
			if point == "rewrite.before-reinsert" {
				at <- n
				<-rel
			}
		})
		go func() { e.gcResult <- db.VerifVlogRewrite(b, f) }()
		select {
		case n := <-e.yieldAt:
			return fmt.Sprintf("live=%d", n)
		case err := <-e.gcResult:
			NoKV.VerifSetVlogYield(nil)
			e.release = nil
			return gcErr(err)
		case <-time.After(10 * time.Second):
			return "timeout"
		}
	case "gc.finish":
		if e.release == nil {
			return "nopending"
		}
		NoKV.VerifSetVlogYield(nil)
		close(e.release)
		e.release = nil
		select {
		case err := <-e.gcResult:
			return gcErr(err)
		case <-time.After(10 * time.Second):
			return "timeout"
		}
	case "reopen":
		e.close()
		e.openDB()
		return "ok"
	case "lsm":
		l := db.VerifLSM()
		switch t[1] {
		case "rotate":
			l.VerifRotate()
			e.gcStats["lsm-rotate"]++
			return "ok"
		case "flush":
			for {
				did, err := l.VerifFlushOldest()
				if err != nil {
					return okErr(err)
				}
				if !did {
					break
				}
				e.gcStats["lsm-flushed-memtable"]++
			}
			return "ok"
		case "l0move", "drain", "keep":
			res, err := l.VerifCompact(t[1])
			if err != nil {
				return okErr(err)
			}
			e.gcStats["lsm-"+t[1]+"-"+res]++
			return "ok"
		}
		return "badop"
	case "orphan", "crash":
		_, err := db.VerifVlogAppendOrphan(kv.CFDefault, hlib.UnHex(t[1]), u(2), hlib.UnHex(t[3]))
		if err != nil && !strings.Contains(err.Error(), "missing value pointer") {
			return okErr(err)
		}
		if t[0] == "crash" {
			e.close()
			e.openDB()
		}
		return "ok"
	case "image":
		return e.image()
	case "files":
		return filesStr(db)
	case "recs":
		b, f := uint32(u(1)), uint32(u(2))
		if int(b) >= e.B {
			return "nofile"
		}
		found := false
		for _, x := range db.VerifVlogFiles()[b] {
			if x == f {
				found = true
			}
		}
		if !found {
			return "nofile"
		}
		recs, err := db.VerifVlogRecords(b, f)
		if err != nil {
			return okErr(err)
		}
		var s []string
		for _, r := range recs {
			s = append(s, fmt.Sprintf("%s@%d:%d:%d:%d", hlib.Hex(r.UserKey), r.Version, len(r.Value), r.Offset, r.Len))
		}
		if len(s) == 0 {
			return "-"
		}
		return strings.Join(s, ",")
	case "man":
		b := uint32(u(1))
		fids, valid := db.VerifVlogManifest(b)
		var s []string
		for i, f := range fids {
			v := "0"
			if valid[i] {
				v = "1"
			}
			s = append(s, fmt.Sprintf("%d:%s", f, v))
		}
		if len(s) == 0 {
			return "-"
		}
		return strings.Join(s, ",")
	case "ptr":
		found, isPtr, vp, meta, _, _, err := db.VerifVlogLookup(kv.CFDefault, hlib.UnHex(t[1]), u(2))
		if err != nil {
			return okErr(err)
		}
		if !found {
			return "none"
		}
		if meta&kv.BitDelete != 0 {
			return "tomb"
		}
		if !isPtr {
			return "inl"
		}
		return fmt.Sprintf("ptr:%d:%d:%d:%d", vp.Bucket, vp.Fid, vp.Offset, vp.Len)
	}
	return "badop"
}

func main() {
	// every Open allocates 64 MiB memtable arenas; with the default GOGC the collector runs on
	// almost every open.  Collect only when the heap reaches the limit.
	if os.Getenv("VLOG_TRACE") == "" {
		if null, err := os.OpenFile(os.DevNull, os.O_WRONLY, 0); err == nil {
			// utils.Err prints every reconcile removal
			_ = syscall.Dup2(int(null.Fd()), 2)
			for _, a := range os.Args {
				if a == "-out" {
					_ = syscall.Dup2(int(null.Fd()), 1)
				}
			}
		}
	}
	for _, a := range os.Args {
		if a == "-vlog-child" {
			childMain()
			return
		}
	}
	if os.Getenv("GOGC") == "" {
		debug.SetGCPercent(-1)
		debug.SetMemoryLimit(3 << 30)
	}
	for i, a := range os.Args {
		if a == "-seed" && i+1 < len(os.Args) {
			seedSalt, _ = strconv.ParseUint(os.Args[i+1], 10, 64)
		}
	}
	hlib.Main("vlog", &engine{})
}

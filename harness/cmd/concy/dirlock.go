package main

// C33: real utils.AcquireDirLock / DirLock.Release (real flock(2), real files) called from
// scheduled goroutines of one process.

import (
	"errors"
	"fmt"
	"os"
	"path/filepath"
	"strconv"
	"strings"
	"sync"
	"sync/atomic"

	NoKV "github.com/feichai0017/NoKV"
	"github.com/feichai0017/NoKV/utils"
	"github.com/feichai0017/NoKV/vfs"

	"verif/harness/hlib"
)

type dirLockEngine struct{}

func (e *dirLockEngine) Rule() string {
	return "C33: 2-4 contenders on one directory, each calling AcquireDirLock and (on success) Release and then Release a second time; in a third of the cases one contender runs on a vfs.FaultFS whose first unlink of LOCK fails (the first Release reports an error, the second is the caller's retry); interleaved at every system call (open / flock / return / the three effects of Release, also of a repeated Release) by a random schedule biased towards switching inside Release; non-trivial = some contender took a step while another one was inside Release"
}

func (e *dirLockEngine) Gen(r *hlib.Rand, tier string) []string {
	ops := []string{"dl.new"}
	nthr := 2 + r.Intn(3)
	faulty := -1
	if r.Chance(35) {
		faulty = r.Intn(2) // an early contender, so that others can come after its failed Release
	}
	remaining := map[int]int{} // steps a thread can still take at most
	var live []int
	next := 0
	total := 14 + r.Intn(36)
	for i := 0; i < total; i++ {
		if next < nthr && (len(live) == 0 || r.Chance(25)) {
			if next == faulty {
				ops = append(ops, fmt.Sprintf("dl.spawnf %d", next))
			} else {
				ops = append(ops, fmt.Sprintf("dl.spawn %d", next))
			}
			live = append(live, next)
			remaining[next] = 10 // 3 of Acquire, 3 of Release, up to 4 of the second Release
			next++
			continue
		}
		if len(live) == 0 {
			break
		}
		if r.Chance(8) {
			ops = append(ops, "dl.stat")
			continue
		}
		j := r.Intn(len(live))
		t := live[j]
		burst := 1
		if r.Chance(30) {
			burst = 1 + r.Intn(3)
		}
		for b := 0; b < burst && remaining[t] > 0; b++ {
			ops = append(ops, fmt.Sprintf("dl.step %d", t))
			remaining[t]--
		}
		if remaining[t] == 0 {
			live = append(live[:j], live[j+1:]...)
		}
	}
	// let everybody finish
	for _, t := range live {
		for k := 0; k < remaining[t]; k++ {
			ops = append(ops, fmt.Sprintf("dl.step %d", t))
		}
	}
	ops = append(ops, "dl.stat")
	if r.Chance(8) {
		ops = append(ops, "dl.dbclose") // a real DB: nobody gets its directory before Close has returned
	}
	return ops
}

func (e *dirLockEngine) Nontrivial(ops, impl, model, spec []string) bool {
	inRelease := map[string]bool{}
	for i, op := range ops {
		f := strings.Fields(op)
		if f[0] != "dl.step" {
			continue
		}
		for other := range inRelease {
			if other != f[1] && inRelease[other] && !strings.HasSuffix(impl[i], ":finished") {
				return true
			}
		}
		switch {
		case strings.HasSuffix(impl[i], ":rel1"), strings.HasSuffix(impl[i], ":rel2"):
			inRelease[f[1]] = true
		case strings.HasSuffix(impl[i], ":done"), strings.HasSuffix(impl[i], ":redone"), strings.HasSuffix(impl[i], ":noop"):
			inRelease[f[1]] = false
		case strings.HasSuffix(impl[i], ":rerel1"), strings.HasSuffix(impl[i], ":rerel2"):
			inRelease[f[1]] = true
		}
	}
	return false
}

func (e *dirLockEngine) Exec(ops []string) []string {
	base := ""
	if st, err := os.Stat("/dev/shm"); err == nil && st.IsDir() {
		base = "/dev/shm" // AcquireDirLock fsyncs the LOCK file; tmpfs keeps the run fast
	}
	dir, err := os.MkdirTemp(base, "verif-dirlock-")
	if err != nil {
		dir, err = os.MkdirTemp("", "verif-dirlock-")
	}
	if err != nil {
		panic(err)
	}
	defer os.RemoveAll(dir)
	work := filepath.Join(dir, "db")
	sched.reset()
	held := map[int]bool{}
	second := map[int]bool{}  // the contender is inside (or past) its second Release
	yielded := map[int]bool{} // … and that Release reached a yield point
	out := make([]string, len(ops))
	for i, op := range ops {
		f := strings.Fields(op)
		switch {
		case f[0] == "dl.new" && len(f) == 1:
			sched.reset()
			held = map[int]bool{}
			second, yielded = map[int]bool{}, map[int]bool{}
			os.RemoveAll(work)
			out[i] = "ok"
		case (f[0] == "dl.spawn" || f[0] == "dl.spawnf") && len(f) == 2:
			tid, err := strconv.Atoi(f[1])
			if err != nil {
				out[i] = "bad-op"
				continue
			}
			var fs vfs.FS
			if f[0] == "dl.spawnf" {
				// the first unlink of LOCK through this contender's file system fails (transient I/O error)
				policy := vfs.NewFaultPolicy(vfs.FailOnceRule(vfs.OpRemove, filepath.Join(work, "LOCK"), errors.New("verif: transient unlink failure")))
				fs = vfs.NewFaultFSWithPolicy(vfs.OSFS{}, policy)
			}
			ok := sched.spawn(tid, func() string {
				l, err := utils.AcquireDirLock(work, fs)
				if err != nil {
					if strings.Contains(err.Error(), "already in use") {
						return "failed"
					}
					return "failed:" + err.Error()
				}
				yield("held")
				_ = l.Release() // may report the injected unlink failure
				yield("released")
				_ = l.Release() // Release called twice / the caller's retry
				return "released2"
			})
			if ok {
				out[i] = "ok"
			} else {
				out[i] = "bad-op"
			}
		case f[0] == "dl.step" && len(f) == 2:
			tid, _ := strconv.Atoi(f[1])
			p, ok := sched.step(tid)
			if !ok {
				out[i] = "ok:finished"
				continue
			}
			name := p
			switch p {
			case "dirlock.acquire.opened":
				name = "opened"
			case "dirlock.acquire.locked":
				name = "locked"
			case "dirlock.release.1":
				name = "rel1"
				if second[tid] {
					name, yielded[tid] = "rerel1", true
				}
			case "dirlock.release.2":
				name = "rel2"
				if second[tid] {
					name, yielded[tid] = "rerel2", true
				}
			case "return:failed":
				name = "failed"
			case "released":
				name = "done"
				second[tid] = true
			case "return:released2":
				name = "noop"
				if yielded[tid] {
					name = "redone"
				}
			}
			held[tid] = name == "held"
			n := 0
			for _, h := range held {
				if h {
					n++
				}
			}
			flag := "ok"
			if n >= 2 {
				flag = "multi"
			}
			out[i] = flag + ":" + name
		case f[0] == "dl.dbclose" && len(f) == 1:
			out[i] = dbCloseProbe(dir)
		case f[0] == "dl.stat" && len(f) == 1:
			if _, err := os.Stat(filepath.Join(work, "LOCK")); err == nil {
				out[i] = "exists"
			} else {
				out[i] = "absent"
			}
		default:
			out[i] = "bad-op"
		}
	}
	return out
}

// dbCloseProbe opens a real DB on a FaultFS whose hook is a probe: on every file operation the
// closing DB performs on a file of its working directory (other than LOCK itself) a second
// contender tries AcquireDirLock.  It must never succeed while the DB is still closing, and must
// succeed once Close has returned.
func dbCloseProbe(base string) (res string) {
	defer func() {
		if r := recover(); r != nil {
			res = fmt.Sprintf("panic:%v", r)
		}
	}()
	dir, err := os.MkdirTemp(base, "dbclose-")
	if err != nil {
		return "harness-error"
	}
	defer os.RemoveAll(dir)
	lockPath := filepath.Join(dir, "LOCK")
	var (
		armed    atomic.Bool
		dbp      atomic.Pointer[NoKV.DB]
		mu       sync.Mutex
		probes   int
		intruder *utils.DirLock
	)
	hook := func(op vfs.Op, path string) error {
		if !armed.Load() || path == lockPath || !strings.HasPrefix(path, dir) {
			return nil
		}
		db := dbp.Load()
		if db == nil {
			return nil
		}
		mu.Lock()
		defer mu.Unlock()
		if intruder != nil || db.IsClosed() {
			return nil
		}
		probes++
		if l, err := utils.AcquireDirLock(dir, nil); err == nil {
			intruder = l
		}
		return nil
	}
	opt := NoKV.NewDefaultOptions()
	opt.WorkDir = dir
	opt.FS = vfs.NewFaultFS(vfs.OSFS{}, hook)
	opt.EnableWALWatchdog = false
	opt.ValueLogGCInterval = 0
	db := NoKV.Open(opt)
	dbp.Store(db)
	if err := db.Set([]byte("verif-c33-key"), []byte("verif-c33-value")); err != nil {
		_ = db.Close()
		return "set-error"
	}
	armed.Store(true)
	closeErr := db.Close()
	armed.Store(false)
	mu.Lock()
	got, n := intruder, probes
	mu.Unlock()
	if got != nil {
		_ = got.Release()
		return "intruder"
	}
	if closeErr != nil {
		return "close-error"
	}
	if n == 0 {
		return "noprobes"
	}
	l, err := utils.AcquireDirLock(dir, nil)
	if err != nil {
		return "held-after-close"
	}
	_ = l.Release()
	return "ok"
}

// Correspondence harness for the yield-point driven part of the Conc engine: C33 (directory
// lock) and C32 (watermark).  It needs the verif-tag yield hook of package utils
// (utils/verif_yield.go + the verifYield(...) insertions in dirlock.go / watermarker.go); the
// engines that need no hook (C27, C20) live in harness/cmd/conc so that they build without it.
//
// A thread of the model is a goroutine here; `verifYield(point)` parks the calling goroutine and
// reports the point, and an op `… step <tid>` releases exactly that goroutine until it parks
// again or returns.  Only one goroutine runs at a time, so a schedule is deterministic.
package main

import (
	"bytes"
	"encoding/json"
	"flag"
	"fmt"
	"os"
	"path/filepath"
	"runtime"
	"strconv"
	"strings"
	"sync"
	"sync/atomic"
	"time"

	"github.com/feichai0017/NoKV/utils"

	"verif/harness/hlib"
)

var prop = flag.String("prop", "C33", "property: C33|C32")

func goid() uint64 {
	var buf [64]byte
	n := runtime.Stack(buf[:], false)
	f := bytes.Fields(buf[:n])
	if len(f) < 2 {
		return 0
	}
	id, _ := strconv.ParseUint(string(f[1]), 10, 64)
	return id
}

const stuckAfter = 120 * time.Second // generous: a loaded machine must not turn a slow step into an alarm

// ---- scheduler

type event struct {
	point string // yield point name, or "return:<result>"
}

type sthread struct {
	resume chan struct{}
	events chan event
	over   bool
}

type scheduler struct {
	mu  sync.Mutex
	byG map[uint64]*sthread
	thr map[int]*sthread
}

var sched = &scheduler{byG: map[uint64]*sthread{}, thr: map[int]*sthread{}}

// wholeCall is set while the harness goroutine itself runs a call to completion: every scheduled
// goroutine is parked then, so the caller of the hook can only be the harness goroutine.
var wholeCall atomic.Bool

func init() {
	utils.VerifYieldHook = func(point string) {
		if wholeCall.Load() {
			return
		}
		sched.mu.Lock()
		t := sched.byG[goid()]
		sched.mu.Unlock()
		if t == nil {
			return // not a scheduled goroutine
		}
		t.events <- event{point}
		<-t.resume
	}
}

// yield parks the calling scheduled goroutine at a harness-level point.
func yield(point string) { utils.VerifYieldHook(point) }

func (s *scheduler) reset() {
	s.mu.Lock()
	// goroutines of earlier cases stay parked forever on their private channels; forget them
	s.byG = map[uint64]*sthread{}
	s.thr = map[int]*sthread{}
	s.mu.Unlock()
}

// spawn starts body in a scheduled goroutine; it first parks at "spawned".
func (s *scheduler) spawn(tid int, body func() string) bool {
	s.mu.Lock()
	if _, dup := s.thr[tid]; dup {
		s.mu.Unlock()
		return false
	}
	t := &sthread{resume: make(chan struct{}), events: make(chan event, 1)}
	s.thr[tid] = t
	s.mu.Unlock()
	reg := make(chan struct{})
	go func() {
		s.mu.Lock()
		s.byG[goid()] = t
		s.mu.Unlock()
		close(reg)
		yield("spawned")
		res := body()
		t.events <- event{"return:" + res}
	}()
	<-reg
	s.wait(t)
	return true
}

func (s *scheduler) wait(t *sthread) string {
	select {
	case e := <-t.events:
		if strings.HasPrefix(e.point, "return:") {
			t.over = true
		}
		return e.point
	case <-time.After(stuckAfter):
		return "stuck"
	}
}

// step releases thread tid until its next yield / return.
func (s *scheduler) step(tid int) (string, bool) {
	s.mu.Lock()
	t := s.thr[tid]
	s.mu.Unlock()
	if t == nil || t.over {
		return "", false
	}
	t.resume <- struct{}{}
	return s.wait(t), true
}

func main() {
	for i, a := range os.Args {
		if a == "-prop" && i+1 < len(os.Args) {
			*prop = os.Args[i+1]
		}
		if strings.HasPrefix(a, "-prop=") {
			*prop = strings.TrimPrefix(a, "-prop=")
		}
	}
	if *prop == "C32" {
		appendWatermarkShape()
	}
	switch *prop {
	case "C33":
		hlib.Main("conc/C33", &dirLockEngine{})
	case "C32":
		hlib.Main("conc/C32", &wmEngine{})
	default:
		fmt.Fprintln(os.Stderr, "unknown -prop")
		os.Exit(2)
	}
}

// appendWatermarkShape passes the two extracted facts wm.tracksZero / wm.holdsAtDone to the Lean
// driver by extending the -cfg line.  They are not in props/C32.json's `expected` (both values are
// legitimate for C32: every C32 theorem holds for either), so ./check does not put them there.
func appendWatermarkShape() {
	exe, err := os.Executable()
	if err != nil {
		return
	}
	data, err := os.ReadFile(filepath.Join(filepath.Dir(filepath.Dir(exe)), "work", "facts_conc.json"))
	if err != nil {
		return
	}
	var fx struct {
		Facts map[string]string `json:"facts"`
	}
	if json.Unmarshal(data, &fx) != nil {
		return
	}
	extra := ""
	for _, k := range []string{"wm.tracksZero", "wm.holdsAtDone"} {
		if v := fx.Facts[k]; v == "true" || v == "false" {
			extra += " " + k + "=" + v
		}
	}
	for i, a := range os.Args {
		if a == "-cfg" && i+1 < len(os.Args) && strings.HasPrefix(os.Args[i+1], "cfg") {
			os.Args[i+1] += extra
		}
	}
}

package main

// C32: the real utils.WaterMark.  Whole calls run on the harness goroutine (their yield points
// are no-ops there); scheduled calls run in goroutines parked at wm.begin.mid / wm.advance.loop.

import (
	"context"
	"fmt"
	"runtime"
	"sort"
	"strconv"
	"strings"
	"time"

	"github.com/feichai0017/NoKV/utils"

	"verif/harness/hlib"
)

type wmEngine struct{}

func (e *wmEngine) Rule() string {
	return "C32: Begin/Done/WaitForMark(non-blocking) call sequences with indices begun above lastIndex, occasionally inside (doneUntil,lastIndex] or >= 65536 ahead (window rebuild), Done of begun indices in random order (also twice / never begun), mixed with 1-3 scheduled Begin/Done calls stepped through the yield points wm.begin.mid and wm.advance.loop while whole calls run in between; non-trivial = a scheduled call was parked at a yield point while another call changed doneUntil or lastIndex"
}

func (e *wmEngine) Gen(r *hlib.Rand, tier string) []string {
	ops := []string{"wm.new"}
	last := uint64(0)         // generator's view of lastIndex
	var open []uint64         // begun, not yet done (by whole calls or spawned)
	held := map[uint64]bool{} // begun by a completed whole call and not done: the mark is below it
	type sth struct {
		tid   int
		steps int
	}
	var live []*sth
	nextTid := 0
	// quick tier: short cases, no window rebuild (the model walks a 65536 gap index by index);
	// the thorough tier has the long cases and the far jumps
	n := 6 + r.Intn(12)
	maxLive := 2
	farLeft := 0
	if tier == "thorough" {
		n = 8 + r.Intn(25)
		maxLive = 3
		if r.Chance(15) {
			farLeft = 1
		}
	}
	lastDone := uint64(0)
	// window boundaries: settle the mark at m, then begin an index exactly 65536*2^k (-1..+2) ahead of
	// it, alone or as the last element of a batch whose first elements are not yet published.  These
	// are whole calls: a rebuild is cheap, so they are part of the quick tier.
	if r.Chance(35) {
		m := uint64(r.Intn(4))
		if r.Chance(20) {
			m = uint64(50 + r.Intn(100))
		}
		for i := uint64(1); i <= m; i++ {
			ops = append(ops, fmt.Sprintf("wm.begin %d", i), fmt.Sprintf("wm.done %d", i))
		}
		k := uint(r.Intn(2))
		if r.Chance(15) {
			k = 2
		}
		far := m + (uint64(65536) << k) + uint64(r.Intn(4)) - 1
		switch r.Intn(4) {
		case 0, 1:
			ops = append(ops, fmt.Sprintf("wm.begin %d", far))
			open = append(open, far)
			held[far] = true
		case 2:
			a := m + 2 + uint64(r.Intn(8))
			ops = append(ops, fmt.Sprintf("wm.beginmany %d,%d,%d", a, a+1, far))
			open = append(open, a, a+1, far)
			held[a], held[a+1], held[far] = true, true, true
		default:
			if tier == "thorough" || r.Chance(30) {
				// scheduled variant: Begin(a) has counted but not published when the far index rebuilds
				a := m + 2
				ops = append(ops, fmt.Sprintf("wm.spawn 0 begin %d", a), "wm.step 0", "wm.step 0", // parked at wm.begin.mid
					fmt.Sprintf("wm.begin %d", far), "wm.step 0", "wm.step 0", "wm.step 0", "wm.step 0", "wm.step 0", "wm.step 0")
				open = append(open, a, far)
				nextTid = 1
			} else {
				ops = append(ops, fmt.Sprintf("wm.beginmany %d,%d", m+1, far))
				open = append(open, m+1, far)
				held[m+1], held[far] = true, true
			}
		}
		last = far
		ops = append(ops, fmt.Sprintf("wm.wait %d", far))
	}
	// several WaitForMark calls on ONE pending index: some cancelled (at once or after parking), the
	// others must stay parked until the index is done
	waiterCase := r.Chance(30)
	nextW := 0
	waitOps := func(idx uint64) {
		k := 2 + r.Intn(2)
		first := nextW
		for j := 0; j < k; j++ {
			ops = append(ops, fmt.Sprintf("wm.waitstart %d %d", nextW, idx))
			nextW++
		}
		ops = append(ops, "wm.waiters", fmt.Sprintf("wm.waitcancel %d", first+r.Intn(k)), "wm.waiters")
		if r.Chance(40) {
			ops = append(ops, fmt.Sprintf("wm.waitcancel %d", first+r.Intn(k)), "wm.waiters")
		}
	}
	beginIdx := func() uint64 {
		x := r.Intn(100)
		switch {
		case x < 70:
			return last + 1 + uint64(r.Intn(3))
		case x < 80:
			// non-monotone begin inside (doneUntil, lastIndex]: only above an index that is held open
			lowest := uint64(0)
			for h := range held {
				if lowest == 0 || h < lowest {
					lowest = h
				}
			}
			if lowest != 0 && last > lowest && last-lowest < 1000 {
				return lowest + 1 + uint64(r.Intn(int(last-lowest)))
			}
			return last + 1
		case x < 88 && farLeft > 0:
			farLeft--                                 // one far jump per case at most: the model walks the gap index by index
			return last + 65536 + uint64(r.Intn(500)) // forces a window rebuild
		default:
			return last + 1
		}
	}
	for i := 0; i < n; i++ {
		x := r.Intn(100)
		switch {
		case x < 4:
			// index 0: ignored by addIndex, or counted like any other index (fact wm.tracksZero)
			if r.Bool() {
				ops = append(ops, "wm.begin 0")
			} else {
				ops = append(ops, "wm.done 0")
			}
		case x < 9 && lastDone > 0:
			// begin again the index that was finished last: it is often equal to the mark, where a
			// pending count holds the mark or not (fact wm.holdsAtDone); outside C32's spec domain
			ops = append(ops, fmt.Sprintf("wm.begin %d", lastDone))
			open = append(open, lastDone)
		case x < 13:
			// a sorted batch
			a := beginIdx()
			if a > last+1000 {
				a = last + 1
			}
			b := a + 1 + uint64(r.Intn(3))
			ops = append(ops, fmt.Sprintf("wm.beginmany %d,%d", a, b))
			open = append(open, a, b)
			held[a], held[b] = true, true
			if b > last {
				last = b
			}
		case x < 16 && len(open) >= 2:
			a, b := open[0], open[1]
			if a > b {
				a, b = b, a
			}
			ops = append(ops, fmt.Sprintf("wm.donemany %d,%d", a, b))
			delete(held, a)
			delete(held, b)
			lastDone = b
			open = open[2:]
		case x < 30:
			idx := beginIdx()
			ops = append(ops, fmt.Sprintf("wm.begin %d", idx))
			open = append(open, idx)
			held[idx] = true
			if waiterCase && nextW < 9 && r.Chance(50) {
				waitOps(idx)
			}
			if idx > last {
				last = idx
			}
		case x < 55 && len(open) > 0:
			j := r.Intn(len(open))
			ops = append(ops, fmt.Sprintf("wm.done %d", open[j]))
			delete(held, open[j])
			lastDone = open[j]
			if !r.Chance(8) { // sometimes Done twice
				open = append(open[:j], open[j+1:]...)
			}
		case x < 60:
			ops = append(ops, fmt.Sprintf("wm.done %d", last+1+uint64(r.Intn(3)))) // never begun
		case x < 68:
			ops = append(ops, fmt.Sprintf("wm.wait %d", uint64(r.Intn(int(last%1000)+3))))
		case x < 80 && len(live) < maxLive:
			kind := "begin"
			var idx uint64
			if r.Chance(60) || len(open) == 0 {
				idx = beginIdx()
				if idx > last+1000 {
					idx = last + 1 // scheduled calls stay close: every loop head is a scheduler hand-off
				}
				open = append(open, idx)
				if idx > last {
					last = idx
				}
			} else {
				kind = "done"
				j := r.Intn(len(open))
				idx = open[j]
				delete(held, idx)
				open = append(open[:j], open[j+1:]...)
			}
			ops = append(ops, fmt.Sprintf("wm.spawn %d %s %d", nextTid, kind, idx))
			if kind == "begin" {
				// first micro-step now: later its index could be at or below the mark (outside the explored domain)
				ops = append(ops, fmt.Sprintf("wm.step %d", nextTid))
			}
			live = append(live, &sth{tid: nextTid, steps: 0})
			nextTid++
		case len(live) > 0:
			t := live[r.Intn(len(live))]
			k := 1 + r.Intn(3)
			for j := 0; j < k; j++ {
				ops = append(ops, fmt.Sprintf("wm.step %d", t.tid))
			}
		default:
			ops = append(ops, fmt.Sprintf("wm.wait %d", last))
		}
		// far-apart indices make the unscheduled region long; keep scheduled threads from walking it
		if false {
			// finish every scheduled call before the gap has to be walked
			for _, t := range live {
				for j := 0; j < 12; j++ {
					ops = append(ops, fmt.Sprintf("wm.step %d", t.tid))
				}
			}
		}
	}
	for _, t := range live {
		for j := 0; j < 12; j++ {
			ops = append(ops, fmt.Sprintf("wm.step %d", t.tid))
		}
	}
	ops = append(ops, fmt.Sprintf("wm.wait %d", last))
	if nextW > 0 {
		// finish what is still open, then every waiter that was not cancelled has returned nil
		for _, idx := range open {
			ops = append(ops, fmt.Sprintf("wm.done %d", idx))
		}
		ops = append(ops, "wm.waiters")
	}
	return ops
}

func (e *wmEngine) Nontrivial(ops, impl, model, spec []string) bool {
	parked := 0
	state := map[string]string{}
	lastObs := ""
	for i, op := range ops {
		f := strings.Fields(op)
		obs := ""
		if j := strings.Index(impl[i], " du="); j >= 0 {
			obs = impl[i][j:]
		}
		switch f[0] {
		case "wm.step":
			was := state[f[1]]
			switch {
			case strings.Contains(impl[i], ":begin.mid"), strings.Contains(impl[i], ":advance.loop"):
				if was == "" {
					parked++
				}
				state[f[1]] = "parked"
			case strings.Contains(impl[i], ":return"), strings.Contains(impl[i], ":finished"):
				if was == "parked" {
					parked--
				}
				state[f[1]] = "over"
			}
		case "wm.begin", "wm.done":
			if parked > 0 && obs != lastObs {
				return true
			}
		}
		if obs != "" {
			lastObs = obs
		}
	}
	return false
}

func (e *wmEngine) Exec(ops []string) []string {
	sched.reset()
	w := &utils.WaterMark{Name: "verif"}
	w.Init(nil)
	nBegun, nDone := map[uint64]int{}, map[uint64]int{}
	type pend struct {
		kind  string
		idx   uint64
		first bool
	}
	pending := map[int]*pend{}
	waiters := map[int]*wmWaiter{}
	reply := func(what string) string {
		du := w.DoneUntil()
		flag := "ok"
		for j, b := range nBegun {
			if j <= du && nDone[j] < b {
				flag = "passed"
			}
		}
		return fmt.Sprintf("%s:%s du=%d li=%d", flag, what, du, w.LastIndex())
	}
	out := make([]string, len(ops))
	defer func() {
		for _, x := range waiters {
			x.cancel()
		}
	}()
	for i, op := range ops {
		f := strings.Fields(op)
		switch {
		case f[0] == "wm.new" && len(f) == 1:
			sched.reset()
			w = &utils.WaterMark{Name: "verif"}
			w.Init(nil)
			nBegun, nDone = map[uint64]int{}, map[uint64]int{}
			pending = map[int]*pend{}
			for _, x := range waiters {
				x.cancel()
			}
			waiters = map[int]*wmWaiter{}
			out[i] = "ok"
		case (f[0] == "wm.begin" || f[0] == "wm.done") && len(f) == 2:
			idx, err := strconv.ParseUint(f[1], 10, 64)
			if err != nil {
				out[i] = "bad-op"
				continue
			}
			wholeCall.Store(true)
			if f[0] == "wm.begin" {
				if idx > w.DoneUntil() { // a Begin at or below the mark is outside the property's domain
					nBegun[idx]++
				}
				w.Begin(idx)
			} else {
				nDone[idx]++
				w.Done(idx)
			}
			wholeCall.Store(false)
			out[i] = reply("done")
		case (f[0] == "wm.beginmany" || f[0] == "wm.donemany") && len(f) == 2:
			var idxs []uint64
			bad := false
			if f[1] != "-" {
				for _, x := range strings.Split(f[1], ",") {
					v, err := strconv.ParseUint(x, 10, 64)
					if err != nil {
						bad = true
					}
					idxs = append(idxs, v)
				}
			}
			if bad {
				out[i] = "bad-op"
				continue
			}
			wholeCall.Store(true)
			if f[0] == "wm.beginmany" {
				du := w.DoneUntil()
				for _, idx := range idxs {
					if idx > du { // a Begin at or below the mark is outside the property's domain
						nBegun[idx]++
					}
				}
				w.BeginMany(idxs)
			} else {
				for _, idx := range idxs {
					nDone[idx]++
				}
				w.DoneMany(idxs)
			}
			wholeCall.Store(false)
			out[i] = reply("done")
		case f[0] == "wm.waitstart" && len(f) == 3:
			wid, err1 := strconv.Atoi(f[1])
			idx, err2 := strconv.ParseUint(f[2], 10, 64)
			if _, dup := waiters[wid]; dup || err1 != nil || err2 != nil {
				out[i] = "bad-op"
				continue
			}
			ctx, cancel := context.WithCancel(context.Background())
			x := &wmWaiter{idx: idx, cancel: cancel, res: make(chan error, 1)}
			waiters[wid] = x
			ready := make(chan uint64)
			wmk := w
			go func() {
				ready <- goid()
				x.res <- wmk.WaitForMark(ctx, idx)
			}()
			x.gid = <-ready
			x.settle(w)
			if x.state == 1 {
				out[i] = reply("nil")
			} else {
				out[i] = reply("parked")
			}
		case f[0] == "wm.waitcancel" && len(f) == 2:
			wid, _ := strconv.Atoi(f[1])
			x := waiters[wid]
			if x == nil {
				out[i] = "bad-op"
				continue
			}
			if x.state != 0 {
				out[i] = reply("notparked")
				continue
			}
			x.cancel()
			select {
			case err := <-x.res:
				if err != nil {
					x.state = 2
					out[i] = reply("ctxerr")
				} else {
					x.state = 1
					out[i] = reply("nil-after-cancel")
				}
			case <-time.After(stuckAfter):
				panic("verif: cancelled waiter did not return (stuck)")
			}
		case f[0] == "wm.waiters" && len(f) == 1:
			var ids []int
			for id := range waiters {
				ids = append(ids, id)
			}
			sort.Ints(ids)
			lists := [3][]string{}
			flag := "ok"
			for _, id := range ids {
				x := waiters[id]
				x.settle(w)
				if x.early {
					flag = "early" // returned nil before the mark reached its index
				}
				lists[x.state] = append(lists[x.state], strconv.Itoa(id))
			}
			str := func(l []string) string {
				if len(l) == 0 {
					return "-"
				}
				return strings.Join(l, ",")
			}
			out[i] = fmt.Sprintf("%s:parked=%s nil=%s err=%s", flag, str(lists[0]), str(lists[1]), str(lists[2]))
		case f[0] == "wm.wait" && len(f) == 2:
			idx, _ := strconv.ParseUint(f[1], 10, 64)
			ctx, cancel := context.WithCancel(context.Background())
			cancel()
			if err := w.WaitForMark(ctx, idx); err == nil {
				out[i] = reply("ok")
			} else {
				out[i] = reply("pending")
			}
		case f[0] == "wm.spawn" && len(f) == 4:
			tid, err1 := strconv.Atoi(f[1])
			idx, err2 := strconv.ParseUint(f[3], 10, 64)
			if err1 != nil || err2 != nil || idx == 0 || tid >= 1000000 || (f[2] != "begin" && f[2] != "done") {
				out[i] = "bad-op"
				continue
			}
			kind, wm := f[2], w
			ok := sched.spawn(tid, func() string {
				if kind == "begin" {
					wm.Begin(idx)
				} else {
					wm.Done(idx)
				}
				return "ok"
			})
			if !ok {
				out[i] = "bad-op"
				continue
			}
			pending[tid] = &pend{kind: kind, idx: idx, first: true}
			out[i] = "ok"
		case f[0] == "wm.step" && len(f) == 2:
			tid, _ := strconv.Atoi(f[1])
			duBefore := w.DoneUntil()
			p, ok := sched.step(tid)
			if !ok {
				out[i] = reply("finished")
				continue
			}
			if pd := pending[tid]; pd != nil && pd.first {
				// the first segment contains the call's first micro-step
				pd.first = false
				if pd.kind == "begin" {
					if pd.idx > duBefore {
						nBegun[pd.idx]++
					}
				} else {
					nDone[pd.idx]++
				}
			}
			name := p
			switch p {
			case "wm.begin.mid":
				name = "begin.mid"
			case "wm.advance.loop":
				name = "advance.loop"
			case "return:ok":
				name = "return"
			}
			out[i] = reply(name)
		default:
			out[i] = "bad-op"
		}
	}
	return out
}

// goroutineState returns the wait state of goroutine g ("select", "running", ...; "" = gone).
func goroutineState(g uint64) string {
	buf := make([]byte, 1<<20)
	for {
		n := runtime.Stack(buf, true)
		if n < len(buf) {
			buf = buf[:n]
			break
		}
		buf = make([]byte, 2*len(buf))
	}
	prefix := fmt.Sprintf("goroutine %d [", g)
	for _, block := range strings.Split(string(buf), "\n\n") {
		if strings.HasPrefix(block, prefix) {
			st := block[len(prefix):]
			if i := strings.IndexAny(st, ",]"); i >= 0 {
				st = st[:i]
			}
			return st
		}
	}
	return ""
}

type wmWaiter struct {
	idx    uint64
	gid    uint64
	cancel context.CancelFunc
	res    chan error
	state  int // 0 parked, 1 nil, 2 ctx error
	early  bool
}

// settle waits until the waiter has returned or is parked in WaitForMark's select.
func (x *wmWaiter) settle(w *utils.WaterMark) {
	deadline := time.Now().Add(stuckAfter)
	for x.state == 0 {
		select {
		case err := <-x.res:
			if err == nil {
				x.state = 1
				x.early = w.DoneUntil() < x.idx
			} else {
				x.state = 2
			}
			return
		default:
		}
		if goroutineState(x.gid) == "select" {
			// once more: it may have been readied between the two observations
			select {
			case err := <-x.res:
				if err == nil {
					x.state = 1
					x.early = w.DoneUntil() < x.idx
				} else {
					x.state = 2
				}
			default:
			}
			return
		}
		if time.Now().After(deadline) {
			panic("verif: waiter neither returned nor parked (stuck)")
		}
		time.Sleep(50 * time.Microsecond)
	}
}

//go:build verifhs

package main

import (
	"fmt"

	NoKV "github.com/feichai0017/NoKV"
)

// Only in the overlay build (see handshake.go): run one handshake schedule on the
// instrumented commit queue and print its outcome.
func init() {
	hsChildMain = func(sched []string) {
		fmt.Println(NoKV.VerifHSRun(2, 2, sched))
	}
}

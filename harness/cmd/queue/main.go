// Correspondence / validation harness for the commit-queue engine: C34 (linearizable plain
// writes) and C37 (operations and Close finish).
//
//   - deterministic sequences (`open/set/del/get/await/throttle/close`): the real DB against the
//     model's sequential schedule, including calls parked in the throttle wait loop and calls
//     after Close;
//   - `conc …`: free-running goroutines on a few keys, the recorded history is checked by a
//     register linearizability checker (lincheck.go) — validation of the proved model;
//   - `live …`: throttle toggling + Close racing with writers under a watchdog — validation;
//   - `hs …`: a schedule of the close/worker-exit handshake replayed on the *current*
//     db_write.go, instrumented at build time through `go build -overlay` (handshake.go).
package main

import (
	"bytes"
	"errors"
	"flag"
	"fmt"
	"io"
	"math"
	"os"
	"os/exec"
	"path/filepath"
	"runtime"
	"strconv"
	"strings"
	"sync/atomic"
	"syscall"
	"time"

	NoKV "github.com/feichai0017/NoKV"
	"github.com/feichai0017/NoKV/kv"
	"github.com/feichai0017/NoKV/utils"
	"github.com/feichai0017/NoKV/vfs"

	"verif/harness/hlib"
)

var prop = flag.String("prop", "C34", "property: C34|C37")

// cfgFlag reads one key of the `-cfg` line given to hlib (the harness needs to know whether
// the as-is enqueue-failure panic is an open finding, see canonRace).
func cfgFlag(key string) string {
	for i, a := range os.Args {
		if a == "-cfg" && i+1 < len(os.Args) {
			for _, kv := range strings.Fields(os.Args[i+1]) {
				if strings.HasPrefix(kv, key+"=") {
					return strings.TrimPrefix(kv, key+"=")
				}
			}
		}
	}
	return ""
}

// manifestFault = 1: the next write to the MANIFEST file fails (once)
var manifestFault int32

func openDB(dir string, kv map[string]int) *NoKV.DB {
	opt := NoKV.NewDefaultOptions()
	opt.WorkDir = dir
	opt.MemTableSize = 8 << 20 // cases write a few KB: nothing is ever flushed, C01's L0 tie cannot interfere
	if kv["mt"] > 0 {
		opt.MemTableSize = int64(kv["mt"]) // boundary family (C37): every key is written once
	}
	if kv["mtzero"] == 1 {
		opt.MemTableSize = 0 // an Options value not built by NewDefaultOptions
	}
	opt.EnableWALWatchdog = false
	opt.ValueLogGCInterval = 0
	opt.NumCompactors = 1
	opt.WriteBatchWait = 0
	// hot-key limiter without any wall-clock component
	opt.HotRingRotationInterval = 0
	opt.HotRingWindowSlots = 0
	opt.HotRingWindowSlotDuration = 0
	opt.HotRingDecayInterval = 0
	opt.HotWriteBurstThreshold = int32(kv["hwb"]) // > 0: hot-write batching path (conc hw=1 only)
	if kv["wbw"] > 0 {
		opt.WriteBatchWait = time.Duration(kv["wbw"]) * time.Microsecond
	}
	opt.WriteHotKeyLimit = int32(kv["hot"])
	opt.HotRingEnabled = kv["hot"] > 0 || kv["hwb"] > 0
	opt.MaxBatchCount = int64(kv["mbc"])
	opt.MaxBatchSize = int64(kv["mbs"])
	opt.WriteBatchMaxCount = kv["wbc"]
	opt.WriteBatchMaxSize = int64(kv["wbs"])
	opt.ValueThreshold = int64(kv["vt"])
	if kv["l0"] > 0 {
		// throttle-liveness cases: real L0 watermarks, and a file system that can fail one
		// manifest write on request
		opt.NumLevelZeroTables = kv["l0"]
		pol := vfs.NewFaultPolicy()
		pol.SetHook(func(op vfs.Op, path string) error {
			if op == vfs.OpFileWrite && strings.Contains(path, "MANIFEST") && atomic.CompareAndSwapInt32(&manifestFault, 1, 0) {
				return errors.New("injected manifest write fault")
			}
			return nil
		})
		opt.FS = vfs.NewFaultFSWithPolicy(vfs.OSFS{}, pol)
	}
	db := NoKV.Open(opt)
	// the harness owns the L0 throttle: no compaction cycle (each starts with AdjustThrottle)
	db.VerifQueuePauseCompaction()
	for i := 0; i < 2000 && inCompactionCycle(); i++ {
		time.Sleep(100 * time.Microsecond)
	}
	return db
}

// inRequestWait counts goroutines blocked in (*request).Wait: calls whose request is queued or
// batched and not yet acknowledged.
func inRequestWait() int {
	buf := make([]byte, 1<<20)
	buf = buf[:runtime.Stack(buf, true)]
	n := 0
	for _, g := range bytes.Split(buf, []byte("\n\n")) {
		if bytes.Contains(g, []byte("NoKV.(*request).Wait(")) && bytes.Contains(g, []byte("sync.(*WaitGroup).Wait(")) {
			n++
		}
	}
	return n
}

// workerParked: the commit worker is blocked on db.Lock inside applyRequests.
func workerParked() bool {
	buf := make([]byte, 1<<20)
	buf = buf[:runtime.Stack(buf, true)]
	for _, g := range bytes.Split(buf, []byte("\n\n")) {
		if bytes.Contains(g, []byte("NoKV.(*DB).applyRequests(")) && bytes.Contains(g, []byte("sync.(*RWMutex).Lock(")) {
			return true
		}
	}
	return false
}

func inCompactionCycle() bool {
	buf := make([]byte, 1<<20)
	buf = buf[:runtime.Stack(buf, true)]
	return bytes.Contains(buf, []byte("compact.(*Manager).runCycle"))
}

func parseKV(toks []string) map[string]int {
	kv := map[string]int{"mbc": 64, "mbs": 1 << 20, "wbc": 64, "wbs": 1 << 20, "hot": 0, "vt": 1024}
	for _, t := range toks {
		if i := strings.IndexByte(t, '='); i > 0 {
			if n, err := strconv.Atoi(t[i+1:]); err == nil {
				kv[t[:i]] = n
			}
		}
	}
	return kv
}

func classify(err error) string {
	switch {
	case err == nil:
		return "ok"
	case strings.HasPrefix(err.Error(), "writeRequests"):
		return "ioerr" // the commit pipeline failed this request (applyRequests)
	case errors.Is(err, utils.ErrEmptyKey):
		return "emptykey"
	case errors.Is(err, utils.ErrHotKeyWriteThrottle):
		return "hot"
	case errors.Is(err, utils.ErrTxnTooBig):
		return "toobig"
	case errors.Is(err, utils.ErrBlockedWrites):
		return "blocked"
	case errors.Is(err, utils.ErrKeyNotFound):
		return "notfound"
	case errors.Is(err, utils.ErrDBClosed):
		return "closed"
	}
	return "err:" + strings.ReplaceAll(err.Error(), " ", "_")
}

func classifyPanic(r any) string {
	msg := fmt.Sprint(r)
	if strings.Contains(msg, "refcount underflow") {
		return "panic"
	}
	return "panic:" + strings.ReplaceAll(msg, " ", "_")
}

// doOp runs one API call on the real DB, panics contained.
func doOp(db *NoKV.DB, kind string, k, v []byte) (out string) {
	defer func() {
		if r := recover(); r != nil {
			out = classifyPanic(r)
		}
	}()
	switch kind {
	case "set":
		if v == nil {
			v = []byte{}
		}
		return classify(db.Set(k, v))
	case "del":
		return classify(db.Del(k))
	default:
		e, err := db.Get(k)
		if err != nil {
			return classify(err)
		}
		return "val:" + hlib.Hex(e.Value)
	}
}

// inThrottleLoop counts goroutines that are asleep inside sendToWriteCh's wait loop: the
// frame `time.Sleep` directly below `(*DB).sendToWriteCh`.
func inThrottleLoop() int {
	buf := make([]byte, 1<<20)
	buf = buf[:runtime.Stack(buf, true)]
	n := 0
	for _, g := range bytes.Split(buf, []byte("\n\n")) {
		lines := strings.Split(string(g), "\n")
		if len(lines) < 4 || !strings.Contains(lines[0], "[sleep") {
			continue
		}
		if strings.HasPrefix(lines[1], "time.Sleep(") && strings.Contains(lines[3], "(*DB).sendToWriteCh(") {
			n++
		}
	}
	return n
}

const callTimeout = 30 * time.Second

type seqCase struct {
	db       *NoKV.DB
	dir      string
	throttle bool
	closed   bool
	calls    map[int]chan string // outstanding calls
	parked   map[int]string
	atClose  map[int]bool
	asisRace bool
	timeout  time.Duration // watchdog per call
	held     bool          // the harness holds db.Lock(): the commit worker is parked in applyRequests
	openKV   map[string]int
	mt       int           // MemTableSize of a small-memtable case, else 0
	dead     bool          // a call never returned: the commit worker is gone, nothing else will
}

func (c *seqCase) cleanup() {
	if c.db != nil && c.held {
		c.db.Unlock()
		c.held = false
	}
	if c.db != nil && c.dead {
		c.db = nil // Close would hang as well; the process is a child that exits now
	}
	if c.db != nil {
		if c.throttle && !c.closed {
			c.db.VerifQueueThrottle(false)
		}
		done := make(chan struct{})
		go func() { defer close(done); defer func() { recover() }(); c.db.Close() }()
		select {
		case <-done:
		case <-time.After(callTimeout):
		}
		c.db = nil
	}
	if c.dir != "" {
		os.RemoveAll(c.dir)
		c.dir = ""
	}
}

// canon applies the one canonicalisation that depends on an open finding: a call that was
// parked in the throttle loop when Close ran leaves either through the loop's closed test
// (`blocked`) or, when lsm.Close released the throttle first, through the enqueue failure
// path — which as-is panics.  Which one is decided by the Go scheduler, so with
// q.enqFailKeepsRef=false both print `closed-race` (model and implementation alike).
func (c *seqCase) canon(slot int, r string) string {
	if c.atClose[slot] {
		delete(c.atClose, slot)
		if c.asisRace && (r == "blocked" || r == "panic") {
			return "closed-race"
		}
	}
	return r
}

// wait returns the result of slot's call, or "pending" when the call (and every other
// outstanding call) is provably parked in the throttle wait loop.
func (c *seqCase) wait(slot int) string {
	ch := c.calls[slot]
	deadline := time.Now().Add(c.timeout)
	for {
		select {
		case r := <-ch:
			delete(c.calls, slot)
			return c.canon(slot, r)
		default:
		}
		if c.throttle && !c.closed && inThrottleLoop() >= len(c.calls) {
			select {
			case r := <-ch:
				delete(c.calls, slot)
				return c.canon(slot, r)
			default:
			}
			return "pending"
		}
		// while the test holds db.Lock a call is pending only once the commit worker is parked in
		// applyRequests: before that it could still take a request issued next into the batch it
		// is collecting, and the batch boundaries would depend on timing
		if c.held && !c.closed && inRequestWait() >= len(c.calls) && workerParked() {
			select {
			case r := <-ch:
				delete(c.calls, slot)
				return c.canon(slot, r)
			default:
			}
			return "pending"
		}
		if time.Now().After(deadline) {
			dumpGoroutines("queue_stuck_call.txt")
			c.dead = true
			return "stuck"
		}
		time.Sleep(100 * time.Microsecond)
	}
}

// drain waits for every outstanding call (used after `throttle off` and `close`).
func (c *seqCase) drain() {
	for slot := 0; slot < 8; slot++ {
		if _, ok := c.calls[slot]; ok {
			c.parked[slot] = c.wait(slot)
		}
	}
}

func dumpGoroutines(name string) {
	buf := make([]byte, 4<<20)
	buf = buf[:runtime.Stack(buf, true)]
	os.MkdirAll("work", 0o755)
	os.WriteFile("work/"+name, buf, 0o644)
}

type engine struct{}

func (e *engine) Extra() map[string]any {
	return map[string]any{
		"conc_histories": atomic.LoadInt64(&concStats.histories), "conc_ops": atomic.LoadInt64(&concStats.ops),
		"conc_key_histories_checked": atomic.LoadInt64(&concStats.keysChecked), "conc_rejected_writes": atomic.LoadInt64(&concStats.rejected),
		"live_runs": atomic.LoadInt64(&liveRuns), "live_calls": atomic.LoadInt64(&liveCalls),
		"live_calls_after_close": atomic.LoadInt64(&liveAfterClose), "live_known_finding_panics": atomic.LoadInt64(&liveKnownPanics), "live_known_finding_close_panics": atomic.LoadInt64(&liveKnownWG), "wgrace_rounds": atomic.LoadInt64(&wgRounds),
		"handshake_schedules_on_instrumented_code": hsRuns, "handshake_timeouts_retried": hsTimeoutRetries,
	}
}

func (e *engine) Rule() string {
	if *prop == "C37" {
		return "C37: sequences of set/del/get on 8 client slots with L0-throttle toggling (calls parked in the wait loop), Close with parked calls, calls after Close; plus `live` stress (throttle toggler + Close racing 6 writers under a 30 s watchdog) and the `hs` handshake schedules on the overlay-instrumented db_write.go; non-trivial = a call was pending and later finished, or a call was issued after Close, or a live/hs op ran"
	}
	return "C34: sequences of set/del/get on 8 client slots over 4 keys (+ empty key), unique values, sizes straddling MaxBatchSize and the value threshold, hot-key limit, throttle and Close; plus `conc` histories (6 goroutines × 40 ops on 4 keys with a throttle toggler) checked by a register linearizability checker; non-trivial = an acknowledged write later read back and at least one error-class result, or a conc op ran"
}

func (e *engine) Exec(ops []string) (out []string) {
	if lf := os.Getenv("VERIF_QUEUE_LOG"); lf != "" {
		defer func() {
			if f, err := os.OpenFile(lf, os.O_APPEND|os.O_CREATE|os.O_WRONLY, 0o644); err == nil {
				fmt.Fprintf(f, "%s\t%s\n", strings.Join(ops, ";"), strings.Join(out, ";"))
				f.Close()
			}
		}()
	}
	out = make([]string, len(ops))
	if !inChild && len(ops) > 0 && strings.HasPrefix(ops[0], "open ") && (strings.Contains(ops[0], " mt=") || strings.Contains(ops[0], " mtzero=")) {
		// small-memtable cases can wedge the commit worker in a busy loop that allocates a
		// memtable arena per turn: run them in a child process that is killed afterwards
		return runSeqChild(ops)
	}
	c := &seqCase{calls: map[int]chan string{}, parked: map[int]string{}, atClose: map[int]bool{},
		asisRace: cfgFlag("q.enqFailKeepsRef") == "false", timeout: callTimeout}
	defer c.cleanup()
	open := func(kv map[string]int) {
		c.cleanup()
		dir, err := os.MkdirTemp("", "verif-queue-")
		if err != nil {
			panic(err)
		}
		c.dir = dir
		c.db = openDB(dir, kv)
		c.openKV = kv
		c.held = false
		c.timeout = callTimeout
		c.mt = kv["mt"]
		if kv["mt"] > 0 || kv["mtzero"] == 1 {
			c.timeout = 3 * time.Second // a write into a 64 KiB memtable takes milliseconds
		}
		c.throttle, c.closed = false, false
		c.calls, c.parked, c.atClose = map[int]chan string{}, map[int]string{}, map[int]bool{}
	}
	for i, op := range ops {
		f := strings.Fields(op)
		if len(f) == 0 {
			out[i] = "bad-op"
			continue
		}
		if c.db == nil {
			switch f[0] {
			case "set", "del", "get", "throttle", "close", "hold", "release", "poison", "flush", "reopen":
				open(parseKV(nil)) // a case without an `open` line runs on default options, like the model
			}
		}
		if c.dead {
			out[i] = "skipped"
			continue
		}
		switch f[0] {
		case "open":
			open(parseKV(f[1:]))
			out[i] = "ok"
		case "setfill":
			// setfill slot key free delta+2^20: `free` is the generator's prediction of the free
			// accounted space of the active memtable; the write's size estimate is free+delta
			if len(f) != 5 {
				out[i] = "bad-op"
				continue
			}
			if c.db == nil || c.mt == 0 {
				out[i] = "needs-open" // only meaningful after `open mt=…`
				continue
			}
			slot, _ := strconv.Atoi(f[1])
			k := hlib.UnHex(f[2])
			free, _ := strconv.Atoi(f[3])
			d, _ := strconv.Atoi(f[4])
			if actual := int(c.db.VerifQueueMemFree()); actual != free {
				out[i] = fmt.Sprintf("free-mismatch:%d", actual)
				continue
			}
			l := free + d - (1 << 20) - (4 + len(k) + 8) - 52
			if l < 0 {
				out[i] = "bad-op"
				continue
			}
			v := bytes.Repeat([]byte{0x66}, l)
			ch := make(chan string, 1)
			db := c.db
			go func() { ch <- doOp(db, "set", k, v) }()
			c.calls[slot] = ch
			out[i] = c.wait(slot)
		case "set", "del", "get":
			if c.db == nil || (f[0] == "set" && len(f) != 4) || (f[0] != "set" && len(f) != 3) {
				out[i] = "bad-op"
				continue
			}
			slot, _ := strconv.Atoi(f[1])
			if _, busy := c.calls[slot]; busy {
				out[i] = "busy"
				continue
			}
			if _, busy := c.parked[slot]; busy {
				out[i] = "busy"
				continue
			}
			k := hlib.UnHex(f[2])
			var v []byte
			if f[0] == "set" {
				v = hlib.UnHex(f[3])
			}
			ch := make(chan string, 1)
			db, kind := c.db, f[0]
			go func() { ch <- doOp(db, kind, k, v) }()
			c.calls[slot] = ch
			out[i] = c.wait(slot)
			if *prop == "C37" && kind == "get" && c.closed && len(k) > 0 && out[i] != "stuck" && !strings.HasPrefix(out[i], "panic") {
				out[i] = "returned" // C37 is about returning; what a Get after Close answers is C34's business
			}
		case "adjust":
			if c.db == nil || c.openKV["l0"] == 0 {
				out[i] = "needs-open" // only meaningful after `open l0=…`
				continue
			}
			if c.closed {
				out[i] = "bad-op"
				continue
			}
			c.db.VerifQueueAdjustThrottle()
			if c.db.VerifQueueBlocked() {
				c.throttle = true
				out[i] = "on"
			} else {
				c.throttle = false
				c.drain()
				out[i] = "off"
			}
		case "compact":
			if c.db == nil || c.openKV["l0"] == 0 {
				out[i] = "needs-open"
				continue
			}
			if c.closed || len(f) != 2 || f[1] != "fail" {
				out[i] = "bad-op"
				continue
			}
			atomic.StoreInt32(&manifestFault, 1)
			res, err := c.db.VerifLSM().VerifCompact("l0move")
			atomic.StoreInt32(&manifestFault, 0)
			switch {
			case err != nil && strings.Contains(err.Error(), "injected manifest write fault"):
				out[i] = "failed"
			case err != nil:
				out[i] = "err:" + strings.ReplaceAll(err.Error(), " ", "_")
			default:
				out[i] = res // "ok" (the fault was not hit) or "nothing"
			}
		case "drainl0":
			if c.db == nil || c.openKV["l0"] == 0 {
				out[i] = "needs-open"
				continue
			}
			if c.closed {
				out[i] = "bad-op"
				continue
			}
			out[i] = "undrained"
			for n := 0; n < 64; n++ {
				l0, _, _, _ := c.db.VerifLSM().VerifCounts(0)
				if l0 <= c.openKV["l0"] {
					out[i] = "drained"
					break
				}
				res, err := c.db.VerifLSM().VerifCompact("l0move")
				if err != nil {
					out[i] = "err:" + strings.ReplaceAll(err.Error(), " ", "_")
					break
				}
				if res == "nothing" {
					break
				}
			}
		case "hold":
			if c.db == nil || c.closed || c.held {
				out[i] = "bad-op"
				continue
			}
			c.db.Lock()
			c.held = true
			out[i] = "ok"
		case "release":
			if c.held {
				c.db.Unlock()
				c.held = false
			}
			c.drain()
			out[i] = "ok"
		case "poison":
			if c.db == nil || len(f) != 2 {
				out[i] = "bad-op"
				continue
			}
			slot, _ := strconv.Atoi(f[1])
			if _, busy := c.calls[slot]; busy {
				out[i] = "busy"
				continue
			}
			if _, busy := c.parked[slot]; busy {
				out[i] = "busy"
				continue
			}
			ch := make(chan string, 1)
			db := c.db
			go func() {
				defer func() {
					if r := recover(); r != nil {
						ch <- classifyPanic(r)
					}
				}()
				ch <- classify(db.VerifQueueRawWrite(nil, []byte{0x78}))
			}()
			c.calls[slot] = ch
			out[i] = c.wait(slot)
		case "flush":
			if c.db != nil && !c.closed {
				l := c.db.VerifLSM()
				l.VerifRotate()
				for {
					more, err := l.VerifFlushOldest()
					if err != nil {
						out[i] = "err:" + strings.ReplaceAll(err.Error(), " ", "_")
						break
					}
					if !more {
						break
					}
				}
			}
			if out[i] == "" {
				out[i] = "ok"
			}
		case "reopen":
			if c.db == nil {
				out[i] = "bad-op"
				continue
			}
			if len(c.calls) > 0 {
				out[i] = "busy"
				continue
			}
			if !c.closed {
				if c.throttle {
					c.db.VerifQueueThrottle(false)
				}
				if err := c.db.Close(); err != nil {
					out[i] = classify(err)
					continue
				}
			}
			c.db = openDB(c.dir, c.openKV)
			c.throttle, c.closed, c.held = false, false, false
			c.parked, c.atClose = map[int]string{}, map[int]bool{}
			out[i] = "ok"
		case "await":
			slot, _ := strconv.Atoi(f[1])
			if r, ok := c.parked[slot]; ok {
				delete(c.parked, slot)
				out[i] = r
			} else if _, ok := c.calls[slot]; ok {
				out[i] = c.wait(slot)
			} else {
				out[i] = "none"
			}
		case "throttle":
			if c.db == nil {
				out[i] = "bad-op"
				continue
			}
			on := len(f) > 1 && f[1] == "on"
			if on {
				if c.closed {
					out[i] = "ignored" // the LSM is gone: nobody can raise the throttle any more
					continue
				}
				c.db.VerifQueueThrottle(true)
				c.throttle = true
			} else {
				if !c.closed {
					c.db.VerifQueueThrottle(false)
				}
				c.throttle = false
				c.drain()
			}
			out[i] = "ok"
		case "close":
			if c.db == nil {
				out[i] = "bad-op"
				continue
			}
			if c.held { // Close is never issued with the test's own lock held
				c.db.Unlock()
				c.held = false
			}
			for s := range c.calls {
				c.atClose[s] = true
			}
			res := make(chan string, 1)
			db := c.db
			go func() {
				defer func() {
					if r := recover(); r != nil {
						res <- classifyPanic(r)
					}
				}()
				res <- classify(db.Close())
			}()
			select {
			case r := <-res:
				out[i] = r
			case <-time.After(c.timeout):
				dumpGoroutines("queue_stuck_close.txt")
				out[i] = "stuck"
				c.dead = true
			}
			c.closed = true
			c.throttle = false
			c.drain()
		case "conc":
			out[i] = stickyRun(op, "lin-ok", func() string { return runConc(parseKV(f[1:])) })
		case "live":
			out[i] = stickyRun(op, "all-returned", func() string { return runLive(parseKV(f[1:]), cfgFlag("q.enqFailKeepsRef") == "false") })
		case "hs":
			out[i] = runHandshake(f[1:])
		case "wgrace":
			out[i] = runWGRace(parseKV(f[1:]))
		default:
			out[i] = "bad-op"
		}
	}
	return out
}

// ---------------------------------------------------------------- generator

var keyPool = []string{"6b", "6b00", "6c", "ff"}

func (e *engine) Gen(r *hlib.Rand, tier string) []string {
	x := r.Intn(100)
	if *prop == "C34" && x < 8 {
		if r.Chance(50) {
			// hot-write path: few keys, every write followed by a read of the same key by the same goroutine
			return []string{fmt.Sprintf("conc seed=%d g=6 n=30 keys=2 thr=0 hot=0 hw=1", r.Intn(1<<30))}
		}
		return []string{fmt.Sprintf("conc seed=%d g=6 n=40 keys=4 thr=%d hot=%d", r.Intn(1<<30), r.Intn(2), hlib.Pick(r, []int{0, 0, 0, 30}))}
	}
	if *prop == "C34" && x < 20 {
		return genFailBatch(r)
	}
	if *prop == "C34" && x < 30 {
		return genEmptyValue(r)
	}
	if *prop == "C37" && x < 6 {
		return []string{fmt.Sprintf("live seed=%d g=6 n=60 thr=1 close=1", r.Intn(1<<30))}
	}
	if *prop == "C37" && x < 9 {
		return genHandshake(r)
	}
	if *prop == "C37" && x < 22 {
		return genBoundary(r)
	}
	if *prop == "C37" && x < 34 {
		return genThrottleLive(r)
	}
	mbc := hlib.Pick(r, []int{64, 64, 64, 64, 64, 2, 1})
	mbs := hlib.Pick(r, []int{1 << 20, 1 << 20, 1 << 20, 40, 48, 64})
	hot := hlib.Pick(r, []int{0, 0, 0, 2, 3, 5})
	vt := hlib.Pick(r, []int{1024, 1024, 8, 16})
	ops := []string{fmt.Sprintf("open mbc=%d mbs=%d wbc=%d wbs=%d hot=%d vt=%d", mbc, mbs, hlib.Pick(r, []int{64, 2, 1}), 1<<20, hot, vt)}
	liveBias := *prop == "C37"
	n := 10 + r.Intn(22)
	throttle, closed := false, false
	maybePending := map[int]bool{} // slots whose call may be parked
	pendingKeys := map[string]bool{}
	seq := 0
	val := func(big bool) string {
		seq++
		if big {
			// straddle MaxBatchSize / the value threshold: 4+len(key)+8+len(v)+1 around mbs
			l := hlib.Pick(r, []int{7, 8, 15, 16, 17, mbs - 16, mbs - 15, mbs - 14, mbs - 13})
			if l < 1 || l > 200 {
				l = 24
			}
			b := make([]byte, l)
			b[0] = byte(seq)
			b[l-1] = byte(seq >> 8)
			return hlib.Hex(b)
		}
		if r.Chance(5) {
			return "-"
		}
		return fmt.Sprintf("%02x%02x", seq&0xff, (seq>>8)&0xff|0x80)
	}
	freeSlot := func() int {
		for tries := 0; tries < 16; tries++ {
			s := r.Intn(8)
			if !maybePending[s] {
				return s
			}
		}
		return -1
	}
	wantClose := r.Chance(30) || (liveBias && r.Chance(40))
	afterClose := 0
	for i := 0; i < n; i++ {
		if closed {
			if afterClose++; afterClose > 5 {
				break
			}
		}
		y := r.Intn(100)
		switch {
		case y < 45: // write
			s := freeSlot()
			if s < 0 {
				continue
			}
			k := hlib.Pick(r, keyPool)
			if r.Chance(4) {
				k = "-"
			}
			if throttle && !closed {
				// a parked write: distinct keys, sizes that cannot be too big, count limit off —
				// otherwise the order in which parked calls leave the loop would decide the outcome
				if mbc < 2 || pendingKeys[k] || len(maybePending) >= 3 {
					continue
				}
				pendingKeys[k] = true
				maybePending[s] = true
				if r.Chance(20) {
					ops = append(ops, fmt.Sprintf("del %d %s", s, k))
				} else {
					ops = append(ops, fmt.Sprintf("set %d %s %s", s, k, val(false)))
				}
				continue
			}
			if r.Chance(15) {
				ops = append(ops, fmt.Sprintf("del %d %s", s, k))
			} else {
				ops = append(ops, fmt.Sprintf("set %d %s %s", s, k, val(r.Chance(35))))
			}
		case y < 75: // read
			s := freeSlot()
			if s < 0 {
				continue
			}
			k := hlib.Pick(r, keyPool)
			if r.Chance(3) {
				k = "-"
			}
			ops = append(ops, fmt.Sprintf("get %d %s", s, k))
		case y < 83 || (liveBias && y < 90):
			if closed {
				continue
			}
			if !throttle {
				ops = append(ops, "throttle on")
				throttle = true
			} else {
				ops = append(ops, "throttle off")
				throttle = false
				for s := range maybePending {
					ops = append(ops, fmt.Sprintf("await %d", s))
				}
				maybePending = map[int]bool{}
				pendingKeys = map[string]bool{}
			}
		case y < 88 || (liveBias && y < 97):
			if !wantClose || i < n/3 || (closed && r.Chance(70)) {
				continue
			}
			ops = append(ops, "close")
			closed = true
			throttle = false
			for s := 0; s < 8; s++ {
				if maybePending[s] {
					ops = append(ops, fmt.Sprintf("await %d", s))
				}
			}
			maybePending = map[int]bool{}
			pendingKeys = map[string]bool{}
		default:
			ops = append(ops, fmt.Sprintf("await %d", r.Intn(8)))
		}
	}
	if throttle && !closed {
		ops = append(ops, "throttle off")
		for s := 0; s < 8; s++ {
			if maybePending[s] {
				ops = append(ops, fmt.Sprintf("await %d", s))
			}
		}
	}
	for _, k := range keyPool {
		ops = append(ops, "get 0 "+k)
	}
	return ops
}

// genFailBatch: the worker is parked (db.Lock held) after it popped one request; several writers
// and one request the LSM rejects queue up and form ONE commit batch on release; afterwards
// every key is read: a write returned nil iff its value is readable.
func genFailBatch(r *hlib.Rand) []string {
	ops := []string{fmt.Sprintf("open wbc=%d hot=0 vt=%d", hlib.Pick(r, []int{64, 64, 3, 2}), hlib.Pick(r, []int{1024, 8}))}
	keys := []string{"6b", "6c", "6d", "6e", "6f", "70"}
	ops = append(ops, "set 0 "+keys[0]+" 00", "hold", "set 1 "+keys[1]+" 11")
	n := 2 + r.Intn(4)
	pos := r.Intn(n)
	slot := 2
	var slots []int
	for i := 0; i < n; i++ {
		if i == pos {
			ops = append(ops, fmt.Sprintf("poison %d", slot))
		} else {
			k := keys[2+i%4]
			if r.Chance(20) {
				ops = append(ops, fmt.Sprintf("del %d %s", slot, keys[0]))
			} else {
				ops = append(ops, fmt.Sprintf("set %d %s %02x%02x", slot, k, i+1, r.Intn(256)))
			}
		}
		slots = append(slots, slot)
		slot++
	}
	ops = append(ops, "release", "await 1")
	for _, s := range slots {
		ops = append(ops, fmt.Sprintf("await %d", s))
	}
	for _, k := range keys {
		ops = append(ops, "get 0 "+k)
	}
	if r.Bool() {
		ops = append(ops, "set 1 "+keys[2]+" ee", "get 0 "+keys[2], "close")
	}
	return ops
}

// genEmptyValue: zero-length values (and ordinary ones) with memtable rotation + flush and
// close/reopen between the write and the reads; every key is written once.
func genEmptyValue(r *hlib.Rand) []string {
	ops := []string{fmt.Sprintf("open vt=%d", hlib.Pick(r, []int{1024, 8}))}
	keys := []string{"6b", "6c", "6d", "6e", "6f", "70", "71"}
	written := []string{}
	barrier := func() {
		switch r.Intn(3) {
		case 0:
			ops = append(ops, "flush")
		case 1:
			ops = append(ops, "reopen")
		default:
			ops = append(ops, "close", "reopen")
		}
		for _, k := range written {
			ops = append(ops, "get 0 "+k)
		}
	}
	for i, k := range keys {
		switch r.Intn(4) {
		case 0, 1:
			ops = append(ops, fmt.Sprintf("set 1 %s -", k))
		case 2:
			ops = append(ops, fmt.Sprintf("set 1 %s %02x0102030405060708090a", k, i))
		default:
			ops = append(ops, fmt.Sprintf("del 1 %s", k))
		}
		written = append(written, k)
		ops = append(ops, "get 0 "+k)
		if r.Chance(45) {
			barrier()
		}
	}
	barrier()
	return ops
}

// genThrottleLive: real flushes until L0 reaches the throttle's high watermark, writers parked
// in the throttle loop, one L0 move that hits a manifest write fault, then healthy moves:
// AdjustThrottle must release the writers, and Close must return.
func genThrottleLive(r *hlib.Rand) []string {
	limit := hlib.Pick(r, []int{1, 2, 2, 3})
	ops := []string{fmt.Sprintf("open l0=%d hot=0", limit)}
	n := 2*limit + r.Intn(2)
	for i := 0; i < n; i++ {
		ops = append(ops, fmt.Sprintf("set 0 %02x%02x %02x", 0x61+i, r.Intn(256), i), "flush")
		if r.Chance(20) {
			ops = append(ops, "adjust")
		}
	}
	ops = append(ops, "adjust", "set 1 7a01 aa", "set 2 7a02 bb")
	for i := 0; i < 1+r.Intn(2); i++ {
		ops = append(ops, "compact fail")
		if r.Bool() {
			ops = append(ops, "adjust")
		}
	}
	ops = append(ops, "drainl0", "adjust", "await 1", "await 2", "get 3 7a01", "get 3 7a02")
	if r.Bool() {
		ops = append(ops, "close")
	}
	return ops
}

// genBoundary: writes whose size estimate is exactly / just around the free space of a
// 64 KiB memtable (value inline), as the first write and after a partial fill: the packing
// loop of lsm.SetBatch must either write the entry or rotate — and return.
func genBoundary(r *hlib.Rand) []string {
	const mt = 65536
	if r.Chance(15) {
		return []string{"open mtzero=1", "get 0 6b", "set 1 6b 01", "get 0 6b", "del 2 6c", "close"}
	}
	ops := []string{fmt.Sprintf("open mt=%d vt=1048576 mbs=4194304 mbc=64 hot=0", mt)}
	free := mt
	if r.Bool() {
		l := hlib.Pick(r, []int{1, 100, 1000, 5000, 30000})
		v := bytes.Repeat([]byte{0x70}, l)
		e := kv.NewEntry(kv.InternalKey(kv.CFDefault, []byte{0x70}, math.MaxUint64), v)
		var buf bytes.Buffer
		payload, err := kv.EncodeEntry(&buf, e)
		if err != nil {
			panic(err)
		}
		free = mt - (len(payload) + 1 + 8) // WAL record = type byte + payload; +8 accounted per record
		ops = append(ops, "set 0 70 "+hlib.Hex(v))
	}
	delta := hlib.Pick(r, []int{-2, -1, 0, 1, 0, 1})
	ops = append(ops, fmt.Sprintf("setfill 1 6631 %d %d", free, (1<<20)+delta))
	ops = append(ops, "set 2 6632 0102", "get 3 6632", "del 4 6632", "get 3 70")
	if r.Bool() {
		ops = append(ops, "close", "set 5 6633 01")
	}
	return ops
}

func (e *engine) Nontrivial(ops, impl, model, spec []string) bool {
	if len(ops) == 1 {
		return true // conc / live / hs
	}
	acked := map[string]bool{}
	readBack, errClass, pendingDone, afterClose := false, false, false, false
	closed := false
	pending := map[string]bool{}
	for i, op := range ops {
		f := strings.Fields(op)
		switch f[0] {
		case "set", "del":
			if impl[i] == "ok" && f[0] == "set" {
				acked[f[2]] = true
			}
			if impl[i] == "pending" {
				pending[f[1]] = true
			}
			if impl[i] == "hot" || impl[i] == "toobig" || impl[i] == "blocked" || impl[i] == "emptykey" || impl[i] == "panic" {
				errClass = true
			}
			if closed {
				afterClose = true
			}
		case "get":
			if strings.HasPrefix(impl[i], "val:") && acked[f[2]] {
				readBack = true
			}
			if closed {
				afterClose = true
			}
		case "await":
			if pending[f[1]] && impl[i] != "pending" && impl[i] != "none" {
				pendingDone = true
			}
		case "close":
			closed = true
		}
	}
	if *prop == "C34" {
		for _, op := range ops {
			if op == "hold" || op == "flush" || op == "reopen" {
				return true
			}
		}
	}
	if *prop == "C37" {
		for _, op := range ops {
			if strings.HasPrefix(op, "setfill ") || strings.Contains(op, "mtzero=") || op == "compact fail" {
				return true
			}
		}
		return pendingDone || afterClose
	}
	return readBack && errClass
}

// A free-running workload that once produced a non-nominal outcome keeps reporting it for
// the rest of this process: the shared runner re-executes a failing case (shrinking, final
// report) and expects the same answer, which a race cannot promise.
var sticky = map[string]string{}

func stickyRun(op, nominal string, run func() string) string {
	if r, ok := sticky[op]; ok {
		return r
	}
	r := run()
	if r != nominal {
		sticky[op] = r
	}
	return r
}

var inChild bool

// runSeqChild executes one case in a child copy of this binary (`seq-child`), one output line
// per op; the child exits right after a call got stuck, which also ends the spinning worker.
func runSeqChild(ops []string) []string {
	out := make([]string, len(ops))
	for i := range out {
		out[i] = "child-died"
	}
	exe, err := os.Executable()
	if err != nil {
		return out
	}
	cfg := ""
	for i, a := range os.Args {
		if a == "-cfg" && i+1 < len(os.Args) {
			cfg = os.Args[i+1]
		}
	}
	cmd := exec.Command(exe, "seq-child", "-prop", *prop, "-cfg", cfg)
	cmd.Stdin = strings.NewReader(strings.Join(ops, "\n") + "\n")
	cmd.Env = append(os.Environ(), "GOMEMLIMIT=3GiB")
	var buf bytes.Buffer
	cmd.Stdout = &buf
	done := make(chan struct{})
	if err := cmd.Start(); err != nil {
		return out
	}
	go func() { cmd.Wait(); close(done) }()
	select {
	case <-done:
	case <-time.After(90 * time.Second):
		cmd.Process.Kill()
		<-done
	}
	n := 0
	for _, l := range strings.Split(buf.String(), "\n") {
		if strings.HasPrefix(l, "OUT ") && n < len(out) {
			out[n] = strings.TrimPrefix(l, "OUT ")
			n++
		}
	}
	return out
}

func seqChildMain() {
	inChild = true
	os.MkdirAll("work", 0o755)
	if f, err := os.OpenFile(filepath.Join("work", "queue_seq_child.log"), os.O_CREATE|os.O_WRONLY|os.O_TRUNC, 0o644); err == nil {
		_ = syscall.Dup2(int(f.Fd()), 2)
	}
	real := os.NewFile(uintptr(func() int { fd, _ := syscall.Dup(1); return fd }()), "stdout")
	if f, err := os.OpenFile(filepath.Join("work", "queue_seq_child.log"), os.O_APPEND|os.O_WRONLY, 0o644); err == nil {
		_ = syscall.Dup2(int(f.Fd()), 1) // utils.Err prints to stdout
	}
	for i, a := range os.Args {
		if a == "-prop" && i+1 < len(os.Args) {
			*prop = os.Args[i+1]
		}
	}
	data, _ := io.ReadAll(os.Stdin)
	var ops []string
	for _, l := range strings.Split(string(data), "\n") {
		if strings.TrimSpace(l) != "" {
			ops = append(ops, l)
		}
	}
	for _, o := range (&engine{}).Exec(ops) {
		fmt.Fprintln(real, "OUT "+o)
	}
	os.Exit(0)
}

// hsChildMain is set in the overlay build only (hs_child.go).
var hsChildMain func(sched []string)

func main() {
	if len(os.Args) > 1 && os.Args[1] == "seq-child" {
		seqChildMain()
	}
	if len(os.Args) > 1 && os.Args[1] == "hs-child" {
		if hsChildMain == nil {
			fmt.Println("child-not-instrumented")
			os.Exit(0)
		}
		hsChildMain(os.Args[2:])
		os.Exit(0)
	}
	redirectStderr()
	hlib.Main("queue", &engine{})
}

// redirectStderr sends file descriptor 2 to work/queue_harness_stderr.log: the engine logs
// throttle toggles and raw key bytes there, and the check driver reads the harness output as
// UTF-8 text.  A Go panic of the harness itself also ends up in that file.
func redirectStderr() {
	os.MkdirAll("work", 0o755)
	f, err := os.OpenFile(filepath.Join("work", fmt.Sprintf("queue_harness_stderr_%s.log", *propName())), os.O_CREATE|os.O_WRONLY|os.O_TRUNC, 0o644)
	if err != nil {
		return
	}
	_ = syscall.Dup2(int(f.Fd()), 2)
	// utils.Err logs with fmt.Printf: in batch mode (-out given) stdout carries nothing else
	for _, a := range os.Args {
		if a == "-out" {
			_ = syscall.Dup2(int(f.Fd()), 1)
		}
	}
}

// propName peeks at -prop before flag.Parse has run.
func propName() *string {
	p := "C34"
	for i, a := range os.Args {
		if a == "-prop" && i+1 < len(os.Args) {
			p = os.Args[i+1]
		}
	}
	return &p
}

package main

// Free-running validation workloads (`conc`, `live`) and a small linearizability checker for
// a register (Wing–Gong search with memoisation on (linearized set, current value)).

import (
	"fmt"
	"os"
	"runtime/debug"
	"strings"
	"sort"
	"sync"
	"sync/atomic"
	"time"


	"verif/harness/hlib"
)

type hop struct {
	write    bool
	val      int // value id; 0 = absent
	call, rt int64
}

type memoKey struct {
	bits [4]uint64
	val  int
}

// linearizable reports whether the single-register history (initial value: absent) has a
// linearization.  At most 256 operations.
func linearizable(ops []hop) bool {
	n := len(ops)
	if n > 256 {
		panic("history too long for the checker")
	}
	sort.Slice(ops, func(i, j int) bool { return ops[i].call < ops[j].call })
	seen := map[memoKey]bool{}
	var bits [4]uint64
	has := func(i int) bool { return bits[i>>6]&(1<<uint(i&63)) != 0 }
	set := func(i int, b bool) {
		if b {
			bits[i>>6] |= 1 << uint(i&63)
		} else {
			bits[i>>6] &^= 1 << uint(i&63)
		}
	}
	var rec func(done int, cur int) bool
	rec = func(done int, cur int) bool {
		if done == n {
			return true
		}
		k := memoKey{bits, cur}
		if seen[k] {
			return false
		}
		seen[k] = true
		// an operation may be linearized next iff no other pending operation returned before it was called
		minRet := int64(1) << 62
		for i := 0; i < n; i++ {
			if !has(i) && ops[i].rt < minRet {
				minRet = ops[i].rt
			}
		}
		for i := 0; i < n; i++ {
			if has(i) || ops[i].call > minRet {
				continue
			}
			next := cur
			if ops[i].write {
				next = ops[i].val
			} else if ops[i].val != cur {
				continue
			}
			set(i, true)
			if rec(done+1, next) {
				return true
			}
			set(i, false)
		}
		return false
	}
	return rec(0, 0)
}

var concStats struct {
	histories, ops, keysChecked, rejected int64
}

type rec struct {
	kind     string
	key      int
	val      int
	call, rt int64
	res      string
}

// runConc: g goroutines × n ops over `keys` keys, unique values per write, an optional
// throttle toggler; every per-key history (plus one final read per key) must be linearizable
// and no read may return the value of a write that reported an error.
func runConc(kv map[string]int) string {
	g, n, keys := kv["g"], kv["n"], kv["keys"]
	if g <= 0 || n <= 0 || keys <= 0 || g*n/keys > 110 || (kv["hw"] == 1 && g*n*2/keys > 240) {
		return "bad-op"
	}
	dir, err := os.MkdirTemp("", "verif-queue-conc-")
	if err != nil {
		panic(err)
	}
	defer os.RemoveAll(dir)
	okv := map[string]int{"mbc": 64, "mbs": 1 << 20, "wbc": 64, "wbs": 1 << 20, "hot": kv["hot"], "vt": 16}
	hw := kv["hw"] == 1
	if hw {
		// hot-write batching: keys become "hot" after 2 writes, the worker waits 300µs for more
		// requests so that concurrent writers of one key meet in one commit batch
		okv["hwb"], okv["wbw"] = 2, 300
	}
	db := openDB(dir, okv)
	defer func() { defer func() { recover() }(); db.Close() }()
	var clock int64
	var mu sync.Mutex
	var all []rec
	stop := make(chan struct{})
	var tg sync.WaitGroup
	if kv["thr"] == 1 {
		tg.Add(1)
		go func() {
			defer tg.Done()
			r := hlib.NewRand(uint64(kv["seed"]) + 99)
			for {
				select {
				case <-stop:
					db.VerifQueueThrottle(false)
					return
				default:
				}
				db.VerifQueueThrottle(true)
				time.Sleep(time.Duration(50+r.Intn(300)) * time.Microsecond)
				db.VerifQueueThrottle(false)
				time.Sleep(time.Duration(50+r.Intn(500)) * time.Microsecond)
			}
		}()
	}
	keyBytes := func(k int) []byte { return []byte{0x6b, byte(k)} }
	var wg sync.WaitGroup
	for gi := 0; gi < g; gi++ {
		wg.Add(1)
		go func(gi int) {
			defer wg.Done()
			r := hlib.NewRand(uint64(kv["seed"])*131 + uint64(gi))
			local := make([]rec, 0, n)
			for i := 0; i < n; i++ {
				k := r.Intn(keys)
				x := r.Intn(100)
				var rc rec
				rc.key = k
				switch {
				case x < 45:
					rc.kind, rc.val = "set", 1+gi*1000+i
					v := []byte(fmt.Sprintf("v%06d-padding-to-cross-the-value-threshold", rc.val))
					if r.Bool() {
						v = v[:7]
					}
					rc.call = atomic.AddInt64(&clock, 1)
					rc.res = doOp(db, "set", keyBytes(k), v)
					rc.rt = atomic.AddInt64(&clock, 1)
				case x < 55:
					rc.kind = "del"
					rc.call = atomic.AddInt64(&clock, 1)
					rc.res = doOp(db, "del", keyBytes(k), nil)
					rc.rt = atomic.AddInt64(&clock, 1)
				default:
					rc.kind = "get"
					rc.call = atomic.AddInt64(&clock, 1)
					rc.res = doOp(db, "get", keyBytes(k), nil)
					rc.rt = atomic.AddInt64(&clock, 1)
				}
				local = append(local, rc)
				if hw && rc.kind != "get" {
					// read-your-write right after the return: a write acknowledged before it
					// (or its overwriter) is visible shows up here
					rd := rec{kind: "get", key: k}
					rd.call = atomic.AddInt64(&clock, 1)
					rd.res = doOp(db, "get", keyBytes(k), nil)
					rd.rt = atomic.AddInt64(&clock, 1)
					local = append(local, rd)
				}
			}
			mu.Lock()
			all = append(all, local...)
			mu.Unlock()
		}(gi)
	}
	done := make(chan struct{})
	go func() { wg.Wait(); close(done) }()
	select {
	case <-done:
	case <-time.After(callTimeout):
		dumpGoroutines("queue_conc_stuck.txt")
		close(stop)
		return "stuck"
	}
	close(stop)
	tg.Wait()
	for k := 0; k < keys; k++ {
		rc := rec{kind: "get", key: k}
		rc.call = atomic.AddInt64(&clock, 1)
		rc.res = doOp(db, "get", keyBytes(k), nil)
		rc.rt = atomic.AddInt64(&clock, 1)
		all = append(all, rc)
	}
	atomic.AddInt64(&concStats.histories, 1)
	atomic.AddInt64(&concStats.ops, int64(len(all)))
	// value ids: the decimal number inside "v%06d"
	valID := func(res string) (int, bool) {
		if res == "notfound" {
			return 0, true
		}
		if len(res) < 4+2+12 || res[:4] != "val:" {
			return 0, false
		}
		b := hlib.UnHex(res[4:])
		if len(b) < 7 || b[0] != 'v' {
			return 0, false
		}
		id := 0
		for _, c := range b[1:7] {
			if c < '0' || c > '9' {
				return 0, false
			}
			id = id*10 + int(c-'0')
		}
		return id, true
	}
	for k := 0; k < keys; k++ {
		var h []hop
		failed := map[int]bool{}
		for _, rc := range all {
			if rc.key != k {
				continue
			}
			switch rc.kind {
			case "set", "del":
				if rc.res == "ok" {
					v := rc.val
					if rc.kind == "del" {
						v = 0
					}
					h = append(h, hop{write: true, val: v, call: rc.call, rt: rc.rt})
				} else if rc.res == "hot" || rc.res == "blocked" || rc.res == "toobig" {
					atomic.AddInt64(&concStats.rejected, 1)
					if rc.kind == "set" {
						failed[rc.val] = true
					}
				} else {
					return "lin-violation:write-returned-" + rc.res
				}
			default:
				id, ok := valID(rc.res)
				if !ok {
					return "lin-violation:read-returned-" + rc.res
				}
				h = append(h, hop{write: false, val: id, call: rc.call, rt: rc.rt})
			}
		}
		for _, o := range h {
			if !o.write && failed[o.val] {
				return fmt.Sprintf("lin-violation:key=%d-read-saw-rejected-write-%d", k, o.val)
			}
		}
		if !linearizable(h) {
			dumpHistory(k, all)
			return fmt.Sprintf("lin-violation:key=%d-history-has-no-linearization(work/queue_conc_violation.txt)", k)
		}
		atomic.AddInt64(&concStats.keysChecked, 1)
	}
	return "lin-ok"
}

func dumpHistory(k int, all []rec) {
	os.MkdirAll("work", 0o755)
	f, err := os.Create("work/queue_conc_violation.txt")
	if err != nil {
		return
	}
	defer f.Close()
	sort.Slice(all, func(i, j int) bool { return all[i].call < all[j].call })
	for _, rc := range all {
		if rc.key == k {
			fmt.Fprintf(f, "[%d,%d] %s key=%d val=%d -> %s\n", rc.call, rc.rt, rc.kind, rc.key, rc.val, rc.res)
		}
	}
}

var liveRuns, liveCalls, liveAfterClose, liveKnownPanics, liveKnownWG, wgRounds int64

// runLive: writers and readers, a throttle toggler, and Close in the middle; every call and
// Close itself must return within the watchdog time; calls issued after Close returned must
// report an error.  A panic with the signature of the open write-after-close finding is
// counted under it while that finding's flag is still bad; any other panic is reported.
func runLive(kv map[string]int, knownPanicOpen bool) string {
	wgOpen := cfgFlag("q.getGuard") == "false"
	g, n := kv["g"], kv["n"]
	if g <= 0 || n <= 0 {
		return "bad-op"
	}
	dir, err := os.MkdirTemp("", "verif-queue-live-")
	if err != nil {
		panic(err)
	}
	defer os.RemoveAll(dir)
	db := openDB(dir, map[string]int{"mbc": 64, "mbs": 1 << 20, "wbc": 8, "wbs": 1 << 20, "hot": 0, "vt": 16})
	atomic.AddInt64(&liveRuns, 1)
	var bad atomic.Value
	note := func(res string) {
		atomic.AddInt64(&liveCalls, 1)
		if res == "panic" && knownPanicOpen {
			atomic.AddInt64(&liveKnownPanics, 1)
			return
		}
		if len(res) >= 5 && res[:5] == "panic" {
			bad.Store(res)
		}
		if len(res) >= 4 && res[:4] == "err:" {
			bad.Store(res)
		}
	}
	stop := make(chan struct{})
	var tg sync.WaitGroup
	tg.Add(1)
	go func() {
		defer tg.Done()
		r := hlib.NewRand(uint64(kv["seed"]) + 7)
		for {
			select {
			case <-stop:
				return
			default:
			}
			db.VerifQueueThrottle(true)
			time.Sleep(time.Duration(50+r.Intn(400)) * time.Microsecond)
			db.VerifQueueThrottle(false)
			time.Sleep(time.Duration(50+r.Intn(400)) * time.Microsecond)
		}
	}()
	var wg sync.WaitGroup
	var closedAt int64 // progress counter value at which Close is fired
	var progress int64
	closedAt = int64(g*n/3 + kv["seed"]%(g*n/3+1))
	closeDone := make(chan string, 1)
	var once sync.Once
	fireClose := func() {
		once.Do(func() {
			go func() {
				defer func() {
					if r := recover(); r != nil {
						os.MkdirAll("work", 0o755)
						os.WriteFile("work/queue_live_close_panic.txt", append([]byte(fmt.Sprint(r)+"\n"), debug.Stack()...), 0o644)
						closeDone <- classifyPanic(r)
					}
				}()
				closeDone <- classify(db.Close())
			}()
		})
	}
	for gi := 0; gi < g; gi++ {
		wg.Add(1)
		go func(gi int) {
			defer wg.Done()
			r := hlib.NewRand(uint64(kv["seed"])*977 + uint64(gi))
			for i := 0; i < n; i++ {
				if kv["close"] == 1 && atomic.AddInt64(&progress, 1) == closedAt {
					fireClose()
				}
				k := []byte{0x6c, byte(r.Intn(5))}
				switch x := r.Intn(100); {
				case x < 60:
					note(doOp(db, "set", k, []byte(fmt.Sprintf("live-%d-%d-some-more-bytes-for-the-vlog", gi, i))))
				case x < 70:
					note(doOp(db, "del", k, nil))
				default:
					note(doOp(db, "get", k, nil))
				}
			}
		}(gi)
	}
	done := make(chan struct{})
	go func() { wg.Wait(); close(done) }()
	select {
	case <-done:
	case <-time.After(callTimeout):
		dumpGoroutines("queue_live_stuck.txt")
		close(stop)
		return "stuck:client-calls"
	}
	if kv["close"] == 1 {
		fireClose()
		select {
		case r := <-closeDone:
			if wgOpen && strings.Contains(r, "WaitGroup_is_reused") {
				// open finding close-panics-racing-get (same property): counted under it
				atomic.AddInt64(&liveKnownWG, 1)
				close(stop)
				tg.Wait()
				if b := bad.Load(); b != nil {
					return b.(string)
				}
				return "all-returned"
			}
			if r != "ok" {
				close(stop)
				tg.Wait()
				return "close-returned-" + r
			}
		case <-time.After(callTimeout):
			dumpGoroutines("queue_live_stuck.txt")
			close(stop)
			return "stuck:close"
		}
	}
	close(stop)
	tg.Wait()
	verdict := "all-returned"
	if kv["close"] == 1 {
		// calls issued after Close has returned
		post := make(chan string, 3)
		go func() {
			post <- doOp(db, "set", []byte{0x6c, 1}, []byte("after-close"))
			post <- doOp(db, "del", []byte{0x6c, 2}, nil)
			post <- doOp(db, "get", []byte{0x6c, 1}, nil)
		}()
		for i := 0; i < 3; i++ {
			select {
			case r := <-post:
				atomic.AddInt64(&liveAfterClose, 1)
				note(r)
				if i < 2 && r == "ok" {
					verdict = "write-after-close-succeeded"
				}
			case <-time.After(callTimeout):
				dumpGoroutines("queue_live_stuck.txt")
				return "stuck:call-after-close"
			}
		}
	} else {
		defer func() { defer func() { recover() }(); db.Close() }()
	}
	if b := bad.Load(); b != nil {
		return b.(string)
	}
	return verdict
}

// runWGRace: the witness of close-panics-racing-get.  Each round: fresh DB, `readers`
// goroutines call Get in a tight loop, Close is called; stop at the first round in which
// DB.Close panics with the WaitGroup message.
func runWGRace(kv map[string]int) string {
	rounds, readers := kv["rounds"], kv["readers"]
	if rounds <= 0 || readers <= 0 {
		return "bad-op"
	}
	for i := 0; i < rounds; i++ {
		atomic.AddInt64(&wgRounds, 1)
		dir, err := os.MkdirTemp("", "verif-queue-wg-")
		if err != nil {
			panic(err)
		}
		db := openDB(dir, map[string]int{"mbc": 64, "mbs": 1 << 20, "wbc": 64, "wbs": 1 << 20, "hot": 0, "vt": 1024})
		doOp(db, "set", []byte{0x6b}, []byte("v"))
		var stop int32
		var wg sync.WaitGroup
		for g := 0; g < readers; g++ {
			wg.Add(1)
			go func() {
				defer wg.Done()
				for atomic.LoadInt32(&stop) == 0 {
					doOp(db, "get", []byte{0x6b}, nil)
				}
			}()
		}
		time.Sleep(time.Duration(100+i%7*50) * time.Microsecond)
		res := make(chan string, 1)
		go func() {
			defer func() {
				if r := recover(); r != nil {
					res <- classifyPanic(r)
				}
			}()
			res <- classify(db.Close())
		}()
		var r string
		select {
		case r = <-res:
		case <-time.After(callTimeout):
			atomic.StoreInt32(&stop, 1)
			dumpGoroutines("queue_wgrace_stuck.txt")
			return "stuck:close"
		}
		atomic.StoreInt32(&stop, 1)
		wg.Wait()
		os.RemoveAll(dir)
		if strings.Contains(r, "WaitGroup_is_reused") {
			return "close-panicked"
		}
		if r != "ok" {
			return "close-returned-" + r
		}
	}
	return "close-returned"
}

package main

// `hs <schedule>`: the close / worker-exit handshake of the commit queue, replayed step by
// step on the CURRENT db_write.go.
//
// Nothing in /repo is edited.  On first use the harness copies the current db_write.go,
// inserts yield calls at the points that delimit the model's atomic steps
// (Queue/HandshakeModel.lean: one shared-memory operation per step), adds a scheduler file to
// package NoKV, and builds a second copy of this harness with `go build -overlay` (tags
// `verif verifhs`).  The child runs one schedule: every model thread is a goroutine that
// parks at each yield; `e<i>` / `w` / `c` release exactly one thread until it parks again or
// finishes.  When a statement the instrumenter anchors on is no longer there the op reports
// `instrument-failed:<anchor>` — the tie to the source is broken and the check says so.

import (
	"crypto/sha256"
	"encoding/hex"
	"encoding/json"
	"fmt"
	"os"
	"os/exec"
	"path/filepath"
	"strings"
	"sync"
	"time"

	"verif/harness/hlib"
)

type hsRule struct {
	fn     string // function header prefix
	anchor string // trimmed line (or prefix when prefixOnly)
	prefix bool
	occ    int    // which occurrence inside the function (1-based)
	before string // line inserted before the anchor
	repl   func(line string) string
}

var hsRules = []hsRule{
	{fn: "func (db *DB) enqueueCommitRequest(", anchor: "atomic.AddInt64(&cq.inflight, 1)", occ: 1, before: `verifHS("e0")`},
	{fn: "func (db *DB) enqueueCommitRequest(", anchor: "defer atomic.AddInt64(&cq.inflight, -1)", occ: 1,
		repl: func(string) string { return `defer func() { verifHS("e7"); atomic.AddInt64(&cq.inflight, -1) }()` }},
	{fn: "func (db *DB) enqueueCommitRequest(", anchor: "if atomic.LoadUint32(&cq.closed) == 1 {", occ: 1, before: `verifHS("e1")`},
	{fn: "func (db *DB) enqueueCommitRequest(", anchor: "if !cq.acquireSpace() {", occ: 1, before: `verifHS("e2")`},
	{fn: "func (db *DB) enqueueCommitRequest(", anchor: "if atomic.LoadUint32(&cq.closed) == 1 {", occ: 2, before: `verifHS("e3")`},
	{fn: "func (db *DB) enqueueCommitRequest(", anchor: "if !cq.ring.Push(cr) {", occ: 1, before: `verifHS("e4")`},
	{fn: "func (db *DB) enqueueCommitRequest(", anchor: "atomic.AddInt64(&cq.queueLen, 1)", occ: 1, before: `verifHS("e5")`},
	{fn: "func (db *DB) enqueueCommitRequest(", anchor: "cq.releaseItem()", occ: 1, before: `verifHS("e6")`},
	{fn: "func (cq *commitQueue) acquireItem() bool {", anchor: "if cq.tryAcquireItem() {", occ: 1, before: `verifHS("w0")`},
	{fn: "func (cq *commitQueue) acquireItem() bool {", anchor: "if atomic.LoadUint32(&cq.closed) == 1 {", occ: 1, before: `verifHS("w1")`},
	{fn: "func (cq *commitQueue) acquireItem() bool {", anchor: "if atomic.LoadInt64(&cq.", prefix: true, occ: 1, before: `verifHS("w2")`,
		repl: func(l string) string {
			if !strings.Contains(l, " && atomic.LoadInt64(&cq.") {
				return ""
			}
			return strings.Replace(l, " && ", ` && verifHSb("w3") && `, 1)
		}},
	{fn: "func (cq *commitQueue) acquireItem() bool {", anchor: "select {", occ: 1, before: `verifHS("wb")`},
	{fn: "func (cq *commitQueue) pop() *commitRequest {", anchor: "if cr, ok := cq.ring.Pop(); ok {", occ: 1, before: `verifHS("wp")`},
	{fn: "func (cq *commitQueue) close() bool {", anchor: "if !atomic.CompareAndSwapUint32(&cq.closed, 0, 1) {", occ: 1, before: `verifHS("c0")`},
	{fn: "func (cq *commitQueue) close() bool {", anchor: "if cq.ring != nil {", occ: 1, before: `verifHS("c1")`},
	{fn: "func (cq *commitQueue) close() bool {", anchor: "if cq.closeCh != nil {", occ: 1, before: `verifHS("c2")`},
}

func instrument(src string) (string, error) {
	lines := strings.Split(src, "\n")
	fired := make([]bool, len(hsRules))
	var out []string
	cur := ""
	count := map[string]int{}
	for _, l := range lines {
		if strings.HasPrefix(l, "func ") {
			cur = l
			count = map[string]int{}
		}
		t := strings.TrimSpace(l)
		indent := l[:len(l)-len(strings.TrimLeft(l, "\t "))]
		emitted := false
		// occurrences are counted per (function, anchor text)
		seen := map[string]bool{}
		for i, r := range hsRules {
			if !strings.HasPrefix(cur, r.fn) {
				continue
			}
			match := t == r.anchor || (r.prefix && strings.HasPrefix(t, r.anchor))
			if !match {
				continue
			}
			key := r.anchor
			if !seen[key] {
				seen[key] = true
				count[key]++
			}
			if count[key] != r.occ || fired[i] {
				continue
			}
			fired[i] = true
			if r.before != "" {
				out = append(out, indent+r.before)
			}
			if r.repl != nil {
				nl := r.repl(t)
				if nl == "" {
					return "", fmt.Errorf("%s: unexpected shape of %q", r.fn, t)
				}
				out = append(out, indent+nl)
				emitted = true
			}
		}
		if !emitted {
			out = append(out, l)
		}
	}
	for i, f := range fired {
		if !f {
			return "", fmt.Errorf("%s anchor %q (occurrence %d) not found", hsRules[i].fn, hsRules[i].anchor, hsRules[i].occ)
		}
	}
	return strings.Join(out, "\n"), nil
}

const hsSchedSrc = `//go:build verifhs

package NoKV

import (
	"fmt"
	"runtime"
	"strconv"
	"strings"
	"sync"
	"time"
)

type hsThread struct {
	resume chan struct{}
	parked chan string
	done   chan struct{}
	live   bool
}

var hsCtl struct {
	mu sync.Mutex
	by map[int64]*hsThread
}

func hsGoid() int64 {
	var buf [64]byte
	n := runtime.Stack(buf[:], false)
	f := strings.Fields(string(buf[:n]))
	id, _ := strconv.ParseInt(f[1], 10, 64)
	return id
}

func verifHS(point string) {
	hsCtl.mu.Lock()
	t := hsCtl.by[hsGoid()]
	hsCtl.mu.Unlock()
	if t == nil {
		return
	}
	t.parked <- point
	<-t.resume
}

func verifHSb(point string) bool { verifHS(point); return true }

// VerifHSRun plays one schedule on a bare commit queue of the given capacity.
func VerifHSRun(nEnq, capacity int, sched []string) string {
	db := &DB{opt: &Options{}}
	db.commitQueue.init(capacity)
	cq := &db.commitQueue
	hsCtl.by = map[int64]*hsThread{}
	// a step that does not reach its next yield point in time is reported as "timeout", never
	// as "bad-schedule" (which is reserved for steps the schedule itself makes impossible)
	timedOut := false
	bad := func() string {
		if timedOut {
			return "timeout"
		}
		return "bad-schedule"
	}
	spawn := func(body func()) (*hsThread, bool) {
		t := &hsThread{resume: make(chan struct{}), parked: make(chan string), done: make(chan struct{}), live: true}
		go func() {
			hsCtl.mu.Lock()
			hsCtl.by[hsGoid()] = t
			hsCtl.mu.Unlock()
			body()
			close(t.done)
		}()
		select {
		case <-t.parked:
			return t, true
		case <-t.done:
			t.live = false
			return t, true
		case <-time.After(20 * time.Second):
			timedOut = true
			return t, false
		}
	}
	step := func(t *hsThread) bool {
		if t == nil || !t.live {
			return false
		}
		t.resume <- struct{}{}
		select {
		case <-t.parked:
			return true
		case <-t.done:
			t.live = false
			return true
		case <-time.After(20 * time.Second):
			timedOut = true
			return false
		}
	}
	popped := 0
	worker, ok := spawn(func() {
		for {
			if !cq.acquireItem() {
				return
			}
			if cr := cq.pop(); cr != nil {
				popped++
			}
		}
	})
	if !ok {
		return bad()
	}
	closer, ok := spawn(func() { cq.close() })
	if !ok {
		return bad()
	}
	enq := make([]*hsThread, nEnq)
	for _, a := range sched {
		switch {
		case a == "w":
			if !step(worker) {
				return bad()
			}
		case a == "c":
			if !step(closer) {
				return bad()
			}
		case len(a) >= 2 && (a[0] == 's' || a[0] == 'e'):
			i, err := strconv.Atoi(a[1:])
			if err != nil || i < 0 || i >= nEnq {
				return "bad-schedule"
			}
			if a[0] == 's' {
				if enq[i] != nil && enq[i].live {
					return "bad-schedule"
				}
				t, ok := spawn(func() {
					_ = db.enqueueCommitRequest(&commitRequest{req: &request{}, entryCount: 1, size: 1})
				})
				if !ok {
					return bad()
				}
				enq[i] = t
			} else if !step(enq[i]) {
				return bad()
			}
		default:
			return "bad-schedule"
		}
	}
	if !worker.live {
		if n := cq.ring.Len(); n > 0 {
			return fmt.Sprintf("worker-exited:lost=%d", n)
		}
		return "worker-exited:clean"
	}
	return "worker-running"
}
`

var hsBuild struct {
	once sync.Once
	bin  string
	err  string
}

func harnessDir() string {
	if d := os.Getenv("VERIF_HARNESS_DIR"); d != "" {
		return d
	}
	if exe, err := os.Executable(); err == nil {
		d := filepath.Join(filepath.Dir(filepath.Dir(exe)), "harness")
		if _, err := os.Stat(filepath.Join(d, "go.mod")); err == nil {
			return d
		}
	}
	return "harness"
}

func repoDir(hdir string) string {
	if d := os.Getenv("VERIF_REPO"); d != "" {
		return d
	}
	data, _ := os.ReadFile(filepath.Join(hdir, "go.mod"))
	for _, l := range strings.Split(string(data), "\n") {
		if strings.HasPrefix(l, "replace github.com/feichai0017/NoKV =>") {
			return strings.TrimSpace(strings.TrimPrefix(l, "replace github.com/feichai0017/NoKV =>"))
		}
	}
	return "/repo"
}

func buildHSChild() {
	hdir := harnessDir()
	repo := repoDir(hdir)
	src, err := os.ReadFile(filepath.Join(repo, "db_write.go"))
	if err != nil {
		hsBuild.err = "instrument-failed:cannot-read-db_write.go"
		return
	}
	inst, err := instrument(string(src))
	if err != nil {
		hsBuild.err = "instrument-failed:" + strings.ReplaceAll(err.Error(), " ", "_")
		return
	}
	h := sha256.Sum256([]byte(inst + hsSchedSrc))
	// cached under <verif>/work, keyed by the content of the instrumented source + scheduler
	tmp := filepath.Join(filepath.Dir(hdir), "work", "queue-hs-"+hex.EncodeToString(h[:8]))
	bin := filepath.Join(tmp, "h_queue_hs")
	if _, err := os.Stat(bin); err == nil {
		hsBuild.bin = bin
		return
	}
	os.MkdirAll(tmp, 0o755)
	os.WriteFile(filepath.Join(tmp, "db_write.go"), []byte(inst), 0o644)
	os.WriteFile(filepath.Join(tmp, "verif_hs_sched.go"), []byte(hsSchedSrc), 0o644)
	ov := map[string]any{"Replace": map[string]string{
		filepath.Join(repo, "db_write.go"):        filepath.Join(tmp, "db_write.go"),
		filepath.Join(repo, "verif_hs_sched.go"): filepath.Join(tmp, "verif_hs_sched.go"),
	}}
	buf, _ := json.Marshal(ov)
	os.WriteFile(filepath.Join(tmp, "overlay.json"), buf, 0o644)
	cmd := exec.Command("go", "build", "-tags", "verif verifhs", "-overlay", filepath.Join(tmp, "overlay.json"), "-o", bin+".tmp", "./cmd/queue")
	cmd.Dir = hdir
	cmd.Env = append(os.Environ(), "GOFLAGS=-mod=mod", "GOPROXY=off")
	if outp, err := cmd.CombinedOutput(); err != nil {
		os.MkdirAll("work", 0o755)
		os.WriteFile("work/queue_hs_build.log", outp, 0o644)
		hsBuild.err = "instrument-failed:instrumented-tree-does-not-build"
		return
	}
	os.Rename(bin+".tmp", bin)
	hsBuild.bin = bin
}

var hsRuns int64

func runHandshake(sched []string) string {
	hsBuild.once.Do(buildHSChild)
	if hsBuild.err != "" {
		return hsBuild.err
	}
	// a timeout (child did not finish / a step did not reach its next yield in 20 s) says
	// nothing about the schedule: retry, and only a timeout that reproduces is reported
	res := ""
	for attempt := 0; attempt < 3; attempt++ {
		res = runHandshakeOnce(sched)
		if res != "timeout" {
			return res
		}
		hsTimeoutRetries++
	}
	return res
}

var hsTimeoutRetries int64

func runHandshakeOnce(sched []string) string {
	cmd := exec.Command(hsBuild.bin, append([]string{"hs-child"}, sched...)...)
	done := make(chan struct{})
	var outp []byte
	var err error
	go func() { outp, err = cmd.Output(); close(done) }()
	select {
	case <-done:
	case <-time.After(180 * time.Second):
		cmd.Process.Kill()
		return "timeout"
	}
	hsRuns++
	res := strings.TrimSpace(string(outp))
	if err != nil && res == "" {
		return "child-failed"
	}
	return res
}

// ---- generator: a Go copy of the step-enabledness of Queue/HandshakeModel.lean, used only to
// produce schedules every step of which is enabled (outcomes are never taken from it).

type hsModel struct {
	pcs                        []int // 0 idle, 1..8 = e0..e7, 9 = ef
	wpc, cpc                   int   // wpc: 0 w0,1 w1,2 wb,3 w2,4 w3,5 wp,6 exited
	closed, ringClosed, closCh bool
	inflight, qlen, items, sp  int
	ring                       int
	inflightFirst              bool
}

func (m *hsModel) enabled(a string) bool {
	switch {
	case a == "w":
		switch m.wpc {
		case 2:
			if m.items > 0 && m.closCh {
				return false // both arms of the worker's select ready: Go picks at random
			}
			return m.items > 0 || m.closCh
		case 5:
			return m.ring > 0 || (m.closed && m.qlen == 0)
		case 6:
			return false
		}
		return true
	case a == "c":
		return m.cpc < 3
	case a[0] == 's':
		return m.pcs[int(a[1]-'0')] == 0
	default:
		pc := m.pcs[int(a[1]-'0')]
		if pc == 0 {
			return false
		}
		if pc == 3 { // e2: acquireSpace's select
			if m.sp > 0 && m.closCh {
				return false // both arms ready: Go picks at random (model: actions enq / enqc)
			}
			return m.sp > 0 || m.closCh
		}
		return true
	}
}

func (m *hsModel) apply(a string) {
	switch {
	case a == "w":
		switch m.wpc {
		case 0:
			if m.items > 0 {
				m.items--
				m.wpc = 5
			} else {
				m.wpc = 1
			}
		case 1:
			if m.closed {
				m.wpc = 3
			} else {
				m.wpc = 2
			}
		case 2:
			if m.items > 0 {
				m.items--
				m.wpc = 5
			} else {
				m.wpc = 0
			}
		case 3:
			first := m.qlen
			if m.inflightFirst {
				first = m.inflight
			}
			if first == 0 {
				m.wpc = 4
			} else {
				m.wpc = 0
			}
		case 4:
			second := m.inflight
			if m.inflightFirst {
				second = m.qlen
			}
			if second == 0 {
				m.wpc = 6
			} else {
				m.wpc = 0
			}
		case 5:
			if m.ring > 0 {
				m.ring--
				m.qlen--
				m.sp++
			}
			m.wpc = 0
		}
	case a == "c":
		switch m.cpc {
		case 0:
			m.closed = true
		case 1:
			m.ringClosed = true
		case 2:
			m.closCh = true
		}
		m.cpc++
	case a[0] == 's':
		m.pcs[int(a[1]-'0')] = 1
	default:
		i := int(a[1] - '0')
		switch m.pcs[i] {
		case 1:
			m.inflight++
			m.pcs[i] = 2
		case 2:
			if m.closed {
				m.pcs[i] = 9
			} else {
				m.pcs[i] = 3
			}
		case 3:
			if m.sp > 0 {
				m.sp--
				m.pcs[i] = 4
			} else {
				m.pcs[i] = 9
			}
		case 4:
			if m.closed {
				m.sp++
				m.pcs[i] = 9
			} else {
				m.pcs[i] = 5
			}
		case 5:
			if m.ringClosed {
				m.sp++
				m.pcs[i] = 9
			} else {
				m.ring++
				m.pcs[i] = 6
			}
		case 6:
			m.qlen++
			m.pcs[i] = 7
		case 7:
			m.items++
			m.pcs[i] = 8
		case 8, 9:
			m.inflight--
			m.pcs[i] = 0
		}
	}
}

func genHandshake(r *hlib.Rand) []string {
	m := &hsModel{pcs: make([]int, 2), sp: 2, inflightFirst: cfgFlag("q.exitCheckOrder") == "inflightFirst"}
	sched := []string{}
	n := 12 + r.Intn(30)
	closeAfter := 3 + r.Intn(10)
	for i := 0; i < n; i++ {
		cands := []string{}
		for _, a := range []string{"s0", "s1", "e0", "e1", "e0", "e1", "w", "w"} {
			if m.enabled(a) {
				cands = append(cands, a)
			}
		}
		if i >= closeAfter && m.enabled("c") {
			cands = append(cands, "c", "c", "c")
		}
		if len(cands) == 0 {
			break
		}
		a := hlib.Pick(r, cands)
		m.apply(a)
		sched = append(sched, a)
	}
	return []string{"hs " + strings.Join(sched, " ")}
}

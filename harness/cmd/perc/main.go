// Correspondence harness for the Percolator engine: C17 (transactional reads), C18 (unique,
// final, conflict-free outcome), C19 (lock lifetime, TTL / min-commit decisions).
//
// Every request line is executed with the real raftstore/kv.Apply on a real NoKV.DB (temp dir,
// default options).  One DB serves a batch of cases: each case lives under its own 4-byte key
// prefix (stripped again from every reply), the DB is thrown away and reopened every
// `casesPerDB` cases.  Flushes / compactions are not provoked here: the three properties are
// checked at the level of the versioned store, their composition with LSM maintenance is C02's.
package main

import (
	"bytes"
	"encoding/binary"
	"encoding/json"
	"flag"
	"fmt"
	"math"
	"os"
	"path/filepath"
	"sort"
	"strconv"
	"strings"
	"time"

	NoKV "github.com/feichai0017/NoKV"
	nkv "github.com/feichai0017/NoKV/kv"
	"github.com/feichai0017/NoKV/pb"
	"github.com/feichai0017/NoKV/percolator"
	"github.com/feichai0017/NoKV/raftstore/kv"
	"github.com/feichai0017/NoKV/utils"

	"verif/harness/hlib"
)

var prop = flag.String("prop", "C17", "property: C17|C18|C19")

const casesPerDB = 150

type engine struct {
	prop   string
	db     *NoKV.DB
	dir    string
	nCases int
	seq    uint32
	stats  map[string]int
}

func (e *engine) open() {
	if e.db != nil {
		_ = e.db.Close()
		os.RemoveAll(e.dir)
		e.db = nil
	}
	dir, err := os.MkdirTemp("", "verif-perc-")
	if err != nil {
		panic(err)
	}
	opt := NoKV.NewDefaultOptions()
	opt.WorkDir = dir
	e.dir = dir
	e.db = NoKV.Open(opt)
	e.nCases = 0
}

func (e *engine) cleanup() {
	if e.db != nil {
		_ = e.db.Close()
		os.RemoveAll(e.dir)
		e.db = nil
	}
}

// ---------------------------------------------------------------- canonical output

func kindName(op pb.Mutation_Op) string {
	switch op {
	case pb.Mutation_Put:
		return "put"
	case pb.Mutation_Delete:
		return "del"
	case pb.Mutation_Lock:
		return "lock"
	case pb.Mutation_Rollback:
		return "rollback"
	}
	return fmt.Sprintf("kind%d", int32(op))
}

type caseCtx struct {
	e      *engine
	prefix []byte
}

func (c *caseCtx) phys(k []byte) []byte {
	if len(k) == 0 {
		return nil
	}
	return append(append([]byte(nil), c.prefix...), k...)
}

func (c *caseCtx) logical(k []byte) []byte {
	if bytes.HasPrefix(k, c.prefix) {
		return k[len(c.prefix):]
	}
	return k
}

func (c *caseCtx) lockFields(ts, ttl uint64, kind pb.Mutation_Op, minc uint64, primary []byte) string {
	return fmt.Sprintf("%d,%d,%s,%d,%s", ts, ttl, kindName(kind), minc, hlib.Hex(c.logical(primary)))
}

func (c *caseCtx) keyErr(e *pb.KeyError) string {
	switch {
	case e == nil:
		return "-"
	case e.GetLocked() != nil:
		l := e.GetLocked()
		return fmt.Sprintf("locked(%s,%s)", hlib.Hex(c.logical(l.GetKey())),
			c.lockFields(l.GetLockVersion(), l.GetLockTtl(), l.GetLockType(), l.GetMinCommitTs(), l.GetPrimaryLock()))
	case e.GetWriteConflict() != nil:
		w := e.GetWriteConflict()
		return fmt.Sprintf("conflict(%s,%s,%d,%d,%d)", hlib.Hex(c.logical(w.GetKey())), hlib.Hex(c.logical(w.GetPrimary())),
			w.GetConflictTs(), w.GetStartTs(), w.GetCommitTs())
	case e.GetCommitTsExpired() != nil:
		x := e.GetCommitTsExpired()
		return fmt.Sprintf("expired(%s,%d,%d)", hlib.Hex(c.logical(x.GetKey())), x.GetCommitTs(), x.GetMinCommitTs())
	case e.GetAbort() != "":
		a := e.GetAbort()
		switch {
		case strings.HasPrefix(a, "empty key"):
			return "abort(emptykey)"
		case strings.HasPrefix(a, "unsupported mutation op"):
			return "abort(badop)"
		case a == "lock not found":
			return "abort(nolock)"
		case a == "transaction already rolled back":
			return "abort(rolledback)"
		}
		return "abort(other:" + strings.ReplaceAll(a, " ", "_") + ")"
	case e.GetRetryable() != "":
		return "retry"
	case e.GetAlreadyExists() != nil:
		return "exists"
	}
	return "emptyerr"
}

func okOrErr(s string) string {
	if s == "-" {
		return "ok"
	}
	return "err:" + s
}

func u64(s string) uint64 {
	v, err := strconv.ParseUint(s, 10, 64)
	if err != nil {
		panic("bad number in op line: " + s)
	}
	return v
}

func (c *caseCtx) keys(s string) [][]byte {
	if s == "-" || s == "" {
		return nil
	}
	var out [][]byte
	for _, p := range strings.Split(s, ",") {
		out = append(out, c.phys(hlib.UnHex(p)))
	}
	return out
}

func (c *caseCtx) apply(r *pb.Request) (*pb.Response, bool) {
	resp, err := kv.Apply(c.e.db, &pb.RaftCmdRequest{Header: &pb.CmdHeader{RegionId: 1}, Requests: []*pb.Request{r}})
	if err != nil || resp == nil || len(resp.Responses) != 1 {
		return nil, false
	}
	return resp.Responses[0], true
}

func (c *caseCtx) exec(op string) string {
	f := strings.Fields(op)
	if len(f) == 0 {
		return "bad-op"
	}
	switch {
	case f[0] == "pw" && len(f) == 6:
		req := &pb.PrewriteRequest{StartVersion: u64(f[1]), PrimaryLock: c.phys(hlib.UnHex(f[2])), LockTtl: u64(f[3]), MinCommitTs: u64(f[4])}
		if f[5] != "-" {
			for _, m := range strings.Split(f[5], ",") {
				p := strings.Split(m, ":")
				if len(p) != 3 {
					return "bad-op"
				}
				var o pb.Mutation_Op
				switch p[0] {
				case "P":
					o = pb.Mutation_Put
				case "D":
					o = pb.Mutation_Delete
				case "L":
					o = pb.Mutation_Lock
				case "X":
					o = pb.Mutation_Rollback
				default:
					return "bad-op"
				}
				req.Mutations = append(req.Mutations, &pb.Mutation{Op: o, Key: c.phys(hlib.UnHex(p[1])), Value: hlib.UnHex(p[2])})
			}
		}
		r, ok := c.apply(&pb.Request{CmdType: pb.CmdType_CMD_PREWRITE, Cmd: &pb.Request_Prewrite{Prewrite: req}})
		if !ok {
			return "apply-error"
		}
		errs := r.GetPrewrite().GetErrors()
		if len(errs) == 0 {
			return "ok"
		}
		var parts []string
		for _, e := range errs {
			parts = append(parts, c.keyErr(e))
		}
		return "err:" + strings.Join(parts, ";")
	case f[0] == "cm" && len(f) == 4:
		r, ok := c.apply(&pb.Request{CmdType: pb.CmdType_CMD_COMMIT, Cmd: &pb.Request_Commit{Commit: &pb.CommitRequest{
			StartVersion: u64(f[1]), CommitVersion: u64(f[2]), Keys: c.keys(f[3])}}})
		if !ok {
			return "apply-error"
		}
		return okOrErr(c.keyErr(r.GetCommit().GetError()))
	case f[0] == "rb" && len(f) == 3:
		r, ok := c.apply(&pb.Request{CmdType: pb.CmdType_CMD_BATCH_ROLLBACK, Cmd: &pb.Request_BatchRollback{BatchRollback: &pb.BatchRollbackRequest{
			StartVersion: u64(f[1]), Keys: c.keys(f[2])}}})
		if !ok {
			return "apply-error"
		}
		return okOrErr(c.keyErr(r.GetBatchRollback().GetError()))
	case f[0] == "rl" && len(f) == 4:
		r, ok := c.apply(&pb.Request{CmdType: pb.CmdType_CMD_RESOLVE_LOCK, Cmd: &pb.Request_ResolveLock{ResolveLock: &pb.ResolveLockRequest{
			StartVersion: u64(f[1]), CommitVersion: u64(f[2]), Keys: c.keys(f[3])}}})
		if !ok {
			return "apply-error"
		}
		return fmt.Sprintf("%s:n=%d", okOrErr(c.keyErr(r.GetResolveLock().GetError())), r.GetResolveLock().GetResolvedLocks())
	case f[0] == "cs" && len(f) == 6:
		r, ok := c.apply(&pb.Request{CmdType: pb.CmdType_CMD_CHECK_TXN_STATUS, Cmd: &pb.Request_CheckTxnStatus{CheckTxnStatus: &pb.CheckTxnStatusRequest{
			PrimaryKey: c.phys(hlib.UnHex(f[1])), LockTs: u64(f[2]), CurrentTs: u64(f[3]), RollbackIfNotExist: f[4] != "0", CallerStartTs: u64(f[5])}}})
		if !ok {
			return "apply-error"
		}
		x := r.GetCheckTxnStatus()
		return fmt.Sprintf("cs:%s:%d:%d:%d", c.keyErr(x.GetError()), x.GetLockTtl(), x.GetCommitVersion(), int32(x.GetAction()))
	case f[0] == "get" && len(f) == 3:
		key := hlib.UnHex(f[1])
		r, ok := c.apply(&pb.Request{CmdType: pb.CmdType_CMD_GET, Cmd: &pb.Request_Get{Get: &pb.GetRequest{Key: c.phys(key), Version: u64(f[2])}}})
		if !ok {
			return "apply-error"
		}
		g := r.GetGet()
		switch {
		case g.GetError() != nil:
			return c.keyErr(g.GetError())
		case g.GetNotFound():
			return "notfound"
		default:
			return "val:" + hlib.Hex(g.GetValue())
		}
	case f[0] == "scan" && len(f) == 5:
		start := hlib.UnHex(f[1])
		incl := f[2] != "0"
		pstart := c.phys(start)
		if len(start) == 0 {
			// logical "from the beginning" = from this case's prefix (nothing equals the bare prefix)
			pstart, incl = append([]byte(nil), c.prefix...), true
		}
		r, ok := c.apply(&pb.Request{CmdType: pb.CmdType_CMD_SCAN, Cmd: &pb.Request_Scan{Scan: &pb.ScanRequest{
			StartKey: pstart, IncludeStart: incl, Limit: uint32(u64(f[3])), Version: u64(f[4])}}})
		if !ok {
			return "apply-error"
		}
		var kvs []string
		for _, p := range r.GetScan().GetKvs() {
			kvs = append(kvs, hlib.Hex(c.logical(p.GetKey()))+"="+hlib.Hex(p.GetValue()))
		}
		ks := "-"
		if len(kvs) > 0 {
			ks = strings.Join(kvs, ",")
		}
		return "kvs=" + ks + ";err=" + c.keyErr(r.GetScan().GetError())
	case f[0] == "lock" && len(f) == 2:
		l, err := percolator.NewReader(c.e.db).GetLock(c.phys(hlib.UnHex(f[1])))
		if err != nil {
			return "error"
		}
		if l == nil {
			return "none"
		}
		return "lock(" + c.lockFields(l.Ts, l.TTL, l.Kind, l.MinCommitTs, l.Primary) + ")"
	case f[0] == "dump" || f[0] == "inv":
		return c.dump(f[0] == "inv")
	}
	return "bad-op"
}

type wrec struct {
	key       []byte
	ts, start uint64
	kind      pb.Mutation_Op
}

// dump lists every live entry of this case's keys in the three column families (iterator order:
// default, lock, write; keys ascending; versions descending).  inv=true: count the pairs of
// committed records of one key with overlapping [start, commit].
func (c *caseCtx) dump(inv bool) string {
	it := c.e.db.NewInternalIterator(&utils.Options{IsAsc: true})
	defer it.Close()
	var out []string
	var ws []wrec
	for it.Rewind(); it.Valid(); it.Next() {
		item := it.Item()
		if item == nil || item.Entry() == nil {
			continue
		}
		en := item.Entry()
		cf, uk, ts := nkv.SplitInternalKey(en.Key)
		if !bytes.HasPrefix(uk, c.prefix) || en.Meta&nkv.BitDelete > 0 {
			continue
		}
		k := hlib.Hex(c.logical(uk))
		switch cf {
		case nkv.CFDefault:
			out = append(out, fmt.Sprintf("D:%s:%d:%s", k, ts, hlib.Hex(en.Value)))
		case nkv.CFLock:
			l, err := percolator.DecodeLock(en.Value)
			if err != nil {
				out = append(out, "L:"+k+":undecodable")
				continue
			}
			out = append(out, fmt.Sprintf("L:%s:%s", k, c.lockFields(l.Ts, l.TTL, l.Kind, l.MinCommitTs, l.Primary)))
		case nkv.CFWrite:
			w, err := percolator.DecodeWrite(en.Value)
			if err != nil {
				out = append(out, "W:"+k+":undecodable")
				continue
			}
			out = append(out, fmt.Sprintf("W:%s:%d:%d:%s", k, ts, w.StartTs, kindName(w.Kind)))
			ws = append(ws, wrec{append([]byte(nil), uk...), ts, w.StartTs, w.Kind})
		}
	}
	if inv {
		n := 0
		for i := range ws {
			for j := i + 1; j < len(ws); j++ {
				a, b := ws[i], ws[j]
				if !bytes.Equal(a.key, b.key) || a.kind == pb.Mutation_Rollback || b.kind == pb.Mutation_Rollback {
					continue
				}
				if !(a.ts < b.start || b.ts < a.start) {
					n++
				}
			}
		}
		return fmt.Sprintf("overlap=%d", n)
	}
	if len(out) == 0 {
		return "-"
	}
	return strings.Join(out, ";")
}

func (e *engine) Exec(ops []string) []string {
	if e.db == nil || e.nCases >= casesPerDB {
		e.open()
	}
	e.nCases++
	e.seq++
	c := &caseCtx{e: e, prefix: make([]byte, 4)}
	binary.BigEndian.PutUint32(c.prefix, e.seq)
	out := make([]string, len(ops))
	for i, op := range ops {
		out[i] = func() (res string) {
			defer func() {
				if r := recover(); r != nil {
					res = fmt.Sprintf("panic:%v", r)
				}
			}()
			return c.exec(op)
		}()
	}
	return out
}

// ---------------------------------------------------------------- generator

var keyPool = [][]byte{{0x61}, {0x61, 0x00}, {0x61, 0x62}, {0x62}, {0x63}, {0xff}}

const maxU64 = uint64(math.MaxUint64)

type txn struct {
	start   uint64
	commit  uint64
	keys    [][]byte
	ops     []string // P/D/L per key
	vals    [][]byte
	ttl     uint64
	minc    uint64
	primary []byte
}

func keyList(ks [][]byte) string {
	if len(ks) == 0 {
		return "-"
	}
	var p []string
	for _, k := range ks {
		p = append(p, hlib.Hex(k))
	}
	return strings.Join(p, ",")
}

func subset(r *hlib.Rand, ks [][]byte) [][]byte {
	if r.Chance(70) {
		return ks
	}
	var out [][]byte
	for _, k := range ks {
		if r.Bool() {
			out = append(out, k)
		}
	}
	if len(out) == 0 {
		out = append(out, ks[r.Intn(len(ks))])
	}
	if r.Chance(15) {
		out = append(out, out[0]) // duplicate key in one request
	}
	return out
}

func (e *engine) Gen(r *hlib.Rand, tier string) []string {
	nk := 2 + r.Intn(3)
	perm := append([][]byte(nil), keyPool...)
	for i := range perm {
		j := i + r.Intn(len(perm)-i)
		perm[i], perm[j] = perm[j], perm[i]
	}
	keys := perm[:nk]
	nt := 2 + r.Intn(4)
	starts := []uint64{10, 20, 30, 40, 50, 60}
	var txns []*txn
	for i := 0; i < nt; i++ {
		t := &txn{start: starts[i]}
		if i > 0 && r.Chance(5) {
			t.start = starts[i-1] // two "transactions" sharing a start ts = one transaction sending odd requests
		}
		t.commit = t.start + 5
		n := 1 + r.Intn(nk)
		for j := 0; j < n; j++ {
			k := keys[(i+j*(1+r.Intn(2)))%nk]
			dup := false
			for _, x := range t.keys {
				if bytes.Equal(x, k) {
					dup = true
				}
			}
			if dup {
				continue
			}
			t.keys = append(t.keys, k)
			t.ops = append(t.ops, hlib.Pick(r, []string{"P", "P", "P", "P", "D", "L"}))
			t.vals = append(t.vals, []byte(fmt.Sprintf("v%d%c", t.start, 'a'+byte(j))))
		}
		t.primary = t.keys[0]
		t.ttl = hlib.Pick(r, []uint64{0, 3, 15, 100, 100, 100, maxU64, maxU64 - t.start + 2})
		t.minc = hlib.Pick(r, []uint64{0, 0, 0, t.start + 1, t.start + 6, t.start + 8})
		txns = append(txns, t)
	}
	readTs := func(t *txn) uint64 {
		return hlib.Pick(r, []uint64{t.start - 1, t.start, t.start + 1, t.start + 4, t.start + 5, t.start + 6, 1000, 1000, maxU64})
	}
	n := 10 + r.Intn(30)
	if tier == "thorough" {
		n = 10 + r.Intn(50)
	}
	var ops []string
	w := map[string]int{"pw": 22, "cm": 14, "rb": 8, "rl": 5, "cs": 8, "get": 16, "scan": 9, "lock": 10, "dump": 5, "inv": 3}
	switch e.prop {
	case "C18":
		w["cm"], w["rb"], w["inv"], w["scan"], w["get"] = 18, 10, 5, 4, 8
	case "C19":
		w["lock"], w["cs"], w["get"], w["scan"] = 18, 14, 6, 3
	}
	names := make([]string, 0, len(w))
	for k := range w {
		names = append(names, k)
	}
	sort.Strings(names)
	total := 0
	for _, k := range names {
		total += w[k]
	}
	pick := func() string {
		x := r.Intn(total)
		for _, k := range names {
			if x < w[k] {
				return k
			}
			x -= w[k]
		}
		return "get"
	}
	for i := 0; i < n; i++ {
		t := txns[r.Intn(len(txns))]
		switch pick() {
		case "pw":
			var muts []string
			for j, k := range t.keys {
				if len(t.keys) > 1 && r.Chance(20) {
					continue
				}
				op, val := t.ops[j], "-"
				if op == "P" {
					val = hlib.Hex(t.vals[j])
				}
				if r.Chance(2) {
					op, val = "X", "-"
				}
				muts = append(muts, op+":"+hlib.Hex(k)+":"+val)
			}
			if r.Chance(2) {
				muts = append(muts, "P:-:"+hlib.Hex([]byte("e")))
			}
			if len(muts) == 0 {
				muts = append(muts, t.ops[0]+":"+hlib.Hex(t.keys[0])+":"+map[bool]string{true: hlib.Hex(t.vals[0]), false: "-"}[t.ops[0] == "P"])
			}
			ops = append(ops, fmt.Sprintf("pw %d %s %d %d %s", t.start, hlib.Hex(t.primary), t.ttl, t.minc, strings.Join(muts, ",")))
		case "cm":
			ct := t.commit
			if r.Chance(6) {
				ct = t.start + 7
			}
			if r.Chance(3) {
				ct = t.start - 8 // below its own start ts: not a well-formed commit
			}
			ks := subset(r, t.keys)
			if r.Chance(2) {
				ks = append(append([][]byte(nil), ks...), nil)
			}
			if r.Chance(6) {
				ks = append(append([][]byte(nil), ks...), hlib.Pick(r, keys))
			}
			ops = append(ops, fmt.Sprintf("cm %d %d %s", t.start, ct, keyList(ks)))
		case "rb":
			ks := subset(r, t.keys)
			if r.Chance(15) {
				ks = append(append([][]byte(nil), ks...), hlib.Pick(r, keys)) // a key the txn was refused on
			}
			if r.Chance(2) {
				ks = append([][]byte{nil}, ks...)
			}
			ops = append(ops, fmt.Sprintf("rb %d %s", t.start, keyList(ks)))
		case "rl":
			ct := t.commit
			if r.Chance(50) {
				ct = 0
			}
			ks := subset(r, keys)
			ops = append(ops, fmt.Sprintf("rl %d %d %s", t.start, ct, keyList(ks)))
		case "cs":
			cur := hlib.Pick(r, []uint64{t.start + 1, t.start + t.ttl - 1, t.start + t.ttl, t.start + t.ttl + 1, 1000, maxU64, 0})
			caller := hlib.Pick(r, []uint64{0, 0, t.start + 3, t.start + 7, t.start + 12, maxU64})
			pk := t.primary
			if r.Chance(10) {
				pk = hlib.Pick(r, keys)
			}
			if r.Chance(1) {
				pk = nil
			}
			ops = append(ops, fmt.Sprintf("cs %s %d %d %d %d", hlib.Hex(pk), t.start, cur, r.Intn(2), caller))
		case "get":
			k := hlib.Pick(r, keys)
			ops = append(ops, fmt.Sprintf("get %s %d", hlib.Hex(k), readTs(t)))
			if r.Chance(40) {
				// the same read as a scan of one key: gets and scans must agree
				ops = append(ops, fmt.Sprintf("scan %s 1 1 %d", hlib.Hex(k), ops2ts(ops[len(ops)-1])))
			}
		case "scan":
			sk := hlib.Pick(r, [][]byte{nil, nil, keys[0], keys[1], {0x61}, {0x62, 0x00}})
			ts := readTs(t)
			if r.Chance(10) {
				ts = 0
			}
			ops = append(ops, fmt.Sprintf("scan %s %d %d %d", hlib.Hex(sk), r.Intn(2), hlib.Pick(r, []int{0, 1, 2, 10, 10}), ts))
		case "lock":
			ops = append(ops, "lock "+hlib.Hex(hlib.Pick(r, keys)))
		case "dump":
			ops = append(ops, "dump")
		case "inv":
			ops = append(ops, "inv")
		}
	}
	// closing observations: every key's lock, the whole state, reads at the end of time
	for _, k := range keys {
		ops = append(ops, "lock "+hlib.Hex(k), fmt.Sprintf("get %s 1000", hlib.Hex(k)))
	}
	ops = append(ops, "scan - 1 10 1000", "inv", "dump")
	return ops
}

func ops2ts(getOp string) uint64 {
	f := strings.Fields(getOp)
	return u64(f[2])
}

// ---------------------------------------------------------------- non-trivial rule

func (e *engine) Rule() string {
	switch e.prop {
	case "C18":
		return "C18: 2-5 transactions (start ts 10,20,..; commit ts start+5, sometimes +7 or below start) over 2-4 of 6 keys (prefix pairs, 00/ff bytes), requests in random order with duplicates, late requests, foreign keys, empty keys; non-trivial = at least one successful commit, one rollback or resolve, and one refused request (commit/prewrite answered with an error)"
	case "C19":
		return "C19: same histories, weighted to lock observations and CheckTxnStatus (ttl 0, small, 2^64-1 and wrapping; caller ts pushing min-commit); non-trivial = a key is seen locked and later unlocked, or CheckTxnStatus took an action"
	}
	return "C17: same histories, weighted to reads: gets (each often repeated as a 1-key scan) and range scans at timestamps around every start/commit ts, 0 and 2^64-1; non-trivial = some read returned a committed value and some read met a lock, a rollback record or a lock-only record"
}

func (e *engine) Nontrivial(ops, impl, model, spec []string) bool {
	var val, special, cmOK, rbOK, refused, locked, unlockedAfter, action bool
	seenLocked := map[string]bool{}
	for i, op := range ops {
		f := strings.Fields(op)
		o := impl[i]
		switch f[0] {
		case "get", "scan":
			if strings.HasPrefix(o, "val:") || (strings.HasPrefix(o, "kvs=") && !strings.HasPrefix(o, "kvs=-")) {
				val = true
			}
			if strings.Contains(o, "locked(") {
				special = true
			}
		case "dump":
			if strings.Contains(o, ":rollback") || strings.Contains(o, ":lock;") || strings.HasSuffix(o, ":lock") {
				special = true
			}
		case "cm":
			if o == "ok" {
				cmOK = true
			} else {
				refused = true
			}
		case "pw":
			if o != "ok" {
				refused = true
			}
		case "rb", "rl":
			if strings.HasPrefix(o, "ok") {
				rbOK = true
			}
		case "lock":
			if o != "none" {
				locked = true
				seenLocked[f[1]] = true
			} else if seenLocked[f[1]] {
				unlockedAfter = true
			}
		case "cs":
			if !strings.HasSuffix(o, ":0") {
				action = true
			}
		}
	}
	switch e.prop {
	case "C18":
		return cmOK && rbOK && refused
	case "C19":
		return (locked && unlockedAfter) || action
	}
	return val && special
}

func (e *engine) Extra() map[string]any {
	return map[string]any{"cases_per_db": casesPerDB, "maintenance": "not provoked (default options, memtable only); composition with flush/compaction is C02's"}
}

// ---------------------------------------------------------------- main

// The check passes only the facts its property owns on the -cfg line.  The model needs every
// Percolator fact to follow the code as it is, so the remaining ones are taken from the
// extractor's output of this very run (work/facts_perc.json); `prop=` selects the spec columns.
func completeCfg(args []string, prop string) {
	for i, a := range args {
		if a != "-cfg" || i+1 >= len(args) {
			continue
		}
		line := args[i+1]
		have := map[string]bool{}
		for _, t := range strings.Fields(line)[1:] {
			if j := strings.IndexByte(t, '='); j > 0 {
				have[t[:j]] = true
			}
		}
		path := os.Getenv("VERIF_PERC_FACTS")
		if path == "" {
			path = "work/facts_perc.json"
		}
		if buf, err := os.ReadFile(path); err == nil {
			var fx struct {
				Facts map[string]string `json:"facts"`
			}
			if json.Unmarshal(buf, &fx) == nil {
				names := make([]string, 0, len(fx.Facts))
				for k := range fx.Facts {
					names = append(names, k)
				}
				sort.Strings(names)
				for _, k := range names {
					if !have[k] {
						line += " " + k + "=" + fx.Facts[k]
					}
				}
			}
		}
		args[i+1] = line + " prop=" + prop
	}
}

// hlib.NewRand(seed) starts a Weyl sequence at seed*phi: the streams of seed k and k+1 are the
// same stream shifted by one draw, so consecutive VERIF_SEEDs would replay the same cases.  The
// seed is therefore hashed (splitmix64 finaliser) before hlib sees it; the mapping is fixed, so a
// run is still reproduced by its VERIF_SEED.
func mixSeed(args []string) {
	for i, a := range args {
		if a == "-seed" && i+1 < len(args) {
			if v, err := strconv.ParseUint(args[i+1], 10, 64); err == nil {
				z := v + 0x9E3779B97F4A7C15
				z = (z ^ (z >> 30)) * 0xBF58476D1CE4E5B9
				z = (z ^ (z >> 27)) * 0x94D049BB133111EB
				z ^= z >> 31
				args[i+1] = strconv.FormatUint(z, 10)
			}
		}
	}
}

func main() {
	for i, a := range os.Args {
		if a == "-prop" && i+1 < len(os.Args) {
			*prop = os.Args[i+1]
		}
		if strings.HasPrefix(a, "-prop=") {
			*prop = strings.TrimPrefix(a, "-prop=")
		}
	}
	if *prop != "C17" && *prop != "C18" && *prop != "C19" {
		fmt.Fprintln(os.Stderr, "unknown -prop")
		os.Exit(2)
	}
	completeCfg(os.Args, *prop)
	mixSeed(os.Args)
	// replay mode leaves through os.Exit inside hlib: remove DB directories of earlier runs
	if old, _ := filepath.Glob(filepath.Join(os.TempDir(), "verif-perc-*")); len(old) > 0 {
		for _, d := range old {
			if st, err := os.Stat(d); err == nil && time.Since(st.ModTime()) > 30*time.Minute {
				os.RemoveAll(d)
			}
		}
	}
	e := &engine{prop: *prop}
	defer e.cleanup()
	hlib.Main("perc/"+*prop, e)
	e.cleanup()
}

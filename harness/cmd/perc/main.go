// Correspondence harness for the Percolator engine: C17 (transactional reads), C18 (unique,
// final, conflict-free outcome), C19 (lock lifetime, TTL / min-commit decisions).
//
// Every request line is executed with the real raftstore/kv.Apply on a real NoKV.DB (temp dir,
// default options).  One DB serves a batch of cases: each case lives under its own 4-byte key
// prefix (stripped again from every reply), the DB is thrown away and reopened every
// `casesPerDB` cases.  Flushes / compactions are not provoked here: the three properties are
// checked at the level of the versioned store, their composition with LSM maintenance is C02's.
package main

import (
	"bytes"
	"encoding/binary"
	"encoding/json"
	"flag"
	"fmt"
	"io"
	"log"
	"math"
	"os"
	"path/filepath"
	"sort"
	"strconv"
	"strings"
	"time"

	NoKV "github.com/feichai0017/NoKV"
	nkv "github.com/feichai0017/NoKV/kv"
	"github.com/feichai0017/NoKV/pb"
	"github.com/feichai0017/NoKV/percolator"
	"github.com/feichai0017/NoKV/percolator/latch"
	"github.com/feichai0017/NoKV/raftstore/kv"
	"github.com/feichai0017/NoKV/utils"

	"verif/harness/hlib"
)

var prop = flag.String("prop", "C17", "property: C17|C18|C19")

const casesPerDB = 150

// share of maintenance cases in a C19 run (VERIF_PERC_MAINT_PCT overrides it for experiments)
var maintPct = 12

type engine struct {
	prop   string
	db     *NoKV.DB
	dir    string
	nCases int
	seq    uint32
	stats  map[string]int

	maintCases int
}

func (e *engine) open() {
	if e.db != nil {
		_ = e.db.Close()
		os.RemoveAll(e.dir)
		e.db = nil
	}
	dir, err := os.MkdirTemp("", "verif-perc-")
	if err != nil {
		panic(err)
	}
	opt := NoKV.NewDefaultOptions()
	opt.WorkDir = dir
	e.dir = dir
	e.db = NoKV.Open(opt)
	e.nCases = 0
}

func (e *engine) cleanup() {
	if e.db != nil {
		_ = e.db.Close()
		os.RemoveAll(e.dir)
		e.db = nil
	}
}

// ---------------------------------------------------------------- canonical output

func kindName(op pb.Mutation_Op) string {
	switch op {
	case pb.Mutation_Put:
		return "put"
	case pb.Mutation_Delete:
		return "del"
	case pb.Mutation_Lock:
		return "lock"
	case pb.Mutation_Rollback:
		return "rollback"
	}
	return fmt.Sprintf("kind%d", int32(op))
}

type caseCtx struct {
	e      *engine
	prefix []byte
	db     *NoKV.DB
	maint  bool // the case drives memtable rotation / flush / compaction itself, on its own DB
}

func (c *caseCtx) phys(k []byte) []byte {
	if len(k) == 0 {
		return nil
	}
	return append(append([]byte(nil), c.prefix...), k...)
}

func (c *caseCtx) logical(k []byte) []byte {
	if bytes.HasPrefix(k, c.prefix) {
		return k[len(c.prefix):]
	}
	return k
}

func (c *caseCtx) lockFields(ts, ttl uint64, kind pb.Mutation_Op, minc uint64, primary []byte) string {
	return fmt.Sprintf("%d,%d,%s,%d,%s", ts, ttl, kindName(kind), minc, hlib.Hex(c.logical(primary)))
}

func (c *caseCtx) keyErr(e *pb.KeyError) string {
	switch {
	case e == nil:
		return "-"
	case e.GetLocked() != nil:
		l := e.GetLocked()
		return fmt.Sprintf("locked(%s,%s)", hlib.Hex(c.logical(l.GetKey())),
			c.lockFields(l.GetLockVersion(), l.GetLockTtl(), l.GetLockType(), l.GetMinCommitTs(), l.GetPrimaryLock()))
	case e.GetWriteConflict() != nil:
		w := e.GetWriteConflict()
		return fmt.Sprintf("conflict(%s,%s,%d,%d,%d)", hlib.Hex(c.logical(w.GetKey())), hlib.Hex(c.logical(w.GetPrimary())),
			w.GetConflictTs(), w.GetStartTs(), w.GetCommitTs())
	case e.GetCommitTsExpired() != nil:
		x := e.GetCommitTsExpired()
		return fmt.Sprintf("expired(%s,%d,%d)", hlib.Hex(c.logical(x.GetKey())), x.GetCommitTs(), x.GetMinCommitTs())
	case e.GetAbort() != "":
		a := e.GetAbort()
		switch {
		case strings.HasPrefix(a, "empty key"):
			return "abort(emptykey)"
		case strings.HasPrefix(a, "unsupported mutation op"):
			return "abort(badop)"
		case a == "lock not found":
			return "abort(nolock)"
		case a == "transaction already rolled back":
			return "abort(rolledback)"
		}
		return "abort(other:" + strings.ReplaceAll(a, " ", "_") + ")"
	case e.GetRetryable() != "":
		return "retry"
	case e.GetAlreadyExists() != nil:
		return "exists"
	}
	return "emptyerr"
}

func okOrErr(s string) string {
	if s == "-" {
		return "ok"
	}
	return "err:" + s
}

func u64(s string) uint64 {
	v, err := strconv.ParseUint(s, 10, 64)
	if err != nil {
		panic("bad number in op line: " + s)
	}
	return v
}

func (c *caseCtx) keys(s string) [][]byte {
	if s == "-" || s == "" {
		return nil
	}
	var out [][]byte
	for _, p := range strings.Split(s, ",") {
		out = append(out, c.phys(hlib.UnHex(p)))
	}
	return out
}

func (c *caseCtx) apply(r *pb.Request) (*pb.Response, bool) {
	resp, err := kv.Apply(c.db, &pb.RaftCmdRequest{Header: &pb.CmdHeader{RegionId: 1}, Requests: []*pb.Request{r}})
	if err != nil || resp == nil || len(resp.Responses) != 1 {
		return nil, false
	}
	return resp.Responses[0], true
}

func (c *caseCtx) exec(op string) string {
	f := strings.Fields(op)
	if len(f) == 0 {
		return "bad-op"
	}
	switch {
	case f[0] == "pw" && len(f) == 6:
		req := &pb.PrewriteRequest{StartVersion: u64(f[1]), PrimaryLock: c.phys(hlib.UnHex(f[2])), LockTtl: u64(f[3]), MinCommitTs: u64(f[4])}
		if f[5] != "-" {
			for _, m := range strings.Split(f[5], ",") {
				p := strings.Split(m, ":")
				if len(p) != 3 {
					return "bad-op"
				}
				var o pb.Mutation_Op
				switch p[0] {
				case "P":
					o = pb.Mutation_Put
				case "D":
					o = pb.Mutation_Delete
				case "L":
					o = pb.Mutation_Lock
				case "X":
					o = pb.Mutation_Rollback
				default:
					return "bad-op"
				}
				req.Mutations = append(req.Mutations, &pb.Mutation{Op: o, Key: c.phys(hlib.UnHex(p[1])), Value: hlib.UnHex(p[2])})
			}
		}
		r, ok := c.apply(&pb.Request{CmdType: pb.CmdType_CMD_PREWRITE, Cmd: &pb.Request_Prewrite{Prewrite: req}})
		if !ok {
			return "apply-error"
		}
		errs := r.GetPrewrite().GetErrors()
		if len(errs) == 0 {
			return "ok"
		}
		var parts []string
		for _, e := range errs {
			parts = append(parts, c.keyErr(e))
		}
		return "err:" + strings.Join(parts, ";")
	case f[0] == "cm" && len(f) == 4:
		r, ok := c.apply(&pb.Request{CmdType: pb.CmdType_CMD_COMMIT, Cmd: &pb.Request_Commit{Commit: &pb.CommitRequest{
			StartVersion: u64(f[1]), CommitVersion: u64(f[2]), Keys: c.keys(f[3])}}})
		if !ok {
			return "apply-error"
		}
		return okOrErr(c.keyErr(r.GetCommit().GetError()))
	case f[0] == "rb" && len(f) == 3:
		r, ok := c.apply(&pb.Request{CmdType: pb.CmdType_CMD_BATCH_ROLLBACK, Cmd: &pb.Request_BatchRollback{BatchRollback: &pb.BatchRollbackRequest{
			StartVersion: u64(f[1]), Keys: c.keys(f[2])}}})
		if !ok {
			return "apply-error"
		}
		return okOrErr(c.keyErr(r.GetBatchRollback().GetError()))
	case f[0] == "rl" && len(f) == 4:
		r, ok := c.apply(&pb.Request{CmdType: pb.CmdType_CMD_RESOLVE_LOCK, Cmd: &pb.Request_ResolveLock{ResolveLock: &pb.ResolveLockRequest{
			StartVersion: u64(f[1]), CommitVersion: u64(f[2]), Keys: c.keys(f[3])}}})
		if !ok {
			return "apply-error"
		}
		return fmt.Sprintf("%s:n=%d", okOrErr(c.keyErr(r.GetResolveLock().GetError())), r.GetResolveLock().GetResolvedLocks())
	case f[0] == "cs" && len(f) == 6:
		r, ok := c.apply(&pb.Request{CmdType: pb.CmdType_CMD_CHECK_TXN_STATUS, Cmd: &pb.Request_CheckTxnStatus{CheckTxnStatus: &pb.CheckTxnStatusRequest{
			PrimaryKey: c.phys(hlib.UnHex(f[1])), LockTs: u64(f[2]), CurrentTs: u64(f[3]), RollbackIfNotExist: f[4] != "0", CallerStartTs: u64(f[5])}}})
		if !ok {
			return "apply-error"
		}
		x := r.GetCheckTxnStatus()
		return fmt.Sprintf("cs:%s:%d:%d:%d", c.keyErr(x.GetError()), x.GetLockTtl(), x.GetCommitVersion(), int32(x.GetAction()))
	case f[0] == "get" && len(f) == 3:
		key := hlib.UnHex(f[1])
		r, ok := c.apply(&pb.Request{CmdType: pb.CmdType_CMD_GET, Cmd: &pb.Request_Get{Get: &pb.GetRequest{Key: c.phys(key), Version: u64(f[2])}}})
		if !ok {
			return "apply-error"
		}
		g := r.GetGet()
		switch {
		case g.GetError() != nil:
			return c.keyErr(g.GetError())
		case g.GetNotFound():
			return "notfound"
		default:
			return "val:" + hlib.Hex(g.GetValue())
		}
	case f[0] == "scan" && len(f) == 5:
		start := hlib.UnHex(f[1])
		incl := f[2] != "0"
		pstart := c.phys(start)
		if len(start) == 0 {
			// logical "from the beginning" = from this case's prefix (nothing equals the bare prefix)
			pstart, incl = append([]byte(nil), c.prefix...), true
		}
		r, ok := c.apply(&pb.Request{CmdType: pb.CmdType_CMD_SCAN, Cmd: &pb.Request_Scan{Scan: &pb.ScanRequest{
			StartKey: pstart, IncludeStart: incl, Limit: uint32(u64(f[3])), Version: u64(f[4])}}})
		if !ok {
			return "apply-error"
		}
		var kvs []string
		for _, p := range r.GetScan().GetKvs() {
			kvs = append(kvs, hlib.Hex(c.logical(p.GetKey()))+"="+hlib.Hex(p.GetValue()))
		}
		ks := "-"
		if len(kvs) > 0 {
			ks = strings.Join(kvs, ",")
		}
		return "kvs=" + ks + ";err=" + c.keyErr(r.GetScan().GetError())
	case f[0] == "lock" && len(f) == 2:
		l, err := percolator.NewReader(c.db).GetLock(c.phys(hlib.UnHex(f[1])))
		if err != nil {
			return "error"
		}
		if l == nil {
			return "none"
		}
		return "lock(" + c.lockFields(l.Ts, l.TTL, l.Kind, l.MinCommitTs, l.Primary) + ")"
	case f[0] == "race" && len(f) == 7:
		return c.race(c.phys(hlib.UnHex(f[1])), u64(f[2]), u64(f[3]), u64(f[4]), u64(f[5]), f[6])
	case f[0] == "dump" || f[0] == "inv":
		return c.dump(f[0] == "inv")
	case c.maint && f[0] == "rotate" && len(f) == 1:
		c.db.VerifLSM().VerifRotate()
		return "ok " + c.shape()
	case c.maint && f[0] == "flush" && len(f) == 1:
		did, err := c.db.VerifLSM().VerifFlushOldest()
		switch {
		case err != nil:
			return "error:" + strings.ReplaceAll(err.Error(), " ", "_")
		case did:
			return "ok " + c.shape()
		}
		return "none " + c.shape()
	case c.maint && f[0] == "compact" && len(f) == 2:
		res, err := c.db.VerifLSM().VerifCompact(f[1])
		if err != nil {
			return "error:" + strings.ReplaceAll(err.Error(), " ", "_") + " " + c.shape()
		}
		return res + " " + c.shape()
	}
	return "bad-op"
}

// raceLatches: the latch manager of the directed concurrency op (percolator's handlers take the
// manager as an argument; kv.Apply uses its own for the sequential ops of the case).
var raceLatches = latch.NewManager(64)

// race: Commit and CheckTxnStatus of one primary, both queued on the key's latch while the harness
// holds it, in the given order ("cm-cs": the commit is queued first), then released.  A sync.Mutex
// whose waiters have waited longer than 1 ms hands over in arrival order, so the queue order is the
// grant order; the reply nevertheless contains only what does not depend on it.
func (c *caseCtx) race(key []byte, start, commit, cur, caller uint64, order string) string {
	hold := raceLatches.Acquire([][]byte{key})
	cmDone := make(chan *pb.KeyError, 1)
	csDone := make(chan *pb.CheckTxnStatusResponse, 1)
	runCm := func() {
		go func() {
			cmDone <- percolator.Commit(c.db, raceLatches, &pb.CommitRequest{Keys: [][]byte{key}, StartVersion: start, CommitVersion: commit})
		}()
	}
	runCs := func() {
		go func() {
			csDone <- percolator.CheckTxnStatus(c.db, raceLatches, &pb.CheckTxnStatusRequest{PrimaryKey: key, LockTs: start, CurrentTs: cur, CallerStartTs: caller})
		}()
	}
	if order == "cs-cm" {
		runCs()
		time.Sleep(8 * time.Millisecond)
		runCm()
	} else {
		runCm()
		time.Sleep(8 * time.Millisecond)
		runCs()
	}
	time.Sleep(8 * time.Millisecond)
	hold.Release()
	var cmErr *pb.KeyError
	var cs *pb.CheckTxnStatusResponse
	select {
	case cmErr = <-cmDone:
	case <-time.After(20 * time.Second):
		return "race:commit-stuck"
	}
	select {
	case cs = <-csDone:
	case <-time.After(20 * time.Second):
		return "race:check-stuck"
	}
	csr := "ok"
	if cs.GetError() != nil {
		csr = "err"
	}
	return fmt.Sprintf("race:cm=%s:cs=%s", okOrErr(c.keyErr(cmErr)), csr)
}

type wrec struct {
	key       []byte
	ts, start uint64
	kind      pb.Mutation_Op
}

// dump lists every live entry of this case's keys in the three column families (iterator order:
// default, lock, write; keys ascending; versions descending).  inv=true: count the pairs of
// committed records of one key with overlapping [start, commit].
// shape of the LSM tree (same format as the lsm engine's harness); a table outside L0 and the
// base level would leave the modelled part of the tree and is reported
func (c *caseCtx) shape() string {
	l := c.db.VerifLSM()
	l0, ing, main, others := l.VerifCounts(l.VerifBaseLevel())
	s := fmt.Sprintf("imm=%d l0=%d ing=%d main=%d", l.VerifImmutables(), l0, ing, main)
	if len(others) > 0 {
		s += fmt.Sprintf(" unexpected-levels=%v", others)
	}
	return s
}

// dumpMaint: in a maintenance case a record of one internal key can sit in several tables.  The
// dump then reports, for every internal key present anywhere, what the code's own read path
// answers for it: default CF through GetVersionedEntry(key, version), lock CF through GetLock;
// the write CF as the internal iterator presents it (its internal keys are written once).
func (c *caseCtx) dumpMaint(inv bool) string {
	type ik struct {
		cf  nkv.ColumnFamily
		key string
		ts  uint64
	}
	it := c.db.NewInternalIterator(&utils.Options{IsAsc: true})
	seen := map[ik]bool{}
	var order []ik
	var wout []string
	var ws []wrec
	for it.Rewind(); it.Valid(); it.Next() {
		item := it.Item()
		if item == nil || item.Entry() == nil {
			continue
		}
		en := item.Entry()
		cf, uk, ts := nkv.SplitInternalKey(en.Key)
		if !bytes.HasPrefix(uk, c.prefix) {
			continue
		}
		id := ik{cf, string(uk), ts}
		if seen[id] {
			continue
		}
		seen[id] = true
		order = append(order, id)
		if cf == nkv.CFWrite && en.Meta&nkv.BitDelete == 0 {
			k := hlib.Hex(c.logical(uk))
			w, err := percolator.DecodeWrite(en.Value)
			if err != nil {
				wout = append(wout, "W:"+k+":undecodable")
				continue
			}
			wout = append(wout, fmt.Sprintf("W:%s:%d:%d:%s", k, ts, w.StartTs, kindName(w.Kind)))
			ws = append(ws, wrec{append([]byte(nil), uk...), ts, w.StartTs, w.Kind})
		}
	}
	it.Close()
	if inv {
		return fmt.Sprintf("overlap=%d", overlaps(ws))
	}
	var dout, lout []string
	for _, id := range order {
		k := hlib.Hex(c.logical([]byte(id.key)))
		switch id.cf {
		case nkv.CFDefault:
			en, err := c.db.GetVersionedEntry(nkv.CFDefault, []byte(id.key), id.ts)
			if err != nil || en.Meta&nkv.BitDelete > 0 {
				continue
			}
			dout = append(dout, fmt.Sprintf("D:%s:%d:%s", k, id.ts, hlib.Hex(en.Value)))
		case nkv.CFLock:
			l, err := percolator.NewReader(c.db).GetLock([]byte(id.key))
			if err != nil {
				lout = append(lout, "L:"+k+":error")
			} else if l != nil {
				lout = append(lout, fmt.Sprintf("L:%s:%s", k, c.lockFields(l.Ts, l.TTL, l.Kind, l.MinCommitTs, l.Primary)))
			}
		}
	}
	out := append(append(dout, lout...), wout...)
	if len(out) == 0 {
		return "-"
	}
	return strings.Join(out, ";")
}

func overlaps(ws []wrec) int {
	n := 0
	for i := range ws {
		for j := i + 1; j < len(ws); j++ {
			a, b := ws[i], ws[j]
			if !bytes.Equal(a.key, b.key) || a.kind == pb.Mutation_Rollback || b.kind == pb.Mutation_Rollback {
				continue
			}
			if !(a.ts < b.start || b.ts < a.start) {
				n++
			}
		}
	}
	return n
}

func (c *caseCtx) dump(inv bool) string {
	if c.maint {
		return c.dumpMaint(inv)
	}
	it := c.db.NewInternalIterator(&utils.Options{IsAsc: true})
	defer it.Close()
	var out []string
	var ws []wrec
	for it.Rewind(); it.Valid(); it.Next() {
		item := it.Item()
		if item == nil || item.Entry() == nil {
			continue
		}
		en := item.Entry()
		cf, uk, ts := nkv.SplitInternalKey(en.Key)
		if !bytes.HasPrefix(uk, c.prefix) || en.Meta&nkv.BitDelete > 0 {
			continue
		}
		k := hlib.Hex(c.logical(uk))
		switch cf {
		case nkv.CFDefault:
			out = append(out, fmt.Sprintf("D:%s:%d:%s", k, ts, hlib.Hex(en.Value)))
		case nkv.CFLock:
			l, err := percolator.DecodeLock(en.Value)
			if err != nil {
				out = append(out, "L:"+k+":undecodable")
				continue
			}
			out = append(out, fmt.Sprintf("L:%s:%s", k, c.lockFields(l.Ts, l.TTL, l.Kind, l.MinCommitTs, l.Primary)))
		case nkv.CFWrite:
			w, err := percolator.DecodeWrite(en.Value)
			if err != nil {
				out = append(out, "W:"+k+":undecodable")
				continue
			}
			out = append(out, fmt.Sprintf("W:%s:%d:%d:%s", k, ts, w.StartTs, kindName(w.Kind)))
			ws = append(ws, wrec{append([]byte(nil), uk...), ts, w.StartTs, w.Kind})
		}
	}
	if inv {
		return fmt.Sprintf("overlap=%d", overlaps(ws))
	}
	if len(out) == 0 {
		return "-"
	}
	return strings.Join(out, ";")
}

func isMaintOp(op string) bool {
	return op == "rotate" || op == "flush" || strings.HasPrefix(op, "compact ")
}

// openMaint: a DB of its own for one maintenance case, configured like the lsm engine's harness
// (background compactors stopped right after Open, every maintenance step explicit, ingest batch
// size 2, memtable and tables far larger than the case).
func openMaint() (*NoKV.DB, string) {
	dir, err := os.MkdirTemp("", "verif-perc-m-")
	if err != nil {
		panic(err)
	}
	opt := &NoKV.Options{WorkDir: dir, MemTableSize: 1 << 20, SSTableMaxSz: 1 << 20, ValueThreshold: 32,
		ValueLogFileSize: 1 << 20, MaxBatchCount: 1000, MaxBatchSize: 1 << 20, NumCompactors: 1,
		NumLevelZeroTables: 1000, IngestCompactBatchSize: 2, MemTableEngine: NoKV.MemTableEngine("skiplist")}
	db := NoKV.Open(opt)
	db.VerifLSM().VerifStopCompactors()
	return db, dir
}

func (e *engine) Exec(ops []string) []string {
	maint := false
	for _, op := range ops {
		if isMaintOp(op) {
			maint = true
		}
	}
	e.seq++
	c := &caseCtx{e: e, prefix: make([]byte, 4), maint: maint}
	binary.BigEndian.PutUint32(c.prefix, e.seq)
	if maint {
		db, dir := openMaint()
		e.maintCases++
		c.db = db
		defer func() {
			func() {
				defer func() { _ = recover() }()
				_ = db.Close()
			}()
			os.RemoveAll(dir)
		}()
	} else {
		if e.db == nil || e.nCases >= casesPerDB {
			e.open()
		}
		e.nCases++
		c.db = e.db
	}
	out := make([]string, len(ops))
	for i, op := range ops {
		out[i] = func() (res string) {
			defer func() {
				if r := recover(); r != nil {
					res = fmt.Sprintf("panic:%v", r)
				}
			}()
			return c.exec(op)
		}()
	}
	return out
}

// ---------------------------------------------------------------- generator

var keyPool = [][]byte{{0x61}, {0x61, 0x00}, {0x61, 0x62}, {0x62}, {0x63}, {0xff}}

const maxU64 = uint64(math.MaxUint64)

type txn struct {
	start   uint64
	commit  uint64
	keys    [][]byte
	ops     []string // P/D/L per key
	vals    [][]byte
	ttl     uint64
	minc    uint64
	primary []byte
}

func keyList(ks [][]byte) string {
	if len(ks) == 0 {
		return "-"
	}
	var p []string
	for _, k := range ks {
		p = append(p, hlib.Hex(k))
	}
	return strings.Join(p, ",")
}

func subset(r *hlib.Rand, ks [][]byte) [][]byte {
	if r.Chance(70) {
		return ks
	}
	var out [][]byte
	for _, k := range ks {
		if r.Bool() {
			out = append(out, k)
		}
	}
	if len(out) == 0 {
		out = append(out, ks[r.Intn(len(ks))])
	}
	if r.Chance(15) {
		out = append(out, out[0]) // duplicate key in one request
	}
	return out
}

// genMaint: a maintenance case (C19).  Two or three transactions on one or two keys; between
// their prewrite / commit / rollback / resolve / check-status requests the memtable is rotated,
// sealed memtables are flushed to L0, L0 tables are moved to the base level's ingest buffer, the
// ingest buffer is merged or drained — every placement of a lock record and of the tombstone
// that removes it (both live under one internal key) comes up.  The lock of every key touched is
// read back after every request and after every maintenance step.
func (e *engine) genMaint(r *hlib.Rand) []string {
	perm := append([][]byte(nil), keyPool...)
	for i := range perm {
		j := i + r.Intn(len(perm)-i)
		perm[i], perm[j] = perm[j], perm[i]
	}
	keys := perm[:1+r.Intn(2)]
	other := perm[2] // a bystander key: changes the key range (min key) of the tables it lands in
	type mtxn struct {
		start, commit, ttl uint64
		op                 string
	}
	var txns []mtxn
	for i, n := 0, 2+r.Intn(2); i < n; i++ {
		st := uint64(10 * (i + 1))
		txns = append(txns, mtxn{st, st + 5, hlib.Pick(r, []uint64{0, 3, 100, 100}), hlib.Pick(r, []string{"P", "P", "D", "L"})})
	}
	var ops []string
	obs := func() {
		for _, k := range keys {
			ops = append(ops, "lock "+hlib.Hex(k))
		}
	}
	n := 12 + r.Intn(20)
	for i := 0; i < n; i++ {
		t := txns[r.Intn(len(txns))]
		ks := keys
		if len(keys) == 2 && r.Chance(40) {
			ks = keys[r.Intn(2) : r.Intn(2)+1]
			if len(ks) == 0 {
				ks = keys[:1]
			}
		}
		switch x := r.Intn(100); {
		case x < 22:
			var muts []string
			for j, k := range ks {
				val := "-"
				if t.op == "P" {
					val = hlib.Hex([]byte(fmt.Sprintf("m%d%c", t.start, 'a'+byte(j))))
				}
				muts = append(muts, t.op+":"+hlib.Hex(k)+":"+val)
			}
			ops = append(ops, fmt.Sprintf("pw %d %s %d 0 %s", t.start, hlib.Hex(keys[0]), t.ttl, strings.Join(muts, ",")))
			obs()
		case x < 32:
			ops = append(ops, fmt.Sprintf("cm %d %d %s", t.start, t.commit, keyList(ks)))
			obs()
		case x < 42:
			ops = append(ops, fmt.Sprintf("rb %d %s", t.start, keyList(ks)))
			obs()
		case x < 46:
			ops = append(ops, fmt.Sprintf("rl %d %d %s", t.start, hlib.Pick(r, []uint64{0, t.commit}), keyList(keys)))
			obs()
		case x < 51:
			cur := hlib.Pick(r, []uint64{t.start + 1, t.start + t.ttl, t.start + t.ttl + 1, 1000})
			ops = append(ops, fmt.Sprintf("cs %s %d %d %d %d", hlib.Hex(keys[0]), t.start, cur, r.Intn(2), hlib.Pick(r, []uint64{0, t.start + 3})))
			obs()
		case x < 55:
			// a bystander write that shares the memtable epoch
			ops = append(ops, fmt.Sprintf("pw %d %s 100 0 P:%s:%s", 70+10*uint64(r.Intn(3)), hlib.Hex(other), hlib.Hex(other), hlib.Hex([]byte("o"))))
		case x < 60:
			ops = append(ops, fmt.Sprintf("get %s %d", hlib.Hex(hlib.Pick(r, keys)), hlib.Pick(r, []uint64{t.start, t.commit, 1000})))
		case x < 70:
			ops = append(ops, "rotate")
			obs()
		case x < 83:
			ops = append(ops, "rotate", "flush")
			obs()
		case x < 91:
			ops = append(ops, "compact l0move")
			obs()
		case x < 96:
			ops = append(ops, "compact drain")
			obs()
		default:
			ops = append(ops, "compact keep")
			obs()
		}
	}
	// push everything down step by step, reading the locks at every stage
	for _, m := range []string{"rotate", "flush", "flush", "compact l0move", "compact l0move", "compact drain", "compact drain"} {
		ops = append(ops, m)
		obs()
	}
	for _, k := range keys {
		ops = append(ops, fmt.Sprintf("get %s 1000", hlib.Hex(k)))
	}
	ops = append(ops, "inv", "dump")
	return ops
}

// genMaintReads: a maintenance case for C17.  Three or four transactions write one or two keys
// (puts mostly), some commit, some are rolled back — in any order of their start timestamps, so
// that default-CF entries of smaller start ts get written *after* (into a newer memtable / table
// than) committed values of greater start ts; rotation, flush and compactions in between; point
// reads and scans at every start/commit timestamp after every step.
func (e *engine) genMaintReads(r *hlib.Rand) []string {
	perm := append([][]byte(nil), keyPool...)
	for i := range perm {
		j := i + r.Intn(len(perm)-i)
		perm[i], perm[j] = perm[j], perm[i]
	}
	keys := perm[:1+r.Intn(2)]
	other := perm[2]
	nt := 3 + r.Intn(2)
	order := r.Intn(3) // 0: ascending start ts, 1: descending, 2: random
	starts := make([]uint64, nt)
	for i := range starts {
		starts[i] = uint64(10 * (i + 1))
	}
	var ops []string
	reads := func() {
		k := hlib.Pick(r, keys)
		st := hlib.Pick(r, starts)
		ts := hlib.Pick(r, []uint64{st, st + 4, st + 5, st + 6, 1000})
		ops = append(ops, fmt.Sprintf("get %s %d", hlib.Hex(k), ts))
		if r.Chance(50) {
			ops = append(ops, fmt.Sprintf("scan - 1 10 %d", ts))
		}
	}
	maint := func() {
		switch x := r.Intn(100); {
		case x < 30:
			ops = append(ops, "rotate")
		case x < 65:
			ops = append(ops, "rotate", "flush")
		case x < 82:
			ops = append(ops, "compact l0move")
		case x < 93:
			ops = append(ops, "compact drain")
		default:
			ops = append(ops, "compact keep")
		}
	}
	n := 10 + r.Intn(16)
	for i := 0; i < n; i++ {
		var st uint64
		switch order {
		case 0:
			st = starts[(i*nt)/n]
		case 1:
			st = starts[nt-1-(i*nt)/n]
		default:
			st = hlib.Pick(r, starts)
		}
		if r.Chance(25) {
			st = hlib.Pick(r, starts)
		}
		ks := keys
		if len(keys) == 2 && r.Chance(30) {
			ks = keys[:1]
		}
		switch x := r.Intn(100); {
		case x < 30:
			var muts []string
			for j, k := range ks {
				op := hlib.Pick(r, []string{"P", "P", "P", "P", "D", "L"})
				val := "-"
				if op == "P" {
					val = hlib.Hex([]byte(fmt.Sprintf("r%d%c", st, 'a'+byte(j))))
				}
				muts = append(muts, op+":"+hlib.Hex(k)+":"+val)
			}
			ops = append(ops, fmt.Sprintf("pw %d %s 100 0 %s", st, hlib.Hex(keys[0]), strings.Join(muts, ",")))
		case x < 50:
			ops = append(ops, fmt.Sprintf("cm %d %d %s", st, st+5, keyList(ks)))
		case x < 64:
			ops = append(ops, fmt.Sprintf("rb %d %s", st, keyList(ks)))
		case x < 68:
			ops = append(ops, fmt.Sprintf("pw %d %s 100 0 P:%s:%s", 70+10*uint64(r.Intn(3)), hlib.Hex(other), hlib.Hex(other), hlib.Hex([]byte("o"))))
		case x < 88:
			maint()
		default:
			reads()
		}
		reads()
	}
	for _, m := range []string{"rotate", "flush", "flush", "compact l0move", "compact l0move", "compact drain", "compact drain"} {
		ops = append(ops, m)
		for _, k := range keys {
			ops = append(ops, fmt.Sprintf("get %s 1000", hlib.Hex(k)))
		}
		ops = append(ops, "scan - 1 10 1000")
	}
	ops = append(ops, "inv", "dump")
	return ops
}

// genRace: the primary of a transaction is committed while a reader checks its status (C19).  Both
// requests are queued on the key's latch in either order; whichever runs first, the key reports no
// lock once the commit has succeeded and carries the commit record.
func (e *engine) genRace(r *hlib.Rand) []string {
	k := hlib.Hex(hlib.Pick(r, keyPool))
	var ops []string
	for i, n := 0, 1+r.Intn(3); i < n; i++ {
		st := uint64(10 * (i + 1) * 2)
		ct := st + 5
		caller := st + uint64(1+r.Intn(3)) // pushed min-commit = caller+1 <= ct: the commit is never refused
		ops = append(ops, fmt.Sprintf("pw %d %s 100 0 P:%s:%s", st, k, k, hlib.Hex([]byte(fmt.Sprintf("c%d", st)))), "lock "+k,
			fmt.Sprintf("race %s %d %d %d %d %s", k, st, ct, st+1, caller, hlib.Pick(r, []string{"cm-cs", "cm-cs", "cs-cm"})),
			"lock "+k, fmt.Sprintf("get %s %d", k, ct+1))
		if r.Chance(40) {
			ops = append(ops, fmt.Sprintf("cm %d %d %s", st, ct, k), "lock "+k) // the client retries the commit
		}
	}
	ops = append(ops, "inv", "dump")
	return ops
}

func (e *engine) Gen(r *hlib.Rand, tier string) []string {
	if e.prop == "C19" && r.Chance(3) {
		return e.genRace(r)
	}
	pct := maintPct
	if tier == "thorough" && os.Getenv("VERIF_PERC_MAINT_PCT") == "" {
		pct = 8 // a maintenance case opens and closes a DB of its own
	}
	if e.prop == "C19" && r.Chance(pct) {
		return e.genMaint(r)
	}
	if e.prop == "C17" && r.Chance(pct) {
		return e.genMaintReads(r)
	}
	nk := 2 + r.Intn(3)
	perm := append([][]byte(nil), keyPool...)
	for i := range perm {
		j := i + r.Intn(len(perm)-i)
		perm[i], perm[j] = perm[j], perm[i]
	}
	keys := perm[:nk]
	nt := 2 + r.Intn(4)
	starts := []uint64{10, 20, 30, 40, 50, 60}
	var txns []*txn
	for i := 0; i < nt; i++ {
		t := &txn{start: starts[i]}
		if i > 0 && r.Chance(5) {
			t.start = starts[i-1] // two "transactions" sharing a start ts = one transaction sending odd requests
		}
		t.commit = t.start + 5
		n := 1 + r.Intn(nk)
		for j := 0; j < n; j++ {
			k := keys[(i+j*(1+r.Intn(2)))%nk]
			dup := false
			for _, x := range t.keys {
				if bytes.Equal(x, k) {
					dup = true
				}
			}
			if dup {
				continue
			}
			t.keys = append(t.keys, k)
			t.ops = append(t.ops, hlib.Pick(r, []string{"P", "P", "P", "P", "D", "L"}))
			t.vals = append(t.vals, []byte(fmt.Sprintf("v%d%c", t.start, 'a'+byte(j))))
		}
		t.primary = t.keys[0]
		t.ttl = hlib.Pick(r, []uint64{0, 3, 15, 100, 100, 100, maxU64, maxU64 - t.start + 2})
		t.minc = hlib.Pick(r, []uint64{0, 0, 0, t.start + 1, t.start + 6, t.start + 8})
		txns = append(txns, t)
	}
	readTs := func(t *txn) uint64 {
		return hlib.Pick(r, []uint64{t.start - 1, t.start, t.start + 1, t.start + 4, t.start + 5, t.start + 6, 1000, 1000, maxU64})
	}
	n := 10 + r.Intn(30)
	if tier == "thorough" {
		n = 10 + r.Intn(50)
	}
	var ops []string
	w := map[string]int{"pw": 22, "cm": 14, "rb": 8, "rl": 5, "cs": 8, "get": 16, "scan": 9, "lock": 10, "dump": 5, "inv": 3}
	switch e.prop {
	case "C18":
		w["cm"], w["rb"], w["inv"], w["scan"], w["get"] = 18, 10, 5, 4, 8
	case "C19":
		w["lock"], w["cs"], w["get"], w["scan"] = 18, 14, 6, 3
	}
	names := make([]string, 0, len(w))
	for k := range w {
		names = append(names, k)
	}
	sort.Strings(names)
	total := 0
	for _, k := range names {
		total += w[k]
	}
	pick := func() string {
		x := r.Intn(total)
		for _, k := range names {
			if x < w[k] {
				return k
			}
			x -= w[k]
		}
		return "get"
	}
	for i := 0; i < n; i++ {
		t := txns[r.Intn(len(txns))]
		switch pick() {
		case "pw":
			var muts []string
			for j, k := range t.keys {
				if len(t.keys) > 1 && r.Chance(20) {
					continue
				}
				op, val := t.ops[j], "-"
				if op == "P" {
					val = hlib.Hex(t.vals[j])
				}
				if r.Chance(2) {
					op, val = "X", "-"
				}
				muts = append(muts, op+":"+hlib.Hex(k)+":"+val)
			}
			if r.Chance(2) {
				muts = append(muts, "P:-:"+hlib.Hex([]byte("e")))
			}
			if len(muts) == 0 {
				muts = append(muts, t.ops[0]+":"+hlib.Hex(t.keys[0])+":"+map[bool]string{true: hlib.Hex(t.vals[0]), false: "-"}[t.ops[0] == "P"])
			}
			ops = append(ops, fmt.Sprintf("pw %d %s %d %d %s", t.start, hlib.Hex(t.primary), t.ttl, t.minc, strings.Join(muts, ",")))
		case "cm":
			ct := t.commit
			if r.Chance(6) {
				ct = t.start + 7
			}
			if r.Chance(3) {
				ct = t.start - 8 // below its own start ts: not a well-formed commit
			}
			ks := subset(r, t.keys)
			if r.Chance(2) {
				ks = append(append([][]byte(nil), ks...), nil)
			}
			if r.Chance(6) {
				ks = append(append([][]byte(nil), ks...), hlib.Pick(r, keys))
			}
			ops = append(ops, fmt.Sprintf("cm %d %d %s", t.start, ct, keyList(ks)))
		case "rb":
			ks := subset(r, t.keys)
			if r.Chance(15) {
				ks = append(append([][]byte(nil), ks...), hlib.Pick(r, keys)) // a key the txn was refused on
			}
			if r.Chance(2) {
				ks = append([][]byte{nil}, ks...)
			}
			ops = append(ops, fmt.Sprintf("rb %d %s", t.start, keyList(ks)))
		case "rl":
			ct := t.commit
			if r.Chance(50) {
				ct = 0
			}
			ks := subset(r, keys)
			ops = append(ops, fmt.Sprintf("rl %d %d %s", t.start, ct, keyList(ks)))
		case "cs":
			cur := hlib.Pick(r, []uint64{t.start + 1, t.start + t.ttl - 1, t.start + t.ttl, t.start + t.ttl + 1, 1000, maxU64, 0})
			caller := hlib.Pick(r, []uint64{0, 0, t.start + 3, t.start + 7, t.start + 12, maxU64})
			pk := t.primary
			if r.Chance(10) {
				pk = hlib.Pick(r, keys)
			}
			if r.Chance(1) {
				pk = nil
			}
			ops = append(ops, fmt.Sprintf("cs %s %d %d %d %d", hlib.Hex(pk), t.start, cur, r.Intn(2), caller))
		case "get":
			k := hlib.Pick(r, keys)
			ops = append(ops, fmt.Sprintf("get %s %d", hlib.Hex(k), readTs(t)))
			if r.Chance(40) {
				// the same read as a scan of one key: gets and scans must agree
				ops = append(ops, fmt.Sprintf("scan %s 1 1 %d", hlib.Hex(k), ops2ts(ops[len(ops)-1])))
			}
		case "scan":
			sk := hlib.Pick(r, [][]byte{nil, nil, keys[0], keys[1], {0x61}, {0x62, 0x00}})
			ts := readTs(t)
			if r.Chance(10) {
				ts = 0
			}
			ops = append(ops, fmt.Sprintf("scan %s %d %d %d", hlib.Hex(sk), r.Intn(2), hlib.Pick(r, []int{0, 1, 2, 10, 10}), ts))
		case "lock":
			ops = append(ops, "lock "+hlib.Hex(hlib.Pick(r, keys)))
		case "dump":
			ops = append(ops, "dump")
		case "inv":
			ops = append(ops, "inv")
		}
	}
	// closing observations: every key's lock, the whole state, reads at the end of time
	for _, k := range keys {
		ops = append(ops, "lock "+hlib.Hex(k), fmt.Sprintf("get %s 1000", hlib.Hex(k)))
	}
	ops = append(ops, "scan - 1 10 1000", "inv", "dump")
	return ops
}

func ops2ts(getOp string) uint64 {
	f := strings.Fields(getOp)
	return u64(f[2])
}

// ---------------------------------------------------------------- non-trivial rule

func (e *engine) Rule() string {
	switch e.prop {
	case "C18":
		return "C18: 2-5 transactions (start ts 10,20,..; commit ts start+5, sometimes +7 or below start) over 2-4 of 6 keys (prefix pairs, 00/ff bytes), requests in random order with duplicates, late requests, foreign keys, empty keys; non-trivial = at least one successful commit, one rollback or resolve, and one refused request (commit/prewrite answered with an error)"
	case "C19":
		return "C19: same histories, weighted to lock observations and CheckTxnStatus (ttl 0, small, 2^64-1 and wrapping; caller ts pushing min-commit); ~12% (thorough tier 8%) maintenance cases: 2-3 transactions on 1-2 keys with rotate / flush / compact l0move|drain|keep placed between prewrite, commit, rollback, resolve and check-status, the locks read back after every step (own DB, compactors stopped, lsm verif hooks); about 3% race cases: Commit and CheckTxnStatus of one primary queued on the key's latch in either order (percolator handlers called with a harness-held latch.Manager), lock and records read back, commit retried; non-trivial = a key is seen locked and later unlocked, or CheckTxnStatus took an action (maintenance cases: additionally at least one flush happened in between)"
	}
	return "C17: same histories, weighted to reads: gets (each often repeated as a 1-key scan) and range scans at timestamps around every start/commit ts, 0 and 2^64-1; non-trivial = some read returned a committed value and some read met a lock, a rollback record or a lock-only record"
}

func (e *engine) Nontrivial(ops, impl, model, spec []string) bool {
	var val, special, cmOK, rbOK, refused, locked, unlockedAfter, action bool
	seenLocked := map[string]bool{}
	for i, op := range ops {
		f := strings.Fields(op)
		o := impl[i]
		switch f[0] {
		case "get", "scan":
			if strings.HasPrefix(o, "val:") || (strings.HasPrefix(o, "kvs=") && !strings.HasPrefix(o, "kvs=-")) {
				val = true
			}
			if strings.Contains(o, "locked(") {
				special = true
			}
		case "dump":
			if strings.Contains(o, ":rollback") || strings.Contains(o, ":lock;") || strings.HasSuffix(o, ":lock") {
				special = true
			}
		case "cm":
			if o == "ok" {
				cmOK = true
			} else {
				refused = true
			}
		case "pw":
			if o != "ok" {
				refused = true
			}
		case "rb", "rl":
			if strings.HasPrefix(o, "ok") {
				rbOK = true
			}
		case "lock":
			if o != "none" {
				locked = true
				seenLocked[f[1]] = true
			} else if seenLocked[f[1]] {
				unlockedAfter = true
			}
		case "cs":
			if !strings.HasSuffix(o, ":0") {
				action = true
			}
		}
	}
	switch e.prop {
	case "C18":
		return cmOK && rbOK && refused
	case "C19":
		return (locked && unlockedAfter) || action
	}
	return val && special
}

func (e *engine) Extra() map[string]any {
	return map[string]any{"cases_per_db": casesPerDB, "maintenance_case_executions": e.maintCases,
		"maintenance": "C19: ~12% (thorough 8%) of the cases run on a DB of their own with stopped compactors and place rotate/flush/compact l0move|keep|drain between the requests on one or two keys (lsm verif hooks); all other cases: default options, memtable only"}
}

// ---------------------------------------------------------------- main

// The check passes only the facts its property owns on the -cfg line.  The model needs every
// Percolator fact to follow the code as it is, so the remaining ones are taken from the
// extractor's output of this very run (work/facts_perc.json); `prop=` selects the spec columns.
func completeCfg(args []string, prop string) {
	for i, a := range args {
		if a != "-cfg" || i+1 >= len(args) {
			continue
		}
		line := args[i+1]
		have := map[string]bool{}
		for _, t := range strings.Fields(line)[1:] {
			if j := strings.IndexByte(t, '='); j > 0 {
				have[t[:j]] = true
			}
		}
		path := os.Getenv("VERIF_PERC_FACTS")
		if path == "" {
			path = "work/facts_perc.json"
		}
		if buf, err := os.ReadFile(path); err == nil {
			var fx struct {
				Facts map[string]string `json:"facts"`
			}
			if json.Unmarshal(buf, &fx) == nil {
				names := make([]string, 0, len(fx.Facts))
				for k := range fx.Facts {
					names = append(names, k)
				}
				sort.Strings(names)
				for _, k := range names {
					if !have[k] {
						line += " " + k + "=" + fx.Facts[k]
					}
				}
			}
		}
		args[i+1] = line + " prop=" + prop
	}
}

// hlib.NewRand(seed) starts a Weyl sequence at seed*phi: the streams of seed k and k+1 are the
// same stream shifted by one draw, so consecutive VERIF_SEEDs would replay the same cases.  The
// seed is therefore hashed (splitmix64 finaliser) before hlib sees it; the mapping is fixed, so a
// run is still reproduced by its VERIF_SEED.
func mixSeed(args []string) {
	for i, a := range args {
		if a == "-seed" && i+1 < len(args) {
			if v, err := strconv.ParseUint(args[i+1], 10, 64); err == nil {
				z := v + 0x9E3779B97F4A7C15
				z = (z ^ (z >> 30)) * 0xBF58476D1CE4E5B9
				z = (z ^ (z >> 27)) * 0x94D049BB133111EB
				z ^= z >> 31
				args[i+1] = strconv.FormatUint(z, 10)
			}
		}
	}
}

func main() {
	for i, a := range os.Args {
		if a == "-prop" && i+1 < len(os.Args) {
			*prop = os.Args[i+1]
		}
		if strings.HasPrefix(a, "-prop=") {
			*prop = strings.TrimPrefix(a, "-prop=")
		}
	}
	if *prop != "C17" && *prop != "C18" && *prop != "C19" {
		fmt.Fprintln(os.Stderr, "unknown -prop")
		os.Exit(2)
	}
	log.SetOutput(io.Discard) // the engine logs every compaction
	if v, err := strconv.Atoi(os.Getenv("VERIF_PERC_MAINT_PCT")); err == nil {
		maintPct = v
	}
	completeCfg(os.Args, *prop)
	mixSeed(os.Args)
	// replay mode leaves through os.Exit inside hlib: remove DB directories of earlier runs
	if old, _ := filepath.Glob(filepath.Join(os.TempDir(), "verif-perc-*")); len(old) > 0 {
		for _, d := range old {
			if st, err := os.Stat(d); err == nil && time.Since(st.ModTime()) > 30*time.Minute {
				os.RemoveAll(d)
			}
		}
	}
	e := &engine{prop: *prop}
	defer e.cleanup()
	hlib.Main("perc/"+*prop, e)
	e.cleanup()
}

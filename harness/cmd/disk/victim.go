package main

// Child-process side of the crash-image enumeration.  The harness binary re-executes itself
// with `-child run`: it opens the DB (on vfs.FaultFS with a counting/killing hook when a kill
// is requested or tracing is on), executes workload lines and reports on stdout
// (unbuffered: every line is one write(2), so it survives the SIGKILL):
//
//	e <line> <path> <event>     a durability-relevant file operation is about to happen
//	r <line> <output>           the line's own result (ack, dump, probe ...)
//	s <line>                    flush queue drained after the line ("settled")
import (
	"bytes"
	"fmt"
	"os"
	"path/filepath"
	"runtime"
	"sort"
	"strings"
	"sync"
	"sync/atomic"
	"syscall"
	"time"

	NoKV "github.com/feichai0017/NoKV"
	"github.com/feichai0017/NoKV/kv"
	"github.com/feichai0017/NoKV/utils"
	"github.com/feichai0017/NoKV/vfs"
)

type childCfg struct {
	dir      string
	ops      []string
	from, to int // execute lines [from, to)
	killPath string
	killAt   int
	killK    int
	trace    bool
	first    bool
}

var outMu sync.Mutex

func emit(format string, a ...any) {
	s := fmt.Sprintf(format, a...) + "\n"
	outMu.Lock()
	os.Stdout.WriteString(s)
	outMu.Unlock()
}

func fileClass(path string) string {
	base := filepath.Base(path)
	if i := strings.Index(path, "->"); i >= 0 { // rename src->dst
		base = filepath.Base(path[i+2:])
	}
	switch {
	case strings.HasSuffix(base, ".wal"):
		return "wal"
	case strings.HasSuffix(base, ".vlog"):
		return "vlog"
	case strings.HasSuffix(base, ".sst"):
		return "sst"
	case strings.HasPrefix(base, "MANIFEST-"):
		return "manifest"
	case strings.HasPrefix(base, "CURRENT"):
		return "current"
	case base == "LOCK":
		return "lock"
	default:
		return "other"
	}
}

var opShort = map[vfs.Op]string{
	vfs.OpOpenFile: "open", vfs.OpFileWrite: "write", vfs.OpFileSync: "sync", vfs.OpFileClose: "close",
	vfs.OpFileTrunc: "ftrunc", vfs.OpRemove: "remove", vfs.OpRemoveAll: "removeall", vfs.OpRename: "rename",
	vfs.OpWriteFile: "writefile", vfs.OpTruncate: "trunc", vfs.OpMkdirAll: "mkdir",
}

// codePath classifies the calling goroutine by the engine procedure on its stack.
func codePath() string {
	var pcs [48]uintptr
	n := runtime.Callers(3, pcs[:])
	frames := runtime.CallersFrames(pcs[:n])
	path := "B"
	for {
		fr, more := frames.Next()
		fn := fr.Function
		switch {
		case strings.HasSuffix(fn, "(*levelManager).flush"):
			return "F"
		case strings.Contains(fn, "(*levelManager).runCompact") || strings.Contains(fn, "(*levelManager).doCompact") || strings.Contains(fn, "lsm/compact."):
			return "K"
		case strings.HasSuffix(fn, "(*DB).commitWorker"):
			return "C"
		case strings.HasSuffix(fn, "NoKV.Open"):
			return "O"
		case strings.HasSuffix(fn, "(*DB).closeInternal"):
			return "X"
		case strings.Contains(fn, "flushDiscardStats") || strings.Contains(fn, "RunValueLogGC"):
			path = "G"
		}
		if !more {
			break
		}
	}
	return path
}

type hookState struct {
	cfg      *childCfg
	curLine  atomic.Int64 // workload line attributed to events
	fg       atomic.Bool  // a foreground API call is in flight
	mu       sync.Mutex
	counters map[string]int // "<line>/<path>" -> events seen
	imms      atomic.Value // func() int: sealed memtables not yet flushed
	flMu      sync.Mutex
	flDone    map[int]bool // WAL segment ids whose flush has completed (remove:wal seen)
	parkArmed atomic.Bool
	parked    atomic.Bool
	release   chan struct{}
}

func (h *hookState) hook(op vfs.Op, path string) error {
	short, ok := opShort[op]
	if !ok {
		return nil // reads, stats, globs: not durability relevant
	}
	cls := fileClass(path)
	if cls == "lock" || (op == vfs.OpMkdirAll) {
		return nil
	}
	p := codePath()
	if p == "F" && short == "open" && cls == "sst" {
		// background maintenance is held back until the foreground call has returned, so that
		// every event is attributed to one workload line deterministically
		for h.fg.Load() {
			time.Sleep(20 * time.Microsecond)
		}
	}
	if p == "X" && cls != "wal" && cls != "manifest" {
		return nil // table / value-log handles being closed: no effect on what recovery sees
	}
	if p == "F" {
		fid := 0
		fmt.Sscanf(filepath.Base(path), "%d.", &fid)
		if short == "remove" && cls == "wal" {
			defer func() { h.flMu.Lock(); h.flDone[fid] = true; h.flMu.Unlock() }()
		}
		if f, _ := h.imms.Load().(func() int); f != nil && short == "open" && cls == "sst" && f() >= 2 {
			// two sealed memtables are waiting: the flush of the older one is held back for a moment so
			// that a flush of a newer one (a second flush worker) would overtake it; with the single
			// worker of the tree nothing overtakes and the flushes are installed in segment order
			deadline := time.Now().Add(300 * time.Millisecond)
			for time.Now().Before(deadline) {
				h.flMu.Lock()
				over := false
				for d := range h.flDone {
					if d > fid {
						over = true
					}
				}
				h.flMu.Unlock()
				if over {
					break
				}
				time.Sleep(200 * time.Microsecond)
			}
		}
	}
	if p == "C" && short == "sync" && cls == "wal" && h.parkArmed.CompareAndSwap(true, false) {
		// hold the commit worker right before the sync of this commit until `join` releases it;
		// the event itself is counted (and may be the kill point) when it is released
		h.parked.Store(true)
		<-h.release
	}
	line := int(h.curLine.Load())
	ev := short + ":" + cls
	h.mu.Lock()
	key := fmt.Sprintf("%d/%s", line, p)
	h.counters[key]++
	cnt := h.counters[key]
	h.mu.Unlock()
	if h.cfg.killPath == p && h.cfg.killAt == line && h.cfg.killK == cnt {
		emit("k %d %s %s", line, p, ev)
		syscall.Kill(os.Getpid(), syscall.SIGKILL)
		select {}
	}
	if h.cfg.trace {
		emit("e %d %s %s", line, p, ev)
	}
	return nil
}

func dbOptions(o opSpec, dir string, fs vfs.FS) *NoKV.Options {
	opt := NoKV.NewDefaultOptions()
	opt.FS = fs
	opt.WorkDir = dir
	opt.SyncWrites = o.Sync
	opt.ManifestSync = true
	opt.MemTableSize = int64(o.MT)
	opt.ValueThreshold = int64(o.VT)
	opt.ValueLogFileSize = o.VF
	opt.ValueLogBucketCount = 1
	opt.ValueLogHotBucketCount = 0
	opt.HotRingEnabled = false
	opt.EnableWALWatchdog = false
	opt.ValueLogGCInterval = 0
	opt.WriteBatchWait = 0
	opt.DetectConflicts = true
	opt.NumCompactors = 1
	opt.NumLevelZeroTables = 64
	if o.L0 > 0 {
		opt.NumLevelZeroTables = o.L0
	}
	if o.BS > 0 {
		opt.MaxBatchSize = int64(o.BS)
		opt.WriteBatchMaxSize = int64(o.BS)
	}
	if o.MR > 0 {
		opt.ManifestRewriteThreshold = int64(o.MR)
	}
	opt.WriteHotKeyLimit = 0
	return opt
}

// settle waits until the flush queue is drained.  A flush that never finishes (the engine keeps
// failing it) is reported on the line that triggered it and ends the child.
var settleLine atomic.Int64

func settle(db *NoKV.DB) {
	idle := 0
	deadline := time.Now().Add(6 * time.Second)
	for idle < 3 {
		if db.Info().Snapshot().Flush.Pending == 0 {
			idle++
		} else {
			idle = 0
		}
		if time.Now().After(deadline) {
			emit("x %d !flush-stuck", settleLine.Load())
			os.Exit(4)
		}
		time.Sleep(200 * time.Microsecond)
	}
}

func runChild(c *childCfg) {
	var specs []opSpec
	for _, l := range c.ops {
		s, err := parseOp(l)
		if err != nil {
			emit("r 0 bad-op:%v", err)
			os.Exit(3)
		}
		specs = append(specs, s)
	}
	var openSpec opSpec
	for _, s := range specs {
		if s.Kind == "open" {
			openSpec = s
			break
		}
	}
	hasMaint := false
	for _, s := range specs {
		if s.Kind == "maint" {
			hasMaint = true
		}
	}
	hs := &hookState{cfg: c, counters: map[string]int{}, flDone: map[int]bool{}}
	var fs vfs.FS = vfs.OSFS{}
	if c.trace || c.killPath != "" {
		fs = vfs.NewFaultFS(vfs.OSFS{}, hs.hook)
	}
	var db *NoKV.DB
	open := func(line int) (res string) {
		defer func() {
			if r := recover(); r != nil {
				res = "fail:" + errClass(fmt.Sprint(r))
			}
		}()
		hs.curLine.Store(int64(line))
		db = NoKV.Open(dbOptions(openSpec, c.dir, fs))
		l := db.VerifLSM()
		hs.imms.Store(func() int { return l.VerifImmutables() })
		if hasMaint {
			// explicit compaction steps only: the background workers are stopped (no API call in flight)
			db.VerifLSM().VerifStopCompactors()
		}
		return "ok"
	}
	bad := malformedLines(specs)
	var (
		group     []*NoKV.Txn // transactions of the current ptxn group
		groupAt   int
		asyncWG   sync.WaitGroup
		asyncAcks atomic.Int64
	)
	t0 := time.Now()
	timing := os.Getenv("VERIF_DISK_TIMING") != ""
	for i := c.from; i < c.to && i < len(specs); i++ {
		s := specs[i]
		if timing {
			fmt.Fprintf(os.Stderr, "t=%v before line %d %s\n", time.Since(t0), i, s.Kind)
		}
		hs.curLine.Store(int64(i))
		settleLine.Store(int64(i))
		if bad[i] {
			emit("r %d malformed", i)
			continue
		}
		switch s.Kind {
		case "prop":
			emit("r %d ok", i)
		case "open":
			emit("r %d %s", i, open(i))
			if db != nil {
				settle(db)
			}
		case "txn", "vtxn":
			if db == nil {
				emit("r %d nodb", i)
				continue
			}
			emit("b %d", i)
			hs.fg.Store(true)
			err := db.Update(func(txn *NoKV.Txn) error { return fillTxn(txn, i, s) })
			hs.fg.Store(false)
			if err != nil {
				emit("r %d err:%s", i, errClass(err.Error()))
			} else {
				emit("r %d ack", i)
			}
			settle(db)
			emit("s %d", i)
		case "ptxn":
			if db == nil {
				emit("r %d nodb", i)
				continue
			}
			emit("b %d", i)
			if len(group) == 0 {
				// first of a group: the transactions of the whole group are created now (a transaction
				// started while an earlier commit is in flight would wait for it), then this one is
				// committed with the worker parked before its sync:wal
				for j := i; j < len(specs) && specs[j].Kind == "ptxn"; j++ {
					group = append(group, db.NewTransaction(true))
				}
				groupAt = i
				hs.fg.Store(true)
				hs.release = make(chan struct{})
				hs.parked.Store(false)
				if openSpec.Sync {
					hs.parkArmed.Store(true)
				}
			}
			txn := group[i-groupAt]
			if err := fillTxn(txn, i, s); err != nil {
				emit("r %d err:%s", i, errClass(err.Error()))
				continue
			}
			before := db.VerifQueueLen()
			asyncWG.Add(1)
			go func(line int) {
				defer asyncWG.Done()
				if err := txn.Commit(); err != nil {
					emit("a %d err:%s", line, errClass(err.Error()))
					return
				}
				emit("a %d ack", line)
				asyncAcks.Add(1)
			}(i)
			// wait until the request is where the model puts it: the first one parked at its sync, the
			// others in the queue behind it (in this order)
			deadline := time.Now().Add(10 * time.Second)
			for time.Now().Before(deadline) {
				if i == groupAt {
					if hs.parked.Load() || !openSpec.Sync {
						break
					}
				} else if db.VerifQueueLen() > before {
					break
				}
				time.Sleep(100 * time.Microsecond)
			}
			emit("r %d started", i)
		case "join":
			if db == nil {
				emit("r %d nodb", i)
				continue
			}
			if len(group) == 0 {
				emit("r %d acks=0", i)
				continue
			}
			if hs.parked.Load() {
				close(hs.release)
			}
			asyncWG.Wait()
			hs.parkArmed.Store(false)
			hs.fg.Store(false)
			emit("r %d acks=%d", i, asyncAcks.Swap(0))
			group = nil
			settle(db)
			emit("s %d", i)
		case "close":
			if db == nil {
				emit("r %d nodb", i)
				continue
			}
			err := db.Close()
			db = nil
			if err != nil {
				emit("r %d err:%s", i, errClass(err.Error()))
			} else {
				emit("r %d ok", i)
			}
		case "reopen", "recover":
			if db != nil && s.Kind == "recover" {
				// crash between two API calls: everything before this line has returned
				emit("k %d N now", i)
				syscall.Kill(os.Getpid(), syscall.SIGKILL)
				select {}
			}
			if s.Kind == "recover" && c.first {
				os.Exit(0) // first child, database already closed cleanly: the second child reopens
			}
			if db != nil {
				emit("r %d still-open", i)
				continue
			}
			if r := open(i); r != "ok" {
				emit("r %d open=%s", i, r)
				continue
			}
			emit("r %d open=ok %s", i, dump(db, specs))
			settle(db)
		case "maint":
			if db == nil {
				emit("r %d nodb", i)
				continue
			}
			settle(db)
			if s.Path == "rotate" {
				db.VerifLSM().VerifRotate()
				_, err := db.VerifLSM().VerifFlushOldest()
				if err != nil {
					emit("r %d err:%s", i, errClass(err.Error()))
				} else {
					emit("r %d done", i)
				}
				continue
			}
			res, err := db.VerifLSM().VerifCompact(s.Path)
			if err != nil {
				emit("r %d err:%s", i, errClass(err.Error()))
			} else {
				emit("m %d %s %s", i, s.Path, res) // ok | nothing: tallied, not compared
				emit("r %d done", i)
			}
		case "wait":
			time.Sleep(time.Duration(s.K) * time.Millisecond)
			emit("r %d ok", i)
		case "probe":
			if db == nil {
				emit("r %d nodb", i)
				continue
			}
			emit("r %d %s", i, probe(db))
			settle(db) // the probe commit may have rotated the memtable: its flush belongs to this line
		case "kill":
			emit("r %d armed", i)
		}
	}
	if timing {
		fmt.Fprintf(os.Stderr, "t=%v end\n", time.Since(t0))
	}
	// the directory is thrown away by the parent: no need for a clean shutdown here
}

// fillTxn stages the entries of workload line `line` in txn.
func fillTxn(txn *NoKV.Txn, line int, s opSpec) error {
	for _, e := range s.Ents {
		if e.Len < 0 {
			if err := txn.Delete(keyBytes(e.Key)); err != nil {
				return err
			}
			continue
		}
		ent := kv.NewEntry(keyBytes(e.Key), valueBytes(line, e.Key, e.Len))
		ent.ExpiresAt = expiryOf(e.Exp)
		if s.Kind == "vtxn" {
			ent.Version = uint64(s.K) // the entry brings its own version; the commit still takes a timestamp
		}
		if err := txn.SetEntry(ent); err != nil {
			return err
		}
	}
	return nil
}

func errClass(s string) string {
	s = strings.ToLower(s)
	switch {
	case strings.Contains(s, "checksum"):
		return "checksum"
	case strings.Contains(s, "not found") || strings.Contains(s, "no such file"):
		return "missing"
	case strings.Contains(s, "conflict"):
		return "conflict"
	case strings.Contains(s, "eof"):
		return "eof"
	default:
		s = strings.Map(func(r rune) rune {
			if r == ' ' || r == '\t' || r == '\n' {
				return '_'
			}
			return r
		}, s)
		if len(s) > 60 {
			s = s[:60]
		}
		return "other(" + s + ")"
	}
}

type verEntry struct {
	key     string
	ver     uint64
	meta    byte
	exp     uint64
	ptr     bool
	status  string // ok | del | dangling | bad
	wantKey bool
}

// dump lists every stored (key, version) through the internal iterator, resolves each one with
// a versioned point read, checks it against the one workload line that may have written it and
// prints the canonical per-version summary plus the point-read consistency verdict.
func dump(db *NoKV.DB, specs []opSpec) string {
	type kvp struct {
		key  string
		ver  uint64
		meta byte
		exp  uint64
	}
	var listed []kvp
	it := db.NewInternalIterator(&utils.Options{IsAsc: true})
	for it.Rewind(); it.Valid(); it.Next() {
		e := it.Item().Entry()
		cf, uk, ts := kv.SplitInternalKey(e.Key)
		if cf != kv.CFDefault {
			continue
		}
		if bytes.HasPrefix(uk, []byte("!NoKV!")) || bytes.Equal(uk, []byte("probe-key")) {
			continue
		}
		listed = append(listed, kvp{string(uk), ts, e.Meta, e.ExpiresAt})
	}
	_ = it.Close()
	// the i-th update transaction of the history carries version i
	var txnLines []int
	for i, s := range specs {
		if isTxn(s.Kind) || s.Kind == "probe" { // a probe commit takes a timestamp too
			txnLines = append(txnLines, i)
		}
	}
	type group struct{ present, dangling, bad, extra, line int }
	groups := map[any]*group{}
	newest := map[string]struct {
		ver    uint64
		status string
		val    []byte
	}{}
	// pass 1: read every listed (key, version) once
	type got struct {
		key string
		ver uint64
		ent *kv.Entry
		err error
	}
	var gots []got
	seen := map[string]bool{}
	lineOfVer := map[uint64]int{}
	for _, l := range listed {
		id := fmt.Sprintf("%s@%d", l.key, l.ver)
		if seen[id] {
			continue // the same internal key in several sources (WAL replay + SST): one logical entry
		}
		seen[id] = true
		ent, err := db.GetVersionedEntry(kv.CFDefault, []byte(l.key), l.ver)
		gots = append(gots, got{l.key, l.ver, ent, err})
		// which workload line wrote this version: the value says so (versions are reused after a
		// crash that lost transactions); deletes and unreadable values fall back to the ordinal
		if err == nil && ent.Meta&kv.BitDelete == 0 {
			if ln := lineOfValue(ent.Value); ln >= 0 && ln < len(specs) && isTxn(specs[ln].Kind) {
				lineOfVer[l.ver] = ln
			}
		}
	}
	type gkey struct {
		ver  uint64
		line int
	}
	hasKey := func(line int, key string) *entSpec {
		if line < 0 || line >= len(specs) || !isTxn(specs[line].Kind) {
			return nil
		}
		for j := range specs[line].Ents {
			if string(keyBytes(specs[line].Ents[j].Key)) == key {
				return &specs[line].Ents[j]
			}
		}
		return nil
	}
	for _, l := range gots {
		// the line that wrote this entry: what its own value says; else the ordinal of its version
		// (the i-th committed transaction has version i); else what other entries of the version say
		cands := []int{}
		if l.err == nil && l.ent.Meta&kv.BitDelete == 0 {
			cands = append(cands, lineOfValue(l.ent.Value))
		}
		if l.ver >= 1 && int(l.ver) <= len(txnLines) {
			cands = append(cands, txnLines[l.ver-1])
		}
		if ln, ok := lineOfVer[l.ver]; ok {
			cands = append(cands, ln)
		}
		line := -1
		var want *entSpec
		for _, c := range cands {
			if w := hasKey(c, l.key); w != nil {
				line, want = c, w
				break
			}
		}
		if line < 0 && len(cands) > 0 {
			line = cands[len(cands)-1]
		}
		g := groups[gkey{l.ver, line}]
		if g == nil {
			g = &group{line: line}
			groups[gkey{l.ver, line}] = g
		}
		if want == nil {
			g.extra++
			continue
		}
		status := "ok"
		var val []byte
		ent, err := l.ent, l.err
		switch {
		case err != nil:
			status = "dangling"
		case want.Len < 0:
			if ent.Meta&kv.BitDelete == 0 {
				status = "bad"
			} else {
				status = "del"
			}
		default:
			val = ent.Value
			if ent.Meta&kv.BitDelete != 0 || !bytes.Equal(ent.Value, valueBytes(line, want.Key, want.Len)) || ent.ExpiresAt != expiryOf(want.Exp) || ent.Version != l.ver {
				status = "bad"
			} else if want.Exp == 2 {
				status = "exp" // stored, but shadows the key for reads
			}
		}
		switch status {
		case "dangling":
			g.dangling++
		case "bad":
			g.bad++
		default:
			g.present++
		}
		if cur, ok := newest[l.key]; !ok || l.ver > cur.ver {
			newest[l.key] = struct {
				ver    uint64
				status string
				val    []byte
			}{l.ver, status, val}
		}
	}
	var keys []gkey
	for k := range groups {
		keys = append(keys, k.(gkey))
	}
	sort.Slice(keys, func(i, j int) bool {
		if keys[i].ver != keys[j].ver {
			return keys[i].ver < keys[j].ver
		}
		return keys[i].line < keys[j].line
	})
	var parts []string
	for _, k := range keys {
		g := groups[k]
		parts = append(parts, fmt.Sprintf("g:%d:%d:%d:%d:%d:%d", k.ver, g.present, g.dangling, g.bad, g.extra, g.line))
	}
	// point reads through the transactional API must agree with the listing
	badReads := 0
	_ = db.View(func(txn *NoKV.Txn) error {
		for key, nv := range newest {
			item, err := txn.Get([]byte(key))
			switch nv.status {
			case "del", "exp":
				if err != utils.ErrKeyNotFound {
					badReads++
				}
			case "ok":
				if err != nil {
					badReads++
					if os.Getenv("VERIF_DISK_DEBUG") != "" {
						fmt.Fprintf(os.Stderr, "read error key=%s ver=%d err=%v\n", key, nv.ver, err)
					}
					continue
				}
				v, verr := item.ValueCopy(nil)
				if verr != nil || !bytes.Equal(v, nv.val) {
					badReads++
					if os.Getenv("VERIF_DISK_DEBUG") != "" {
						fmt.Fprintf(os.Stderr, "read mismatch key=%s ver=%d verr=%v len(v)=%d len(want)=%d itemver=%d\n", key, nv.ver, verr, len(v), len(nv.val), item.Entry().Version)
					}
				}
			case "dangling":
				if err == nil {
					if _, verr := item.ValueCopy(nil); verr == nil {
						badReads++
					}
				}
			}
		}
		return nil
	})
	if badReads == 0 {
		parts = append(parts, "reads=ok")
	} else {
		parts = append(parts, fmt.Sprintf("reads=bad%d", badReads))
	}
	return strings.Join(parts, " ")
}

// probe commits one more transaction and compares its version with every stored version.
func probe(db *NoKV.DB) string {
	var maxStored uint64
	it := db.NewInternalIterator(&utils.Options{IsAsc: true})
	for it.Rewind(); it.Valid(); it.Next() {
		_, uk, ts := kv.SplitInternalKey(it.Item().Entry().Key)
		if bytes.HasPrefix(uk, []byte("!NoKV!")) || bytes.Equal(uk, []byte("probe-key")) {
			continue
		}
		if ts > maxStored {
			maxStored = ts
		}
	}
	_ = it.Close()
	pk := []byte("probe-key")
	if err := db.Update(func(txn *NoKV.Txn) error { return txn.Set(pk, []byte("p")) }); err != nil {
		return "err:" + errClass(err.Error())
	}
	var got uint64
	it = db.NewInternalIterator(&utils.Options{IsAsc: true})
	for it.Rewind(); it.Valid(); it.Next() {
		_, uk, ts := kv.SplitInternalKey(it.Item().Entry().Key)
		if bytes.Equal(uk, pk) && ts > got {
			got = ts
		}
	}
	_ = it.Close()
	rel := "le"
	if got > maxStored {
		rel = "gt"
	}
	return fmt.Sprintf("probe=%s:+%d", rel, int64(got)-int64(maxStored))
}

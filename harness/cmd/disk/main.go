// Correspondence harness for the Disk engine: C09 (acknowledged writes survive a process crash
// under SyncWrites), C10 (prefix-consistent, readable recovery), C12 (clean close/reopen).
//
// The real engine runs in child processes (this binary, `-child run`) on a temporary directory;
// the child that is to crash opens the DB on vfs.NewFaultFS(vfs.OSFS{}, hook) (public API) and
// the hook SIGKILLs the process right before a chosen file operation.  The parent then reopens
// the directory in a second child with the plain FS and dumps everything.
package main

import (
	"bufio"
	"bytes"
	"encoding/json"
	"flag"
	"fmt"
	"os"
	"os/exec"
	"strconv"
	"strings"
	"time"

	"github.com/feichai0017/NoKV/kv"

	"verif/harness/hlib"
)

var (
	prop      = flag.String("prop", "C09", "property: C09|C10|C12")
	childMode = flag.String("child", "", "internal: run as child")
	childDir  = flag.String("dir", "", "internal: db dir")
	childOps  = flag.String("opsfile", "", "internal: ops file")
	childFrom = flag.Int("from", 0, "internal")
	childTo   = flag.Int("to", 1<<30, "internal")
	killPath  = flag.String("killpath", "", "internal")
	killAt    = flag.Int("killat", -1, "internal")
	killK     = flag.Int("killk", 0, "internal")
	traceOn   = flag.Bool("trace", false, "internal")
	firstCh   = flag.Bool("first", false, "internal: the child that may be killed")
	explore   = flag.String("explore", "", "run one ops file and print the raw child output")
	expand    = flag.String("expand", "", "print a shorthand ops file (entries k<id>=<len>) with the codec sizes filled in")
	selftest  = flag.Int("selftest", 0, "debug: generate n cases, run both sides, print every differing line (no shrinking)")
	stDriver  = flag.String("st-driver", "", "debug: driver for -selftest")
	stCfg     = flag.String("st-cfg", "", "debug: cfg line for -selftest")
	stSeed    = flag.Uint64("st-seed", 1, "debug: seed for -selftest")
	stTier    = flag.String("st-tier", "quick", "debug: tier for -selftest")
)

// entrySizes computes, with the real codec, the three sizes the model needs for one entry.
func entrySizes(keyID, valLen int, exp int, vt int) (est, plen, vlen int) {
	ik := kv.InternalKey(kv.CFDefault, keyBytes(keyID), 1)
	e := &kv.Entry{Key: ik}
	if valLen < 0 {
		e.Meta = kv.BitDelete
	} else {
		e.Value = valueBytes(1, keyID, valLen)
		e.ExpiresAt = expiryOf(exp)
	}
	big := valLen >= 0 && valLen >= vt
	if big {
		p, _ := kv.EncodeEntry(nil, e)
		vlen = len(p)
		e.Value = kv.ValuePtr{Len: 1, Offset: 1, Fid: 1}.Encode()
		e.Meta |= kv.BitValuePointer
	}
	est = kv.EstimateEncodeSize(e)
	p, _ := kv.EncodeEntry(nil, e)
	plen = len(p)
	return
}

func entToken(keyID, valLen int, exp int, vt int) string {
	est, plen, vlen := entrySizes(keyID, valLen, exp, vt)
	v := "del"
	if valLen >= 0 {
		v = strconv.Itoa(valLen)
		v += []string{"", "e", "p"}[exp]
	}
	return fmt.Sprintf("k%d=%s:%d:%d:%d", keyID, v, est, plen, vlen)
}

// runChildProc runs lines [from,to) of the case in a child and returns its stdout lines.
func runChildProc(dir, opsFile string, from, to int, kp string, kat, kk int, trace bool) []string {
	args := []string{"-child", "run", "-dir", dir, "-opsfile", opsFile, "-from", strconv.Itoa(from), "-to", strconv.Itoa(to)}
	if kp != "" {
		args = append(args, "-killpath", kp, "-killat", strconv.Itoa(kat), "-killk", strconv.Itoa(kk))
	}
	args = append(args, "-trace")
	if trace {
		args = append(args, "-first")
	}
	cmd := exec.Command(os.Args[0], args...)
	cmd.Env = append(os.Environ(), "GOMAXPROCS=4")
	var out bytes.Buffer
	cmd.Stdout = &out
	var errb bytes.Buffer
	cmd.Stderr = &errb
	done := make(chan error, 1)
	if err := cmd.Start(); err != nil {
		return []string{"x start-failed " + err.Error()}
	}
	go func() { done <- cmd.Wait() }()
	select {
	case <-done:
	case <-time.After(60 * time.Second):
		_ = cmd.Process.Kill()
		<-done
		out.WriteString("x timeout\n")
	}
	var lines []string
	sc := bufio.NewScanner(&out)
	sc.Buffer(make([]byte, 1<<20), 1<<24)
	for sc.Scan() {
		lines = append(lines, sc.Text())
	}
	// an engine panic / fatal error ends the child: say so instead of leaving the remaining lines blank
	if es := errb.String(); strings.Contains(es, "panic:") || strings.Contains(es, "fatal error:") {
		lines = append(lines, "d engine-panic")
	}
	if os.Getenv("VERIF_DISK_STDERR") != "" && errb.Len() > 0 {
		fmt.Fprintln(os.Stderr, errb.String())
	}
	return lines
}

func main() {
	own := false
	for _, a := range os.Args[1:] {
		if a == "-child" || a == "-explore" || a == "-expand" || a == "-selftest" {
			own = true
		}
	}
	if !own {
		augmentCfg()
		capMismatches()
		// hlib.Main registers the common flags and parses (ours are registered already)
		hlib.Main("disk", &diskEngine{kills: map[string]int{}, shapes: map[string]int{}})
		return
	}
	flag.Parse()
	if *childMode == "run" {
		c := &childCfg{dir: *childDir, ops: hlib.ReadOps(*childOps), from: *childFrom, to: *childTo,
			killPath: *killPath, killAt: *killAt, killK: *killK, trace: *traceOn, first: *firstCh}
		runChild(c)
		return
	}
	if *selftest > 0 {
		d, err := hlib.StartDriver(*stDriver, *stCfg)
		if err != nil {
			panic(err)
		}
		e := &diskEngine{prop: *prop, kills: map[string]int{}, shapes: map[string]int{}}
		rng := hlib.NewRand(*stSeed)
		bad, specBad := 0, 0
		t0 := time.Now()
		for i := 0; i < *selftest; i++ {
			ops := e.Gen(rng.Fork(), *stTier)
			impl, model, spec := hlib.RunCase(e, d, ops)
			diff := false
			for j := range ops {
				if impl[j] != model[j] {
					diff = true
				}
				if !hlib.SpecAllows(spec[j], impl[j]) {
					specBad++
					fmt.Printf("SPEC-FAIL case %d: %s\n   impl=%s\n   spec=%s\n", i, ops[j], impl[j], spec[j])
				}
			}
			if diff {
				bad++
				fmt.Printf("=== case %d differs\n", i)
				for j := range ops {
					mark := "  "
					if impl[j] != model[j] {
						mark = "!!"
					}
					fmt.Printf("%s %s\n     impl =%s\n     model=%s\n     spec =%s\n", mark, ops[j], impl[j], model[j], spec[j])
				}
			}
		}
		fmt.Printf("selftest: %d cases, %d differ, %d spec failures, %.1fs\n", *selftest, bad, specBad, time.Since(t0).Seconds())
		return
	}
	if *expand != "" {
		for _, l := range expandOps(hlib.ReadOps(*expand)) {
			fmt.Println(l)
		}
		return
	}
	if *explore != "" {
		ops := expandOps(hlib.ReadOps(*explore))
		for i, o := range ops {
			fmt.Printf("# %d %s\n", i, o)
		}
		e := &diskEngine{prop: *prop, kills: map[string]int{}, shapes: map[string]int{}}
		out := e.Exec(ops)
		for i := range ops {
			fmt.Printf("%d => %s\n", i, out[i])
		}
		return
	}
}

// augmentCfg appends to the driver's cfg line the three write-path facts that C09 and C12 do not
// depend on (their theorems hold for both values) but that the model needs to predict the traces
// of the current tree: db.applyOrder, lsm.batchSplit, wal.batchAppend.  `check` builds the cfg
// line from the property's own facts only; the values come from the same extraction run
// (work/facts_disk.json).  A value the driver does not know makes it reject the cfg line.
func augmentCfg() {
	for i := 1; i+1 < len(os.Args); i++ {
		if os.Args[i] != "-cfg" {
			continue
		}
		data, err := os.ReadFile("work/facts_disk.json")
		if err != nil {
			return
		}
		var fx struct {
			Facts map[string]string `json:"facts"`
		}
		if json.Unmarshal(data, &fx) != nil {
			return
		}
		for _, k := range []string{"db.applyOrder", "lsm.batchSplit", "wal.batchAppend"} {
			if strings.Contains(os.Args[i+1], k+"=") {
				continue
			}
			v := fx.Facts[k]
			if v == "" {
				v = "-"
			}
			os.Args[i+1] += " " + k + "=" + v
		}
		return
	}
}

// capMismatches lowers hlib's -max-mismatches for this engine: every recorded mismatch is
// delta-debugged with up to 400 re-executions, and one execution here means two child processes
// and a database lifetime.  Five minimised examples of each kind are plenty.
func capMismatches() {
	for i := 1; i+1 < len(os.Args); i++ {
		if os.Args[i] == "-max-mismatches" {
			if n, err := strconv.Atoi(os.Args[i+1]); err == nil && n > 5 {
				os.Args[i+1] = "5"
			}
		}
	}
}

func isSubseq(a, b []string) bool {
	j := 0
	for _, x := range b {
		if j < len(a) && a[j] == x {
			j++
		}
	}
	return j == len(a)
}

// expandOps fills in the codec sizes of shorthand entries (k<id>=<len>[e] | k<id>=del).
func expandOps(ops []string) []string {
	vt := 0
	out := make([]string, len(ops))
	for i, l := range ops {
		f := strings.Fields(l)
		if len(f) > 0 && f[0] == "open" {
			for _, a := range f[1:] {
				if strings.HasPrefix(a, "vt=") {
					vt, _ = strconv.Atoi(a[3:])
				}
			}
		}
		if len(f) > 0 && isTxn(f[0]) {
			first := 1
			if f[0] == "vtxn" {
				first = 2
			}
			for j := first; j < len(f); j++ {
				if strings.Contains(f[j], ":") {
					continue
				}
				p := strings.SplitN(f[j], "=", 2)
				id, _ := strconv.Atoi(p[0][1:])
				n, exp := -1, 0
				if p[1] != "del" {
					if strings.HasSuffix(p[1], "e") {
						exp = 1
					} else if strings.HasSuffix(p[1], "p") {
						exp = 2
					}
					n, _ = strconv.Atoi(strings.TrimRight(p[1], "ep"))
				}
				f[j] = entToken(id, n, exp, vt)
			}
			l = strings.Join(f, " ")
		}
		out[i] = l
	}
	return out
}

type diskEngine struct {
	curFull     []string      // the case being executed / minimised
	shrinkSpent time.Duration // time spent executing shrink candidates (sub-sequences of curFull)
	prop   string
	kills  map[string]int
	shapes map[string]int
	queue  [][]string
}

func probeLine() string {
	ik := kv.InternalKey(kv.CFDefault, []byte("probe-key"), 1)
	e := &kv.Entry{Key: ik, Value: []byte("p")}
	p, _ := kv.EncodeEntry(nil, e)
	return fmt.Sprintf("probe %d %d", kv.EstimateEncodeSize(e), len(p))
}

// genWorkload produces the `open` line and n transaction lines.  All entries of one transaction
// have the same encoded size (the commit path iterates a Go map, so the order of a batch's
// entries is not determined; with equal sizes every count the case observes is).
//
// Shapes: ordinary (small memtable, value log, deletes, far and already-elapsed expiry), bigBuf
// (100-300 KB inline values: the WAL's 256 KiB bufio buffer spills inside records and batches, a
// record larger than the buffer is torn by a kill), tiny (equal-sized records and a memtable that
// holds exactly one of them: a WAL segment switch on every write).
func genWorkload(r *hlib.Rand, sync bool, n int, bigBuf bool) (string, []string) {
	mt := hlib.Pick(r, []int{1024, 1024, 2048, 4096})
	vt := 64
	vf := hlib.Pick(r, []int{2048, 4096, 8192})
	tiny := !bigBuf && r.Chance(12)
	if tiny {
		mt = 100 // EstimateEncodeSize of a 20-byte entry is 92: one record per memtable
	}
	if bigBuf {
		mt, vt, vf = 2000000, 1000000, 1048576
	}
	s := 0
	if sync {
		s = 1
	}
	open := fmt.Sprintf("open sync=%d mt=%d vt=%d vf=%d", s, mt, vt, vf)
	if !bigBuf && r.Chance(35) {
		open += " mr=1" // ManifestRewriteThreshold 1: every manifest edit is followed by a manifest rewrite
	}
	var txns []string
	used := []int{}
	budget := 1400000 // big-value workloads stay inside one memtable: multi-block SSTs are E-LSM's business
	for i := 0; i < n; i++ {
		cnt := 1 + r.Intn(6)
		kind := r.Intn(100)
		vlen, exp, del := 0, 0, false
		switch {
		case tiny:
			vlen, cnt = 20, 1
		case bigBuf:
			vlen = hlib.Pick(r, []int{100000, 100000, 60000, 130000, 300000, 20})
			if i == 0 && r.Chance(50) {
				vlen = 300000 // first record of the first segment larger than the WAL buffer
			}
			cnt = 1 + r.Intn(3)
		case kind < 40:
			vlen = 1 + r.Intn(40)
		case kind < 80:
			vlen = hlib.Pick(r, []int{64, 100, 300, 700, 1000, 1500})
		case kind < 90 && len(used) > 0:
			del = true
		case kind < 95 || len(used) == 0:
			vlen = 1 + r.Intn(40)
			exp = 1
		default:
			// a version whose TTL has already elapsed, on a key that has an older version:
			// stored like any other, it hides the key from reads
			vlen = 12 + r.Intn(30)
			exp = 2
		}
		if kind >= 40 && kind < 80 && r.Chance(20) {
			exp = 1
		}
		if bigBuf {
			budget -= cnt * (vlen + 100)
			if budget < 0 {
				break
			}
		}
		seen := map[int]bool{}
		var toks []string
		for j := 0; j < cnt; j++ {
			var k int
			if del || exp == 2 {
				k = hlib.Pick(r, used)
			} else if r.Chance(40) && len(used) > 0 {
				k = hlib.Pick(r, used)
			} else {
				k = 1 + r.Intn(40)
			}
			if seen[k] {
				continue
			}
			seen[k] = true
			if del {
				toks = append(toks, entToken(k, -1, 0, vt))
			} else {
				toks = append(toks, entToken(k, vlen, exp, vt))
				used = append(used, k)
			}
		}
		txns = append(txns, "txn "+strings.Join(toks, " "))
		if !tiny && !bigBuf && mt == 1024 && i == n/2 && r.Chance(35) {
			// one transaction that rotates the memtable twice: two sealed memtables wait for the
			// flush worker at the same time (flushes must still be installed in segment order)
			var wide []string
			for k, m := 0, 36+r.Intn(9); k < m; k++ {
				wide = append(wide, entToken(100+k, 20, 0, vt))
			}
			txns = append(txns, "txn "+strings.Join(wide, " "))
		}
	}
	return open, txns
}

func (e *diskEngine) Gen(r *hlib.Rand, tier string) []string {
	e.prop = *prop
	if len(e.queue) > 0 {
		c := e.queue[0]
		e.queue = e.queue[1:]
		return c
	}
	propLine := "prop " + e.prop
	if e.prop == "C12" {
		sync := r.Bool()
		if r.Chance(15) {
			// exactly one committed transaction (version 1) before the reopen: the boundary of the
			// comparison that seeds the oracle
			open, txns := genWorkload(r, sync, 1, false)
			e.shapes["one-commit-reopen"]++
			return append(append([]string{propLine, open}, txns[:1]...), "close", "reopen", probeLine(), "close", "reopen")
		}
		if r.Chance(8) {
			// option set with inline values above 4 MiB (ValueThreshold 8 MiB, batch limits 16 MiB):
			// one 5 MiB value between small keys, still in the WAL at Close
			ss := 0
			if sync {
				ss = 1
			}
			ops := []string{propLine, fmt.Sprintf("open sync=%d mt=16777216 vt=8388608 vf=1048576 bs=16777216", ss),
				"txn " + entToken(1, 30, 0, 8388608) + " " + entToken(2, 30, 0, 8388608),
				"txn " + entToken(3, 5242880, 0, 8388608),
				"txn " + entToken(4, 30, 0, 8388608), "close", "reopen", probeLine(),
				"txn " + entToken(5, 40, 0, 8388608), "close", "reopen", probeLine()}
			e.shapes["huge-inline-value"]++
			return ops
		}
		open, txns := genWorkload(r, sync, 9+r.Intn(12), r.Chance(8))
		if r.Chance(14) && !strings.Contains(open, "mt=2000000") {
			// everything flushed, then only a LOWER-versioned record in the fresh memtable at Close
			// (an entry that brings its own version through Txn.SetEntry): the oracle must still be
			// seeded from the tables
			ops := append([]string{propLine, open}, txns...)
			ops = append(ops, "maint rotate", "vtxn 1 "+entToken(77, 24, 0, 64), "close", "reopen", probeLine(),
				"txn "+entToken(78, 24, 0, 64), "close", "reopen", probeLine())
			e.shapes["low-version-after-flush"]++
			return ops
		}
		ops := []string{propLine, open}
		// at least two close/reopen rounds with writes (rotations, flushes) in between; before a
		// close, often explicit compaction steps (L0 -> ingest buffer, ingest drain/merge: the drain
		// allocates a table id after the last memtable rotation); every reopen reads everything back
		cycles := 2 + r.Intn(2)
		per := len(txns)/cycles + 1
		for i := 0; i < len(txns); i += per {
			j := i + per
			if j > len(txns) {
				j = len(txns)
			}
			ops = append(ops, txns[i:j]...)
			if r.Chance(65) {
				ops = append(ops, "maint l0move")
				if r.Chance(25) {
					ops = append(ops, "maint keep")
				}
				ops = append(ops, "maint drain")
			}
			ops = append(ops, "close", "reopen")
			if r.Chance(50) {
				ops = append(ops, probeLine()) // the next commit's version against everything stored
			}
		}
		ops = append(ops, probeLine(), "close", "reopen")
		e.shapes["clean-reopen"]++
		return ops
	}
	// crash cases: learn the trace of the un-killed workload on the real engine, then
	// enumerate (thorough) or sample (quick) its crash points
	sync := e.prop == "C09" || r.Bool()
	bigBuf := r.Chance(10)
	open, txns := genWorkload(r, sync, 4+r.Intn(10), bigBuf)
	if !bigBuf && len(txns) > 3 && r.Chance(40) {
		// compaction steps in the middle of the workload (tables move to the ingest buffer / are
		// rewritten before the crash); they are workload lines like the transactions
		at := len(txns) - 1 - r.Intn(2) // late: tables have usually been flushed by then
		txns = append(append(append([]string{}, txns[:at]...), "maint l0move", "maint drain"), txns[at:]...)
	}
	if sync && !bigBuf && !strings.Contains(open, "mt=100 ") && len(txns) > 2 && r.Chance(40) {
		// several requests in one commit batch: a commit parked before its sync, then an inline-only
		// request and a request with value-log values (often rotating the value log) coalesced
		at := 1 + r.Intn(len(txns)-1)
		big := hlib.Pick(r, []int{700, 1000, 1500})
		grp := []string{
			"ptxn " + entToken(60, 20, 0, 64),
			"ptxn " + entToken(61, 25, 0, 64) + " " + entToken(62, 25, 0, 64),
			"ptxn " + entToken(63, big, 0, 64) + " " + entToken(64, big, 0, 64),
			"join"}
		if r.Chance(30) {
			grp = []string{grp[0], grp[2], grp[1], "join"}
		}
		txns = append(append(append([]string{}, txns[:at]...), grp...), txns[at:]...)
	}
	learn := append([]string{propLine, open}, txns...)
	learn = append(learn, "close")
	tr := e.Exec(learn)
	type kp struct {
		path string
		line, k int
	}
	var pts []kp
	for i, o := range learn {
		count := func(tag string) int {
			a := strings.Index(tr[i], tag+"=[")
			if a < 0 {
				return 0
			}
			b := strings.Index(tr[i][a:], "]")
			body := tr[i][a+len(tag)+2 : a+b]
			if body == "" {
				return 0
			}
			return len(strings.Split(body, ","))
		}
		// line numbers shift by one: the case has the `kill` line after `open`
		if strings.HasPrefix(o, "txn") || strings.HasPrefix(o, "ptxn") || o == "join" {
			for k := 1; k <= count("c"); k++ {
				pts = append(pts, kp{"C", i + 1, k})
			}
			for k := 1; k <= count("f"); k++ {
				pts = append(pts, kp{"F", i + 1, k})
			}
			if !strings.HasPrefix(o, "ptxn") {
				pts = append(pts, kp{"N", i + 1, 0})
			}
		}
		if o == "close" {
			for k := 1; k <= count("x"); k++ {
				pts = append(pts, kp{"X", i + 1, k})
			}
		}
	}
	// shuffle, then keep all (thorough) or a sample (quick)
	for i := len(pts) - 1; i > 0; i-- {
		j := r.Intn(i + 1)
		pts[i], pts[j] = pts[j], pts[i]
	}
	keep := len(pts)
	if tier != "thorough" && keep > 8 {
		keep = 8
	}
	for _, p := range pts[:keep] {
		ops := []string{propLine, open, fmt.Sprintf("kill %s %d %d", p.path, p.line, p.k)}
		switch p.path {
		case "N":
			// crash between two calls: the workload is cut before line p.line+1
			ops = append(ops, txns[:p.line-2]...)
		case "X":
			ops = append(ops, txns...)
			ops = append(ops, "close")
		default:
			ops = append(ops, txns...)
		}
		// second round on the recovered database: more (inline, equal-sized) writes, a clean
		// reopen, a probe commit, another reopen
		ops = append(ops, "recover")
		vl := 20
		if !strings.Contains(open, "mt=100 ") {
			vl = 12 + r.Intn(40)
		}
		for i, n := 0, r.Intn(4); i < n; i++ {
			var toks []string
			for j, m := 0, 1+r.Intn(3); j < m; j++ {
				toks = append(toks, entToken(50+i*4+j, vl, 0, 64))
				if vl == 20 {
					break
				}
			}
			ops = append(ops, "txn "+strings.Join(toks, " "))
		}
		ops = append(ops, "close", "reopen", probeLine(), "close", "reopen")
		e.queue = append(e.queue, ops)
		e.shapes["crash-"+p.path]++
	}
	if len(e.queue) == 0 {
		return []string{propLine, open, "close", "reopen"}
	}
	c := e.queue[0]
	e.queue = e.queue[1:]
	return c
}

func (e *diskEngine) Nontrivial(ops, impl, model, spec []string) bool {
	acks, flushOrVlog, reopens, killedIn := 0, false, 0, ""
	multi := false
	for i, o := range ops {
		if strings.HasPrefix(o, "txn") {
			if strings.HasPrefix(impl[i], "ack") {
				acks++
			}
			if strings.Contains(impl[i], "sst") || strings.Contains(impl[i], "vlog") || strings.Contains(impl[i], "manifest") {
				flushOrVlog = true
			}
			if strings.HasPrefix(impl[i], "- c=[") && !strings.HasPrefix(impl[i], "- c=[]") && len(strings.Fields(o)) > 2 {
				multi = true
			}
		}
		if (o == "reopen" || o == "recover") && strings.HasPrefix(impl[i], "open=ok") {
			reopens++
			if j := strings.Index(impl[i], "killed="); j >= 0 && killedIn == "" {
				killedIn = impl[i][j+7:]
			}
		}
	}
	switch e.prop {
	case "C12":
		return reopens >= 2 && flushOrVlog
	case "C09":
		return killedIn != "" && killedIn != "none" && acks >= 1
	default:
		return killedIn != "" && killedIn != "none" && (multi || strings.HasPrefix(killedIn, "F.") || strings.HasPrefix(killedIn, "X.") || acks >= 1)
	}
}

func (e *diskEngine) Rule() string {
	e.prop = *prop
	switch e.prop {
	case "C12":
		return "C12: histories of update transactions (inline and value-log values, deletes, expiry) with memtable flushes and value-log rotation, then 1-3 clean close/reopen cycles with more writes in between and a final probe commit; non-trivial = at least one flush or value-log write before a reopen and every reopen dumped"
	case "C09":
		return "C09: SyncWrites workloads killed (SIGKILL from the FaultFS hook) before the k-th file operation of the commit path / flush path / close path of a chosen transaction, or between two calls; non-trivial = the process was killed after at least one acknowledged transaction"
	default:
		return "C10: workloads with and without SyncWrites killed before the k-th file operation of the commit / flush / close path or between two calls; non-trivial = killed inside a multi-entry commit, a flush, or with unsynced acknowledged writes"
	}
}

func (e *diskEngine) Extra() map[string]any {
	return map[string]any{"kill_paths": e.kills, "case_shapes": e.shapes}
}

type group struct {
	ver, present, dangling, bad, extra, line int
}

// verdicts turns the raw dump of a (re)opened store into the canonical line compared with the
// model; the three verdict fields are the SPEC predicates of C09 / C10 / C12 evaluated directly.
func verdicts(prop string, sync bool, raw string, acked []int, started []int, sizes map[int]int, txnLines []int, killed string) (string, map[int]bool) {
	f := strings.Fields(raw)
	surv := map[int]bool{}
	if len(f) == 0 || f[0] != "open=ok" {
		return raw + " killed=" + killed, surv
	}
	var gs []group
	reads := "reads=?"
	for _, t := range f[1:] {
		if strings.HasPrefix(t, "reads=") {
			reads = t
			continue
		}
		p := strings.Split(t, ":")
		if len(p) == 7 && p[0] == "g" {
			var g group
			g.line, _ = strconv.Atoi(p[6])
			g.ver, _ = strconv.Atoi(p[1])
			g.present, _ = strconv.Atoi(p[2])
			g.dangling, _ = strconv.Atoi(p[3])
			g.bad, _ = strconv.Atoi(p[4])
			g.extra, _ = strconv.Atoi(p[5])
			gs = append(gs, g)
		}
	}
	bidOf := func(g group) int { return g.line } // the workload line that wrote this version (see dump)
	totalOf := func(g group) (int, bool) {
		b := bidOf(g)
		if b < 0 {
			return 0, false
		}
		for _, s := range started {
			if s == b {
				return sizes[b], true
			}
		}
		return 0, false
	}
	var rawParts []string
	partial, dang, badv, extra := false, false, false, false
	for _, g := range gs {
		t, ok := totalOf(g)
		ts := "?"
		if ok {
			ts = strconv.Itoa(t)
		}
		s := fmt.Sprintf("v%d:%d/%s", g.ver, g.present, ts)
		if g.dangling > 0 {
			s += fmt.Sprintf("!d%d", g.dangling)
			dang = true
		}
		if g.bad > 0 {
			s += fmt.Sprintf("!b%d", g.bad)
			badv = true
		}
		if g.extra > 0 {
			s += fmt.Sprintf("!x%d", g.extra)
			extra = true
		}
		rawParts = append(rawParts, s)
		if !ok || g.present+g.dangling != t {
			partial = true
		}
	}
	if len(rawParts) == 0 {
		rawParts = []string{"empty"}
	}
	has := func(b int) *group {
		for i := range gs {
			if bidOf(gs[i]) == b {
				return &gs[i]
			}
		}
		return nil
	}
	ackedV := "na"
	if sync {
		lost := 0
		for _, b := range acked {
			g := has(b)
			if g == nil || g.present != sizes[b] {
				lost++
			}
		}
		ackedV = "ok"
		if lost > 0 {
			ackedV = fmt.Sprintf("lost:%d", lost)
		}
	}
	gap, missing := false, false
	for _, b := range started {
		if has(b) != nil {
			if missing {
				gap = true
			}
		} else {
			missing = true
		}
	}
	var reasons []string
	if partial {
		reasons = append(reasons, "partial")
	}
	if gap {
		reasons = append(reasons, "gap")
	}
	if dang {
		reasons = append(reasons, "dangling")
	}
	if badv {
		reasons = append(reasons, "bad")
	}
	if extra {
		reasons = append(reasons, "extra")
	}
	c10 := "ok"
	if len(reasons) > 0 {
		c10 = "bad:" + strings.Join(reasons, "+")
	}
	full := "ok"
	for _, b := range started {
		g := has(b)
		if g == nil || g.present != sizes[b] || g.dangling != 0 {
			full = "no"
		}
	}
	a, c, fl := "acked="+ackedV, "c10="+c10, "full="+full
	var fields []string
	switch prop {
	case "C09":
		fields = []string{a, c, fl}
	case "C12":
		fields = []string{fl, c, a}
	default:
		fields = []string{c, a, fl}
	}
	for _, g := range gs {
		surv[bidOf(g)] = true
	}
	return "open=ok " + strings.Join(fields, " ") + " raw=[" + strings.Join(rawParts, " ") + "] " + reads + " killed=" + killed, surv
}

// Exec runs one case.  Lines up to a `recover` line run in the victim child (FaultFS hook
// installed: tracing and, if a `kill` line armed it, the kill), the rest in a second child on
// the same directory with the plain FS.
func (e *diskEngine) Exec(ops []string) []string {
	if e.prop == "" {
		e.prop = *prop
	}
	// Budget for delta debugging (only ever spent on a tree that already shows a mismatch): once it
	// is used up, shrink candidates are not executed any more and the remaining mismatches are
	// recorded unminimised-as-garbage; the first ones are minimised properly.
	shrinking := len(e.curFull) > 0 && len(ops) < len(e.curFull) && isSubseq(ops, e.curFull)
	if !shrinking {
		e.curFull = append([]string(nil), ops...)
	} else {
		budget := 240 * time.Second
		if t := flag.Lookup("tier"); t != nil && t.Value.String() == "thorough" {
			budget = 1200 * time.Second
		}
		if e.shrinkSpent > budget {
			panic("shrink budget exhausted (this candidate was not executed)")
		}
		t0 := time.Now()
		defer func() { e.shrinkSpent += time.Since(t0) }()
	}
	// tmpfs when available: fsync cost is irrelevant for *process* crashes (the page cache survives)
	base := ""
	if st, err := os.Stat("/dev/shm"); err == nil && st.IsDir() {
		base = "/dev/shm"
	}
	dir, err := os.MkdirTemp(base, "vdisk")
	if err != nil {
		dir, err = os.MkdirTemp("", "vdisk")
	}
	if err != nil {
		panic(err)
	}
	defer os.RemoveAll(dir)
	opsFile := dir + ".ops"
	if err := os.WriteFile(opsFile, []byte(strings.Join(ops, "\n")+"\n"), 0o644); err != nil {
		panic(err)
	}
	defer os.Remove(opsFile)
	out := make([]string, len(ops))
	specs := make([]opSpec, len(ops))
	prop, sync := "C10", false // a case without a `prop` line is judged like C10 (the driver's default)
	recoverLine := -1
	var ks opSpec
	sizes := map[int]int{}
	var txnLines []int
	for i, o := range ops {
		s, err := parseOp(o)
		if err != nil {
			for j := range out {
				out[j] = "bad-op"
			}
			return out
		}
		specs[i] = s
		switch s.Kind {
		case "prop":
			prop = s.Path
		case "open":
			sync = s.Sync
		case "kill":
			if ks.Kind == "" {
				ks = s
			}
		case "recover":
			if recoverLine < 0 {
				recoverLine = i
			}
		case "txn", "ptxn", "vtxn":
			sizes[i] = len(s.Ents)
			txnLines = append(txnLines, i)
		case "probe":
			txnLines = append(txnLines, i) // takes a commit timestamp
		}
	}
	bad := malformedLines(specs)
	if recoverLine >= 0 && bad[recoverLine] {
		recoverLine = -1
	}
	if ks.Kind != "" {
		for i, sp := range specs {
			if sp.Kind == "kill" {
				if bad[i] {
					ks = opSpec{}
				}
				break
			}
		}
	}
	var acked, started []int
	killed := "none"
	dead := false
	collect := func(lines []string, from, to int) {
		res := map[int]string{}
		notes := map[int]string{}
		diedOf := ""
		ev := map[string][]string{}
		for _, l := range lines {
			f := strings.SplitN(l, " ", 3)
			if len(f) < 2 {
				continue
			}
			n, _ := strconv.Atoi(f[1])
			switch f[0] {
			case "r":
				if len(f) != 3 || n < from || n >= to {
					continue
				}
				r := f[2]
				kind := specs[n].Kind
				if (kind == "txn" || kind == "vtxn") && r == "ack" {
					acked = append(acked, n)
				}
				if (kind == "recover" || kind == "reopen") && strings.HasPrefix(r, "open=") {
					// verdicts are computed with what had been started / acknowledged at this point
					var surv map[int]bool
					r, surv = verdicts(prop, sync, r, acked, started, sizes, txnLines, killed)
					if dead {
						e.kills[strings.SplitN(killed, ".", 2)[0]]++
					}
					keep := func(l []int) []int {
						var o []int
						for _, b := range l {
							if surv[b] {
								o = append(o, b)
							}
						}
						return o
					}
					// after a crash only what survived stays started/acked (versions may be reused)
					acked, started = keep(acked), keep(started)
					dead = false
					killed = "none"
				}
				res[n] = r
			case "d":
				diedOf = f[1]
			case "a":
				if len(f) == 3 && f[2] == "ack" {
					acked = append(acked, n) // an asynchronous commit (ptxn) returned
				}
			case "m":
				e.kills["maint-"+strings.ReplaceAll(f[2], " ", "-")]++
			case "b":
				started = append(started, n)
			case "e":
				pf := strings.SplitN(f[2], " ", 2)
				k := fmt.Sprintf("%d/%s", n, pf[0])
				ev[k] = append(ev[k], pf[1])
			case "k":
				killed = strings.ReplaceAll(f[2], " ", ".")
				dead = true
			case "x":
				if len(f) == 3 && strings.HasPrefix(f[2], "!") {
					notes[n] = f[2] // e.g. !flush-stuck: appended to the line's own output
				} else {
					res[from] = "harness:" + strings.Join(f[1:], "_")
				}
			}
		}
		for i := from; i < to && i < len(ops); i++ {
			r, ok := res[i]
			if !ok {
				r = "-"
				if diedOf != "" {
					r = "died:" + diedOf // the first line the dead child never answered
					diedOf = ""
				}
			}
			tr := func(p string) string { return strings.Join(ev[fmt.Sprintf("%d/%s", i, p)], ",") }
			kind := specs[i].Kind
			if r == "malformed" {
				kind = ""
			}
			switch kind {
			case "txn", "vtxn", "join":
				r += " c=[" + tr("C") + "] f=[" + tr("F") + "]"
			case "ptxn":
				r += " c=[" + tr("C") + "]"
			case "close":
				r += " x=[" + tr("X") + "]"
			}
			if nt := notes[i]; nt != "" {
				r += " " + nt
			}
			out[i] = r
		}
	}
	if recoverLine < 0 {
		collect(runChildProc(dir, opsFile, 0, len(ops), ks.Path, ks.At, ks.K, true), 0, len(ops))
		return out
	}
	collect(runChildProc(dir, opsFile, 0, recoverLine+1, ks.Path, ks.At, ks.K, true), 0, recoverLine)
	collect(runChildProc(dir, opsFile, recoverLine, len(ops), "", -1, 0, false), recoverLine, len(ops))
	return out
}

package main

// Op-line language of the Disk engine (C09, C10, C12).  One case = one scenario:
//
//	open sync=<0|1> mt=<MemTableSize> vt=<ValueThreshold> vf=<ValueLogFileSize>
//	txn <ent> <ent> ...        one update transaction (Txn API), committed; entries
//	                           ent = k<id>=<len>[e|p]:<est>:<plen>:<vlen> set, value of <len> bytes ('e' = far-future expiry,
//	                                                                      'p' = expiry already elapsed when written)
//	                           ent = k<id>=del:<est>:<plen>:0               delete marker
//	                           <est>  = kv.EstimateEncodeSize of the entry as handed to lsm.SetBatch
//	                           <plen> = len(kv.EncodeEntry) of that entry (WAL payload)
//	                           <vlen> = len(kv.EncodeEntry) of the original entry (value-log record), 0 if inline
//	                           (sizes are computed by the generator with the real codec; C16 is about the codec)
//	kill <path> <op#> <k>      the victim dies right before the k-th durability-relevant file operation
//	                           of code path <path> (C commit, F flush, X close) attributed to workload line <op#>
//	recover                    reopen the directory with the plain FS and dump everything
//	close / reopen             clean close, reopen (C12), dump
//	vtxn <ver> <ent> ...       a transaction whose entries carry their own version <ver> (kv.Entry.Version through
//	                           Txn.SetEntry), lower than versions already stored
//	ptxn <ent> ... / join      asynchronous commits: the first ptxn of a group is parked right before the sync:wal
//	                           of its commit (the hook holds the commit worker there), the following ptxn lines
//	                           queue up behind it; `join` releases the worker: the queued requests are ONE commit
//	                           batch (several requests: vlog.write for all, then head/LSM per request, one sync)
//	maint rotate               seal the active memtable and flush it (the new memtable / WAL segment is empty)
//	maint l0move|drain|keep    one synchronous compaction step through the real planner + executor
//	                           (lsm/verif_lsm_hooks.go, background compactors stopped): contents must not change
//	probe                      commit one more transaction and report its version against all stored versions
import (
	"fmt"
	"strconv"
	"strings"
)

type entSpec struct {
	Key  int
	Len  int // -1 = delete
	Exp  int // 0 none, 1 far future ('e'), 2 already elapsed ('p': ExpiresAt = 1)
	Est  int
	Plen int
	Vlen int
}

type opSpec struct {
	Kind string // open txn kill recover close reopen probe
	// open
	Sync       bool
	MT, VT, VF int
	L0         int // NumLevelZeroTables (0 = 64: no compaction in small workloads)
	BS         int // MaxBatchSize / WriteBatchMaxSize (0 = default 1 MiB)
	MR         int // ManifestRewriteThreshold (0 = default 64 MiB; 1 = rewrite after every edit)
	// txn
	Ents []entSpec
	// kill
	Path string
	At   int
	K    int
}

const farExpiry = uint64(4102444800) // 2100-01-01, never reached by wall clock
const pastExpiry = uint64(1)         // elapsed long before the write: no wall-clock dependence

func expiryOf(mode int) uint64 {
	switch mode {
	case 1:
		return farExpiry
	case 2:
		return pastExpiry
	}
	return 0
}

// isTxn: the line commits one transaction (and consumes one commit timestamp)
func isTxn(kind string) bool { return kind == "txn" || kind == "ptxn" || kind == "vtxn" }

// lineOfValue recovers the workload line that wrote a value from its self-describing pattern "<line.key>...".
func lineOfValue(v []byte) int {
	if len(v) < 2 || v[0] != '<' {
		return -1
	}
	n, i := 0, 1
	for i < len(v) && v[i] >= '0' && v[i] <= '9' {
		n = n*10 + int(v[i]-'0')
		i++
	}
	if i == 1 || i >= len(v) || v[i] != '.' {
		return -1 // short values may cut the pattern: not decidable from the value alone
	}
	return n
}

func parseOp(line string) (opSpec, error) {
	f := strings.Fields(line)
	if len(f) == 0 {
		return opSpec{}, fmt.Errorf("empty op")
	}
	o := opSpec{Kind: f[0]}
	switch f[0] {
	case "open":
		for _, kv := range f[1:] {
			p := strings.SplitN(kv, "=", 2)
			if len(p) != 2 {
				return o, fmt.Errorf("bad open arg %q", kv)
			}
			n, err := strconv.Atoi(p[1])
			if err != nil {
				return o, err
			}
			switch p[0] {
			case "sync":
				o.Sync = n != 0
			case "mt":
				o.MT = n
			case "vt":
				o.VT = n
			case "vf":
				o.VF = n
			case "l0":
				o.L0 = n
			case "bs":
				o.BS = n
			case "mr":
				o.MR = n
			default:
				return o, fmt.Errorf("bad open arg %q", kv)
			}
		}
	case "txn", "ptxn", "vtxn":
		ents := f[1:]
		if f[0] == "vtxn" {
			if len(f) < 3 {
				return o, fmt.Errorf("vtxn <version> <ent>...")
			}
			var err error
			if o.K, err = strconv.Atoi(f[1]); err != nil {
				return o, err
			}
			ents = f[2:]
		}
		for _, e := range ents {
			parts := strings.Split(e, ":")
			if len(parts) != 4 {
				return o, fmt.Errorf("bad entry %q", e)
			}
			kvp := strings.SplitN(parts[0], "=", 2)
			if len(kvp) != 2 || !strings.HasPrefix(kvp[0], "k") {
				return o, fmt.Errorf("bad entry %q", e)
			}
			var es entSpec
			var err error
			if es.Key, err = strconv.Atoi(kvp[0][1:]); err != nil {
				return o, err
			}
			v := kvp[1]
			if v == "del" {
				es.Len = -1
			} else {
				if strings.HasSuffix(v, "e") {
					es.Exp = 1
					v = strings.TrimSuffix(v, "e")
				} else if strings.HasSuffix(v, "p") {
					es.Exp = 2
					v = strings.TrimSuffix(v, "p")
				}
				if es.Len, err = strconv.Atoi(v); err != nil {
					return o, err
				}
			}
			if es.Est, err = strconv.Atoi(parts[1]); err != nil {
				return o, err
			}
			if es.Plen, err = strconv.Atoi(parts[2]); err != nil {
				return o, err
			}
			if es.Vlen, err = strconv.Atoi(parts[3]); err != nil {
				return o, err
			}
			o.Ents = append(o.Ents, es)
		}
		if len(o.Ents) == 0 {
			return o, fmt.Errorf("empty txn")
		}
	case "kill":
		if len(f) != 4 {
			return o, fmt.Errorf("kill <path> <op#> <k>")
		}
		o.Path = f[1]
		var err error
		if o.At, err = strconv.Atoi(f[2]); err != nil {
			return o, err
		}
		if o.K, err = strconv.Atoi(f[3]); err != nil {
			return o, err
		}
	case "maint":
		if len(f) != 2 || (f[1] != "l0move" && f[1] != "drain" && f[1] != "keep" && f[1] != "rotate") {
			return o, fmt.Errorf("maint l0move|drain|keep|rotate")
		}
		o.Path = f[1]
	case "wait":
		if len(f) != 2 {
			return o, fmt.Errorf("wait <ms>")
		}
		var err error
		if o.K, err = strconv.Atoi(f[1]); err != nil {
			return o, err
		}
	case "prop":
		if len(f) != 2 {
			return o, fmt.Errorf("prop <Cxx>")
		}
		o.Path = f[1]
	case "probe":
		if len(f) != 3 {
			return o, fmt.Errorf("probe <est> <plen>")
		}
	case "recover", "close", "reopen", "join":
	default:
		return o, fmt.Errorf("unknown op %q", f[0])
	}
	return o, nil
}

func keyBytes(id int) []byte { return []byte(fmt.Sprintf("key%05d", id)) }

// valueBytes is the value written by workload line `line` for key `key`: a self-describing
// pattern so that any returned value can be checked against exactly one write.
func valueBytes(line, key, n int) []byte {
	if n <= 0 {
		return []byte{}
	}
	pat := []byte(fmt.Sprintf("<%d.%d>", line, key))
	out := make([]byte, n)
	for i := range out {
		out[i] = pat[i%len(pat)]
	}
	return out
}

// malformedLines applies the static well-formedness rule of a case (the driver applies the same):
// everything but prop/kill/wait before the first `open` is malformed, and so are a second `open`,
// a second `kill` and a second `recover`.
func malformedLines(specs []opSpec) []bool {
	bad := make([]bool, len(specs))
	opened, killed, recovered := false, false, false
	for i, s := range specs {
		switch s.Kind {
		case "prop", "wait":
		case "open":
			if opened {
				bad[i] = true
			}
			opened = true
		case "kill":
			if killed || !opened {
				bad[i] = true
			}
			killed = true
		case "recover":
			if recovered || !opened {
				bad[i] = true
			}
			recovered = true
		default:
			if !opened {
				bad[i] = true
			}
		}
	}
	return bad
}

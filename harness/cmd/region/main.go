// Correspondence harness for the Region engine: C24 (store catalog), C25 (command
// validation), C26 (PD routing), C38 (topology validation).
package main

import (
	"bytes"
	"context"
	"flag"
	"fmt"
	"os"
	"path/filepath"
	"sort"
	"strconv"
	"strings"

	"github.com/feichai0017/NoKV/config"
	"github.com/feichai0017/NoKV/manifest"
	"github.com/feichai0017/NoKV/pb"
	"github.com/feichai0017/NoKV/pd/core"
	pdserver "github.com/feichai0017/NoKV/pd/server"
	pdstorage "github.com/feichai0017/NoKV/pd/storage"
	"github.com/feichai0017/NoKV/pd/tso"
	myraft "github.com/feichai0017/NoKV/raft"
	"github.com/feichai0017/NoKV/raftstore"
	"github.com/feichai0017/NoKV/raftstore/store"
	"github.com/feichai0017/NoKV/vfs"
	"google.golang.org/grpc/status"

	"verif/harness/hlib"
)

var prop = flag.String("prop", "C26", "property: C24|C25|C26|C38")

// key alphabet: short keys with 00 / ff and prefix-related pairs
var keyPool = [][]byte{
	{}, {0x00}, {0x00, 0x00}, {0x61}, {0x61, 0x00}, {0x61, 0x61}, {0x61, 0xff}, {0x62}, {0x63}, {0x6d},
	{0x6d, 0x00}, {0x6e}, {0x7a}, {0x7a, 0xff}, {0xff}, {0xff, 0xff},
}

func rkey(r *hlib.Rand) []byte { return hlib.Pick(r, keyPool) }

// ---------------------------------------------------------------- C26

type pdEngine struct{ restarts int }

func (e *pdEngine) Rule() string {
	return "C26: random heartbeat/remove/lookup/restart sequences over 5 ids and a 16-key alphabet (incl. empty, 00, ff, prefix pairs; ~15% inverted or empty ranges; epochs drawn to collide); non-trivial = at least 2 accepted heartbeats and a lookup that hits a region"
}

func (e *pdEngine) Gen(r *hlib.Rand, tier string) []string {
	n := 8 + r.Intn(30)
	var ops, hbs []string
	for i := 0; i < n; i++ {
		switch x := r.Intn(100); {
		case x < 45:
			if len(hbs) > 0 && r.Chance(25) {
				// re-announce an earlier heartbeat byte for byte (a store repeats itself)
				ops = append(ops, hlib.Pick(r, hbs))
				continue
			}
			id := r.Intn(6) // 0 = invalid
			a, b := rkey(r), rkey(r)
			if !r.Chance(15) && len(b) > 0 && bytes.Compare(a, b) >= 0 {
				a, b = b, a
			}
			hb := fmt.Sprintf("pd.hb %d %s %s %d %d", id, hlib.Hex(a), hlib.Hex(b), 1+r.Intn(3), 1+r.Intn(3))
			hbs = append(hbs, hb)
			if r.Chance(10) {
				// the same heartbeat with a failing write to pd/storage, then lookups in and around its range
				ops = append(ops, strings.Replace(hb, "pd.hb", "pd.hbfail", 1), "pd.get "+hlib.Hex(a), "pd.get "+hlib.Hex(rkey(r)))
				continue
			}
			ops = append(ops, hb)
		case x < 55:
			ops = append(ops, fmt.Sprintf("pd.rm %d", r.Intn(6)))
		case x < 90:
			ops = append(ops, "pd.get "+hlib.Hex(rkey(r)))
		case x < 95:
			ops = append(ops, "pd.snap")
		default:
			if r.Chance(35) {
				ops = append(ops, "pd.torn", "pd.snap")
				continue
			}
			ops = append(ops, "pd.restart", "pd.snap", "pd.get "+hlib.Hex(rkey(r)))
		}
	}
	ops = append(ops, "pd.restart", "pd.snap")
	return ops
}

func (e *pdEngine) Nontrivial(ops, impl, model, spec []string) bool {
	acc, hit := 0, false
	for i, op := range ops {
		if strings.HasPrefix(op, "pd.hb") && impl[i] == "ok" {
			acc++
		}
		if strings.HasPrefix(op, "pd.get") && impl[i] != "none" {
			hit = true
		}
	}
	return acc >= 2 && hit
}

func pdErr(err error) string {
	if err == nil {
		return "ok"
	}
	msg := status.Convert(err).Message()
	switch {
	case strings.Contains(msg, "persist region metadata"):
		return "rej:persist"
	case strings.Contains(msg, "invalid region id"):
		return "rej:invalid-id"
	case strings.Contains(msg, "stale"):
		return "rej:stale"
	case strings.Contains(msg, "overlap"):
		return "rej:overlap"
	case strings.Contains(msg, "range"):
		return "rej:invalid-range"
	}
	return "rej:other:" + msg
}

func (e *pdEngine) Exec(ops []string) []string {
	dir, err := os.MkdirTemp("", "verif-pd-")
	if err != nil {
		panic(err)
	}
	defer os.RemoveAll(dir)
	ctx := context.Background()
	var st *pdstorage.LocalStore
	var svc *pdserver.Service
	var cluster *core.Cluster
	pdArmed := false // one-shot: the next write to PD's manifest fails
	pdfs := vfs.NewFaultFS(vfs.OSFS{}, func(op vfs.Op, path string) error {
		if pdArmed && op == vfs.OpFileWrite && strings.Contains(path, "MANIFEST-") {
			pdArmed = false
			return fmt.Errorf("verif: injected pd storage write failure")
		}
		return nil
	})
	open := func() {
		st, err = pdstorage.OpenLocalStore(dir, pdfs)
		if err != nil {
			panic(err)
		}
		snap, err := st.Load()
		if err != nil {
			panic(err)
		}
		cluster = core.NewCluster()
		// cmd/nokv/pd.go:restorePDRegions — re-upsert in id order
		ids := make([]uint64, 0, len(snap.Regions))
		for id := range snap.Regions {
			if id != 0 {
				ids = append(ids, id)
			}
		}
		sort.Slice(ids, func(i, j int) bool { return ids[i] < ids[j] })
		for _, id := range ids {
			_ = cluster.UpsertRegionHeartbeat(snap.Regions[id])
		}
		svc = pdserver.NewService(cluster, core.NewIDAllocator(1), tso.NewAllocator(1))
		svc.SetStorage(st)
	}
	open()
	defer func() { st.Close() }()
	out := make([]string, len(ops))
	for i, op := range ops {
		f := strings.Fields(op)
		pdArmed = false
		if f[0] == "pd.hbfail" {
			pdArmed = true
			f[0] = "pd.hb"
		}
		switch f[0] {
		case "pd.hb":
			id, _ := strconv.ParseUint(f[1], 10, 64)
			ver, _ := strconv.ParseUint(f[4], 10, 64)
			conf, _ := strconv.ParseUint(f[5], 10, 64)
			_, err := svc.RegionHeartbeat(ctx, &pb.RegionHeartbeatRequest{Region: &pb.RegionMeta{
				Id: id, StartKey: hlib.UnHex(f[2]), EndKey: hlib.UnHex(f[3]), EpochVersion: ver, EpochConfVersion: conf}})
			out[i] = pdErr(err)
		case "pd.rm":
			id, _ := strconv.ParseUint(f[1], 10, 64)
			resp, err := svc.RemoveRegion(ctx, &pb.RemoveRegionRequest{RegionId: id})
			if err != nil {
				out[i] = "false" // region_id == 0 is an InvalidArgument: nothing removed
			} else {
				out[i] = strconv.FormatBool(resp.GetRemoved())
			}
		case "pd.get":
			resp, err := svc.GetRegionByKey(ctx, &pb.GetRegionByKeyRequest{Key: hlib.UnHex(f[1])})
			if err != nil {
				out[i] = "err:" + err.Error()
			} else if resp.GetNotFound() {
				out[i] = "none"
			} else {
				out[i] = strconv.FormatUint(resp.GetRegion().GetId(), 10)
			}
		case "pd.snap", "pd.restart", "pd.torn":
			if f[0] == "pd.torn" {
				// a crash that left only the 4-byte length prefix of the next manifest record: close,
				// append the prefix to the live manifest, restart (recovery must drop the torn tail)
				st.Close()
				if cur, err := os.ReadFile(filepath.Join(dir, "CURRENT")); err == nil {
					name := strings.TrimSpace(string(cur))
					if fh, err := os.OpenFile(filepath.Join(dir, name), os.O_WRONLY|os.O_APPEND, 0); err == nil {
						_, _ = fh.Write([]byte{0, 0, 0, 24})
						_ = fh.Close()
					}
				}
				open()
				e.restarts++
			}
			if f[0] == "pd.restart" {
				st.Close()
				open()
				e.restarts++
			}
			var parts []string
			for _, info := range cluster.RegionSnapshot() {
				m := info.Meta
				parts = append(parts, fmt.Sprintf("%d:%s:%s:%d:%d", m.ID, hlib.Hex(m.StartKey), hlib.Hex(m.EndKey), m.Epoch.Version, m.Epoch.ConfVersion))
			}
			if len(parts) == 0 {
				out[i] = "-"
			} else {
				out[i] = strings.Join(parts, ";")
			}
		default:
			out[i] = "bad-op"
		}
	}
	return out
}

// ---------------------------------------------------------------- C25

type cmdEngine struct{}

func (e *cmdEngine) Rule() string {
	return "C25: one validate or scan-trim query per op; regions drawn from {unbounded, bounded} x key alphabet, request keys at {empty, start, inside, end-1-ish, end, beyond}, epochs equal/off-by-one/missing, all 7 command kinds + unknown; non-trivial = case contains both an accepted and a rejected command with matching epoch"
}

var kinds = []string{"get", "scan", "prewrite", "commit", "rollback", "resolve", "checkstatus", "other"}

func (e *cmdEngine) Gen(r *hlib.Rand, tier string) []string {
	n := 10 + r.Intn(20)
	var ops []string
	for i := 0; i < n; i++ {
		a, b := rkey(r), rkey(r)
		if len(b) > 0 && bytes.Compare(a, b) >= 0 && !r.Chance(10) {
			a, b = b, a
		}
		ver, conf := 1+r.Intn(2), 1+r.Intn(2)
		if r.Chance(25) {
			// scan trimming
			path := "read"
			if r.Bool() {
				path = "propose"
			}
			var ks []string
			for j := r.Intn(6); j > 0; j-- {
				ks = append(ks, hlib.Hex(rkey(r)))
			}
			keys := "-"
			if len(ks) > 0 {
				keys = strings.Join(ks, ",")
			}
			if r.Chance(45) {
				// a batched command: several sub-requests, scans mixed with other kinds, empty and
				// missing results before non-empty ones
				nr := 2 + r.Intn(4)
				var rs []string
				for j := 0; j < nr; j++ {
					switch x := r.Intn(10); {
					case x < 2:
						rs = append(rs, "n")
					case x < 5:
						rs = append(rs, "-")
					default:
						var kk []string
						for q := 1 + r.Intn(4); q > 0; q-- {
							kk = append(kk, hlib.Hex(rkey(r)))
						}
						rs = append(rs, strings.Join(kk, ","))
					}
				}
				ops = append(ops, fmt.Sprintf("cmd.scanbatch %s %s %s %s", path, hlib.Hex(a), hlib.Hex(b), strings.Join(rs, ";")))
				continue
			}
			ops = append(ops, fmt.Sprintf("cmd.scanout %s %s %s %s", path, hlib.Hex(a), hlib.Hex(b), keys))
			continue
		}
		rv, rc := strconv.Itoa(ver), strconv.Itoa(conf)
		switch r.Intn(10) {
		case 0:
			rv = strconv.Itoa(ver + 1)
		case 1:
			rc = strconv.Itoa(conf + 1)
		case 2:
			rv, rc = "none", "none"
		}
		var reqs []string
		for j := r.Intn(3); j >= 0; j-- {
			k := hlib.Pick(r, kinds)
			if k == "other" && !r.Chance(20) {
				k = "get"
			}
			nk := 1
			if k == "prewrite" || k == "commit" || k == "rollback" || k == "resolve" {
				nk = r.Intn(4)
			}
			var ks []string
			for ; nk > 0; nk-- {
				key := rkey(r)
				if r.Chance(60) { // bias to boundaries
					switch r.Intn(4) {
					case 0:
						key = a
					case 1:
						key = b
					case 2:
						key = append(append([]byte{}, a...), 0x00)
					case 3:
						if len(b) > 0 {
							key = append(append([]byte{}, b[:len(b)-1]...), b[len(b)-1]-1, 0xff)
							if b[len(b)-1] == 0 {
								key = b[:len(b)-1]
							}
						}
					}
				}
				ks = append(ks, hlib.Hex(key))
			}
			keys := "-"
			if len(ks) > 0 {
				keys = strings.Join(ks, ",")
			}
			if k == "other" {
				keys = "-"
			}
			reqs = append(reqs, k+":"+keys)
		}
		ops = append(ops, fmt.Sprintf("cmd.validate %s %s %d %d %s %s %s", hlib.Hex(a), hlib.Hex(b), ver, conf, rv, rc, strings.Join(reqs, ";")))
	}
	return ops
}

func (e *cmdEngine) Nontrivial(ops, impl, model, spec []string) bool {
	okc, rej := false, false
	for i, op := range ops {
		if strings.HasPrefix(op, "cmd.validate") {
			if impl[i] == "ok" {
				okc = true
			} else {
				rej = true
			}
		}
	}
	return okc && rej
}

func splitKeys(s string) [][]byte {
	if s == "-" || s == "" {
		return nil
	}
	var out [][]byte
	for _, k := range strings.Split(s, ",") {
		b := hlib.UnHex(k)
		if b == nil {
			b = []byte{}
		}
		out = append(out, b)
	}
	return out
}

func buildReq(kind string, keys [][]byte) *pb.Request {
	first := func() []byte {
		if len(keys) > 0 {
			return keys[0]
		}
		return nil
	}
	switch kind {
	case "get":
		return &pb.Request{CmdType: pb.CmdType_CMD_GET, Cmd: &pb.Request_Get{Get: &pb.GetRequest{Key: first(), Version: 1}}}
	case "scan":
		return &pb.Request{CmdType: pb.CmdType_CMD_SCAN, Cmd: &pb.Request_Scan{Scan: &pb.ScanRequest{StartKey: first(), Limit: 10, Version: 1}}}
	case "prewrite":
		var muts []*pb.Mutation
		for _, k := range keys {
			muts = append(muts, &pb.Mutation{Op: pb.Mutation_Put, Key: k, Value: []byte("v")})
		}
		return &pb.Request{CmdType: pb.CmdType_CMD_PREWRITE, Cmd: &pb.Request_Prewrite{Prewrite: &pb.PrewriteRequest{Mutations: muts, PrimaryLock: first(), StartVersion: 1}}}
	case "commit":
		return &pb.Request{CmdType: pb.CmdType_CMD_COMMIT, Cmd: &pb.Request_Commit{Commit: &pb.CommitRequest{Keys: keys, StartVersion: 1, CommitVersion: 2}}}
	case "rollback":
		return &pb.Request{CmdType: pb.CmdType_CMD_BATCH_ROLLBACK, Cmd: &pb.Request_BatchRollback{BatchRollback: &pb.BatchRollbackRequest{Keys: keys, StartVersion: 1}}}
	case "resolve":
		return &pb.Request{CmdType: pb.CmdType_CMD_RESOLVE_LOCK, Cmd: &pb.Request_ResolveLock{ResolveLock: &pb.ResolveLockRequest{Keys: keys, StartVersion: 1}}}
	case "checkstatus":
		return &pb.Request{CmdType: pb.CmdType_CMD_CHECK_TXN_STATUS, Cmd: &pb.Request_CheckTxnStatus{CheckTxnStatus: &pb.CheckTxnStatusRequest{PrimaryKey: first(), LockTs: 1}}}
	default:
		return &pb.Request{CmdType: pb.CmdType(99)}
	}
}

func (e *cmdEngine) Exec(ops []string) []string {
	out := make([]string, len(ops))
	for i, op := range ops {
		f := strings.Fields(op)
		switch f[0] {
		case "cmd.validate":
			ver, _ := strconv.ParseUint(f[3], 10, 64)
			conf, _ := strconv.ParseUint(f[4], 10, 64)
			meta := manifest.RegionMeta{ID: 1, StartKey: hlib.UnHex(f[1]), EndKey: hlib.UnHex(f[2]),
				Epoch: manifest.RegionEpoch{Version: ver, ConfVersion: conf}}
			hdr := &pb.CmdHeader{RegionId: 1}
			if f[5] != "none" {
				rv, _ := strconv.ParseUint(f[5], 10, 64)
				rc, _ := strconv.ParseUint(f[6], 10, 64)
				hdr.RegionEpoch = &pb.RegionEpoch{Version: rv, ConfVer: rc}
			}
			req := &pb.RaftCmdRequest{Header: hdr}
			if f[7] != "-" {
				for _, rq := range strings.Split(f[7], ";") {
					kv := strings.SplitN(rq, ":", 2)
					req.Requests = append(req.Requests, buildReq(kv[0], splitKeys(kv[1])))
				}
			}
			if store.VerifValidateRequest(meta, req) == nil {
				out[i] = "ok"
			} else {
				out[i] = "rej"
			}
		case "cmd.scanout":
			meta := manifest.RegionMeta{ID: 1, StartKey: hlib.UnHex(f[2]), EndKey: hlib.UnHex(f[3])}
			keys := splitKeys(f[4])
			req := &pb.RaftCmdRequest{Header: &pb.CmdHeader{RegionId: 1}, Requests: []*pb.Request{buildReq("scan", nil)}}
			var kvs []*pb.KV
			for _, k := range keys {
				kvs = append(kvs, &pb.KV{Key: k, Value: []byte("v")})
			}
			resp := &pb.RaftCmdResponse{Responses: []*pb.Response{{Cmd: &pb.Response_Scan{Scan: &pb.ScanResponse{Kvs: kvs}}}}}
			if f[1] == "read" || proposeTrims {
				store.VerifTrimScanResponse(meta, req, resp)
			}
			var ks []string
			for _, kv := range resp.Responses[0].GetScan().GetKvs() {
				ks = append(ks, hlib.Hex(kv.Key))
			}
			if len(ks) == 0 {
				out[i] = "-"
			} else {
				out[i] = strings.Join(ks, ",")
			}
		case "cmd.scanbatch":
			meta := manifest.RegionMeta{ID: 1, StartKey: hlib.UnHex(f[2]), EndKey: hlib.UnHex(f[3])}
			req := &pb.RaftCmdRequest{Header: &pb.CmdHeader{RegionId: 1}}
			resp := &pb.RaftCmdResponse{}
			parts := strings.Split(f[4], ";")
			for j, p := range parts {
				if p == "n" {
					// alternate between "another command kind" and "a scan whose response is missing"
					if j%2 == 0 {
						req.Requests = append(req.Requests, buildReq("get", [][]byte{[]byte("k")}))
						resp.Responses = append(resp.Responses, &pb.Response{Cmd: &pb.Response_Get{Get: &pb.GetResponse{}}})
					} else {
						req.Requests = append(req.Requests, buildReq("scan", nil))
						resp.Responses = append(resp.Responses, nil)
					}
					continue
				}
				var kvs []*pb.KV
				for _, k := range splitKeys(p) {
					kvs = append(kvs, &pb.KV{Key: k, Value: []byte("v")})
				}
				req.Requests = append(req.Requests, buildReq("scan", nil))
				resp.Responses = append(resp.Responses, &pb.Response{Cmd: &pb.Response_Scan{Scan: &pb.ScanResponse{Kvs: kvs}}})
			}
			if f[1] == "read" || proposeTrims {
				store.VerifTrimScanResponse(meta, req, resp)
			}
			var outs []string
			for j, p := range parts {
				if p == "n" {
					outs = append(outs, "n")
					continue
				}
				var ks []string
				for _, kv := range resp.Responses[j].GetScan().GetKvs() {
					ks = append(ks, hlib.Hex(kv.Key))
				}
				if len(ks) == 0 {
					outs = append(outs, "-")
				} else {
					outs = append(outs, strings.Join(ks, ","))
				}
			}
			out[i] = strings.Join(outs, ";")
		default:
			out[i] = "bad-op"
		}
	}
	return out
}

// proposeTrims is measured once at start-up on a real single-peer store (see propose.go):
// does a CMD_SCAN sent through Store.ProposeCommand come back trimmed to the region range?
var proposeTrims bool

// ---------------------------------------------------------------- C38

type topoEngine struct{}

func (e *topoEngine) Rule() string {
	return "C38: one topology per op over store ids 0..3, region ids 0..2, peers with store/peer ids 0..3, leader 0..4, templates from {empty, blank, with {id}, without, padded}; non-trivial = case has an accepted topology with >=2 stores and >=1 region, and >=2 distinct rejection classes"
}

var templPool = []string{"", " ", "\t \n", "/data/{id}", " /x/{id}/y ", "/data/id", "{id", "  {id}  ", "a", "{i}{d}"}

func (e *topoEngine) Gen(r *hlib.Rand, tier string) []string {
	n := 10 + r.Intn(15)
	var ops []string
	for i := 0; i < n; i++ {
		good := r.Chance(50)
		t1, t2 := "", ""
		if r.Chance(40) {
			t1 = hlib.Pick(r, templPool)
		}
		if r.Chance(30) {
			t2 = hlib.Pick(r, templPool)
		}
		if good {
			if strings.TrimSpace(t1) != "" && !strings.Contains(t1, "{id}") {
				t1 = "/d/{id}"
			}
			if strings.TrimSpace(t2) != "" && !strings.Contains(t2, "{id}") {
				t2 = ""
			}
		}
		ns := r.Intn(4)
		var stores []string
		var ids []int
		for j := 0; j < ns; j++ {
			id := r.Intn(4)
			if good {
				id = j + 1
			}
			ids = append(ids, id)
			stores = append(stores, strconv.Itoa(id))
		}
		nr := r.Intn(3)
		var regs []string
		for j := 0; j < nr; j++ {
			rid := r.Intn(3)
			leader := r.Intn(5)
			if good {
				rid = j + 1
				if len(ids) > 0 && r.Bool() {
					leader = ids[r.Intn(len(ids))]
				} else {
					leader = 0
				}
			}
			var peers []string
			for k := r.Intn(3); k > 0; k-- {
				s, p := r.Intn(4), r.Intn(4)
				if good {
					if len(ids) == 0 {
						break
					}
					s, p = ids[r.Intn(len(ids))], 1+r.Intn(3)
				}
				peers = append(peers, fmt.Sprintf("%d.%d", s, p))
			}
			ps := "-"
			if len(peers) > 0 {
				ps = strings.Join(peers, ",")
			}
			regs = append(regs, fmt.Sprintf("%d/%d/%s", rid, leader, ps))
		}
		ss, rs := "-", "-"
		if len(stores) > 0 {
			ss = strings.Join(stores, ",")
		}
		if len(regs) > 0 {
			rs = strings.Join(regs, ";")
		}
		ops = append(ops, fmt.Sprintf("topo.validate %s %s %s %s", hlib.Hex([]byte(t1)), hlib.Hex([]byte(t2)), ss, rs))
	}
	return ops
}

func (e *topoEngine) Nontrivial(ops, impl, model, spec []string) bool {
	classes := map[string]bool{}
	okBig := false
	for i, op := range ops {
		if impl[i] == "ok" {
			f := strings.Fields(op)
			if strings.Count(f[3], ",") >= 1 && f[4] != "-" {
				okBig = true
			}
		} else {
			classes[impl[i]] = true
		}
	}
	return okBig && len(classes) >= 2
}

func topoClass(err error) string {
	if err == nil {
		return "ok"
	}
	m := err.Error()
	switch {
	case strings.Contains(m, "store_docker_work_dir_template"):
		return "rej:docker-templ"
	case strings.Contains(m, "store_work_dir_template"):
		return "rej:templ"
	case strings.Contains(m, "store_id must be"):
		return "rej:store-zero"
	case strings.Contains(m, "duplicate store_id"):
		return "rej:store-dup"
	case strings.Contains(m, "region id must be"):
		return "rej:region-zero"
	case strings.Contains(m, "leader store"):
		return "rej:leader-missing"
	case strings.Contains(m, "requires store_id and peer_id"):
		return "rej:peer-zero"
	case strings.Contains(m, "unknown store"):
		return "rej:peer-unknown"
	}
	return "rej:other:" + m
}

func (e *topoEngine) Exec(ops []string) []string {
	out := make([]string, len(ops))
	for i, op := range ops {
		f := strings.Fields(op)
		if f[0] != "topo.validate" {
			out[i] = "bad-op"
			continue
		}
		file := &config.File{StoreWorkDirTemplate: string(hlib.UnHex(f[1])), StoreDockerWorkDirTemplate: string(hlib.UnHex(f[2]))}
		if f[3] != "-" {
			for _, s := range strings.Split(f[3], ",") {
				id, _ := strconv.ParseUint(s, 10, 64)
				file.Stores = append(file.Stores, config.Store{StoreID: id})
			}
		}
		if f[4] != "-" {
			for _, rs := range strings.Split(f[4], ";") {
				p := strings.Split(rs, "/")
				rid, _ := strconv.ParseUint(p[0], 10, 64)
				leader, _ := strconv.ParseUint(p[1], 10, 64)
				reg := config.Region{ID: rid, LeaderStoreID: leader}
				if p[2] != "-" {
					for _, pp := range strings.Split(p[2], ",") {
						sp := strings.Split(pp, ".")
						a, _ := strconv.ParseUint(sp[0], 10, 64)
						b, _ := strconv.ParseUint(sp[1], 10, 64)
						reg.Peers = append(reg.Peers, config.Peer{StoreID: a, PeerID: b})
					}
				}
				file.Regions = append(file.Regions, reg)
			}
		}
		out[i] = topoClass(file.Validate())
	}
	return out
}

// ---------------------------------------------------------------- C24

type catEngine struct{}

func (e *catEngine) Rule() string {
	return "C24: (incl. splits whose child cannot be started, which must roll back) start from a random partition (2-4 adjacent regions, bounded or unbounded ends) on a real Store with a manifest; random split (valid and invalid split keys, child end = parent end), merge (any ordered pair: left/right neighbour, non-adjacent, self, missing), remove, state change, reopen; probes of covered/uncovered keys after every mutation; non-trivial = at least one successful split and one successful merge"
}

func (e *catEngine) Gen(r *hlib.Rand, tier string) []string {
	// boundaries: strictly increasing subset of the pool
	cuts := [][]byte{{0x61}, {0x63}, {0x6d}, {0x6e}, {0x7a}}
	nreg := 2 + r.Intn(3)
	start := []byte{}
	if r.Bool() {
		start = []byte{0x00}
	}
	idx := r.Intn(2)
	var metas []string
	var bounds [][]byte
	bounds = append(bounds, start)
	for i := 0; i < nreg; i++ {
		var end []byte
		if i == nreg-1 && r.Bool() {
			end = nil
		} else {
			if idx >= len(cuts) {
				nreg = i
				break
			}
			end = cuts[idx]
			idx += 1 + r.Intn(2)
		}
		metas = append(metas, fmt.Sprintf("%d:%s:%s:%d:%d", i+1, hlib.Hex(bounds[i]), hlib.Hex(end), 1+r.Intn(2), 1))
		bounds = append(bounds, end)
		if end == nil {
			nreg = i + 1
			break
		}
	}
	ops := []string{"cat.init " + strings.Join(metas, ";")}
	nextID := nreg + 1
	probes := [][]byte{{}, {0x00}, {0x61}, {0x62}, {0x63}, {0x64}, {0x6d}, {0x6d, 0x00}, {0x6e}, {0x70}, {0x7a}, {0x7b}, {0xff}}
	probe := func() {
		for j := 0; j < 3; j++ {
			ops = append(ops, "cat.probe "+hlib.Hex(hlib.Pick(r, probes)))
		}
	}
	n := 4 + r.Intn(10)
	for i := 0; i < n; i++ {
		switch x := r.Intn(100); {
		case x < 35:
			parent := 1 + r.Intn(nextID)
			key := hlib.Pick(r, probes)
			// child end must equal the parent's current end: the harness cannot know it without
			// tracking, so it asks for it symbolically: "@" = parent's end (resolved by both sides)
			ops = append(ops, fmt.Sprintf("cat.split %d %d %s @ %d %d", parent, nextID, hlib.Hex(key), 1+r.Intn(2), 1))
			nextID++
			probe()
		case x < 42:
			ops = append(ops, fmt.Sprintf("cat.splitfail %d %d %s", 1+r.Intn(nextID), nextID, hlib.Hex(hlib.Pick(r, probes))))
			nextID++
			probe()
			ops = append(ops, "cat.snap")
		case x < 70:
			t := 1 + r.Intn(nextID)
			s := 1 + r.Intn(nextID)
			if r.Chance(60) { // neighbours by id are usually neighbours by range
				if r.Bool() {
					s = t + 1
				} else if t > 1 {
					s = t - 1
				}
			}
			ops = append(ops, fmt.Sprintf("cat.merge %d %d", t, s))
			probe()
		case x < 78:
			ops = append(ops, fmt.Sprintf("cat.remove %d", 1+r.Intn(nextID)))
			probe()
		case x < 86:
			ops = append(ops, fmt.Sprintf("cat.state %d %d", 1+r.Intn(nextID), r.Intn(5)))
			if r.Chance(40) { // a tombstoned/removing region must survive a manifest rewrite + restart
				ops = append(ops, "cat.rewrite", "cat.reopen")
			}
		case x < 93:
			ops = append(ops, "cat.reopen", "cat.snap")
		default:
			ops = append(ops, "cat.snap")
		}
	}
	ops = append(ops, "cat.snap")
	// a share of the mutating operations runs with a failing manifest append
	for i, op := range ops {
		if (strings.HasPrefix(op, "cat.split ") || strings.HasPrefix(op, "cat.merge ") || strings.HasPrefix(op, "cat.state ") ||
			strings.HasPrefix(op, "cat.remove ")) && r.Chance(12) {
			ops[i] = "cat.iofail " + op
		}
	}
	if r.Chance(30) {
		ops = append(ops, "cat.rewrite", "cat.reopen", "cat.snap")
	}
	return ops
}

func (e *catEngine) Nontrivial(ops, impl, model, spec []string) bool {
	s, m := false, false
	for i, op := range ops {
		if strings.HasPrefix(op, "cat.split") && impl[i] == "ok" {
			s = true
		}
		if strings.HasPrefix(op, "cat.merge") && impl[i] == "ok" {
			m = true
		}
	}
	return s && m
}

type noopTransport struct{}

func (noopTransport) Send(myraft.Message) {}

func peerBuilder(storeID uint64) store.PeerBuilder {
	return func(meta manifest.RegionMeta) (*raftstore.Config, error) {
		var peerID uint64
		for _, pm := range meta.Peers {
			if pm.StoreID == storeID {
				peerID = pm.PeerID
			}
		}
		if peerID == 0 {
			return nil, fmt.Errorf("no peer for store")
		}
		return &raftstore.Config{
			RaftConfig: myraft.Config{ID: peerID, ElectionTick: 5, HeartbeatTick: 1, MaxSizePerMsg: 1 << 20, MaxInflightMsgs: 256, PreVote: true},
			Transport:  noopTransport{},
			Apply:      func([]myraft.Entry) error { return nil },
			GroupID:    meta.ID,
			Region:     manifest.CloneRegionMetaPtr(&meta),
		}, nil
	}
}

func okErr(err error) string {
	if err == nil {
		return "ok"
	}
	return "err"
}

func inRange(m manifest.RegionMeta, k []byte) bool {
	if bytes.Compare(k, m.StartKey) < 0 {
		return false
	}
	return len(m.EndKey) == 0 || bytes.Compare(k, m.EndKey) < 0
}

func (e *catEngine) Exec(ops []string) []string {
	dir, err := os.MkdirTemp("", "verif-cat-")
	if err != nil {
		panic(err)
	}
	defer os.RemoveAll(dir)
	const storeID = 7
	var mgr *manifest.Manager
	var rs *store.Store
	armed := false // one-shot: the next write to the manifest file fails
	ffs := vfs.NewFaultFS(vfs.OSFS{}, func(op vfs.Op, path string) error {
		if armed && op == vfs.OpFileWrite && strings.Contains(path, "MANIFEST-") {
			armed = false
			return fmt.Errorf("verif: injected manifest write failure")
		}
		return nil
	})
	open := func() {
		mgr, err = manifest.Open(dir, ffs)
		if err != nil {
			panic(err)
		}
		rs = store.NewStoreWithConfig(store.Config{Manifest: mgr, PeerBuilder: peerBuilder(storeID), StoreID: storeID})
	}
	closeAll := func() {
		for _, h := range rs.Peers() {
			rs.Router().Deregister(h.ID) // stop routing without touching region state
			_ = h.Peer.Close()
		}
		rs.Close()
		_ = mgr.Close()
	}
	open()
	defer func() { closeAll() }()
	out := make([]string, len(ops))
	for i, op := range ops {
		f := strings.Fields(op)
		armed = false
		if f[0] == "cat.iofail" && len(f) > 1 {
			// the wrapped operation runs with the next manifest write failing once; it must
			// report an error and leave the catalog (memory and manifest) untouched
			armed = true
			f = f[1:]
		}
		switch f[0] {
		case "cat.init":
			for _, ms := range strings.Split(f[1], ";") {
				p := strings.Split(ms, ":")
				id, _ := strconv.ParseUint(p[0], 10, 64)
				ver, _ := strconv.ParseUint(p[3], 10, 64)
				conf, _ := strconv.ParseUint(p[4], 10, 64)
				_ = rs.UpdateRegion(manifest.RegionMeta{ID: id, StartKey: hlib.UnHex(p[1]), EndKey: hlib.UnHex(p[2]),
					Epoch: manifest.RegionEpoch{Version: ver, ConfVersion: conf}})
			}
			out[i] = "ok"
		case "cat.split":
			parent, _ := strconv.ParseUint(f[1], 10, 64)
			cid, _ := strconv.ParseUint(f[2], 10, 64)
			ver, _ := strconv.ParseUint(f[5], 10, 64)
			conf, _ := strconv.ParseUint(f[6], 10, 64)
			var end []byte
			if f[4] == "@" {
				if pm, ok := rs.RegionMetaByID(parent); ok {
					end = pm.EndKey
				}
			} else {
				end = hlib.UnHex(f[4])
			}
			child := &pb.RegionMeta{Id: cid, StartKey: hlib.UnHex(f[3]), EndKey: end, EpochVersion: ver, EpochConfVersion: conf,
				Peers: []*pb.RegionPeer{{StoreId: storeID, PeerId: 1000 + cid}}}
			out[i] = okErr(rs.VerifApplyAdmin(&pb.AdminCommand{Type: pb.AdminCommand_SPLIT,
				Split: &pb.SplitCommand{ParentRegionId: parent, SplitKey: hlib.UnHex(f[3]), Child: child}}))
		case "cat.splitfail":
			parent, _ := strconv.ParseUint(f[1], 10, 64)
			cid, _ := strconv.ParseUint(f[2], 10, 64)
			var end []byte
			if pm, ok := rs.RegionMetaByID(parent); ok {
				end = pm.EndKey
			}
			// the child has no replica on this store: the peer builder refuses it after the
			// parent was already shrunk, so SplitRegion must roll the parent back
			child := &pb.RegionMeta{Id: cid, StartKey: hlib.UnHex(f[3]), EndKey: end, EpochVersion: 1, EpochConfVersion: 1,
				Peers: []*pb.RegionPeer{{StoreId: storeID + 1, PeerId: 2000 + cid}}}
			out[i] = okErr(rs.VerifApplyAdmin(&pb.AdminCommand{Type: pb.AdminCommand_SPLIT,
				Split: &pb.SplitCommand{ParentRegionId: parent, SplitKey: hlib.UnHex(f[3]), Child: child}}))
		case "cat.merge":
			t, _ := strconv.ParseUint(f[1], 10, 64)
			s, _ := strconv.ParseUint(f[2], 10, 64)
			out[i] = okErr(rs.VerifApplyAdmin(&pb.AdminCommand{Type: pb.AdminCommand_MERGE,
				Merge: &pb.MergeCommand{TargetRegionId: t, SourceRegionId: s}}))
		case "cat.remove":
			id, _ := strconv.ParseUint(f[1], 10, 64)
			out[i] = okErr(rs.RemoveRegion(id))
		case "cat.state":
			id, _ := strconv.ParseUint(f[1], 10, 64)
			st, _ := strconv.ParseUint(f[2], 10, 64)
			out[i] = okErr(rs.UpdateRegionState(id, manifest.RegionState(st)))
		case "cat.snap", "cat.reopen":
			if f[0] == "cat.reopen" {
				closeAll()
				open()
			}
			metas := rs.RegionMetas()
			sort.Slice(metas, func(a, b int) bool { return metas[a].ID < metas[b].ID })
			var parts []string
			for _, m := range metas {
				parts = append(parts, fmt.Sprintf("%d:%s:%s:%d:%d:%d", m.ID, hlib.Hex(m.StartKey), hlib.Hex(m.EndKey), m.Epoch.Version, m.Epoch.ConfVersion, m.State))
			}
			if len(parts) == 0 {
				out[i] = "-"
			} else {
				out[i] = strings.Join(parts, ";")
			}
		case "cat.rewrite":
			out[i] = okErr(mgr.Rewrite())
		case "cat.probe":
			k := hlib.UnHex(f[1])
			n := 0
			for _, m := range rs.RegionMetas() {
				if inRange(m, k) {
					n++
				}
			}
			out[i] = fmt.Sprintf("n=%d", n)
		default:
			out[i] = "bad-op"
		}
	}
	return out
}

func main() {
	myraft.SetLogger(hlib.QuietRaftLogger{})
	// flag.Parse happens inside hlib.Main; peek at -prop first
	for i, a := range os.Args {
		if a == "-prop" && i+1 < len(os.Args) {
			*prop = os.Args[i+1]
		}
		if strings.HasPrefix(a, "-prop=") {
			*prop = strings.TrimPrefix(a, "-prop=")
		}
	}
	switch *prop {
	case "C24":
		hlib.Main("region/C24", &catEngine{})
	case "C25":
		proposeTrims = measureProposeTrims()
		hlib.Main("region/C25", &cmdEngine{})
	case "C26":
		hlib.Main("region/C26", &pdEngine{})
	case "C38":
		hlib.Main("region/C38", &topoEngine{})
	default:
		fmt.Fprintln(os.Stderr, "unknown -prop")
		os.Exit(2)
	}
}

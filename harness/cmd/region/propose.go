package main

import (
	"bytes"
	"fmt"
	"os"
	"time"

	NoKV "github.com/feichai0017/NoKV"
	"github.com/feichai0017/NoKV/manifest"
	"github.com/feichai0017/NoKV/pb"
	myraft "github.com/feichai0017/NoKV/raft"
	"github.com/feichai0017/NoKV/raftstore"
	"github.com/feichai0017/NoKV/raftstore/kv"
	"github.com/feichai0017/NoKV/raftstore/store"
)

// measureProposeTrims drives a real single-peer store: region [b,m) on a DB that also holds
// committed keys outside that range, then sends one CMD_SCAN through Store.ProposeCommand
// (public) and reports whether every returned key lies in [b,m).  A request the propose path
// refuses outright also counts as "trimmed" (nothing out of range leaves the store).
func measureProposeTrims() bool {
	dir, err := os.MkdirTemp("", "verif-propose-")
	if err != nil {
		panic(err)
	}
	defer os.RemoveAll(dir)
	opt := NoKV.NewDefaultOptions()
	opt.WorkDir = dir
	db := NoKV.Open(opt)
	defer db.Close()

	// data: c (in range), n and z (outside), written through the applier directly
	ts := uint64(10)
	for _, k := range []string{"c", "n", "z"} {
		pre := &pb.RaftCmdRequest{Header: &pb.CmdHeader{RegionId: 1}, Requests: []*pb.Request{{
			CmdType: pb.CmdType_CMD_PREWRITE,
			Cmd: &pb.Request_Prewrite{Prewrite: &pb.PrewriteRequest{
				Mutations:   []*pb.Mutation{{Op: pb.Mutation_Put, Key: []byte(k), Value: []byte("v-" + k)}},
				PrimaryLock: []byte(k), StartVersion: ts, LockTtl: 3000}}}}}
		if _, err := kv.Apply(db, pre); err != nil {
			panic(err)
		}
		com := &pb.RaftCmdRequest{Header: &pb.CmdHeader{RegionId: 1}, Requests: []*pb.Request{{
			CmdType: pb.CmdType_CMD_COMMIT,
			Cmd:     &pb.Request_Commit{Commit: &pb.CommitRequest{Keys: [][]byte{[]byte(k)}, StartVersion: ts, CommitVersion: ts + 1}}}}}
		if _, err := kv.Apply(db, com); err != nil {
			panic(err)
		}
		ts += 10
	}

	st := store.NewStoreWithConfig(store.Config{StoreID: 1, CommandApplier: kv.NewApplier(db)})
	defer st.Close()
	region := &manifest.RegionMeta{ID: 101, StartKey: []byte("b"), EndKey: []byte("m"),
		Epoch: manifest.RegionEpoch{Version: 1, ConfVersion: 1}, Peers: []manifest.PeerMeta{{StoreID: 1, PeerID: 1}}}
	cfg := &raftstore.Config{
		RaftConfig: myraft.Config{ID: 1, ElectionTick: 5, HeartbeatTick: 1, MaxSizePerMsg: 1 << 20, MaxInflightMsgs: 256, PreVote: true},
		Transport:  noopTransport{}, WAL: db.WAL(), Manifest: db.Manifest(), GroupID: 101, Region: region,
	}
	p, err := st.StartPeer(cfg, []myraft.Peer{{ID: 1}})
	if err != nil {
		panic(err)
	}
	defer st.StopPeer(p.ID())
	if err := p.Campaign(); err != nil {
		panic(err)
	}
	scan := func() *pb.RaftCmdRequest {
		return &pb.RaftCmdRequest{
			Header: &pb.CmdHeader{RegionId: 101, RegionEpoch: &pb.RegionEpoch{Version: 1, ConfVer: 1}},
			Requests: []*pb.Request{{CmdType: pb.CmdType_CMD_SCAN,
				Cmd: &pb.Request_Scan{Scan: &pb.ScanRequest{StartKey: []byte("c"), Limit: 10, Version: 1000}}}}}
	}
	var resp *pb.RaftCmdResponse
	deadline := time.Now().Add(10 * time.Second)
	for {
		resp, err = st.ProposeCommand(scan())
		if err == nil && resp.GetRegionError() == nil {
			break
		}
		if err != nil && time.Now().After(deadline) {
			// refused (or never served): nothing left the store
			return true
		}
		if time.Now().After(deadline) {
			panic(fmt.Sprintf("propose scan: region error persists: %v", resp.GetRegionError()))
		}
		time.Sleep(20 * time.Millisecond)
	}
	outOfRange := func(what string, resp *pb.RaftCmdResponse) bool {
		for _, r := range resp.GetResponses() {
			for _, kvp := range r.GetScan().GetKvs() {
				if bytes.Compare(kvp.Key, []byte("b")) < 0 || bytes.Compare(kvp.Key, []byte("m")) >= 0 {
					proposeWitness = fmt.Sprintf("region [b,m): %s via ProposeCommand returned key %q", what, kvp.Key)
					return true
				}
			}
		}
		return false
	}
	if outOfRange("CMD_SCAN from \"c\"", resp) {
		return false
	}
	// batched commands that mix the scan with other kinds (a write before or after it, a get):
	// the scan result must leave trimmed whatever else the command carries
	hdr := func() *pb.CmdHeader {
		return &pb.CmdHeader{RegionId: 101, RegionEpoch: &pb.RegionEpoch{Version: 1, ConfVer: 1}}
	}
	scanReq := func() *pb.Request {
		return &pb.Request{CmdType: pb.CmdType_CMD_SCAN,
			Cmd: &pb.Request_Scan{Scan: &pb.ScanRequest{StartKey: []byte("c"), Limit: 10, Version: 1000}}}
	}
	pre := func(k string, ts uint64) *pb.Request {
		return &pb.Request{CmdType: pb.CmdType_CMD_PREWRITE, Cmd: &pb.Request_Prewrite{Prewrite: &pb.PrewriteRequest{
			Mutations:   []*pb.Mutation{{Op: pb.Mutation_Put, Key: []byte(k), Value: []byte("w-" + k)}},
			PrimaryLock: []byte(k), StartVersion: ts, LockTtl: 3000}}}
	}
	rb := func(k string, ts uint64) *pb.Request {
		return &pb.Request{CmdType: pb.CmdType_CMD_BATCH_ROLLBACK, Cmd: &pb.Request_BatchRollback{BatchRollback: &pb.BatchRollbackRequest{
			Keys: [][]byte{[]byte(k)}, StartVersion: ts}}}
	}
	getReq := &pb.Request{CmdType: pb.CmdType_CMD_GET, Cmd: &pb.Request_Get{Get: &pb.GetRequest{Key: []byte("c"), Version: 1000}}}
	mixed := []struct {
		what string
		reqs []*pb.Request
	}{
		{"CMD_SCAN followed by CMD_PREWRITE", []*pb.Request{scanReq(), pre("d", 2000)}},
		{"CMD_BATCH_ROLLBACK followed by CMD_SCAN", []*pb.Request{rb("d", 2000), scanReq()}},
		{"CMD_GET followed by CMD_SCAN", []*pb.Request{getReq, scanReq()}},
		{"two CMD_SCANs", []*pb.Request{scanReq(), scanReq()}},
	}
	for _, m := range mixed {
		r, err := st.ProposeCommand(&pb.RaftCmdRequest{Header: hdr(), Requests: m.reqs})
		if err != nil || r.GetRegionError() != nil {
			continue // refused: nothing left the store
		}
		if outOfRange(m.what, r) {
			return false
		}
	}
	return true
}

var proposeWitness string

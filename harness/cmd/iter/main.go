// Correspondence harness for the iterator engine (C06): a real NoKV.DB in a temp dir is
// populated through the transactional API (several committed versions per key, deletes,
// far-past expiries), optionally the plain API, with explicit memtable rotations / flushes
// (verif hooks), then scanned through Txn.NewIterator / Txn.NewKeyIterator / DB.NewIterator
// with every cursor operation being one op line.
package main

import (
	"bytes"
	"fmt"
	"io"
	"log"
	"os"
	"regexp"
	"runtime"
	"runtime/debug"
	"strconv"
	"strings"
	"time"

	NoKV "github.com/feichai0017/NoKV"
	"github.com/feichai0017/NoKV/kv"
	"github.com/feichai0017/NoKV/utils"

	"verif/harness/hlib"
)

// key alphabet: 00 / ff bytes and prefix-related pairs ("p","pq","p\x00", "a","ab","a\x00","a\xff")
var keyPool = [][]byte{
	{0x00}, {0x61}, {0x61, 0x00}, {0x61, 0x62}, {0x61, 0xff}, {0x62}, {0x70}, {0x70, 0x00}, {0x70, 0x71},
	{0x70, 0x71, 0x00}, {0xff}, {0xff, 0xff},
}

// bounds / seek targets / prefixes additionally use the empty string and keys absent from the pool
var probePool = append([][]byte{{}, {0x61, 0x61}, {0x6f}, {0x70, 0x70}, {0x7a}, {0xfe}}, keyPool...)

type iterEngine struct {
	multiSrc   int
	withTomb   int
	withPrefix int
	cases      int
}

func (e *iterEngine) Rule() string {
	return "C06: non-trivial = some scan of the case returned >= 2 distinct keys and either met a tombstone/expired entry written in the case or returned a prefix-related key pair"
}

func (e *iterEngine) Extra() map[string]any {
	return map[string]any{"cases": e.cases, "cases_with_rotation_or_flush": e.multiSrc, "nontrivial_with_tombstone": e.withTomb,
		"nontrivial_with_prefix_pair": e.withPrefix}
}

func val(r *hlib.Rand) []byte {
	if r.Chance(12) {
		b := make([]byte, 40) // above the value threshold used by half of the cases
		for i := range b {
			b[i] = byte(0x41 + r.Intn(26))
		}
		return b
	}
	return []byte{0x76, byte(0x30 + r.Intn(10))}
}

func genWrites(r *hlib.Rand, n int) string {
	var ws []string
	for i := 0; i < n; i++ {
		k := hlib.Pick(r, keyPool)
		switch x := r.Intn(100); {
		case x < 60:
			ws = append(ws, "set:"+hlib.Hex(k)+":"+hlib.Hex(val(r)))
		case x < 85:
			ws = append(ws, "del:"+hlib.Hex(k))
		default:
			ws = append(ws, "exp:"+hlib.Hex(k)+":"+hlib.Hex(val(r)))
		}
	}
	if len(ws) == 0 {
		return "-"
	}
	return strings.Join(ws, ",")
}

func b01(b bool) string {
	if b {
		return "1"
	}
	return "0"
}

// genBlockCase: a memtable large enough to be flushed into a table of several 8 KiB blocks
// (inline 700..1100-byte values), then forward/reverse seeks around every key.
func (e *iterEngine) genBlockCase(r *hlib.Rand) []string {
	ops := []string{"open eng=skiplist vt=1048576"}
	nkeys := 10 + r.Intn(14)
	var keys [][]byte
	for i := 0; i < nkeys; i++ {
		keys = append(keys, []byte{0x6b, byte(0x30 + (2*i)/10), byte(0x30 + (2*i)%10)})
	}
	vlen := 700 + r.Intn(400)
	var ws []string
	for i, k := range keys {
		v := bytes.Repeat([]byte{byte(0x41 + i%26)}, vlen)
		if r.Chance(10) {
			ws = append(ws, "del:"+hlib.Hex(k))
		} else {
			ws = append(ws, "set:"+hlib.Hex(k)+":"+hlib.Hex(v))
		}
		if len(ws) == 4 || i == len(keys)-1 {
			ops = append(ops, "commit "+strings.Join(ws, ","))
			ws = nil
		}
	}
	ops = append(ops, "rotate", "flush")
	if r.Chance(40) {
		ops = append(ops, "commit set:"+hlib.Hex(hlib.Pick(r, keys))+":7631")
	}
	for it := 0; it < 2; it++ {
		rev := r.Chance(35)
		if r.Chance(25) {
			ops = append(ops, fmt.Sprintf("db.iter rev=%s ko=0 lo=- hi=-", b01(rev)))
		} else {
			ops = append(ops, fmt.Sprintf("txn.iter rev=%s all=%s ko=1 pik=0 pfx=- since=0 lo=- hi=- upd=0 pend=-", b01(rev), b01(r.Chance(20))))
		}
		for j := 0; j < 6; j++ {
			k := append([]byte(nil), hlib.Pick(r, keys)...)
			if r.Chance(40) {
				k[2]++ // a missing key between two stored ones
			}
			ops = append(ops, "seek "+hlib.Hex(k))
			if r.Chance(50) {
				ops = append(ops, "next")
			}
		}
		ops = append(ops, "close")
	}
	return ops
}

// scan ops shared by the directed generators
func genScans(r *hlib.Rand, ops []string, targets [][]byte, allowDB bool) []string {
	nit := 2 + r.Intn(2)
	for it := 0; it < nit; it++ {
		rev := r.Chance(35)
		if allowDB && r.Chance(30) {
			ops = append(ops, fmt.Sprintf("db.iter rev=%s ko=0 lo=- hi=-", b01(rev)))
		} else {
			ops = append(ops, fmt.Sprintf("txn.iter rev=%s all=%s ko=0 pik=0 pfx=- since=0 lo=- hi=- upd=0 pend=-", b01(rev), b01(r.Chance(25))))
		}
		if r.Chance(30) {
			ops = append(ops, "rewind", "next", "next")
		}
		for j := 0; j < 5; j++ {
			ops = append(ops, "seek "+hlib.Hex(hlib.Pick(r, targets)))
			for n := r.Intn(4); n > 0; n-- {
				ops = append(ops, "next")
			}
		}
		ops = append(ops, "close")
	}
	return ops
}

// genLevelCase: several flushes over (mostly) disjoint key groups, each sunk into the main tables
// of the base level (ConcatIterator over >= 2 tables), newer data above in L0 / memtables, then
// seeks whose targets include the gaps between adjacent tables.
func (e *iterEngine) genLevelCase(r *hlib.Rand) []string {
	vt := 1 << 20
	if r.Chance(40) {
		vt = 32
	}
	ops := []string{fmt.Sprintf("open eng=skiplist vt=%d", vt)}
	groups := [][][]byte{
		{{0x00}, {0x61}, {0x61, 0x00}, {0x61, 0x62}},
		{{0x62}, {0x70}, {0x70, 0x00}},
		{{0x70, 0x71}, {0x70, 0x71, 0x00}},
		{{0xff}, {0xff, 0xff}},
	}
	writes := func(g [][]byte, n int) string {
		var ws []string
		for i := 0; i < n; i++ {
			k := hlib.Pick(r, g)
			switch x := r.Intn(100); {
			case x < 70:
				ws = append(ws, "set:"+hlib.Hex(k)+":"+hlib.Hex(val(r)))
			case x < 88:
				ws = append(ws, "del:"+hlib.Hex(k))
			default:
				ws = append(ws, "exp:"+hlib.Hex(k)+":"+hlib.Hex(val(r)))
			}
		}
		return strings.Join(ws, ",")
	}
	// every key group is sunk at most once: the new table then overlaps no main table (a drain that
	// merges with bottom tables of a different range leaks that range in compact.State and later
	// compactions over it are refused — the lsm engine's subject, not modelled here)
	order := []int{0, 1, 2, 3}
	for i := len(order) - 1; i > 0; i-- {
		j := r.Intn(i + 1)
		order[i], order[j] = order[j], order[i]
	}
	rounds := 2 + r.Intn(3)
	for i := 0; i < rounds; i++ {
		g := groups[order[i]]
		for n := 1 + r.Intn(2); n > 0; n-- {
			ops = append(ops, "commit "+writes(g, 1+r.Intn(3)))
		}
		if r.Chance(10) {
			ops = append(ops, "pset "+hlib.Hex(hlib.Pick(r, g))+" "+hlib.Hex(val(r)))
		}
		ops = append(ops, "rotate", "flush", "sink")
	}
	// newer data above the level
	for n := r.Intn(3); n > 0; n-- {
		ops = append(ops, "commit "+genWrites(r, 1+r.Intn(2)))
		if r.Chance(40) {
			ops = append(ops, "rotate")
			if r.Chance(50) {
				ops = append(ops, "flush")
			}
		}
	}
	return genScans(r, ops, probePool, true)
}

// genARTCase: ART memtables, keys from a prefix-free alphabet (all keys have length 2) with a
// fan-out of 17..24 children below the node of the first byte, Seek + Next in both directions.
func (e *iterEngine) genARTCase(r *hlib.Rand) []string {
	ops := []string{"open eng=art vt=1048576"}
	var keys [][]byte
	fan := 17 + r.Intn(8)
	for i := 0; i < fan; i++ {
		keys = append(keys, []byte{0x6b, byte(0x61 + i)})
	}
	keys = append(keys, []byte{0x61, 0x61}, []byte{0x6d, 0x00}, []byte{0x7a, 0xff})
	perm := append([][]byte{}, keys...)
	for i := len(perm) - 1; i > 0; i-- { // insertion order decides the Node48 slots
		j := r.Intn(i + 1)
		perm[i], perm[j] = perm[j], perm[i]
	}
	var ws []string
	for i, k := range perm {
		ws = append(ws, "set:"+hlib.Hex(k)+":"+hlib.Hex(val(r)))
		if len(ws) == 4 || i == len(perm)-1 {
			ops = append(ops, "commit "+strings.Join(ws, ","))
			ws = nil
			if r.Chance(15) {
				ops = append(ops, "rotate")
			}
		}
	}
	for n := r.Intn(3); n > 0; n-- {
		k := hlib.Pick(r, keys)
		if r.Chance(50) {
			ops = append(ops, "commit del:"+hlib.Hex(k))
		} else {
			ops = append(ops, "commit set:"+hlib.Hex(k)+":"+hlib.Hex(val(r)))
		}
	}
	targets := append([][]byte{{0x6b, 0x60}, {0x6b, 0x7f}, {0x6c, 0x00}}, keys...)
	return genScans(r, ops, targets, true)
}

// genTxnSessionCase: ONE update transaction kept open across several writes and iterators:
// Set/Delete of keys that are already pending (no new key in between) interleaved with iterators
// in the same and in the opposite direction; every key a forward one-version iterator yields is
// also read with Txn.Get.
func (e *iterEngine) genTxnSessionCase(r *hlib.Rand) []string {
	ops := []string{"open eng=skiplist vt=1048576"}
	for n := 1 + r.Intn(3); n > 0; n-- {
		ops = append(ops, "commit "+genWrites(r, 1+r.Intn(3)))
		if r.Chance(25) {
			ops = append(ops, "rotate")
		}
	}
	ops = append(ops, "txn.begin upd=1")
	var pendKeys [][]byte
	write := func(fresh bool) {
		var ws []string
		for n := 1 + r.Intn(2); n > 0; n-- {
			var k []byte
			if fresh || len(pendKeys) == 0 {
				k = hlib.Pick(r, keyPool)
				pendKeys = append(pendKeys, k)
			} else {
				k = hlib.Pick(r, pendKeys)
			}
			switch x := r.Intn(100); {
			case x < 60:
				ws = append(ws, "set:"+hlib.Hex(k)+":"+hlib.Hex(val(r)))
			case x < 88:
				ws = append(ws, "del:"+hlib.Hex(k))
			default:
				ws = append(ws, "exp:"+hlib.Hex(k)+":"+hlib.Hex(val(r)))
			}
		}
		ops = append(ops, "txn.set "+strings.Join(ws, ","))
	}
	write(true)
	if r.Chance(60) {
		write(true)
	}
	rev := r.Chance(35)
	rounds := 3 + r.Intn(3)
	for i := 0; i < rounds; i++ {
		if i > 0 {
			write(r.Chance(20)) // mostly keys that are already pending
			if r.Chance(25) {
				rev = !rev
			}
		}
		ops = append(ops, fmt.Sprintf("txn.it rev=%s all=%s ko=0 pik=0 pfx=- since=0 lo=- hi=- ", b01(rev), b01(r.Chance(15))))
		ops = append(ops, "rewind")
		for n := 4 + r.Intn(8); n > 0; n-- {
			ops = append(ops, "next")
		}
		if r.Chance(40) {
			ops = append(ops, "seek "+hlib.Hex(hlib.Pick(r, probePool)), "next")
		}
		if len(pendKeys) > 0 {
			ops = append(ops, "get "+hlib.Hex(hlib.Pick(r, pendKeys)))
		}
		ops = append(ops, "close")
	}
	ops = append(ops, "txn.end")
	return ops
}

func (e *iterEngine) Gen(r *hlib.Rand, tier string) []string {
	switch x := r.Intn(100); {
	case x >= 86:
		return e.genTxnSessionCase(r)
	case x < 8:
		return e.genBlockCase(r)
	case x < 26:
		return e.genLevelCase(r)
	case x < 36:
		return e.genARTCase(r)
	}
	var ops []string
	eng := "skiplist"
	vt := 1 << 20
	if r.Chance(50) {
		vt = 32
	}
	ops = append(ops, fmt.Sprintf("open eng=%s vt=%d", eng, vt))
	// focus: a small sub-alphabet so that versions of the same key pile up
	npop := 4 + r.Intn(10)
	commits := 0
	rotations := 0
	plainMode := r.Chance(25)
	for i := 0; i < npop; i++ {
		switch x := r.Intn(100); {
		case x < 62:
			ops = append(ops, "commit "+genWrites(r, 1+r.Intn(3)))
			commits++
		case x < 72 && plainMode:
			k := hlib.Pick(r, keyPool)
			if r.Chance(70) {
				ops = append(ops, "pset "+hlib.Hex(k)+" "+hlib.Hex(val(r)))
			} else {
				ops = append(ops, "pdel "+hlib.Hex(k))
			}
		case x < 88 && rotations < 3:
			ops = append(ops, "rotate")
			rotations++
		default:
			ops = append(ops, "flush")
		}
	}
	// KeyOnly is generated only when every value stays inline (vt = 1 MiB), where it changes nothing.
	// With values in the value log the lazily fetched value buffers alias memtable memory
	// (observed: arena corruption, panic in SkipListIterator.Next, vlog read errors) — reported as an
	// unmodelled defect, witnesses under findings_proposed/iter-unmodelled/.
	koOK := vt == 1<<20
	nit := 1 + r.Intn(3)
	for i := 0; i < nit; i++ {
		isDB := r.Chance(25)
		rev := r.Chance(40)
		lo, hi := []byte{}, []byte{}
		if r.Chance(30) {
			lo = hlib.Pick(r, probePool)
		}
		if r.Chance(30) {
			hi = hlib.Pick(r, probePool)
		}
		if isDB {
			ops = append(ops, fmt.Sprintf("db.iter rev=%s ko=%s lo=%s hi=%s", b01(rev), b01(koOK && r.Chance(30)), hlib.Hex(lo), hlib.Hex(hi)))
		} else {
			all := r.Chance(25)
			pik := r.Chance(10)
			pfx := []byte{}
			if pik {
				pfx = hlib.Pick(r, keyPool)
			} else if r.Chance(25) {
				pfx = hlib.Pick(r, [][]byte{{0x61}, {0x70}, {0x70, 0x71}, {0xff}, {0x00}, {0x6f}})
			}
			since := 0
			if r.Chance(12) {
				since = r.Intn(commits + 2)
			}
			upd := r.Chance(55)
			pend := "-"
			if upd && r.Chance(80) {
				pend = genWrites(r, 1+r.Intn(3))
			}
			ops = append(ops, fmt.Sprintf("txn.iter rev=%s all=%s ko=%s pik=%s pfx=%s since=%d lo=%s hi=%s upd=%s pend=%s",
				b01(rev), b01(all), b01(koOK && r.Chance(30)), b01(pik), hlib.Hex(pfx), since, hlib.Hex(lo), hlib.Hex(hi), b01(upd), pend))
		}
		if (len(lo) > 0 || len(hi) > 0) && r.Chance(35) {
			// directed: position the iterator, then Seek outside the bounds, then Next — the
			// out-of-range Seek must keep the iterator invalid (seekOutOfRange)
			ops = append(ops, "rewind", "next")
			out := hi
			if rev {
				out = []byte{0x00}
				if bytes.Compare(out, lo) >= 0 {
					out = []byte{}
				}
			} else if len(hi) == 0 {
				out = []byte{0xff, 0xff, 0xff}
			}
			if len(out) > 0 {
				ops = append(ops, "seek "+hlib.Hex(out), "next", "next")
			}
		}
		nseg := 1 + r.Intn(3)
		for s := 0; s < nseg; s++ {
			if r.Chance(55) {
				ops = append(ops, "rewind")
			} else {
				ops = append(ops, "seek "+hlib.Hex(hlib.Pick(r, probePool)))
			}
			nn := r.Intn(8)
			if r.Chance(30) {
				nn = 14 // run to the end and beyond
			}
			for j := 0; j < nn; j++ {
				ops = append(ops, "next")
				if !isDB && r.Chance(10) {
					ops = append(ops, "get "+hlib.Hex(hlib.Pick(r, keyPool)))
				}
			}
		}
		ops = append(ops, "close")
	}
	return ops
}

func kvArg(toks []string, k string) string {
	for _, t := range toks {
		if strings.HasPrefix(t, k+"=") {
			return strings.TrimPrefix(t, k+"=")
		}
	}
	return ""
}

type write struct {
	kind string
	k, v []byte
}

func parseWrites(s string) []write {
	if s == "-" || s == "" {
		return nil
	}
	var out []write
	for _, w := range strings.Split(s, ",") {
		p := strings.Split(w, ":")
		x := write{kind: p[0], k: hlib.UnHex(p[1])}
		if len(p) > 2 {
			x.v = hlib.UnHex(p[2])
		}
		out = append(out, x)
	}
	return out
}

func applyWrites(txn *NoKV.Txn, ws []write) error {
	for _, w := range ws {
		var err error
		switch w.kind {
		case "set":
			err = txn.Set(append([]byte(nil), w.k...), append([]byte(nil), w.v...))
		case "del":
			err = txn.Delete(append([]byte(nil), w.k...))
		case "exp":
			e := kv.NewEntry(append([]byte(nil), w.k...), append([]byte(nil), w.v...))
			e.ExpiresAt = 1 // 1970: expired long ago, never decided by the wall clock
			err = txn.SetEntry(e)
		default:
			err = fmt.Errorf("bad write kind %q", w.kind)
		}
		if err != nil {
			return err
		}
	}
	return nil
}

func verStr(v uint64) string {
	if v == ^uint64(0) {
		return "max"
	}
	return strconv.FormatUint(v, 10)
}

type session struct {
	keepTxn  bool // txn.begin … txn.end: the transaction outlives its iterators
	checkGet bool // forward, one version per key, no write since the iterator was created
	db       *NoKV.DB
	dir      string
	txn      *NoKV.Txn
	tit      *NoKV.TxnIterator
	dit      utils.Iterator
	outs     []string
}

func (s *session) open(eng string, vt int) {
	dir, err := os.MkdirTemp("", "verif-iter-")
	if err != nil {
		panic(err)
	}
	opt := NoKV.NewDefaultOptions()
	opt.WorkDir = dir
	opt.MemTableSize = 1 << 20
	opt.SSTableMaxSz = 1 << 20
	opt.ValueLogFileSize = 1 << 20
	opt.ValueThreshold = int64(vt)
	opt.ValueLogBucketCount = 1
	opt.DetectConflicts = true
	opt.HotRingEnabled = false
	opt.ValueLogHotRingOverride = false
	opt.EnableWALWatchdog = false
	opt.ValueLogGCInterval = 0
	opt.WriteHotKeyLimit = 0
	opt.HotWriteBurstThreshold = 0
	opt.WriteBatchWait = 0
	opt.NumCompactors = 1
	if eng == "art" {
		opt.MemTableEngine = NoKV.MemTableEngineART
	} else {
		opt.MemTableEngine = NoKV.MemTableEngineSkiplist
	}
	opt.NumLevelZeroTables = 1000
	opt.IngestCompactBatchSize = 2
	s.dir = dir
	s.db = NoKV.Open(opt)
	// compaction only when an op asks for it
	s.db.VerifLSM().VerifStopCompactors()
}

func (s *session) closeIter() {
	if s.tit != nil {
		s.tit.Close()
		s.tit = nil
	}
	if s.dit != nil {
		_ = s.dit.Close()
		s.dit = nil
	}
	if s.txn != nil && !s.keepTxn {
		s.txn.Discard()
		s.txn = nil
	}
}

func (s *session) endTxn() {
	s.keepTxn = false
	s.closeIter()
}

func (s *session) shutdown() {
	defer func() { _ = recover() }()
	s.keepTxn = false
	if os.Getenv("ITER_DEBUG") != "" {
		t0 := time.Now()
		defer func() {
			if d := time.Since(t0); d > 200*time.Millisecond {
				fmt.Printf("SLOWCLOSE %v\n", d)
			}
		}()
	}
	s.closeIter()
	if s.db != nil {
		_ = s.db.Close()
	}
	if s.dir != "" {
		_ = os.RemoveAll(s.dir)
	}
	s.db = nil
	// every memtable owns a 64 MiB arena chunk: return them before the next case
	runtime.GC()
}

func (s *session) item() string {
	if s.tit != nil {
		if !s.tit.Valid() {
			return "-"
		}
		it := s.tit.Item()
		if it == nil || it.Entry() == nil {
			return "nil-item"
		}
		e := it.Entry()
		k := append([]byte(nil), e.Key...)
		ver := e.Version
		v, err := it.ValueCopy(nil)
		if err != nil {
			if os.Getenv("ITER_TRACE") != "" {
				fmt.Fprintf(os.Stderr, "VALUE-ERROR %v meta=%x val=%x\n", err, e.Meta, e.Value)
			}
			return "value-error"
		}
		out := hlib.Hex(k) + ":" + verStr(ver) + ":" + hlib.Hex(v)
		if s.checkGet {
			// "each value equals a point read of the same key"
			g, gerr := s.txn.Get(k)
			switch {
			case gerr != nil:
				out += "!get=err"
			default:
				gv, _ := g.ValueCopy(nil)
				if !bytes.Equal(gv, v) {
					out += "!get=" + hlib.Hex(gv)
				}
			}
		}
		return out
	}
	if s.dit != nil {
		if !s.dit.Valid() {
			return "-"
		}
		it := s.dit.Item()
		if it == nil || it.Entry() == nil {
			return "nil-item"
		}
		e := it.Entry()
		k := append([]byte(nil), e.Key...)
		ver := e.Version
		var v []byte
		if ni, ok := it.(*NoKV.Item); ok {
			var err error
			v, err = ni.ValueCopy(nil)
			if err != nil {
				return "value-error"
			}
		} else {
			v = e.Value
		}
		if e.CF != kv.CFDefault {
			return "cf!" + hlib.Hex(k)
		}
		return hlib.Hex(k) + ":" + verStr(ver) + ":" + hlib.Hex(v)
	}
	return "no-iter"
}

var tableRe = regexp.MustCompile(`\d+\[\d+\.([0-9a-f]*)@(\d+)\.\.\d+\.([0-9a-f]*)@(\d+)\]#(\d+)`)

// mainTables renders the main tables of level `base` from LSM.VerifShape as
// min@ver..max@ver#entries;… (what the driver prints for the model's level)
func mainTables(shape string, base int) string {
	var out []string
	for _, part := range strings.Fields(shape) {
		pre := fmt.Sprintf("L%d:", base)
		if !strings.HasPrefix(part, pre) {
			continue
		}
		part = strings.TrimPrefix(part, pre)
		if i := strings.Index(part, "|ingest:"); i >= 0 {
			part = part[:i]
		}
		for _, m := range tableRe.FindAllStringSubmatch(part, -1) {
			v := func(x string) string {
				n, _ := strconv.ParseUint(x, 10, 64)
				return verStr(n)
			}
			h := func(x string) string {
				if x == "" {
					return "-"
				}
				return x
			}
			out = append(out, fmt.Sprintf("%s@%s..%s@%s#%s", h(m[1]), v(m[2]), h(m[3]), v(m[4]), m[5]))
		}
	}
	return strings.Join(out, ";")
}

func (s *session) exec(op string) string {
	toks := strings.Fields(op)
	if len(toks) == 0 {
		return "bad-op"
	}
	if toks[0] == "open" {
		if s.db != nil {
			return "bad-op"
		}
		vt, _ := strconv.Atoi(kvArg(toks, "vt"))
		s.open(kvArg(toks, "eng"), vt)
		return "ok"
	}
	if s.db == nil {
		s.open("skiplist", 1<<20)
	}
	switch toks[0] {
	case "commit":
		txn := s.db.NewTransaction(true)
		if err := applyWrites(txn, parseWrites(toks[1])); err != nil {
			txn.Discard()
			return "err:" + err.Error()
		}
		if err := txn.Commit(); err != nil {
			return "err:" + err.Error()
		}
		return "ok"
	case "pset":
		if err := s.db.Set(hlib.UnHex(toks[1]), hlib.UnHex(toks[2])); err != nil {
			return "err:" + err.Error()
		}
		return "ok"
	case "pdel":
		if err := s.db.Del(hlib.UnHex(toks[1])); err != nil {
			return "err:" + err.Error()
		}
		return "ok"
	case "rotate":
		s.db.VerifIterRotate()
		return "ok"
	case "flush":
		// reply = entry count of every block of the new table (the model computes the same cut)
		imm0, l00, _ := s.db.VerifIterShape()
		did, err := s.db.VerifIterFlushOldest()
		if err != nil {
			return "err:" + err.Error()
		}
		if !did {
			return "noop"
		}
		imm1, l01, _ := s.db.VerifIterShape()
		if imm1 != imm0-1 {
			return fmt.Sprintf("shape:%d,%d", imm1, l01)
		}
		if l01 == l00 {
			return "ok:-" // empty memtable: no table written
		}
		var got []string
		for _, n := range s.db.VerifIterNewestL0Blocks() {
			got = append(got, strconv.Itoa(n))
		}
		return "ok:" + strings.Join(got, ",")
	case "sink":
		// move the single level-0 table into the main tables of the base level:
		// L0 -> ingest buffer (l0move), ingest buffer -> main tables (drain)
		l := s.db.VerifLSM()
		base := l.VerifBaseLevel()
		l0, ing, _, others := l.VerifCounts(base)
		if l0 != 1 || ing != 0 || len(others) != 0 {
			return "skip"
		}
		for _, kind := range []string{"l0move", "drain"} {
			res, err := l.VerifCompact(kind)
			if err != nil {
				return "err:" + kind + ":" + err.Error()
			}
			if res != "ok" {
				return kind + ":" + res
			}
		}
		l0, ing, _, others = l.VerifCounts(base)
		if l0 != 0 || ing != 0 || len(others) != 0 {
			return fmt.Sprintf("shape:l0=%d,ing=%d,others=%v", l0, ing, others)
		}
		return "ok:" + mainTables(l.VerifShape(), base)
	case "txn.begin":
		s.endTxn()
		s.txn = s.db.NewTransaction(kvArg(toks, "upd") == "1")
		s.keepTxn = true
		return "ok"
	case "txn.set":
		if s.txn == nil || !s.keepTxn {
			return "no-txn"
		}
		s.checkGet = false
		if err := applyWrites(s.txn, parseWrites(toks[1])); err != nil {
			return "err:" + err.Error()
		}
		return "ok"
	case "txn.it":
		if s.txn == nil || !s.keepTxn {
			return "no-txn"
		}
		s.closeIter()
		since, _ := strconv.ParseUint(kvArg(toks, "since"), 10, 64)
		o := NoKV.IteratorOptions{
			Reverse:     kvArg(toks, "rev") == "1",
			AllVersions: kvArg(toks, "all") == "1",
			KeyOnly:     kvArg(toks, "ko") == "1",
			SinceTs:     since,
			LowerBound:  hlib.UnHex(kvArg(toks, "lo")),
			UpperBound:  hlib.UnHex(kvArg(toks, "hi")),
		}
		if kvArg(toks, "pik") == "1" {
			s.tit = s.txn.NewKeyIterator(hlib.UnHex(kvArg(toks, "pfx")), o)
		} else {
			o.Prefix = hlib.UnHex(kvArg(toks, "pfx"))
			s.tit = s.txn.NewIterator(o)
		}
		s.checkGet = !o.Reverse && !o.AllVersions && kvArg(toks, "pik") != "1"
		return "ok"
	case "txn.end":
		s.endTxn()
		return "ok"
	case "txn.iter":
		s.endTxn()
		s.checkGet = false
		upd := kvArg(toks, "upd") == "1"
		s.txn = s.db.NewTransaction(upd)
		if upd {
			if err := applyWrites(s.txn, parseWrites(kvArg(toks, "pend"))); err != nil {
				return "err:" + err.Error()
			}
		}
		since, _ := strconv.ParseUint(kvArg(toks, "since"), 10, 64)
		o := NoKV.IteratorOptions{
			Reverse:     kvArg(toks, "rev") == "1",
			AllVersions: kvArg(toks, "all") == "1",
			KeyOnly:     kvArg(toks, "ko") == "1",
			SinceTs:     since,
			LowerBound:  hlib.UnHex(kvArg(toks, "lo")),
			UpperBound:  hlib.UnHex(kvArg(toks, "hi")),
		}
		if kvArg(toks, "pik") == "1" {
			s.tit = s.txn.NewKeyIterator(hlib.UnHex(kvArg(toks, "pfx")), o)
		} else {
			o.Prefix = hlib.UnHex(kvArg(toks, "pfx"))
			s.tit = s.txn.NewIterator(o)
		}
		return "ok"
	case "db.iter":
		s.endTxn()
		s.dit = s.db.NewIterator(&utils.Options{
			IsAsc:      kvArg(toks, "rev") != "1",
			OnlyUseKey: kvArg(toks, "ko") == "1",
			LowerBound: hlib.UnHex(kvArg(toks, "lo")),
			UpperBound: hlib.UnHex(kvArg(toks, "hi")),
		})
		return "ok"
	case "rewind":
		if s.tit != nil {
			s.tit.Rewind()
		} else if s.dit != nil {
			s.dit.Rewind()
		}
		return s.item()
	case "seek":
		k := hlib.UnHex(toks[1])
		if s.tit != nil {
			s.tit.Seek(k)
		} else if s.dit != nil {
			s.dit.Seek(k)
		}
		return s.item()
	case "next":
		if s.tit != nil {
			s.tit.Next()
		} else if s.dit != nil {
			s.dit.Next()
		}
		return s.item()
	case "get":
		if s.txn == nil {
			return "no-iter"
		}
		it, err := s.txn.Get(hlib.UnHex(toks[1]))
		if err != nil {
			if err == utils.ErrKeyNotFound {
				return "notfound"
			}
			return "err:" + err.Error()
		}
		v, err := it.ValueCopy(nil)
		if err != nil {
			return "value-error"
		}
		return hlib.Hex(v)
	case "close":
		s.closeIter()
		return "ok"
	}
	return "bad-op"
}

func (e *iterEngine) Exec(ops []string) (outs []string) {
	s := &session{}
	defer s.shutdown()
	outs = make([]string, len(ops))
	for i, op := range ops {
		func() {
			defer func() {
				if r := recover(); r != nil {
					outs[i] = "panic"
					if os.Getenv("ITER_TRACE") != "" {
						fmt.Fprintf(os.Stderr, "PANIC %v\n%s\n", r, debug.Stack())
					}
				}
			}()
			t0 := time.Now()
			outs[i] = s.exec(op)
			if d := time.Since(t0); d > 200*time.Millisecond && os.Getenv("ITER_DEBUG") != "" {
				fmt.Printf("SLOWOP %v %s -> %s\n", d, op, outs[i])
			}
		}()
	}
	return outs
}

func isCursor(op string) bool {
	return op == "rewind" || op == "next" || strings.HasPrefix(op, "seek ")
}

func (e *iterEngine) Nontrivial(ops, impl, model, spec []string) bool {
	e.cases++
	tomb, multi := false, false
	for _, op := range ops {
		if strings.HasPrefix(op, "commit ") || strings.HasPrefix(op, "txn.iter ") || strings.HasPrefix(op, "txn.set ") {
			if strings.Contains(op, "del:") || strings.Contains(op, "exp:") {
				tomb = true
			}
		}
		if op == "rotate" || op == "flush" || strings.HasPrefix(op, "pdel ") {
			multi = multi || op != "pdel"
			if strings.HasPrefix(op, "pdel ") {
				tomb = true
			}
		}
	}
	if multi {
		e.multiSrc++
	}
	// per iterator: distinct keys returned
	best, prefixPair := 0, false
	var keys [][]byte
	flushKeys := func() {
		if len(keys) > best {
			best = len(keys)
		}
		if len(keys) >= 2 {
			for i := range keys {
				for j := range keys {
					if i != j && len(keys[i]) < len(keys[j]) && bytes.HasPrefix(keys[j], keys[i]) {
						prefixPair = true
					}
				}
			}
		}
		keys = nil
	}
	for i, op := range ops {
		if f0 := strings.Fields(op)[0]; strings.HasSuffix(f0, ".iter") || f0 == "txn.it" {
			flushKeys()
		}
		if isCursor(op) && impl[i] != "-" && strings.Count(impl[i], ":") >= 2 {
			k := hlib.UnHex(strings.SplitN(impl[i], ":", 2)[0])
			dup := false
			for _, x := range keys {
				if bytes.Equal(x, k) {
					dup = true
				}
			}
			if !dup {
				keys = append(keys, k)
			}
		}
	}
	flushKeys()
	nt := best >= 2 && (tomb || prefixPair)
	if nt && tomb {
		e.withTomb++
	}
	if nt && prefixPair {
		e.withPrefix++
	}
	return nt
}

func main() {
	log.SetOutput(io.Discard)
	if n, _ := strconv.Atoi(os.Getenv("ITER_DEBUG")); n > 0 {
		e := &iterEngine{}
		rng := hlib.NewRand(7)
		for i := 0; i < n; i++ {
			ops := e.Gen(rng.Fork(), "quick")
			t0 := time.Now()
			a := e.Exec(ops)
			d := time.Since(t0)
			b := e.Exec(ops)
			for j := range a {
				if a[j] != b[j] {
					fmt.Printf("NONDET case %d op %d %q: %s vs %s\n%s\n", i, j, ops[j], a[j], b[j], strings.Join(ops[:j+1], "\n"))
					break
				}
			}
			fmt.Printf("case %d ops=%d %v\n", i, len(ops), d)
		}
		return
	}
	// The unchanged tree violates the specification on most generated cases (open findings), and
	// hlib delta-debugs every collected mismatch by re-running the case (a fresh DB each time):
	// keep the number of collected mismatches small; the corpus (finding witnesses) runs first.
	for i, a := range os.Args {
		if a == "-max-mismatches" && i+1 < len(os.Args) {
			if n, err := strconv.Atoi(os.Args[i+1]); err == nil && n > 8 {
				os.Args[i+1] = "8"
			}
		}
	}
	hlib.Main("iter/C06", &iterEngine{})
}

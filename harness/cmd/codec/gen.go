package main

// Case generator: structured round-trip ops biased to boundaries + malformed decoder inputs
// derived from valid encodings (hand encoders mirror the real layouts; `h_codec selfcheck`
// compares them with the real encoders).

import (
	"encoding/binary"
	"flag"
	"fmt"
	"hash/crc32"
	"math"
	"os"
	"strconv"
	"strings"

	"github.com/feichai0017/NoKV/kv"
	"github.com/feichai0017/NoKV/manifest"
	"github.com/feichai0017/NoKV/pb"
	myraft "github.com/feichai0017/NoKV/raft"
	"github.com/feichai0017/NoKV/raftstore/command"
	"google.golang.org/protobuf/proto"

	"verif/harness/hlib"
)

// ---------------------------------------------------------------- primitive value pools

var b64 = []uint64{0, 1, 127, 128, 255, 256, 16383, 16384, 1<<32 - 1, 1 << 32, 1<<63 - 1, 1 << 63, math.MaxUint64}
var b32 = []uint32{0, 1, 127, 128, 255, 256, 16383, 16384, 65535, 65536, 1<<31 - 1, 1 << 31, math.MaxUint32}

// gVarBound draws a value at a uvarint width boundary: 2^(7k)-1, 2^(7k), 2^(7k)+1 for k = 1..9
// (bit lengths 7k and 7k+1: where a varint grows by one byte), or inside such a band.
func gVarBound(r *hlib.Rand) uint64 {
	k := uint(1 + r.Intn(9))
	base := uint64(1) << (7 * k)
	switch r.Intn(5) {
	case 0:
		return base - 1
	case 1:
		return base
	case 2:
		return base + 1
	case 3: // bit length exactly 7k: [2^(7k-1), 2^(7k))
		return base/2 + r.U64()%(base/2)
	default:
		return base/2 - 1
	}
}

func g64(r *hlib.Rand) uint64 {
	switch x := r.Intn(100); {
	case x < 20:
		return gVarBound(r)
	case x < 62:
		return hlib.Pick(r, b64)
	case x < 85:
		return uint64(r.Intn(1000))
	default:
		return r.U64()
	}
}

func g32(r *hlib.Rand) uint32 {
	switch x := r.Intn(100); {
	case x < 62:
		return hlib.Pick(r, b32)
	case x < 85:
		return uint32(r.Intn(1000))
	default:
		return uint32(r.U64())
	}
}

func g8(r *hlib.Rand) uint8 {
	switch x := r.Intn(100); {
	case x < 50:
		return hlib.Pick(r, []uint8{0, 1, 2, 3, 4, 127, 128, 254, 255})
	default:
		return uint8(r.Intn(256))
	}
}

// mutation kind: 0..3 are the defined ones
func gKind(r *hlib.Rand) uint8 {
	if r.Chance(70) {
		return uint8(r.Intn(4))
	}
	return g8(r)
}

var alpha = []byte{0x00, 0x01, 0x61, 0x62, 0x7f, 0x80, 0xff}

func rndAlpha(r *hlib.Rand, n int) []byte {
	b := make([]byte, n)
	for i := range b {
		b[i] = hlib.Pick(r, alpha)
	}
	return b
}

func rndBytes(r *hlib.Rand, n int) []byte {
	b := make([]byte, n)
	for i := range b {
		b[i] = byte(r.U64())
	}
	return b
}

// gShort: byte strings of at most 9 bytes
func gShort(r *hlib.Rand) []byte {
	switch x := r.Intn(100); {
	case x < 16:
		return nil
	case x < 24:
		return []byte{0x00}
	case x < 32:
		return []byte{0xff}
	case x < 40:
		return []byte("a")
	case x < 70:
		return rndAlpha(r, 1+r.Intn(6))
	case x < 82:
		return []byte{0xff, 0x43, 0x46, hlib.Pick(r, []byte{0, 1, 2, 3, 0xff, byte(r.U64())})}
	case x < 91:
		return rndAlpha(r, 8)
	default:
		return rndAlpha(r, 9)
	}
}

// gBytes: gShort plus, occasionally, 200..300 random bytes
func gBytes(r *hlib.Rand) []byte {
	if r.Chance(5) {
		return rndBytes(r, 200+r.Intn(101))
	}
	return gShort(r)
}

func u(v uint64) string { return strconv.FormatUint(v, 10) }

// ---------------------------------------------------------------- segment encodings

// A hand encoding is a list of segments: uvarint fields and raw bytes.
type seg struct {
	isUv bool
	v    uint64
	raw  []byte
}

func sU(v uint64) seg    { return seg{isUv: true, v: v} }
func sR(b ...byte) seg   { return seg{raw: b} }
func sLV(b []byte) []seg { return []seg{sU(uint64(len(b))), sR(b...)} }

func ser(segs []seg) []byte {
	var out []byte
	for _, s := range segs {
		if s.isUv {
			out = binary.AppendUvarint(out, s.v)
		} else {
			out = append(out, s.raw...)
		}
	}
	return out
}

func uv(v uint64) []byte { return binary.AppendUvarint(nil, v) }

// hostile replacements for one varint field
var evil = [][]byte{
	{0xff, 0xff, 0xff, 0xff, 0xff, 0xff, 0xff, 0xff, 0xff, 0xff, 0x01}, // 11 bytes, overlong
	{0xff, 0xff, 0xff, 0xff, 0xff, 0xff, 0xff, 0xff, 0xff, 0x02},       // 10 bytes, overflows 64 bits
	uv(1 << 63), uv(1<<63 - 1), uv(math.MaxUint64), uv(1 << 40), uv(1<<32 + 3),
}

// corruptField replaces one uvarint segment by a hostile varint (no-op when there is none).
func corruptField(r *hlib.Rand, segs []seg) []seg {
	var idx []int
	for i, s := range segs {
		if s.isUv {
			idx = append(idx, i)
		}
	}
	if len(idx) == 0 {
		return segs
	}
	out := append([]seg(nil), segs...)
	out[hlib.Pick(r, idx)] = seg{raw: hlib.Pick(r, evil)}
	return out
}

func crcFin(b []byte) []byte {
	var c [4]byte
	binary.BigEndian.PutUint32(c[:], crc32.Checksum(b, kv.CastagnoliCrcTable))
	return append(append([]byte(nil), b...), c[:]...)
}

func idFin(b []byte) []byte { return b }

// mutate derives one decoder input from the valid encoding described by segs.
// fin post-processes a serialised body (identity, or append crc32c).
func mutate(r *hlib.Rand, segs []seg, fin func([]byte) []byte, refix bool) []byte {
	E := fin(ser(segs))
	switch x := r.Intn(100); {
	case x < 10:
		return E
	case x < 30: // truncation
		if len(E) == 0 {
			return E
		}
		switch r.Intn(4) {
		case 0:
			return E[:len(E)-1]
		case 1:
			if r.Chance(30) {
				return nil
			}
		}
		return E[:r.Intn(len(E)+1)]
	case x < 40: // trailing bytes
		return append(append([]byte(nil), E...), rndBytes(r, 1+r.Intn(3))...)
	case x < 52: // bit flip
		if len(E) == 0 {
			return E
		}
		m := append([]byte(nil), E...)
		m[r.Intn(len(m))] ^= 1 << uint(r.Intn(8))
		if refix && len(m) >= 4 && r.Chance(40) {
			m = fin(m[:len(m)-4])
		}
		return m
	case x < 64: // one byte replaced
		if len(E) == 0 {
			return E
		}
		m := append([]byte(nil), E...)
		m[r.Intn(len(m))] = byte(r.U64())
		if refix && len(m) >= 4 && r.Chance(40) {
			m = fin(m[:len(m)-4])
		}
		return m
	case x < 90: // one varint field replaced by a hostile varint
		return fin(ser(corruptField(r, segs)))
	default:
		return rndBytes(r, r.Intn(41))
	}
}

// mutateFraming is mutate restricted to inputs on which decodeRaftEntries reaches its verdict
// without depending on whether a *misaligned* body slice happens to be valid protobuf (the
// model treats bodies as opaque): the valid encoding, truncations, trailing bytes, and one
// varint replaced by a hostile one (every hostile value is rejected, or panics, at that very
// field, while all bodies in front of it are intact marshalled entries).  Bit flips and random
// bytes are left to the single-body decoders (hard state, snapshot), which slice before they
// unmarshal.
func mutateFraming(r *hlib.Rand, segs []seg) []byte {
	E := ser(segs)
	switch x := r.Intn(100); {
	case x < 15:
		return E
	case x < 45:
		if len(E) == 0 {
			return E
		}
		if r.Chance(25) {
			return E[:len(E)-1]
		}
		return E[:r.Intn(len(E)+1)]
	case x < 55:
		return append(append([]byte(nil), E...), rndBytes(r, 1+r.Intn(3))...)
	default:
		return ser(corruptField(r, segs))
	}
}

// ---------------------------------------------------------------- per-codec values

type lockVal struct {
	primary            []byte
	ts, ttl, minCommit uint64
	kind               uint8
}

func genLock(r *hlib.Rand) lockVal {
	return lockVal{primary: gBytes(r), ts: g64(r), ttl: g64(r), kind: gKind(r), minCommit: g64(r)}
}

func lockSegs(l lockVal) []seg {
	s := []seg{sR(1)}
	s = append(s, sLV(l.primary)...)
	return append(s, sU(l.ts), sU(l.ttl), sR(l.kind), sU(l.minCommit))
}

type writeVal struct {
	kind  uint8
	start uint64
	short []byte
}

func genWrite(r *hlib.Rand) writeVal {
	return writeVal{kind: gKind(r), start: g64(r), short: gBytes(r)}
}

func writeSegs(w writeVal) []seg {
	s := []seg{sR(1), sR(w.kind), sU(w.start)}
	if len(w.short) > 0 {
		s = append(s, sR(1))
		s = append(s, sLV(w.short)...)
	} else {
		s = append(s, sR(0))
	}
	return s
}

func genEdit(r *hlib.Rand) manifest.Edit {
	var t uint8
	switch x := r.Intn(100); {
	case x < 15:
		t = 0
	case x < 25:
		t = 1
	case x < 35:
		t = 2
	case x < 43:
		t = 3
	case x < 51:
		t = 4
	case x < 59:
		t = 5
	case x < 71:
		t = 6
	case x < 95:
		t = 7
	default:
		t = uint8(8 + r.Intn(248))
	}
	e := manifest.Edit{Type: manifest.EditType(t)}
	switch t {
	case 0, 1:
		e.File = &manifest.FileMeta{Level: int(g64(r)), FileID: g64(r), Size: g64(r), Smallest: gBytes(r), Largest: gBytes(r),
			CreatedAt: g64(r), ValueSize: g64(r), Ingest: r.Bool()}
		if r.Chance(50) {
			e.File.Level = r.Intn(8)
		}
	case 2:
		e.LogSeg, e.LogOffset = g32(r), g64(r)
	case 3:
		if !r.Chance(12) {
			e.ValueLog = &manifest.ValueLogMeta{Bucket: g32(r), FileID: g32(r), Offset: g64(r), Valid: true}
		}
	case 4:
		if !r.Chance(12) {
			e.ValueLog = &manifest.ValueLogMeta{Bucket: g32(r), FileID: g32(r)}
		}
	case 5:
		if !r.Chance(12) {
			e.ValueLog = &manifest.ValueLogMeta{Bucket: g32(r), FileID: g32(r), Offset: g64(r), Valid: r.Bool()}
		}
	case 6:
		if r.Chance(8) { // payload-less edit: must read back with a nil pointer
			break
		}
		e.Raft = &manifest.RaftLogPointer{GroupID: g64(r), Segment: g32(r), Offset: g64(r), AppliedIndex: g64(r), AppliedTerm: g64(r),
			Committed: g64(r), SnapshotIndex: g64(r), SnapshotTerm: g64(r), TruncatedIndex: g64(r), TruncatedTerm: g64(r),
			SegmentIndex: g64(r), TruncatedOffset: g64(r)}
	case 7:
		if r.Chance(6) {
			break
		}
		re := &manifest.RegionEdit{}
		re.Meta.ID = g64(r)
		if r.Chance(20) {
			re.Delete = true
		} else {
			re.Meta.StartKey, re.Meta.EndKey = gBytes(r), gBytes(r)
			re.Meta.Epoch = manifest.RegionEpoch{Version: g64(r), ConfVersion: g64(r)}
			re.Meta.State = manifest.RegionState(g8(r))
			if r.Chance(60) {
				re.Meta.State = manifest.RegionState(r.Intn(4))
			}
			for n := r.Intn(6); n > 0; n-- {
				re.Meta.Peers = append(re.Meta.Peers, manifest.PeerMeta{StoreID: g64(r), PeerID: g64(r)})
			}
		}
		e.Region = re
	}
	return e
}

// editSegs mirrors manifest.writeEdit (payload only, without the length prefix).
// countAt is the index of the peers-count segment (or -1).
func editSegs(e manifest.Edit) (segs []seg, countAt int) {
	countAt = -1
	segs = []seg{sR('N', 'o', 'K', 'V'), sR(byte(e.Type))}
	bb := func(b bool) seg {
		if b {
			return sR(1)
		}
		return sR(0)
	}
	switch e.Type {
	case 0, 1:
		m := e.File
		segs = append(segs, sU(uint64(m.Level)), sU(m.FileID), sU(m.Size))
		segs = append(segs, sLV(m.Smallest)...)
		segs = append(segs, sLV(m.Largest)...)
		segs = append(segs, sU(m.CreatedAt), sU(m.ValueSize), bb(m.Ingest))
	case 2:
		segs = append(segs, sU(uint64(e.LogSeg)), sU(e.LogOffset))
	case 3:
		if v := e.ValueLog; v != nil {
			segs = append(segs, sU(uint64(v.Bucket)), sU(uint64(v.FileID)), sU(v.Offset))
		}
	case 4:
		if v := e.ValueLog; v != nil {
			segs = append(segs, sU(uint64(v.Bucket)), sU(uint64(v.FileID)))
		}
	case 5:
		if v := e.ValueLog; v != nil {
			segs = append(segs, sU(uint64(v.Bucket)), sU(uint64(v.FileID)), sU(v.Offset), bb(v.Valid))
		}
	case 6:
		if p := e.Raft; p != nil {
			segs = append(segs, sU(p.GroupID), sU(uint64(p.Segment)), sU(p.Offset), sU(p.AppliedIndex), sU(p.AppliedTerm),
				sU(p.Committed), sU(p.SnapshotIndex), sU(p.SnapshotTerm), sU(p.TruncatedIndex), sU(p.TruncatedTerm),
				sU(p.SegmentIndex), sU(p.TruncatedOffset))
		}
	case 7:
		if re := e.Region; re != nil {
			segs = append(segs, sU(re.Meta.ID))
			if re.Delete {
				segs = append(segs, sR(1))
				break
			}
			segs = append(segs, sR(0))
			segs = append(segs, sLV(re.Meta.StartKey)...)
			segs = append(segs, sLV(re.Meta.EndKey)...)
			segs = append(segs, sU(re.Meta.Epoch.Version), sU(re.Meta.Epoch.ConfVersion), sR(byte(re.Meta.State)))
			countAt = len(segs)
			segs = append(segs, sU(uint64(len(re.Meta.Peers))))
			for _, p := range re.Meta.Peers {
				segs = append(segs, sU(p.StoreID), sU(p.PeerID))
			}
		}
	}
	return segs, countAt
}

// declared peer counts that lie: small ones, and ones whose allocation is far beyond 1 GiB
// (or overflows the slice size computation)
var lieCounts = []uint64{1 << 27, 1 << 40, 1 << 44, 1<<44 + 1, 1 << 60, 1 << 63, math.MaxUint64}

// simRegionCount replays the region branch of the as-is manifest.decodeEdit (raw uvarints,
// unchecked positions) far enough to learn which peers count reaches the make().
func simRegionCount(data []byte) (count uint64, reached bool) {
	defer func() {
		if recover() != nil {
			reached = false
		}
	}()
	readBytes := func(d []byte) int {
		length, n := binary.Uvarint(d)
		end := n + int(length)
		if n <= 0 || end > len(d) {
			return len(d)
		}
		_ = d[n:end]
		return n + int(length)
	}
	pos := 5
	_, n := binary.Uvarint(data[pos:])
	pos += n
	if pos > len(data) {
		return 0, false
	}
	if pos < len(data) {
		del := data[pos] == 1
		pos++
		if del {
			return 0, false
		}
	}
	pos += readBytes(data[pos:])
	pos += readBytes(data[pos:])
	_, n = binary.Uvarint(data[pos:])
	pos += n
	_, n = binary.Uvarint(data[pos:])
	pos += n
	if pos > len(data) {
		return 0, false
	}
	if pos < len(data) {
		pos++
	}
	if pos < len(data) {
		count, n = binary.Uvarint(data[pos:])
		pos += n
	}
	if pos > len(data) {
		return 0, false
	}
	return count, true
}

// manPayloadOK enforces the grey-zone rule for region edits: the peers slice the decoder
// allocates (16 bytes per peer) is either < 2^24 bytes or >= 2^31 bytes.
func manPayloadOK(p []byte) bool {
	if len(p) >= 5 && string(p[:4]) == "NoKV" && p[4] == 7 {
		if c, ok := simRegionCount(p); ok && c >= 1<<20 && c < 1<<27 {
			return false
		}
	}
	return true
}

func genManPayloadOnce(r *hlib.Rand) []byte {
	e := genEdit(r)
	segs, countAt := editSegs(e)
	if countAt >= 0 && r.Chance(22) { // lying peers count
		s2 := append([]seg(nil), segs...)
		actual := segs[countAt].v
		switch x := r.Intn(100); {
		case x < 25:
			s2[countAt] = sU(actual + 1)
		case x < 40:
			s2[countAt] = sU(uint64(r.Intn(301)))
		case x < 50:
			s2[countAt] = sU(hlib.Pick(r, []uint64{64, 65, 66, 300}))
		default:
			s2[countAt] = sU(hlib.Pick(r, lieCounts))
		}
		if r.Chance(30) && countAt+1 < len(s2) {
			s2 = s2[:countAt+1+r.Intn(len(s2)-countAt)]
		}
		return ser(s2)
	}
	if len(segs) > 2 && r.Chance(12) { // legacy / short records: drop trailing fields
		return ser(segs[:2+r.Intn(len(segs)-2)])
	}
	p := mutate(r, segs, idFin, false)
	if len(p) <= 40 && r.Chance(50) && (len(p) < 4 || string(p[:4]) != "NoKV") {
		// random bytes: give half of them a valid magic and a type byte
		p = append([]byte{'N', 'o', 'K', 'V', byte(r.Intn(9))}, p...)
	}
	return p
}

func genManPayload(r *hlib.Rand) []byte {
	for i := 0; i < 64; i++ {
		if p := genManPayloadOnce(r); manPayloadOK(p) {
			return p
		}
	}
	return []byte{'N', 'o', 'K', 'V', 2, 1, 2}
}

func frame(length uint32, payload []byte) []byte {
	out := make([]byte, 4, 4+len(payload))
	binary.LittleEndian.PutUint32(out, length)
	return append(out, payload...)
}

// framedOK: grey-zone rule for a man.read input (length prefix <= 4096 or >= 2^31; the
// payload the decoder will actually see obeys manPayloadOK).
func framedOK(b []byte) bool {
	if len(b) < 4 {
		return true
	}
	n := binary.LittleEndian.Uint32(b)
	if n > 4096 && n < 1<<31 {
		return false
	}
	rest := b[4:]
	if uint64(n) <= uint64(len(rest)) {
		return manPayloadOK(rest[:n])
	}
	return true
}

func genManFramed(r *hlib.Rand) []byte {
	for i := 0; i < 64; i++ {
		if f := genManFramedOnce(r); framedOK(f) {
			return f
		}
	}
	return frame(3, []byte{'N', 'o', 'K'})
}

// genManFramedOnce: the length prefix is always chosen deliberately (<= 4096 or >= 2^31).
func genManFramedOnce(r *hlib.Rand) []byte {
	p := genManPayload(r)
	n := uint32(len(p)) // < 1000
	switch x := r.Intn(100); {
	case x < 55:
		if r.Chance(25) {
			return append(frame(n, p), rndBytes(r, 1+r.Intn(3))...)
		}
		return frame(n, p)
	case x < 62:
		if n > 0 {
			return frame(n-1, p)
		}
		return frame(0, p)
	case x < 69:
		return frame(n+1, p)
	case x < 74:
		return frame(0, p)
	case x < 80:
		return frame(n+uint32(1+r.Intn(3000)), p)
	case x < 84:
		return frame(hlib.Pick(r, []uint32{0x80000000, 0xffffffff, 0xfffffff0}), p)
	case x < 88:
		return frame(uint32(r.Intn(int(n)+1)), p)
	default: // truncated stream, possibly inside the length prefix
		f := frame(n, p)
		switch r.Intn(3) {
		case 0:
			return f[:r.Intn(5)]
		case 1:
			return f[:len(f)-1]
		}
		return f[:r.Intn(len(f)+1)]
	}
}

type entVal struct {
	key, val []byte
	meta     uint8
	exp      uint64
}

func genEnt(r *hlib.Rand) entVal {
	return entVal{key: gBytes(r), val: gBytes(r), meta: g8(r), exp: g64(r)}
}

func entSegs(e entVal) []seg {
	return []seg{sU(uint64(len(e.key))), sU(uint64(len(e.val))), sU(uint64(e.meta)), sU(e.exp), sR(e.key...), sR(e.val...)}
}

// entInputOK: grey-zone rule for kv.DecodeEntry (key/value buffers are allocated from the
// declared uint32 lengths before anything is read).
func entInputOK(b []byte) bool {
	pos := 0
	for i := 0; i < 2; i++ {
		if pos >= len(b) {
			return true
		}
		v, n := binary.Uvarint(b[pos:])
		if n <= 0 {
			return true
		}
		if x := uint32(v); x >= 1<<24 && x < 1<<31 {
			return false
		}
		pos += n
	}
	return true
}

// ---- raft payloads

func genRaftEntry(r *hlib.Rand) myraft.Entry {
	e := myraft.Entry{Term: g64(r), Index: g64(r), Type: myraft.EntryType(r.Intn(3))}
	if r.Chance(70) {
		e.Data = gShort(r)
		if r.Chance(8) {
			e.Data = rndBytes(r, 100+r.Intn(100))
		}
	}
	return e
}

func genHardState(r *hlib.Rand) myraft.HardState {
	return myraft.HardState{Term: g64(r), Vote: g64(r), Commit: g64(r)}
}

func genSnapshot(r *hlib.Rand) myraft.Snapshot {
	s := myraft.Snapshot{}
	if r.Chance(70) {
		s.Data = gShort(r)
	}
	s.Metadata.Index, s.Metadata.Term = g64(r), g64(r)
	for n := r.Intn(4); n > 0; n-- {
		s.Metadata.ConfState.Voters = append(s.Metadata.ConfState.Voters, g64(r))
	}
	return s
}

func must(b []byte, err error) []byte {
	if err != nil {
		panic(err)
	}
	return b
}

func genEntryBodies(r *hlib.Rand) [][]byte {
	var bodies [][]byte
	for n := r.Intn(4); n > 0; n-- {
		e := genRaftEntry(r)
		bodies = append(bodies, must(e.Marshal()))
	}
	return bodies
}

func entsSegs(gid uint64, bodies [][]byte) []seg {
	s := []seg{sU(gid), sU(uint64(len(bodies)))}
	for _, b := range bodies {
		s = append(s, sLV(b)...)
	}
	return s
}

func sizedSegs(gid uint64, body []byte) []seg {
	return append([]seg{sU(gid)}, sLV(body)...)
}

// ---- raft command envelope

func genKeys(r *hlib.Rand) [][]byte {
	var ks [][]byte
	for n := r.Intn(3); n > 0; n-- {
		ks = append(ks, gShort(r))
	}
	return ks
}

func genRequest(r *hlib.Rand) *pb.Request {
	switch r.Intn(8) {
	case 0:
		return &pb.Request{CmdType: pb.CmdType_CMD_GET, Cmd: &pb.Request_Get{Get: &pb.GetRequest{Key: gShort(r), Version: g64(r)}}}
	case 1:
		return &pb.Request{CmdType: pb.CmdType_CMD_SCAN, Cmd: &pb.Request_Scan{Scan: &pb.ScanRequest{StartKey: gShort(r), Limit: g32(r),
			Version: g64(r), IncludeStart: r.Bool(), Reverse: r.Bool()}}}
	case 2:
		var muts []*pb.Mutation
		for n := r.Intn(3); n > 0; n-- {
			muts = append(muts, &pb.Mutation{Op: pb.Mutation_Op(r.Intn(4)), Key: gShort(r), Value: gShort(r), AssertionNotExist: r.Bool()})
		}
		return &pb.Request{CmdType: pb.CmdType_CMD_PREWRITE, Cmd: &pb.Request_Prewrite{Prewrite: &pb.PrewriteRequest{Mutations: muts,
			PrimaryLock: gShort(r), StartVersion: g64(r), LockTtl: g64(r), TxnSize: g64(r), MinCommitTs: g64(r)}}}
	case 3:
		return &pb.Request{CmdType: pb.CmdType_CMD_COMMIT, Cmd: &pb.Request_Commit{Commit: &pb.CommitRequest{Keys: genKeys(r),
			StartVersion: g64(r), CommitVersion: g64(r)}}}
	case 4:
		return &pb.Request{CmdType: pb.CmdType_CMD_BATCH_ROLLBACK, Cmd: &pb.Request_BatchRollback{BatchRollback: &pb.BatchRollbackRequest{
			Keys: genKeys(r), StartVersion: g64(r)}}}
	case 5:
		return &pb.Request{CmdType: pb.CmdType_CMD_RESOLVE_LOCK, Cmd: &pb.Request_ResolveLock{ResolveLock: &pb.ResolveLockRequest{
			StartVersion: g64(r), CommitVersion: g64(r), Keys: genKeys(r)}}}
	case 6:
		return &pb.Request{CmdType: pb.CmdType_CMD_CHECK_TXN_STATUS, Cmd: &pb.Request_CheckTxnStatus{CheckTxnStatus: &pb.CheckTxnStatusRequest{
			PrimaryKey: gShort(r), LockTs: g64(r), CurrentTs: g64(r), RollbackIfNotExist: r.Bool(), CallerStartTs: g64(r), CurrentTime: g64(r)}}}
	default:
		return &pb.Request{CmdType: pb.CmdType(r.Intn(12))}
	}
}

func genCmd(r *hlib.Rand) *pb.RaftCmdRequest {
	req := &pb.RaftCmdRequest{}
	if !r.Chance(10) {
		req.Header = &pb.CmdHeader{RegionId: g64(r), PeerId: g64(r), ReadQuorum: r.Bool(), RequestId: g64(r)}
		if !r.Chance(20) {
			req.Header.RegionEpoch = &pb.RegionEpoch{ConfVer: g64(r), Version: g64(r)}
		}
	}
	for n := r.Intn(3); n > 0; n-- {
		req.Requests = append(req.Requests, genRequest(r))
	}
	return req
}

func cmdBody(req *pb.RaftCmdRequest) []byte {
	return must(proto.MarshalOptions{Deterministic: true}.Marshal(req))
}

// generic mutation of an opaque valid encoding (no field structure)
func mutateOpaque(r *hlib.Rand, E []byte) []byte {
	return mutate(r, []seg{sR(E...)}, idFin, false)
}

// ---------------------------------------------------------------- keys

var tsPool = []uint64{0, 1, 2, 255, 256, 1 << 32, 1<<63 - 1, 1 << 63, math.MaxUint64 - 1, math.MaxUint64}

func gTs(r *hlib.Rand) uint64 {
	if r.Chance(75) {
		return hlib.Pick(r, tsPool)
	}
	return g64(r)
}

func gCF(r *hlib.Rand) uint8 {
	switch x := r.Intn(100); {
	case x < 75:
		return uint8(r.Intn(3))
	case x < 95:
		return uint8(r.Intn(5))
	default:
		return 255
	}
}

func genCmpPair(r *hlib.Rand) (a, b []byte) {
	if r.Chance(3) { // too short: CompareKeys panics
		a, b = rndAlpha(r, r.Intn(9)), rndAlpha(r, r.Intn(12))
		if r.Bool() {
			a, b = b, a
		}
		return
	}
	internal := r.Chance(65)
	mk := func(cf uint8, uk []byte, ts uint64) []byte {
		if internal {
			return kv.InternalKey(kv.ColumnFamily(cf), uk, ts)
		}
		return kv.KeyWithTs(uk, ts)
	}
	cf, uk, ts := uint8(r.Intn(3)), gShort(r), gTs(r)
	if !internal && len(uk) == 0 {
		uk = []byte{0x61} // KeyWithTs of an empty key is 8 bytes: the panic case, kept for the 3% branch
	}
	cf2, uk2, ts2 := cf, uk, ts
	switch r.Intn(8) {
	case 0: // only ts differs (or collides)
		ts2 = gTs(r)
	case 1: // only cf differs
		cf2 = uint8(r.Intn(3))
	case 2: // user key is a proper prefix of the other
		uk2 = append(append([]byte(nil), uk...), rndAlpha(r, 1+r.Intn(3))...)
	case 3: // prefix and different ts
		uk2 = append(append([]byte(nil), uk...), rndAlpha(r, 1+r.Intn(9))...)
		ts2 = gTs(r)
	case 4: // identical
	case 5: // one byte of the user key differs
		if len(uk) > 0 {
			uk2 = append([]byte(nil), uk...)
			uk2[r.Intn(len(uk2))] = hlib.Pick(r, alpha)
		} else {
			uk2 = []byte{0x00}
		}
	case 6: // the extension looks like a timestamp suffix
		uk2 = kv.KeyWithTs(uk, gTs(r))
	default:
		cf2, uk2, ts2 = uint8(r.Intn(3)), gShort(r), gTs(r)
		if !internal && len(uk2) == 0 {
			uk2 = []byte{0xff}
		}
	}
	a, b = mk(cf, uk, ts), mk(cf2, uk2, ts2)
	if r.Bool() {
		a, b = b, a
	}
	return
}

// ---------------------------------------------------------------- op families

func hexs(b []byte) string { return hlib.Hex(b) }

func genLockWrite(r *hlib.Rand) string {
	switch x := r.Intn(100); {
	case x < 22:
		l := genLock(r)
		return fmt.Sprintf("lock.rt %s %d %d %d %d", hexs(l.primary), l.ts, l.ttl, l.kind, l.minCommit)
	case x < 55:
		l := genLock(r)
		segs := lockSegs(l)
		if r.Chance(10) { // legacy record without min-commit
			segs = segs[:len(segs)-1]
		}
		return "lock.dec " + hexs(mutate(r, segs, idFin, false))
	case x < 72:
		w := genWrite(r)
		return fmt.Sprintf("write.rt %d %d %s", w.kind, w.start, hexs(w.short))
	default:
		w := genWrite(r)
		segs := writeSegs(w)
		if len(w.short) == 0 && r.Chance(30) { // flag 1 with an empty short value
			segs = append(segs[:len(segs)-1], sR(1), sU(0))
		}
		return "write.dec " + hexs(mutate(r, segs, idFin, false))
	}
}

func genMan(r *hlib.Rand) string {
	switch x := r.Intn(100); {
	case x < 33:
		return "man.rt " + fmtEdit(genEdit(r))
	case x < 75:
		return "man.dec " + hexs(genManPayload(r))
	default:
		return "man.read " + hexs(genManFramed(r))
	}
}

func genKeyOp(r *hlib.Rand) string {
	switch x := r.Intn(100); {
	case x < 20:
		return fmt.Sprintf("ikey.rt %d %s %d", gCF(r), hexs(gBytes(r)), gTs(r))
	case x < 35:
		k := kv.InternalKey(kv.ColumnFamily(r.Intn(3)), gShort(r), gTs(r))
		switch r.Intn(6) {
		case 0:
			k = k[:r.Intn(len(k)+1)]
		case 1:
			k[3] = byte(r.Intn(6)) // cf byte out of range
		case 2:
			k[r.Intn(3)] ^= byte(1 << uint(r.Intn(8))) // broken marker
		case 3:
			k = rndAlpha(r, r.Intn(14))
		}
		return "ikey.split " + hexs(k)
	case x < 50:
		return fmt.Sprintf("kts.rt %s %d", hexs(gBytes(r)), gTs(r))
	case x < 60:
		k := kv.KeyWithTs(gShort(r), gTs(r))
		if r.Chance(50) {
			k = rndAlpha(r, hlib.Pick(r, []int{0, 1, 7, 8, 9, 10, 16}))
		}
		return "kts.parse " + hexs(k)
	default:
		a, b := genCmpPair(r)
		return "key.cmp " + hexs(a) + " " + hexs(b)
	}
}

func genVsVp(r *hlib.Rand) string {
	switch x := r.Intn(100); {
	case x < 15:
		return fmt.Sprintf("vs.rt %d %d %s", g8(r), g64(r), hexs(gBytes(r)))
	case x < 32:
		e := g64(r)
		if r.Chance(60) {
			e = gVarBound(r)
		}
		return fmt.Sprintf("vs.size %d %d %s", g8(r), e, hexs(gBytes(r)))
	case x < 40:
		e := g64(r)
		if r.Chance(60) {
			e = gVarBound(r)
		}
		return fmt.Sprintf("ent.size %s %d %d", hexs(gBytes(r)), g8(r), e)
	case x < 62:
		segs := []seg{sR(g8(r)), sU(g64(r)), sR(gShort(r)...)}
		return "vs.dec " + hexs(mutate(r, segs, idFin, false))
	case x < 82:
		return fmt.Sprintf("vp.rt %d %d %d %d", g32(r), g32(r), g32(r), g32(r))
	default:
		p := kv.ValuePtr{Len: g32(r), Offset: g32(r), Fid: g32(r), Bucket: g32(r)}
		return "vp.dec " + hexs(mutateOpaque(r, p.Encode()))
	}
}

func genHdrEnt(r *hlib.Rand) string {
	switch x := r.Intn(100); {
	case x < 15:
		return fmt.Sprintf("hdr.rt %d %d %d %d", g32(r), g32(r), g8(r), g64(r))
	case x < 33:
		segs := []seg{sU(uint64(g32(r))), sU(uint64(g32(r))), sU(uint64(g8(r))), sU(g64(r))}
		if r.Chance(10) {
			segs[2] = sU(hlib.Pick(r, []uint64{256, 257, 1 << 32}))
		}
		return "hdr.dec " + hexs(mutate(r, segs, idFin, false))
	case x < 53:
		e := genEnt(r)
		return fmt.Sprintf("ent.rt %s %s %d %d", hexs(e.key), hexs(e.val), e.meta, e.exp)
	case x < 85:
		for i := 0; i < 64; i++ {
			in := mutate(r, entSegs(genEnt(r)), crcFin, true)
			if entInputOK(in) {
				return "ent.dec " + hexs(in)
			}
		}
		return "ent.dec -"
	default:
		return "vsl.dec " + hexs(mutate(r, entSegs(genEnt(r)), crcFin, true))
	}
}

func genUv(r *hlib.Rand) string {
	gen := func() []byte {
		switch x := r.Intn(100); {
		case x < 35:
			return uv(g64(r))
		case x < 55:
			return hlib.Pick(r, evil)
		case x < 70:
			b := uv(g64(r))
			return b[:r.Intn(len(b)+1)]
		case x < 80:
			return append(uv(g64(r)), rndBytes(r, 1+r.Intn(3))...)
		case x < 90: // a run of continuation bytes with some terminator
			n := hlib.Pick(r, []int{1, 8, 9, 10, 11, 12})
			b := make([]byte, n)
			for i := range b {
				b[i] = hlib.Pick(r, []byte{0x80, 0xff, 0x81})
			}
			return append(b, hlib.Pick(r, []byte{0x00, 0x01, 0x02, 0x7f}))
		default:
			return rndBytes(r, r.Intn(13))
		}
	}
	switch x := r.Intn(100); {
	case x < 30:
		return "uv.put " + u(g64(r))
	case x < 65:
		return "uv.get " + hexs(gen())
	default:
		return "uv.read " + hexs(gen())
	}
}

func fmtBodies(bodies [][]byte) string {
	if len(bodies) == 0 {
		return "-"
	}
	parts := make([]string, len(bodies))
	for i, b := range bodies {
		parts[i] = fmtBody(b)
	}
	return strings.Join(parts, ",")
}

func genRaftCmd(r *hlib.Rand) string {
	switch x := r.Intn(100); {
	case x < 15:
		return "cmd.rt " + hexs(cmdBody(genCmd(r)))
	case x < 30:
		E, err := command.Encode(genCmd(r))
		if err != nil {
			panic(err)
		}
		in := mutateOpaque(r, E)
		if len(in) <= 40 && len(in) > 0 && in[0] != command.PayloadPrefix && r.Bool() {
			in[0] = command.PayloadPrefix
		}
		return "cmd.dec " + hexs(in)
	case x < 45:
		return fmt.Sprintf("raft.ents.rt %d %s", g64(r), fmtBodies(genEntryBodies(r)))
	case x < 65:
		segs := entsSegs(g64(r), genEntryBodies(r))
		if r.Chance(10) { // declared count off by one
			segs[1] = sU(segs[1].v + 1)
		}
		return "raft.ents.dec " + hexs(mutateFraming(r, segs))
	case x < 73:
		hs := genHardState(r)
		return fmt.Sprintf("raft.hs.rt %d %s", g64(r), hexs(must(hs.Marshal())))
	case x < 83:
		hs := genHardState(r)
		return "raft.hs.dec " + hexs(mutate(r, sizedSegs(g64(r), must(hs.Marshal())), idFin, false))
	case x < 91:
		sn := genSnapshot(r)
		return fmt.Sprintf("raft.snap.rt %d %s", g64(r), hexs(must(sn.Marshal())))
	default:
		sn := genSnapshot(r)
		return "raft.snap.dec " + hexs(mutate(r, sizedSegs(g64(r), must(sn.Marshal())), idFin, false))
	}
}

// predictedOOM: ops expected to kill the worker on the as-is code.  They are wanted, but each
// costs a worker restart (~0.2 s), so only a part of them is kept (see genOp).
func predictedOOM(op string) bool {
	f := strings.Split(op, " ")
	big := func(p []byte) bool {
		if len(p) >= 5 && string(p[:4]) == "NoKV" && p[4] == 7 {
			if c, ok := simRegionCount(p); ok && c >= 1<<27 && c <= 1<<44 {
				return true
			}
		}
		return false
	}
	switch f[0] {
	case "man.dec":
		return big(hlib.UnHex(f[1]))
	case "man.read":
		b := hlib.UnHex(f[1])
		if len(b) < 4 {
			return false
		}
		n := binary.LittleEndian.Uint32(b)
		if n >= 1<<31 {
			return true
		}
		return uint64(n) <= uint64(len(b)-4) && big(b[4:4+n])
	case "ent.dec":
		b := hlib.UnHex(f[1])
		pos := 0
		for i := 0; i < 2 && pos < len(b); i++ {
			v, n := binary.Uvarint(b[pos:])
			if n <= 0 {
				return false
			}
			if uint32(v) >= 1<<31 {
				return true
			}
			pos += n
		}
	}
	return false
}

const keepOOMPercent = 25

func genOp(r *hlib.Rand) string {
	for {
		op := genOp1(r)
		if predictedOOM(op) && !r.Chance(keepOOMPercent) {
			continue
		}
		return op
	}
}

func genOp1(r *hlib.Rand) string {
	switch x := r.Intn(100); {
	case x < 20:
		return genLockWrite(r)
	case x < 50:
		return genMan(r)
	case x < 65:
		return genKeyOp(r)
	case x < 73:
		return genVsVp(r)
	case x < 88:
		return genHdrEnt(r)
	case x < 93:
		return genUv(r)
	default:
		return genRaftCmd(r)
	}
}

// genRtOp draws one `X.rt` op (an encoder call on a valid value); want != "" fixes the codec.
func genRtOp(r *hlib.Rand, want string) string {
	for {
		var op string
		switch x := r.Intn(100); {
		case x < 40: // the encoders that build their result in a buffer
			op = genRaftCmd(r)
		case x < 60:
			op = genMan(r)
		case x < 72:
			op = genHdrEnt(r)
		default:
			op = genOp1(r)
		}
		name := op
		if i := strings.IndexByte(op, ' '); i >= 0 {
			name = op[:i]
		}
		if !strings.HasSuffix(name, ".rt") || (want != "" && name != want) {
			continue
		}
		return op
	}
}

// genHoldCase: the multi-payload case.  Encode x1..xk (k = 2..6; same codec or mixed; equal
// and different sizes), keeping every encoder result alive, THEN decode all of them in another
// order, comparing each with its input and its bytes with the bytes it had when it was
// produced (an encoder that hands out memory it reuses for a later call fails here).
// Garbage collections are interleaved in half of the cases: without one a sync.Pool hands
// the same buffer straight back, with two the pools are emptied - both paths are exercised.
func genHoldCase(r *hlib.Rand) []string {
	k := 2 + r.Intn(5)
	want := ""
	if r.Chance(60) {
		op := genRtOp(r, "")
		want = op[:strings.IndexByte(op, ' ')]
	}
	withGC := r.Bool()
	var ops []string
	var first string
	for i := 0; i < k; i++ {
		op := genRtOp(r, want)
		if i == 0 {
			first = op
		} else if r.Chance(15) {
			op = first // the very same value again
		}
		ops = append(ops, fmt.Sprintf("hold %d %s", i, op))
		if withGC && r.Chance(30) {
			ops = append(ops, "gc")
		}
		if i > 0 && r.Chance(25) { // early look at an older payload
			ops = append(ops, fmt.Sprintf("check %d", r.Intn(i)))
		}
	}
	order := make([]int, k)
	for i := range order {
		order[i] = i
	}
	for i := k - 1; i > 0; i-- {
		j := r.Intn(i + 1)
		order[i], order[j] = order[j], order[i]
	}
	for n, i := range order {
		ops = append(ops, fmt.Sprintf("check %d", i))
		if withGC && n == 0 && r.Chance(40) {
			ops = append(ops, "gc")
		}
	}
	if r.Chance(40) { // overwrite a slot, then every survivor must still be intact
		j := r.Intn(k)
		ops = append(ops, fmt.Sprintf("hold %d %s", j, genRtOp(r, want)))
		for i := 0; i < k; i++ {
			ops = append(ops, fmt.Sprintf("check %d", i))
		}
	}
	return ops
}

func (e *codecEngine) Gen(r *hlib.Rand, tier string) []string {
	// hlib derives case k of seed s+1 from the same splitmix state as case k+1 of seed s
	// (NewRand(seed) is linear in the seed), so consecutive seeds would replay almost the same
	// cases.  Mix the -seed flag into the per-case generator to decorrelate them.
	if f := flag.Lookup("seed"); f != nil {
		if sd, err := strconv.ParseUint(f.Value.String(), 10, 64); err == nil {
			r = hlib.NewRand(r.U64() ^ (sd+1)*0xD6E8FEB86659FD93)
		}
	}
	if r.Chance(15) {
		return genHoldCase(r)
	}
	n := 8 + r.Intn(17)
	if tier == "thorough" {
		n = 8 + r.Intn(33)
	}
	ops := make([]string, 0, n)
	for i := 0; i < n; i++ {
		ops = append(ops, genOp(r))
	}
	return ops
}

// ---------------------------------------------------------------- debugging aids

func genDump(args []string) int {
	seed, n, tier := uint64(1), 3, "quick"
	if len(args) > 0 {
		seed, _ = strconv.ParseUint(args[0], 10, 64)
	}
	if len(args) > 1 {
		n, _ = strconv.Atoi(args[1])
	}
	if len(args) > 2 {
		tier = args[2]
	}
	rng := hlib.NewRand(seed)
	e := newEngine()
	for i := 0; i < n; i++ {
		fmt.Printf("# case %d\n", i)
		for _, op := range e.Gen(rng.Fork(), tier) {
			fmt.Println(op)
		}
	}
	return 0
}

// selfCheck compares the hand encoders of the generator with the real encoders, and checks
// the generator's own invariants (line length, grey-zone rule).
func selfCheck() int {
	r := hlib.NewRand(12345)
	fails := 0
	fail := func(what string, a, b []byte) {
		fails++
		if fails < 20 {
			fmt.Fprintf(os.Stderr, "selfcheck %s: hand=%x real=%x\n", what, a, b)
		}
	}
	eq := func(a, b []byte) bool { return string(a) == string(b) }
	for i := 0; i < 20000; i++ {
		l := genLock(r)
		if a, b := ser(lockSegs(l)), realLock(l); !eq(a, b) {
			fail("lock", a, b)
		}
		w := genWrite(r)
		if a, b := ser(writeSegs(w)), realWrite(w); !eq(a, b) {
			fail("write", a, b)
		}
		ed := genEdit(r)
		segs, _ := editSegs(ed)
		framed, err := manifest.VerifWriteEdit(ed)
		if err != nil {
			panic(err)
		}
		if a := frame(uint32(len(ser(segs))), ser(segs)); !eq(a, framed) {
			fail("edit "+fmtEdit(ed), a, framed)
		}
		if s := fmtEdit(parseEdit(fmtEdit(ed))); s != fmtEdit(ed) {
			fail("edit-syntax "+fmtEdit(ed), []byte(s), nil)
		}
		en := genEnt(r)
		real, err := kv.EncodeEntry(nil, &kv.Entry{Key: en.key, Value: en.val, Meta: en.meta, ExpiresAt: en.exp})
		if err != nil {
			panic(err)
		}
		if a := crcFin(ser(entSegs(en))); !eq(a, real) {
			fail("entry", a, real)
		}
		gid := g64(r)
		bodies := genEntryBodies(r)
		if a, b := ser(entsSegs(gid, bodies)), realEnts(gid, bodies); !eq(a, b) {
			fail("raft.ents", a, b)
		}
		hs := genHardState(r)
		if a, b := ser(sizedSegs(gid, must(hs.Marshal()))), realHS(gid, hs); !eq(a, b) {
			fail("raft.hs", a, b)
		}
		sn := genSnapshot(r)
		if a, b := ser(sizedSegs(gid, must(sn.Marshal()))), realSnap(gid, sn); !eq(a, b) {
			fail("raft.snap", a, b)
		}
		// proto canonical form: Marshal(Unmarshal(body)) == body
		body := cmdBody(genCmd(r))
		var req pb.RaftCmdRequest
		if err := proto.Unmarshal(body, &req); err != nil {
			panic(err)
		}
		if b2 := must(proto.Marshal(&req)); !eq(body, b2) {
			fail("cmd body", body, b2)
		}
	}
	// generator invariants
	eng := newEngine()
	maxLen := 0
	for i := 0; i < 20000; i++ {
		for _, op := range eng.Gen(r.Fork(), "thorough") {
			if len(op) > maxLen {
				maxLen = len(op)
			}
			f := strings.Split(op, " ")
			switch f[0] {
			case "man.read":
				if !framedOK(hlib.UnHex(f[1])) {
					fail("man.read grey "+op, nil, nil)
				}
			case "man.dec":
				if !manPayloadOK(hlib.UnHex(f[1])) {
					fail("man.dec grey peers "+op, nil, nil)
				}
			case "ent.dec":
				if !entInputOK(hlib.UnHex(f[1])) {
					fail("ent.dec grey "+op, nil, nil)
				}
			}
		}
	}
	fmt.Printf("selfcheck: %d failures, longest op line %d bytes\n", fails, maxLen)
	if fails > 0 {
		return 1
	}
	return 0
}

// Correspondence harness for the codec engine (C16): varints, percolator lock/write codec,
// manifest edit codec, internal keys, value struct / pointer, entry header / entry codec,
// raft WAL payload framing and the raft command envelope.  Protocol: PROTOCOL.md.
//
// Every op is executed in a persistent worker child (same binary, first arg "worker") that
// limits its own address space, so that allocation bombs of the real decoders kill the child
// (=> "oom-guard") instead of the harness.
package main

import (
	"bufio"
	"bytes"
	"fmt"
	"io"
	"os"
	"os/exec"
	"runtime"
	"runtime/debug"
	"runtime/metrics"
	"strconv"
	"strings"
	"sync/atomic"
	"syscall"
	"time"

	"verif/harness/hlib"
)

// ---------------------------------------------------------------- worker child

const workerHeadroom = 768 << 20 // address space the worker may add on top of its start-up VmSize

func vmSizeKB() uint64 {
	data, err := os.ReadFile("/proc/self/status")
	if err != nil {
		return 0
	}
	for _, l := range strings.Split(string(data), "\n") {
		if strings.HasPrefix(l, "VmSize:") {
			f := strings.Fields(l)
			if len(f) >= 2 {
				v, _ := strconv.ParseUint(f[1], 10, 64)
				return v
			}
		}
	}
	return 0
}

var allocSample = []metrics.Sample{{Name: "/gc/heap/allocs:bytes"}}

func allocatedBytes() uint64 {
	metrics.Read(allocSample)
	if allocSample[0].Value.Kind() != metrics.KindUint64 {
		return 0
	}
	return allocSample[0].Value.Uint64()
}

func workerMain() {
	runtime.GOMAXPROCS(2)
	debug.SetGCPercent(50)
	// Allocations are served from address space the runtime reserves with mmap; RLIMIT_AS
	// bounds the total.  limit = what the process already has + 768 MiB: a single 1 GiB
	// allocation can never be mapped, 256 MiB always can (garbage is collected between ops).
	workerVmKB = vmSizeKB()
	if workerVmKB == 0 {
		fmt.Fprintln(os.Stderr, "worker: cannot read VmSize")
		os.Exit(3)
	}
	workerLimit = workerVmKB*1024 + workerHeadroom
	var cur syscall.Rlimit
	if err := syscall.Getrlimit(syscall.RLIMIT_AS, &cur); err != nil {
		fmt.Fprintln(os.Stderr, "worker: getrlimit:", err)
		os.Exit(3)
	}
	lim := syscall.Rlimit{Cur: workerLimit, Max: cur.Max}
	if lim.Max < lim.Cur { // a hard limit below ours is even stricter: keep it
		lim.Cur = lim.Max
		workerLimit = lim.Max
	}
	if err := syscall.Setrlimit(syscall.RLIMIT_AS, &lim); err != nil {
		fmt.Fprintln(os.Stderr, "worker: setrlimit:", err)
		os.Exit(3)
	}
	in := bufio.NewReaderSize(os.Stdin, 1<<16)
	out := bufio.NewWriterSize(os.Stdout, 1<<16)
	for {
		line, err := in.ReadString('\n')
		if len(line) > 0 && line[len(line)-1] == '\n' {
			line = line[:len(line)-1]
		} else if err != nil {
			return // EOF without a complete line
		}
		a0 := allocatedBytes()
		res := safeOp(line)
		out.WriteString(res)
		out.WriteByte('\n')
		if out.Flush() != nil {
			return
		}
		// an op that allocated a lot: collect now, so that the address space is reusable for
		// the next op and outcomes do not depend on GC timing
		if allocatedBytes()-a0 > 4<<20 {
			runtime.GC()
		}
		if err != nil {
			return
		}
	}
}

// ---------------------------------------------------------------- parent side

type worker struct {
	cmd    *exec.Cmd
	in     io.WriteCloser
	out    *bufio.Reader
	stderr *bytes.Buffer
}

func startWorker() *worker {
	cmd := exec.Command(selfPath(), "worker")
	cmd.Env = append(os.Environ(), "GOMAXPROCS=2")
	in, err := cmd.StdinPipe()
	if err != nil {
		panic(err)
	}
	outp, err := cmd.StdoutPipe()
	if err != nil {
		panic(err)
	}
	w := &worker{cmd: cmd, in: in, out: bufio.NewReaderSize(outp, 1<<16), stderr: &bytes.Buffer{}}
	cmd.Stderr = w.stderr
	if err := cmd.Start(); err != nil {
		panic(fmt.Sprintf("start worker: %v", err))
	}
	return w
}

func selfPath() string {
	if p, err := os.Executable(); err == nil {
		return p
	}
	return os.Args[0]
}

// per-op watchdog (CODEC_OP_TIMEOUT_MS overrides it, for the self test only)
var opTimeout = func() time.Duration {
	if ms, err := strconv.Atoi(os.Getenv("CODEC_OP_TIMEOUT_MS")); err == nil && ms > 0 {
		return time.Duration(ms) * time.Millisecond
	}
	return 20 * time.Second
}()

type codecEngine struct {
	w        *worker
	spare    chan *worker // pre-started workers: starting one costs ~0.2 s, so keep a few ready
	fillers  bool
	hist     map[string]map[string]int
	respawns int
}

func newEngine() *codecEngine {
	return &codecEngine{hist: map[string]map[string]int{}, spare: make(chan *worker, 2)}
}

func (e *codecEngine) getWorker() *worker {
	if e.w != nil {
		return e.w
	}
	if !e.fillers {
		e.fillers = true
		for i := 0; i < 3; i++ { // three starters in parallel, blocked while the pool is full
			go func() {
				for {
					e.spare <- startWorker()
				}
			}()
		}
	}
	e.w = <-e.spare
	return e.w
}

func sanitize(s string) string {
	if len(s) > 80 {
		s = s[:80]
	}
	return strings.Map(func(r rune) rune {
		if r == ' ' || r == '\t' || r == '\n' || r == '\r' {
			return '_'
		}
		return r
	}, s)
}

// runBatch sends the ops ops[idx[0]], ops[idx[1]], ... to the worker in one write and reads the
// replies one by one (20 s watchdog per reply).  It returns how many of them got an output: all,
// or, when the worker dies while executing one of them, everything up to and including that op
// (whose output classifies the death); the caller re-submits the rest to a fresh worker.
func (e *codecEngine) runBatch(ops []string, idx []int, out []string) int {
	w := e.getWorker()
	var sb strings.Builder
	for _, i := range idx {
		sb.WriteString(ops[i])
		sb.WriteByte('\n')
	}
	written := make(chan struct{})
	go func() { // own goroutine: a big batch must not dead-lock against the reply pipe
		io.WriteString(w.in, sb.String())
		close(written)
	}()
	var timedOut atomic.Bool
	t := time.AfterFunc(opTimeout, func() {
		timedOut.Store(true)
		w.cmd.Process.Kill()
	})
	defer t.Stop()
	for k, i := range idx {
		s, err := w.out.ReadString('\n')
		if err == nil {
			t.Reset(opTimeout)
			out[i] = strings.TrimSuffix(s, "\n")
			continue
		}
		// the worker died while executing ops[i]
		w.cmd.Process.Kill()
		w.cmd.Wait() // reaps, closes our pipe ends, waits for the stderr copy
		w.in.Close()
		<-written
		e.w = nil
		e.respawns++
		es := w.stderr.String()
		switch {
		case timedOut.Load():
			out[i] = "timeout"
		case strings.Contains(es, "out of memory") || strings.Contains(es, "cannot allocate memory"):
			out[i] = "oom-guard"
		default:
			out[i] = "crash:" + sanitize(es)
		}
		if os.Getenv("CODEC_DEBUG") != "" {
			fmt.Fprintf(os.Stderr, "worker died on %q: %s\n", ops[i], out[i])
		}
		return k + 1
	}
	<-written
	return len(idx)
}

func opFamily(op string) string {
	if i := strings.IndexAny(op, ". "); i >= 0 {
		return op[:i]
	}
	return op
}

func opName(op string) string {
	if i := strings.IndexByte(op, ' '); i >= 0 {
		return op[:i]
	}
	return op
}

// outcomeClass: ok | err | panic | oom-guard | other
func outcomeClass(out string) string {
	switch {
	case out == "panic":
		return "panic"
	case out == "oom-guard":
		return "oom-guard"
	case out == "err" || strings.HasPrefix(out, "err:") || strings.HasPrefix(out, "err "):
		return "err"
	case out == "bad-op" || out == "timeout" || strings.HasPrefix(out, "crash:") || strings.HasPrefix(out, "harness-panic"):
		return "other"
	}
	return "ok"
}

func (e *codecEngine) Exec(ops0 []string) []string {
	// every case starts from a worker without held payloads
	ops := append([]string{"x.reset"}, ops0...)
	res := e.exec1(ops)
	return res[1:]
}

func (e *codecEngine) exec1(ops []string) []string {
	out := make([]string, len(ops))
	var idx []int
	for i, op := range ops {
		if op == "" || strings.ContainsAny(op, "\n\r\t") {
			out[i] = "bad-op"
		} else {
			idx = append(idx, i)
		}
	}
	for len(idx) > 0 {
		idx = idx[e.runBatch(ops, idx, out):]
	}
	for i, op := range ops {
		fam := opFamily(op)
		m := e.hist[fam]
		if m == nil {
			m = map[string]int{}
			e.hist[fam] = m
		}
		m[outcomeClass(out[i])]++
	}
	return out
}

func isDecOp(name string) bool { return strings.HasSuffix(name, ".dec") || name == "man.read" }

func (e *codecEngine) Nontrivial(ops, impl, model, spec []string) bool {
	rt, dec := false, false
	holds, checks := 0, 0
	for i, op := range ops {
		name := opName(op)
		c := outcomeClass(impl[i])
		if name == "hold" && c == "ok" {
			holds++
		}
		if name == "check" && c == "ok" && impl[i] != "bad-slot" {
			checks++
		}
		if strings.HasSuffix(name, ".rt") && c == "ok" {
			rt = true
		}
		if isDecOp(name) && (c == "err" || c == "panic" || c == "oom-guard") {
			dec = true
		}
	}
	return (rt && dec) || (holds >= 2 && checks >= 2)
}

func (e *codecEngine) Rule() string {
	return "C16: 8..24 stateless ops per case (40 in the thorough tier) over all codecs (percolator lock/write 20%, manifest edits 30%, " +
		"internal keys 15%, value struct/pointer 8%, entry header/entry 15%, uvarint 5%, raft WAL payloads + command envelope 7%): " +
		"round trips of structured values biased to integer/byte-string boundaries, and decoders run on valid encodings, every-truncation samples, " +
		"trailing garbage, bit flips, byte replacement, hand re-encodings with one varint field replaced by an overlong/overflowing/huge varint, " +
		"lying length/count fields and random bytes; non-trivial = the case contains at least one *.rt op whose impl output is ok/a value " +
		"AND at least one *.dec (or man.read) op whose impl output is err*/panic/oom-guard; 15% of the cases are multi-payload cases instead: " +
		"2..6 encoder results (same or mixed codecs) are kept alive (`hold`), garbage collections interleaved in half of them, then all are decoded " +
		"in another order and compared with their inputs and with their bytes at production time (`check`); such a case is non-trivial when at least " +
		"two payloads were held and two checked"
}

func (e *codecEngine) Extra() map[string]any {
	h := map[string]any{}
	for fam, m := range e.hist {
		mm := map[string]int{}
		for k, v := range m {
			mm[k] = v
		}
		h[fam] = mm
	}
	return map[string]any{"outcome_histogram": h, "worker_respawns": e.respawns}
}

func main() {
	if len(os.Args) > 1 {
		switch os.Args[1] {
		case "worker":
			workerMain()
			return
		case "selfcheck":
			os.Exit(selfCheck())
		case "gen": // h_codec gen [seed] [n] [tier]: print generated cases (debugging aid)
			os.Exit(genDump(os.Args[2:]))
		case "exec": // h_codec exec < ops: run op lines through Engine.Exec (worker + respawn), no driver
			e := newEngine()
			sc := bufio.NewScanner(os.Stdin)
			sc.Buffer(make([]byte, 1<<20), 1<<20)
			for sc.Scan() {
				op := strings.TrimSpace(sc.Text())
				if op == "" || strings.HasPrefix(op, "#") {
					continue
				}
				t0 := time.Now()
				res := e.Exec([]string{op})[0]
				if d := time.Since(t0); d > 50*time.Millisecond && os.Getenv("CODEC_DEBUG") != "" {
					fmt.Fprintf(os.Stderr, "slow op (%v): %.100s => %.40s\n", d, op, res)
				}
				fmt.Printf("%s => %s\n", op, res)
			}
			return
		}
	}
	hlib.Main("codec", newEngine())
}

package main

// Execution of one op line on the real code (runs inside the worker child).

import (
	"bytes"
	"encoding/binary"
	"encoding/hex"
	"errors"
	"fmt"
	"io"
	"os"
	"runtime"
	"strconv"
	"strings"
	"time"

	"github.com/feichai0017/NoKV/kv"
	"github.com/feichai0017/NoKV/manifest"
	"github.com/feichai0017/NoKV/pb"
	"github.com/feichai0017/NoKV/percolator"
	myraft "github.com/feichai0017/NoKV/raft"
	"github.com/feichai0017/NoKV/raftstore/command"
	"github.com/feichai0017/NoKV/raftstore/engine"
	"github.com/feichai0017/NoKV/utils"
	"google.golang.org/protobuf/proto"
)

// badOp is panicked by the argument parsers; everything else that panics is the real code.
type badOp struct{}

func bad() { panic(badOp{}) }

func pU64(s string) uint64 {
	v, err := strconv.ParseUint(s, 10, 64)
	if err != nil {
		bad()
	}
	return v
}

func pU32(s string) uint32 {
	v, err := strconv.ParseUint(s, 10, 32)
	if err != nil {
		bad()
	}
	return uint32(v)
}

func pU8(s string) uint8 {
	v, err := strconv.ParseUint(s, 10, 8)
	if err != nil {
		bad()
	}
	return uint8(v)
}

func pBool(s string) bool {
	switch s {
	case "0":
		return false
	case "1":
		return true
	}
	bad()
	return false
}

// exact returns a fresh copy with cap == len.
func exact(b []byte) []byte {
	c := make([]byte, len(b))
	copy(c, b)
	return c
}

// pHex parses a hex argument ("-" = empty) into a fresh exact-capacity slice.
func pHex(s string) []byte {
	if s == "-" {
		return make([]byte, 0)
	}
	if s == "" {
		bad()
	}
	b, err := hex.DecodeString(s)
	if err != nil {
		bad()
	}
	return exact(b)
}

func hx(b []byte) string {
	if len(b) == 0 {
		return "-"
	}
	return hex.EncodeToString(b)
}

func b01(b bool) int {
	if b {
		return 1
	}
	return 0
}

// ---------------------------------------------------------------- manifest edits

func fmtPeers(ps []manifest.PeerMeta) string {
	if len(ps) == 0 {
		return "-"
	}
	var sb strings.Builder
	for i, p := range ps {
		if i == 64 {
			fmt.Fprintf(&sb, ";+%d", len(ps)-64)
			break
		}
		if i > 0 {
			sb.WriteByte(';')
		}
		sb.WriteString(strconv.FormatUint(p.StoreID, 10))
		sb.WriteByte('.')
		sb.WriteString(strconv.FormatUint(p.PeerID, 10))
	}
	return sb.String()
}

func fmtEdit(e manifest.Edit) string {
	t := uint8(e.Type)
	switch e.Type {
	case manifest.EditAddFile, manifest.EditDeleteFile:
		if e.File == nil {
			return fmt.Sprintf("%d,nil", t)
		}
		m := e.File
		return fmt.Sprintf("%d,file,%d,%d,%d,%s,%s,%d,%d,%d", t, uint64(m.Level), m.FileID, m.Size,
			hx(m.Smallest), hx(m.Largest), m.CreatedAt, m.ValueSize, b01(m.Ingest))
	case manifest.EditLogPointer:
		return fmt.Sprintf("2,log,%d,%d", e.LogSeg, e.LogOffset)
	case manifest.EditValueLogHead, manifest.EditDeleteValueLog, manifest.EditUpdateValueLog:
		if e.ValueLog == nil {
			return fmt.Sprintf("%d,nil", t)
		}
		v := e.ValueLog
		return fmt.Sprintf("%d,vl,%d,%d,%d,%d", t, v.Bucket, v.FileID, v.Offset, b01(v.Valid))
	case manifest.EditRaftPointer:
		if e.Raft == nil {
			return "6,nil"
		}
		p := e.Raft
		return fmt.Sprintf("6,raft,%d,%d,%d,%d,%d,%d,%d,%d,%d,%d,%d,%d", p.GroupID, p.Segment, p.Offset,
			p.AppliedIndex, p.AppliedTerm, p.Committed, p.SnapshotIndex, p.SnapshotTerm,
			p.TruncatedIndex, p.TruncatedTerm, p.SegmentIndex, p.TruncatedOffset)
	case manifest.EditRegion:
		if e.Region == nil {
			return "7,nil"
		}
		m := e.Region.Meta
		return fmt.Sprintf("7,region,%d,%d,%s,%s,%d,%d,%d,%s", m.ID, b01(e.Region.Delete), hx(m.StartKey), hx(m.EndKey),
			m.Epoch.Version, m.Epoch.ConfVersion, uint8(m.State), fmtPeers(m.Peers))
	}
	return fmt.Sprintf("%d,none", t)
}

func parseEdit(s string) manifest.Edit {
	p := strings.Split(s, ",")
	if len(p) < 2 {
		bad()
	}
	e := manifest.Edit{Type: manifest.EditType(pU8(p[0]))}
	need := func(n int) {
		if len(p) != n {
			bad()
		}
	}
	switch p[1] {
	case "nil", "none":
		need(2)
	case "file":
		need(10)
		e.File = &manifest.FileMeta{Level: int(pU64(p[2])), FileID: pU64(p[3]), Size: pU64(p[4]),
			Smallest: pHex(p[5]), Largest: pHex(p[6]), CreatedAt: pU64(p[7]), ValueSize: pU64(p[8]), Ingest: pBool(p[9])}
	case "log":
		need(4)
		e.LogSeg = pU32(p[2])
		e.LogOffset = pU64(p[3])
	case "vl":
		need(6)
		e.ValueLog = &manifest.ValueLogMeta{Bucket: pU32(p[2]), FileID: pU32(p[3]), Offset: pU64(p[4]), Valid: pBool(p[5])}
	case "raft":
		need(14)
		e.Raft = &manifest.RaftLogPointer{GroupID: pU64(p[2]), Segment: pU32(p[3]), Offset: pU64(p[4]),
			AppliedIndex: pU64(p[5]), AppliedTerm: pU64(p[6]), Committed: pU64(p[7]), SnapshotIndex: pU64(p[8]),
			SnapshotTerm: pU64(p[9]), TruncatedIndex: pU64(p[10]), TruncatedTerm: pU64(p[11]),
			SegmentIndex: pU64(p[12]), TruncatedOffset: pU64(p[13])}
	case "region":
		need(10)
		re := &manifest.RegionEdit{Delete: pBool(p[3])}
		re.Meta.ID = pU64(p[2])
		re.Meta.StartKey = pHex(p[4])
		re.Meta.EndKey = pHex(p[5])
		re.Meta.Epoch.Version = pU64(p[6])
		re.Meta.Epoch.ConfVersion = pU64(p[7])
		re.Meta.State = manifest.RegionState(pU8(p[8]))
		if p[9] != "-" {
			for _, it := range strings.Split(p[9], ";") {
				sp := strings.Split(it, ".")
				if len(sp) != 2 {
					bad()
				}
				re.Meta.Peers = append(re.Meta.Peers, manifest.PeerMeta{StoreID: pU64(sp[0]), PeerID: pU64(sp[1])})
			}
		}
		e.Region = re
	default:
		bad()
	}
	return e
}

func manOutcome(e manifest.Edit, err error, framed bool) string {
	if err != nil {
		if framed {
			if err == io.EOF {
				return "err:eof"
			}
			if err == io.ErrUnexpectedEOF {
				return "err:ueof"
			}
		}
		return "err"
	}
	return "ok:" + fmtEdit(e)
}

// ---------------------------------------------------------------- decoders -> canonical outcome

func lockDec(b []byte) string {
	l, err := percolator.DecodeLock(b)
	if err != nil {
		return "err"
	}
	return fmt.Sprintf("ok:%s:%d:%d:%d:%d", hx(l.Primary), l.Ts, l.TTL, uint8(l.Kind), l.MinCommitTs)
}

func writeDec(b []byte) string {
	w, err := percolator.DecodeWrite(b)
	if err != nil {
		return "err"
	}
	return fmt.Sprintf("ok:%d:%d:%s", uint8(w.Kind), w.StartTs, hx(w.ShortValue))
}

func ikeySplit(b []byte) string {
	cf, uk, ts := kv.SplitInternalKey(b)
	return fmt.Sprintf("%d:%s:%d", uint8(cf), hx(uk), ts)
}

func ktsParse(b []byte) string {
	k := kv.ParseKey(b)
	ts := kv.ParseTs(b)
	return fmt.Sprintf("%s:%d", hx(k), ts)
}

func vsDec(b []byte) string {
	var vs kv.ValueStruct
	vs.DecodeValue(b)
	return fmt.Sprintf("%d:%d:%s", vs.Meta, vs.ExpiresAt, hx(vs.Value))
}

func vpDec(b []byte) string {
	var p kv.ValuePtr
	p.Decode(b)
	return fmt.Sprintf("%d:%d:%d:%d", p.Len, p.Offset, p.Fid, p.Bucket)
}

func hdrDec(b []byte) string {
	var h kv.EntryHeader
	n, err := h.Decode(b)
	if err != nil {
		return "err"
	}
	return fmt.Sprintf("ok:%d:%d:%d:%d:%d", h.KeyLen, h.ValueLen, h.Meta, h.ExpiresAt, n)
}

func entDec(b []byte) string {
	e, err := kv.DecodeEntry(b)
	if err != nil {
		switch {
		case err == io.EOF:
			return "err:eof"
		case errors.Is(err, kv.ErrPartialEntry):
			return "err:partial"
		case errors.Is(err, kv.ErrBadChecksum):
			return "err:crc"
		}
		return "err"
	}
	out := fmt.Sprintf("ok:%s:%s:%d:%d:%d", hx(e.Key), hx(e.Value), e.Meta, e.ExpiresAt, e.Hlen)
	e.DecrRef()
	return out
}

func vslDec(b []byte) string {
	val, h, err := kv.DecodeValueSlice(b)
	if err != nil {
		if errors.Is(err, kv.ErrBadChecksum) {
			return "err:crc"
		}
		return "err"
	}
	return fmt.Sprintf("ok:%s:%d:%d:%d:%d", hx(val), h.KeyLen, h.ValueLen, h.Meta, h.ExpiresAt)
}

func sign(c int) string {
	switch {
	case c < 0:
		return "-1"
	case c > 0:
		return "1"
	}
	return "0"
}

func bodyList(s string) [][]byte {
	if s == "-" {
		return nil
	}
	var out [][]byte
	for _, p := range strings.Split(s, ",") {
		if p == "e" {
			out = append(out, make([]byte, 0))
		} else {
			if p == "-" {
				bad()
			}
			out = append(out, pHex(p))
		}
	}
	return out
}

func fmtBody(b []byte) string {
	if len(b) == 0 {
		return "e"
	}
	return hex.EncodeToString(b)
}

// ---------------------------------------------------------------- dispatcher

// safeOp runs one op line; Go panics of the real code => "panic"; malformed line => "bad-op".
// ---------------------------------------------------------------- encode / decode halves of the *.rt ops

// rtEncode runs the real encoder of an `X.rt` op and returns exactly the slice the encoder
// handed out (no copy: the multi-payload ops keep it alive to detect aliasing between the
// results of successive encoder calls).  ok=false: the encoder reported an error.
func rtEncode(f []string) (enc []byte, ok bool) {
	need := func(n int) {
		if len(f) != n+1 {
			bad()
		}
	}
	switch f[0] {
	case "lock.rt":
		need(5)
		l := percolator.Lock{Primary: pHex(f[1]), Ts: pU64(f[2]), TTL: pU64(f[3]), Kind: pb.Mutation_Op(pU8(f[4])), MinCommitTs: pU64(f[5])}
		return percolator.EncodeLock(l), true
	case "write.rt":
		need(3)
		w := percolator.Write{Kind: pb.Mutation_Op(pU8(f[1])), StartTs: pU64(f[2]), ShortValue: pHex(f[3])}
		return percolator.EncodeWrite(w), true
	case "man.rt":
		need(1)
		framed, err := manifest.VerifWriteEdit(parseEdit(f[1]))
		return framed, err == nil
	case "ikey.rt":
		need(3)
		return kv.InternalKey(kv.ColumnFamily(pU8(f[1])), pHex(f[2]), pU64(f[3])), true
	case "kts.rt":
		need(2)
		return kv.KeyWithTs(pHex(f[1]), pU64(f[2])), true
	case "vs.rt":
		need(3)
		vs := kv.ValueStruct{Meta: pU8(f[1]), ExpiresAt: pU64(f[2]), Value: pHex(f[3])}
		buf := make([]byte, vs.EncodedSize())
		n := vs.EncodeValue(buf)
		return buf[:n], true
	case "vp.rt":
		need(4)
		p := kv.ValuePtr{Len: pU32(f[1]), Offset: pU32(f[2]), Fid: pU32(f[3]), Bucket: pU32(f[4])}
		return p.Encode(), true
	case "hdr.rt":
		need(4)
		h := kv.EntryHeader{KeyLen: pU32(f[1]), ValueLen: pU32(f[2]), Meta: pU8(f[3]), ExpiresAt: pU64(f[4])}
		buf := make([]byte, 40)
		n := h.Encode(buf)
		return buf[:n], true
	case "ent.rt":
		need(4)
		e := &kv.Entry{Key: pHex(f[1]), Value: pHex(f[2]), Meta: pU8(f[3]), ExpiresAt: pU64(f[4])}
		enc, err := kv.EncodeEntry(nil, e)
		return enc, err == nil
	case "cmd.rt":
		need(1)
		var req pb.RaftCmdRequest
		if err := proto.Unmarshal(pHex(f[1]), &req); err != nil {
			bad()
		}
		frame, err := command.Encode(&req)
		return frame, err == nil
	case "raft.ents.rt":
		need(2)
		gid := pU64(f[1])
		var ents []myraft.Entry
		for _, body := range bodyList(f[2]) {
			var e myraft.Entry
			if err := e.Unmarshal(body); err != nil {
				bad()
			}
			ents = append(ents, e)
		}
		enc, err := engine.VerifEncodeRaftEntries(gid, ents)
		return enc, err == nil
	case "raft.hs.rt":
		need(2)
		var st myraft.HardState
		if err := st.Unmarshal(pHex(f[2])); err != nil {
			bad()
		}
		enc, err := engine.VerifEncodeRaftHardState(pU64(f[1]), st)
		return enc, err == nil
	case "raft.snap.rt":
		need(2)
		var sn myraft.Snapshot
		if err := sn.Unmarshal(pHex(f[2])); err != nil {
			bad()
		}
		enc, err := engine.VerifEncodeRaftSnapshot(pU64(f[1]), sn)
		return enc, err == nil
	}
	bad()
	return nil, false
}

// rtDecode decodes b (an exact-capacity private copy) with the decoder of the `X.rt` op name.
func rtDecode(name string, b []byte) string {
	switch name {
	case "lock.rt":
		return lockDec(b)
	case "write.rt":
		return writeDec(b)
	case "man.rt":
		e2, err := manifest.VerifReadEdit(b)
		return manOutcome(e2, err, true)
	case "ikey.rt":
		return ikeySplit(b)
	case "kts.rt":
		return ktsParse(b)
	case "vs.rt":
		return vsDec(b)
	case "vp.rt":
		return vpDec(b)
	case "hdr.rt":
		return hdrDec(b)
	case "ent.rt":
		return entDec(b)
	case "cmd.rt":
		dec, isCmd, err := command.Decode(b)
		if !isCmd {
			return "nocmd"
		}
		if err != nil {
			return "err"
		}
		re, err := proto.Marshal(dec)
		if err != nil {
			return "err"
		}
		return "cmd:" + hx(re)
	case "raft.ents.rt":
		g2, out, err := engine.VerifDecodeRaftEntries(b)
		if err != nil {
			return "err"
		}
		parts := make([]string, 0, len(out))
		for i := range out {
			bb, err := out[i].Marshal()
			if err != nil {
				return "err"
			}
			parts = append(parts, fmtBody(bb))
		}
		list := "-"
		if len(parts) > 0 {
			list = strings.Join(parts, ",")
		}
		return fmt.Sprintf("ok:%d:%s", g2, list)
	case "raft.hs.rt":
		g2, st2, err := engine.VerifDecodeRaftHardState(b)
		if err != nil {
			return "err"
		}
		bb, err := st2.Marshal()
		if err != nil {
			return "err"
		}
		return fmt.Sprintf("ok:%d:%s", g2, hx(bb))
	case "raft.snap.rt":
		g2, sn2, err := engine.VerifDecodeRaftSnapshot(b)
		if err != nil {
			return "err"
		}
		bb, err := sn2.Marshal()
		if err != nil {
			return "err"
		}
		return fmt.Sprintf("ok:%d:%s", g2, hx(bb))
	}
	bad()
	return ""
}

// heldPayload is an encoder result kept alive across ops (`hold` / `check`).
type heldPayload struct {
	name string
	enc  []byte // the encoder's own slice, never copied
}

var held = map[string]heldPayload{}

func safeOp(line string) (out string) {
	defer func() {
		if r := recover(); r != nil {
			if _, ok := r.(badOp); ok {
				out = "bad-op"
			} else {
				out = "panic"
			}
		}
	}()
	return runOp(line)
}

func runOp(line string) string {
	f := strings.Split(line, " ")
	need := func(n int) {
		if len(f) != n+1 {
			bad()
		}
	}
	switch f[0] {
	case "x.reset": // start of a case: forget the held payloads
		held = map[string]heldPayload{}
		return "ok"
	case "hold": // hold SLOT X.rt ARGS...: encode, keep the encoder's slice alive, print its bytes
		if len(f) < 3 {
			bad()
		}
		enc, ok := rtEncode(f[2:])
		if !ok {
			return "err"
		}
		held[f[1]] = heldPayload{name: f[2], enc: enc}
		return hx(enc)
	case "check": // check SLOT: decode the held payload now, print outcome and its current bytes
		need(1)
		h, ok := held[f[1]]
		if !ok {
			return "bad-slot"
		}
		return rtDecode(h.name, exact(h.enc)) + " " + hx(h.enc)
	case "gc": // two cycles: the second one empties sync.Pool victim caches
		need(0)
		runtime.GC()
		runtime.GC()
		return "ok"
	case "uv.put":
		need(1)
		return hx(binary.AppendUvarint(nil, pU64(f[1])))
	case "uv.get":
		need(1)
		v, n := binary.Uvarint(pHex(f[1]))
		return fmt.Sprintf("%d:%d", v, n)
	case "uv.read":
		need(1)
		b := pHex(f[1])
		rd := bytes.NewReader(b)
		v, err := binary.ReadUvarint(rd)
		if err != nil {
			if err == io.EOF {
				return "err:eof"
			}
			if err == io.ErrUnexpectedEOF {
				return "err:ueof"
			}
			return "err"
		}
		return fmt.Sprintf("ok:%d:%d", v, len(b)-rd.Len())

	case "lock.rt":
		enc, ok := rtEncode(f)
		if !ok {
			return "err"
		}
		return rtDecode(f[0], exact(enc)) + " " + hx(enc)
	case "lock.dec":
		need(1)
		return lockDec(pHex(f[1]))
	case "write.rt":
		enc, ok := rtEncode(f)
		if !ok {
			return "err"
		}
		return rtDecode(f[0], exact(enc)) + " " + hx(enc)
	case "write.dec":
		need(1)
		return writeDec(pHex(f[1]))

	case "man.rt":
		enc, ok := rtEncode(f)
		if !ok {
			return "err"
		}
		return rtDecode(f[0], exact(enc)) + " " + hx(enc)
	case "man.dec":
		need(1)
		e, err := manifest.VerifDecodeEdit(pHex(f[1]))
		return manOutcome(e, err, false)
	case "man.read":
		need(1)
		e, err := manifest.VerifReadEdit(pHex(f[1]))
		return manOutcome(e, err, true)

	case "ikey.rt":
		enc, ok := rtEncode(f)
		if !ok {
			return "err"
		}
		return rtDecode(f[0], exact(enc)) + " " + hx(enc)
	case "ikey.split":
		need(1)
		return ikeySplit(pHex(f[1]))
	case "kts.rt":
		enc, ok := rtEncode(f)
		if !ok {
			return "err"
		}
		return rtDecode(f[0], exact(enc)) + " " + hx(enc)
	case "kts.parse":
		need(1)
		return ktsParse(pHex(f[1]))
	case "key.cmp":
		need(2)
		return sign(utils.CompareKeys(pHex(f[1]), pHex(f[2])))

	case "vs.rt":
		enc, ok := rtEncode(f)
		if !ok {
			return "err"
		}
		return rtDecode(f[0], exact(enc)) + " " + hx(enc)
	case "vs.size":
		// what arena / skiplist / ART / SST builder do: allocate EncodedSize() bytes, EncodeValue
		// into them, DecodeValue the whole buffer.
		need(3)
		vs := kv.ValueStruct{Meta: pU8(f[1]), ExpiresAt: pU64(f[2]), Value: pHex(f[3])}
		size := vs.EncodedSize()
		buf := make([]byte, size)
		n := vs.EncodeValue(buf)
		return fmt.Sprintf("%d:%d:%s", size, n, vsDec(exact(buf)))
	case "ent.size":
		need(3)
		e := kv.Entry{Value: pHex(f[1]), Meta: pU8(f[2]), ExpiresAt: pU64(f[3])}
		return fmt.Sprintf("%d", e.EncodedSize())
	case "vs.dec":
		need(1)
		return vsDec(pHex(f[1]))
	case "vp.rt":
		enc, ok := rtEncode(f)
		if !ok {
			return "err"
		}
		return rtDecode(f[0], exact(enc)) + " " + hx(enc)
	case "vp.dec":
		need(1)
		return vpDec(pHex(f[1]))

	case "hdr.rt":
		enc, ok := rtEncode(f)
		if !ok {
			return "err"
		}
		return rtDecode(f[0], exact(enc)) + " " + hx(enc)
	case "hdr.dec":
		need(1)
		return hdrDec(pHex(f[1]))
	case "ent.rt":
		enc, ok := rtEncode(f)
		if !ok {
			return "err"
		}
		return rtDecode(f[0], exact(enc)) + " " + hx(enc)
	case "ent.dec":
		need(1)
		return entDec(pHex(f[1]))
	case "vsl.dec":
		need(1)
		return vslDec(pHex(f[1]))

	case "cmd.rt":
		enc, ok := rtEncode(f)
		if !ok {
			return "err"
		}
		return rtDecode(f[0], exact(enc)) + " " + hx(enc)
	case "cmd.dec":
		need(1)
		_, isCmd, _ := command.Decode(pHex(f[1]))
		if isCmd {
			return "cmd"
		}
		return "nocmd"

	case "raft.ents.rt":
		enc, ok := rtEncode(f)
		if !ok {
			return "err"
		}
		return rtDecode(f[0], exact(enc)) + " " + hx(enc)
	case "raft.ents.dec":
		need(1)
		_, _, _ = engine.VerifDecodeRaftEntries(pHex(f[1]))
		return "nopanic"
	case "raft.hs.rt":
		enc, ok := rtEncode(f)
		if !ok {
			return "err"
		}
		return rtDecode(f[0], exact(enc)) + " " + hx(enc)
	case "raft.hs.dec":
		need(1)
		_, _, _ = engine.VerifDecodeRaftHardState(pHex(f[1]))
		return "nopanic"
	case "raft.snap.rt":
		enc, ok := rtEncode(f)
		if !ok {
			return "err"
		}
		return rtDecode(f[0], exact(enc)) + " " + hx(enc)
	case "raft.snap.dec":
		need(1)
		_, _, _ = engine.VerifDecodeRaftSnapshot(pHex(f[1]))
		return "nopanic"

	// ---- self-test helpers (not part of the protocol, never generated)
	case "x.alloc":
		need(1)
		n := pU64(f[1])
		b := make([]byte, n)
		if n > 0 {
			b[0], b[n-1] = 1, 1
		}
		sink = b
		sink = nil
		return "ok"
	case "x.sleep": // milliseconds
		need(1)
		time.Sleep(time.Duration(pU64(f[1])) * time.Millisecond)
		return "ok"
	case "x.crash":
		fmt.Fprintln(os.Stderr, "boom: deliberate crash for the self test")
		os.Exit(7)
	case "x.info":
		return fmt.Sprintf("vmsize_kb=%d:limit=%d", workerVmKB, workerLimit)
	}
	bad()
	return ""
}

var sink []byte
var workerVmKB, workerLimit uint64

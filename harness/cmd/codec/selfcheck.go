package main

// Real encoders used by `h_codec selfcheck` to validate the generator's hand encoders.

import (
	"github.com/feichai0017/NoKV/pb"
	"github.com/feichai0017/NoKV/percolator"
	myraft "github.com/feichai0017/NoKV/raft"
	"github.com/feichai0017/NoKV/raftstore/engine"
)

func realLock(l lockVal) []byte {
	return percolator.EncodeLock(percolator.Lock{Primary: l.primary, Ts: l.ts, TTL: l.ttl, Kind: pb.Mutation_Op(l.kind), MinCommitTs: l.minCommit})
}

func realWrite(w writeVal) []byte {
	return percolator.EncodeWrite(percolator.Write{Kind: pb.Mutation_Op(w.kind), StartTs: w.start, ShortValue: w.short})
}

func realEnts(gid uint64, bodies [][]byte) []byte {
	var ents []myraft.Entry
	for _, b := range bodies {
		var e myraft.Entry
		if err := e.Unmarshal(b); err != nil {
			panic(err)
		}
		ents = append(ents, e)
	}
	return must(engine.VerifEncodeRaftEntries(gid, ents))
}

func realHS(gid uint64, hs myraft.HardState) []byte {
	return must(engine.VerifEncodeRaftHardState(gid, hs))
}

func realSnap(gid uint64, sn myraft.Snapshot) []byte {
	return must(engine.VerifEncodeRaftSnapshot(gid, sn))
}

// Correspondence harness for the MVCC engine: C03 (snapshot reads, conflict detection,
// serializability) and C04 (atomic commit, increasing versions, size limits).
//
// One goroutine issues interleaved API calls of up to four transactions over three keys on a
// real NoKV.DB (fresh temp dir per case, DetectConflicts on) and prints one canonical line
// per call.  CommitWith is awaited, so that every line is one atomic step of the model.
package main

import (
	"encoding/json"
	"errors"
	"flag"
	"fmt"
	"os"
	"path/filepath"
	"sort"
	"strconv"
	"strings"
	"sync/atomic"
	"time"

	NoKV "github.com/feichai0017/NoKV"
	"github.com/feichai0017/NoKV/utils"
	"github.com/feichai0017/NoKV/vfs"

	"verif/harness/hlib"
)

var prop = flag.String("prop", "C03", "property: C03|C04")

var keys = [][]byte{{0x61}, {0x62}, {0x63, 0x63}}

// value lengths straddle the value thresholds used (8 and 1024) and the size limits
var valLens = []int{1, 2, 7, 8, 9, 30, 60}

type engine struct {
	cases, conflicts int
}

func (e *engine) Rule() string {
	return *prop + ": interleaved begin/get/scan/set/del/commit/commitwith/discard/versions/close/reopen of handles 1..4 over 3 keys (12% of the cases from a directed history-pruning template, 8% ending in a directed value-log fault batch) (one of length 2), limits MaxBatchCount in {4,5,6,64} / MaxBatchSize in {70,100,160,1MiB} / ValueThreshold in {8,1024}; non-trivial = at least one commit answered conflict and at least two successful read-write commits that wrote a common key"
}

func val(r *hlib.Rand) []byte {
	n := hlib.Pick(r, valLens)
	b := make([]byte, n)
	for i := range b {
		b[i] = byte(0x30 + r.Intn(10))
	}
	return b
}

// genPrune: directed template for histories in which the conflict history is pruned while a
// reader still needs part of it: an old reader pins the read mark, a key is written twice with a
// read-write transaction reading it in between, the old reader ends, a further commit runs the
// cleanup, and the reader commits.  Keys, filler commits and the read path (get / scan) vary.
func genPrune(r *hlib.Rand) []string {
	ops := []string{"open 64 1048576 1024"}
	w := func(id int, k []byte) {
		ops = append(ops, fmt.Sprintf("begin %d u", id), fmt.Sprintf("set %d %s %s", id, hlib.Hex(k), hlib.Hex(val(r))), fmt.Sprintf("commit %d", id))
	}
	k := hlib.Pick(r, keys)
	other := func() []byte {
		for {
			if o := hlib.Pick(r, keys); string(o) != string(k) {
				return o
			}
		}
	}
	for i := r.Intn(3); i > 0; i-- {
		w(1, other())
	}
	if r.Chance(80) {
		ops = append(ops, "begin 4 "+hlib.Pick(r, []string{"r", "u"})) // old reader
	}
	w(1, k)
	for i := r.Intn(3); i > 0; i-- {
		w(1, other())
	}
	ops = append(ops, "begin 2 u")
	if r.Chance(35) {
		ops = append(ops, "scan 2")
	} else {
		ops = append(ops, fmt.Sprintf("get 2 %s", hlib.Hex(k)))
	}
	ops = append(ops, fmt.Sprintf("set 2 %s %s", hlib.Hex(other()), hlib.Hex(val(r))))
	if r.Chance(85) {
		w(1, k) // the conflicting write
	}
	for i := r.Intn(2); i > 0; i-- {
		w(1, other())
	}
	ops = append(ops, "discard 4")
	if r.Chance(30) {
		ops = append(ops, "begin 3 r", "discard 3")
	}
	for i := 1 + r.Intn(2); i > 0; i-- {
		w(1, other())
	}
	ops = append(ops, "commit 2")
	for _, kk := range keys {
		ops = append(ops, "versions "+hlib.Hex(kk))
	}
	return ops
}

func (e *engine) Gen(r *hlib.Rand, tier string) []string {
	if r.Chance(12) {
		return genPrune(r)
	}
	mc := hlib.Pick(r, []int{4, 5, 6, 64, 64, 64})
	ms := hlib.Pick(r, []int{70, 100, 160, 1 << 20, 1 << 20, 1 << 20})
	thr := hlib.Pick(r, []int{8, 1024, 1024})
	// fault cases end in the directed value-log fault scenario; they need value-log values
	// committed before it (threshold 8) and room for its 5000-byte value
	fault := r.Chance(12)
	if fault {
		mc, ms, thr = 64, 1<<20, 8
	}
	ops := []string{fmt.Sprintf("open %d %d %d", mc, ms, thr)}
	n := 14 + r.Intn(40)
	nh := 3 + r.Intn(2)
	live := map[int]bool{}
	lastRead := map[int][]byte{}
	// contention mode: read-modify-write on one or two hot keys, few read-only transactions
	hot := r.Chance(70)
	pool := keys
	pUpd, pDiscard := 75, 6
	if hot {
		pool = keys[:1+r.Intn(2)]
		pUpd, pDiscard = 95, 2
		n = 40 + r.Intn(50) // long overlapping read-modify-write transactions
	}
	closed := false
	reopens := 0
	begin := func(id int) {
		m := "r"
		if r.Chance(pUpd) {
			m = "u"
		}
		ops = append(ops, fmt.Sprintf("begin %d %s", id, m))
		live[id] = true
		delete(lastRead, id)
	}
	read := func(id int, k []byte) {
		// a read through Get, or through an iterator scan (which reads every key)
		if r.Chance(20) {
			ops = append(ops, fmt.Sprintf("scan %d", id))
		} else {
			ops = append(ops, fmt.Sprintf("get %d %s", id, hlib.Hex(k)))
		}
		lastRead[id] = k
	}
	for i := 0; i < n; i++ {
		id := 1 + r.Intn(nh)
		k := hlib.Pick(r, pool)
		if r.Chance(10) {
			k = hlib.Pick(r, keys)
		}
		if !live[id] && !r.Chance(10) {
			// mostly re-begin a finished handle; sometimes use it after commit / discard
			begin(id)
			continue
		}
		x := r.Intn(100)
		switch {
		case x < 3:
			begin(id) // re-begin over a live handle: the old transaction is leaked
		case x < 33:
			if closed {
				// Txn.Get on a closed DB is outside the generated domain (see props assumptions)
				ops = append(ops, fmt.Sprintf("discard %d", id))
				live[id] = false
				continue
			}
			read(id, k)
		case x < 60:
			if hot && lastRead[id] == nil && !closed && r.Chance(85) {
				// contention mode: read-modify-write, so read first
				read(id, k)
				continue
			}
			if lastRead[id] != nil && r.Chance(70) {
				k = lastRead[id]
			}
			ops = append(ops, fmt.Sprintf("set %d %s %s", id, hlib.Hex(k), hlib.Hex(val(r))))
		case x < 65:
			ops = append(ops, fmt.Sprintf("del %d %s", id, hlib.Hex(k)))
		case x < 83:
			if hot && lastRead[id] == nil && !closed && r.Chance(80) {
				// contention mode: do not commit before having read something
				read(id, k)
				continue
			}
			ops = append(ops, fmt.Sprintf("commit %d", id))
			live[id] = false
		case x < 87:
			ops = append(ops, fmt.Sprintf("commitwith %d", id))
			live[id] = false
		case x < 87+pDiscard:
			ops = append(ops, fmt.Sprintf("discard %d", id))
			live[id] = false
		case x < 96:
			ops = append(ops, "versions "+hlib.Hex(k))
		case x < 98:
			// Close + Open: every handle dies; also right after the first commit(s), where the
			// recovered version is smallest
			if reopens < 2 && !fault {
				ops = append(ops, "reopen")
				reopens++
				closed = false
				live = map[int]bool{}
				lastRead = map[int][]byte{}
			} else {
				ops = append(ops, "versions "+hlib.Hex(k))
			}
		default:
			if i > n/2 && !closed && !fault {
				ops = append(ops, "close")
				closed = true
			} else {
				ops = append(ops, "versions "+hlib.Hex(k))
			}
		}
	}
	if fault {
		switch r.Intn(3) {
		case 0:
			ops = append(ops, fmt.Sprintf("vlogfault 5000 %02x", 0x70+r.Intn(8)), "begin 1 r")
		case 1:
			ops = append(ops, fmt.Sprintf("applyfault %02x", 0x70+r.Intn(8)), "begin 1 r", "get 1 6131", "get 1 6231")
		default:
			ops = append(ops, fmt.Sprintf("tornread %02x", 0x70+r.Intn(8)), "discard 91", "discard 92", "begin 1 r", "get 1 7031", "get 1 7032")
		}
		for _, k := range keys {
			ops = append(ops, "get 1 "+hlib.Hex(k))
		}
		ops = append(ops, "scan 1")
	}
	if !closed {
		for _, k := range keys {
			ops = append(ops, "versions "+hlib.Hex(k))
		}
	}
	return ops
}

func (e *engine) Nontrivial(ops, impl, model, spec []string) bool {
	conflict := false
	// keys written by each handle's current transaction
	cur := map[string]map[string]bool{}
	wrote := map[string]int{}
	for i, op := range ops {
		f := strings.Fields(op)
		switch f[0] {
		case "begin":
			cur[f[1]] = map[string]bool{}
		case "set", "del":
			if impl[i] == "ok" && cur[f[1]] != nil {
				cur[f[1]][f[2]] = true
			}
		case "commit", "commitwith":
			if impl[i] == "conflict" {
				conflict = true
			}
			if impl[i] == "ok" {
				for k := range cur[f[1]] {
					wrote[k]++
				}
			}
			cur[f[1]] = nil
		case "discard":
			cur[f[1]] = nil
		}
	}
	if !conflict {
		return false
	}
	for _, n := range wrote {
		if n >= 2 {
			return true
		}
	}
	return false
}

func errClass(err error) string {
	switch {
	case err == nil:
		return "ok"
	case errors.Is(err, errInjected):
		return "iofail"
	case errors.Is(err, utils.ErrKeyNotFound):
		return "notfound"
	case errors.Is(err, utils.ErrConflict):
		return "conflict"
	case errors.Is(err, utils.ErrTxnTooBig):
		return "toobig"
	case errors.Is(err, utils.ErrBlockedWrites):
		return "blocked"
	case errors.Is(err, utils.ErrReadOnlyTxn):
		return "readonly"
	case errors.Is(err, utils.ErrDiscardedTxn):
		return "discarded"
	case errors.Is(err, utils.ErrDBClosed):
		return "closed"
	case strings.Contains(err.Error(), "commit a discarded txn"):
		return "discarded"
	}
	return "other:" + strings.ReplaceAll(err.Error(), " ", "_")
}

var errInjected = errors.New("injected value log segment creation failure")

// faultArmed: while set, the next creation/open of a value-log segment file fails once
// (vfs.FaultFS hook; every case runs on a FaultFS so that `vlogfault` works in any case).
var faultArmed atomic.Bool

func faultHook(op vfs.Op, path string) error {
	if op == vfs.OpOpenFile && strings.HasSuffix(path, ".vlog") && strings.Contains(path, "bucket-000") &&
		faultArmed.CompareAndSwap(true, false) {
		return errInjected
	}
	return nil
}

func openDB(dir string, mc, ms, thr int64) *NoKV.DB {
	opt := NoKV.NewDefaultOptions()
	opt.WorkDir = dir
	opt.FS = vfs.NewFaultFS(vfs.OSFS{}, faultHook)
	opt.DetectConflicts = true
	opt.MaxBatchCount = mc
	opt.MaxBatchSize = ms
	opt.ValueThreshold = thr
	opt.EnableWALWatchdog = false
	opt.ValueLogGCInterval = 0
	opt.WriteHotKeyLimit = 0
	opt.HotWriteBurstThreshold = 0
	opt.HotRingEnabled = false
	opt.ValueLogBucketCount = 1
	opt.WriteBatchWait = 0
	// small footprints: Open costs ~0.3 s with the default caches and compactor pool
	opt.MemTableSize = 1 << 20
	opt.ValueLogFileSize = 4 << 10 // small segments: rotation is routine, and `vlogfault` can force one
	opt.NumCompactors = 1
	opt.BlockCacheSize = 0
	opt.BloomCacheSize = 0
	return NoKV.Open(opt)
}

func (e *engine) Exec(ops []string) (out []string) {
	out = make([]string, len(ops))
	dir, err := os.MkdirTemp("", "verif_mvcc")
	if err != nil {
		panic(err)
	}
	var db *NoKV.DB
	defer func() {
		if db != nil {
			db.Close()
		}
		os.RemoveAll(dir)
	}()
	txns := map[string]*NoKV.Txn{}
	pmc, pms, pthr := int64(64), int64(1<<20), int64(1024)
	one := func(op string) (res string) {
		defer func() {
			if r := recover(); r != nil {
				res = fmt.Sprintf("panic:%v", r)
				res = strings.ReplaceAll(res, " ", "_")
			}
		}()
		f := strings.Fields(op)
		if f[0] == "open" {
			if db != nil {
				return "bad-op"
			}
			pmc, _ = strconv.ParseInt(f[1], 10, 64)
			pms, _ = strconv.ParseInt(f[2], 10, 64)
			pthr, _ = strconv.ParseInt(f[3], 10, 64)
			db = openDB(dir, pmc, pms, pthr)
			return "ok"
		}
		if db == nil {
			// a case without an `open` line (shrinking may drop it) runs with the defaults the
			// Lean driver also starts from
			db = openDB(dir, 64, 1<<20, 1024)
		}
		switch f[0] {
		case "begin":
			t := db.NewTransaction(f[2] == "u")
			txns[f[1]] = t
			return fmt.Sprintf("ok %d", t.ReadTs())
		case "get":
			t := txns[f[1]]
			if t == nil {
				return "notxn"
			}
			item, err := t.Get(hlib.UnHex(f[2]))
			if err != nil {
				return errClass(err)
			}
			return "val:" + hlib.Hex(item.Entry().Value)
		case "set":
			t := txns[f[1]]
			if t == nil {
				return "notxn"
			}
			v := hlib.UnHex(f[3])
			if v == nil {
				v = []byte{}
			}
			return errClass(t.Set(hlib.UnHex(f[2]), v))
		case "del":
			t := txns[f[1]]
			if t == nil {
				return "notxn"
			}
			return errClass(t.Delete(hlib.UnHex(f[2])))
		case "commit":
			t := txns[f[1]]
			if t == nil {
				return "notxn"
			}
			return errClass(t.Commit())
		case "commitwith":
			t := txns[f[1]]
			if t == nil {
				return "notxn"
			}
			ch := make(chan error, 1)
			t.CommitWith(func(err error) { ch <- err })
			return errClass(<-ch)
		case "discard":
			t := txns[f[1]]
			if t == nil {
				return "notxn"
			}
			t.Discard()
			return "ok"
		case "scan":
			t := txns[f[1]]
			if t == nil {
				return "notxn"
			}
			return scanAll(t)
		case "reopen":
			// Close + Open of the same directory; every handle of the old instance is dropped
			if err := db.Close(); err != nil {
				return "other:" + strings.ReplaceAll(err.Error(), " ", "_")
			}
			txns = map[string]*NoKV.Txn{}
			db = openDB(dir, pmc, pms, pthr)
			return "ok"
		case "vlogfault":
			// the stall value is ValueThreshold+8 copies of the tag byte: long enough to go to the
			// value log whatever the threshold (the Lean driver builds the same value)
			n2, _ := strconv.Atoi(f[1])
			tb := hlib.UnHex(f[2])
			tag := make([]byte, pthr+8)
			for i := range tag {
				tag[i] = tb[0]
			}
			return vlogFault(db, txns, n2, tag)
		case "applyfault", "tornread":
			tb := hlib.UnHex(f[1])
			tag := make([]byte, pthr+8)
			for i := range tag {
				tag[i] = tb[0]
			}
			if f[0] == "applyfault" {
				return applyFault(db, txns, tag)
			}
			return tornRead(db, txns, tag)
		case "close":
			if err := db.Close(); err != nil {
				return "other:" + strings.ReplaceAll(err.Error(), " ", "_")
			}
			return "ok"
		case "versions":
			if db.IsClosed() {
				return "closed"
			}
			t := db.NewTransaction(false)
			it := t.NewKeyIterator(hlib.UnHex(f[1]), NoKV.IteratorOptions{})
			var parts []string
			for it.Rewind(); it.Valid(); it.Next() {
				en := it.Item().Entry()
				parts = append(parts, fmt.Sprintf("%d=%s", en.Version, hlib.Hex(en.Value)))
			}
			it.Close()
			t.Discard()
			if len(parts) == 0 {
				return "-"
			}
			return strings.Join(parts, ",")
		}
		return "bad-op"
	}
	for i, op := range ops {
		out[i] = one(op)
	}
	e.cases++
	return out
}

// scanAll = NewIterator(IteratorOptions{}) + Rewind + Next to the end + Close
func scanAll(t *NoKV.Txn) (res string) {
	defer func() {
		if r := recover(); r != nil {
			msg := fmt.Sprint(r)
			switch {
			case strings.Contains(msg, "already been discarded"):
				res = "discarded"
			case strings.Contains(msg, "DB Closed"):
				res = "closed"
			default:
				res = "panic:" + strings.ReplaceAll(msg, " ", "_")
			}
		}
	}()
	it := t.NewIterator(NoKV.IteratorOptions{})
	var parts []string
	for it.Rewind(); it.Valid(); it.Next() {
		en := it.Item().Entry()
		parts = append(parts, hlib.Hex(en.Key)+"="+hlib.Hex(en.Value))
	}
	it.Close()
	if len(parts) == 0 {
		return "scan:-"
	}
	return "scan:" + strings.Join(parts, ",")
}

// vlogFault is the directed scenario of the `vlogfault n2 tag` line (see Driver/Mvcc.lean):
// transactions 97 (inline value `tag`), 98 (100-byte value) and 99 (n2-byte value, larger than a
// value-log segment, so it needs a new segment) are begun and written; 97 is committed with the
// commit worker parked behind db.Lock() (the worker takes it after writing a request to the LSM),
// so that 98 and 99, queued meanwhile, are picked up as one batch; the creation of the next
// value-log segment then fails once.  `tag` (97's value) must be at least ValueThreshold long:
// its value-log append is how the harness sees that the worker has taken the stall batch.
func vlogFault(db *NoKV.DB, txns map[string]*NoKV.Txn, n2 int, tag []byte) string {
	stallWritten := false
	mk := func(id string, k, v []byte) *NoKV.Txn {
		t := db.NewTransaction(true)
		txns[id] = t
		if err := t.Set(k, v); err == nil && id == "97" {
			stallWritten = true
		}
		return t
	}
	rep := func(b byte, n int) []byte {
		out := make([]byte, n)
		for i := range out {
			out[i] = b
		}
		return out
	}
	stall := mk("97", []byte("st"), tag)
	t1 := mk("98", []byte("t1"), rep(99, 100))
	t2 := mk("99", []byte("t2"), rep(100, n2))
	c0, c1, c2 := make(chan error, 1), make(chan error, 1), make(chan error, 1)
	wait := func(ch chan error) string {
		select {
		case err := <-ch:
			return errClass(err)
		case <-time.After(20 * time.Second):
			return "timeout"
		}
	}
	if db.IsClosed() {
		stall.CommitWith(func(err error) { c0 <- err })
		t1.CommitWith(func(err error) { c1 <- err })
		t2.CommitWith(func(err error) { c2 <- err })
		return wait(c0) + "," + wait(c1) + "," + wait(c2)
	}
	// The worker writes a batch to the value log, then takes db.Lock() (applyRequests) before it
	// touches the LSM: once the active value-log offset has moved, the batch holding the stall
	// request is formed and the worker is (or will be) parked on the lock we hold.
	fid0, off0, _ := db.VerifVlogActive(0)
	db.Lock()
	stall.CommitWith(func(err error) { c0 <- err })
	parked := !stallWritten // nothing to park on when the stall write was refused (limits)
	deadline := time.Now().Add(5 * time.Second)
	if parked {
		deadline = time.Now()
	}
	for time.Now().Before(deadline) {
		if fid, off, err := db.VerifVlogActive(0); err == nil && (fid != fid0 || off != off0) {
			parked = true
			break
		}
		time.Sleep(200 * time.Microsecond)
	}
	t1.CommitWith(func(err error) { c1 <- err })
	t2.CommitWith(func(err error) { c2 <- err })
	faultArmed.Store(true)
	db.Unlock()
	res := wait(c0) + "," + wait(c1) + "," + wait(c2)
	unfired := faultArmed.Swap(false)
	if !parked {
		res += "!not-parked"
	}
	_ = unfired
	return res
}

func waitErr(ch chan error) error {
	select {
	case err := <-ch:
		return err
	case <-time.After(20 * time.Second):
		return errors.New("timeout")
	}
}

// parkWorker holds db.Lock() and commits `stall` (value >= ValueThreshold): the worker writes the
// batch to the value log and then blocks on db.Lock() before it touches the LSM.  Returns false
// (lock released again) when the stall request never showed up in the value log.
func parkWorker(db *NoKV.DB, stall *NoKV.Txn, c0 chan error) bool {
	fid0, off0, _ := db.VerifVlogActive(0)
	db.Lock()
	stall.CommitWith(func(err error) { c0 <- err })
	deadline := time.Now().Add(5 * time.Second)
	for time.Now().Before(deadline) {
		if fid, off, err := db.VerifVlogActive(0); err == nil && (fid != fid0 || off != off0) {
			return true
		}
		time.Sleep(200 * time.Microsecond)
	}
	db.Unlock()
	return false
}

// applyFault is the directed scenario of the `applyfault tag` line (see Driver/Mvcc.lean):
// transactions 94 (stall), 95 and 96 are begun and written; with the worker parked on 94, the
// queue receives 95, then a poisoned raw request (empty internal key: lsm.SetBatch refuses it),
// then 96 — one batch.  95 is applied and answers ok; the poisoned request fails and 96, queued
// behind it in the batch, is never applied and must report the error.
func applyFault(db *NoKV.DB, txns map[string]*NoKV.Txn, tag []byte) string {
	okSet := map[string]bool{}
	mk := func(id string, k, v []byte) *NoKV.Txn {
		t := db.NewTransaction(true)
		txns[id] = t
		okSet[id] = t.Set(k, v) == nil
		return t
	}
	stall := mk("94", []byte("sa"), tag)
	a := mk("95", []byte("a1"), []byte("A"))
	b := mk("96", []byte("b1"), []byte("B"))
	c0, c1, c2 := make(chan error, 1), make(chan error, 1), make(chan error, 1)
	cls := func(err error) string {
		s := errClass(err)
		if strings.HasPrefix(s, "other:") {
			return "iofail"
		}
		return s
	}
	if db.IsClosed() || !okSet["94"] {
		stall.CommitWith(func(err error) { c0 <- err })
		r0 := cls(waitErr(c0))
		a.CommitWith(func(err error) { c1 <- err })
		r1 := cls(waitErr(c1))
		b.CommitWith(func(err error) { c2 <- err })
		return r0 + "," + r1 + "," + cls(waitErr(c2))
	}
	if !parkWorker(db, stall, c0) {
		return "not-parked"
	}
	a.CommitWith(func(err error) { c1 <- err })
	q0 := db.VerifQueueLen()
	poison := make(chan error, 1)
	go func() { poison <- db.VerifQueueRawWrite(nil, []byte("x")) }()
	for i := 0; i < 20000 && db.VerifQueueLen() == q0; i++ {
		time.Sleep(100 * time.Microsecond)
	}
	queued := db.VerifQueueLen() != q0
	b.CommitWith(func(err error) { c2 <- err })
	db.Unlock()
	res := cls(waitErr(c0)) + "," + cls(waitErr(c1)) + "," + cls(waitErr(c2))
	if perr := waitErr(poison); perr == nil || !queued {
		res += "!poison-not-refused"
	}
	return res
}

// tornRead is the directed scenario of the `tornread tag` line: transaction 93 writes two keys
// and is committed with the worker parked between the value-log write and the LSM apply (it owns
// its commit timestamp, nothing of it is visible yet).  A read-only (91) and an update (92)
// transaction are begun meanwhile in goroutines (NewTransaction waits for the commit), each reads
// the first key at once and the second key after the commit was released and acknowledged:
// both reads of a reader must see the commit, or neither.
func tornRead(db *NoKV.DB, txns map[string]*NoKV.Txn, tag []byte) string {
	c := db.NewTransaction(true)
	txns["93"] = c
	ok1 := c.Set([]byte("p1"), tag) == nil
	_ = c.Set([]byte("p2"), []byte("Q"))
	c0 := make(chan error, 1)
	rd := func(t *NoKV.Txn, k string) string {
		item, err := t.Get([]byte(k))
		if err != nil {
			return errClass(err)
		}
		return "val:" + hlib.Hex(item.Entry().Value[:1])
	}
	type res struct {
		t      *NoKV.Txn
		v1, v2 string
	}
	applied := make(chan struct{})
	reader := func(update bool, out chan res) {
		t := db.NewTransaction(update)
		v1 := rd(t, "p1")
		<-applied
		out <- res{t, v1, rd(t, "p2")}
	}
	o1, o2 := make(chan res, 1), make(chan res, 1)
	parked := false
	if !db.IsClosed() && ok1 {
		parked = parkWorker(db, c, c0)
	} else {
		c.CommitWith(func(err error) { c0 <- err })
	}
	go reader(false, o1)
	go reader(true, o2)
	time.Sleep(40 * time.Millisecond)
	if parked {
		db.Unlock()
	}
	r0 := errClass(waitErr(c0))
	close(applied)
	get := func(ch chan res, id string) string {
		select {
		case r := <-ch:
			txns[id] = r.t
			return r.v1 + "," + r.v2
		case <-time.After(20 * time.Second):
			return "timeout"
		}
	}
	return r0 + ";" + get(o1, "91") + ";" + get(o2, "92")
}

func (e *engine) Extra() map[string]any { return map[string]any{"property": *prop} }

// augmentCfg completes the driver's cfg line: `check` passes only the facts listed in the
// property's own `expected` table; the model must nevertheless run with the value extracted
// from the current tree for every other fact of the engine (C03 and C04 share one model), and
// the driver must know which property's specification to print.
func augmentCfg(line, prop string) string {
	have := map[string]bool{}
	for _, t := range strings.Fields(line) {
		if i := strings.IndexByte(t, '='); i > 0 {
			have[t[:i]] = true
		}
	}
	if line == "" {
		line = "cfg"
	}
	var fx struct {
		Facts map[string]string `json:"facts"`
	}
	for _, p := range []string{"work/facts_mvcc.json", filepath.Join(filepath.Dir(os.Args[0]), "..", "work", "facts_mvcc.json")} {
		if buf, err := os.ReadFile(p); err == nil && json.Unmarshal(buf, &fx) == nil {
			break
		}
	}
	names := make([]string, 0, len(fx.Facts))
	for k := range fx.Facts {
		names = append(names, k)
	}
	sort.Strings(names)
	for _, k := range names {
		if !have[k] {
			line += " " + k + "=" + fx.Facts[k]
		}
	}
	if !have["prop"] {
		line += " prop=" + prop
	}
	return line
}

func main() {
	p := "C03"
	for i, a := range os.Args {
		if (a == "-prop" || a == "--prop") && i+1 < len(os.Args) {
			p = os.Args[i+1]
		}
	}
	seen := false
	for i, a := range os.Args {
		if (a == "-cfg" || a == "--cfg") && i+1 < len(os.Args) {
			os.Args[i+1] = augmentCfg(os.Args[i+1], p)
			seen = true
		}
	}
	if !seen {
		os.Args = append(os.Args, "-cfg", augmentCfg("", p))
	}
	// every case opens a real DB, and every recorded mismatch is delta-debugged with up to 400
	// re-executions: keep at most 4 of each kind so that a run on a broken tree ends in minutes
	for i, a := range os.Args {
		if (a == "-max-mismatches" || a == "--max-mismatches") && i+1 < len(os.Args) {
			if n, err := strconv.Atoi(os.Args[i+1]); err == nil && n > 4 {
				os.Args[i+1] = "4"
			}
		}
	}
	hlib.Main("mvcc", &engine{})
}

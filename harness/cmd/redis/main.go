// Correspondence harness for the Redis engine: C31 (RESP parser) and C29 (gateway commands).
//
// `cmd/nokv-redis` is package main and cannot be imported, so the harness builds the real
// binary from the current tree (tag verif) and drives it from outside:
//
//   - C29, and the `conn` ops of C31, talk RESP over TCP to the real server running on the
//     embedded backend in a temporary work directory (address-space limit 32 GiB); a dead
//     child is the observable `crash`; allocation is read from the server's own
//     runtime.MemStats (expvar endpoint, -metrics-addr).
//   - the `parse` ops of C31 need parseRESP's result itself.  The harness injects one extra
//     file into package main with `go build -overlay` (hook/verif_redis_hooks.go.txt; nothing
//     in the repository is modified and the real functions are compiled unchanged); with
//     NOKV_VERIF_REDIS=parse the same binary loops the real parseRESP over byte streams given
//     on stdin.  That child runs under an 8 GiB address-space limit (= the model's memLimit);
//     if it dies the outcome is `unsafe:oom`.
package main

import (
	"bufio"
	_ "embed"
	"encoding/hex"
	"encoding/json"
	"flag"
	"fmt"
	"io"
	"net"
	"net/http"
	"os"
	"os/exec"
	"path/filepath"
	"runtime"
	"syscall"
	"strconv"
	"strings"
	"time"

	"verif/harness/hlib"
)

//go:embed hook/verif_redis_hooks.go.txt
var hookSrc []byte

var prop = flag.String("prop", "C31", "property: C31|C29")

// ---------------------------------------------------------------- building the real binary

var (
	tmpRoot string
	binPath string
)

func repoDir() string {
	if d := os.Getenv("VERIF_REPO"); d != "" {
		return d
	}
	return "/repo"
}

var propName = "C31"

func buildBinary() {
	var err error
	tmpRoot, err = os.MkdirTemp("", "verif-redis-")
	if err != nil {
		fatal("mktemp: %v", err)
	}
	// the hook source sits at a stable path so that go's build cache keeps the compiled package
	hookDir := filepath.Join(os.TempDir(), "verif-redis-hook")
	if wd, err := os.Getwd(); err == nil {
		if st, err := os.Stat(filepath.Join(wd, "work")); err == nil && st.IsDir() {
			hookDir = filepath.Join(wd, "work", "redis_hook")
		}
	}
	os.MkdirAll(hookDir, 0o755)
	hook := filepath.Join(hookDir, "verif_redis_hooks.go")
	if old, err := os.ReadFile(hook); err != nil || string(old) != string(hookSrc) {
		if err := os.WriteFile(hook, hookSrc, 0o644); err != nil {
			fatal("%v", err)
		}
	}
	repo, _ := filepath.Abs(repoDir())
	ov := map[string]any{"Replace": map[string]string{filepath.Join(repo, "cmd", "nokv-redis", "verif_redis_hooks.go"): hook}}
	buf, _ := json.Marshal(ov)
	ovPath := filepath.Join(tmpRoot, "overlay.json")
	os.WriteFile(ovPath, buf, 0o644)
	// stable output path too: an up-to-date binary is not linked again (the link alone takes seconds)
	binPath = filepath.Join(hookDir, "nokv-redis-verif-"+propName)
	cmd := exec.Command("go", "build", "-mod=mod", "-tags", "verif", "-overlay", ovPath, "-o", binPath, "./cmd/nokv-redis")
	cmd.Dir = repo
	cmd.Env = append(os.Environ(), "GOFLAGS=-mod=mod", "GOPROXY=off")
	out, err := cmd.CombinedOutput()
	if err != nil {
		fatal("building cmd/nokv-redis from %s failed: %v\n%s", repo, err, out)
	}
}

func fatal(format string, a ...any) {
	fmt.Fprintf(os.Stderr, "h_redis: "+format+"\n", a...)
	cleanup()
	os.Exit(2)
}

func cleanup() {
	if parser != nil {
		parser.kill()
	}
	if server != nil {
		server.kill()
	}
	if tmpRoot != "" && os.Getenv("H_REDIS_BIN") == "" {
		os.RemoveAll(tmpRoot)
	}
}

// ---------------------------------------------------------------- parse child (hook mode)

type parseChild struct {
	cmd *exec.Cmd
	in  io.WriteCloser
	out *bufio.Reader
}

var parser *parseChild

const parseLimitKB = 8 * 1024 * 1024 // 8 GiB = Redis.memLimit of the model

func startParser() *parseChild {
	cmd := exec.Command("sh", "-c", fmt.Sprintf("ulimit -v %d; exec %s", parseLimitKB, binPath))
	cmd.Env = append(os.Environ(), "NOKV_VERIF_REDIS=parse")
	cmd.SysProcAttr = &syscall.SysProcAttr{Pdeathsig: syscall.SIGKILL}
	in, _ := cmd.StdinPipe()
	outp, _ := cmd.StdoutPipe()
	cmd.Stderr = nil
	if err := cmd.Start(); err != nil {
		fatal("start parse child: %v", err)
	}
	return &parseChild{cmd: cmd, in: in, out: bufio.NewReaderSize(outp, 1<<20)}
}

// The binary needs ~0.4 s of package initialisation before it reads its first line, and a child
// is used for one hostile stream only, so a few warm children are kept ready.
var warm chan *parseChild

func nextParser() *parseChild {
	if warm == nil {
		warm = make(chan *parseChild, 4)
		go func() {
			runtime.LockOSThread() // Pdeathsig is tied to the spawning thread: keep it for good
			for {
				warm <- startParser()
			}
		}()
	}
	return <-warm
}

func (p *parseChild) kill() {
	p.in.Close()
	p.cmd.Process.Kill()
	go p.cmd.Wait()
}

var stats = map[string]int{}

// execParse: h is `<hex>` or `<hex> <size.size.…>` (the pieces in which the stream reaches the reader)
func execParse(h string) string {
	if parser == nil {
		parser = nextParser()
	}
	if _, err := io.WriteString(parser.in, h+"\n"); err != nil {
		parser.kill()
		parser = nil
		return "unsafe:oom end=oom f="
	}
	line, err := parser.out.ReadString('\n')
	if err != nil {
		// the child died while parsing: the runtime's fatal out-of-memory
		parser.kill()
		parser = nil
		stats["parse_child_deaths"]++
		return "unsafe:oom end=oom f="
	}
	line = strings.TrimRight(line, "\n")
	if strings.HasPrefix(line, "unsafe:mem") {
		// start the next stream from a fresh heap: the garbage never nears the limit, and a
		// second huge allocation in the same Go process is slow (seconds of runtime work)
		stats["parse_big_allocs"]++
		parser.kill()
		parser = nil
	}
	return line
}

// ---------------------------------------------------------------- real server child

type serverChild struct {
	cmd    *exec.Cmd
	addr   string
	maddr  string
	dir    string
	exited chan struct{}
}

var server *serverChild

const serverLimitKB = 32 * 1024 * 1024

func freePort() int {
	l, err := net.Listen("tcp", "127.0.0.1:0")
	if err != nil {
		fatal("listen: %v", err)
	}
	defer l.Close()
	return l.Addr().(*net.TCPAddr).Port
}

func startServer() *serverChild {
	dir, _ := os.MkdirTemp(tmpRoot, "db-")
	s := &serverChild{addr: fmt.Sprintf("127.0.0.1:%d", freePort()), maddr: fmt.Sprintf("127.0.0.1:%d", freePort()), dir: dir, exited: make(chan struct{})}
	s.cmd = exec.Command("sh", "-c", fmt.Sprintf("ulimit -v %d; exec %s -workdir %s -addr %s -metrics-addr %s", serverLimitKB, binPath, dir, s.addr, s.maddr))
	s.cmd.Env = append(os.Environ(), "NOKV_VERIF_REDIS=")
	s.cmd.SysProcAttr = &syscall.SysProcAttr{Pdeathsig: syscall.SIGKILL}
	s.cmd.Stdout = nil
	s.cmd.Stderr = nil
	if err := s.cmd.Start(); err != nil {
		fatal("start server: %v", err)
	}
	go func() { s.cmd.Wait(); close(s.exited) }()
	deadline := time.Now().Add(30 * time.Second)
	for {
		c, err := net.DialTimeout("tcp", s.addr, 200*time.Millisecond)
		if err == nil {
			c.Close()
			if _, ok := s.totalAlloc(); ok {
				break
			}
		}
		select {
		case <-s.exited:
			fatal("real server exited during start-up")
		default:
		}
		if time.Now().After(deadline) {
			fatal("real server did not come up")
		}
		time.Sleep(10 * time.Millisecond)
	}
	stats["server_starts"]++
	return s
}

func (s *serverChild) kill() {
	s.cmd.Process.Kill()
	<-s.exited
	os.RemoveAll(s.dir)
}

func (s *serverChild) alive() bool {
	select {
	case <-s.exited:
		return false
	default:
		return true
	}
}

var httpc = &http.Client{Timeout: 3 * time.Second}

func (s *serverChild) totalAlloc() (uint64, bool) {
	resp, err := httpc.Get("http://" + s.maddr + "/debug/vars")
	if err != nil {
		return 0, false
	}
	defer resp.Body.Close()
	var v struct {
		Memstats struct{ TotalAlloc uint64 } `json:"memstats"`
	}
	if err := json.NewDecoder(resp.Body).Decode(&v); err != nil {
		return 0, false
	}
	return v.Memstats.TotalAlloc, true
}

func ensureServer() *serverChild {
	if server != nil && !server.alive() {
		server.kill()
		server = nil
	}
	if server == nil {
		server = startServer()
	}
	return server
}

// execConn sends a raw byte stream on a fresh connection, half-closes, drains the replies and
// reports whether the server process survived and how much it allocated meanwhile.
func execConn(h string) string {
	data := hlib.UnHex(h)
	s := ensureServer()
	a0, ok := s.totalAlloc()
	if !ok {
		return "no-metrics"
	}
	c, err := net.DialTimeout("tcp", s.addr, 2*time.Second)
	if err != nil {
		return "dial-failed"
	}
	c.Write(data)
	if tc, ok := c.(*net.TCPConn); ok {
		tc.CloseWrite()
	}
	c.SetReadDeadline(time.Now().Add(10 * time.Second))
	io.Copy(io.Discard, c)
	c.Close()
	select {
	case <-s.exited:
		return "crash"
	case <-time.After(100 * time.Millisecond):
	}
	a1, ok := s.totalAlloc()
	if !ok {
		select {
		case <-s.exited:
			return "crash"
		case <-time.After(10 * time.Second):
			return "hung"
		}
	}
	if a1-a0 > 64*uint64(len(data))+(32<<20) {
		return "alive mem=big"
	}
	return "alive mem=ok"
}

// execZero sends frames that carry no command followed by an inline PING on a fresh connection.
// handleConn has to skip the former and answer the latter; a dead server process is `crash`.
func execZero(h string) string {
	data := append(hlib.UnHex(h), []byte("PING\r\n")...)
	s := ensureServer()
	c, err := net.DialTimeout("tcp", s.addr, 2*time.Second)
	if err != nil {
		return "dial-failed"
	}
	defer c.Close()
	c.Write(data)
	if tc, ok := c.(*net.TCPConn); ok {
		tc.CloseWrite()
	}
	c.SetReadDeadline(time.Now().Add(10 * time.Second))
	reply, _ := io.ReadAll(io.LimitReader(c, 4096))
	if string(reply) == "+PONG\r\n" {
		return "pong"
	}
	select {
	case <-s.exited:
		return "crash"
	case <-time.After(500 * time.Millisecond):
	}
	if _, ok := s.totalAlloc(); !ok {
		select {
		case <-s.exited:
			return "crash"
		case <-time.After(10 * time.Second):
			return "hung"
		}
	}
	return "reply:" + hlib.Hex(reply)
}

func parseSizes(s string) []int {
	var out []int
	for _, t := range strings.Split(s, ".") {
		if n, err := strconv.Atoi(t); err == nil && n > 0 {
			out = append(out, n)
		}
	}
	return out
}

// writeChunked sends data in pieces of the given sizes (cycling), each as its own TCP segment
// (TCP_NODELAY + a pause), so that the server's reader sees the request arrive in several reads.
func writeChunked(c net.Conn, data []byte, sizes []int) error {
	if len(sizes) == 0 {
		_, err := c.Write(data)
		return err
	}
	if tc, ok := c.(*net.TCPConn); ok {
		tc.SetNoDelay(true)
	}
	// at most ~300 segments per stream: scale tiny pieces up on long streams
	sum := 0
	for _, n := range sizes {
		sum += n
	}
	if pieces := len(data) * len(sizes) / sum; pieces > 300 {
		f := (pieces + 299) / 300
		scaled := make([]int, len(sizes))
		for i, n := range sizes {
			scaled[i] = n * f
		}
		sizes = scaled
	}
	for i := 0; len(data) > 0; i++ {
		n := sizes[i%len(sizes)]
		if n > len(data) {
			n = len(data)
		}
		if _, err := c.Write(data[:n]); err != nil {
			return err
		}
		data = data[n:]
		if len(data) > 0 {
			time.Sleep(400 * time.Microsecond)
		}
	}
	return nil
}

func cksum(b []byte) uint32 {
	var a uint64
	for _, x := range b {
		a = (a*31 + uint64(x)) % 4294967296
	}
	return uint32(a)
}

// execEcho sends ECHO/PING commands (inline or arrays, lines of any length) on a fresh connection
// of the real server, half-closes and canonicalises the reply stream: `pong`, `bulk<len>/<cksum>`,
// `err:<text>`.
func execEcho(h string, sizes string) string {
	data := hlib.UnHex(h)
	s := ensureServer()
	c, err := net.DialTimeout("tcp", s.addr, 2*time.Second)
	if err != nil {
		return "dial-failed"
	}
	defer c.Close()
	go func() {
		writeChunked(c, data, parseSizes(sizes))
		if tc, ok := c.(*net.TCPConn); ok {
			tc.CloseWrite()
		}
	}()
	c.SetReadDeadline(time.Now().Add(30 * time.Second))
	r := bufio.NewReaderSize(c, 1<<16)
	var out []string
	for {
		hdr, err := readReplyLine(r)
		if err != nil {
			break
		}
		switch {
		case hdr == "+PONG":
			out = append(out, "pong")
		case strings.HasPrefix(hdr, "$"):
			n, err := strconv.Atoi(hdr[1:])
			if err != nil || n < 0 {
				out = append(out, "odd:"+strings.ReplaceAll(hdr, " ", "_"))
				continue
			}
			buf := make([]byte, n+2)
			if _, err := io.ReadFull(r, buf); err != nil {
				out = append(out, "short-bulk")
				continue
			}
			out = append(out, fmt.Sprintf("bulk%d/%d", n, cksum(buf[:n])))
		case strings.HasPrefix(hdr, "-"):
			out = append(out, "err:"+strings.ReplaceAll(hdr[1:], " ", "_"))
		default:
			out = append(out, "odd:"+strings.ReplaceAll(hdr, " ", "_"))
		}
	}
	select {
	case <-s.exited:
		return "crash"
	case <-time.After(20 * time.Millisecond):
	}
	if len(out) == 0 {
		return "none"
	}
	return strings.Join(out, ",")
}

// ---------------------------------------------------------------- C29: commands over TCP

type client struct {
	c      net.Conn
	r      *bufio.Reader
	closed bool
	nonce  string
}

var nonceCounter int

func upperASCII(b []byte) string {
	out := make([]byte, len(b))
	for i, x := range b {
		if x >= 'a' && x <= 'z' {
			x -= 32
		}
		out[i] = x
	}
	return string(out)
}

// keyPositions mirrors which arguments `execute` hands to the backend as keys.
func keyPositions(args [][]byte) []int {
	var pos []int
	switch upperASCII(args[0]) {
	case "GET", "SET", "INCR", "DECR", "INCRBY", "DECRBY":
		if len(args) > 1 {
			pos = append(pos, 1)
		}
	case "DEL", "MGET", "EXISTS":
		for i := 1; i < len(args); i++ {
			pos = append(pos, i)
		}
	case "MSET":
		for i := 1; i < len(args); i += 2 {
			pos = append(pos, i)
		}
	}
	return pos
}

func encodeArray(args [][]byte) []byte {
	var b []byte
	b = append(b, '*')
	b = strconv.AppendInt(b, int64(len(args)), 10)
	b = append(b, '\r', '\n')
	for _, a := range args {
		b = append(b, '$')
		b = strconv.AppendInt(b, int64(len(a)), 10)
		b = append(b, '\r', '\n')
		b = append(b, a...)
		b = append(b, '\r', '\n')
	}
	return b
}

func readReplyLine(r *bufio.Reader) (string, error) {
	l, err := r.ReadString('\n')
	if err != nil {
		return "", err
	}
	return strings.TrimSuffix(strings.TrimSuffix(l, "\n"), "\r"), nil
}

func readBulkBody(r *bufio.Reader, hdr string) (string, error) {
	n, err := strconv.Atoi(hdr[1:])
	if err != nil {
		return "", fmt.Errorf("bad bulk header %q", hdr)
	}
	if n < 0 {
		return "nil", nil
	}
	buf := make([]byte, n+2)
	if _, err := io.ReadFull(r, buf); err != nil {
		return "", err
	}
	return hlib.Hex(buf[:n]), nil
}

func errKind(cmd, msg string) string {
	switch {
	case strings.Contains(msg, "wrong number of arguments"):
		return "wrongargs"
	case strings.Contains(msg, "unknown command"):
		return "unknown"
	case strings.Contains(msg, "syntax error"), strings.Contains(msg, "invalid expire time"):
		return "setopt"
	case strings.Contains(msg, "not an integer"):
		if cmd == "SET" {
			return "setopt"
		}
		return "notint"
	case strings.Contains(msg, "would overflow"):
		return "overflow"
	case strings.Contains(msg, "Key cannot be empty"):
		return "emptykey"
	}
	return "other:" + strings.ReplaceAll(msg, " ", "_")
}

// wire renders one command as a RESP array, keys prefixed with the connection's nonce
func (cl *client) wire(args [][]byte) []byte {
	send := make([][]byte, len(args))
	copy(send, args)
	for _, i := range keyPositions(args) {
		if len(args[i]) > 0 {
			send[i] = append([]byte(cl.nonce), args[i]...)
		}
	}
	return encodeArray(send)
}

func (cl *client) do(args [][]byte) string {
	if cl.closed {
		return "closed"
	}
	cl.c.SetDeadline(time.Now().Add(10 * time.Second))
	if _, err := cl.c.Write(cl.wire(args)); err != nil {
		cl.closed = true
		return "closed"
	}
	return cl.readReply(args)
}

// pipeline writes several commands back to back in chosen pieces and then reads one reply per command
func (cl *client) pipeline(cmds [][][]byte, sizes []int) string {
	if cl.closed {
		return strings.TrimSuffix(strings.Repeat("closed;", len(cmds)), ";")
	}
	var data []byte
	for _, a := range cmds {
		data = append(data, cl.wire(a)...)
	}
	cl.c.SetDeadline(time.Now().Add(60 * time.Second))
	go writeChunked(cl.c, data, sizes)
	out := make([]string, len(cmds))
	for i, a := range cmds {
		out[i] = cl.readReply(a)
	}
	return strings.Join(out, ";")
}

func (cl *client) readReply(args [][]byte) string {
	if cl.closed {
		return "closed"
	}
	hdr, err := readReplyLine(cl.r)
	if err != nil {
		cl.closed = true
		if err == io.EOF {
			return "closed"
		}
		return "read-error:" + strings.ReplaceAll(err.Error(), " ", "_")
	}
	if hdr == "" {
		return "empty-reply"
	}
	cmd := upperASCII(args[0])
	switch hdr[0] {
	case '+':
		if cmd == "QUIT" && hdr == "+OK" {
			// the server closes after +OK
			cl.c.SetReadDeadline(time.Now().Add(5 * time.Second))
			if _, err := cl.r.ReadByte(); err == io.EOF {
				cl.closed = true
				return "+OK/closed"
			}
			return "+OK/still-open"
		}
		return hdr
	case '-':
		return "-" + errKind(cmd, hdr[1:])
	case ':':
		return "int" + hdr
	case '$':
		b, err := readBulkBody(cl.r, hdr)
		if err != nil {
			return "bad-bulk"
		}
		if b == "nil" {
			return "nil"
		}
		return "bulk:" + b
	case '*':
		n, err := strconv.Atoi(hdr[1:])
		if err != nil || n < 0 {
			return "bad-array:" + hdr
		}
		items := make([]string, n)
		for i := range items {
			h, err := readReplyLine(cl.r)
			if err != nil || h == "" || h[0] != '$' {
				return "bad-array-item"
			}
			if items[i], err = readBulkBody(cl.r, h); err != nil {
				return "bad-array-item"
			}
		}
		return "arr:[" + strings.Join(items, ",") + "]"
	}
	return "unparsed:" + hdr
}

// ---------------------------------------------------------------- engine

type engine struct{ prop string }

func (e *engine) Rule() string {
	if e.prop == "C29" {
		return "C29: command sequences (8–40 commands) over 3 keys plus the empty key on one connection to the real server; values: integers at the int64 limits, blank/odd numerals, arbitrary bytes; ~18% of the steps are INCRBY/DECRBY pairs with stored value and delta both from {MinInt64, MinInt64+1, -1, 0, 1, MaxInt64-1, MaxInt64}; SET with NX/XX and EX/PX/EXAT/PXAT far in the past or future; values of 6000 bytes after small early arguments, MSETs and pipelines of small commands longer than 4 KiB and 64 KiB written to the socket in chosen pieces (cuts inside headers, between arguments, inside bulks, at 4095/4096/4097), one reply per command compared; non-trivial = a key is accessed again after it was given an expiry or written conditionally, or an INCR-family command answers an integer/overflow error"
	}
	return "C31: byte streams for parseRESP: well-formed arrays and inline commands, truncated/mutated frames, declared array and bulk lengths from -2^63 to 10^30 (small, 32 MiB–512 MiB, ≥ 32 GiB, > maxAlloc), random protocol bytes; inline commands and frame header lines of 4094–4098, 8 KiB±1 and 64 KiB±1 bytes (bufio's buffer sizes), also as ECHO/PING traffic over TCP to the real server with the exact replies compared; streams are delivered to parseRESP's 4096-byte bufio.Reader, and to the server's socket, in chosen pieces (1 byte, inside headers, between arguments, inside bulks, 4095/4096/4097), incl. pipelines > 4 KiB and > 64 KiB and commands whose last argument is 6000 bytes; every other case also sends zero-argument frames (`*0`, `*-1`, blank and white-space-only lines) plus PING to the real server over TCP (must answer +PONG); non-trivial = the stream is not a plain well-formed one (the parse ends with an error other than a clean EOF, or is unsafe)"
}

func (e *engine) Exec(ops []string) []string {
	out := make([]string, len(ops))
	var cl *client
	defer func() {
		if cl != nil && cl.c != nil {
			cl.c.Close()
		}
	}()
	for i, op := range ops {
		f := strings.Fields(op)
		switch {
		case (len(f) == 2 || len(f) == 3) && f[0] == "parse":
			t0 := time.Now()
			out[i] = execParse(strings.Join(f[1:], " "))
			stats["ms_parse"] += int(time.Since(t0).Milliseconds())
			stats["n_parse"]++
		case len(f) == 2 && f[0] == "conn":
			t0 := time.Now()
			out[i] = execConn(f[1])
			stats["ms_conn"] += int(time.Since(t0).Milliseconds())
			stats["n_conn"]++
		case (len(f) == 2 || len(f) == 3) && f[0] == "echo":
			sizes := ""
			if len(f) == 3 {
				sizes = f[2]
			}
			out[i] = execEcho(f[1], sizes)
			stats["n_echo"]++
		case len(f) == 2 && f[0] == "zero":
			out[i] = execZero(f[1])
			stats["n_zero"]++
		case len(f) >= 2 && (f[0] == "cmd" || f[0] == "pipe"):
			if cl == nil {
				s := ensureServer()
				c, err := net.DialTimeout("tcp", s.addr, 2*time.Second)
				if err != nil {
					out[i] = "dial-failed"
					continue
				}
				nonceCounter++
				cl = &client{c: c, r: bufio.NewReader(c), nonce: fmt.Sprintf("n%d:", nonceCounter)}
			}
			if f[0] == "pipe" {
				// pipe <sizes> <arg,arg,…;arg,…;…>
				if len(f) != 3 {
					out[i] = "bad-op"
					continue
				}
				var cmds [][][]byte
				for _, c := range strings.Split(f[2], ";") {
					var a [][]byte
					for _, h := range strings.Split(c, ",") {
						b := hlib.UnHex(h)
						if b == nil {
							b = []byte{}
						}
						a = append(a, b)
					}
					cmds = append(cmds, a)
				}
				out[i] = cl.pipeline(cmds, parseSizes(f[1]))
				stats["n_pipe"]++
				continue
			}
			args := make([][]byte, len(f)-1)
			for j, h := range f[1:] {
				args[j] = hlib.UnHex(h)
				if args[j] == nil {
					args[j] = []byte{}
				}
			}
			out[i] = cl.do(args)
		default:
			out[i] = "bad-op"
		}
	}
	return out
}

func (e *engine) Nontrivial(ops, impl, model, spec []string) bool {
	if e.prop == "C29" {
		marked := map[string]bool{}
		for i, op := range ops {
			f := strings.Fields(op)
			if len(f) < 2 || f[0] != "cmd" {
				continue
			}
			if impl[i] == "-notint" || impl[i] == "-overflow" {
				return true
			}
			name := upperASCII(hlib.UnHex(f[1]))
			for _, k := range f[2:] {
				if marked[k] && name != "ECHO" && name != "PING" {
					return true
				}
			}
			if name == "SET" && len(f) > 4 {
				marked[f[2]] = true
			}
		}
		return false
	}
	for i, op := range ops {
		if strings.HasPrefix(op, "parse ") && !strings.HasPrefix(impl[i], "safe end=err:eof") {
			return true
		}
		if strings.HasPrefix(op, "conn ") && impl[i] != "alive mem=ok" {
			return true
		}
	}
	return false
}

func (e *engine) Extra() map[string]any {
	m := map[string]any{}
	for k, v := range stats {
		m[k] = v
	}
	return m
}

func (e *engine) Gen(r *hlib.Rand, tier string) []string {
	if e.prop == "C29" {
		return genC29(r, tier)
	}
	return genC31(r, tier)
}

func main() {
	// hlib.Main parses the flags; -prop is ours, so peek at it first
	p := "C31"
	for i, a := range os.Args {
		if (a == "-prop" || a == "--prop") && i+1 < len(os.Args) {
			p = os.Args[i+1]
		}
	}
	propName = p
	if os.Getenv("H_REDIS_BIN") == "" {
		// supervisor: build the binary, run the harness proper as a child (hlib.Main may
		// os.Exit), then remove the scratch directory whatever happened.
		buildBinary()
		self, _ := os.Executable()
		cmd := exec.Command(self, os.Args[1:]...)
		cmd.Env = append(os.Environ(), "H_REDIS_BIN="+binPath, "H_REDIS_TMP="+tmpRoot)
		cmd.Stdin, cmd.Stdout, cmd.Stderr = os.Stdin, os.Stdout, os.Stderr
		cmd.SysProcAttr = &syscall.SysProcAttr{Pdeathsig: syscall.SIGKILL}
		err := cmd.Run()
		os.RemoveAll(tmpRoot)
		if ee, ok := err.(*exec.ExitError); ok {
			os.Exit(ee.ExitCode())
		} else if err != nil {
			fmt.Fprintln(os.Stderr, err)
			os.Exit(2)
		}
		return
	}
	binPath = os.Getenv("H_REDIS_BIN")
	tmpRoot = os.Getenv("H_REDIS_TMP")
	runtime.LockOSThread() // children carry Pdeathsig of this thread
	e := &engine{prop: p}
	hlib.Main("redis", e)
	if parser != nil {
		parser.kill()
	}
	for warm != nil {
		select {
		case p := <-warm:
			p.kill()
			continue
		default:
		}
		break
	}
	if server != nil {
		server.kill()
	}
}

var _ = hex.EncodeToString

package main

import (
	"fmt"
	"strconv"
	"strings"

	"verif/harness/hlib"
)

// ---------------------------------------------------------------- C31 generators

var wordPool = []string{"PING", "ECHO", "GET", "MGET", "EXISTS", "FOO", "ping", "x", "k0", "k1", "hello", "0", "-1", "a*b", "$5"}

func randArg(r *hlib.Rand) []byte {
	switch x := r.Intn(100); {
	case x < 40:
		return []byte(hlib.Pick(r, wordPool))
	case x < 50:
		return []byte{}
	case x < 85:
		n := r.Intn(12)
		b := make([]byte, n)
		for i := range b {
			b[i] = hlib.Pick(r, []byte{0, 10, 13, 32, '*', '$', 'a', 'z', '0', '9', 0x7f, 0x80, 0xc2, 0x85, 0xa0, 0xff})
		}
		return b
	case x < 97:
		n := 100 + r.Intn(3000)
		b := make([]byte, n)
		for i := range b {
			b[i] = byte('a' + r.Intn(26))
		}
		return b
	default:
		// straddles the 64 KiB first buffer of the repaired reader
		n := hlib.Pick(r, []int{65535, 65536, 65537, 131072, 131073, 200000})
		b := make([]byte, n)
		for i := range b {
			b[i] = byte('a' + i%26)
		}
		return b
	}
}

func wellFormedArray(r *hlib.Rand) []byte {
	n := r.Intn(6)
	if r.Chance(5) {
		n = 1000 + r.Intn(1500) // more elements than the repaired pre-allocation cap
		args := make([][]byte, n)
		for i := range args {
			args[i] = []byte{byte('a' + i%26)}
		}
		return encodeArray(args)
	}
	args := make([][]byte, n)
	for i := range args {
		args[i] = randArg(r)
	}
	return encodeArray(args)
}

func inlineCmd(r *hlib.Rand) []byte {
	n := 1 + r.Intn(4)
	var parts []string
	for i := 0; i < n; i++ {
		parts = append(parts, hlib.Pick(r, wordPool))
	}
	sep := " "
	if r.Chance(30) {
		sep = hlib.Pick(r, []string{"  ", "\t", " \v ", "\xc2\x85", "\xc2\xa0", "\xe2\x80\x83", "\xe3\x80\x80", "\f", "\xe2\x80", "\xc2"})
	}
	line := strings.Join(parts, sep)
	if r.Chance(15) {
		line = " " + line + " "
	}
	return []byte(line + "\r\n")
}

// hostile declared lengths; the bands keep clear of the places where the observable class
// depends on allocator rounding or on how much address space the runtime has already used
// (around 64*len+1MiB, around the 8 GiB child limit, around maxAlloc = 2^48).
func declaredLen(r *hlib.Rand, elemSize uint64) string {
	switch x := r.Intn(100); {
	case x < 12:
		return strconv.Itoa(-1 - r.Intn(3))
	case x < 16:
		return "-9223372036854775808"
	case x < 24:
		return hlib.Pick(r, []string{"+1", "01", "+0", "-0", "", "+", "-", "1 ", " 1", "1a", "0x10", "1_0", "9223372036854775808", "1000000000000000000000000000000", "-9223372036854775809"})
	case x < 40:
		return strconv.Itoa(r.Intn(2000))
	case x < 65:
		// 32 MiB .. 512 MiB requested
		lo, hi := uint64(32<<20)/elemSize, uint64(1<<29)/elemSize
		return strconv.FormatUint(lo+r.U64()%(hi-lo), 10)
	case x < 82:
		// 32 GiB .. 2^46 bytes requested: beyond the child's address space
		lo, hi := uint64(1<<35)/elemSize, uint64(1<<46)/elemSize
		return strconv.FormatUint(lo+r.U64()%(hi-lo), 10)
	default:
		// beyond maxAlloc
		return hlib.Pick(r, []string{"9223372036854775807", "4611686018427387904", strconv.FormatUint(uint64(1<<50)/elemSize*3, 10), "768614336404564651", "1000000000000000000"})
	}
}

func hostile(r *hlib.Rand) []byte {
	var b []byte
	if r.Bool() {
		b = append(b, wellFormedArray(r)...)
	}
	if r.Bool() {
		b = append(b, '*')
		b = append(b, declaredLen(r, 24)...)
		b = append(b, '\r', '\n')
		k := r.Intn(3)
		for i := 0; i < k; i++ {
			a := randArg(r)
			if len(a) > 64 {
				a = a[:64]
			}
			b = append(b, encodeArray([][]byte{a})[4:]...)
		}
	} else {
		n := 1 + r.Intn(3)
		b = append(b, '*')
		b = strconv.AppendInt(b, int64(n), 10)
		b = append(b, '\r', '\n')
		k := r.Intn(n)
		for i := 0; i < k; i++ {
			b = append(b, encodeArray([][]byte{[]byte(hlib.Pick(r, wordPool))})[4:]...)
		}
		b = append(b, '$')
		b = append(b, declaredLen(r, 1)...)
		b = append(b, '\r', '\n')
		m := r.Intn(20)
		for i := 0; i < m; i++ {
			b = append(b, byte('a'+i))
		}
		if r.Chance(20) {
			b = append(b, '\r', '\n')
		}
	}
	return b
}

var protoBytes = []byte{'*', '$', '\r', '\n', '\r', '\n', '0', '1', '2', '9', '-', '+', ' ', 'a', 'P', 0, 0xff, 0xc2, 0x85}

func genStream(r *hlib.Rand) []byte {
	switch x := r.Intn(100); {
	case x < 22:
		// well-formed frames only
		var b []byte
		for i, n := 0, 1+r.Intn(3); i < n; i++ {
			if r.Chance(70) {
				b = append(b, wellFormedArray(r)...)
			} else {
				b = append(b, inlineCmd(r)...)
			}
		}
		return b
	case x < 40:
		// truncated
		b := append(wellFormedArray(r), wellFormedArray(r)...)
		if len(b) > 0 {
			b = b[:r.Intn(len(b))]
		}
		return b
	case x < 55:
		// one byte changed / inserted / removed
		b := append(inlineCmd(r), wellFormedArray(r)...)
		if len(b) > 4096 {
			b = b[:4096]
		}
		i := r.Intn(len(b))
		switch r.Intn(3) {
		case 0:
			b[i] = hlib.Pick(r, protoBytes)
		case 1:
			b = append(b[:i], b[i+1:]...)
		default:
			b = append(b[:i], append([]byte{hlib.Pick(r, protoBytes)}, b[i:]...)...)
		}
		return b
	case x < 75:
		return hostile(r)
	default:
		n := r.Intn(40)
		b := make([]byte, n)
		for i := range b {
			b[i] = hlib.Pick(r, protoBytes)
		}
		return b
	}
}

var connBudget = 6

// delivery patterns: the sizes (cycling) of the pieces in which a stream reaches the reader
func delivery(r *hlib.Rand, total int) string {
	small := []string{"1", "2.3", "7", "1.13", "5.1.1", "3.4093", "1.4095", "16"}
	big := []string{"4095", "4096", "4097", "4096.1", "1500", "100.4000", "4090.3.3", "1448", "8192", "4095.4097", "600"}
	if total <= 1500 && r.Chance(60) {
		return hlib.Pick(r, small)
	}
	if r.Chance(20) && total > 2 {
		// one cut at a random position, the rest in one piece
		return strconv.Itoa(1+r.Intn(total-1)) + "." + strconv.Itoa(total)
	}
	return hlib.Pick(r, big)
}

func echoCmd(arg []byte) []byte { return encodeArray([][]byte{[]byte("ECHO"), arg}) }

// genChunkStream: well-formed ECHO/PING traffic that is not fully buffered when its parsing starts
func genChunkStream(r *hlib.Rand, tier string) []byte {
	var b []byte
	switch x := r.Intn(100); {
	case x < 25:
		// a small command, to be cut inside its header / between arguments / inside a bulk
		for i, n := 0, 1+r.Intn(3); i < n; i++ {
			b = append(b, echoCmd([]byte(hlib.Pick(r, wordPool)))...)
		}
	case x < 55:
		// small early arguments, a big last one
		b = append(b, echoCmd(filler(hlib.Pick(r, []int{4000, 4080, 4096, 6000, 9000, 70000}), r.Intn(26)))...)
		b = append(b, "PING\r\n"...)
	case x < 96:
		// a pipeline of small commands longer than the 4 KiB buffer
		for i, n := 0, 170+r.Intn(200); i < n; i++ {
			b = append(b, echoCmd([]byte(fmt.Sprintf("%s-%d", hlib.Pick(r, wordPool), i)))...)
			if i%17 == 0 {
				b = append(b, "PING\r\n"...)
			}
		}
	default:
		// … and longer than 64 KiB
		for i, n := 0, 3500+r.Intn(1000); i < n; i++ {
			b = append(b, echoCmd([]byte(fmt.Sprintf("v%d", i)))...)
		}
	}
	return b
}

// big frames that are only parsed (not executed): SET k <6000 bytes>, MSET with many pairs
func genBigFrame(r *hlib.Rand) []byte {
	if r.Bool() {
		return encodeArray([][]byte{[]byte("SET"), []byte("big"), filler(6000, r.Intn(26))})
	}
	args := [][]byte{[]byte("MSET")}
	for i, n := 0, 40+r.Intn(60); i < n; i++ {
		args = append(args, []byte(fmt.Sprintf("key%d", i)), filler(40+r.Intn(40), i))
	}
	return encodeArray(args)
}

// total line lengths (CR LF included) around the sizes of bufio's buffers
var lineLens = []int{4094, 4095, 4096, 4097, 4098, 4099, 5000, 8191, 8192, 8193, 65535, 65536, 65537}

func lineLen(r *hlib.Rand) int {
	if r.Chance(15) {
		return 3000 + r.Intn(9000)
	}
	return hlib.Pick(r, lineLens)
}

func filler(n int, seed int) []byte {
	b := make([]byte, n)
	for i := range b {
		b[i] = byte('a' + (i+seed)%26)
	}
	return b
}

// longInline: `<name> <word>\r\n` whose whole line is `total` bytes long
func longInline(name string, total, seed int) []byte {
	n := total - len(name) - 3
	if n < 1 {
		n = 1
	}
	return append(append([]byte(name+" "), filler(n, seed)...), '\r', '\n')
}

// paddedHeader: a decimal length left-padded with zeros to a line of `total` bytes (Atoi accepts it)
func paddedHeader(prefix byte, v, total int) []byte {
	d := strconv.Itoa(v)
	n := total - 3 - len(d)
	if n < 0 {
		n = 0
	}
	b := []byte{prefix}
	for i := 0; i < n; i++ {
		b = append(b, '0')
	}
	return append(append(b, d...), '\r', '\n')
}

// genLongLines: a stream of ECHO commands with very long lines, a PING after each
func genLongLines(r *hlib.Rand) []byte {
	var b []byte
	for i, n := 0, 1+r.Intn(2); i < n; i++ {
		switch r.Intn(4) {
		case 0, 1:
			b = append(b, longInline(hlib.Pick(r, []string{"ECHO", "echo"}), lineLen(r), r.Intn(26))...)
		case 2:
			// array header line padded to the size
			b = append(b, paddedHeader('*', 2, lineLen(r))...)
			b = append(b, "$4\r\nECHO\r\n$3\r\nabc\r\n"...)
		default:
			// bulk header line padded to the size
			b = append(b, "*2\r\n$4\r\nECHO\r\n"...)
			b = append(b, paddedHeader('$', 3, lineLen(r))...)
			b = append(b, "abc\r\n"...)
		}
		b = append(b, "PING\r\n"...)
	}
	return b
}

// frames that parse but carry no command: handleConn must skip every one of them
var zeroFrames = []string{"*0\r\n", "*-1\r\n", "\r\n", " \r\n", "\t \r\n", "  \t\r\n", "*-5\r\n", "*+0\r\n", "*00\r\n",
	"\r\r\n", "\v\f\r\n", "\xc2\xa0\r\n", "\xe2\x80\x83 \r\n", "*-9223372036854775808\r\n"}

func genZero(r *hlib.Rand) string {
	var b []byte
	// always at least one empty non-nil frame (`*0` or a white-space-only line)
	b = append(b, hlib.Pick(r, []string{"*0\r\n", " \r\n", "\t \r\n", "*00\r\n"})...)
	for i, n := 0, r.Intn(5); i < n; i++ {
		f := hlib.Pick(r, zeroFrames)
		if r.Bool() {
			b = append(b, f...)
		} else {
			b = append([]byte(f), b...)
		}
	}
	return "zero " + hlib.Hex(b)
}

func genC31(r *hlib.Rand, tier string) []string {
	var ops []string
	for i, n := 0, 1+r.Intn(3); i < n; i++ {
		b := genStream(r)
		if len(b) > 1 && r.Chance(35) {
			ops = append(ops, "parse "+hlib.Hex(b)+" "+delivery(r, len(b)))
		} else {
			ops = append(ops, "parse "+hlib.Hex(b))
		}
	}
	if r.Bool() {
		ops = append(ops, genZero(r))
	}
	if r.Chance(30) {
		// lines longer than bufio's buffer: through parseRESP and through the real server
		b := genLongLines(r)
		ops = append(ops, "parse "+hlib.Hex(b), "echo "+hlib.Hex(b))
	}
	if r.Chance(22) {
		// the same bytes whatever the pieces they arrive in: parseRESP behind its 4096-byte bufio.Reader
		// over a reader that delivers chosen pieces, and the real server over TCP written in those pieces
		b := genChunkStream(r, tier)
		d := delivery(r, len(b))
		ops = append(ops, "parse "+hlib.Hex(b)+" "+d, "echo "+hlib.Hex(b)+" "+d)
		g := append(genBigFrame(r), wellFormedArray(r)...)
		ops = append(ops, "parse "+hlib.Hex(g)+" "+delivery(r, len(g)))
	}
	// a few streams also go to the real server over TCP (does the process survive?)
	if connBudget > 0 && r.Chance(4) {
		connBudget--
		var b []byte
		switch r.Intn(4) {
		case 0:
			b = wellFormedArray(r)
			if len(b) > 4096 {
				b = b[:4096]
			}
		case 1:
			b = []byte("*" + strconv.FormatUint(uint64(16<<20)+r.U64()%(32<<20), 10) + "\r\n") // 384 MiB .. 1.1 GiB
		case 2:
			b = []byte("*1\r\n$" + strconv.FormatUint(uint64(1<<29)+r.U64()%(1<<29), 10) + "\r\n")
		default:
			b = []byte("*" + hlib.Pick(r, []string{"9223372036854775807", "100000000000000", "4611686018427387904"}) + "\r\n")
		}
		ops = append(ops, "conn "+hlib.Hex(b))
	}
	return ops
}

// ---------------------------------------------------------------- C29 generators

var c29Keys = [][]byte{[]byte("k0"), []byte("k1"), []byte("k2")}

var c29Values = []string{
	"", " ", "  ", "\t", "0", "1", "-1", "5", "007", "+5", "-0", "-007", "00", "abc", "12a", " 12", "12 ", "-", "+",
	"9223372036854775807", "9223372036854775806", "-9223372036854775808", "-9223372036854775807",
	"9223372036854775808", "-9223372036854775809", "99999999999999999999", "1e3", "0x10", "1_0", "\xff", "v",
}

var c29Deltas = []string{
	"1", "-1", "0", "5", "-5", "9223372036854775807", "-9223372036854775808", "-9223372036854775807", "9223372036854775806",
	"9223372036854775808", "+3", "007", "-0", "", " 1", "abc", "1.5",
}

func hx(s string) string { return hlib.Hex([]byte(s)) }

func mixCase(r *hlib.Rand, s string) string {
	switch r.Intn(6) {
	case 0:
		return strings.ToLower(s)
	case 1:
		b := []byte(s)
		i := r.Intn(len(b))
		b[i] = strings.ToLower(string(b[i]))[0]
		return string(b)
	}
	return s
}

func c29Key(r *hlib.Rand) string {
	if r.Chance(3) {
		return "-"
	}
	return hlib.Hex(hlib.Pick(r, c29Keys))
}

func c29Value(r *hlib.Rand) string {
	if r.Chance(8) {
		return hx(strconv.FormatInt(int64(r.U64()), 10))
	}
	return hx(hlib.Pick(r, c29Values))
}

// expiry options: relative ones far in the future, absolute ones decades away from now on
// either side, plus every kind of invalid argument
func c29Expiry(r *hlib.Rand) []string {
	kind := hlib.Pick(r, []string{"EX", "PX", "EXAT", "PXAT"})
	var arg string
	switch x := r.Intn(100); {
	case x < 22:
		arg = hlib.Pick(r, []string{"0", "-1", "-9223372036854775808", "abc", "", "1.5", "+100000", "0100000", "9223372036854775808"})
	case x < 60:
		// future
		switch kind {
		case "EX":
			arg = hlib.Pick(r, []string{"100000", "86400", "9223372036"})
		case "PX":
			arg = hlib.Pick(r, []string{"100000000", "86400000", "9223372036854"})
		case "EXAT":
			arg = hlib.Pick(r, []string{"4102444800", "9223372036854775"})
		default:
			arg = hlib.Pick(r, []string{"4102444800000", "9223372036854775807"})
		}
	default:
		// past (absolute kinds only)
		switch kind {
		case "EXAT":
			arg = hlib.Pick(r, []string{"1", "1000", "1500000000"})
		case "PXAT":
			arg = hlib.Pick(r, []string{"1", "999", "1000", "1500", "1500000000000"})
		case "EX":
			arg = "100000"
		default:
			arg = "100000000"
		}
	}
	return []string{hx(mixCase(r, kind)), hx(arg)}
}

// the int64 boundary set: stored values and deltas of INCRBY/DECRBY pairs are drawn from it
var c29Boundary = []string{"-9223372036854775808", "-9223372036854775807", "-1", "0", "1", "9223372036854775806", "9223372036854775807"}

// genPipe: small commands written back to back in chosen pieces: a few (cut anywhere, even byte by
// byte), more than 4 KiB, or more than 64 KiB of them
func genPipe(r *hlib.Rand, tier string) string {
	n := 2 + r.Intn(6)
	switch x := r.Intn(100); {
	case x < 45:
		n = 150 + r.Intn(200)
	case x < 49:
		n = 2500 + r.Intn(1000)
	}
	var cmds []string
	total := 0
	// long pipelines spread their writes over 48 keys: the engine throttles a key after 128
	// consecutive writes ("hot key write throttled"), which is outside this property
	pk := func() string {
		if n <= 50 {
			return hlib.Hex(hlib.Pick(r, c29Keys))
		}
		return hx(fmt.Sprintf("p%d", r.Intn(48)))
	}
	for i := 0; i < n; i++ {
		k := pk()
		var parts []string
		switch r.Intn(7) {
		case 0, 1:
			parts = []string{hx("SET"), k, hx(fmt.Sprintf("val%d", i))}
		case 2:
			parts = []string{hx("GET"), k}
		case 3:
			parts = []string{hx("INCRBY"), k, hx(hlib.Pick(r, []string{"1", "-1", "7", "abc"}))}
		case 4:
			parts = []string{hx("EXISTS"), k, pk()}
		case 5:
			parts = []string{hx("MGET"), k, pk()}
		default:
			parts = []string{hx("SET"), k, hx(strconv.Itoa(i)), hx("NX")}
		}
		for _, p := range parts {
			total += len(p)/2 + 8
		}
		cmds = append(cmds, strings.Join(parts, ","))
	}
	return "pipe " + delivery(r, total) + " " + strings.Join(cmds, ";")
}

func genC29(r *hlib.Rand, tier string) []string {
	n := 8 + r.Intn(33)
	var ops []string
	add := func(parts ...string) { ops = append(ops, "cmd "+strings.Join(parts, " ")) }
	for i := 0; i < n; i++ {
		if r.Chance(5) {
			// small early arguments, a 6000-byte last one (larger than the connection's read buffer)
			k := hlib.Hex(hlib.Pick(r, c29Keys))
			add(hx("SET"), k, hlib.Hex(filler(6000, r.Intn(26))))
			add(hx("GET"), k)
			continue
		}
		if r.Chance(4) {
			// an MSET whose pairs add up to more than 4 KiB (at most 40 pairs: the engine refuses
			// transactions of 64 writes or more, "Txn is too big", which is outside this property)
			parts := []string{hx("MSET")}
			for j, m := 0, 30+r.Intn(11); j < m; j++ {
				parts = append(parts, hlib.Hex(hlib.Pick(r, c29Keys)), hlib.Hex(filler(140+r.Intn(80), j)))
			}
			add(parts...)
			add(hx("MGET"), hlib.Hex(c29Keys[0]), hlib.Hex(c29Keys[1]), hlib.Hex(c29Keys[2]))
			continue
		}
		if r.Chance(3) {
			ops = append(ops, genPipe(r, tier))
			continue
		}
		if r.Chance(18) {
			// boundary pair: a key holding a value at an int64 limit, then INCRBY/DECRBY by a delta at a limit
			k := hlib.Hex(hlib.Pick(r, c29Keys))
			add(hx("SET"), k, hx(hlib.Pick(r, c29Boundary)))
			for j, m := 0, 1+r.Intn(3); j < m; j++ {
				add(hx(mixCase(r, hlib.Pick(r, []string{"INCRBY", "DECRBY"}))), k, hx(hlib.Pick(r, c29Boundary)))
			}
			if r.Bool() {
				add(hx("GET"), k)
			}
			continue
		}
		switch x := r.Intn(100); {
		case x < 22:
			parts := []string{hx(mixCase(r, "SET")), c29Key(r), c29Value(r)}
			var opts [][]string
			if r.Chance(45) {
				opts = append(opts, []string{hx(mixCase(r, hlib.Pick(r, []string{"NX", "XX"})))})
			}
			if r.Chance(45) {
				opts = append(opts, c29Expiry(r))
			}
			if r.Chance(6) {
				opts = append(opts, []string{hx(hlib.Pick(r, []string{"NX", "XX", "KEEPTTL", "GET", "FOO", "EX", ""}))})
			}
			if r.Chance(5) {
				opts = append(opts, c29Expiry(r))
			}
			if len(opts) > 1 && r.Bool() {
				opts[0], opts[len(opts)-1] = opts[len(opts)-1], opts[0]
			}
			for _, o := range opts {
				parts = append(parts, o...)
			}
			add(parts...)
		case x < 25:
			// expiry arguments beyond what fits: the key state afterwards depends on the wall clock
			// in the implementation, so these only ever go to a key nothing else touches
			kind, arg := "EX", hlib.Pick(r, []string{"9223372036854776", "9223372036854775807", "10000000000"})
			if r.Bool() {
				kind, arg = "EXAT", hlib.Pick(r, []string{"9223372036854776", "9223372036854775807"})
			}
			add(hx("SET"), hx("ovf"), hx("v"), hx(kind), hx(arg))
		case x < 40:
			add(hx(mixCase(r, "GET")), c29Key(r))
		case x < 47:
			parts := []string{hx("DEL")}
			for j, m := 0, 1+r.Intn(3); j < m; j++ {
				parts = append(parts, c29Key(r))
			}
			add(parts...)
		case x < 53:
			parts := []string{hx("MGET")}
			for j, m := 0, 1+r.Intn(4); j < m; j++ {
				parts = append(parts, c29Key(r))
			}
			add(parts...)
		case x < 59:
			parts := []string{hx("MSET")}
			for j, m := 0, 1+r.Intn(3); j < m; j++ {
				parts = append(parts, c29Key(r), c29Value(r))
			}
			if r.Chance(8) {
				parts = append(parts, c29Key(r))
			}
			add(parts...)
		case x < 64:
			parts := []string{hx("EXISTS")}
			for j, m := 0, 1+r.Intn(4); j < m; j++ {
				parts = append(parts, c29Key(r))
			}
			add(parts...)
		case x < 74:
			add(hx(mixCase(r, hlib.Pick(r, []string{"INCR", "DECR"}))), c29Key(r))
		case x < 88:
			add(hx(mixCase(r, hlib.Pick(r, []string{"INCRBY", "DECRBY"}))), c29Key(r), hx(hlib.Pick(r, c29Deltas)))
		case x < 91:
			switch r.Intn(4) {
			case 0:
				add(hx("PING"))
			case 1:
				add(hx("PING"), hx("hello"))
			case 2:
				add(hx("PING"), hx(""))
			default:
				add(hx("PING"), hx("a"), hx("b"))
			}
		case x < 93:
			if r.Bool() {
				add(hx("ECHO"), c29Value(r))
			} else {
				add(hx("ECHO"))
			}
		case x < 97:
			// arity errors and unknown commands
			name := hlib.Pick(r, []string{"GET", "SET", "DEL", "MGET", "MSET", "INCR", "DECR", "INCRBY", "DECRBY", "EXISTS", "FLUSHALL", "TTL", "APPEND", "getx"})
			parts := []string{hx(name)}
			for j, m := 0, r.Intn(4); j < m; j++ {
				parts = append(parts, c29Key(r))
			}
			add(parts...)
		default:
			if r.Chance(25) {
				add(hx(mixCase(r, "QUIT")))
			} else {
				add(hx("GET"), c29Key(r))
			}
		}
	}
	return ops
}

var _ = fmt.Sprintf

// C21, peer level (DESIGN §5 C21 (b)): a real raftstore/peer.Peer whose storage is the real
// WALStorage on a wal.Manager over vfs.FaultFS, with a recording transport.  Ops deliver vote
// requests / appends for rising terms, optionally while writes to *.wal fail; at every crash the
// directory image (kernel view) is reopened and every vote grant / append ack the peer sent in
// the ended incarnation must be covered by the recovered hard state and log.
package main

import (
	"fmt"
	"math"
	"os"
	"strings"
	"sync"
	"sync/atomic"

	"github.com/feichai0017/NoKV/manifest"
	myraft "github.com/feichai0017/NoKV/raft"
	"github.com/feichai0017/NoKV/raftstore/engine"
	"github.com/feichai0017/NoKV/raftstore/peer"
	"github.com/feichai0017/NoKV/vfs"
	"github.com/feichai0017/NoKV/wal"

	"verif/harness/hlib"
)

type recorder struct {
	mu   sync.Mutex
	sent []myraft.Message
}

func (r *recorder) Send(m myraft.Message) {
	r.mu.Lock()
	r.sent = append(r.sent, m)
	r.mu.Unlock()
}

func (r *recorder) take() []myraft.Message {
	r.mu.Lock()
	defer r.mu.Unlock()
	out := r.sent
	r.sent = nil
	return out
}

type peerCase struct {
	syncs    atomic.Int64 // writes to *.wal files seen so far (one per flushed storage call)
	failFrom atomic.Int64 // when > 0: the failFrom-th and later *.wal writes fail
	dir      string
	dirs     []string
	fail     atomic.Bool
	fs       vfs.FS
	wal      *wal.Manager
	man      *manifest.Manager
	p        *peer.Peer
	rec      *recorder
	term     uint64 // highest term this harness has used / recovered
	leadTerm uint64 // term in which peer 2 acts as leader (0 = none)
	last     uint64
	lastTerm uint64
}

func (c *peerCase) start(dir string) error { return c.startB(dir, true) }

// startB opens WAL + manifest + peer; bootstrap=false leaves the fresh peer unconfigured (the
// window between transport registration and Bootstrap, in which messages can already arrive).
func (c *peerCase) startB(dir string, bootstrap bool) error {
	if err := wal.VerifyDir(dir, nil); err != nil {
		return err
	}
	w, err := wal.Open(wal.Config{Dir: dir, FS: c.fs})
	if err != nil {
		return err
	}
	m, err := manifest.Open(dir, nil)
	if err != nil {
		w.Close()
		return err
	}
	p, err := peer.NewPeer(&peer.Config{
		RaftConfig: myraft.Config{ID: 1, ElectionTick: 10, HeartbeatTick: 1, MaxSizePerMsg: math.MaxUint64, MaxInflightMsgs: 256},
		Transport:  c.rec,
		Apply:      func([]myraft.Entry) error { return nil },
		WAL:        w,
		Manifest:   m,
		GroupID:    groupID,
	})
	if err != nil {
		w.Close()
		m.Close()
		return err
	}
	if bootstrap {
		if err := p.Bootstrap([]myraft.Peer{{ID: 1}, {ID: 2}, {ID: 3}}); err != nil {
			return err
		}
	}
	c.dir, c.wal, c.man, c.p = dir, w, m, p
	return nil
}

// probe reads hard state / last index / last term from the files through a second storage
func probe(w *wal.Manager, m *manifest.Manager) (hs myraft.HardState, last, lastTerm uint64, err error) {
	defer func() {
		if r := recover(); r != nil {
			err = fmt.Errorf("panic: %v", r)
		}
	}()
	ws, err := engine.OpenWALStorage(engine.WALStorageConfig{GroupID: groupID, WAL: w, Manifest: m})
	if err != nil {
		return
	}
	hs, _, _ = ws.InitialState()
	last, _ = ws.LastIndex()
	lastTerm, _ = ws.Term(last)
	return
}

func (c *peerCase) stop() {
	if c.p != nil {
		c.p.Close()
	}
	if c.wal != nil {
		c.wal.Close()
	}
	if c.man != nil {
		c.man.Close()
	}
	c.p, c.wal, c.man = nil, nil, nil
}

// crash: image of the directory while everything is open, reopen, verdict on the messages of
// the incarnation that just ended.
func (c *peerCase) crash() string {
	img, err := copyDir(c.dir)
	if err != nil {
		panic(err)
	}
	c.dirs = append(c.dirs, img)
	c.fail.Store(false)
	c.stop()
	sent := c.rec.take()
	c.failFrom.Store(0)
	var perr any
	var err2 error
	func() {
		defer func() { perr = recover() }()
		err2 = c.start(img)
	}()
	if perr != nil {
		return "crash=panic"
	}
	if err2 != nil {
		return "crash=err"
	}
	hs, last, lastTerm, err := probe(c.wal, c.man)
	if err != nil {
		return "crash=err"
	}
	verdict := "covered"
	for _, m := range sent {
		switch m.Type {
		case myraft.MsgRequestVoteResponse:
			if !m.Reject && !(hs.Term > m.Term || (hs.Term == m.Term && hs.Vote == m.To)) {
				verdict = "uncovered"
			}
		case myraft.MsgAppendResponse:
			if !m.Reject && !(hs.Term >= m.Term && last >= m.Index) {
				verdict = "uncovered"
			}
		}
	}
	if hs.Term > c.term || verdict == "covered" {
		// shadow follows what a restarted node knows
	}
	c.term = hs.Term
	if c.leadTerm > c.term {
		c.leadTerm = 0
	}
	c.last, c.lastTerm = last, lastTerm
	return "crash=ok " + verdict
}

func (c *peerCase) vote(from uint64) error {
	c.term++
	return c.p.Step(myraft.Message{Type: myraft.MsgRequestVote, From: from, To: 1, Term: c.term,
		LogTerm: c.lastTerm + 1000, Index: c.last + 1000})
}

func (c *peerCase) app(n int) error {
	if c.leadTerm != c.term || c.term == 0 {
		c.term++
		c.leadTerm = c.term
	}
	ents := make([]myraft.Entry, n)
	for i := range ents {
		ents[i] = myraft.Entry{Index: c.last + 1 + uint64(i), Term: c.term, Data: []byte{byte(i + 1)}}
	}
	err := c.p.Step(myraft.Message{Type: myraft.MsgAppend, From: 2, To: 1, Term: c.term,
		LogTerm: c.lastTerm, Index: c.last, Entries: ents, Commit: c.last})
	if err == nil {
		c.last += uint64(n)
		c.lastTerm = c.term
	}
	return err
}

func execPeer(ops []string) []string {
	out := make([]string, len(ops))
	root, err := os.MkdirTemp(tmpBase(), "raftwal-peer-")
	if err != nil {
		panic(err)
	}
	c := &peerCase{dirs: []string{root}, rec: &recorder{}}
	c.fs = vfs.NewFaultFS(vfs.OSFS{}, func(op vfs.Op, path string) error {
		if c.fail.Load() && (op == vfs.OpFileWrite || op == vfs.OpFileSync) && strings.HasSuffix(path, ".wal") {
			return fmt.Errorf("injected WAL write failure")
		}
		if op == vfs.OpFileWrite && strings.HasSuffix(path, ".wal") {
			n := c.syncs.Add(1)
			if f := c.failFrom.Load(); f > 0 && n >= f {
				return fmt.Errorf("injected WAL write failure")
			}
		}
		return nil
	})
	defer func() {
		c.stop()
		for _, d := range c.dirs {
			os.RemoveAll(d)
		}
	}()
	early := len(ops) > 0 && (strings.HasPrefix(ops[0], "p.early") || strings.HasPrefix(ops[0], "p.bootcrash"))
	if err := c.startB(root, !early); err != nil {
		panic(fmt.Sprintf("peer start: %v", err))
	}
	hs, last, lastTerm, err := probe(c.wal, c.man)
	if err != nil {
		panic(fmt.Sprintf("peer probe: %v", err))
	}
	c.term, c.last, c.lastTerm = hs.Term, last, lastTerm
	c.rec.take()
	dead := false
	stepRes := func(err error) string {
		if err != nil {
			return "err"
		}
		return "ok"
	}
	for i, op := range ops {
		t := strings.Fields(op)
		if dead {
			out[i] = "dead"
			continue
		}
		func() {
			defer func() {
				if r := recover(); r != nil {
					out[i] = "panic"
					dead = true
				}
			}()
			switch t[0] {
			case "p.bootcrash":
				// the storage fails in the middle of the very first (bootstrap) Ready: the first
				// storage call of handleReady is durable, the second one is not; then the process
				// crashes and restarts (NewPeer + Bootstrap)
				c.failFrom.Store(c.syncs.Load() + 2)
				err := c.p.Bootstrap([]myraft.Peer{{ID: 1}, {ID: 2}, {ID: 3}})
				r := c.crash()
				out[i] = r + " step=" + stepRes(err)
				if !strings.HasPrefix(r, "crash=ok") {
					dead = true
				}
			case "p.early":
				// a vote request reaches the peer before it is bootstrapped: the grant persists a
				// hard state although the log is still empty; the restart that follows runs
				// NewPeer + Bootstrap(peers), which must not reset that hard state
				c.term += 4
				out[i] = stepRes(c.vote(u(t[1])))
			case "p.vote":
				out[i] = stepRes(c.vote(u(t[1])))
			case "p.app":
				out[i] = stepRes(c.app(int(u(t[1]))))
			case "p.votefail", "p.appfail":
				c.fail.Store(true)
				var err error
				if t[0] == "p.votefail" {
					err = c.vote(u(t[1]))
				} else {
					err = c.app(int(u(t[1])))
				}
				r := c.crash()
				out[i] = r + " step=" + stepRes(err)
				if strings.HasPrefix(r, "crash=err") {
					dead = true
				}
			case "p.crash":
				out[i] = c.crash()
				if strings.HasPrefix(out[i], "crash=err") {
					dead = true
				}
			default:
				out[i] = "bad-op"
			}
		}()
	}
	return out
}

func genPeer(r *hlib.Rand) []string {
	n := 2 + r.Intn(7)
	var ops []string
	if r.Chance(30) {
		ops = append(ops, fmt.Sprintf("p.early %d", 2+r.Intn(2)), "p.crash")
	} else if r.Chance(10) {
		return []string{"p.bootcrash"}
	}
	for i := 0; i < n; i++ {
		switch x := r.Intn(100); {
		case x < 35:
			ops = append(ops, fmt.Sprintf("p.vote %d", 2+r.Intn(2)))
		case x < 70:
			ops = append(ops, fmt.Sprintf("p.app %d", 1+r.Intn(3)))
		case x < 80:
			ops = append(ops, "p.crash")
		case x < 90:
			ops = append(ops, fmt.Sprintf("p.votefail %d", 2+r.Intn(2)))
		default:
			ops = append(ops, fmt.Sprintf("p.appfail %d", 1+r.Intn(3)))
		}
	}
	switch r.Intn(3) {
	case 0:
		ops = append(ops, fmt.Sprintf("p.votefail %d", 2+r.Intn(2)))
	case 1:
		ops = append(ops, fmt.Sprintf("p.appfail %d", 1+r.Intn(3)))
	default:
		ops = append(ops, "p.crash")
	}
	return ops
}

// C36 correspondence: a real NoKV DB (commit pipeline, memtables, flush worker, manifest,
// recovery) with real WALStorage raft groups on the shared WAL and a real wal.Watchdog
// configured as db.go configures it, run explicitly.  Memtable flushes can be stalled through
// the public Options.FS hook (vfs.FaultFS blocks the creation of *.sst files while the gate is
// closed), rotation uses the verif hook DB.VerifRaftwalRotate.  `crash` syncs the WAL (so that
// the WAL write buffer — C21/C09's subject — plays no role), copies the directory as the
// kernel sees it, and reopens the copy.
package main

import (
	"fmt"
	"os"
	"path/filepath"
	"reflect"
	"sort"
	"strconv"
	"strings"
	"sync"
	"sync/atomic"
	"time"

	NoKV "github.com/feichai0017/NoKV"
	"github.com/feichai0017/NoKV/manifest"
	myraft "github.com/feichai0017/NoKV/raft"
	"github.com/feichai0017/NoKV/raftstore/engine"
	"github.com/feichai0017/NoKV/vfs"
	"github.com/feichai0017/NoKV/wal"

	"verif/harness/hlib"
)

type gate struct {
	mu           sync.Mutex
	closed       bool
	ch           chan struct{}
	failManifest atomic.Bool // writes to MANIFEST-* fail while set
}

func (g *gate) set(closed bool) {
	g.mu.Lock()
	defer g.mu.Unlock()
	if closed && !g.closed {
		g.closed = true
		g.ch = make(chan struct{})
	} else if !closed && g.closed {
		g.closed = false
		close(g.ch)
	}
}

func (g *gate) wait() {
	g.mu.Lock()
	ch, c := g.ch, g.closed
	g.mu.Unlock()
	if c {
		<-ch
	}
}

type c36db struct {
	dir     string
	db      *NoKV.DB
	g       *gate
	ws      map[uint64]*engine.WALStorage
	wsErr   map[uint64]bool
	last    map[uint64]uint64
	created []uint32 // every WAL segment id ever seen, in creation order
	seq     int
	dirs    []string
}

func (s *c36db) note(id uint32) {
	for _, c := range s.created {
		if c == id {
			return
		}
	}
	s.created = append(s.created, id)
	sort.Slice(s.created, func(i, j int) bool { return s.created[i] < s.created[j] })
}

func (s *c36db) open(dir string) (res string) {
	defer func() {
		if r := recover(); r != nil {
			res = "err:open-panic"
			if os.Getenv("C36_DEBUG") != "" {
				fmt.Fprintf(os.Stderr, "open panic: %v\n", r)
			}
		}
	}()
	s.g = &gate{}
	g := s.g
	opt := NoKV.NewDefaultOptions()
	opt.WorkDir = dir
	opt.EnableWALWatchdog = false // run explicitly
	opt.MemTableSize = 1 << 20
	opt.ValueLogBucketCount = 1
	opt.ValueLogFileSize = 1 << 20
	opt.HotRingEnabled = false
	opt.BlockCacheSize = 0
	opt.BloomCacheSize = 0
	opt.ValueThreshold = 1 << 20
	opt.NumLevelZeroTables = 4096 // keep the background compactor idle: it is not part of C36
	opt.FS = vfs.NewFaultFS(vfs.OSFS{}, func(op vfs.Op, path string) error {
		if strings.HasSuffix(path, ".sst") {
			g.wait()
		}
		if op == vfs.OpFileWrite && g.failManifest.Load() && strings.HasPrefix(filepath.Base(path), "MANIFEST") {
			return fmt.Errorf("injected manifest write failure")
		}
		return nil
	})
	s.db = NoKV.Open(opt)
	s.dir = dir
	s.ws = map[uint64]*engine.WALStorage{}
	s.wsErr = map[uint64]bool{}
	// the flushes of the recovered immutable memtables run in the background; the model orders
	// them before the raft storages are opened, so wait for them here (either order can happen)
	s.waitFlush()
	for _, gid := range []uint64{1, 2} {
		var ws *engine.WALStorage
		var err error
		func() {
			defer func() {
				if r := recover(); r != nil {
					err = fmt.Errorf("panic: %v", r)
				}
			}()
			ws, err = engine.OpenWALStorage(engine.WALStorageConfig{GroupID: gid, WAL: s.db.WAL(), Manifest: s.db.Manifest()})
		}()
		if err != nil {
			if os.Getenv("C36_DEBUG") != "" {
				fmt.Fprintf(os.Stderr, "group %d open: %v\n", gid, err)
			}
			s.wsErr[gid] = true
			continue
		}
		s.ws[gid] = ws
	}
	s.waitFlush()
	s.scan()
	return "ok"
}

func (s *c36db) waitFlush() {
	for i := 0; i < 4000; i++ {
		if s.db.VerifRaftwalFlushPending() == 0 {
			return
		}
		time.Sleep(500 * time.Microsecond)
	}
}

func (s *c36db) scan() []uint32 {
	files, _ := filepath.Glob(filepath.Join(s.dir, "*.wal"))
	var ids []uint32
	for _, f := range files {
		v, err := strconv.ParseUint(strings.TrimSuffix(filepath.Base(f), ".wal"), 10, 32)
		if err == nil {
			ids = append(ids, uint32(v))
			s.note(uint32(v))
		}
	}
	sort.Slice(ids, func(i, j int) bool { return ids[i] < ids[j] })
	return ids
}

// segs renders the existing segments as ordinals in creation order.
func (s *c36db) segs() string {
	ids := s.scan()
	var parts []string
	for _, id := range ids {
		for i, c := range s.created {
			if c == id {
				parts = append(parts, strconv.Itoa(i+1))
			}
		}
	}
	if len(parts) == 0 {
		return "segs=-"
	}
	return "segs=" + strings.Join(parts, ",")
}

func (s *c36db) closeDB() {
	if s.db == nil {
		return
	}
	s.g.set(false)
	func() {
		defer func() { recover() }()
		s.db.Close()
	}()
	s.db = nil
}

func key(k string) []byte { return []byte("key-" + k) }

const padKey = "0"

type c36Engine struct{}

func (e *c36Engine) Rule() string {
	return "C36: puts, raft appends/hard states/truncations of two groups on the shared WAL, memtable rotations with the flush stalled or not, explicit watchdog passes, crash images and reopen; non-trivial = some WAL segment was removed by one of the three removers and a crash + read/raft-state observation followed"
}

func (e *c36Engine) Exec(ops []string) []string {
	out := make([]string, len(ops))
	root, err := os.MkdirTemp(tmpBase(), "raftwal36-")
	if err != nil {
		panic(err)
	}
	s := &c36db{dirs: []string{root}, last: map[uint64]uint64{}}
	defer func() {
		s.closeDB()
		for _, d := range s.dirs {
			os.RemoveAll(d)
		}
	}()
	if r := s.open(root); r != "ok" {
		panic("initial open " + r)
	}
	dead := false
	for i, op := range ops {
		t := strings.Fields(op)
		if dead {
			out[i] = "dead"
			continue
		}
		switch t[0] {
		case "s.put":
			s.seq++
			if err := s.db.Set(key(t[1]), []byte(strconv.Itoa(s.seq))); err != nil {
				out[i] = "err"
			} else {
				out[i] = "ok"
			}
		case "s.get":
			ent, err := s.db.Get(key(t[1]))
			if err != nil || ent == nil {
				out[i] = "none"
			} else {
				out[i] = "v" + string(ent.Value)
			}
		case "s.rapp":
			gid := u(t[1])
			n := int(u(t[2]))
			ws := s.ws[gid]
			if ws == nil {
				out[i] = "nogroup"
				break
			}
			last, _ := ws.LastIndex()
			ents := make([]myraft.Entry, n)
			for j := range ents {
				ents[j] = myraft.Entry{Index: last + 1 + uint64(j), Term: 1, Data: []byte{1}}
			}
			out[i] = guard(func() error { return ws.Append(ents) })
		case "s.rover":
			// a new leader rewrites the last `back` entries of the group's log
			ws := s.ws[u(t[1])]
			if ws == nil {
				out[i] = "nogroup"
				break
			}
			back, n := u(t[2]), int(u(t[3]))
			last, _ := ws.LastIndex()
			first, _ := ws.FirstIndex()
			if back > last {
				out[i] = "skip"
				break
			}
			start := last + 1 - back
			if n == 0 {
				out[i] = "ok"
				break
			}
			if start < first {
				out[i] = "skip"
				break
			}
			ents := make([]myraft.Entry, n)
			for j := range ents {
				ents[j] = myraft.Entry{Index: start + uint64(j), Term: 2, Data: []byte{2}}
			}
			out[i] = guard(func() error { return ws.Append(ents) })
		case "s.rhs":
			ws := s.ws[u(t[1])]
			if ws == nil {
				out[i] = "nogroup"
				break
			}
			last, _ := ws.LastIndex()
			out[i] = guard(func() error { return ws.SetHardState(myraft.HardState{Term: 1, Vote: 1, Commit: last}) })
		case "s.rtrunc":
			ws := s.ws[u(t[1])]
			if ws == nil {
				out[i] = "nogroup"
				break
			}
			out[i] = guard(func() error { return ws.MaybeCompact(u(t[2])+1, 1) })
		case "s.rstate":
			gid := u(t[1])
			ws := s.ws[gid]
			if ws == nil {
				out[i] = "openfailed"
				break
			}
			first, _ := ws.FirstIndex()
			last, _ := ws.LastIndex()
			out[i] = fmt.Sprintf("last=%d first=%d", last, first)
		case "s.gate":
			s.g.set(t[1] == "closed")
			if t[1] != "closed" {
				s.waitFlush()
			}
			out[i] = s.segs()
		case "s.rotate":
			// a memtable is only ever rotated when it is full, i.e. non-empty
			s.seq++
			if err := s.db.Set(key(padKey), []byte(strconv.Itoa(s.seq))); err != nil {
				out[i] = "err"
				break
			}
			s.db.VerifRaftwalRotate()
			if !s.g.closed {
				s.waitFlush()
			}
			// the write that filled the memtable continues into the new one
			s.seq++
			if err := s.db.Set(key(padKey), []byte(strconv.Itoa(s.seq))); err != nil {
				out[i] = "err"
				break
			}
			out[i] = s.segs()
		case "s.flushfail":
			// a rotation whose flush fails when it logs the manifest edits
			s.g.set(false)
			s.waitFlush()
			s.g.failManifest.Store(true)
			s.seq++
			err1 := s.db.Set(key(padKey), []byte(strconv.Itoa(s.seq)))
			s.db.VerifRaftwalRotate()
			// as-is the failed task is released at once; a tree that retries keeps it pending:
			// give it a few attempts, then let the manifest work again and wait for the flush
			for i := 0; i < 300 && s.db.VerifRaftwalFlushPending() != 0; i++ {
				time.Sleep(500 * time.Microsecond)
			}
			s.g.failManifest.Store(false)
			s.waitFlush()
			s.seq++
			err2 := s.db.Set(key(padKey), []byte(strconv.Itoa(s.seq)))
			if err1 != nil || err2 != nil {
				out[i] = "err"
				break
			}
			out[i] = s.segs()
		case "s.watchdog":
			db := s.db
			cfg := wal.WatchdogConfig{
				Manager: db.WAL(), Interval: time.Hour, MinRemovable: 1, MaxBatch: 4,
				RaftPointers: func() map[uint64]manifest.RaftLogPointer { return db.Manifest().RaftPointerSnapshot() },
			}
			// mirror db.go: when the tree has WatchdogConfig.LogSegment it is wired to the manifest
			// log pointer (set through reflection so that the harness builds against both shapes)
			if f := reflect.ValueOf(&cfg).Elem().FieldByName("LogSegment"); f.IsValid() && f.CanSet() {
				f.Set(reflect.ValueOf(func() uint32 { return db.Manifest().Current().LogSegment }))
			}
			w := wal.NewWatchdog(cfg)
			w.RunOnce()
			out[i] = s.segs()
		case "s.segs":
			out[i] = s.segs()
		case "s.crash":
			if err := s.db.WAL().Sync(); err != nil {
				out[i] = "err:sync"
				break
			}
			img, err := copyDir(s.dir)
			if err != nil {
				panic(err)
			}
			s.dirs = append(s.dirs, img)
			s.closeDB()
			r := s.open(img)
			if r != "ok" {
				dead = true
				out[i] = r
				break
			}
			s.seq++
			if err := s.db.Set(key(padKey), []byte(strconv.Itoa(s.seq))); err != nil {
				out[i] = "err"
				break
			}
			out[i] = "ok " + s.segs()
		default:
			out[i] = "bad-op"
		}
	}
	return out
}

func (e *c36Engine) Gen(r *hlib.Rand, tier string) []string {
	n := 5 + r.Intn(14)
	var ops []string
	last := map[int]int{1: 0, 2: 0}
	closed := false
	nextKey := 0 // every put uses a fresh key: rewrites of one key across L0 tables are C01's subject
	for i := 0; i < n; i++ {
		g := 1 + r.Intn(2)
		if r.Chance(40) {
			g = 1
		}
		switch x := r.Intn(100); {
		case x < 18:
			nextKey++
			ops = append(ops, fmt.Sprintf("s.put %d", nextKey))
		case x < 38:
			k := 1 + r.Intn(3)
			ops = append(ops, fmt.Sprintf("s.rapp %d %d", g, k))
			last[g] += k
		case x < 43:
			ops = append(ops, fmt.Sprintf("s.rhs %d", g))
		case x < 46:
			// log conflict: rewrite the last 1..3 entries (usually after a rotation, so that the
			// rewritten tail lands in a later segment than the batch it belongs to)
			back, k := 1+r.Intn(3), 1+r.Intn(3)
			if r.Chance(60) {
				ops = append(ops, "s.rotate")
			}
			ops = append(ops, fmt.Sprintf("s.rover %d %d %d", g, back, k))
			if last[g] >= back {
				last[g] = last[g] - back + k
			}
		case x < 58:
			k := r.Intn(last[g] + 2)
			ops = append(ops, fmt.Sprintf("s.rtrunc %d %d", g, k))
		case x < 74:
			ops = append(ops, "s.rotate")
		case x < 82:
			closed = !closed
			if closed {
				ops = append(ops, "s.gate closed")
			} else {
				ops = append(ops, "s.gate open")
			}
		case x < 92:
			ops = append(ops, "s.watchdog")
		default:
			// (a crash in the middle of a case is left to the corpus: re-flushing recovered
			// memtables under an existing table id makes the background compactor panic
			// ("cs.tables is nil"), which kills the harness process — outside C36)
			ops = append(ops, "s.segs")
		}
	}
	if r.Chance(25) {
		// only as the last mutation: after a failed flush, later flushes move the manifest log
		// pointer past the stuck memtable (see the report: a separate defect of the recovery remover)
		ops = append(ops, "s.gate open", "s.flushfail")
		if r.Chance(50) {
			ops = append(ops, "s.watchdog")
		}
	}
	ops = append(ops, "s.segs", "s.crash", "s.rstate 1", "s.rstate 2")
	for k := 1; k <= nextKey; k++ {
		ops = append(ops, fmt.Sprintf("s.get %d", k))
	}
	return ops
}

func (e *c36Engine) Nontrivial(ops, impl, model, spec []string) bool {
	// some segment disappeared, and a crash + observation followed
	maxSeen, removed := 0, false
	for i := range ops {
		if j := strings.Index(impl[i], "segs="); j >= 0 {
			list := strings.Split(strings.TrimPrefix(impl[i][j:], "segs="), ",")
			first, _ := strconv.Atoi(list[0])
			cnt := len(list)
			lastID, _ := strconv.Atoi(list[len(list)-1])
			if lastID > maxSeen {
				maxSeen = lastID
			}
			if first > 1 || cnt < maxSeen {
				removed = true
			}
		}
		if removed && strings.HasPrefix(ops[i], "s.crash") {
			return true
		}
	}
	return false
}

// Correspondence harness for the raft-WAL engine.
//
//	C21: the real raftstore/engine.WALStorage on the real wal.Manager + manifest.Manager, driven
//	     by SetHardState / Append (with conflicting overwrites) / ApplySnapshot / MaybeCompact
//	     sequences interleaved with foreign WAL traffic, wal.Sync and rotations; `crash` copies the
//	     directory as the kernel sees it while the process is alive (= what a process crash
//	     keeps: everything written to the files, nothing that sits in a bufio buffer) and reopens
//	     the copy; `close` is a clean shutdown + reopen.
//	C36: see c36.go.
package main

import (
	"errors"
	"flag"
	"fmt"
	"io"
	"os"
	"path/filepath"
	"strconv"
	"strings"

	"github.com/feichai0017/NoKV/manifest"
	myraft "github.com/feichai0017/NoKV/raft"
	"github.com/feichai0017/NoKV/raftstore/engine"
	"github.com/feichai0017/NoKV/wal"
	raftpb "go.etcd.io/raft/v3/raftpb"

	"verif/harness/hlib"
)

var prop = flag.String("prop", "C21", "property: C21|C36")

const groupID = 1

// the smallest segment size wal.Open accepts: `fill` pads the active segment so that the next
// record does not fit and AppendRecords itself has to rotate (ensureCapacity inside its loop)
const (
	walSegmentSize = 64 << 10
	fillLeaves     = 4 // bytes left free by `fill`: less than any record (9 bytes of framing)
)

// tmpBase prefers a memory-backed directory: the harness observes what the *kernel* holds (a
// process crash, not a power loss), so fsync latency only costs time.
func tmpBase() string {
	if os.Getenv("VERIF_TMP_ON_DISK") == "" {
		if st, err := os.Stat("/dev/shm"); err == nil && st.IsDir() {
			return "/dev/shm"
		}
	}
	return ""
}

// ---------------------------------------------------------------- crash image

// copyDir copies every regular file of src into a fresh directory: the kernel's view of the
// files while the writing process is still alive.
func copyDir(src string) (string, error) {
	dst, err := os.MkdirTemp(tmpBase(), "raftwal-img-")
	if err != nil {
		return "", err
	}
	ents, err := os.ReadDir(src)
	if err != nil {
		return "", err
	}
	for _, e := range ents {
		if !e.Type().IsRegular() {
			continue
		}
		if e.Name() == "LOCK" {
			continue
		}
		in, err := os.Open(filepath.Join(src, e.Name()))
		if err != nil {
			return "", err
		}
		out, err := os.Create(filepath.Join(dst, e.Name()))
		if err != nil {
			in.Close()
			return "", err
		}
		_, err = io.Copy(out, in)
		in.Close()
		out.Close()
		if err != nil {
			return "", err
		}
	}
	return dst, nil
}

// ---------------------------------------------------------------- C21

type store struct {
	dir  string
	wal  *wal.Manager
	man  *manifest.Manager
	ws   *engine.WALStorage
	dead bool
	dirs []string
}

func (s *store) open(dir string) (string, error) {
	// the recovery checks DB.Open runs before the WAL is opened
	if err := manifest.Verify(dir, nil); err != nil && !os.IsNotExist(err) {
		return "err:manifest-verify", err
	}
	if err := wal.VerifyDir(dir, nil); err != nil {
		return "err:wal-verify", err
	}
	w, err := wal.Open(wal.Config{Dir: dir, SegmentSize: walSegmentSize})
	if err != nil {
		return "err:wal-open", err
	}
	m, err := manifest.Open(dir, nil)
	if err != nil {
		w.Close()
		return "err:manifest-open", err
	}
	var ws *engine.WALStorage
	func() {
		defer func() {
			if r := recover(); r != nil {
				err = fmt.Errorf("panic: %v", r)
			}
		}()
		ws, err = engine.OpenWALStorage(engine.WALStorageConfig{GroupID: groupID, WAL: w, Manifest: m})
	}()
	if err != nil {
		w.Close()
		m.Close()
		msg := err.Error()
		switch {
		case strings.Contains(msg, "manifest pointer"), os.IsNotExist(err), strings.Contains(msg, "no such file"):
			return "err:ptr", err
		case errors.Is(err, myraft.ErrSnapOutOfDate), strings.Contains(msg, "panic"):
			return "err:replay", err
		}
		return "err:other:" + strings.ReplaceAll(msg, " ", "_"), err
	}
	s.dir, s.wal, s.man, s.ws = dir, w, m, ws
	return "ok", nil
}

func (s *store) shutdown() {
	if s.wal != nil {
		s.wal.Close()
	}
	if s.man != nil {
		s.man.Close()
	}
	s.wal, s.man, s.ws = nil, nil, nil
}

func (s *store) cleanup() {
	s.shutdown()
	for _, d := range s.dirs {
		os.RemoveAll(d)
	}
}

func guard(f func() error) (out string) {
	defer func() {
		if r := recover(); r != nil {
			out = "panic"
		}
	}()
	if err := f(); err != nil {
		return "err"
	}
	return "ok"
}

func parseItems(s string) [][2]uint64 {
	if s == "-" {
		return nil
	}
	var out [][2]uint64
	for _, p := range strings.Split(s, ",") {
		ab := strings.Split(p, ":")
		a, _ := strconv.ParseUint(ab[0], 10, 64)
		b, _ := strconv.ParseUint(ab[1], 10, 64)
		out = append(out, [2]uint64{a, b})
	}
	return out
}

func u(s string) uint64 { v, _ := strconv.ParseUint(s, 10, 64); return v }

func (s *store) state() string {
	hs, _, err := s.ws.InitialState()
	if err != nil {
		return "err"
	}
	snap, _ := s.ws.Snapshot()
	first, _ := s.ws.FirstIndex()
	last, _ := s.ws.LastIndex()
	var b strings.Builder
	fmt.Fprintf(&b, "hs=%d/%d/%d snap=%d/%d last=%d log=", hs.Term, hs.Vote, hs.Commit, snap.Metadata.Index, snap.Metadata.Term, last)
	if last >= first {
		ents, err := s.ws.Entries(first, last+1, ^uint64(0))
		if err != nil {
			return "err:entries"
		}
		for i := len(ents) - 1; i >= 0; i-- {
			d := uint64(0)
			if len(ents[i].Data) > 0 {
				d = uint64(ents[i].Data[0])
			}
			fmt.Fprintf(&b, "%d:%d:%d;", ents[i].Index, ents[i].Term, d)
		}
	}
	fmt.Fprintf(&b, " first=%d", first)
	return b.String()
}

type c21Engine struct{}

func (e *c21Engine) Rule() string {
	return "C21 (85% storage level, 15% peer level: a live peer.Peer over a failing WAL with a recording transport, vote grants / append acks checked against the recovered state at every crash): SetHardState/Append(conflicting overwrites)/ApplySnapshot/MaybeCompact sequences on the real WALStorage, interleaved with foreign WAL records, wal.Sync and rotations, with crash images (kernel view of the directory) and clean restarts; non-trivial = a crash or restart happens after at least one raft record was persisted and the state is observed afterwards"
}

func (e *c21Engine) Exec(ops []string) []string {
	if len(ops) > 0 && strings.HasPrefix(ops[0], "p.") {
		return execPeer(ops)
	}
	out := make([]string, len(ops))
	root, err := os.MkdirTemp(tmpBase(), "raftwal-")
	if err != nil {
		panic(err)
	}
	s := &store{dirs: []string{root}}
	defer s.cleanup()
	if r, err := s.open(root); err != nil {
		panic(fmt.Sprintf("initial open: %s %v", r, err))
	}
	for i, op := range ops {
		t := strings.Fields(op)
		if s.dead {
			out[i] = "dead"
			continue
		}
		switch t[0] {
		case "hs":
			out[i] = guard(func() error {
				return s.ws.SetHardState(myraft.HardState{Term: u(t[1]), Vote: u(t[2]), Commit: u(t[3])})
			})
		case "app":
			items := parseItems(t[2])
			ents := make([]myraft.Entry, len(items))
			for j, it := range items {
				ents[j] = myraft.Entry{Index: u(t[1]) + uint64(j), Term: it[0], Data: []byte{byte(it[1])}}
			}
			out[i] = guard(func() error { return s.ws.Append(ents) })
		case "bigapp":
			// one entry whose encoded record is larger than a whole WAL segment
			items := parseItems(t[2])
			data := make([]byte, walSegmentSize+(6<<10))
			data[0] = byte(items[0][1])
			ents := []myraft.Entry{{Index: u(t[1]), Term: items[0][0], Data: data}}
			out[i] = guard(func() error { return s.ws.Append(ents) })
		case "bigsnap":
			snap := myraft.Snapshot{Data: make([]byte, walSegmentSize+(6<<10)),
				Metadata: raftpb.SnapshotMetadata{Index: u(t[1]), Term: u(t[2]), ConfState: raftpb.ConfState{Voters: []uint64{1}}}}
			out[i] = guard(func() error { return s.ws.ApplySnapshot(snap) })
		case "snap":
			snap := myraft.Snapshot{Metadata: raftpb.SnapshotMetadata{Index: u(t[1]), Term: u(t[2]), ConfState: raftpb.ConfState{Voters: []uint64{1}}}}
			out[i] = guard(func() error { return s.ws.ApplySnapshot(snap) })
		case "compact":
			out[i] = guard(func() error { return s.ws.MaybeCompact(u(t[1]), u(t[2])) })
		case "other":
			out[i] = guard(func() error { _, err := s.wal.Append([]byte("lsm-batch")); return err })
		case "fill":
			// one foreign record sized to leave fillLeaves bytes in the active segment
			room := int64(walSegmentSize) - s.wal.ActiveSize() - 9 - fillLeaves
			if room < 1 {
				out[i] = "full"
				break
			}
			out[i] = guard(func() error { _, err := s.wal.Append(make([]byte, room)); return err })
		case "sync":
			out[i] = guard(func() error { return s.wal.Sync() })
		case "rotate":
			out[i] = guard(func() error { return s.wal.Rotate() })
		case "send":
			out[i] = "ok"
		case "crash", "close":
			var img string
			var err error
			if t[0] == "close" {
				s.shutdown()
				img, err = copyDir(s.dir)
			} else {
				img, err = copyDir(s.dir)
				s.shutdown()
			}
			if err != nil {
				panic(err)
			}
			s.dirs = append(s.dirs, img)
			r, _ := s.open(img)
			out[i] = r
			if r != "ok" {
				s.dead = true
			}
		case "state":
			out[i] = s.state()
		default:
			out[i] = "bad-op"
		}
	}
	return out
}

func genItems(r *hlib.Rand, term uint64, n int) string {
	var parts []string
	for i := 0; i < n; i++ {
		parts = append(parts, fmt.Sprintf("%d:%d", term, 1+r.Intn(200)))
	}
	return strings.Join(parts, ",")
}

// Gen keeps a shadow of what a raft node would know (term, last index, commit, snapshot)
// so that most calls are ones a raft node could issue; a few percent are not.
func (e *c21Engine) Gen(r *hlib.Rand, tier string) []string {
	if r.Chance(15) {
		return genPeer(r)
	}
	n := 6 + r.Intn(22)
	var ops []string
	term, vote, commit, last, snapIdx, trunc := uint64(1), uint64(0), uint64(0), uint64(0), uint64(0), uint64(0)
	for i := 0; i < n; i++ {
		switch x := r.Intn(100); {
		case x < 18:
			if r.Chance(40) {
				term += uint64(1 + r.Intn(2))
				vote = uint64(r.Intn(4))
			}
			if last > commit && r.Chance(60) {
				commit += uint64(1 + r.Intn(int(last-commit)))
			}
			ops = append(ops, fmt.Sprintf("hs %d %d %d", term, vote, commit))
		case x < 48:
			// append at the end, or overwrite a conflicting (uncommitted) suffix at a higher term
			lo := commit
			if trunc > lo {
				lo = trunc
			}
			first := last + 1
			if last > lo && r.Chance(35) {
				first = lo + 1 + uint64(r.Intn(int(last-lo)))
				term++
			}
			if r.Chance(3) {
				first = last + 2 + uint64(r.Intn(2)) // gap: not a call raft would make
			} else if r.Chance(3) && trunc > 0 {
				first = 1 + uint64(r.Intn(int(trunc))) // below the compaction point
			}
			cnt := 1 + r.Intn(4)
			ops = append(ops, fmt.Sprintf("app %d %s", first, genItems(r, term, cnt)))
			if first <= last+1 && first > trunc {
				last = first + uint64(cnt) - 1
			}
		case x < 54:
			idx := last + uint64(r.Intn(4))
			if r.Chance(30) && commit > snapIdx {
				idx = commit
			}
			if r.Chance(8) {
				idx = uint64(r.Intn(int(snapIdx) + 1)) // out of date (or empty)
			}
			ops = append(ops, fmt.Sprintf("snap %d %d", idx, term))
			if idx > snapIdx {
				snapIdx, last, trunc = idx, idx, idx
				if commit < idx {
					commit = idx
				}
			}
		case x < 62:
			applied := commit
			if r.Chance(15) {
				applied = last + uint64(r.Intn(3))
			}
			retain := uint64(r.Intn(3))
			ops = append(ops, fmt.Sprintf("compact %d %d", applied, retain))
			if retain > 0 && applied > retain && applied-retain > trunc && applied-retain <= last {
				trunc = applied - retain
			}
		case x < 64:
			ops = append(ops, "other")
		case x < 66:
			// a record larger than the (64 KiB) segment: written whole into a fresh segment
			if r.Chance(70) {
				ops = append(ops, fmt.Sprintf("bigapp %d %s", last+1, genItems(r, term, 1)))
				last++
			} else {
				idx := last + 1 + uint64(r.Intn(3))
				ops = append(ops, fmt.Sprintf("bigsnap %d %d", idx, term))
				if idx > snapIdx {
					snapIdx, last, trunc = idx, idx, idx
					if commit < idx {
						commit = idx
					}
				}
			}
			if r.Chance(60) {
				ops = append(ops, hlib.Pick(r, []string{"crash", "close"}), "state")
			}
		case x < 70:
			// the next record will not fit: AppendRecords rotates inside its own loop
			ops = append(ops, "fill")
			if r.Chance(60) {
				ops = append(ops, hlib.Pick(r, []string{
					fmt.Sprintf("hs %d %d %d", term, vote, commit),
					fmt.Sprintf("app %d %s", last+1, genItems(r, term, 1)),
				}))
				if strings.HasPrefix(ops[len(ops)-1], "app") {
					last++
				}
				if r.Chance(50) {
					ops = append(ops, "crash", "state")
				}
			}
		case x < 78:
			ops = append(ops, "sync")
		case x < 83:
			ops = append(ops, "rotate")
		case x < 88:
			ops = append(ops, "send")
		case x < 93:
			if r.Chance(50) {
				ops = append(ops, "sync")
			}
			ops = append(ops, "crash", "state")
		case x < 96:
			ops = append(ops, "close", "state")
		default:
			ops = append(ops, "state")
		}
	}
	ops = append(ops, "state", "send")
	if r.Chance(40) {
		ops = append(ops, "sync")
	}
	ops = append(ops, hlib.Pick(r, []string{"crash", "crash", "close"}), "state")
	return ops
}

func (e *c21Engine) Nontrivial(ops, impl, model, spec []string) bool {
	if len(ops) > 0 && strings.HasPrefix(ops[0], "p.") {
		acted := false
		for i, op := range ops {
			if (strings.HasPrefix(op, "p.vote ") || strings.HasPrefix(op, "p.app ")) && impl[i] == "ok" {
				acted = true
			}
			if acted && strings.HasPrefix(impl[i], "crash=ok") {
				return true
			}
		}
		return false
	}
	persisted := false
	for i, op := range ops {
		k := strings.Fields(op)[0]
		if (k == "hs" || k == "app" || k == "snap" || k == "bigapp" || k == "bigsnap") && impl[i] == "ok" {
			persisted = true
		}
		if (k == "crash" || k == "close") && persisted && i+1 < len(ops) && strings.HasPrefix(ops[i+1], "state") {
			return true
		}
	}
	return false
}

func main() {
	// -prop is parsed together with hlib's flags
	for i, a := range os.Args {
		if a == "-prop" && i+1 < len(os.Args) {
			*prop = os.Args[i+1]
		}
	}
	myraft.SetLogger(hlib.QuietRaftLogger{})
	switch *prop {
	case "C36":
		hlib.Main("raftwal-C36", &c36Engine{})
	default:
		hlib.Main("raftwal-C21", &c21Engine{})
	}
}

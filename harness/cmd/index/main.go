// Correspondence harness for the memtable index engine (C07): the two real indexes
// (utils.Skiplist, utils.ART) get the same insert/search/seek/iterate lines as the Lean models
// and the reference ordered map.
package main

import (
	"encoding/binary"
	"fmt"
	"math"
	"os"
	"strconv"
	"strings"
	"sync"

	"github.com/feichai0017/NoKV/kv"
	"github.com/feichai0017/NoKV/utils"

	"verif/harness/hlib"
)

type memIndex interface {
	Add(*kv.Entry)
	Search([]byte) kv.ValueStruct
	NewIterator(*utils.Options) utils.Iterator
}

type engine struct {
	concCases, bigCases, prefixCases, conflateCases, wideCases int
	concLostInserts, concBatches, stressRounds, stressLost       int
}

func (e *engine) Rule() string {
	return "C07: random add/get/seek/scan sequences on a fresh Skiplist and a fresh ART; user keys from an alphabet with 00/ff, " +
		"byte-prefix pairs (k, k·00, k·ff, k·x), keys sharing >16-byte prefixes, fan-outs of up to 60 sibling bytes, " +
		"padding-conflated pairs (u@v, u·t0@v'), many versions per key (0,1,2,255,256,511,2^32,2^64-1), version ladders (3-7 versions sharing version-byte prefixes, read between the rungs), "+
		"sibling-subtree families (p·b·x keys, probes at absent keys just above/below/between populated subtrees), ~2% keys of 65535..70000 bytes, " +
		"2-4 concurrently inserting goroutines; non-trivial = at least 2 adds of prefix-related or equal user keys and at least one get/seek/scan answered non-empty"
}

func (e *engine) Extra() map[string]any {
	return map[string]any{"cases_with_concurrent_inserts": e.concCases, "cases_with_oversize_keys": e.bigCases,
		"cases_with_prefix_pairs": e.prefixCases,
		"conc_batches": e.concBatches, "conc_batches_art_lost_inserts_repaired": e.concLostInserts,
		"concstress_rounds": e.stressRounds, "concstress_art_lost_inserts": e.stressLost,
		"note": "counters include the re-executions of the shrinker; conc batches re-insert sequentially any key the ART lost under real concurrency (open finding art-concurrent-lost-insert) before the content is compared", "cases_with_padding_conflated_pairs": e.conflateCases, "cases_with_wide_fanout": e.wideCases}
}

var userKeys = [][]byte{
	{0x61}, {0x61, 0x00}, {0x61, 0x00, 0x00}, {0x61, 0xff}, {0x61, 0xff, 0xff}, {0x61, 0x61}, {0x61, 0x62}, {0x61, 0x62, 0x63},
	{0x62}, {0x00}, {0x00, 0x00}, {0xff}, {0xff, 0xff}, {0xff, 0x00}, {0x7a}, {0x61, 0x01}, {0x61, 0xfe},
}

var versions = []uint64{0, 1, 2, 3, 254, 255, 256, 511, 65535, 1 << 32, math.MaxUint64, math.MaxUint64 - 1, math.MaxUint64 - 255}

func longKey(r *hlib.Rand) []byte {
	// 18..24 shared bytes (longer than artMaxPrefixLen = 16) and a short varying tail
	n := 18 + r.Intn(7)
	k := make([]byte, n)
	for i := range k {
		k[i] = byte(0x40 + i%3)
	}
	switch r.Intn(4) {
	case 0:
	case 1:
		k = append(k, byte(r.Intn(3)))
	case 2:
		k = append(k, 0xff)
	default:
		k = k[:n-1-r.Intn(3)]
	}
	return k
}

func ukey(r *hlib.Rand) []byte {
	switch x := r.Intn(100); {
	case x < 70:
		return hlib.Pick(r, userKeys)
	case x < 85:
		return longKey(r)
	default:
		n := 1 + r.Intn(4)
		k := make([]byte, n)
		for i := range k {
			k[i] = hlib.Pick(r, []byte{0x00, 0x01, 0x61, 0x62, 0xfe, 0xff})
		}
		return k
	}
}

func ver(r *hlib.Rand) uint64 {
	if r.Chance(80) {
		return hlib.Pick(r, versions)
	}
	return r.U64()
}

// conflated returns (u', v') such that the raw internal key of (u', v') equals the raw key of
// (u, v) followed by n zero bytes — what keyByte's zero padding cannot tell apart.
func conflated(u []byte, v uint64, n int) ([]byte, uint64) {
	raw := kv.KeyWithTs(u, v)
	long := append(append([]byte{}, raw...), make([]byte, n)...)
	u2 := long[:len(long)-8]
	v2 := math.MaxUint64 - binary.BigEndian.Uint64(long[len(long)-8:])
	return append([]byte{}, u2...), v2
}

func (e *engine) Gen(r *hlib.Rand, tier string) []string {
	var ops []string
	val := 0
	nextVal := func() string { val++; return fmt.Sprintf("%04x", 0x1000+val) }
	arena := hlib.Pick(r, []int64{1 << 20, 1 << 20, 64 << 20, 4 << 20})
	ops = append(ops, fmt.Sprintf("init %d", arena))
	n := 6 + r.Intn(30)
	var added [][2]string // (ukey hex, version)
	addOp := func(u []byte, v uint64) {
		ops = append(ops, fmt.Sprintf("add %s %d %s", hlib.Hex(u), v, nextVal()))
		added = append(added, [2]string{hlib.Hex(u), strconv.FormatUint(v, 10)})
	}
	target := func() (string, string) {
		if len(added) > 0 && r.Chance(60) {
			a := hlib.Pick(r, added)
			if r.Chance(30) {
				// same user key, neighbouring version
				v, _ := strconv.ParseUint(a[1], 10, 64)
				return a[0], strconv.FormatUint(v+uint64(r.Intn(3))-1, 10)
			}
			return a[0], a[1]
		}
		return hlib.Hex(ukey(r)), strconv.FormatUint(ver(r), 10)
	}
	probeAt := func(u []byte, v uint64) {
		switch r.Intn(5) {
		case 0, 1:
			ops = append(ops, fmt.Sprintf("get %s %d", hlib.Hex(u), v))
		case 2, 3:
			ops = append(ops, fmt.Sprintf("seek asc %s %d %d", hlib.Hex(u), v, 1+r.Intn(4)))
		default:
			ops = append(ops, fmt.Sprintf("seek desc %s %d %d", hlib.Hex(u), v, 1+r.Intn(4)))
		}
	}
	// versionLadder: several versions of one user key whose version bytes share prefixes, so that the
	// suffix bytes of the internal key form inner nodes of their own; then reads between the rungs:
	// the newest visible version sits under a *greater sibling* of the subtree the exact descent
	// enters (e.g. versions 0x0105, 0x0205, 0x0210 read at 0x0200).
	versionLadder := func() {
		u := ukey(r)
		shift := uint(8 * (1 + r.Intn(4)))
		a := uint64(1 + r.Intn(200))
		lo := func() uint64 { return uint64(1 + r.Intn(0x30)) }
		vs := []uint64{(a+1)<<shift | lo(), (a+1)<<shift | lo() + 0x40, a<<shift | lo()}
		if r.Bool() {
			vs = append(vs, (a+2)<<shift|lo(), (a+1)<<shift|lo()+0x80)
		}
		if r.Bool() {
			vs = append(vs, a<<shift|lo()+0x40, (a-1)<<shift|lo())
		}
		for k := len(vs) - 1; k > 0; k-- {
			l := r.Intn(k + 1)
			vs[k], vs[l] = vs[l], vs[k]
		}
		for _, v := range vs {
			addOp(u, v)
		}
		reads := []uint64{(a + 1) << shift, (a+1)<<shift | 0x3f, (a+1)<<shift | 0x7f, a << shift, a<<shift | 0x3f, (a + 2) << shift, (a+2)<<shift - 1, (a + 3) << shift, (a - 1) << shift}
		for i := 0; i < 4+r.Intn(6); i++ {
			v := hlib.Pick(r, reads)
			if r.Chance(25) {
				v = (a-1)<<shift + r.U64()%(4<<shift)
			}
			probeAt(u, v)
		}
	}
	// subtreeFamily: user keys p·b·x below a few branch bytes b, and probes at absent keys just above
	// / below / between the populated subtrees (keys ab1 ab3 ac1 ad4, probes ab5 ab0 ab2 ac0 ae0 …).
	subtreeFamily := func() {
		pfx := ukey(r)
		v := ver(r)
		nb := 2 + r.Intn(3)
		b0 := byte(0x20 + r.Intn(0x80))
		type kx struct{ b, x byte }
		var have []kx
		for j := 0; j < nb; j++ {
			b := b0 + byte(j*(1+r.Intn(2)))
			nx := 1 + r.Intn(3)
			x := byte(0x30 + r.Intn(4))
			for k := 0; k < nx; k++ {
				have = append(have, kx{b, x})
				x += byte(1 + r.Intn(3))
			}
		}
		for k := len(have) - 1; k > 0; k-- {
			l := r.Intn(k + 1)
			have[k], have[l] = have[l], have[k]
		}
		mk := func(b, x byte) []byte { return append(append([]byte{}, pfx...), b, x) }
		for _, h := range have {
			addOp(mk(h.b, h.x), v)
			if r.Chance(20) {
				addOp(mk(h.b, h.x), v+1+uint64(r.Intn(3)))
			}
		}
		for i := 0; i < 5+r.Intn(8); i++ {
			h := hlib.Pick(r, have)
			var t []byte
			switch r.Intn(7) {
			case 0:
				t = mk(h.b, h.x+1)
			case 1:
				t = mk(h.b, 0xff)
			case 2:
				t = mk(h.b, h.x-1)
			case 3:
				t = mk(h.b, 0x00)
			case 4:
				t = append(append([]byte{}, pfx...), h.b)
			case 5:
				t = mk(h.b+1, 0x00)
			default:
				t = append(mk(h.b, h.x), byte(r.Intn(256)))
			}
			tv := v
			switch r.Intn(5) {
			case 0:
				tv = v + 1
			case 1:
				tv = v - 1
			case 2:
				tv = math.MaxUint64
			}
			probeAt(t, tv)
		}
	}
	kind := r.Intn(100)
	big := false
	if r.Chance(35) {
		versionLadder()
	}
	if r.Chance(35) {
		subtreeFamily()
	}
	for i := 0; i < n; i++ {
		switch x := r.Intn(100); {
		case x < 40:
			addOp(ukey(r), ver(r))
		case x < 46:
			// a padding-conflated pair, in either insertion order
			u, v := ukey(r), ver(r)
			u2, v2 := conflated(u, v, 1+r.Intn(3))
			if r.Bool() {
				addOp(u, v)
				addOp(u2, v2)
			} else {
				addOp(u2, v2)
				addOp(u, v)
			}
		case x < 50 && kind < 25:
			// wide fan-out below one prefix: grows Node4 -> 16 -> 48 -> 256
			base := ukey(r)
			m := 5 + r.Intn(56)
			v := ver(r)
			for j := 0; j < m; j++ {
				b := byte((j*37 + r.Intn(3)) % 256)
				addOp(append(append([]byte{}, base...), b), v)
			}
		case x < 52 && !big && kind >= 90:
			big = true
			ln := hlib.Pick(r, []int{65527, 65540, 65540, 70000})
			seed := r.Intn(200)
			v := ver(r)
			ops = append(ops, fmt.Sprintf("addbig %d %d %d %s", seed, ln, v, nextVal()))
			ops = append(ops, fmt.Sprintf("getbig %d %d %d", seed, ln, v))
			// the key the truncated node now answers for
			raw := kv.KeyWithTs(bigKey(seed, ln), v)
			if st := len(raw) % 65536; st > 8 && st != len(raw) {
				t := raw[:st]
				ops = append(ops, fmt.Sprintf("get %s %d", hlib.Hex(t[:st-8]), math.MaxUint64-binary.BigEndian.Uint64(t[st-8:])))
			}
		case x < 54:
			if r.Bool() {
				versionLadder()
			} else {
				subtreeFamily()
			}
		case x < 70:
			u, v := target()
			ops = append(ops, fmt.Sprintf("get %s %s", u, v))
		case x < 88:
			u, v := target()
			ops = append(ops, fmt.Sprintf("seek %s %s %s %d", hlib.Pick(r, []string{"asc", "desc"}), u, v, 1+r.Intn(6)))
		case x < 95:
			ops = append(ops, "scan "+hlib.Pick(r, []string{"asc", "desc"}))
		default:
			if kind >= 25 && kind < 60 {
				// 2-4 goroutines, disjoint and overlapping keys; a key always carries the same value
				g := 2 + r.Intn(3)
				var groups []string
				pool := [][3]string{}
				for j := 0; j < 4+r.Intn(12); j++ {
					u := ukey(r)
					v := uint64(r.Intn(200)) // low byte never ff: no padding-conflated pairs inside a concurrent batch
					dup := false
					for _, p := range pool {
						if p[0] == hlib.Hex(u) && p[1] == strconv.FormatUint(v, 10) {
							dup = true
						}
					}
					// ... and none with a key added earlier in the case (e.g. 61@0 vs 61ff@255): with a
					// padding-conflated partner the ART stores duplicates whose layout depends on the
					// insertion order, which a concurrent batch does not fix
					raw := kv.KeyWithTs(u, v)
					for _, a := range added {
						av, _ := strconv.ParseUint(a[1], 10, 64)
						if conflates(raw, kv.KeyWithTs(hlib.UnHex(a[0]), av)) {
							dup = true
						}
					}
					for _, p := range pool {
						pv, _ := strconv.ParseUint(p[1], 10, 64)
						if conflates(raw, kv.KeyWithTs(hlib.UnHex(p[0]), pv)) {
							dup = true
						}
					}
					if !dup {
						pool = append(pool, [3]string{hlib.Hex(u), strconv.FormatUint(v, 10), nextVal()})
					}
				}
				if len(pool) == 0 {
					ops = append(ops, "scan asc")
					continue
				}
				for _, p := range pool {
					added = append(added, [2]string{p[0], p[1]})
				}
				for j := 0; j < g; j++ {
					var items []string
					for _, p := range pool {
						if r.Chance(55) {
							items = append(items, p[0]+":"+p[1]+":"+p[2])
						}
					}
					if len(items) == 0 {
						p := pool[0]
						items = append(items, p[0]+":"+p[1]+":"+p[2])
					}
					// each goroutine inserts in its own order
					for k := len(items) - 1; k > 0; k-- {
						l := r.Intn(k + 1)
						items[k], items[l] = items[l], items[k]
					}
					groups = append(groups, strings.Join(items, ","))
				}
				ops = append(ops, "conc "+strings.Join(groups, ";"))
			} else {
				ops = append(ops, "scan asc")
			}
		}
	}
	ops = append(ops, "scan asc", "scan desc")
	return ops
}

// conflates: one raw key equals the other followed only by zero bytes (what keyByte's zero
// padding cannot tell apart)
func conflates(a, b []byte) bool {
	if len(a) > len(b) {
		a, b = b, a
	}
	if len(a) == len(b) || string(b[:len(a)]) != string(a) {
		return false
	}
	for _, x := range b[len(a):] {
		if x != 0 {
			return false
		}
	}
	return true
}

func bigKey(seed, n int) []byte {
	k := make([]byte, n)
	for i := range k {
		k[i] = byte((i*7 + seed) % 251)
	}
	return k
}

func keyStr(k []byte) string {
	if len(k) > 64 {
		return fmt.Sprintf("#%d:%s", len(k), hlib.Hex(k[len(k)-16:]))
	}
	return hlib.Hex(k)
}

func valStr(v kv.ValueStruct) string {
	if len(v.Value) == 0 {
		return "none"
	}
	return hlib.Hex(v.Value)
}

func guard(f func() string) (out string) {
	defer func() {
		if r := recover(); r != nil {
			out = "panic"
		}
	}()
	return f()
}

func iterate(x memIndex, asc bool, seek []byte, limit int) string {
	return guard(func() string {
		it := x.NewIterator(&utils.Options{IsAsc: asc})
		defer it.Close()
		if seek != nil {
			it.Seek(seek)
		} else {
			it.Rewind()
		}
		var parts []string
		for ; it.Valid() && (limit < 0 || len(parts) < limit); it.Next() {
			en := it.Item().Entry()
			parts = append(parts, keyStr(en.Key)+"="+hlib.Hex(en.Value))
			if len(parts) > 100000 {
				parts = append(parts, "runaway")
				break
			}
		}
		if len(parts) == 0 {
			return "-"
		}
		return strings.Join(parts, ",")
	})
}

func (e *engine) Exec(ops []string) []string {
	out := make([]string, len(ops))
	arena := int64(1 << 20)
	var skl *utils.Skiplist
	var art *utils.ART
	ensure := func() {
		if skl == nil {
			skl = utils.NewSkiplist(arena)
			art = utils.NewART(arena)
		}
	}
	both := func(f func(x memIndex) string) string {
		ensure()
		return "s=" + f(skl) + " a=" + f(art)
	}
	add := func(u []byte, v uint64, val []byte) string {
		ensure()
		k := kv.KeyWithTs(u, v)
		r1 := guard(func() string { skl.Add(&kv.Entry{Key: k, Value: val}); return "ok" })
		r2 := guard(func() string { art.Add(&kv.Entry{Key: append([]byte{}, k...), Value: val}); return "ok" })
		if r1 == "ok" && r2 == "ok" {
			return "ok"
		}
		return "s=" + r1 + " a=" + r2
	}
	sawConc, sawBig, prefixPair, conflatePair, wide := false, false, false, false, 0
	var seenKeys [][]byte
	note := func(u []byte, v uint64) {
		raw := kv.KeyWithTs(u, v)
		for _, o := range seenKeys {
			ob := o[:len(o)-8]
			if len(ob) != len(u) && (strings.HasPrefix(string(ob), string(u)) || strings.HasPrefix(string(u), string(ob))) {
				prefixPair = true
			}
			a, b := o, raw
			if len(a) > len(b) {
				a, b = b, a
			}
			if len(a) < len(b) && string(b[:len(a)]) == string(a) && strings.Trim(string(b[len(a):]), "\x00") == "" {
				conflatePair = true
			}
		}
		seenKeys = append(seenKeys, raw)
	}
	for i, op := range ops {
		f := strings.Fields(op)
		switch f[0] {
		case "init":
			arena, _ = strconv.ParseInt(f[1], 10, 64)
			out[i] = "ok"
		case "add":
			v, _ := strconv.ParseUint(f[2], 10, 64)
			u := hlib.UnHex(f[1])
			note(u, v)
			out[i] = add(u, v, hlib.UnHex(f[3]))
			wide++
		case "addbig":
			seed, _ := strconv.Atoi(f[1])
			n, _ := strconv.Atoi(f[2])
			v, _ := strconv.ParseUint(f[3], 10, 64)
			out[i] = add(bigKey(seed, n), v, hlib.UnHex(f[4]))
			sawBig = true
		case "get", "getbig":
			var u []byte
			var vs string
			if f[0] == "get" {
				u, vs = hlib.UnHex(f[1]), f[2]
			} else {
				seed, _ := strconv.Atoi(f[1])
				n, _ := strconv.Atoi(f[2])
				u, vs = bigKey(seed, n), f[3]
			}
			v, _ := strconv.ParseUint(vs, 10, 64)
			k := kv.KeyWithTs(u, v)
			out[i] = both(func(x memIndex) string { return guard(func() string { return valStr(x.Search(k)) }) })
		case "seek":
			v, _ := strconv.ParseUint(f[3], 10, 64)
			n, _ := strconv.Atoi(f[4])
			k := kv.KeyWithTs(hlib.UnHex(f[2]), v)
			out[i] = both(func(x memIndex) string { return iterate(x, f[1] == "asc", k, n) })
		case "scan":
			out[i] = both(func(x memIndex) string { return iterate(x, f[1] == "asc", nil, -1) })
		case "conc":
			ensure()
			sawConc = true
			groups := strings.Split(f[1], ";")
			for _, x := range []memIndex{skl, art} {
				var wg sync.WaitGroup
				start := make(chan struct{})
				for _, g := range groups {
					items := strings.Split(g, ",")
					wg.Add(1)
					go func(items []string, x memIndex) {
						defer wg.Done()
						defer func() { _ = recover() }()
						<-start
						for _, it := range items {
							p := strings.Split(it, ":")
							v, _ := strconv.ParseUint(p[1], 10, 64)
							x.Add(&kv.Entry{Key: kv.KeyWithTs(hlib.UnHex(p[0]), v), Value: hlib.UnHex(p[2])})
						}
					}(items, x)
				}
				close(start)
				wg.Wait()
			}
			e.concBatches++
			var present map[string]bool
			for _, g := range groups {
				for _, it := range strings.Split(g, ",") {
					p := strings.Split(it, ":")
					v, _ := strconv.ParseUint(p[1], 10, 64)
					note(hlib.UnHex(p[0]), v)
					// Known finding art-concurrent-lost-insert: under the real scheduler the ART may lose
					// an insert (never anything else: the scan below is still compared in full).  A lost
					// key is counted and re-inserted sequentially so that the rest of the case stays
					// comparable with the sequential model; the skiplist is never repaired.
					// Presence is decided on the full leaf scan, not with Search: Search has false
					// negatives for padding-conflated keys (finding art-radix-pad-conflate), and a
					// re-insert of a key that is present would itself add a duplicate leaf.
					k := kv.KeyWithTs(hlib.UnHex(p[0]), v)
					if present == nil {
						present = map[string]bool{}
						it := art.NewIterator(&utils.Options{IsAsc: true})
						for it.Rewind(); it.Valid(); it.Next() {
							present[string(it.Item().Entry().Key)] = true
						}
						it.Close()
					}
					if !present[string(k)] {
						e.concLostInserts++
						art.Add(&kv.Entry{Key: k, Value: hlib.UnHex(p[2])})
						present[string(k)] = true
					}
				}
			}
			out[i] = both(func(x memIndex) string { return iterate(x, true, nil, -1) })
		case "concstress":
			g, _ := strconv.Atoi(f[1])
			n, _ := strconv.Atoi(f[2])
			rounds, _ := strconv.Atoi(f[3])
			res := map[string]string{"s": "ok", "a": "ok"}
			for _, name := range []string{"s", "a"} {
				for r := 0; r < rounds; r++ {
					var x memIndex
					if name == "s" {
						x = utils.NewSkiplist(arena)
					} else {
						x = utils.NewART(arena)
					}
					lost := stress(x, g, n)
					if name == "a" {
						e.stressRounds++
						e.stressLost += lost
					}
					if lost != 0 {
						res[name] = "lost"
						break
					}
				}
			}
			out[i] = "s=" + res["s"] + " a=" + res["a"]
		default:
			out[i] = "bad-op"
		}
	}
	if sawConc {
		e.concCases++
	}
	if sawBig {
		e.bigCases++
	}
	if prefixPair {
		e.prefixCases++
	}
	if conflatePair {
		e.conflateCases++
	}
	if wide > 17 {
		e.wideCases++
	}
	return out
}

// stress: g goroutines insert n disjoint keys each (spread over all first bytes, so that inner
// nodes grow — are replaced by copies — while other goroutines insert below them); returns the
// number of inserted keys a Search no longer finds.
func stress(x memIndex, g, n int) int {
	var wg sync.WaitGroup
	start := make(chan struct{})
	key := func(t, j int) []byte {
		return kv.KeyWithTs([]byte{byte((j*7 + t) % 256), byte(t), byte(j >> 8), byte(j)}, 1)
	}
	for t := 0; t < g; t++ {
		wg.Add(1)
		go func(t int) {
			defer wg.Done()
			defer func() { _ = recover() }()
			<-start
			for j := 0; j < n; j++ {
				x.Add(&kv.Entry{Key: key(t, j), Value: []byte{1}})
			}
		}(t)
	}
	close(start)
	wg.Wait()
	lost := 0
	for t := 0; t < g; t++ {
		for j := 0; j < n; j++ {
			if len(x.Search(key(t, j)).Value) == 0 {
				lost++
			}
		}
	}
	return lost
}

func (e *engine) Nontrivial(ops, impl, model, spec []string) bool {
	adds, answered := 0, false
	bases := map[string]int{}
	related := false
	for i, op := range ops {
		f := strings.Fields(op)
		switch f[0] {
		case "add":
			adds++
			for b := range bases {
				if b == f[1] || strings.HasPrefix(b, f[1]) || strings.HasPrefix(f[1], b) {
					related = true
				}
			}
			bases[f[1]]++
		case "get":
			if !strings.Contains(impl[i], "none") {
				answered = true
			}
		case "seek", "scan", "conc":
			if !strings.Contains(impl[i], "=-") {
				answered = true
			}
		}
	}
	return adds >= 2 && related && answered
}

func main() {
	if os.Getenv("VERIF_IDX_DEBUG") != "" {
		debugDeterminism(1, 300)
		return
	}
	hlib.Main("index", &engine{})
}

// debugDeterminism runs generated cases repeatedly on the implementation (VERIF_IDX_DEBUG=1).
func debugDeterminism(seed uint64, n int) {
	e := &engine{}
	rng := hlib.NewRand(seed)
	for i := 0; i < n; i++ {
		ops := e.Gen(rng.Fork(), "quick")
		a := e.Exec(ops)
		for rep := 0; rep < 20; rep++ {
			b := e.Exec(ops)
			for j := range a {
				if a[j] != b[j] {
					fmt.Printf("case %d op %d rep %d %s\n  A=%s\n  B=%s\n", i, j, rep, ops[j], a[j], b[j])
					return
				}
			}
		}
	}
	fmt.Println("deterministic")
}

// Correspondence harness for the client engine: C28 (client two-phase commit across regions)
// and C30 (concurrent Redis clients).
//
// C28: the REAL raftstore/client.Client talks gRPC to an in-process TinyKv service whose
// handlers run the real raftstore/kv.Apply on a real NoKV DB (three regions = three key
// ranges, two stores per region so that NotLeader hints are meaningful).  Every RPC of the
// transaction's client is held by a client-side gRPC interceptor (the "gate") until the next
// op line says what the network does with it: deliver, drop, lose the reply, answer NotLeader,
// re-deliver an earlier one.  A second, ungated client plays the resolver (CheckTxnStatus /
// ResolveLocks / Get).  One op line = one step of the Lean machine (TwoPC.lean).
package main

import (
	"flag"
	"fmt"
	"os"
	"strconv"
	"strings"

	"verif/harness/hlib"
)

var prop = flag.String("prop", "C28", "property: C28|C30")

// seedMix decorrelates runs with different seeds: hlib derives case i of seed s from the same
// splitmix64 stream as case i+1 of seed s-1; the engines fold the seed into every case's PRNG.
var seedMix uint64

func main() {
	for i, a := range os.Args {
		if a == "-prop" && i+1 < len(os.Args) {
			*prop = os.Args[i+1]
		}
		if strings.HasPrefix(a, "-prop=") {
			*prop = strings.TrimPrefix(a, "-prop=")
		}
		if a == "-seed" && i+1 < len(os.Args) {
			n, _ := strconv.ParseUint(os.Args[i+1], 10, 64)
			seedMix = n * 0xD6E8FEB86659FD93
		}
	}
	switch *prop {
	case "C28":
		e := newTwoPCEngine()
		defer e.close()
		hlib.Main("client/C28", e)
	case "C30":
		e := newRedisEngine()
		defer e.close()
		hlib.Main("client/C30", e)
	default:
		fmt.Fprintln(os.Stderr, "unknown -prop")
		os.Exit(2)
	}
}
